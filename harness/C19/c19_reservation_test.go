//go:build verif

// C19 (unit 4, reservation) — the reservation assignment persisted on pods at pre-bind rebuilds, in a freshly started
// scheduler, the same per-reservation ledger (assigned pods, allocated amounts, what is still available).
// See /verif/DESIGN.md §1 C19. In-package harness (injected with -overlay).
package reservation

import (
	"context"
	"encoding/json"
	"flag"
	"fmt"
	"io"
	"sort"
	"strings"
	"sync"
	"testing"
	"time"

	corev1 "k8s.io/api/core/v1"
	"k8s.io/apimachinery/pkg/api/resource"
	metav1 "k8s.io/apimachinery/pkg/apis/meta/v1"
	"k8s.io/apimachinery/pkg/types"
	"k8s.io/client-go/tools/cache"
	"k8s.io/klog/v2"
	fwktype "k8s.io/kube-scheduler/framework"
	"k8s.io/kubernetes/pkg/scheduler/framework"
	"k8s.io/utils/ptr"
	"pgregory.net/rapid"

	apiext "github.com/koordinator-sh/koordinator/apis/extension"
	schedulingv1alpha1 "github.com/koordinator-sh/koordinator/apis/scheduling/v1alpha1"
	koordfake "github.com/koordinator-sh/koordinator/pkg/client/clientset/versioned/fake"
	koordinatorinformers "github.com/koordinator-sh/koordinator/pkg/client/informers/externalversions"
	"github.com/koordinator-sh/koordinator/pkg/scheduler/frameworkext"
	reservationutil "github.com/koordinator-sh/koordinator/pkg/util/reservation"
	"github.com/koordinator-sh/koordinator/pkg/verifkit/vk"
)

var c19Quiet sync.Once

func c19Silence() {
	c19Quiet.Do(func() {
		fs := flag.NewFlagSet("c19-klog", flag.ContinueOnError)
		klog.InitFlags(fs)
		_ = fs.Set("logtostderr", "false")
		_ = fs.Set("alsologtostderr", "false")
		_ = fs.Set("stderrthreshold", "FATAL")
		klog.SetOutput(io.Discard)
	})
}

// ---------------------------------------------------------------- the live plugin

type c19Handle struct {
	frameworkext.ExtendedHandle
	nominator frameworkext.ReservationNominator
}

func (h *c19Handle) GetReservationNominator() frameworkext.ReservationNominator { return h.nominator }

type c19World struct {
	cache   *reservationCache
	rh      *reservationEventHandler
	ph      *podEventHandler
	plg     *Plugin
	fakeNm  *frameworkext.FakeNominator
	indexer cache.Indexer
}

func c19NewWorld(t *rapid.T) *c19World {
	w := &c19World{}
	factory := koordinatorinformers.NewSharedInformerFactory(koordfake.NewSimpleClientset(), 0)
	rInformer := factory.Scheduling().V1alpha1().Reservations()
	w.indexer = rInformer.Informer().GetIndexer() // the lister reads the informer's store; filled directly, nothing is started
	w.cache = newReservationCache(rInformer.Lister())
	nm := newNominator(nil, rInformer.Lister())
	w.rh = &reservationEventHandler{cache: w.cache, rrNominator: nm}
	w.ph = &podEventHandler{cache: w.cache, nominator: nm}
	w.fakeNm = frameworkext.NewFakeReservationNominator()
	w.plg = &Plugin{handle: &c19Handle{nominator: w.fakeNm}, rLister: rInformer.Lister(), reservationCache: w.cache, nominator: nm}
	return w
}

// ---------------------------------------------------------------- objects

var c19Nodes = []string{"n0", "n1"}

func c19RL(cpuMilli, mem int64, gpu int64) corev1.ResourceList {
	rl := corev1.ResourceList{}
	if cpuMilli > 0 {
		rl[corev1.ResourceCPU] = *resource.NewMilliQuantity(cpuMilli, resource.DecimalSI)
	}
	if mem > 0 {
		rl[corev1.ResourceMemory] = *resource.NewQuantity(mem, resource.BinarySI)
	}
	if gpu > 0 {
		rl[apiext.ResourceGPU] = *resource.NewQuantity(gpu, resource.DecimalSI)
	}
	return rl
}

func c19RLStr(rl corev1.ResourceList) string {
	var ks []string
	for k := range rl {
		ks = append(ks, string(k))
	}
	sort.Strings(ks)
	var parts []string
	for _, k := range ks {
		q := rl[corev1.ResourceName(k)]
		parts = append(parts, k+"="+q.String())
	}
	return "{" + strings.Join(parts, " ") + "}"
}

func c19GenRequests(t *rapid.T, big bool, label string) corev1.ResourceList {
	hi := int64(4000)
	if big {
		hi = 16000
	}
	cpu := rapid.SampledFrom([]int64{0, 100, 250, 500, 1000, 1500, 2000, hi}).Draw(t, label+"CPU")
	mem := rapid.SampledFrom([]int64{0, 1 << 20, 1 << 30, 3 << 29, 4 << 30}).Draw(t, label+"Mem")
	gpu := rapid.SampledFrom([]int64{0, 0, 0, 50, 100}).Draw(t, label+"GPU")
	if cpu == 0 && mem == 0 && gpu == 0 {
		cpu = 1000
	}
	return c19RL(cpu, mem, gpu)
}

func c19NewReservation(t *rapid.T, idx int, name string) *schedulingv1alpha1.Reservation {
	r := &schedulingv1alpha1.Reservation{}
	r.Name = name // names are reused after a deletion (controller / template managed reservations); the uid never is
	r.UID = types.UID(fmt.Sprintf("uid-r%d", idx))
	req := c19GenRequests(t, true, "reserve")
	tpl := &corev1.PodTemplateSpec{}
	tpl.Namespace = "default"
	tpl.Spec.Containers = []corev1.Container{{Name: "c", Resources: corev1.ResourceRequirements{Requests: req, Limits: req.DeepCopy()}}}
	r.Spec.Template = tpl
	r.Spec.Owners = []schedulingv1alpha1.ReservationOwner{{LabelSelector: &metav1.LabelSelector{MatchLabels: map[string]string{"app": "x"}}}}
	r.Spec.TTL = &metav1.Duration{Duration: time.Hour}
	r.Spec.AllocateOnce = ptr.To(rapid.IntRange(0, 3).Draw(t, "allocateOnce") == 0)
	r.Spec.AllocatePolicy = rapid.SampledFrom([]schedulingv1alpha1.ReservationAllocatePolicy{"", schedulingv1alpha1.ReservationAllocatePolicyAligned, schedulingv1alpha1.ReservationAllocatePolicyRestricted}).Draw(t, "allocatePolicy")
	if rapid.Bool().Draw(t, "restrictedOptions") {
		// Only some of the reserved resources are restricted (and accounted) - for a Restricted reservation. The
		// annotation may also sit on a reservation with another policy, where it is documented to be ignored.
		res := rapid.SampledFrom([][]corev1.ResourceName{{corev1.ResourceCPU}, {corev1.ResourceCPU}, {corev1.ResourceMemory}, {corev1.ResourceCPU, corev1.ResourceMemory}, {apiext.ResourceGPU}}).Draw(t, "restrictedResources")
		_ = apiext.SetReservationRestrictedOptions(r, &apiext.ReservationRestrictedOptions{Resources: res})
	}
	r.Status.Phase = schedulingv1alpha1.ReservationPending
	return r
}

func c19NewPod(t *rapid.T, idx int) *corev1.Pod {
	pod := &corev1.Pod{}
	pod.Name = fmt.Sprintf("p%d", idx)
	pod.Namespace = "default"
	pod.UID = types.UID(fmt.Sprintf("uid-p%d", idx))
	pod.Labels = map[string]string{"app": "x"}
	req := c19GenRequests(t, false, "pod")
	pod.Spec.Containers = []corev1.Container{{Name: "c", Resources: corev1.ResourceRequirements{Requests: req, Limits: req.DeepCopy()}}}
	if rapid.IntRange(0, 5).Draw(t, "hostPort") == 0 {
		pod.Spec.Containers[0].Ports = []corev1.ContainerPort{{HostPort: int32(8000 + idx), ContainerPort: 80, Protocol: corev1.ProtocolTCP}}
	}
	return pod
}

type c19Obj struct {
	Pod  *corev1.Pod
	Resv *schedulingv1alpha1.Reservation
}

func (o c19Obj) copy() c19Obj {
	if o.Resv != nil {
		return c19Obj{Resv: o.Resv.DeepCopy()}
	}
	return c19Obj{Pod: o.Pod.DeepCopy()}
}

func (o c19Obj) String() string {
	if o.Resv != nil {
		return fmt.Sprintf("reservation %s/%s{phase=%q node=%q allocatable=%s once=%v policy=%q restrictedOptions=%s terminating=%v}", o.Resv.Name, o.Resv.UID, o.Resv.Status.Phase, o.Resv.Status.NodeName,
			c19RLStr(o.Resv.Status.Allocatable), ptr.Deref(o.Resv.Spec.AllocateOnce, true), o.Resv.Spec.AllocatePolicy, o.Resv.Annotations[apiext.AnnotationReservationRestrictedOptions], o.Resv.DeletionTimestamp != nil)
	}
	return fmt.Sprintf("pod %s{phase=%q node=%q req=%s allocated=%s}", o.Pod.Name, o.Pod.Status.Phase, o.Pod.Spec.NodeName,
		c19RLStr(o.Pod.Spec.Containers[0].Resources.Requests), o.Pod.Annotations[apiext.AnnotationReservationAllocated])
}

func c19ViaAPI(t *rapid.T, o c19Obj) c19Obj {
	if o.Resv != nil {
		b, err := json.Marshal(o.Resv)
		if err != nil {
			t.Fatalf("harness: marshal: %v", err)
		}
		out := &schedulingv1alpha1.Reservation{}
		if err := json.Unmarshal(b, out); err != nil {
			t.Fatalf("harness: unmarshal: %v", err)
		}
		return c19Obj{Resv: out}
	}
	b, err := json.Marshal(o.Pod)
	if err != nil {
		t.Fatalf("harness: marshal: %v", err)
	}
	out := &corev1.Pod{}
	if err := json.Unmarshal(b, out); err != nil {
		t.Fatalf("harness: unmarshal: %v", err)
	}
	return c19Obj{Pod: out}
}

// c19Unbound is the object as the API server held it between the pre-bind patch (reservation-allocated annotation
// written) and the bind; for a Reservation: created, not scheduled yet.
func c19Unbound(o c19Obj) c19Obj {
	n := o.copy()
	if n.Resv != nil {
		n.Resv.Status.NodeName = ""
		n.Resv.Status.Phase = schedulingv1alpha1.ReservationPending
		n.Resv.Status.Allocatable = nil
	} else {
		n.Pod.Spec.NodeName = ""
		n.Pod.Status.Phase = ""
	}
	return n
}

// ---------------------------------------------------------------- replay into a fresh scheduler

type c19Event struct {
	// add | dup-add | update | add-unbound (the informer first saw the object annotated but not bound / not scheduled)
	// | bind-update (the update old=unbound, new=bound that follows an add-unbound: same assignment)
	Kind string
	UID  types.UID
}

func c19Replay(objs map[types.UID]c19Obj, events []c19Event) *reservationCache {
	rc := newReservationCache(nil)
	nm := newNominator(nil, nil)
	rh := &reservationEventHandler{cache: rc, rrNominator: nm}
	ph := &podEventHandler{cache: rc, nominator: nm}
	for _, ev := range events {
		o := objs[ev.UID].copy()
		switch ev.Kind {
		case "add-unbound":
			u := c19Unbound(o)
			if u.Resv != nil {
				rh.OnAdd(u.Resv, true)
			} else {
				ph.OnAdd(u.Pod, true)
			}
		case "bind-update":
			u := c19Unbound(o)
			if u.Resv != nil {
				rh.OnUpdate(u.Resv, o.Resv)
			} else {
				ph.OnUpdate(u.Pod, o.Pod)
			}
		case "add", "dup-add":
			if o.Resv != nil {
				rh.OnAdd(o.Resv, true)
			} else {
				ph.OnAdd(o.Pod, true)
			}
		case "update":
			n := o.copy()
			if o.Resv != nil {
				n.Resv.ResourceVersion = "next"
				rh.OnUpdate(o.Resv, n.Resv)
			} else {
				n.Pod.ResourceVersion = "next"
				ph.OnUpdate(o.Pod, n.Pod)
			}
		}
	}
	return rc
}

// c19GenEvents draws a delivery order. reservationsFirst: every Reservation is delivered before any pod (what a
// scheduler that syncs the Reservation informer before the pod informer sees); otherwise any interleaving.
func c19GenEvents(t *rapid.T, objs map[types.UID]c19Obj, uids []types.UID, reservationsFirst bool) ([]c19Event, int) {
	var evs []c19Event
	if len(uids) > 0 {
		order := rapid.Permutation(uids).Draw(t, "deliveryOrder")
		if reservationsFirst {
			sort.SliceStable(order, func(i, j int) bool { return objs[order[i]].Resv != nil && objs[order[j]].Resv == nil })
		}
		for _, u := range order {
			evs = append(evs, c19Event{"add", u})
		}
	}
	extras := 0
	if len(uids) > 0 {
		extras = rapid.IntRange(0, 3).Draw(t, "extraEvents")
	}
	for i := 0; i < extras; i++ {
		u := rapid.SampledFrom(uids).Draw(t, "extraUID")
		kind := rapid.SampledFrom([]string{"dup-add", "update"}).Draw(t, "extraKind")
		lo := 0
		for j, ev := range evs {
			if ev.UID == u {
				lo = j + 1
				break
			}
		}
		if reservationsFirst && objs[u].Resv == nil { // keep pod events behind all reservation adds
			for j, ev := range evs {
				if ev.Kind == "add" && objs[ev.UID].Resv != nil && j+1 > lo {
					lo = j + 1
				}
			}
		}
		pos := rapid.IntRange(lo, len(evs)).Draw(t, "extraPos")
		evs = append(evs[:pos], append([]c19Event{{kind, u}}, evs[pos:]...)...)
	}
	// some objects are first seen between their pre-bind patch and their bind: Add(annotated, unbound), then the update
	// to the bound object, which carries the same assignment, before anything else about that object
	for _, u := range uids {
		if rapid.IntRange(0, 3).Draw(t, "seenBeforeBind") != 0 {
			continue
		}
		first, nextOfU := -1, len(evs)
		for j, ev := range evs {
			if ev.UID != u {
				continue
			}
			if first < 0 {
				first = j
			} else {
				nextOfU = j
				break
			}
		}
		evs[first].Kind = "add-unbound"
		lo := first + 1
		if reservationsFirst && objs[u].Resv == nil { // keep the pod's bind behind all reservation adds
			for j, ev := range evs {
				if objs[ev.UID].Resv != nil && (ev.Kind == "add" || ev.Kind == "add-unbound" || ev.Kind == "bind-update") && j+1 > lo {
					lo = j + 1
				}
			}
		}
		if lo > nextOfU {
			lo = nextOfU // an extra event of the pod follows immediately: bind right before it
		}
		if reservationsFirst && objs[u].Resv != nil { // a Reservation is Available before any pod event is delivered
			for j, ev := range evs {
				if objs[ev.UID].Resv == nil {
					if j < nextOfU {
						nextOfU = j
					}
					break
				}
			}
		}
		pos := rapid.IntRange(lo, nextOfU).Draw(t, "bindUpdatePos")
		evs = append(evs[:pos], append([]c19Event{{"bind-update", u}}, evs[pos:]...)...)
	}
	return evs, extras
}

// ---------------------------------------------------------------- comparison of two reservation ledgers

func c19RLDiff(a, b corev1.ResourceList) string {
	for k, qa := range a {
		qb := b[k]
		if qa.Cmp(qb) != 0 {
			return fmt.Sprintf("%s: %s vs %s", k, qa.String(), qb.String())
		}
	}
	for k, qb := range b {
		qa := a[k]
		if qa.Cmp(qb) != 0 {
			return fmt.Sprintf("%s: %s vs %s", k, qa.String(), qb.String())
		}
	}
	return ""
}

func c19Resource(r *framework.Resource) string {
	if r == nil {
		return "nil"
	}
	var ks []string
	for k := range r.ScalarResources {
		ks = append(ks, string(k))
	}
	sort.Strings(ks)
	s := fmt.Sprintf("cpu=%dm mem=%d", r.MilliCPU, r.Memory)
	for _, k := range ks {
		if v := r.ScalarResources[corev1.ResourceName(k)]; v != 0 {
			s += fmt.Sprintf(" %s=%d", k, v)
		}
	}
	return s
}

func c19IndexStr(m map[string]map[types.UID]struct{}) string {
	var parts []string
	for _, n := range c19Nodes {
		var us []string
		for u := range m[n] {
			us = append(us, string(u))
		}
		sort.Strings(us)
		if len(us) > 0 {
			parts = append(parts, n+":"+strings.Join(us, ","))
		}
	}
	return strings.Join(parts, " ")
}

func c19Compare(an string, a *reservationCache, bn string, b *reservationCache) (sig, msg string, about types.UID) {
	var uids []types.UID
	for u := range a.reservationInfos {
		uids = append(uids, u)
	}
	sort.Slice(uids, func(i, j int) bool { return uids[i] < uids[j] })
	for _, u := range uids {
		ra, rb := a.reservationInfos[u], b.reservationInfos[u]
		if rb == nil {
			return "reservation-lost", fmt.Sprintf("reservation %s (assigned %d pods, allocated %s) is in %s but absent from %s", u, len(ra.AssignedPods), c19RLStr(ra.Allocated), an, bn), u
		}
		var pa []string
		for p := range ra.AssignedPods {
			pa = append(pa, string(p))
		}
		sort.Strings(pa)
		for _, p := range pa {
			qb, ok := rb.AssignedPods[types.UID(p)]
			if !ok {
				return "assigned-pod-lost", fmt.Sprintf("reservation %s: pod %s (%s) is assigned in %s but not in %s", u, p, c19RLStr(ra.AssignedPods[types.UID(p)].Requests), an, bn), u
			}
			if d := c19RLDiff(ra.AssignedPods[types.UID(p)].Requests, qb.Requests); d != "" {
				return "assigned-amount-differs", fmt.Sprintf("reservation %s pod %s: %s (%s vs %s)", u, p, d, an, bn), u
			}
		}
		if len(ra.AssignedPods) != len(rb.AssignedPods) {
			return "assigned-pod-extra", fmt.Sprintf("reservation %s: %d pods assigned in %s, %d in %s", u, len(ra.AssignedPods), an, len(rb.AssignedPods), bn), u
		}
		if d := c19RLDiff(ra.Allocated, rb.Allocated); d != "" {
			return "allocated-differs", fmt.Sprintf("reservation %s allocated %s (%s vs %s)", u, d, an, bn), u
		}
		if d := c19RLDiff(ra.Allocatable, rb.Allocatable); d != "" {
			return "allocatable-differs", fmt.Sprintf("reservation %s allocatable %s (%s vs %s)", u, d, an, bn), u
		}
		if x, y := c19Resource(ra.Clone().GetAvailable()), c19Resource(rb.Clone().GetAvailable()); x != y {
			return "available-differs", fmt.Sprintf("reservation %s available %s=[%s] %s=[%s]", u, an, x, bn, y), u
		}
		if ra.IsMatchable() != rb.IsMatchable() {
			return "matchable-differs", fmt.Sprintf("reservation %s matchable %s=%v %s=%v", u, an, ra.IsMatchable(), bn, rb.IsMatchable()), u
		}
		if fmt.Sprint(ra.AllocatedPorts) != fmt.Sprint(rb.AllocatedPorts) && (len(ra.AllocatedPorts) > 0 || len(rb.AllocatedPorts) > 0) {
			if x, y := c19Ports(ra.AllocatedPorts), c19Ports(rb.AllocatedPorts); x != y {
				return "allocated-ports-differ", fmt.Sprintf("reservation %s allocated host ports %s=%s %s=%s", u, an, x, bn, y), u
			}
		}
	}
	// matchableOnNode / allocatedOnNode are refreshed lazily (only by Reservation events), so in the live scheduler
	// they depend on the event history, not on the ledger; they are counted by the caller, not asserted.
	return "", "", ""
}

func c19Ports(h fwktype.HostPortInfo) string {
	var out []string
	for ip, m := range h {
		for pp := range m {
			out = append(out, fmt.Sprintf("%s/%s/%d", ip, pp.Protocol, pp.Port))
		}
	}
	sort.Strings(out)
	return strings.Join(out, ",")
}

func c19Persisted(m map[types.UID]c19Obj) string {
	var us []string
	for u := range m {
		us = append(us, string(u))
	}
	sort.Strings(us)
	var parts []string
	for _, u := range us {
		parts = append(parts, m[types.UID(u)].String())
	}
	return strings.Join(parts, "; ")
}

// ---------------------------------------------------------------- histories through the real plugin, cut anywhere, replayed

func TestVerifC19ReservationReplay(t *testing.T) {
	c19Silence()
	rec := vk.New(t, "C19", "reservationReplay")
	ctx := context.Background()
	rapid.Check(t, func(t *rapid.T) {
		c := rec.Begin()
		defer c.End()
		w := c19NewWorld(t)
		// independent informers: in some cases the restarted scheduler gets pod events before Reservation events
		anyOrderCase := rapid.IntRange(0, 9).Draw(t, "podEventsMayPrecedeReservations") == 0

		persisted := map[types.UID]c19Obj{}
		assigned := map[types.UID]types.UID{} // model: active pod -> the active reservation Reserve assigned it to
		active := map[types.UID]bool{}        // model: reservations that are Available and not deleted
		next := 0
		var hist []string
		dead := false
		sawMulti, sawDup, sawPodFinished, sawSelfEvent, sawAnyOrder, sawDeadResv, sawOnce, sawRestricted, sawIndexDiff := false, false, false, false, false, false, false, false, false
		maxAssigned, checks := 0, 0
		sawDeleted, sawEarly, sawTerminating, sawTerminatingWithPods := false, false, false, false
		sawNameReused, sawIgnoredOptions, sawStale, sawStaleSameName := false, false, false, false
		deletedByName := map[string][]types.UID{} // reservation name -> uids of deleted reservations that carried it

		sorted := func(pred func(types.UID, c19Obj) bool) []types.UID {
			var out []types.UID
			for u, o := range persisted {
				if pred(u, o) {
					out = append(out, u)
				}
			}
			sort.Slice(out, func(i, j int) bool { return out[i] < out[j] })
			return out
		}
		all := func() []types.UID { return sorted(func(types.UID, c19Obj) bool { return true }) }

		// the harness' own statement of the ledger (no cache code involved): an active reservation holds exactly the
		// active pods Reserve assigned to it, and is charged the sum of their requests over the resources it accounts
		// (its allocatable resources; for a Restricted reservation with options, those of them the options name)
		modelCheck := func(fr *reservationCache) (string, string) {
			for _, u := range sorted(func(u types.UID, o c19Obj) bool { return o.Resv != nil && active[u] }) {
				r := persisted[u].Resv
				ri := fr.reservationInfos[u]
				if ri == nil {
					return "reservation-lost", fmt.Sprintf("active reservation %s is absent from the rebuilt cache", u)
				}
				names := map[corev1.ResourceName]bool{}
				if r.Spec.AllocatePolicy == schedulingv1alpha1.ReservationAllocatePolicyRestricted {
					if opts, err := apiext.GetReservationRestrictedOptions(r.Annotations); err == nil && opts != nil {
						for _, n := range opts.Resources {
							if _, ok := r.Status.Allocatable[n]; ok {
								names[n] = true
							}
						}
					}
				}
				if len(names) == 0 {
					for n := range r.Status.Allocatable {
						names[n] = true
					}
				}
				want := map[corev1.ResourceName]int64{}
				nPods := 0
				for _, pu := range sorted(func(pu types.UID, o c19Obj) bool { return o.Pod != nil && assigned[pu] == u }) {
					nPods++
					if _, ok := ri.AssignedPods[pu]; !ok {
						return "assigned-pod-lost", fmt.Sprintf("reservation %s: pod %s was assigned at Reserve and is still active, the rebuilt cache does not list it", u, pu)
					}
					for n, q := range persisted[pu].Pod.Spec.Containers[0].Resources.Requests {
						if names[n] {
							want[n] += q.MilliValue()
						}
					}
				}
				if len(ri.AssignedPods) != nPods {
					return "assigned-pod-extra", fmt.Sprintf("reservation %s: rebuilt cache lists %d pods, %d are assigned and active", u, len(ri.AssignedPods), nPods)
				}
				seen := map[corev1.ResourceName]bool{}
				for n := range want {
					seen[n] = true
				}
				for n := range ri.Allocated {
					seen[n] = true
				}
				var ns []string
				for n := range seen {
					ns = append(ns, string(n))
				}
				sort.Strings(ns)
				for _, n := range ns {
					q := ri.Allocated[corev1.ResourceName(n)]
					if q.MilliValue() != want[corev1.ResourceName(n)] {
						return "allocated-differs", fmt.Sprintf("reservation %s: rebuilt allocated %s=%dm, assigned active pods sum to %dm", u, n, q.MilliValue(), want[corev1.ResourceName(n)])
					}
				}
			}
			var extra []string
			for u := range fr.reservationInfos {
				if !active[u] {
					extra = append(extra, string(u))
				}
			}
			sort.Strings(extra)
			if len(extra) > 0 {
				return "reservation-resurrected", fmt.Sprintf("rebuilt cache holds reservations %v which are not active", extra)
			}
			return "", ""
		}

		crash := func(t *rapid.T) {
			checks++
			uids := all()
			reservationsFirst := !anyOrderCase || rapid.Bool().Draw(t, "reservationsFirst")
			evs, extras := c19GenEvents(t, persisted, uids, reservationsFirst)
			fresh := c19Replay(persisted, evs)
			if !reservationsFirst {
				sawAnyOrder = true
			}
			if extras > 0 {
				sawDup = true
			}
			for _, ev := range evs {
				if ev.Kind == "add-unbound" {
					sawEarly = true
				}
			}
			if c19IndexStr(w.cache.matchableOnNode) != c19IndexStr(fresh.matchableOnNode) || c19IndexStr(w.cache.allocatedOnNode) != c19IndexStr(fresh.allocatedOnNode) {
				sawIndexDiff = true
			}
			perResv := map[types.UID]int{}
			n := 0
			for _, r := range assigned {
				if active[r] {
					perResv[r]++
					n++
				}
			}
			for _, k := range perResv {
				if k >= 2 {
					sawMulti = true
				}
			}
			if n > maxAssigned {
				maxAssigned = n
			}
			compare := func(fr *reservationCache) (sig, msg string, vsModel bool) {
				sig, msg, _ = c19Compare("live", w.cache, "fresh", fr)
				if sig == "" {
					sig, msg, _ = c19Compare("fresh", fr, "live", w.cache)
				}
				if sig != "" {
					return sig, msg, false
				}
				sig, msg = modelCheck(fr)
				return sig, msg, true
			}
			sig, msg, vsModel := compare(fresh)
			if sig == "" {
				return
			}
			orderIsCause := false
			if !reservationsFirst {
				evs2 := append([]c19Event(nil), evs...)
				sort.SliceStable(evs2, func(i, j int) bool { return persisted[evs2[i].UID].Resv != nil && persisted[evs2[j].UID].Resv == nil })
				fresh2 := c19Replay(persisted, evs2)
				sig2, msg2, vsModel2 := compare(fresh2)
				if sig2 == "" {
					orderIsCause = true
				} else {
					sig, msg, vsModel, fresh, evs = sig2, msg2, vsModel2, fresh2, evs2
				}
			}
			full := "resv-replay:" + sig
			if orderIsCause {
				full += ":pod-event-before-reservation"
			} else if !vsModel {
				if s1, _ := modelCheck(fresh); s1 == "" {
					full += ":live-differs-from-model"
				}
			} else {
				msg = "(live and fresh agree) " + msg
			}
			if c.Violation(t, full, "%s\nhistory: %s\nreplay events: %v\npersisted: %s", msg, strings.Join(hist, "\n  "), evs, c19Persisted(persisted)) {
				dead = true
			}
		}

		reserve := func(t *rapid.T) { // a Reservation is scheduled and becomes Available
			if dead {
				return
			}
			// a name is free when no Reservation object (of any phase) carries it; freed names are reused
			inUse := map[string]bool{}
			for _, o := range persisted {
				if o.Resv != nil {
					inUse[o.Resv.Name] = true
				}
			}
			var free []string
			for _, n := range []string{"rn0", "rn1", "rn2"} {
				if !inUse[n] {
					free = append(free, n)
				}
			}
			name := fmt.Sprintf("r%d", next)
			if len(free) > 0 {
				name = rapid.SampledFrom(free).Draw(t, "reservationName")
			}
			r := c19NewReservation(t, next, name)
			next++
			if len(deletedByName[name]) > 0 {
				sawNameReused = true
			}
			if _, has := r.Annotations[apiext.AnnotationReservationRestrictedOptions]; has && r.Spec.AllocatePolicy != schedulingv1alpha1.ReservationAllocatePolicyRestricted {
				sawIgnoredOptions = true
			}
			node := rapid.SampledFrom(c19Nodes).Draw(t, "node")
			_ = w.indexer.Add(r.DeepCopy())
			w.rh.OnAdd(r.DeepCopy(), false) // pending: ignored by the cache
			reservePod := reservationutil.NewReservePod(r)
			cs := framework.NewCycleState()
			cs.Write(stateKey, &stateData{})
			if st := w.plg.Reserve(ctx, cs, reservePod, node); !st.IsSuccess() {
				_ = w.indexer.Delete(r)
				hist = append(hist, fmt.Sprintf("reserve %s -> %s", r.Name, st.Message()))
				return
			}
			if rapid.IntRange(0, 7).Draw(t, "bindFails") == 0 {
				w.plg.Unreserve(ctx, cs, reservePod, node)
				_ = w.indexer.Delete(r)
				hist = append(hist, fmt.Sprintf("reserve %s on %s, bind failed, unreserved", r.Name, node))
				return
			}
			bound := r.DeepCopy()
			if err := reservationutil.SetReservationAvailable(bound, node); err != nil { // what Bind writes
				t.Fatalf("harness: SetReservationAvailable: %v", err)
			}
			bound.Status.Conditions = nil // wall-clock stamps, irrelevant to the ledger
			o := c19Obj{Resv: bound}
			if rapid.IntRange(0, 3).Draw(t, "viaAPI") > 0 {
				o = c19ViaAPI(t, o)
			}
			_ = w.indexer.Update(o.Resv.DeepCopy())
			w.rh.OnUpdate(r.DeepCopy(), o.Resv.DeepCopy()) // the scheduler learns about Available from its informer
			persisted[r.UID] = o
			active[r.UID] = true
			if ptr.Deref(r.Spec.AllocateOnce, true) {
				sawOnce = true
			}
			if r.Spec.AllocatePolicy == schedulingv1alpha1.ReservationAllocatePolicyRestricted {
				sawRestricted = true
			}
			hist = append(hist, fmt.Sprintf("reserve -> %s", o))
		}
		schedulePod := func(t *rapid.T) {
			if dead {
				return
			}
			pod := c19NewPod(t, next)
			next++
			// The pod may already carry a reservation-allocated annotation of a reservation that no longer exists: an
			// earlier binding cycle applied its pre-bind patch, failed, and the clean-up patch did not get through
			// (unreservePod gives up silently on API errors), or the pod was created from a copy of another pod.
			staleName := ""
			if names := vk.SortedKeys(deletedByName); len(names) > 0 && rapid.IntRange(0, 2).Draw(t, "staleAnnotation") == 0 {
				staleName = rapid.SampledFrom(names).Draw(t, "staleName")
				gone := &schedulingv1alpha1.Reservation{}
				gone.Name, gone.UID = staleName, rapid.SampledFrom(deletedByName[staleName]).Draw(t, "staleUID")
				apiext.SetReservationAllocated(pod, gone)
				sawStale = true
			}
			// nominate any reservation the live cache considers matchable (the nominator's choice is not the subject here)
			var candidates []types.UID
			for _, u := range sorted(func(u types.UID, o c19Obj) bool { return o.Resv != nil && active[u] }) {
				if ri := w.cache.getReservationInfoByUID(u); ri != nil && ri.IsMatchable() {
					candidates = append(candidates, u)
				}
			}
			useResv := len(candidates) > 0 && rapid.IntRange(0, 5).Draw(t, "useReservation") > 0
			node := rapid.SampledFrom(c19Nodes).Draw(t, "podNode")
			var ruid types.UID
			if useResv {
				ruid = rapid.SampledFrom(candidates).Draw(t, "reservation")
				for _, cu := range candidates { // a re-created reservation of the same name is the likely match for such a pod
					if staleName != "" && persisted[cu].Resv.Name == staleName && rapid.IntRange(0, 3).Draw(t, "preferSameName") > 0 {
						ruid = cu
					}
				}
				node = persisted[ruid].Resv.Status.NodeName
				w.fakeNm.AddNominatedReservation(pod, node, w.cache.getReservationInfoByUID(ruid))
			}
			bindFails := rapid.IntRange(0, 7).Draw(t, "bindFails") == 0
			selfEvent := rapid.Bool().Draw(t, "liveSeesOwnBindEvent")
			cs := framework.NewCycleState()
			cs.Write(stateKey, &stateData{})
			if st := w.plg.Reserve(ctx, cs, pod, node); !st.IsSuccess() {
				w.plg.Unreserve(ctx, cs, pod, node)
				hist = append(hist, fmt.Sprintf("schedule %s via %q -> reserve: %s", pod.Name, ruid, st.Message()))
				return
			}
			if bindFails {
				w.plg.Unreserve(ctx, cs, pod, node)
				w.fakeNm.RemoveNominatedReservations(pod)
				hist = append(hist, fmt.Sprintf("schedule %s via %q, bind failed, unreserved", pod.Name, ruid))
				return
			}
			p := pod.DeepCopy()
			if st := w.plg.PreBind(ctx, cs, p, node); !st.IsSuccess() {
				w.plg.Unreserve(ctx, cs, pod, node)
				hist = append(hist, fmt.Sprintf("schedule %s via %q -> prebind: %s", pod.Name, ruid, st.Message()))
				return
			}
			p.Spec.NodeName = node
			o := c19Obj{Pod: p}
			if rapid.IntRange(0, 3).Draw(t, "viaAPI") > 0 {
				o = c19ViaAPI(t, o)
			}
			persisted[pod.UID] = o
			if useResv {
				assigned[pod.UID] = ruid
				if staleName != "" && persisted[ruid].Resv.Name == staleName {
					sawStaleSameName = true
				}
			}
			w.fakeNm.RemoveNominatedReservations(pod)
			if selfEvent {
				w.ph.OnUpdate(pod.DeepCopy(), o.Pod.DeepCopy())
				sawSelfEvent = true
			}
			hist = append(hist, fmt.Sprintf("schedule -> %s selfEvent=%v", o, selfEvent))
		}
		t.Repeat(map[string]func(*rapid.T){
			"reserve":      reserve, // several names: weights
			"reserve2":     reserve,
			"schedulePod":  schedulePod,
			"schedulePod2": schedulePod,
			"schedulePod3": schedulePod,
			"schedulePod4": schedulePod,
			"schedulePod5": schedulePod,
			"deletePod": func(t *rapid.T) {
				if dead {
					return
				}
				uids := sorted(func(u types.UID, o c19Obj) bool { return o.Pod != nil })
				if len(uids) == 0 {
					t.Skip("no pod")
				}
				u := rapid.SampledFrom(uids).Draw(t, "uid")
				if rapid.IntRange(0, 3).Draw(t, "tombstone") == 0 {
					w.ph.OnDelete(cache.DeletedFinalStateUnknown{Key: "k", Obj: persisted[u].Pod.DeepCopy()})
				} else {
					w.ph.OnDelete(persisted[u].Pod.DeepCopy())
				}
				delete(persisted, u)
				delete(assigned, u)
				sawDeleted = true
				hist = append(hist, fmt.Sprintf("delete %s", u))
			},
			// A pod that finishes (phase Succeeded/Failed) leaves the scheduler's pod informer, which carries the field
			// selector status.phase!=Succeeded,status.phase!=Failed (scheduler.NewInformerFactory): the handler gets a
			// DELETE and a restarted scheduler never sees the object.
			"finishPod": func(t *rapid.T) {
				if dead {
					return
				}
				uids := sorted(func(u types.UID, o c19Obj) bool { return o.Pod != nil })
				if len(uids) == 0 {
					t.Skip("no running pod")
				}
				u := rapid.SampledFrom(uids).Draw(t, "uid")
				phase := rapid.SampledFrom([]corev1.PodPhase{corev1.PodSucceeded, corev1.PodFailed}).Draw(t, "phase")
				tomb := rapid.IntRange(0, 3).Draw(t, "tombstone") == 0
				if tomb {
					w.ph.OnDelete(cache.DeletedFinalStateUnknown{Key: "k", Obj: persisted[u].Pod.DeepCopy()})
				} else {
					w.ph.OnDelete(persisted[u].Pod.DeepCopy())
				}
				delete(persisted, u)
				delete(assigned, u)
				sawPodFinished = true
				hist = append(hist, fmt.Sprintf("finish pod %s (%s): delivered as delete (tombstone=%v), object leaves the informer", u, phase, tomb))
			},
			// Somebody deletes a Reservation that carries a finalizer: it keeps phase Available on its node with a
			// deletionTimestamp while its owner pods keep running. It still owns them (and no new pod is admitted).
			"markTerminating": func(t *rapid.T) {
				if dead {
					return
				}
				uids := sorted(func(u types.UID, o c19Obj) bool { return o.Resv != nil && active[u] && o.Resv.DeletionTimestamp == nil })
				if len(uids) == 0 {
					t.Skip("no active reservation")
				}
				u := rapid.SampledFrom(uids).Draw(t, "uid")
				old := persisted[u]
				n := old.copy()
				ts := metav1.NewTime(time.Unix(1700000000, 0).UTC()) // fixed stamp: nothing reads the wall clock
				n.Resv.DeletionTimestamp = &ts
				n.Resv.Finalizers = []string{"example.com/keep-until-owners-drained"}
				w.rh.OnUpdate(old.Resv.DeepCopy(), n.Resv.DeepCopy())
				_ = w.indexer.Update(n.Resv.DeepCopy())
				persisted[u] = n
				sawTerminating = true
				for _, r := range assigned {
					if r == u {
						sawTerminatingWithPods = true
					}
				}
				hist = append(hist, fmt.Sprintf("delete requested for reservation %s: finalizer keeps it Available with a deletionTimestamp", u))
			},
			"endReservation": func(t *rapid.T) { // consumed / expired / deleted: the plugin handler, then the scheduler-level handler drops it
				if dead {
					return
				}
				uids := sorted(func(u types.UID, o c19Obj) bool { return o.Resv != nil && active[u] })
				if len(uids) == 0 {
					t.Skip("no active reservation")
				}
				u := rapid.SampledFrom(uids).Draw(t, "uid")
				old := persisted[u]
				how := rapid.SampledFrom([]string{"Succeeded", "Failed", "deleted"}).Draw(t, "how")
				if how == "deleted" {
					w.rh.OnDelete(old.Resv.DeepCopy())
					w.cache.DeleteReservation(old.Resv.DeepCopy())
					_ = w.indexer.Delete(old.Resv)
					deletedByName[old.Resv.Name] = append(deletedByName[old.Resv.Name], u)
					delete(persisted, u)
				} else {
					n := old.copy()
					n.Resv.Status.Phase = schedulingv1alpha1.ReservationPhase(how)
					w.rh.OnUpdate(old.Resv.DeepCopy(), n.Resv.DeepCopy())
					w.cache.DeleteReservation(n.Resv.DeepCopy())
					_ = w.indexer.Update(n.Resv.DeepCopy())
					persisted[u] = n
				}
				delete(active, u)
				sawDeadResv = true
				hist = append(hist, fmt.Sprintf("end reservation %s (%s)", u, how))
			},
			"touch": func(t *rapid.T) {
				if dead {
					return
				}
				uids := all()
				if len(uids) == 0 {
					t.Skip("nothing")
				}
				u := rapid.SampledFrom(uids).Draw(t, "uid")
				old := persisted[u]
				n := old.copy()
				if n.Resv != nil {
					if n.Resv.Labels == nil {
						n.Resv.Labels = map[string]string{}
					}
					n.Resv.Labels["touched"] = fmt.Sprint(len(hist))
					w.rh.OnUpdate(old.Resv.DeepCopy(), n.Resv.DeepCopy())
					_ = w.indexer.Update(n.Resv.DeepCopy())
				} else {
					n.Pod.Labels["touched"] = fmt.Sprint(len(hist))
					w.ph.OnUpdate(old.Pod.DeepCopy(), n.Pod.DeepCopy())
				}
				persisted[u] = n
				hist = append(hist, fmt.Sprintf("touch %s", u))
			},
			"": func(t *rapid.T) {
				if dead {
					return
				}
				crash(t)
			},
		})
		c.ClassIf(sawMulti, "reservation-with>=2-assigned-pods")
		c.ClassIf(sawDup, "duplicate-or-noop-event")
		c.ClassIf(sawPodFinished, "pod-finished(delivered-as-delete)")
		c.ClassIf(sawDeleted, "pod-deleted")
		c.ClassIf(sawEarly, "replay:add-unbound-then-bind-update")
		c.ClassIf(sawTerminating, "reservation-terminating-but-available")
		c.ClassIf(sawNameReused, "reservation-name-reused-with-new-uid")
		c.ClassIf(sawIgnoredOptions, "restricted-options-on-non-restricted-reservation")
		c.ClassIf(sawStale, "pod-with-stale-reservation-allocated-annotation")
		c.ClassIf(sawStaleSameName, "stale-annotation-names-the-re-created-reservation-the-pod-is-bound-to")
		c.ClassIf(sawTerminatingWithPods, "terminating-reservation-with-assigned-pods")
		c.ClassIf(sawSelfEvent, "live-saw-own-bind-event")
		c.ClassIf(sawAnyOrder, "pod-event-before-reservation")
		c.ClassIf(sawDeadResv, "reservation-ended-with-history")
		c.ClassIf(sawOnce, "allocate-once")
		c.ClassIf(sawRestricted, "restricted-policy")
		c.ClassIf(sawIndexDiff, "lazy-node-index-differs(not asserted)")
		c.ClassIf(maxAssigned >= 2, "crash-with>=2-assigned-pods")
		c.ClassIf(maxAssigned == 0, "never-any-assignment")
		if maxAssigned >= 2 && sawDup && sawMulti {
			c.NonTrivial(hist)
		}
		c.Sample(map[string]any{"history": hist, "crashPointsChecked": checks, "persistedAtEnd": c19Persisted(persisted)})
	})
}
