//go:build verif

// C19 (unit 1, codecs) — everything the scheduler persists on a pod / reservation at bind time can be read back to
// exactly the value that was written. See /verif/DESIGN.md §1 C19. In-package harness (injected with -overlay).
package extension

import (
	"encoding/json"
	"fmt"
	"sort"
	"strings"
	"testing"
	"unicode"

	corev1 "k8s.io/api/core/v1"
	"k8s.io/apimachinery/pkg/api/resource"
	metav1 "k8s.io/apimachinery/pkg/apis/meta/v1"
	"k8s.io/apimachinery/pkg/types"
	"pgregory.net/rapid"

	schedulingv1alpha1 "github.com/koordinator-sh/koordinator/apis/scheduling/v1alpha1"
	"github.com/koordinator-sh/koordinator/pkg/verifkit/vk"
)

// ---------------------------------------------------------------- generators

// c19GenCPUList produces a Linux cpu-list string the way an allocator result prints: sorted, maximal ranges,
// singles, gaps; ids 0..4095. Returns the string and the ids.
func c19GenCPUList(t *rapid.T, label string) (string, []int) {
	kind := rapid.IntRange(0, 5).Draw(t, label+"Kind")
	ids := map[int]bool{}
	switch kind {
	case 0: // empty: pod with NUMA amounts only
	case 1: // one id
		ids[rapid.IntRange(0, 4095).Draw(t, label+"One")] = true
	case 2: // one range
		a := rapid.IntRange(0, 4000).Draw(t, label+"A")
		n := rapid.IntRange(2, 95).Draw(t, label+"N")
		for i := a; i < a+n; i++ {
			ids[i] = true
		}
	default: // arbitrary subset of a window: ranges, singles and gaps mixed
		base := rapid.SampledFrom([]int{0, 0, 0, 60, 1000, 4032}).Draw(t, label+"Base")
		mask := rapid.SliceOfN(rapid.Bool(), 1, 64).Draw(t, label+"Mask")
		for i, b := range mask {
			if b {
				ids[base+i] = true
			}
		}
	}
	var s []int
	for id := range ids {
		s = append(s, id)
	}
	sort.Ints(s)
	var parts []string
	for i := 0; i < len(s); {
		j := i
		for j+1 < len(s) && s[j+1] == s[j]+1 {
			j++
		}
		if j == i {
			parts = append(parts, fmt.Sprint(s[i]))
		} else {
			parts = append(parts, fmt.Sprintf("%d-%d", s[i], s[j]))
		}
		i = j + 1
	}
	return strings.Join(parts, ","), s
}

func c19GenQuantity(t *rapid.T, label string) resource.Quantity {
	switch rapid.IntRange(0, 8).Draw(t, label+"QKind") {
	case 0:
		return *resource.NewQuantity(0, resource.DecimalSI)
	case 1:
		return *resource.NewMilliQuantity(0, resource.DecimalSI)
	case 2:
		return *resource.NewQuantity(rapid.Int64Range(1, 512).Draw(t, label+"Int"), resource.DecimalSI)
	case 3:
		return *resource.NewMilliQuantity(rapid.Int64Range(1, 512000).Draw(t, label+"Milli"), resource.DecimalSI)
	case 4:
		return *resource.NewQuantity(rapid.Int64Range(1, 1<<20).Draw(t, label+"Mi")<<20, resource.BinarySI)
	case 5:
		return *resource.NewQuantity(rapid.Int64Range(1, 1<<62).Draw(t, label+"Big"), resource.BinarySI)
	case 6:
		return *resource.NewQuantity(rapid.Int64Range(0, 1<<40).Draw(t, label+"Bytes"), resource.BinarySI)
	case 7:
		return resource.MustParse(rapid.SampledFrom([]string{"0", "100", "50", "1", "16Gi", "1.5Gi", "0.5", "1e3", "100m", "1Ki", "200Gi", "8000Mi", "1250m", "123456789", "1E", "3k"}).Draw(t, label+"Lit"))
	default:
		return *resource.NewScaledQuantity(rapid.Int64Range(0, 1<<30).Draw(t, label+"Sc"), resource.Scale(rapid.SampledFrom([]int{-3, 0, 3, 6, 9}).Draw(t, label+"Scale")))
	}
}

var c19NUMAResourceNames = []corev1.ResourceName{corev1.ResourceCPU, corev1.ResourceMemory, "hugepages-2Mi", "hugepages-1Gi", BatchCPU, BatchMemory, "example.com/foo"}
var c19DeviceResourceNames = []corev1.ResourceName{ResourceGPUCore, ResourceGPUMemory, ResourceGPUMemoryRatio, ResourceGPU, ResourceGPUShared, ResourceRDMA, ResourceFPGA, ResourceNvidiaGPU, ResourceHuaweiNPUCore}

func c19GenResourceList(t *rapid.T, names []corev1.ResourceName, min int, label string) corev1.ResourceList {
	n := rapid.IntRange(min, 4).Draw(t, label+"N")
	if n == 0 {
		if rapid.Bool().Draw(t, label+"Nil") {
			return nil
		}
		return corev1.ResourceList{}
	}
	rl := corev1.ResourceList{}
	for i := 0; i < n; i++ {
		rl[rapid.SampledFrom(names).Draw(t, label+"Name")] = c19GenQuantity(t, label)
	}
	return rl
}

var c19UnicodeRanges = []*unicode.RangeTable{unicode.Latin, unicode.Han, unicode.Punct, unicode.Symbol, unicode.Zs}

// strings that a Device CR / object meta can carry: valid UTF-8, including characters JSON must escape
var c19StringGen = rapid.OneOf(
	rapid.SampledFrom([]string{"", "0000:09:00.0", "GPU-8d3ad5e4-4a07-0a1a-0b1b-0c1c0d1d0e1e", "mlx5_0", "a\"b", "back\\slash", "<html>&amp;", "tab\there", "line\nbreak", "uni-✓- -é", "null", "{}", " lead", "trail "}),
	rapid.StringMatching(`[a-z0-9]([-a-z0-9.]{0,20}[a-z0-9])?`),
	rapid.StringOfN(rapid.RuneFrom(nil, c19UnicodeRanges...), 0, 12, -1),
)

func c19GenResourceStatus(t *rapid.T) (*ResourceStatus, []int) {
	cpus, ids := c19GenCPUList(t, "cpuset")
	rs := &ResourceStatus{CPUSet: cpus}
	n := rapid.IntRange(0, 4).Draw(t, "numaN")
	// NUMA node ids as an allocator emits them: distinct, ascending, but not necessarily 0..k-1
	next := 0
	for i := 0; i < n; i++ {
		next += rapid.IntRange(0, 2).Draw(t, "numaGap")
		rs.NUMANodeResources = append(rs.NUMANodeResources, NUMANodeResource{Node: int32(next), Resources: c19GenResourceList(t, c19NUMAResourceNames, 0, "numaRes")})
		next++
	}
	return rs, ids
}

func c19GenResourceSpec(t *rapid.T) *ResourceSpec {
	bind := []CPUBindPolicy{"", CPUBindPolicyDefault, CPUBindPolicyFullPCPUs, CPUBindPolicySpreadByPCPUs, CPUBindPolicyConstrainedBurst}
	excl := []CPUExclusivePolicy{"", CPUExclusivePolicyNone, CPUExclusivePolicyPCPULevel, CPUExclusivePolicyNUMANodeLevel}
	return &ResourceSpec{
		RequiredCPUBindPolicy:       rapid.SampledFrom(bind).Draw(t, "reqBind"),
		PreferredCPUBindPolicy:      rapid.SampledFrom(bind).Draw(t, "prefBind"),
		PreferredCPUExclusivePolicy: rapid.SampledFrom(excl).Draw(t, "excl"),
	}
}

var c19DeviceTypes = []schedulingv1alpha1.DeviceType{schedulingv1alpha1.GPU, schedulingv1alpha1.RDMA, schedulingv1alpha1.FPGA, "npu", "xpu"}

func c19GenDeviceAllocations(t *rapid.T) DeviceAllocations {
	switch rapid.IntRange(0, 9).Draw(t, "daShape") {
	case 0:
		return DeviceAllocations{}
	}
	da := DeviceAllocations{}
	nTypes := rapid.IntRange(1, 3).Draw(t, "daTypes")
	for i := 0; i < nTypes; i++ {
		dt := rapid.SampledFrom(c19DeviceTypes).Draw(t, "daType")
		nDev := rapid.IntRange(0, 4).Draw(t, "daDevs")
		list := []*DeviceAllocation{}
		minor := int32(rapid.IntRange(0, 3).Draw(t, "minor0"))
		for j := 0; j < nDev; j++ {
			a := &DeviceAllocation{Minor: minor, Resources: c19GenResourceList(t, c19DeviceResourceNames, 0, "devRes")}
			minor += int32(rapid.IntRange(1, 3).Draw(t, "minorGap"))
			if rapid.Bool().Draw(t, "hasID") {
				a.ID = c19StringGen.Draw(t, "id")
			}
			switch rapid.IntRange(0, 4).Draw(t, "extKind") {
			case 0, 1: // none
			case 2: // VFs (rdma / fpga)
				ext := &DeviceAllocationExtension{}
				nvf := rapid.IntRange(0, 3).Draw(t, "nVF")
				for k := 0; k < nvf; k++ {
					ext.VirtualFunctions = append(ext.VirtualFunctions, VirtualFunction{Minor: rapid.IntRange(-1, 7).Draw(t, "vfMinor"), BusID: c19StringGen.Draw(t, "vfBus")})
				}
				a.Extension = ext
			case 3: // shared-resource template (huawei npu)
				a.Extension = &DeviceAllocationExtension{GPUSharedResourceTemplate: c19StringGen.Draw(t, "tpl")}
			default: // both
				a.Extension = &DeviceAllocationExtension{GPUSharedResourceTemplate: c19StringGen.Draw(t, "tpl"),
					VirtualFunctions: []VirtualFunction{{Minor: rapid.IntRange(0, 7).Draw(t, "vfMinor"), BusID: c19StringGen.Draw(t, "vfBus")}}}
			}
			list = append(list, a)
		}
		da[dt] = list
	}
	return da
}

// ---------------------------------------------------------------- independent comparison (semantic equality)

func c19DiffRL(a, b corev1.ResourceList) string {
	for k, qa := range a {
		qb, ok := b[k]
		if !ok {
			return fmt.Sprintf("resource %q missing after read-back (wrote %s)", k, qa.String())
		}
		if qa.Cmp(qb) != 0 {
			return fmt.Sprintf("resource %q wrote %s read %s", k, qa.String(), qb.String())
		}
	}
	for k, qb := range b {
		if _, ok := a[k]; !ok {
			return fmt.Sprintf("resource %q appeared after read-back (%s)", k, qb.String())
		}
	}
	return ""
}

func c19DiffResourceStatus(w, r *ResourceStatus) string {
	if r == nil {
		return "read back nil"
	}
	if w.CPUSet != r.CPUSet {
		return fmt.Sprintf("cpuset wrote %q read %q", w.CPUSet, r.CPUSet)
	}
	if len(w.NUMANodeResources) != len(r.NUMANodeResources) {
		return fmt.Sprintf("numa entries wrote %d read %d", len(w.NUMANodeResources), len(r.NUMANodeResources))
	}
	for i := range w.NUMANodeResources {
		if w.NUMANodeResources[i].Node != r.NUMANodeResources[i].Node {
			return fmt.Sprintf("numa entry %d node wrote %d read %d", i, w.NUMANodeResources[i].Node, r.NUMANodeResources[i].Node)
		}
		if d := c19DiffRL(w.NUMANodeResources[i].Resources, r.NUMANodeResources[i].Resources); d != "" {
			return fmt.Sprintf("numa entry %d (node %d): %s", i, w.NUMANodeResources[i].Node, d)
		}
	}
	return ""
}

func c19DiffDeviceAllocations(w, r DeviceAllocations) string {
	if len(w) != len(r) {
		return fmt.Sprintf("device types wrote %d read %d", len(w), len(r))
	}
	for dt, wl := range w {
		rl, ok := r[dt]
		if !ok {
			return fmt.Sprintf("device type %q lost", dt)
		}
		if len(wl) != len(rl) {
			return fmt.Sprintf("type %q: wrote %d allocations read %d", dt, len(wl), len(rl))
		}
		for i := range wl {
			a, b := wl[i], rl[i]
			if (a == nil) != (b == nil) {
				return fmt.Sprintf("type %q[%d]: nil-ness differs", dt, i)
			}
			if a == nil {
				continue
			}
			if a.Minor != b.Minor {
				return fmt.Sprintf("type %q[%d]: minor wrote %d read %d", dt, i, a.Minor, b.Minor)
			}
			if a.ID != b.ID {
				return fmt.Sprintf("type %q[%d]: id wrote %q read %q", dt, i, a.ID, b.ID)
			}
			if d := c19DiffRL(a.Resources, b.Resources); d != "" {
				return fmt.Sprintf("type %q[%d] minor %d: %s", dt, i, a.Minor, d)
			}
			var avf, bvf []VirtualFunction
			var atpl, btpl string
			if a.Extension != nil {
				avf, atpl = a.Extension.VirtualFunctions, a.Extension.GPUSharedResourceTemplate
			}
			if b.Extension != nil {
				bvf, btpl = b.Extension.VirtualFunctions, b.Extension.GPUSharedResourceTemplate
			}
			if atpl != btpl {
				return fmt.Sprintf("type %q[%d]: template wrote %q read %q", dt, i, atpl, btpl)
			}
			if len(avf) != len(bvf) {
				return fmt.Sprintf("type %q[%d]: VFs wrote %d read %d", dt, i, len(avf), len(bvf))
			}
			for k := range avf {
				if avf[k] != bvf[k] {
					return fmt.Sprintf("type %q[%d]: VF %d wrote %+v read %+v", dt, i, k, avf[k], bvf[k])
				}
			}
		}
	}
	return ""
}

func c19DA(da DeviceAllocations) string {
	b, _ := json.Marshal(da)
	return string(b)
}

// ---------------------------------------------------------------- (1) written value == read-back value

// One generated "bound object" carries every allocation annotation at once, as a pod that used cpuset + NUMA + devices
// + a reservation does; optionally the whole object is passed through the API machinery's JSON encoding, as it is
// between the scheduler's patch and the next scheduler's informer.
func TestVerifC19BindAnnotationsRoundTrip(t *testing.T) {
	rec := vk.New(t, "C19", "codecRoundTrip")
	rapid.Check(t, func(t *rapid.T) {
		c := rec.Begin()
		defer c.End()
		rs, ids := c19GenResourceStatus(t)
		spec := c19GenResourceSpec(t)
		da := c19GenDeviceAllocations(t)
		rName := c19StringGen.Draw(t, "reservationName")
		rUID := types.UID(c19StringGen.Draw(t, "reservationUID"))
		asReservation := rapid.IntRange(0, 3).Draw(t, "objectIsReservation") == 0
		viaAPI := rapid.Bool().Draw(t, "viaObjectJSON")
		preAnn := rapid.IntRange(0, 2).Draw(t, "preExistingAnnotations")
		order := rapid.Permutation([]int{0, 1, 2, 3}).Draw(t, "setOrder")

		var obj metav1.Object
		pod := &corev1.Pod{}
		pod.Name, pod.Namespace, pod.UID = "p", "default", "uid-p"
		resv := &schedulingv1alpha1.Reservation{}
		resv.Name, resv.UID = "r", "uid-r"
		if asReservation {
			obj = resv
		} else {
			obj = pod
		}
		switch preAnn {
		case 1:
			obj.SetAnnotations(map[string]string{})
		case 2:
			obj.SetAnnotations(map[string]string{"other": "x", AnnotationResourceStatus: `{"cpuset":"77"}`, AnnotationDeviceAllocated: `{"gpu":[{"minor":9,"resources":null}]}`})
		}
		wroteReservation := false
		for _, step := range order {
			switch step {
			case 0:
				if err := SetResourceSpec(obj, spec); err != nil {
					c.Violation(t, "codec:set-error", "SetResourceSpec(%+v): %v", spec, err)
					return
				}
			case 1:
				if err := SetResourceStatus(obj, rs); err != nil {
					c.Violation(t, "codec:set-error", "SetResourceStatus(%+v): %v", rs, err)
					return
				}
			case 2:
				if err := SetDeviceAllocations(obj, da); err != nil {
					c.Violation(t, "codec:set-error", "SetDeviceAllocations(%s): %v", c19DA(da), err)
					return
				}
			case 3:
				if !asReservation { // only pods are assigned to reservations
					owner := &schedulingv1alpha1.Reservation{}
					owner.Name, owner.UID = rName, rUID
					SetReservationAllocated(pod, owner)
					wroteReservation = true
				}
			}
		}
		if viaAPI {
			b, err := json.Marshal(obj)
			if err != nil {
				c.Violation(t, "codec:object-marshal-error", "%v", err)
				return
			}
			if asReservation {
				resv = &schedulingv1alpha1.Reservation{}
				err = json.Unmarshal(b, resv)
				obj = resv
			} else {
				pod = &corev1.Pod{}
				err = json.Unmarshal(b, pod)
				obj = pod
			}
			if err != nil {
				c.Violation(t, "codec:object-unmarshal-error", "%v", err)
				return
			}
		}
		ann := obj.GetAnnotations()

		multi := len(rs.NUMANodeResources) >= 2
		nDev := 0
		for _, l := range da {
			nDev += len(l)
		}
		hasZero := false
		for _, r := range rs.NUMANodeResources {
			for _, q := range r.Resources {
				if q.IsZero() {
					hasZero = true
				}
			}
		}
		hasExt := false
		for _, l := range da {
			for _, a := range l {
				if a.Extension != nil {
					hasExt = true
				}
			}
		}
		c.ClassIf(len(ids) == 0, "cpuset-empty")
		c.ClassIf(len(ids) == 1, "cpuset-single-id")
		c.ClassIf(strings.Contains(rs.CPUSet, ",") && strings.Contains(rs.CPUSet, "-"), "cpuset-ranges-and-gaps")
		c.ClassIf(multi, "numa>=2")
		c.ClassIf(len(rs.NUMANodeResources) > 0 && rs.NUMANodeResources[0].Node != 0, "numa-first-id-not-0")
		c.ClassIf(hasZero, "numa-zero-amount")
		c.ClassIf(len(da) >= 2, "device-multi-type")
		c.ClassIf(nDev >= 2, "device-multi-device")
		c.ClassIf(hasExt, "device-extension")
		c.ClassIf(len(da) == 0, "device-empty")
		c.ClassIf(asReservation, "object-reservation")
		c.ClassIf(viaAPI, "via-object-json")
		c.ClassIf(wroteReservation, "reservation-allocated")
		if multi || nDev >= 2 {
			c.NonTrivial(rs.CPUSet, fmt.Sprint(rs.NUMANodeResources), c19DA(da), rName, rUID, *spec, order, viaAPI, asReservation)
		}
		c.Sample(map[string]any{"resourceStatus": rs, "resourceSpec": spec, "deviceAllocations": da, "reservation": []string{rName, string(rUID)},
			"annotations": ann, "viaObjectJSON": viaAPI})

		gotRS, err := GetResourceStatus(ann)
		if err != nil {
			c.Violation(t, "codec:resource-status-unreadable", "wrote %+v, annotation %q: %v", rs, ann[AnnotationResourceStatus], err)
			return
		}
		if d := c19DiffResourceStatus(rs, gotRS); d != "" {
			c.Violation(t, "codec:resource-status-differs", "%s; wrote %+v annotation %q read %+v", d, rs, ann[AnnotationResourceStatus], gotRS)
			return
		}
		gotSpec, err := GetResourceSpec(ann)
		if err != nil || gotSpec == nil || *gotSpec != *spec {
			c.Violation(t, "codec:resource-spec-differs", "wrote %+v annotation %q read %+v err %v", spec, ann[AnnotationResourceSpec], gotSpec, err)
			return
		}
		gotDA, err := GetDeviceAllocations(ann)
		if err != nil {
			c.Violation(t, "codec:device-allocations-unreadable", "wrote %s annotation %q: %v", c19DA(da), ann[AnnotationDeviceAllocated], err)
			return
		}
		if d := c19DiffDeviceAllocations(da, gotDA); d != "" {
			c.Violation(t, "codec:device-allocations-differ", "%s; wrote %s read %s", d, c19DA(da), c19DA(gotDA))
			return
		}
		if wroteReservation {
			got, err := GetReservationAllocated(pod)
			if err != nil || got == nil {
				c.Violation(t, "codec:reservation-allocated-unreadable", "wrote name=%q uid=%q annotation %q: got %v err %v", rName, rUID, ann[AnnotationReservationAllocated], got, err)
				return
			}
			if got.Name != rName || got.UID != rUID || got.GetName() != rName || got.GetUID() != rUID {
				c.Violation(t, "codec:reservation-allocated-differs", "wrote name=%q uid=%q read name=%q uid=%q (annotation %q)", rName, rUID, got.Name, got.UID, ann[AnnotationReservationAllocated])
				return
			}
		}
		if preAnn == 2 && ann["other"] != "x" {
			c.Violation(t, "codec:unrelated-annotation-lost", "annotations after the setters: %v", ann)
			return
		}
	})
}

// ---------------------------------------------------------------- (2) decode∘encode∘decode = decode on annotation strings

// JSON text as other writers / older versions / hand edits may produce it: reordered and unknown keys, numbers
// where strings are usual, nulls, whitespace, duplicates.
type c19JSONGen struct{ t *rapid.T }

func (g c19JSONGen) ws() string {
	return rapid.SampledFrom([]string{"", "", "", " ", "\n  ", "\t"}).Draw(g.t, "ws")
}

func (g c19JSONGen) str(s string) string {
	b, _ := json.Marshal(s)
	return string(b)
}

func (g c19JSONGen) quantity() string {
	switch rapid.IntRange(0, 5).Draw(g.t, "qForm") {
	case 0:
		return fmt.Sprint(rapid.Int64Range(0, 1<<40).Draw(g.t, "qNum")) // bare JSON number
	case 1:
		return rapid.SampledFrom([]string{"1.5", "0.001", "1e3", "0", "100", "0.0005", "2E2"}).Draw(g.t, "qBare")
	case 2:
		return "null"
	case 3:
		return g.str(rapid.SampledFrom([]string{"1500m", "16Gi", "0", "1", "100", "1e3", "0.5", "1Ki", "12345678901234567890", "1.0000001", "1.50", "010", "abc", "-1", "+3", "1.5Gi", "100M", "1u", "5n", "1500m", "0.0", "2Ti"}).Draw(g.t, "qStr"))
	default:
		q := c19GenQuantity(g.t, "q")
		return g.str(q.String())
	}
}

func (g c19JSONGen) resources(names []corev1.ResourceName) string {
	switch rapid.IntRange(0, 7).Draw(g.t, "rlForm") {
	case 0:
		return "null"
	case 1:
		return "{}"
	}
	n := rapid.IntRange(1, 3).Draw(g.t, "rlN")
	var parts []string
	for i := 0; i < n; i++ {
		parts = append(parts, g.ws()+g.str(string(rapid.SampledFrom(names).Draw(g.t, "rlName")))+g.ws()+":"+g.ws()+g.quantity())
	}
	return "{" + strings.Join(parts, ",") + g.ws() + "}"
}

func (g c19JSONGen) object(fields []string) string {
	fields = append([]string(nil), fields...)
	if rapid.IntRange(0, 4).Draw(g.t, "unknownField") == 0 {
		fields = append(fields, g.str(rapid.SampledFrom([]string{"future", "Minor", "NODE", "x-y"}).Draw(g.t, "unkName"))+":"+rapid.SampledFrom([]string{"1", `"s"`, "null", "[1,2]", `{"a":{}}`, "true"}).Draw(g.t, "unkVal"))
	}
	if len(fields) > 1 {
		fields = rapid.Permutation(fields).Draw(g.t, "fieldOrder")
	}
	var parts []string
	for _, f := range fields {
		parts = append(parts, g.ws()+f)
	}
	return "{" + strings.Join(parts, ",") + g.ws() + "}"
}

func (g c19JSONGen) resourceStatus() string {
	var fields []string
	if rapid.IntRange(0, 3).Draw(g.t, "hasCPUSet") > 0 {
		s, _ := c19GenCPUList(g.t, "cl")
		if rapid.IntRange(0, 5).Draw(g.t, "oddCPUSet") == 0 {
			s = rapid.SampledFrom([]string{"3,1,2", "0-0", "5-3", "1,1", " 1", "0-", "a", "0-3,2-5", "1,,2", "007", "4097", "0-4097"}).Draw(g.t, "oddCL")
		}
		fields = append(fields, `"cpuset":`+g.ws()+g.str(s))
	}
	if rapid.IntRange(0, 3).Draw(g.t, "hasNUMA") > 0 {
		n := rapid.IntRange(0, 3).Draw(g.t, "numaN")
		var items []string
		for i := 0; i < n; i++ {
			var f []string
			switch rapid.IntRange(0, 9).Draw(g.t, "nodeForm") {
			case 0: // missing
			case 1:
				f = append(f, `"node":`+rapid.SampledFrom([]string{"null", "-1", "2147483647", "1.0", "null", "-2147483648", `"1"`, "2147483648"}).Draw(g.t, "oddNode"))
			default:
				f = append(f, `"node":`+g.ws()+fmt.Sprint(rapid.IntRange(0, 7).Draw(g.t, "node")))
			}
			if rapid.IntRange(0, 4).Draw(g.t, "hasRes") > 0 {
				f = append(f, `"resources":`+g.ws()+g.resources(c19NUMAResourceNames))
			}
			items = append(items, g.object(f))
		}
		v := "[" + strings.Join(items, ","+g.ws()) + "]"
		if n == 0 && rapid.Bool().Draw(g.t, "numaNull") {
			v = "null"
		}
		fields = append(fields, `"numaNodeResources":`+g.ws()+v)
	}
	return g.object(fields)
}

func (g c19JSONGen) deviceAllocations() string {
	switch rapid.IntRange(0, 11).Draw(g.t, "daForm") {
	case 0:
		return "null"
	case 1:
		return "{}"
	}
	nTypes := rapid.IntRange(1, 3).Draw(g.t, "daTypes")
	var types []string
	for i := 0; i < nTypes; i++ {
		dt := string(rapid.SampledFrom(c19DeviceTypes).Draw(g.t, "daType"))
		nDev := rapid.IntRange(0, 3).Draw(g.t, "daDevs")
		var items []string
		for j := 0; j < nDev; j++ {
			if rapid.IntRange(0, 11).Draw(g.t, "nullDev") == 0 {
				items = append(items, "null")
				continue
			}
			var f []string
			if rapid.IntRange(0, 5).Draw(g.t, "hasMinor") > 0 {
				f = append(f, `"minor":`+g.ws()+fmt.Sprint(rapid.IntRange(0, 15).Draw(g.t, "minor")))
			}
			if rapid.IntRange(0, 5).Draw(g.t, "hasRes") > 0 {
				f = append(f, `"resources":`+g.ws()+g.resources(c19DeviceResourceNames))
			}
			if rapid.Bool().Draw(g.t, "hasID") {
				f = append(f, `"id":`+g.str(c19StringGen.Draw(g.t, "id")))
			}
			switch rapid.IntRange(0, 5).Draw(g.t, "extForm") {
			case 0:
				f = append(f, `"extension":null`)
			case 1:
				f = append(f, `"extension":{}`)
			case 2:
				var vfs []string
				for k := rapid.IntRange(0, 2).Draw(g.t, "nVF"); k > 0; k-- {
					var vf []string
					if rapid.Bool().Draw(g.t, "vfHasMinor") {
						vf = append(vf, `"minor":`+fmt.Sprint(rapid.IntRange(-1, 3).Draw(g.t, "vfMinor")))
					}
					if rapid.Bool().Draw(g.t, "vfHasBus") {
						vf = append(vf, `"busID":`+g.str(c19StringGen.Draw(g.t, "vfBus")))
					}
					vfs = append(vfs, g.object(vf))
				}
				f = append(f, `"extension":`+g.object([]string{`"vfs":[` + strings.Join(vfs, ",") + `]`}))
			case 3:
				f = append(f, `"extension":`+g.object([]string{`"gpuSharedResourceTemplate":` + g.str(c19StringGen.Draw(g.t, "tpl"))}))
			}
			items = append(items, g.object(f))
		}
		v := "[" + strings.Join(items, ","+g.ws()) + "]"
		if nDev == 0 && rapid.Bool().Draw(g.t, "listNull") {
			v = "null"
		}
		types = append(types, g.ws()+g.str(dt)+":"+g.ws()+v)
	}
	return "{" + strings.Join(types, ",") + g.ws() + "}"
}

func (g c19JSONGen) reservationAllocated() string {
	var f []string
	if rapid.IntRange(0, 3).Draw(g.t, "hasName") > 0 {
		f = append(f, `"name":`+g.ws()+g.str(c19StringGen.Draw(g.t, "name")))
	}
	if rapid.IntRange(0, 3).Draw(g.t, "hasUID") > 0 {
		f = append(f, `"uid":`+g.ws()+g.str(c19StringGen.Draw(g.t, "uid")))
	}
	if rapid.IntRange(0, 9).Draw(g.t, "oddRA") == 0 {
		f = append(f, rapid.SampledFrom([]string{`"name":null`, `"uid":null`, `"UID":"upper"`, `"name":"dup"`}).Draw(g.t, "oddRAField"))
	}
	return g.object(f)
}

// c19Corrupt applies a byte-level edit with small probability (truncation, replaced byte) so that the rejecting
// side of the decoders is exercised too.
func c19Corrupt(t *rapid.T, s string) string {
	switch rapid.IntRange(0, 23).Draw(t, "corrupt") {
	case 0:
		if len(s) > 0 {
			return s[:rapid.IntRange(0, len(s)-1).Draw(t, "cut")]
		}
	case 1:
		if len(s) > 0 {
			i := rapid.IntRange(0, len(s)-1).Draw(t, "pos")
			return s[:i] + string(rapid.SampledFrom([]byte{'"', '{', '}', '[', ',', ':', '0', 'x', ' '}).Draw(t, "byte")) + s[i+1:]
		}
	case 2:
		return string(rapid.SliceOfN(rapid.Byte(), 0, 24).Draw(t, "raw"))
	}
	return s
}

func TestVerifC19DecodeIdempotent(t *testing.T) {
	rec := vk.New(t, "C19", "codecDecodeIdempotent")
	rapid.Check(t, func(t *rapid.T) {
		c := rec.Begin()
		defer c.End()
		g := c19JSONGen{t}
		codec := rapid.SampledFrom([]string{"resource-status", "resource-status", "device-allocated", "device-allocated", "reservation-allocated", "resource-spec"}).Draw(t, "codec")
		c.Class("codec:" + codec)
		var text string
		switch codec {
		case "resource-status":
			text = g.resourceStatus()
		case "device-allocated":
			text = g.deviceAllocations()
		case "reservation-allocated":
			text = g.reservationAllocated()
		default:
			b, _ := json.Marshal(c19GenResourceSpec(t))
			text = string(b)
			if rapid.Bool().Draw(t, "specExtra") {
				text = g.object([]string{`"preferredCPUExclusivePolicy":` + g.str(rapid.SampledFrom([]string{"PCPULevel", "NUMANodeLevel", "None", "", "pcpulevel"}).Draw(t, "exclLit")),
					`"preferredCPUBindPolicy":` + rapid.SampledFrom([]string{`"FullPCPUs"`, `null`, `"SpreadByPCPUs"`}).Draw(t, "bindLit")})
			}
		}
		text = c19Corrupt(t, text)
		pod := &corev1.Pod{}
		pod2 := &corev1.Pod{}
		sample := map[string]any{"codec": codec, "annotation": text}
		c.Sample(sample)
		structured := strings.Count(text, "{")+strings.Count(text, "[") >= 3

		switch codec {
		case "resource-status":
			pod.Annotations = map[string]string{AnnotationResourceStatus: text}
			d1, err := GetResourceStatus(pod.Annotations)
			if err != nil {
				c.Class("rejected")
				return
			}
			c.Class("accepted")
			if structured {
				c.NonTrivial(codec, text)
			}
			if err := SetResourceStatus(pod2, d1); err != nil {
				c.Violation(t, "codec-idem:reencode-error", "resource-status %q decoded to %+v which cannot be re-encoded: %v", text, d1, err)
				return
			}
			d2, err := GetResourceStatus(pod2.Annotations)
			if err != nil {
				c.Violation(t, "codec-idem:reencoded-unreadable", "resource-status %q -> %+v -> %q: %v", text, d1, pod2.Annotations[AnnotationResourceStatus], err)
				return
			}
			if d := c19DiffResourceStatus(d1, d2); d != "" {
				c.Violation(t, "codec-idem:resource-status-not-stable", "%s; %q -> %+v -> %q -> %+v", d, text, d1, pod2.Annotations[AnnotationResourceStatus], d2)
				return
			}
		case "device-allocated":
			pod.Annotations = map[string]string{AnnotationDeviceAllocated: text}
			d1, err := GetDeviceAllocations(pod.Annotations)
			if err != nil {
				c.Class("rejected")
				return
			}
			c.Class("accepted")
			if structured {
				c.NonTrivial(codec, text)
			}
			if err := SetDeviceAllocations(pod2, d1); err != nil {
				c.Violation(t, "codec-idem:reencode-error", "device-allocated %q decoded to %s which cannot be re-encoded: %v", text, c19DA(d1), err)
				return
			}
			d2, err := GetDeviceAllocations(pod2.Annotations)
			if err != nil {
				c.Violation(t, "codec-idem:reencoded-unreadable", "device-allocated %q -> %q: %v", text, pod2.Annotations[AnnotationDeviceAllocated], err)
				return
			}
			if d := c19DiffDeviceAllocations(d1, d2); d != "" {
				c.Violation(t, "codec-idem:device-allocations-not-stable", "%s; %q -> %q", d, text, pod2.Annotations[AnnotationDeviceAllocated])
				return
			}
		case "reservation-allocated":
			pod.Annotations = map[string]string{AnnotationReservationAllocated: text}
			d1, err := GetReservationAllocated(pod)
			if err != nil {
				c.Class("rejected")
				return
			}
			c.Class("accepted")
			if d1 == nil {
				c.Violation(t, "codec-idem:reservation-allocated-nil", "annotation %q present, decoder returned nil without error", text)
				return
			}
			if d1.Name != "" && d1.UID != "" {
				c.NonTrivial(codec, text)
			}
			owner := &schedulingv1alpha1.Reservation{}
			owner.Name, owner.UID = d1.Name, d1.UID
			SetReservationAllocated(pod2, owner)
			d2, err := GetReservationAllocated(pod2)
			if err != nil || d2 == nil || *d2 != *d1 {
				c.Violation(t, "codec-idem:reservation-allocated-not-stable", "%q -> %+v -> %q -> %+v (%v)", text, d1, pod2.Annotations[AnnotationReservationAllocated], d2, err)
				return
			}
		default:
			pod.Annotations = map[string]string{AnnotationResourceSpec: text}
			d1, err := GetResourceSpec(pod.Annotations)
			if err != nil {
				c.Class("rejected")
				return
			}
			c.Class("accepted")
			if *d1 != (ResourceSpec{}) {
				c.NonTrivial(codec, text)
			}
			if err := SetResourceSpec(pod2, d1); err != nil {
				c.Violation(t, "codec-idem:reencode-error", "resource-spec %q: %v", text, err)
				return
			}
			d2, err := GetResourceSpec(pod2.Annotations)
			if err != nil || *d2 != *d1 {
				c.Violation(t, "codec-idem:resource-spec-not-stable", "%q -> %+v -> %q -> %+v (%v)", text, d1, pod2.Annotations[AnnotationResourceSpec], d2, err)
				return
			}
		}
	})
}
