//go:build verif

// C19 (unit 6, elasticquota plugin level, multiple quota trees) — a restarted ElasticQuota plugin fed the quota objects
// and the pods the API server holds charges every bound pod exactly like the plugin that admitted it: once, to its own
// quota in its own tree (or to the default quota while its quota does not exist), also when the pod is known before its
// quota and is moved by the real periodic migration (migrateDefaultQuotaGroupsPod).
// See /verif/DESIGN.md §1 C19. In-package harness (injected with -overlay).
package elasticquota

import (
	"context"
	"fmt"
	"io"
	"sort"
	"strings"
	"sync"
	"testing"
	"time"

	corev1 "k8s.io/api/core/v1"
	"k8s.io/apimachinery/pkg/api/resource"
	metav1 "k8s.io/apimachinery/pkg/apis/meta/v1"
	"k8s.io/apimachinery/pkg/types"
	k8sfeature "k8s.io/apiserver/pkg/util/feature"
	"k8s.io/klog/v2"
	"k8s.io/kubernetes/pkg/scheduler/framework"
	"pgregory.net/rapid"

	"github.com/koordinator-sh/koordinator/apis/extension"
	"github.com/koordinator-sh/koordinator/apis/thirdparty/scheduler-plugins/pkg/apis/scheduling/v1alpha1"
	koordfeatures "github.com/koordinator-sh/koordinator/pkg/features"
	"github.com/koordinator-sh/koordinator/pkg/scheduler/apis/config"
	v1 "github.com/koordinator-sh/koordinator/pkg/scheduler/apis/config/v1"
	"github.com/koordinator-sh/koordinator/pkg/scheduler/plugins/elasticquota/core"
	utilfeature "github.com/koordinator-sh/koordinator/pkg/util/feature"
	"github.com/koordinator-sh/koordinator/pkg/verifkit/vk"
)

var c19Quiet sync.Once

func c19Silence() {
	c19Quiet.Do(func() {
		klog.LogToStderr(false)
		klog.SetOutput(io.Discard)
	})
}

// ---------------------------------------------------------------- quota objects in several trees

type c19Quota struct {
	Name, Parent, Tree string
	IsParent, IsRoot   bool
	MaxCPU, MaxMem     int64 // cores, GiB
}

func (q c19Quota) object() *v1alpha1.ElasticQuota {
	rl := func(cpu, mem int64) corev1.ResourceList {
		return corev1.ResourceList{corev1.ResourceCPU: *resource.NewQuantity(cpu, resource.DecimalSI), corev1.ResourceMemory: *resource.NewQuantity(mem<<30, resource.BinarySI)}
	}
	eq := &v1alpha1.ElasticQuota{ObjectMeta: metav1.ObjectMeta{Name: q.Name, Namespace: "default", Labels: map[string]string{}, Annotations: map[string]string{}}}
	eq.Spec.Max, eq.Spec.Min = rl(q.MaxCPU, q.MaxMem), rl(0, 0)
	eq.Labels[extension.LabelQuotaParent] = q.Parent
	eq.Labels[extension.LabelQuotaIsParent] = fmt.Sprint(q.IsParent)
	eq.Labels[extension.LabelAllowLentResource] = "true"
	eq.Annotations[extension.AnnotationSharedWeight] = fmt.Sprintf("{\"cpu\":%v, \"memory\":\"%vGi\"}", q.MaxCPU, q.MaxMem)
	if q.Tree != "" {
		eq.Labels[extension.LabelQuotaTreeID] = q.Tree
	}
	if q.IsRoot {
		eq.Labels[extension.LabelQuotaIsRoot] = "true"
		eq.Annotations[extension.AnnotationTotalResource] = fmt.Sprintf("{\"cpu\":%v, \"memory\":\"%vGi\"}", q.MaxCPU, q.MaxMem)
	}
	return eq
}

// parents precede their children in the result
func c19GenQuotas(t *rapid.T) []c19Quota {
	var out []c19Quota
	for i, n := 0, rapid.IntRange(0, 2).Draw(t, "plainQuotas"); i < n; i++ { // the default tree
		out = append(out, c19Quota{Name: fmt.Sprintf("q%d", i), Parent: extension.RootQuotaName, MaxCPU: 64, MaxMem: 256})
	}
	nTrees := rapid.IntRange(1, 2).Draw(t, "trees")
	for ti := 0; ti < nTrees; ti++ {
		tree := fmt.Sprintf("tree%d", ti+1)
		root := c19Quota{Name: fmt.Sprintf("t%d", ti+1), Parent: extension.RootQuotaName, Tree: tree, IsRoot: true, MaxCPU: 64, MaxMem: 256}
		kids := rapid.SampledFrom([]int{0, 0, 1, 2}).Draw(t, "treeChildren")
		root.IsParent = kids > 0
		out = append(out, root)
		for k := 0; k < kids; k++ {
			out = append(out, c19Quota{Name: fmt.Sprintf("t%d-%d", ti+1, k), Parent: root.Name, Tree: tree, MaxCPU: 32, MaxMem: 128})
		}
	}
	return out
}

func c19NewPlugin(t *rapid.T) *Plugin {
	var v1args v1.ElasticQuotaArgs
	v1.SetDefaults_ElasticQuotaArgs(&v1args)
	var args config.ElasticQuotaArgs
	if err := v1.Convert_v1_ElasticQuotaArgs_To_config_ElasticQuotaArgs(&v1args, &args, nil); err != nil {
		t.Fatalf("harness: args: %v", err)
	}
	// only what the event handlers, Reserve/Unreserve and the migration use; listers stay nil (every pod is labelled)
	g := &Plugin{
		pluginArgs:                     &args,
		groupQuotaManagersForQuotaTree: map[string]*core.GroupQuotaManager{},
		quotaToTreeMap:                 map[string]string{extension.DefaultQuotaName: "", extension.SystemQuotaName: ""},
		quotaSnapshot:                  map[string]*core.QuotaSnapshot{},
		quotaToTreeMapSnapshot:         map[string]string{},
	}
	g.groupQuotaManager = core.NewGroupQuotaManager("", args.EnableMinQuotaScale, args.SystemQuotaGroupMax, args.DefaultQuotaGroupMax)
	if err := g.groupQuotaManager.InitHookPlugins(&args); err != nil {
		t.Fatalf("harness: hooks: %v", err)
	}
	g.groupQuotaManager.UpdateClusterTotalResource(corev1.ResourceList{corev1.ResourceCPU: *resource.NewQuantity(512, resource.DecimalSI), corev1.ResourceMemory: *resource.NewQuantity(2048<<30, resource.BinarySI)})
	return g
}

// ---------------------------------------------------------------- pods

func c19GenPod(t *rapid.T, idx int, leaves []string) *corev1.Pod {
	pod := &corev1.Pod{}
	pod.Name = fmt.Sprintf("p%d", idx)
	pod.Namespace = "default"
	pod.UID = types.UID(fmt.Sprintf("uid-p%d", idx))
	pod.ResourceVersion = "1"
	pod.Labels = map[string]string{extension.LabelQuotaName: rapid.SampledFrom(leaves).Draw(t, "quota")}
	req := corev1.ResourceList{}
	if v := rapid.SampledFrom([]int64{0, 100, 500, 1000, 1500, 4000}).Draw(t, "cpu"); v > 0 {
		req[corev1.ResourceCPU] = *resource.NewMilliQuantity(v, resource.DecimalSI)
	}
	if v := rapid.SampledFrom([]int64{0, 1 << 20, 1 << 30, 3 << 29}).Draw(t, "mem"); v > 0 {
		req[corev1.ResourceMemory] = *resource.NewQuantity(v, resource.BinarySI)
	}
	if len(req) == 0 {
		req[corev1.ResourceCPU] = *resource.NewMilliQuantity(1000, resource.DecimalSI)
	}
	pod.Spec.Containers = []corev1.Container{{Name: "c", Resources: corev1.ResourceRequirements{Requests: req, Limits: req.DeepCopy()}}}
	return pod
}

func c19Q(p *corev1.Pod) string { return p.Labels[extension.LabelQuotaName] }

func c19PodStr(p *corev1.Pod) string {
	var parts []string
	for _, n := range []corev1.ResourceName{corev1.ResourceCPU, corev1.ResourceMemory} {
		if q, ok := p.Spec.Containers[0].Resources.Requests[n]; ok {
			parts = append(parts, string(n)+"="+q.String())
		}
	}
	return fmt.Sprintf("%s{quota=%s node=%q terminating=%v req=%s}", p.Name, c19Q(p), p.Spec.NodeName, p.DeletionTimestamp != nil, strings.Join(parts, ","))
}

func c19Unbound(p *corev1.Pod) *corev1.Pod {
	n := p.DeepCopy()
	n.Spec.NodeName = ""
	n.ResourceVersion = "0"
	return n
}

// ---------------------------------------------------------------- observation

// c19Managers lists the plugin's managers: "" (default tree) and one per quota tree it knows.
func c19Managers(g *Plugin) map[string]*core.GroupQuotaManager {
	out := map[string]*core.GroupQuotaManager{"": g.groupQuotaManager}
	g.quotaManagerLock.RLock()
	defer g.quotaManagerLock.RUnlock()
	for id, m := range g.groupQuotaManagersForQuotaTree {
		out[id] = m
	}
	return out
}

// c19Holders names every tree/quota whose pod cache holds the pod.
func c19Holders(g *Plugin, all []c19Quota, p *corev1.Pod) string {
	var out []string
	ms := c19Managers(g)
	for _, id := range vk.SortedKeys(ms) {
		names := []string{extension.DefaultQuotaName}
		for _, q := range all {
			if q.Tree == id {
				names = append(names, q.Name)
			}
		}
		for _, n := range names {
			if qi := ms[id].GetQuotaInfoByName(n); qi != nil && qi.IsPodExist(p) {
				out = append(out, id+"/"+n)
			}
		}
	}
	return strings.Join(out, " + ")
}

func c19RLDiff(a, b corev1.ResourceList) string {
	for k, qa := range a {
		qb := b[k]
		if qa.Cmp(qb) != 0 {
			return fmt.Sprintf("%s: %s vs %s", k, qa.String(), qb.String())
		}
	}
	for k, qb := range b {
		qa := a[k]
		if qa.Cmp(qb) != 0 {
			return fmt.Sprintf("%s: %s vs %s", k, qa.String(), qb.String())
		}
	}
	return ""
}

func c19Compare(all []c19Quota, pods []*corev1.Pod, an string, a *Plugin, bn string, b *Plugin) (string, string) {
	ma, mb := c19Managers(a), c19Managers(b)
	ids := map[string]bool{}
	for id := range ma {
		ids[id] = true
	}
	for id := range mb {
		ids[id] = true
	}
	for _, id := range vk.SortedKeys(ids) {
		if ma[id] == nil || mb[id] == nil {
			return "tree-missing", fmt.Sprintf("quota tree %q known to %s: %v, to %s: %v", id, an, ma[id] != nil, bn, mb[id] != nil)
		}
		names := []string{extension.DefaultQuotaName}
		for _, q := range all {
			if q.Tree == id {
				names = append(names, q.Name)
			}
		}
		for _, n := range names {
			qa, qb := ma[id].GetQuotaInfoByName(n), mb[id].GetQuotaInfoByName(n)
			if qa == nil || qb == nil {
				if (qa == nil) != (qb == nil) {
					return "quota-missing", fmt.Sprintf("quota %s/%s present in %s: %v, in %s: %v", id, n, an, qa != nil, bn, qb != nil)
				}
				continue
			}
			if d := c19RLDiff(qa.GetUsed(), qb.GetUsed()); d != "" {
				return "used-differs", fmt.Sprintf("quota %q/%s used %s (%s vs %s)", id, n, d, an, bn)
			}
			if d := c19RLDiff(qa.GetRequest(), qb.GetRequest()); d != "" {
				return "request-differs", fmt.Sprintf("quota %q/%s request %s (%s vs %s)", id, n, d, an, bn)
			}
		}
	}
	for _, p := range pods {
		if ha, hb := c19Holders(a, all, p), c19Holders(b, all, p); ha != hb {
			return "pod-membership-differs", fmt.Sprintf("pod %s is held by [%s] in %s and by [%s] in %s", c19PodStr(p), ha, an, hb, bn)
		}
	}
	return "", ""
}

type c19Event struct {
	// add | dup-add | update | add-unbound (first seen pending) | bind-update (pending -> bound, follows an add-unbound)
	// | quota (a quota object that is delivered after pod events)
	Kind string
	UID  types.UID
	Name string
}

func c19GenPodEvents(t *rapid.T, objs map[types.UID]*corev1.Pod, uids []types.UID) (evs []c19Event, dup bool) {
	if len(uids) == 0 {
		return nil, false
	}
	for _, u := range rapid.Permutation(uids).Draw(t, "deliveryOrder") {
		evs = append(evs, c19Event{Kind: "add", UID: u})
	}
	for i := rapid.IntRange(0, 3).Draw(t, "extraEvents"); i > 0; i-- {
		u := rapid.SampledFrom(uids).Draw(t, "extraUID")
		kind := rapid.SampledFrom([]string{"dup-add", "update"}).Draw(t, "extraKind")
		first := 0
		for j, ev := range evs {
			if ev.UID == u {
				first = j
				break
			}
		}
		pos := rapid.IntRange(first+1, len(evs)).Draw(t, "extraPos")
		evs = append(evs[:pos], append([]c19Event{{Kind: kind, UID: u}}, evs[pos:]...)...)
		dup = true
	}
	for _, u := range uids {
		if objs[u].Spec.NodeName == "" || rapid.IntRange(0, 3).Draw(t, "seenBeforeBind") != 0 {
			continue
		}
		first, nextOfU := -1, len(evs)
		for j, ev := range evs {
			if ev.UID != u {
				continue
			}
			if first < 0 {
				first = j
			} else {
				nextOfU = j
				break
			}
		}
		evs[first].Kind = "add-unbound"
		pos := rapid.IntRange(first+1, nextOfU).Draw(t, "bindUpdatePos")
		evs = append(evs[:pos], append([]c19Event{{Kind: "bind-update", UID: u}}, evs[pos:]...)...)
	}
	return evs, dup
}

// ---------------------------------------------------------------- histories, cut anywhere, replayed

func TestVerifC19QuotaPluginReplay(t *testing.T) {
	c19Silence()
	defer utilfeature.SetFeatureGateDuringTest(t, k8sfeature.DefaultMutableFeatureGate, koordfeatures.MultiQuotaTree, true)()
	rec := vk.New(t, "C19", "quotaPluginReplay")
	ctx := context.Background()
	rapid.Check(t, func(t *rapid.T) {
		c := rec.Begin()
		defer c.End()
		all := c19GenQuotas(t)
		byName := map[string]c19Quota{}
		exists := map[string]bool{}
		var leaves []string
		for _, q := range all {
			byName[q.Name] = q
			// some quotas are created only later in the history (never a child before its parent); pods that refer to
			// them are parked in the default quota of the default tree until the periodic migration moves them
			exists[q.Name] = (q.Parent == extension.RootQuotaName || exists[q.Parent]) && rapid.IntRange(0, 2).Draw(t, "existsFromStart") > 0
			if !q.IsParent {
				leaves = append(leaves, q.Name)
			}
		}
		current := func() []c19Quota {
			var out []c19Quota
			for _, q := range all {
				if exists[q.Name] {
					out = append(out, q)
				}
			}
			return out
		}
		live := c19NewPlugin(t)
		for _, q := range current() {
			live.OnQuotaAdd(q.object())
		}
		persisted := map[types.UID]*corev1.Pod{}
		next := 0
		var hist []string
		dead := false
		sawDup, sawParked, sawParkedBound, sawTreePodBound, sawTreeParkedBound, sawContinuation, sawQuotaAfterPods, sawQuotaAfterBoundTreePod, sawMigrated := false, false, false, false, false, false, false, false, false
		maxBound := 0
		sawTerminating := false

		sorted := func(pred func(*corev1.Pod) bool) []types.UID {
			var out []types.UID
			for u, p := range persisted {
				if pred(p) {
					out = append(out, u)
				}
			}
			sort.Slice(out, func(i, j int) bool { return out[i] < out[j] })
			return out
		}
		bump := func(p *corev1.Pod) { p.ResourceVersion = fmt.Sprint(len(hist) + 2) }
		// The plugin's own informer reports a bind a little later. The event is delivered before any other event of that
		// pod and before the live plugin is compared or its migration ticks: while it is outstanding the cross-tree
		// migration (OnPodDelete + OnPodAdd of the cached, still pending pod object) transiently shows the reserved pod
		// as not charged, which the bind event repairs; that window is not a persisted state.
		outstanding := map[types.UID][2]*corev1.Pod{}
		flush := func(u types.UID) {
			if ev, ok := outstanding[u]; ok {
				live.OnPodUpdate(ev[0], ev[1])
				delete(outstanding, u)
			}
		}
		flushAll := func() {
			var us []types.UID
			for u := range outstanding {
				us = append(us, u)
			}
			sort.Slice(us, func(i, j int) bool { return us[i] < us[j] })
			for _, u := range us {
				flush(u)
			}
		}

		// the harness' own statement: a bound pod is charged (used), over cpu and memory, to its quota and that quota's
		// ancestors inside its tree, or to the default quota of the default tree while its quota does not exist; it is
		// held by exactly that one quota
		modelCheck := func(g *Plugin) string {
			want := map[string]map[corev1.ResourceName]int64{}
			add := func(key string, p *corev1.Pod) {
				if want[key] == nil {
					want[key] = map[corev1.ResourceName]int64{}
				}
				for _, n := range []corev1.ResourceName{corev1.ResourceCPU, corev1.ResourceMemory} {
					r := p.Spec.Containers[0].Resources.Requests[n]
					want[key][n] += r.MilliValue()
				}
			}
			for _, u := range sorted(func(*corev1.Pod) bool { return true }) {
				p := persisted[u]
				holder := "/" + extension.DefaultQuotaName
				if exists[c19Q(p)] {
					holder = byName[c19Q(p)].Tree + "/" + c19Q(p)
				}
				if got := c19Holders(g, all, p); got != holder {
					return fmt.Sprintf("pod %s is held by [%s], it belongs to [%s] only", c19PodStr(p), got, holder)
				}
				if p.Spec.NodeName == "" {
					continue
				}
				if !exists[c19Q(p)] {
					add(holder, p)
					continue
				}
				for q := c19Q(p); q != extension.RootQuotaName; q = byName[q].Parent {
					add(byName[q].Tree+"/"+q, p)
				}
			}
			ms := c19Managers(g)
			for _, id := range vk.SortedKeys(ms) {
				var names []string
				if id == "" { // only the default tree's manager has a default quota
					names = append(names, extension.DefaultQuotaName)
				}
				for _, q := range current() {
					if q.Tree == id {
						names = append(names, q.Name)
					}
				}
				for _, n := range names {
					qi := ms[id].GetQuotaInfoByName(n)
					if qi == nil {
						return fmt.Sprintf("quota %q/%s is unknown", id, n)
					}
					got := qi.GetUsed()
					for _, rn := range []corev1.ResourceName{corev1.ResourceCPU, corev1.ResourceMemory} {
						g := got[rn]
						if g.MilliValue() != want[id+"/"+n][rn] {
							return fmt.Sprintf("quota %q/%s used %s=%dm, the bound pods charged to it request %dm", id, n, rn, g.MilliValue(), want[id+"/"+n][rn])
						}
					}
				}
			}
			return ""
		}
		verdict := func(t *rapid.T, where string, fresh *Plugin, evs []c19Event) {
			var pods []*corev1.Pod
			var objs []string
			for _, u := range sorted(func(*corev1.Pod) bool { return true }) {
				pods = append(pods, persisted[u])
				objs = append(objs, c19PodStr(persisted[u]))
			}
			sig, msg := c19Compare(all, pods, "live", live, "fresh", fresh)
			full := "quotaplugin-replay:" + sig
			if sig == "" {
				d := modelCheck(fresh)
				if d == "" {
					return
				}
				full, msg = "quotaplugin-replay:charge-differs-from-model", "(live and fresh agree) rebuilt: "+d
			} else if modelCheck(fresh) == "" {
				full += ":live-differs-from-model"
			}
			if c.Violation(t, full, "%s: %s\nquotas: %+v (existing: %v)\nhistory: %s\nreplay events: %v\npersisted: %s", where, msg, all, exists, strings.Join(hist, "\n  "), evs, strings.Join(objs, " ")) {
				dead = true
			}
		}
		deliver := func(g *Plugin, evs []c19Event) {
			for _, ev := range evs {
				switch ev.Kind {
				case "quota":
					g.OnQuotaAdd(byName[ev.Name].object())
				case "add", "dup-add":
					g.OnPodAdd(persisted[ev.UID].DeepCopy())
				case "add-unbound":
					g.OnPodAdd(c19Unbound(persisted[ev.UID]))
				case "bind-update":
					g.OnPodUpdate(c19Unbound(persisted[ev.UID]), persisted[ev.UID].DeepCopy())
				case "update":
					n := persisted[ev.UID].DeepCopy()
					n.ResourceVersion = "next"
					g.OnPodUpdate(persisted[ev.UID].DeepCopy(), n)
				}
			}
		}
		// rebuild a plugin from the persisted objects; `late` quota objects are delivered after the pod events
		rebuild := func(t *rapid.T, late map[string]bool) (*Plugin, []c19Event) {
			g := c19NewPlugin(t)
			var objs []interface{}
			for _, q := range current() {
				if !late[q.Name] {
					g.OnQuotaAdd(q.object()) // the quota informer's initial list ...
					objs = append(objs, q.object())
				}
			}
			if rapid.Bool().Draw(t, "replaceQuotasHook") { // ... and the startup hook that rebuilds the managers from it
				if err := g.ReplaceQuotas(objs); err != nil {
					t.Fatalf("harness: ReplaceQuotas: %v", err)
				}
				g.groupQuotaManager.UpdateClusterTotalResource(corev1.ResourceList{corev1.ResourceCPU: *resource.NewQuantity(512, resource.DecimalSI), corev1.ResourceMemory: *resource.NewQuantity(2048<<30, resource.BinarySI)})
			}
			evs, dup := c19GenPodEvents(t, persisted, sorted(func(*corev1.Pod) bool { return true }))
			sawDup = sawDup || dup
			for _, q := range current() {
				if late[q.Name] {
					evs = append(evs, c19Event{Kind: "quota", Name: q.Name})
				}
			}
			deliver(g, evs)
			return g, evs
		}
		migrate := func(g *Plugin) {
			g.migrateDefaultQuotaGroupsPod()
			if rapid.Bool().Draw(t, "secondTick") {
				g.migrateDefaultQuotaGroupsPod()
			}
		}

		crash := func(t *rapid.T) {
			flushAll()
			before := len(live.groupQuotaManager.GetQuotaInfoByName(extension.DefaultQuotaName).GetPodCache())
			live.migrateDefaultQuotaGroupsPod() // ticks every second
			if len(live.groupQuotaManager.GetQuotaInfoByName(extension.DefaultQuotaName).GetPodCache()) < before {
				sawMigrated = true
			}
			// Which quota objects reach the restarted plugin only after pod events? The startup pipeline syncs the quota
			// informer first; koordinator nevertheless supports the other order by parking + migration, so a subset of
			// the existing quotas (a quota never before its parent) is delivered late in some crash points.
			late := map[string]bool{}
			if rapid.IntRange(0, 2).Draw(t, "someQuotasAfterPods") == 0 {
				for _, q := range current() {
					if late[q.Parent] || rapid.Bool().Draw(t, "quotaAfterPods") {
						late[q.Name] = true
						sawQuotaAfterPods = true
						for _, u := range sorted(func(p *corev1.Pod) bool { return p.Spec.NodeName != "" && c19Q(p) == q.Name }) {
							if byName[c19Q(persisted[u])].Tree != "" {
								sawQuotaAfterBoundTreePod = true
							}
						}
					}
				}
			}
			fresh, evs := rebuild(t, late)
			migrate(fresh)
			bound := len(sorted(func(p *corev1.Pod) bool { return p.Spec.NodeName != "" }))
			if bound > maxBound {
				maxBound = bound
			}
			verdict(t, "crash point", fresh, evs)
		}

		create := func(t *rapid.T) {
			if dead {
				return
			}
			p := c19GenPod(t, next, leaves)
			next++
			live.OnPodAdd(p.DeepCopy())
			persisted[p.UID] = p
			if !exists[c19Q(p)] {
				sawParked = true
			}
			hist = append(hist, "create "+c19PodStr(p))
		}
		schedule := func(t *rapid.T) {
			if dead {
				return
			}
			uids := sorted(func(p *corev1.Pod) bool { return p.Spec.NodeName == "" })
			if len(uids) == 0 {
				t.Skip("nothing pending")
			}
			u := rapid.SampledFrom(uids).Draw(t, "uid")
			p := persisted[u]
			if st := live.Reserve(ctx, framework.NewCycleState(), p.DeepCopy(), "n"); !st.IsSuccess() {
				hist = append(hist, fmt.Sprintf("schedule %s: reserve: %s", p.Name, st.Message()))
				return
			}
			if rapid.IntRange(0, 7).Draw(t, "bindFails") == 0 {
				live.Unreserve(ctx, framework.NewCycleState(), p.DeepCopy(), "n")
				hist = append(hist, fmt.Sprintf("schedule %s: reserved, bind failed, unreserved", p.Name))
				return
			}
			b := p.DeepCopy()
			b.Spec.NodeName = "n"
			bump(b)
			selfEvent := rapid.Bool().Draw(t, "liveSeesOwnBindEventAtOnce")
			outstanding[u] = [2]*corev1.Pod{p.DeepCopy(), b.DeepCopy()}
			if selfEvent {
				flush(u)
			}
			persisted[u] = b
			if byName[c19Q(b)].Tree != "" {
				sawTreePodBound = true
			}
			if !exists[c19Q(b)] {
				sawParkedBound = true
				if byName[c19Q(b)].Tree != "" {
					sawTreeParkedBound = true
				}
			}
			hist = append(hist, fmt.Sprintf("schedule %s: bound selfEvent=%v", p.Name, selfEvent))
		}
		t.Repeat(map[string]func(*rapid.T){
			"create":    create,
			"create2":   create,
			"schedule":  schedule,
			"schedule2": schedule,
			// A quota that pods already refer to is created. Checked as a restart just BEFORE the creation: the restarted
			// plugin rebuilds from the pods (parked in the default quota), then both plugins get the quota add event and
			// the migration tick.
			"createQuota": func(t *rapid.T) {
				if dead {
					return
				}
				var pending []string
				for _, q := range all {
					if !exists[q.Name] && (q.Parent == extension.RootQuotaName || exists[q.Parent]) {
						pending = append(pending, q.Name)
					}
				}
				if len(pending) == 0 {
					t.Skip("no quota left to create")
				}
				name := rapid.SampledFrom(pending).Draw(t, "quota")
				flushAll()
				live.migrateDefaultQuotaGroupsPod()
				fresh, evs := rebuild(t, nil) // restart before the quota exists
				fresh.migrateDefaultQuotaGroupsPod()
				exists[name] = true
				for _, g := range []*Plugin{live, fresh} {
					g.OnQuotaAdd(byName[name].object())
				}
				hist = append(hist, "create quota "+name)
				migrate(live)
				migrate(fresh)
				sawContinuation = true
				verdict(t, "restart right before quota "+name+" was created, then quota add + migration on both", fresh, evs)
			},
			"delete": func(t *rapid.T) { // deleted, or finished (the phase-filtered pod informer delivers that as a delete)
				if dead {
					return
				}
				uids := sorted(func(*corev1.Pod) bool { return true })
				if len(uids) == 0 {
					t.Skip("no pod")
				}
				u := rapid.SampledFrom(uids).Draw(t, "uid")
				flush(u)
				live.OnPodDelete(persisted[u].DeepCopy())
				hist = append(hist, "delete "+persisted[u].Name)
				delete(persisted, u)
			},
			// A bound pod is deleted gracefully: it gets a deletionTimestamp and keeps running (phase unchanged) until the
			// kubelet is done, so it stays in the informer and keeps its share (default feature gates).
			"gracefulDelete": func(t *rapid.T) {
				if dead {
					return
				}
				uids := sorted(func(p *corev1.Pod) bool { return p.Spec.NodeName != "" && p.DeletionTimestamp == nil })
				if len(uids) == 0 {
					t.Skip("nothing running")
				}
				u := rapid.SampledFrom(uids).Draw(t, "uid")
				flush(u)
				old := persisted[u]
				n := old.DeepCopy()
				ts := metav1.NewTime(time.Unix(1700000000, 0).UTC()) // fixed stamp, nothing reads the wall clock
				n.DeletionTimestamp = &ts
				bump(n)
				live.OnPodUpdate(old.DeepCopy(), n.DeepCopy())
				persisted[u] = n
				sawTerminating = true
				hist = append(hist, "graceful delete of "+n.Name+": terminating, still bound")
			},
			"touch": func(t *rapid.T) {
				if dead {
					return
				}
				uids := sorted(func(*corev1.Pod) bool { return true })
				if len(uids) == 0 {
					t.Skip("no pod")
				}
				u := rapid.SampledFrom(uids).Draw(t, "uid")
				flush(u)
				old := persisted[u]
				n := old.DeepCopy()
				n.Labels["touched"] = fmt.Sprint(len(hist))
				bump(n)
				live.OnPodUpdate(old.DeepCopy(), n.DeepCopy())
				persisted[u] = n
				hist = append(hist, "touch "+n.Name)
			},
			"": func(t *rapid.T) {
				if dead {
					return
				}
				crash(t)
			},
		})
		c.ClassIf(sawDup, "duplicate-or-noop-event")
		c.ClassIf(sawTerminating, "bound-pod-terminating(deletionTimestamp)-persisted")
		c.ClassIf(sawParked, "pod-created-before-its-quota(parked-in-default)")
		c.ClassIf(sawParkedBound, "pod-bound-while-parked")
		c.ClassIf(sawTreePodBound, "bound-pod-of-a-tree-quota")
		c.ClassIf(sawTreeParkedBound, "tree-quota-pod-bound-while-parked")
		c.ClassIf(sawMigrated, "live-migrated-parked-pods")
		c.ClassIf(sawContinuation, "restart-before-quota-creation+migration")
		c.ClassIf(sawQuotaAfterPods, "replay:quota-object-after-pod-events")
		c.ClassIf(sawQuotaAfterBoundTreePod, "replay:tree-quota-after-its-bound-pod")
		c.ClassIf(maxBound >= 2, "crash-with>=2-bound-pods")
		c.ClassIf(maxBound == 0, "never-any-bound-pod")
		if maxBound >= 2 && sawDup && sawTreePodBound {
			c.NonTrivial(fmt.Sprint(all), hist)
		}
		c.Sample(map[string]any{"quotas": fmt.Sprint(all), "history": hist})
	})
}
