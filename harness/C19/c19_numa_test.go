//go:build verif

// C19 (unit 2, nodenumaresource) — the CPU set / per-NUMA amounts persisted at pre-bind rebuild, in a freshly started
// scheduler, the same per-node allocation state the allocating scheduler held.
// See /verif/DESIGN.md §1 C19. In-package harness (injected with -overlay).
package nodenumaresource

import (
	"context"
	"encoding/json"
	"flag"
	"fmt"
	"io"
	"sort"
	"strings"
	"sync"
	"testing"
	"time"

	corev1 "k8s.io/api/core/v1"
	"k8s.io/apimachinery/pkg/api/resource"
	metav1 "k8s.io/apimachinery/pkg/apis/meta/v1"
	"k8s.io/apimachinery/pkg/types"
	"k8s.io/client-go/tools/cache"
	"k8s.io/klog/v2"
	fwktype "k8s.io/kube-scheduler/framework"
	"k8s.io/kubernetes/pkg/scheduler/framework"
	"pgregory.net/rapid"

	"github.com/koordinator-sh/koordinator/apis/extension"
	schedulingv1alpha1 "github.com/koordinator-sh/koordinator/apis/scheduling/v1alpha1"
	schedulingconfig "github.com/koordinator-sh/koordinator/pkg/scheduler/apis/config"
	v1 "github.com/koordinator-sh/koordinator/pkg/scheduler/apis/config/v1"
	"github.com/koordinator-sh/koordinator/pkg/scheduler/frameworkext"
	"github.com/koordinator-sh/koordinator/pkg/scheduler/frameworkext/topologymanager"
	"github.com/koordinator-sh/koordinator/pkg/util/cpuset"
	reservationutil "github.com/koordinator-sh/koordinator/pkg/util/reservation"
	"github.com/koordinator-sh/koordinator/pkg/verifkit/vk"
)

const c19Node = "n"

// ---------------------------------------------------------------- environment: one node, its topology, a live plugin

type c19Env struct {
	Sockets, NodesPerSocket, CoresPerNode, Threads int
	MaxRef                                         int
	Reserved                                       cpuset.CPUSet
	MemPerNode                                     int64
	NodeBindPolicy                                 string // node label cpu-bind-policy
	NodeNUMAPolicy                                 string // node label numa-topology-policy
	KubeletNUMAPolicy                              string // policy reported through the NRT
	KubeletFullPCPUs                               bool   // kubelet cpu manager policy static + full-pcpus-only, reported through the NRT
	NodeStrategy                                   string // node label numa-allocate-strategy
	DefaultBind                                    string // plugin arg
	NUMAScoring                                    string // plugin arg
	topo                                           *CPUTopology
	node                                           *corev1.Node
}

func c19BuildTopo(s, n, c, p int) *CPUTopology {
	topo := &CPUTopology{NumSockets: s, NumNodes: n * s, NumCores: c * n * s, NumCPUs: p * c * n * s, CPUDetails: make(map[int]CPUInfo)}
	var nodeID, coreID, cpuID int
	for si := 0; si < s; si++ {
		for ni := 0; ni < n; ni++ {
			for ci := 0; ci < c; ci++ {
				for pi := 0; pi < p; pi++ {
					topo.CPUDetails[cpuID] = CPUInfo{SocketID: si, NodeID: nodeID, CoreID: coreID, CPUID: cpuID}
					cpuID++
				}
				coreID++
			}
			nodeID++
		}
	}
	return topo
}

func c19GenEnv(t *rapid.T) *c19Env {
	e := &c19Env{}
	e.Sockets = rapid.IntRange(1, 2).Draw(t, "sockets")
	e.NodesPerSocket = rapid.IntRange(1, 2).Draw(t, "nodesPerSocket")
	e.CoresPerNode = rapid.IntRange(1, 6).Draw(t, "coresPerNode")
	e.Threads = rapid.SampledFrom([]int{1, 2, 2, 2, 4}).Draw(t, "threads")
	e.topo = c19BuildTopo(e.Sockets, e.NodesPerSocket, e.CoresPerNode, e.Threads)
	e.MaxRef = rapid.SampledFrom([]int{1, 1, 1, 2}).Draw(t, "maxRefCount")
	all := e.topo.CPUDetails.CPUs().ToSlice()
	e.Reserved = cpuset.NewCPUSet()
	if rapid.IntRange(0, 3).Draw(t, "hasReserved") == 0 {
		mask := rapid.SliceOfN(rapid.Bool(), len(all), len(all)).Draw(t, "reservedMask")
		b := cpuset.NewCPUSetBuilder()
		n := 0
		for i, id := range all {
			if mask[i] && n < len(all)/2 {
				b.Add(id)
				n++
			}
		}
		e.Reserved = b.Result()
	}
	e.MemPerNode = rapid.Int64Range(0, 1<<12).Draw(t, "memPerNode")
	e.NodeBindPolicy = rapid.SampledFrom([]string{"", "", "", string(extension.NodeCPUBindPolicyFullPCPUsOnly), string(extension.NodeCPUBindPolicySpreadByPCPUs)}).Draw(t, "nodeBindPolicy")
	e.NodeNUMAPolicy = rapid.SampledFrom([]string{"", "", string(extension.NUMATopologyPolicyBestEffort), string(extension.NUMATopologyPolicyRestricted), string(extension.NUMATopologyPolicySingleNUMANode)}).Draw(t, "nodeNUMAPolicy")
	if e.NodeNUMAPolicy == "" {
		e.KubeletNUMAPolicy = rapid.SampledFrom([]string{"", "", "", string(extension.NUMATopologyPolicyBestEffort), string(extension.NUMATopologyPolicySingleNUMANode)}).Draw(t, "kubeletNUMAPolicy")
	}
	e.KubeletFullPCPUs = e.NodeBindPolicy == "" && rapid.IntRange(0, 5).Draw(t, "kubeletFullPCPUs") == 0
	e.NodeStrategy = rapid.SampledFrom([]string{"", "", string(schedulingconfig.NUMAMostAllocated), string(schedulingconfig.NUMALeastAllocated)}).Draw(t, "nodeStrategy")
	e.DefaultBind = rapid.SampledFrom([]string{schedulingconfig.CPUBindPolicyFullPCPUs, schedulingconfig.CPUBindPolicyFullPCPUs, schedulingconfig.CPUBindPolicySpreadByPCPUs}).Draw(t, "defaultBind")
	e.NUMAScoring = rapid.SampledFrom([]string{string(schedulingconfig.LeastAllocated), string(schedulingconfig.MostAllocated)}).Draw(t, "numaScoring")

	node := &corev1.Node{}
	node.Name = c19Node
	node.Labels = map[string]string{}
	if e.NodeBindPolicy != "" {
		node.Labels[extension.LabelNodeCPUBindPolicy] = e.NodeBindPolicy
	}
	if e.NodeNUMAPolicy != "" {
		node.Labels[extension.LabelNUMATopologyPolicy] = e.NodeNUMAPolicy
	}
	if e.NodeStrategy != "" {
		node.Labels[extension.LabelNodeNUMAAllocateStrategy] = e.NodeStrategy
	}
	node.Status.Allocatable = corev1.ResourceList{
		corev1.ResourceCPU:    *resource.NewMilliQuantity(int64(e.topo.NumCPUs)*1000, resource.DecimalSI),
		corev1.ResourceMemory: *resource.NewQuantity(e.MemPerNode*int64(e.topo.NumNodes), resource.BinarySI),
	}
	node.Status.Capacity = node.Status.Allocatable.DeepCopy()
	e.node = node
	return e
}

func (e *c19Env) String() string {
	return fmt.Sprintf("topo=%dx%dx%dx%d maxRef=%d reserved=%q memPerNode=%d nodeBind(now)=%q kubeletFullPCPUs(now)=%v nodeNUMA=%q kubeletNUMA=%q strategy=%q defaultBind=%q numaScoring=%q",
		e.Sockets, e.NodesPerSocket, e.CoresPerNode, e.Threads, e.MaxRef, e.Reserved.String(), e.MemPerNode, e.NodeBindPolicy, e.KubeletFullPCPUs, e.NodeNUMAPolicy, e.KubeletNUMAPolicy, e.NodeStrategy, e.DefaultBind, e.NUMAScoring)
}

// what the NodeResourceTopology informer delivers for the node (identical for the live and the fresh scheduler)
func (e *c19Env) deliverTopology(tom TopologyOptionsManager) {
	tom.UpdateTopologyOptions(c19Node, func(o *TopologyOptions) {
		o.CPUTopology = e.topo
		o.MaxRefCount = e.MaxRef
		o.ReservedCPUs = e.Reserved
		o.NUMATopologyPolicy = extension.NUMATopologyPolicy(e.KubeletNUMAPolicy)
		o.Policy = nil
		if e.KubeletFullPCPUs {
			o.Policy = &extension.KubeletCPUManagerPolicy{Policy: extension.KubeletCPUManagerPolicyStatic,
				Options: map[string]string{extension.KubeletCPUManagerPolicyFullPCPUsOnlyOption: "true"}}
		}
		o.NUMANodeResources = nil
		for i := 0; i < e.topo.NumNodes; i++ {
			o.NUMANodeResources = append(o.NUMANodeResources, NUMANodeResource{Node: i, Resources: corev1.ResourceList{
				corev1.ResourceCPU:    *resource.NewMilliQuantity(int64(e.topo.CPUsPerNode())*1000, resource.DecimalSI),
				corev1.ResourceMemory: *resource.NewQuantity(e.MemPerNode, resource.BinarySI),
			}})
		}
	})
}

func (e *c19Env) newManager(tom TopologyOptionsManager) *resourceManager {
	strat := schedulingconfig.NUMALeastAllocated
	if e.NUMAScoring == string(schedulingconfig.MostAllocated) {
		strat = schedulingconfig.NUMAMostAllocated
	}
	return &resourceManager{numaAllocateStrategy: strat, topologyOptionsManager: tom, nodeAllocations: map[string]*NodeAllocation{}}
}

// c19Handle gives the plugin exactly what the scheduling path of this harness needs from the framework: the node
// snapshot and the real NUMA topology manager. Everything else is a nil interface: an unexpected call panics loudly.
type c19Handle struct {
	frameworkext.FrameworkExtender
	lister    *testSharedLister
	providers []topologymanager.NUMATopologyHintProvider
	tm        topologymanager.Interface
}

func (h *c19Handle) SnapshotSharedLister() fwktype.SharedLister { return h.lister }
func (h *c19Handle) GetNUMATopologyHintProvider() []topologymanager.NUMATopologyHintProvider {
	return h.providers
}
func (h *c19Handle) RunNUMATopologyManagerAdmit(ctx context.Context, cycleState fwktype.CycleState, pod *corev1.Pod, node *corev1.Node, numaNodes []int, policyType extension.NUMATopologyPolicy, exclusivePolicy extension.NumaTopologyExclusive, allNUMANodeStatus []extension.NumaNodeStatus) *fwktype.Status {
	return h.tm.Admit(ctx, cycleState, pod, node, numaNodes, policyType, exclusivePolicy, allNUMANodeStatus)
}

func (e *c19Env) newPlugin(t *rapid.T, tom TopologyOptionsManager, rm *resourceManager) *Plugin {
	var v1args v1.NodeNUMAResourceArgs
	v1.SetDefaults_NodeNUMAResourceArgs(&v1args)
	var args schedulingconfig.NodeNUMAResourceArgs
	if err := v1.Convert_v1_NodeNUMAResourceArgs_To_config_NodeNUMAResourceArgs(&v1args, &args, nil); err != nil {
		t.Fatalf("harness: convert args: %v", err)
	}
	args.DefaultCPUBindPolicy = e.DefaultBind
	args.NUMAScoringStrategy.Type = schedulingconfig.ScoringStrategyType(e.NUMAScoring)
	h := &c19Handle{lister: newTestSharedLister(nil, []*corev1.Node{e.node})}
	p := &Plugin{
		handle:                 h,
		pluginArgs:             &args,
		scorer:                 resourceStrategyTypeMap[args.ScoringStrategy.Type](&args),
		numaScorer:             resourceStrategyTypeMap[args.NUMAScoringStrategy.Type](&args),
		resourceManager:        rm,
		topologyOptionsManager: tom,
	}
	h.providers = []topologymanager.NUMATopologyHintProvider{p}
	h.tm = topologymanager.New(h)
	return p
}

// ---------------------------------------------------------------- pods

var c19QoS = []string{string(extension.QoSLSR), string(extension.QoSLSR), string(extension.QoSLSR), string(extension.QoSLSR), string(extension.QoSLSE), string(extension.QoSLSE), string(extension.QoSLS), string(extension.QoSLS), "", string(extension.QoSBE)}
var c19BindLits = []extension.CPUBindPolicy{"", "", extension.CPUBindPolicyDefault, extension.CPUBindPolicyFullPCPUs, extension.CPUBindPolicySpreadByPCPUs, extension.CPUBindPolicyConstrainedBurst}
var c19ExclLits = []extension.CPUExclusivePolicy{"", extension.CPUExclusivePolicyNone, extension.CPUExclusivePolicyPCPULevel, extension.CPUExclusivePolicyNUMANodeLevel}

func c19GenPod(t *rapid.T, e *c19Env, idx int) *corev1.Pod {
	pod := &corev1.Pod{}
	pod.Name = fmt.Sprintf("p%d", idx)
	pod.Namespace = "default"
	pod.UID = types.UID(fmt.Sprintf("uid-p%d", idx))
	pod.Labels = map[string]string{}
	pod.Annotations = map[string]string{}
	if q := rapid.SampledFrom(c19QoS).Draw(t, "qos"); q != "" {
		pod.Labels[extension.LabelPodQoS] = q
	}
	switch rapid.IntRange(0, 9).Draw(t, "priority") {
	case 0: // unset: derived from QoS
	case 1:
		v := int32(7500) // mid
		pod.Spec.Priority = &v
	default:
		v := int32(9500) // prod
		pod.Spec.Priority = &v
	}
	nCPU := e.topo.NumCPUs
	req := corev1.ResourceList{}
	switch rapid.IntRange(0, 11).Draw(t, "cpuKind") {
	case 0: // no cpu
	case 1:
		req[corev1.ResourceCPU] = *resource.NewMilliQuantity(rapid.Int64Range(1, int64(nCPU)*1000).Draw(t, "milliCPU"), resource.DecimalSI)
	case 3:
		req[corev1.ResourceCPU] = *resource.NewMilliQuantity(int64(rapid.IntRange(1, nCPU+1).Draw(t, "cores"))*1000, resource.DecimalSI)
	default: // small integral requests keep the node from filling up after two pods
		hi := nCPU / 3
		if hi < 1 {
			hi = 1
		}
		req[corev1.ResourceCPU] = *resource.NewMilliQuantity(int64(rapid.IntRange(1, hi).Draw(t, "coresSmall"))*1000, resource.DecimalSI)
	}
	if rapid.Bool().Draw(t, "wantMem") {
		req[corev1.ResourceMemory] = *resource.NewQuantity(rapid.Int64Range(0, e.MemPerNode*int64(e.topo.NumNodes)/2+1).Draw(t, "mem"), resource.BinarySI)
	}
	if rapid.IntRange(0, 9).Draw(t, "wantOther") == 0 {
		req[corev1.ResourceEphemeralStorage] = *resource.NewQuantity(1<<20, resource.BinarySI)
	}
	pod.Spec.Containers = []corev1.Container{{Name: "c", Resources: corev1.ResourceRequirements{Requests: req, Limits: req.DeepCopy()}}}
	if rapid.IntRange(0, 9).Draw(t, "hasResourceSpec") < 6 {
		spec := &extension.ResourceSpec{
			RequiredCPUBindPolicy:       rapid.SampledFrom(c19BindLits).Draw(t, "requiredBind"),
			PreferredCPUBindPolicy:      rapid.SampledFrom(c19BindLits).Draw(t, "preferredBind"),
			PreferredCPUExclusivePolicy: rapid.SampledFrom(c19ExclLits).Draw(t, "exclusive"),
		}
		if spec.RequiredCPUBindPolicy == extension.CPUBindPolicyConstrainedBurst {
			spec.RequiredCPUBindPolicy = ""
		}
		_ = extension.SetResourceSpec(pod, spec)
	}
	if rapid.IntRange(0, 9).Draw(t, "hasNUMASpec") < 3 {
		ns := &extension.NUMATopologySpec{
			NUMATopologyPolicy:      extension.NUMATopologyPolicy(rapid.SampledFrom([]string{"", string(extension.NUMATopologyPolicyBestEffort), string(extension.NUMATopologyPolicyRestricted), string(extension.NUMATopologyPolicySingleNUMANode)}).Draw(t, "podNUMAPolicy")),
			SingleNUMANodeExclusive: extension.NumaTopologyExclusive(rapid.SampledFrom([]string{"", string(extension.NumaTopologyExclusivePreferred), string(extension.NumaTopologyExclusiveRequired)}).Draw(t, "podNUMAExclusive")),
		}
		b, _ := json.Marshal(ns)
		pod.Annotations[extension.AnnotationNUMATopologySpec] = string(b)
	}
	return pod
}

func c19PodStr(pod *corev1.Pod) string {
	req := pod.Spec.Containers[0].Resources.Requests
	prio := "nil"
	if pod.Spec.Priority != nil {
		prio = fmt.Sprint(*pod.Spec.Priority)
	}
	return fmt.Sprintf("%s{qos=%q prio=%s req=%v spec=%s numa=%s}", pod.Name, pod.Labels[extension.LabelPodQoS], prio, c19RL(req),
		pod.Annotations[extension.AnnotationResourceSpec], pod.Annotations[extension.AnnotationNUMATopologySpec])
}

func c19RL(rl corev1.ResourceList) string {
	var ks []string
	for k := range rl {
		ks = append(ks, string(k))
	}
	sort.Strings(ks)
	var parts []string
	for _, k := range ks {
		q := rl[corev1.ResourceName(k)]
		parts = append(parts, k+"="+q.String())
	}
	return "{" + strings.Join(parts, " ") + "}"
}

func c19AllocStr(a *PodAllocation) string {
	if a == nil {
		return "none"
	}
	s := fmt.Sprintf("cpus=%q excl=%q", a.CPUSet.String(), a.CPUExclusivePolicy)
	for _, r := range a.NUMANodeResources {
		s += fmt.Sprintf(" numa%d=%s", r.Node, c19RL(r.Resources))
	}
	return s
}

// ---------------------------------------------------------------- comparison of two rebuilt states

func c19NormExcl(p schedulingconfig.CPUExclusivePolicy) string {
	if p == "" || p == schedulingconfig.CPUExclusivePolicyNone {
		return "None"
	}
	return string(p)
}

func c19NUMAMap(a PodAllocation) map[int]corev1.ResourceList {
	m := map[int]corev1.ResourceList{}
	for _, r := range a.NUMANodeResources {
		if m[r.Node] == nil {
			m[r.Node] = corev1.ResourceList{}
		}
		for k, q := range r.Resources {
			cur := m[r.Node][k]
			cur.Add(q)
			m[r.Node][k] = cur
		}
	}
	return m
}

// zero and absent are the same amount
func c19RLDiff(a, b corev1.ResourceList) string {
	for k, qa := range a {
		qb := b[k]
		if qa.Cmp(qb) != 0 {
			return fmt.Sprintf("%s: %s vs %s", k, qa.String(), qb.String())
		}
	}
	for k, qb := range b {
		qa := a[k]
		if qa.Cmp(qb) != 0 {
			return fmt.Sprintf("%s: %s vs %s", k, qa.String(), qb.String())
		}
	}
	return ""
}

func c19Holds(a PodAllocation) bool {
	if !a.CPUSet.IsEmpty() {
		return true
	}
	for _, r := range a.NUMANodeResources {
		for _, q := range r.Resources {
			if !q.IsZero() {
				return true
			}
		}
	}
	return false
}

func c19SortedUIDs(m map[types.UID]PodAllocation) []types.UID {
	out := make([]types.UID, 0, len(m))
	for k := range m {
		out = append(out, k)
	}
	sort.Slice(out, func(i, j int) bool { return out[i] < out[j] })
	return out
}

// c19Compare reports the first difference between the allocation state `a` (named an) and `b` (named bn) of the node,
// restricted to what decides which CPUs / NUMA amounts are taken. Returns (signature suffix, message) or ("","").
func c19Compare(e *c19Env, an string, a *resourceManager, bn string, b *resourceManager) (sig string, msg string, about types.UID) {
	na, nb := a.GetNodeAllocation(c19Node), b.GetNodeAllocation(c19Node)
	// pods that hold something
	for _, uid := range c19SortedUIDs(na.allocatedPods) {
		pa := na.allocatedPods[uid]
		pb, ok := nb.allocatedPods[uid]
		if !c19Holds(pa) {
			continue
		}
		if !ok {
			return "pod-lost", fmt.Sprintf("pod %s holds [%s] in %s but is absent from %s", uid, c19AllocStr(&pa), an, bn), uid
		}
		if !pa.CPUSet.Equals(pb.CPUSet) {
			return "cpuset-differs", fmt.Sprintf("pod %s cpuset %s=%q %s=%q", uid, an, pa.CPUSet.String(), bn, pb.CPUSet.String()), uid
		}
		ma, mb := c19NUMAMap(pa), c19NUMAMap(pb)
		keys := map[int]bool{}
		for n := range ma {
			keys[n] = true
		}
		for n := range mb {
			keys[n] = true
		}
		var ks []int
		for n := range keys {
			ks = append(ks, n)
		}
		sort.Ints(ks)
		for _, n := range ks {
			if d := c19RLDiff(ma[n], mb[n]); d != "" {
				return "numa-amount-differs", fmt.Sprintf("pod %s NUMA %d %s (%s vs %s); %s=[%s] %s=[%s]", uid, n, d, an, bn, an, c19AllocStr(&pa), bn, c19AllocStr(&pb)), uid
			}
		}
		if !pa.CPUSet.IsEmpty() && c19NormExcl(pa.CPUExclusivePolicy) != c19NormExcl(pb.CPUExclusivePolicy) {
			return "exclusive-policy-differs", fmt.Sprintf("pod %s (cpus %q) exclusive policy %s=%q %s=%q", uid, pa.CPUSet.String(), an, pa.CPUExclusivePolicy, bn, pb.CPUExclusivePolicy), uid
		}
	}
	for _, uid := range c19SortedUIDs(nb.allocatedPods) {
		pb := nb.allocatedPods[uid]
		if _, ok := na.allocatedPods[uid]; !ok && c19Holds(pb) {
			return "pod-resurrected", fmt.Sprintf("pod %s holds [%s] in %s but is absent from %s", uid, c19AllocStr(&pb), bn, an), uid
		}
	}
	// per-CPU ledger
	for _, id := range e.topo.CPUDetails.CPUs().ToSlice() {
		ia, ib := na.allocatedCPUs[id], nb.allocatedCPUs[id]
		if ia.RefCount != ib.RefCount {
			return "refcount-differs", fmt.Sprintf("cpu %d refcount %s=%d %s=%d", id, an, ia.RefCount, bn, ib.RefCount), ""
		}
		if ia.RefCount == 1 && e.MaxRef == 1 && c19NormExcl(ia.ExclusivePolicy) != c19NormExcl(ib.ExclusivePolicy) {
			return "cpu-exclusive-mark-differs", fmt.Sprintf("cpu %d exclusive mark %s=%q %s=%q", id, an, ia.ExclusivePolicy, bn, ib.ExclusivePolicy), ""
		}
	}
	for id := range na.allocatedCPUs {
		if _, ok := e.topo.CPUDetails[id]; !ok {
			return "cpu-outside-topology", fmt.Sprintf("%s holds cpu %d which the node does not have", an, id), ""
		}
	}
	for id := range nb.allocatedCPUs {
		if _, ok := e.topo.CPUDetails[id]; !ok {
			return "cpu-outside-topology", fmt.Sprintf("%s holds cpu %d which the node does not have", bn, id), ""
		}
	}
	// per-NUMA ledger
	nodes := map[int]bool{}
	for n := range na.allocatedResources {
		nodes[n] = true
	}
	for n := range nb.allocatedResources {
		nodes[n] = true
	}
	var ns []int
	for n := range nodes {
		ns = append(ns, n)
	}
	sort.Ints(ns)
	for _, n := range ns {
		var ra, rb corev1.ResourceList
		if na.allocatedResources[n] != nil {
			ra = na.allocatedResources[n].Resources
		}
		if nb.allocatedResources[n] != nil {
			rb = nb.allocatedResources[n].Resources
		}
		if d := c19RLDiff(ra, rb); d != "" {
			return "numa-ledger-differs", fmt.Sprintf("NUMA %d allocated %s (%s vs %s)", n, d, an, bn), ""
		}
	}
	// what the next scheduling cycle would consider free
	fa, _, ea := a.GetAvailableCPUs(c19Node)
	fb, _, eb := b.GetAvailableCPUs(c19Node)
	if (ea != nil) != (eb != nil) || !fa.Equals(fb) {
		return "available-cpus-differ", fmt.Sprintf("GetAvailableCPUs %s=%q(%v) %s=%q(%v)", an, fa.String(), ea, bn, fb.String(), eb), ""
	}
	opts := a.topologyOptionsManager.GetTopologyOptions(c19Node)
	ta, _, _ := a.getAvailableNUMANodeResources(c19Node, opts, nil)
	tb, _, _ := b.getAvailableNUMANodeResources(c19Node, b.topologyOptionsManager.GetTopologyOptions(c19Node), nil)
	for n := 0; n < e.topo.NumNodes; n++ {
		if d := c19RLDiff(ta[n], tb[n]); d != "" {
			return "available-numa-differs", fmt.Sprintf("NUMA %d available %s (%s vs %s)", n, d, an, bn), ""
		}
	}
	// NUMA occupancy mode (idle / single / shared) used by the NUMA-exclusive admission
	sa, sb := na.GetAllNUMANodeStatus(e.topo.NumNodes), nb.GetAllNUMANodeStatus(e.topo.NumNodes)
	if fmt.Sprint(sa) != fmt.Sprint(sb) {
		return "numa-status-differs", fmt.Sprintf("NUMA node status %s=%v %s=%v", an, sa, bn, sb), ""
	}
	return "", "", ""
}

// ---------------------------------------------------------------- persisted objects and the informer handlers that read them

// c19Obj is one object the API server holds: a bound pod, or a scheduled Reservation (whose reserve pod the
// scheduler derives with reservationutil.NewReservePod).
type c19Obj struct {
	Pod  *corev1.Pod
	Resv *schedulingv1alpha1.Reservation
}

func (o c19Obj) copy() c19Obj {
	if o.Resv != nil {
		return c19Obj{Resv: o.Resv.DeepCopy()}
	}
	return c19Obj{Pod: o.Pod.DeepCopy()}
}

func (o c19Obj) any() interface{} {
	if o.Resv != nil {
		return o.Resv
	}
	return o.Pod
}

func (o c19Obj) annotations() map[string]string {
	if o.Resv != nil {
		return o.Resv.Annotations
	}
	return o.Pod.Annotations
}

func (o c19Obj) String() string {
	if o.Resv != nil {
		return fmt.Sprintf("reservation %s{phase=%q node=%q status=%s spec=%s}", o.Resv.Name, o.Resv.Status.Phase, o.Resv.Status.NodeName,
			o.Resv.Annotations[extension.AnnotationResourceStatus], o.Resv.Annotations[extension.AnnotationResourceSpec])
	}
	return fmt.Sprintf("pod %s{phase=%q status=%s spec=%s}", o.Pod.Name, o.Pod.Status.Phase,
		o.Pod.Annotations[extension.AnnotationResourceStatus], o.Pod.Annotations[extension.AnnotationResourceSpec])
}

// the API server's view of an object: whatever survives JSON
func c19ViaAPI(t *rapid.T, o c19Obj) c19Obj {
	b, err := json.Marshal(o.any())
	if err != nil {
		t.Fatalf("harness: marshal: %v", err)
	}
	if o.Resv != nil {
		out := &schedulingv1alpha1.Reservation{}
		if err := json.Unmarshal(b, out); err != nil {
			t.Fatalf("harness: unmarshal: %v", err)
		}
		return c19Obj{Resv: out}
	}
	out := &corev1.Pod{}
	if err := json.Unmarshal(b, out); err != nil {
		t.Fatalf("harness: unmarshal: %v", err)
	}
	return c19Obj{Pod: out}
}

// c19Unbound is the object as the API server held it between the pre-bind patch (annotations written) and the bind
// (spec.nodeName / status.nodeName+phase written): annotated, not assigned yet.
func c19Unbound(o c19Obj) c19Obj {
	n := o.copy()
	if n.Resv != nil {
		n.Resv.Status.NodeName = ""
		n.Resv.Status.Phase = schedulingv1alpha1.ReservationPending
		n.Resv.Status.Allocatable = nil
	} else {
		n.Pod.Spec.NodeName = ""
		n.Pod.Status.Phase = ""
	}
	return n
}

// c19Handlers are the two registrations of registerPodEventHandler: pods, and reservations mapped to reserve pods.
type c19Handlers struct {
	pod  cache.ResourceEventHandler
	resv cache.ResourceEventHandler
}

func c19NewHandlers(rm ResourceManager) c19Handlers {
	h := &podEventHandler{resourceManager: rm}
	return c19Handlers{pod: h, resv: reservationutil.NewReservationToPodEventHandler(h, reservationutil.IsObjValidActiveReservation)}
}

func (h c19Handlers) of(o c19Obj) cache.ResourceEventHandler {
	if o.Resv != nil {
		return h.resv
	}
	return h.pod
}
func (h c19Handlers) add(o c19Obj)         { h.of(o).OnAdd(o.copy().any(), true) }
func (h c19Handlers) update(old, n c19Obj) { h.of(n).OnUpdate(old.copy().any(), n.copy().any()) }
func (h c19Handlers) delete(o c19Obj, tombstone bool) {
	if tombstone {
		h.of(o).OnDelete(cache.DeletedFinalStateUnknown{Key: "k", Obj: o.copy().any()})
	} else {
		h.of(o).OnDelete(o.copy().any())
	}
}

// ---------------------------------------------------------------- replay into a fresh scheduler

type c19Event struct {
	// add | dup-add | update | topology | add-unbound (the informer first saw the object annotated but not bound)
	// | bind-update (the update old=annotated unbound, new=bound that follows an add-unbound: same allocation)
	Kind string
	UID  types.UID
}

// c19Replay feeds the persisted objects to a fresh resourceManager through the real event handlers.
func c19Replay(e *c19Env, objs map[types.UID]c19Obj, events []c19Event) *resourceManager {
	tom := NewTopologyOptionsManager()
	rm := e.newManager(tom)
	h := c19NewHandlers(rm)
	sawTopology := false
	for _, ev := range events {
		switch ev.Kind {
		case "topology":
			e.deliverTopology(tom)
			sawTopology = true
		case "add", "dup-add":
			h.add(objs[ev.UID])
		case "add-unbound":
			h.add(c19Unbound(objs[ev.UID]))
		case "bind-update":
			h.update(c19Unbound(objs[ev.UID]), objs[ev.UID])
		case "update": // same allocation, something else changed
			o := objs[ev.UID]
			n := o.copy()
			if n.Resv != nil {
				n.Resv.ResourceVersion = "next"
			} else {
				n.Pod.ResourceVersion = "next"
			}
			h.update(o, n)
		}
	}
	if !sawTopology {
		e.deliverTopology(tom)
	}
	return rm
}

func c19GenEvents(t *rapid.T, uids []types.UID, topologyFirst bool) ([]c19Event, int) {
	var evs []c19Event
	if len(uids) > 0 {
		for _, u := range rapid.Permutation(uids).Draw(t, "deliveryOrder") {
			evs = append(evs, c19Event{"add", u})
		}
	}
	extras := 0
	if len(uids) > 0 {
		extras = rapid.IntRange(0, 3).Draw(t, "extraEvents")
	}
	for i := 0; i < extras; i++ {
		u := rapid.SampledFrom(uids).Draw(t, "extraUID")
		kind := rapid.SampledFrom([]string{"dup-add", "update"}).Draw(t, "extraKind")
		first := 0
		for j, ev := range evs {
			if ev.UID == u {
				first = j
				break
			}
		}
		pos := rapid.IntRange(first+1, len(evs)).Draw(t, "extraPos")
		evs = append(evs[:pos], append([]c19Event{{kind, u}}, evs[pos:]...)...)
	}
	// some objects are first seen between their pre-bind patch and their bind: Add(annotated, unbound), then the update
	// to the bound object, which carries the same allocation, before anything else about that object
	early := 0
	for _, u := range uids {
		if rapid.IntRange(0, 3).Draw(t, "seenBeforeBind") != 0 {
			continue
		}
		first, nextOfU := -1, len(evs)
		for j, ev := range evs {
			if ev.UID != u {
				continue
			}
			if first < 0 {
				first = j
			} else {
				nextOfU = j
				break
			}
		}
		evs[first].Kind = "add-unbound"
		pos := rapid.IntRange(first+1, nextOfU).Draw(t, "bindUpdatePos")
		evs = append(evs[:pos], append([]c19Event{{"bind-update", u}}, evs[pos:]...)...)
		early++
	}
	if topologyFirst {
		evs = append([]c19Event{{Kind: "topology"}}, evs...)
	} else {
		pos := rapid.IntRange(1, len(evs)).Draw(t, "topologyPos")
		evs = append(evs[:pos], append([]c19Event{{Kind: "topology"}}, evs[pos:]...)...)
	}
	return evs, extras + early*1000
}

func c19Persisted(m map[types.UID]c19Obj) string {
	var us []string
	for u := range m {
		us = append(us, string(u))
	}
	sort.Strings(us)
	var parts []string
	for _, u := range us {
		parts = append(parts, m[types.UID(u)].String())
	}
	return strings.Join(parts, "; ")
}

// c19NewReservation wraps a generated pod into a Reservation the way users write them (template + owners + ttl).
func c19NewReservation(pod *corev1.Pod, idx int) *schedulingv1alpha1.Reservation {
	r := &schedulingv1alpha1.Reservation{}
	r.Name = fmt.Sprintf("r%d", idx)
	r.UID = types.UID(fmt.Sprintf("uid-r%d", idx))
	tpl := &corev1.PodTemplateSpec{}
	tpl.Labels = pod.Labels
	tpl.Annotations = pod.Annotations
	tpl.Namespace = pod.Namespace
	tpl.Spec = *pod.Spec.DeepCopy()
	r.Spec.Template = tpl
	r.Spec.Owners = []schedulingv1alpha1.ReservationOwner{{LabelSelector: &metav1.LabelSelector{MatchLabels: map[string]string{"app": "x"}}}}
	r.Spec.TTL = &metav1.Duration{Duration: time.Hour}
	return r
}

// ---------------------------------------------------------------- (1) histories through the real plugin, cut anywhere, replayed

func TestVerifC19NUMAReplay(t *testing.T) {
	c19Silence()
	rec := vk.New(t, "C19", "numaReplay")
	ctx := context.Background()
	rapid.Check(t, func(t *rapid.T) {
		c := rec.Begin()
		defer c.End()
		e := c19GenEnv(t)
		tom := NewTopologyOptionsManager()
		e.deliverTopology(tom)
		rm := e.newManager(tom)
		plg := e.newPlugin(t, tom, rm)
		live := c19NewHandlers(rm)
		nodeInfo, _ := plg.handle.SnapshotSharedLister().NodeInfos().Get(c19Node)

		// independent informers: in some cases the restarted scheduler gets pod events before the node's topology report
		lateTopologyCase := rapid.IntRange(0, 9).Draw(t, "podEventsMayPrecedeTopology") == 0
		persisted := map[types.UID]c19Obj{}    // what the API server holds: bound pods (incl. terminated ones), scheduled reservations
		model := map[types.UID]PodAllocation{} // what Reserve handed to each still-active pod / reservation
		deletedHow := map[types.UID]string{}
		next := 0
		var hist []string
		dead := false
		sawNUMA, sawCPU, sawShare, sawDup, sawTerminated, sawPodFinished, sawExclMismatchShape, sawSelfEvent, sawLate, sawResv := false, false, false, false, false, false, false, false, false, false
		maxLive, checks := 0, 0
		sawInheritedKept, sawInheritedOverridden := false, false
		sawDeleted, sawEarly, sawPolicyChange, sawPolicyChangeInFlight := false, false, false, false

		bound := func() []types.UID {
			var out []types.UID
			for u := range persisted {
				out = append(out, u)
			}
			sort.Slice(out, func(i, j int) bool { return out[i] < out[j] })
			return out
		}
		running := func() []types.UID {
			var out []types.UID
			for _, u := range bound() {
				if _, ok := model[u]; ok {
					out = append(out, u)
				}
			}
			return out
		}

		crash := func(t *rapid.T) {
			checks++
			uids := bound()
			topologyFirst := !lateTopologyCase || len(uids) == 0 || rapid.Bool().Draw(t, "topologyBeforePods")
			evs, extras := c19GenEvents(t, uids, topologyFirst)
			if extras >= 1000 {
				sawEarly = true
				extras %= 1000
			}
			fresh := c19Replay(e, persisted, evs)
			if !topologyFirst {
				sawLate = true
			}
			if extras > 0 {
				sawDup = true
			}
			holders := 0
			for _, u := range running() {
				if c19Holds(model[u]) {
					holders++
				}
			}
			if holders > maxLive {
				maxLive = holders
			}
			// the harness' own statement of what is taken: what Reserve handed to every object that is still active
			ref := e.newManager(tom)
			for _, u := range running() {
				a := model[u]
				ref.Update(c19Node, &a)
			}
			// two oracles: the replayed state equals the live one, and it equals what was handed out (the second also
			// sees a loss that the live scheduler shares because it re-read its own annotation)
			compare := func(fr *resourceManager) (sig, msg string, about types.UID, vsModel bool) {
				sig, msg, about = c19Compare(e, "live", rm, "fresh", fr)
				if sig == "" {
					sig, msg, about = c19Compare(e, "fresh", fr, "live", rm)
				}
				if sig != "" {
					return sig, msg, about, false
				}
				sig, msg, about = c19Compare(e, "reserve-time", ref, "fresh", fr)
				if sig == "" {
					sig, msg, about = c19Compare(e, "fresh", fr, "reserve-time", ref)
				}
				return sig, msg, about, true
			}
			sig, msg, about, vsModel := compare(fresh)
			if sig == "" {
				return
			}
			lateIsCause := false
			if !topologyFirst {
				// is the late topology report the cause? replay the same pod events with the topology first
				evs2 := []c19Event{{Kind: "topology"}}
				for _, ev := range evs {
					if ev.Kind != "topology" {
						evs2 = append(evs2, ev)
					}
				}
				fresh2 := c19Replay(e, persisted, evs2)
				sig2, msg2, about2, vsModel2 := compare(fresh2)
				if sig2 == "" {
					lateIsCause = true
				} else {
					sig, msg, about, vsModel, fresh, evs = sig2, msg2, about2, vsModel2, fresh2, evs2
				}
			}
			full := "numa-replay:" + sig
			if how, gone := deletedHow[about]; gone && sig == "pod-lost" && !vsModel {
				// not a persistence matter: the allocating scheduler itself still holds an object that was deleted
				full = "numa-replay:live-keeps-deleted-object:" + how
			}
			if o, ok := persisted[about]; ok && sig == "exclusive-policy-differs" {
				// Two known root causes get their own signature; any other exclusive-policy mismatch keeps the bare one.
				// what the informer path reads: the pod's annotations; for a Reservation those of its reserve pod (the
				// Reservation's own annotations override the template's)
				eff := o.annotations()
				if o.Resv != nil {
					eff = reservationutil.NewReservePod(o.Resv).Annotations
				}
				spec, _ := extension.GetResourceSpec(eff)
				handed := model[about] // what the scheduling cycle allocated with
				if !vsModel {
					handed = rm.GetNodeAllocation(c19Node).allocatedPods[about]
				}
				restored := fresh.GetNodeAllocation(c19Node).allocatedPods[about]
				readBack := spec != nil && c19NormExcl(restored.CPUExclusivePolicy) == c19NormExcl(spec.PreferredCPUExclusivePolicy)
				var tplSpec *extension.ResourceSpec
				shadowed := false
				if o.Resv != nil && o.Resv.Spec.Template != nil {
					tplSpec, _ = extension.GetResourceSpec(o.Resv.Spec.Template.Annotations)
					_, own := o.Resv.Annotations[extension.AnnotationResourceSpec]
					shadowed = own && tplSpec != nil && spec != nil && c19NormExcl(tplSpec.PreferredCPUExclusivePolicy) != c19NormExcl(spec.PreferredCPUExclusivePolicy)
				}
				switch {
				case shadowed && readBack && c19NormExcl(handed.CPUExclusivePolicy) == c19NormExcl(tplSpec.PreferredCPUExclusivePolicy):
					// PreBindReservation wrote a resource-spec annotation on the Reservation that hides the template's:
					// the cycle used the template's policy, the informer path reads the Reservation's (without it)
					full += ":reservation-annotation-shadows-template"
				case !shadowed && readBack && c19NormExcl(handed.CPUExclusivePolicy) == "None" && c19NormExcl(spec.PreferredCPUExclusivePolicy) != "None":
					// PreFilter reads the preferred exclusive policy only for LSE/LSR prod pods with a FullPCPUs /
					// SpreadByPCPUs policy; the informer path reads it unconditionally
					full += ":annotation-not-used-when-scheduling"
				}
			}
			if strings.HasPrefix(full, "numa-replay:live-keeps-deleted-object") {
				// already attributed
			} else if lateIsCause {
				full += ":pod-event-before-topology"
			} else if !vsModel {
				if fsig, _, _ := c19Compare(e, "reserve-time", ref, "fresh", fresh); fsig == "" {
					if fsig, _, _ = c19Compare(e, "fresh", fresh, "reserve-time", ref); fsig == "" {
						full += ":live-differs-from-reserve-time"
					}
				}
			}
			if vsModel {
				msg = "(live and fresh agree) " + msg
			}
			if c.Violation(t, full, "%s\nenv: %s\nhistory: %s\nreplay events: %v\npersisted: %s", msg, e, strings.Join(hist, "\n  "), evs, c19Persisted(persisted)) {
				dead = true
			}
		}

		// The node's cpu bind policy changes: its label is edited, or the kubelet cpu manager policy reported in the
		// NodeResourceTopology changes (delivered to the live scheduler by the NRT handler). A restarted scheduler is
		// given the current node / NRT.
		changePolicy := func(t *rapid.T) string {
			if rapid.Bool().Draw(t, "viaKubeletPolicy") {
				e.KubeletFullPCPUs = !e.KubeletFullPCPUs
				e.deliverTopology(tom)
				return fmt.Sprintf("NRT: kubelet static/full-pcpus-only=%v", e.KubeletFullPCPUs)
			}
			var others []string
			for _, v := range []string{"", string(extension.NodeCPUBindPolicyFullPCPUsOnly), string(extension.NodeCPUBindPolicySpreadByPCPUs)} {
				if v != e.NodeBindPolicy {
					others = append(others, v)
				}
			}
			e.NodeBindPolicy = rapid.SampledFrom(others).Draw(t, "newNodeBindPolicy")
			if e.NodeBindPolicy == "" {
				delete(e.node.Labels, extension.LabelNodeCPUBindPolicy)
			} else {
				e.node.Labels[extension.LabelNodeCPUBindPolicy] = e.NodeBindPolicy
			}
			return fmt.Sprintf("node label cpu-bind-policy=%q", e.NodeBindPolicy)
		}
		schedule := func(t *rapid.T) {
			if dead {
				return
			}
			tplPod := c19GenPod(t, e, next)
			idx := next
			next++
			asResv := rapid.IntRange(0, 4).Draw(t, "asReservation") == 0
			bindFails := rapid.IntRange(0, 7).Draw(t, "bindFails") == 0
			selfEvent := rapid.Bool().Draw(t, "liveSeesOwnBindEvent")
			viaAPI := rapid.IntRange(0, 3).Draw(t, "viaAPI") > 0
			var resv *schedulingv1alpha1.Reservation
			inherited := false
			pod := tplPod // what the scheduling cycle runs on
			what := c19PodStr(tplPod)
			if asResv {
				resv = c19NewReservation(tplPod, idx)
				// The template may be a verbatim copy of a bound pod (Reservations created for a migration job copy the source
				// pod's whole metadata): it then carries the allocation result of THAT pod. What pre-bind writes on the
				// Reservation itself overrides it in the reserve pod.
				if rapid.IntRange(0, 2).Draw(t, "templateCopiedFromBoundPod") == 0 {
					ann := map[string]string{}
					for k, v := range resv.Spec.Template.Annotations {
						ann[k] = v
					}
					ann[extension.AnnotationResourceStatus] = rapid.SampledFrom([]string{`{}`, `{"cpuset":"0"}`, `{"cpuset":"0","numaNodeResources":[{"node":0,"resources":{"cpu":"1"}}]}`}).Draw(t, "inheritedAllocationResult")
					resv.Spec.Template.Annotations = ann
					inherited = true
				}
				pod = reservationutil.NewReservePod(resv)
				what = "reservation r" + fmt.Sprint(idx) + " of " + what
			}
			cs := framework.NewCycleState()
			_, st := plg.PreFilter(ctx, cs, pod, nil)
			if st.Code() != fwktype.Success && st.Code() != fwktype.Skip {
				hist = append(hist, fmt.Sprintf("schedule %s -> prefilter: %s", what, st.Message()))
				return
			}
			if st := plg.Filter(ctx, cs, pod, nodeInfo); !st.IsSuccess() {
				hist = append(hist, fmt.Sprintf("schedule %s -> filter: %s", what, st.Message()))
				return
			}
			if st := plg.Reserve(ctx, cs, pod, c19Node); !st.IsSuccess() {
				plg.Unreserve(ctx, cs, pod, c19Node)
				hist = append(hist, fmt.Sprintf("schedule %s -> reserve: %s", what, st.Message()))
				return
			}
			state, _ := getPreFilterState(cs)
			if bindFails {
				plg.Unreserve(ctx, cs, pod, c19Node)
				hist = append(hist, fmt.Sprintf("schedule %s -> reserved [%s], bind failed, unreserved", what, c19AllocStr(state.allocation)))
				return
			}
			// binding is asynchronous: the node's policy may change between Reserve and PreBind
			if rapid.IntRange(0, 5).Draw(t, "policyChangesBeforePreBind") == 0 {
				what += " [in flight: " + changePolicy(t) + "]"
				sawPolicyChange, sawPolicyChangeInFlight = true, true
			}
			var obj, before c19Obj
			if asResv {
				before = c19Obj{Resv: resv}
				r := resv.DeepCopy()
				st = plg.PreBindReservation(ctx, cs, r, c19Node)
				// what the reservation plugin's bind records
				r.Status.NodeName = c19Node
				r.Status.Phase = schedulingv1alpha1.ReservationAvailable
				r.Status.Allocatable = tplPod.Spec.Containers[0].Resources.Requests.DeepCopy()
				obj = c19Obj{Resv: r}
			} else {
				before = c19Obj{Pod: pod}
				p := pod.DeepCopy()
				st = plg.PreBind(ctx, cs, p, c19Node)
				p.Spec.NodeName = c19Node
				obj = c19Obj{Pod: p}
			}
			if !st.IsSuccess() {
				plg.Unreserve(ctx, cs, pod, c19Node)
				hist = append(hist, fmt.Sprintf("schedule %s -> prebind: %s", what, st.Message()))
				return
			}
			if inherited {
				if _, own := obj.Resv.Annotations[extension.AnnotationResourceStatus]; !own {
					// This cycle allocated nothing, so pre-bind wrote no result of its own and the reserve pod would keep the
					// result copied from the source pod. Whether adopting that is right is not what C19 states; such a
					// history is not continued (handled like a failed bind).
					plg.Unreserve(ctx, cs, pod, c19Node)
					sawInheritedKept = true
					hist = append(hist, fmt.Sprintf("schedule %s -> nothing allocated, the inherited result would be kept: not continued", what))
					return
				}
				sawInheritedOverridden = true
				what += " [template carries the source pod's " + extension.AnnotationResourceStatus + "]"
			}
			if viaAPI {
				obj = c19ViaAPI(t, obj)
			}
			persisted[pod.UID] = obj
			if asResv {
				sawResv = true
			}
			if state.allocation != nil {
				model[pod.UID] = *state.allocation
				if !state.allocation.CPUSet.IsEmpty() {
					sawCPU = true
					if !AllowUseCPUSet(pod) {
						sawExclMismatchShape = true
					}
				}
				if len(state.allocation.NUMANodeResources) > 0 {
					sawNUMA = true
				}
			} else {
				model[pod.UID] = PodAllocation{UID: pod.UID}
			}
			if selfEvent { // the allocating scheduler's own informer reports the pre-bind patch, then the bind
				mid := c19Unbound(obj)
				live.update(before, mid)
				live.update(mid, obj)
				sawSelfEvent = true
			}
			hist = append(hist, fmt.Sprintf("schedule %s -> bound [%s] as %s selfEvent=%v", what, c19AllocStr(state.allocation), obj, selfEvent))
		}
		t.Repeat(map[string]func(*rapid.T){
			"schedule":  schedule, // three names: scheduling is three times as likely as each other action
			"schedule2": schedule,
			"schedule3": schedule,
			"changeNodePolicy": func(t *rapid.T) {
				if dead {
					return
				}
				hist = append(hist, "change "+changePolicy(t))
				sawPolicyChange = true
			},
			"delete": func(t *rapid.T) {
				if dead {
					return
				}
				uids := bound()
				if len(uids) == 0 {
					t.Skip("nothing bound")
				}
				u := rapid.SampledFrom(uids).Draw(t, "uid")
				tomb := rapid.IntRange(0, 3).Draw(t, "tombstone") == 0
				live.delete(persisted[u], tomb)
				how := "pod"
				if persisted[u].Resv != nil {
					how = "reservation"
				}
				if tomb {
					how += "-tombstone"
				}
				deletedHow[u] = how
				delete(persisted, u)
				delete(model, u)
				sawDeleted = true
				hist = append(hist, fmt.Sprintf("delete %s (%s)", u, how))
			},
			// A pod that finishes (phase Succeeded/Failed) leaves the scheduler's pod informer, which carries the field
			// selector status.phase!=Succeeded,status.phase!=Failed (scheduler.NewInformerFactory): every handler gets a
			// DELETE and a restarted scheduler never sees the object. The Reservation informer is unfiltered: a consumed
			// or expired Reservation stays in the API server and is delivered with its terminal phase.
			"finish": func(t *rapid.T) {
				if dead {
					return
				}
				uids := running()
				if len(uids) == 0 {
					t.Skip("nothing running")
				}
				u := rapid.SampledFrom(uids).Draw(t, "uid")
				old := persisted[u]
				if old.Resv != nil {
					n := old.copy()
					n.Resv.Status.Phase = rapid.SampledFrom([]schedulingv1alpha1.ReservationPhase{schedulingv1alpha1.ReservationSucceeded, schedulingv1alpha1.ReservationFailed}).Draw(t, "resvPhase")
					live.update(old, n)
					persisted[u] = n
					delete(model, u)
					sawTerminated = true
					hist = append(hist, fmt.Sprintf("finish reservation %s (%s, object stays)", u, n.Resv.Status.Phase))
					return
				}
				phase := rapid.SampledFrom([]corev1.PodPhase{corev1.PodSucceeded, corev1.PodFailed}).Draw(t, "phase")
				tomb := rapid.IntRange(0, 3).Draw(t, "tombstone") == 0
				last := old.copy() // the last state the filtered informer knew: still running
				live.delete(last, tomb)
				how := "pod-finished"
				if tomb {
					how += "-tombstone"
				}
				deletedHow[u] = how
				delete(persisted, u)
				delete(model, u)
				sawPodFinished = true
				hist = append(hist, fmt.Sprintf("finish pod %s (%s): delivered as delete (%s), object leaves the informer", u, phase, how))
			},
			"touch": func(t *rapid.T) { // an update that carries the same allocation (label change, status heartbeat)
				if dead {
					return
				}
				uids := bound()
				if len(uids) == 0 {
					t.Skip("nothing bound")
				}
				u := rapid.SampledFrom(uids).Draw(t, "uid")
				old := persisted[u]
				n := old.copy()
				var m *metav1.ObjectMeta
				if n.Resv != nil {
					m = &n.Resv.ObjectMeta
				} else {
					m = &n.Pod.ObjectMeta
				}
				if m.Labels == nil {
					m.Labels = map[string]string{}
				}
				m.Labels["touched"] = fmt.Sprint(len(hist))
				live.update(old, n)
				persisted[u] = n
				hist = append(hist, fmt.Sprintf("touch %s", u))
			},
			"": func(t *rapid.T) {
				if dead {
					return
				}
				crash(t)
			},
		})
		// sharing = a NUMA node used by two running pods
		{
			perNUMA := map[int]int{}
			for _, u := range running() {
				a := model[u]
				seen := map[int]bool{}
				for _, r := range a.NUMANodeResources {
					seen[r.Node] = true
				}
				for _, id := range a.CPUSet.ToSliceNoSort() {
					seen[e.topo.CPUDetails[id].NodeID] = true
				}
				for n := range seen {
					perNUMA[n]++
				}
			}
			for _, k := range perNUMA {
				if k >= 2 {
					sawShare = true
				}
			}
		}
		c.ClassIf(sawCPU, "cpuset-allocation")
		c.ClassIf(sawNUMA, "numa-amount-allocation")
		c.ClassIf(sawShare, "two-running-pods-on-one-numa-node(at end)")
		c.ClassIf(sawDup, "duplicate-or-noop-event")
		c.ClassIf(sawTerminated, "finished-reservation-persisted")
		c.ClassIf(sawPodFinished, "pod-finished(delivered-as-delete)")
		c.ClassIf(sawDeleted, "object-deleted")
		c.ClassIf(sawEarly, "replay:add-unbound-then-bind-update")
		c.ClassIf(sawInheritedOverridden, "reservation-template-carries-source-pod-allocation-result(overridden-by-own)")
		c.ClassIf(sawInheritedKept, "inherited-result-would-be-kept(history-not-continued)")
		c.ClassIf(sawPolicyChange, "node-cpu-bind-policy-changed")
		c.ClassIf(sawPolicyChangeInFlight, "node-cpu-bind-policy-changed-between-reserve-and-prebind")
		c.ClassIf(sawSelfEvent, "live-saw-own-bind-event")
		c.ClassIf(sawExclMismatchShape, "cpuset-for-non-LSR/LSE-pod(node policy)")
		c.ClassIf(sawLate, "pod-event-before-topology")
		c.ClassIf(sawResv, "reservation-object-persisted")
		c.ClassIf(e.MaxRef > 1, "maxref2")
		c.ClassIf(maxLive >= 2, "crash-with>=2-holders")
		c.ClassIf(maxLive == 0, "never-any-holder")
		c.Class("numaPolicy:" + e.NodeNUMAPolicy + "/" + e.KubeletNUMAPolicy)
		if maxLive >= 2 && sawDup && (sawCPU || sawNUMA) {
			c.NonTrivial(e.String(), hist)
		}
		c.Sample(map[string]any{"env": e.String(), "history": hist, "crashPointsChecked": checks, "persistedAtEnd": c19Persisted(persisted)})
	})
}

// ---------------------------------------------------------------- (2) any allocation value -> pre-bind encoding -> informer decoding

var (
	c19BigOnce sync.Once
	c19BigTopo *CPUTopology
)

// TestVerifC19NUMAPersistDecode pushes allocation values the history test reaches rarely (cpu ids up to 4095, many
// ranges, zero and sub-unit NUMA amounts, non-contiguous NUMA ids) through the plugin's own pre-bind encoding and the
// real event handler, and compares what the fresh ledger holds for the pod with the value that went in.
func TestVerifC19NUMAPersistDecode(t *testing.T) {
	c19Silence()
	rec := vk.New(t, "C19", "numaPersistDecode")
	ctx := context.Background()
	c19BigOnce.Do(func() { c19BigTopo = c19BuildTopo(2, 2, 128, 8) }) // 4096 cpus, 4 NUMA nodes; read-only, shared by all cases
	rapid.Check(t, func(t *rapid.T) {
		c := rec.Begin()
		defer c.End()
		e := &c19Env{Sockets: 2, NodesPerSocket: 2, CoresPerNode: 128, Threads: 8, MaxRef: rapid.IntRange(1, 2).Draw(t, "maxRefCount"),
			Reserved: cpuset.NewCPUSet(), MemPerNode: 1 << 40, DefaultBind: schedulingconfig.CPUBindPolicyFullPCPUs, NUMAScoring: string(schedulingconfig.LeastAllocated), topo: c19BigTopo}
		e.node = &corev1.Node{}
		e.node.Name = c19Node
		tom := NewTopologyOptionsManager()
		e.deliverTopology(tom)
		plg := e.newPlugin(t, tom, e.newManager(tom))

		// the value
		b := cpuset.NewCPUSetBuilder()
		switch rapid.IntRange(0, 5).Draw(t, "cpusetKind") {
		case 0:
		case 1:
			b.Add(rapid.IntRange(0, 4095).Draw(t, "one"))
		case 2:
			a := rapid.IntRange(0, 4000).Draw(t, "from")
			for i, n := a, rapid.IntRange(2, 95).Draw(t, "len"); n > 0; i, n = i+1, n-1 {
				b.Add(i)
			}
		default:
			base := rapid.SampledFrom([]int{0, 0, 60, 1000, 4032}).Draw(t, "base")
			for i, on := range rapid.SliceOfN(rapid.Bool(), 1, 64).Draw(t, "mask") {
				if on {
					b.Add(base + i)
				}
			}
		}
		alloc := &PodAllocation{UID: "uid-x", Namespace: "default", Name: "x", CPUSet: b.Result()}
		alloc.CPUExclusivePolicy = schedulingconfig.CPUExclusivePolicy(rapid.SampledFrom(c19ExclLits).Draw(t, "exclusive"))
		node := 0
		for i, n := 0, rapid.IntRange(0, 4).Draw(t, "numaEntries"); i < n && node < 4; i++ {
			node += rapid.IntRange(0, 1).Draw(t, "numaGap")
			if node >= 4 {
				break
			}
			rl := corev1.ResourceList{}
			for k, m := 0, rapid.IntRange(0, 3).Draw(t, "resources"); k < m; k++ {
				name := rapid.SampledFrom([]corev1.ResourceName{corev1.ResourceCPU, corev1.ResourceMemory, "hugepages-2Mi", extension.BatchCPU}).Draw(t, "resName")
				switch rapid.IntRange(0, 4).Draw(t, "qKind") {
				case 0:
					rl[name] = *resource.NewQuantity(0, resource.DecimalSI)
				case 1:
					rl[name] = *resource.NewMilliQuantity(rapid.Int64Range(1, 256000).Draw(t, "milli"), resource.DecimalSI)
				case 2:
					rl[name] = *resource.NewQuantity(rapid.Int64Range(1, 1<<50).Draw(t, "bytes"), resource.BinarySI)
				case 3:
					rl[name] = resource.MustParse(rapid.SampledFrom([]string{"1.5Gi", "0.5", "100m", "1e3", "3k", "16Gi", "1"}).Draw(t, "lit"))
				default:
					rl[name] = *resource.NewQuantity(rapid.Int64Range(1, 512).Draw(t, "units"), resource.DecimalSI)
				}
			}
			alloc.NUMANodeResources = append(alloc.NUMANodeResources, NUMANodeResource{Node: node, Resources: rl})
			node++
		}
		asResv := rapid.IntRange(0, 3).Draw(t, "asReservation") == 0
		viaAPI := rapid.Bool().Draw(t, "viaAPI")

		// the object the scheduling cycle ran on: an LSR pod whose resource-spec names the exclusive policy (that is
		// where PreFilter took it from)
		pod := &corev1.Pod{}
		pod.Name, pod.Namespace, pod.UID = "x", "default", "uid-x"
		pod.Labels = map[string]string{extension.LabelPodQoS: string(extension.QoSLSR)}
		spec := &extension.ResourceSpec{PreferredCPUExclusivePolicy: extension.CPUExclusivePolicy(alloc.CPUExclusivePolicy)}
		state := &preFilterState{requestCPUBind: !alloc.CPUSet.IsEmpty(), allocation: alloc, numCPUsNeeded: alloc.CPUSet.Size(),
			preferredCPUBindPolicy: schedulingconfig.CPUBindPolicyFullPCPUs, preferredCPUExclusivePolicy: alloc.CPUExclusivePolicy,
			requests: corev1.ResourceList{corev1.ResourceCPU: *resource.NewQuantity(int64(alloc.CPUSet.Size()), resource.DecimalSI)}}
		cs := framework.NewCycleState()
		cs.Write(stateKey, state)
		var obj c19Obj
		var st *fwktype.Status
		if asResv {
			r := c19NewReservation(pod, 0)
			r.UID = "uid-x"
			_ = extension.SetResourceSpec(r, spec) // kept on the Reservation itself (see the history test for the template case)
			st = plg.PreBindReservation(ctx, cs, r, c19Node)
			r.Status.NodeName, r.Status.Phase = c19Node, schedulingv1alpha1.ReservationAvailable
			obj = c19Obj{Resv: r}
		} else {
			_ = extension.SetResourceSpec(pod, spec)
			p := pod.DeepCopy()
			st = plg.PreBind(ctx, cs, p, c19Node)
			p.Spec.NodeName = c19Node
			obj = c19Obj{Pod: p}
		}
		if !st.IsSuccess() {
			c.Violation(t, "numa-codec:prebind-error", "pre-bind of [%s] failed: %s", c19AllocStr(alloc), st.Message())
			return
		}
		if viaAPI {
			obj = c19ViaAPI(t, obj)
		}
		fresh := e.newManager(tom)
		c19NewHandlers(fresh).add(obj)
		got, ok := fresh.GetNodeAllocation(c19Node).allocatedPods["uid-x"]

		ranges := strings.Count(alloc.CPUSet.String(), ",") + 1
		hasZero := false
		for _, r := range alloc.NUMANodeResources {
			for _, q := range r.Resources {
				if q.IsZero() {
					hasZero = true
				}
			}
		}
		c.ClassIf(alloc.CPUSet.IsEmpty(), "cpuset-empty")
		c.ClassIf(alloc.CPUSet.Size() == 1, "cpuset-single-id")
		c.ClassIf(ranges >= 3, "cpuset>=3-ranges")
		c.ClassIf(len(alloc.NUMANodeResources) >= 2, "numa>=2")
		c.ClassIf(len(alloc.NUMANodeResources) > 0 && alloc.NUMANodeResources[0].Node != 0, "numa-first-id-not-0")
		c.ClassIf(hasZero, "numa-zero-amount")
		c.ClassIf(asResv, "object-reservation")
		c.ClassIf(!c19Holds(*alloc), "holds-nothing")
		if ranges >= 2 || len(alloc.NUMANodeResources) >= 2 {
			c.NonTrivial(c19AllocStr(alloc), asResv, viaAPI)
		}
		c.Sample(map[string]any{"allocation": c19AllocStr(alloc), "persisted": obj.String()})

		if !c19Holds(*alloc) {
			if ok && c19Holds(got) {
				c.Violation(t, "numa-codec:invented", "wrote [%s], fresh ledger holds [%s]; %s", c19AllocStr(alloc), c19AllocStr(&got), obj)
			}
			return
		}
		if !ok {
			c.Violation(t, "numa-codec:lost", "wrote [%s], the fresh ledger has no entry; %s", c19AllocStr(alloc), obj)
			return
		}
		if !got.CPUSet.Equals(alloc.CPUSet) {
			c.Violation(t, "numa-codec:cpuset-differs", "wrote cpuset %q read %q; %s", alloc.CPUSet.String(), got.CPUSet.String(), obj)
			return
		}
		ma, mb := c19NUMAMap(*alloc), c19NUMAMap(got)
		for n := 0; n < 8; n++ {
			if d := c19RLDiff(ma[n], mb[n]); d != "" {
				c.Violation(t, "numa-codec:numa-amount-differs", "NUMA %d %s; wrote [%s] read [%s]; %s", n, d, c19AllocStr(alloc), c19AllocStr(&got), obj)
				return
			}
		}
		if !alloc.CPUSet.IsEmpty() && c19NormExcl(alloc.CPUExclusivePolicy) != c19NormExcl(got.CPUExclusivePolicy) {
			c.Violation(t, "numa-codec:exclusive-policy-differs", "wrote %q read %q; %s", alloc.CPUExclusivePolicy, got.CPUExclusivePolicy, obj)
			return
		}
	})
}

var c19Quiet sync.Once

// keep the captured output small (the allocator warns on every empty allocation)
func c19Silence() {
	c19Quiet.Do(func() {
		fs := flag.NewFlagSet("c19-klog", flag.ContinueOnError)
		klog.InitFlags(fs)
		_ = fs.Set("logtostderr", "false")
		_ = fs.Set("alsologtostderr", "false")
		_ = fs.Set("stderrthreshold", "FATAL")
		klog.SetOutput(io.Discard)
	})
}
