//go:build verif

// C19 — virtual functions (VFs) taken before a restart are taken after it, whatever the replay order.
// The DeviceReplay unit obtains its allocations from the real allocator, which hands a pod one VF per device; the
// persisted annotation format, however, carries a LIST of VFs per allocated device, and owners written by other
// scheduler versions / components may hold several VFs of one device. This unit crafts such persisted pods (disjoint VF
// sets, construction not rejection), replays them through the real pod informer handler into a fresh device cache in a
// drawn order with duplicate adds / no-op updates, and compares the taken-VF ledger with the union of the persisted
// annotations (both directions), again after one owner is deleted.
// Added for seeded change C19-22 (add-side VF merge overwrote the accumulated set). See /verif/DESIGN.md §4.0 wave 8.
package deviceshare

import (
	"fmt"
	"sort"
	"strings"
	"testing"

	corev1 "k8s.io/api/core/v1"
	"k8s.io/apimachinery/pkg/api/resource"
	metav1 "k8s.io/apimachinery/pkg/apis/meta/v1"
	"k8s.io/apimachinery/pkg/types"
	"k8s.io/utils/ptr"
	"pgregory.net/rapid"

	apiext "github.com/koordinator-sh/koordinator/apis/extension"
	schedulingv1alpha1 "github.com/koordinator-sh/koordinator/apis/scheduling/v1alpha1"
	"github.com/koordinator-sh/koordinator/pkg/verifkit/vk"
)

func TestVerifC19DeviceVFReplay(t *testing.T) {
	c19Silence()
	rec := vk.New(t, "C19", "deviceVFReplay")
	rapid.Check(t, func(t *rapid.T) {
		c := rec.Begin()
		defer c.End()

		nMinor := rapid.IntRange(1, 3).Draw(t, "rdmaDevices")
		perMinor := rapid.IntRange(2, 6).Draw(t, "vfsPerDevice")
		dev := &schedulingv1alpha1.Device{ObjectMeta: metav1.ObjectMeta{Name: c19Node}}
		free := map[int32][]string{} // VFs nobody holds yet
		for m := 0; m < nMinor; m++ {
			info := schedulingv1alpha1.DeviceInfo{Type: schedulingv1alpha1.RDMA, Minor: ptr.To(int32(m)), Health: true, UUID: fmt.Sprintf("rdma-%d", m),
				Resources: corev1.ResourceList{apiext.ResourceRDMA: *resource.NewQuantity(100, resource.DecimalSI)}}
			grp := schedulingv1alpha1.VirtualFunctionGroup{}
			for k := 0; k < perMinor; k++ {
				bus := fmt.Sprintf("0000:%02x:00.%d", m, k+1)
				grp.VFs = append(grp.VFs, schedulingv1alpha1.VirtualFunction{Minor: int32(k), BusID: bus})
				free[int32(m)] = append(free[int32(m)], bus)
			}
			info.VFGroups = []schedulingv1alpha1.VirtualFunctionGroup{grp}
			dev.Spec.Devices = append(dev.Spec.Devices, info)
		}

		// persisted owners: each holds 1..3 still-free VFs on a non-empty subset of the devices
		nPods := rapid.IntRange(2, 4).Draw(t, "owners")
		var pods []*corev1.Pod
		holds := map[types.UID]map[string]bool{}
		countOn := map[int32][]int{} // per device: VF counts of its holders, in pod order
		var persisted []string
		for i := 0; i < nPods; i++ {
			p := &corev1.Pod{}
			p.Name, p.Namespace, p.UID = fmt.Sprintf("p%d", i), "default", types.UID(fmt.Sprintf("uid-p%d", i))
			p.Spec.NodeName = c19Node
			p.Spec.Containers = []corev1.Container{{Name: "c"}}
			var l []*apiext.DeviceAllocation
			holds[p.UID] = map[string]bool{}
			for m := int32(0); m < int32(nMinor); m++ {
				if len(free[m]) == 0 || (len(l) > 0 && rapid.IntRange(0, 2).Draw(t, fmt.Sprintf("p%d-on-%d", i, m)) == 0) {
					continue
				}
				n := rapid.IntRange(1, 3).Draw(t, fmt.Sprintf("p%d-vfs-on-%d", i, m))
				if n > len(free[m]) {
					n = len(free[m])
				}
				a := &apiext.DeviceAllocation{Minor: m, Resources: corev1.ResourceList{apiext.ResourceRDMA: *resource.NewQuantity(1, resource.DecimalSI)},
					Extension: &apiext.DeviceAllocationExtension{}}
				for k := 0; k < n; k++ {
					j := rapid.IntRange(0, len(free[m])-1).Draw(t, "vf")
					bus := free[m][j]
					free[m] = append(free[m][:j:j], free[m][j+1:]...)
					a.Extension.VirtualFunctions = append(a.Extension.VirtualFunctions, apiext.VirtualFunction{Minor: k, BusID: bus})
					holds[p.UID][fmt.Sprintf("%s#%d/%s", schedulingv1alpha1.RDMA, m, bus)] = true
				}
				countOn[m] = append(countOn[m], n)
				l = append(l, a)
			}
			if len(l) == 0 {
				continue // every VF is taken already
			}
			if err := apiext.SetDeviceAllocations(p, apiext.DeviceAllocations{schedulingv1alpha1.RDMA: l}); err != nil {
				t.Fatalf("harness: SetDeviceAllocations: %v", err)
			}
			pods = append(pods, p)
			persisted = append(persisted, fmt.Sprintf("%s=%s", p.Name, p.Annotations[apiext.AnnotationDeviceAllocated]))
		}
		if len(pods) == 0 {
			t.Skip("no owner")
		}

		// the restart: Device first, then the owners in a drawn order with duplicate adds and no-op updates
		order := rapid.Permutation(pods).Draw(t, "replayOrder")
		fresh := newNodeDeviceCache()
		fresh.onDeviceAdd(dev.DeepCopy())
		h := c19NewHandlers(fresh)
		var hist []string
		growing := false // a later-delivered owner holds more VFs of a device than all earlier-delivered ones together
		seenOn := map[int32]int{}
		for _, p := range order {
			h.add(c19Obj{Pod: p})
			hist = append(hist, "add "+p.Name)
			switch rapid.IntRange(0, 3).Draw(t, "extra:"+p.Name) {
			case 0:
				h.add(c19Obj{Pod: p})
				hist = append(hist, "add "+p.Name+" (duplicate)")
			case 1:
				h.update(c19Obj{Pod: p}, c19Obj{Pod: p})
				hist = append(hist, "update "+p.Name+" (unchanged)")
			}
			per := map[int32]int{}
			for k := range holds[p.UID] {
				var m int32
				fmt.Sscanf(strings.TrimPrefix(k, string(schedulingv1alpha1.RDMA)+"#"), "%d/", &m)
				per[m]++
			}
			for m, n := range per {
				if seenOn[m] > 0 && n > seenOn[m] {
					growing = true
				}
				seenOn[m] += n
			}
		}
		shared := false
		for _, l := range countOn {
			if len(l) >= 2 {
				shared = true
			}
		}
		c.ClassIf(shared, "device-with-2+-vf-holders")
		c.ClassIf(growing, "later-owner-holds-more-vfs-than-accumulated")
		c.Class(fmt.Sprintf("owners:%d", len(pods)))
		if shared {
			c.NonTrivial(nMinor, perMinor, persisted, hist)
		}
		c.Sample(map[string]any{"devices": nMinor, "vfsPerDevice": perMinor, "persisted": persisted, "replay": hist})

		check := func(stage string, live []*corev1.Pod) bool {
			want := map[string]bool{}
			for _, p := range live {
				for k := range holds[p.UID] {
					want[k] = true
				}
			}
			got := c19VFs(fresh)
			var lost, extra []string
			for k := range want {
				if !got[k] {
					lost = append(lost, k)
				}
			}
			for k := range got {
				if !want[k] {
					extra = append(extra, k)
				}
			}
			sort.Strings(lost)
			sort.Strings(extra)
			if len(lost) > 0 {
				return c.Violation(t, "device-replay:vf-taken-before-restart-is-free", "%s: VFs %v are held by persisted owners but free in the rebuilt cache\npersisted: %s\nreplay: %s",
					stage, lost, strings.Join(persisted, "; "), strings.Join(hist, ", "))
			}
			if len(extra) > 0 {
				return c.Violation(t, "device-replay:vf-free-before-restart-is-taken", "%s: VFs %v are taken in the rebuilt cache but no persisted owner holds them\npersisted: %s\nreplay: %s",
					stage, extra, strings.Join(persisted, "; "), strings.Join(hist, ", "))
			}
			return false
		}
		if check("after replay", pods) {
			return
		}
		// one owner goes away after the restart: exactly its VFs become free
		gone := rapid.IntRange(0, len(pods)-1).Draw(t, "deleted")
		h.delete(c19Obj{Pod: pods[gone]}, rapid.Bool().Draw(t, "tombstone"))
		hist = append(hist, "delete "+pods[gone].Name)
		var rest []*corev1.Pod
		for i, p := range pods {
			if i != gone {
				rest = append(rest, p)
			}
		}
		check("after replay and delete of "+pods[gone].Name, rest)
	})
}
