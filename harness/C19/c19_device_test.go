//go:build verif

// C19 (unit 3, deviceshare) — the device allocations persisted at pre-bind rebuild, in a freshly started scheduler
// that is fed the same Device inventory, the same per-node device ledger (used / free per minor, holders, taken VFs).
// See /verif/DESIGN.md §1 C19. In-package harness (injected with -overlay).
package deviceshare

import (
	"context"
	"encoding/json"
	"flag"
	"fmt"
	"io"
	"runtime"
	"sort"
	"strings"
	"sync"
	"sync/atomic"
	"testing"
	"time"

	corev1 "k8s.io/api/core/v1"
	"k8s.io/apimachinery/pkg/api/resource"
	metav1 "k8s.io/apimachinery/pkg/apis/meta/v1"
	"k8s.io/apimachinery/pkg/types"
	k8sfeature "k8s.io/apiserver/pkg/util/feature"
	"k8s.io/client-go/tools/cache"
	apiresource "k8s.io/component-helpers/resource"
	"k8s.io/klog/v2"
	fwktype "k8s.io/kube-scheduler/framework"
	"k8s.io/kubernetes/pkg/scheduler/framework"
	"k8s.io/utils/ptr"
	"pgregory.net/rapid"

	apiext "github.com/koordinator-sh/koordinator/apis/extension"
	schedulingv1alpha1 "github.com/koordinator-sh/koordinator/apis/scheduling/v1alpha1"
	koordfake "github.com/koordinator-sh/koordinator/pkg/client/clientset/versioned/fake"
	koordinatorinformers "github.com/koordinator-sh/koordinator/pkg/client/informers/externalversions"
	koordfeatures "github.com/koordinator-sh/koordinator/pkg/features"
	schedulerconfig "github.com/koordinator-sh/koordinator/pkg/scheduler/apis/config"
	"github.com/koordinator-sh/koordinator/pkg/scheduler/frameworkext"
	utilfeature "github.com/koordinator-sh/koordinator/pkg/util/feature"
	reservationutil "github.com/koordinator-sh/koordinator/pkg/util/reservation"
	"github.com/koordinator-sh/koordinator/pkg/verifkit/vk"
)

const c19Node = "c19-node"

var c19Quiet sync.Once

// buildDeviceResources logs one error line per unhealthy device; keep the captured output small.
func c19Silence() {
	c19Quiet.Do(func() {
		fs := flag.NewFlagSet("c19-klog", flag.ContinueOnError)
		klog.InitFlags(fs)
		_ = fs.Set("logtostderr", "false")
		_ = fs.Set("alsologtostderr", "false")
		_ = fs.Set("stderrthreshold", "FATAL")
		klog.SetOutput(io.Discard)
	})
}

// ---------------------------------------------------------------- inventory

var c19IDs = []string{"GPU-8d3ad5e4-4a07", "0000:09:00.0", "mlx5_0", "a\"b", "back\\slash", "<&>", "uni-✓", ""}

func c19GenDevice(t *rapid.T) *schedulingv1alpha1.Device {
	d := &schedulingv1alpha1.Device{ObjectMeta: metav1.ObjectMeta{Name: c19Node}}
	nGPU := rapid.SampledFrom([]int{0, 1, 2, 2, 4, 4}).Draw(t, "nGPU")
	nRDMA := rapid.SampledFrom([]int{0, 1, 2, 2, 3}).Draw(t, "nRDMA")
	nFPGA := rapid.SampledFrom([]int{0, 0, 1, 2}).Draw(t, "nFPGA")
	if nGPU+nRDMA+nFPGA == 0 {
		nGPU = 2
	}
	gpuMem := rapid.SampledFrom([]int64{16 << 30, 24 << 30, 85198045184, 1 << 30}).Draw(t, "gpuMem")
	withTopo := rapid.Bool().Draw(t, "deviceTopology")
	sparse := rapid.IntRange(0, 3).Draw(t, "sparseMinors") == 0
	add := func(dt schedulingv1alpha1.DeviceType, i, n int, res corev1.ResourceList) *schedulingv1alpha1.DeviceInfo {
		minor := i
		if sparse {
			minor = i*2 + 1
		}
		info := schedulingv1alpha1.DeviceInfo{Type: dt, Minor: ptr.To(int32(minor)), Health: rapid.IntRange(0, 9).Draw(t, "healthy") > 0, Resources: res}
		info.UUID = fmt.Sprintf("%s-%d-%s", dt, minor, rapid.SampledFrom(c19IDs).Draw(t, "uuid"))
		if withTopo {
			numa := i * 2 / n
			info.Topology = &schedulingv1alpha1.DeviceTopology{SocketID: int32(numa / 2), NodeID: int32(numa), PCIEID: fmt.Sprint(numa*10 + i%2), BusID: fmt.Sprintf("0000:%02x:00.0", minor)}
		}
		d.Spec.Devices = append(d.Spec.Devices, info)
		return &d.Spec.Devices[len(d.Spec.Devices)-1]
	}
	for i := 0; i < nGPU; i++ {
		add(schedulingv1alpha1.GPU, i, nGPU, corev1.ResourceList{
			apiext.ResourceGPUCore:        *resource.NewQuantity(100, resource.DecimalSI),
			apiext.ResourceGPUMemoryRatio: *resource.NewQuantity(100, resource.DecimalSI),
			apiext.ResourceGPUMemory:      *resource.NewQuantity(gpuMem, resource.BinarySI),
		})
	}
	for i := 0; i < nRDMA; i++ {
		info := add(schedulingv1alpha1.RDMA, i, nRDMA, corev1.ResourceList{apiext.ResourceRDMA: *resource.NewQuantity(100, resource.DecimalSI)})
		if rapid.IntRange(0, 3).Draw(t, "hasVFs") > 0 {
			groups := rapid.IntRange(1, 2).Draw(t, "vfGroups")
			for g := 0; g < groups; g++ {
				grp := schedulingv1alpha1.VirtualFunctionGroup{Labels: map[string]string{"type": []string{"vf_cpu", "vf_gpu"}[g]}}
				for k := rapid.IntRange(1, 4).Draw(t, "nVF"); k > 0; k-- {
					grp.VFs = append(grp.VFs, schedulingv1alpha1.VirtualFunction{Minor: int32(k - 1), BusID: fmt.Sprintf("0000:%02x:%02x.%d", *info.Minor, g, k)})
				}
				info.VFGroups = append(info.VFGroups, grp)
			}
		}
	}
	for i := 0; i < nFPGA; i++ {
		add(schedulingv1alpha1.FPGA, i, nFPGA, corev1.ResourceList{apiext.ResourceFPGA: *resource.NewQuantity(100, resource.DecimalSI)})
	}
	return d
}

func c19DeviceStr(d *schedulingv1alpha1.Device) string {
	var parts []string
	for _, info := range d.Spec.Devices {
		s := fmt.Sprintf("%s#%d", info.Type, *info.Minor)
		if !info.Health {
			s += "(unhealthy)"
		}
		nvf := 0
		for _, g := range info.VFGroups {
			nvf += len(g.VFs)
		}
		if nvf > 0 {
			s += fmt.Sprintf("(%dvf)", nvf)
		}
		if info.Topology != nil {
			s += fmt.Sprintf("@numa%d/pcie%s", info.Topology.NodeID, info.Topology.PCIEID)
		}
		parts = append(parts, s)
	}
	return strings.Join(parts, " ")
}

// ---------------------------------------------------------------- the live plugin

// c19Handle gives the plugin what the scheduling path of this harness needs: the node snapshot and the Device lister
// (PreBind looks the device ids up). Everything else is a nil interface: an unexpected call panics loudly.
type c19Handle struct {
	frameworkext.ExtendedHandle
	lister    *testSharedLister
	factory   koordinatorinformers.SharedInformerFactory
	nominator frameworkext.ReservationNominator
}

func (h *c19Handle) SnapshotSharedLister() fwktype.SharedLister { return h.lister }

// no reservation is ever nominated in these histories (pods allocate from the node)
func (h *c19Handle) GetReservationNominator() frameworkext.ReservationNominator {
	return h.nominator
}
func (h *c19Handle) KoordinatorSharedInformerFactory() koordinatorinformers.SharedInformerFactory {
	return h.factory
}

func c19NewPlugin(t *rapid.T, node *corev1.Node, device *schedulingv1alpha1.Device, cache *nodeDeviceCache, scoring schedulerconfig.ScoringStrategyType) *Plugin {
	factory := koordinatorinformers.NewSharedInformerFactory(koordfake.NewSimpleClientset(), 0)
	// the lister reads the informer's store; fill it directly (no goroutines, no watch)
	if err := factory.Scheduling().V1alpha1().Devices().Informer().GetIndexer().Add(device.DeepCopy()); err != nil {
		t.Fatalf("harness: indexer add: %v", err)
	}
	args := getDefaultArgs()
	args.ScoringStrategy.Type = scoring
	return &Plugin{
		handle:          &c19Handle{lister: newTestSharedLister(nil, []*corev1.Node{node}), factory: factory, nominator: frameworkext.NewFakeReservationNominator()},
		nodeDeviceCache: cache,
		scorer:          deviceResourceStrategyTypeMap[args.ScoringStrategy.Type](args),
	}
}

// ---------------------------------------------------------------- pods

func c19Q(v int64) resource.Quantity { return *resource.NewQuantity(v, resource.DecimalSI) }

func c19GenPod(t *rapid.T, idx int, device *schedulingv1alpha1.Device) *corev1.Pod {
	pod := &corev1.Pod{}
	pod.Name = fmt.Sprintf("p%d", idx)
	pod.Namespace = rapid.SampledFrom([]string{"default", "default", "ns2"}).Draw(t, "namespace")
	pod.UID = types.UID(fmt.Sprintf("uid-p%d", idx))
	pod.Labels = map[string]string{}
	pod.Annotations = map[string]string{}
	req := corev1.ResourceList{}
	has := map[schedulingv1alpha1.DeviceType]bool{}
	for _, info := range device.Spec.Devices {
		has[info.Type] = true
	}
	pct := []int64{1, 10, 25, 50, 50, 100, 100, 200}
	wantGPU := has[schedulingv1alpha1.GPU] && rapid.IntRange(0, 3).Draw(t, "wantGPU") > 0
	wantRDMA := has[schedulingv1alpha1.RDMA] && rapid.IntRange(0, 2).Draw(t, "wantRDMA") > 0
	wantFPGA := has[schedulingv1alpha1.FPGA] && rapid.IntRange(0, 2).Draw(t, "wantFPGA") > 0
	if !wantGPU && !wantRDMA && !wantFPGA {
		switch {
		case has[schedulingv1alpha1.GPU]:
			wantGPU = true
		case has[schedulingv1alpha1.RDMA]:
			wantRDMA = true
		default:
			wantFPGA = true
		}
	}
	hints := apiext.DeviceAllocateHints{}
	if wantGPU {
		switch rapid.IntRange(0, 5).Draw(t, "gpuForm") {
		case 0:
			req[apiext.ResourceGPU] = c19Q(rapid.SampledFrom(pct).Draw(t, "gpu"))
		case 1:
			req[apiext.ResourceNvidiaGPU] = c19Q(int64(rapid.IntRange(1, 2).Draw(t, "nvidia")))
		case 2:
			req[apiext.ResourceGPUCore] = c19Q(rapid.SampledFrom(pct).Draw(t, "core"))
			req[apiext.ResourceGPUMemoryRatio] = c19Q(rapid.SampledFrom(pct).Draw(t, "ratio"))
		case 3:
			req[apiext.ResourceGPUCore] = c19Q(rapid.SampledFrom(pct).Draw(t, "core"))
			req[apiext.ResourceGPUMemory] = *resource.NewQuantity(rapid.SampledFrom([]int64{1 << 30, 4 << 30, 8 << 30, 12345678, 16 << 30}).Draw(t, "gpuMemBytes"), resource.BinarySI)
		case 4:
			req[apiext.ResourceGPUShared] = c19Q(int64(rapid.IntRange(1, 2).Draw(t, "shared")))
			req[apiext.ResourceGPUCore] = c19Q(rapid.SampledFrom(pct).Draw(t, "core"))
			req[apiext.ResourceGPUMemoryRatio] = c19Q(rapid.SampledFrom(pct).Draw(t, "ratio"))
		default:
			req[apiext.ResourceGPUMemoryRatio] = c19Q(rapid.SampledFrom(pct).Draw(t, "ratio"))
		}
	}
	for _, w := range []struct {
		want bool
		dt   schedulingv1alpha1.DeviceType
		rn   corev1.ResourceName
	}{{wantRDMA, schedulingv1alpha1.RDMA, apiext.ResourceRDMA}, {wantFPGA, schedulingv1alpha1.FPGA, apiext.ResourceFPGA}} {
		if !w.want {
			continue
		}
		req[w.rn] = c19Q(rapid.SampledFrom(pct).Draw(t, string(w.dt)))
		if rapid.IntRange(0, 2).Draw(t, "hasHint") > 0 {
			h := &apiext.DeviceHint{}
			if w.dt == schedulingv1alpha1.RDMA && rapid.IntRange(0, 3).Draw(t, "wantVF") > 0 {
				h.VFSelector = &metav1.LabelSelector{}
				if rapid.Bool().Draw(t, "vfByLabel") {
					h.VFSelector.MatchLabels = map[string]string{"type": rapid.SampledFrom([]string{"vf_cpu", "vf_gpu"}).Draw(t, "vfType")}
				}
			}
			h.AllocateStrategy = rapid.SampledFrom([]apiext.DeviceAllocateStrategy{"", "", apiext.ApplyForAllDeviceAllocateStrategy, apiext.RequestsAsCountAllocateStrategy}).Draw(t, "strategy")
			h.ExclusivePolicy = rapid.SampledFrom([]apiext.DeviceExclusivePolicy{"", "", apiext.DeviceLevelDeviceExclusivePolicy}).Draw(t, "exclusive")
			if h.AllocateStrategy == apiext.RequestsAsCountAllocateStrategy {
				req[w.rn] = c19Q(int64(rapid.IntRange(1, 3).Draw(t, "count")))
			}
			hints[w.dt] = h
		}
	}
	if len(hints) > 0 {
		_ = apiext.SetDeviceAllocateHints(pod, hints)
	}
	if wantGPU && wantRDMA && rapid.IntRange(0, 2).Draw(t, "joint") == 0 {
		_ = apiext.SetDeviceJointAllocate(pod, &apiext.DeviceJointAllocate{DeviceTypes: []schedulingv1alpha1.DeviceType{schedulingv1alpha1.GPU, schedulingv1alpha1.RDMA}})
	}
	pod.Spec.Containers = []corev1.Container{{Name: "c", Resources: corev1.ResourceRequirements{Requests: req, Limits: req.DeepCopy()}}}
	return pod
}

func c19RL(rl corev1.ResourceList) string {
	var ks []string
	for k := range rl {
		ks = append(ks, string(k))
	}
	sort.Strings(ks)
	var parts []string
	for _, k := range ks {
		q := rl[corev1.ResourceName(k)]
		parts = append(parts, strings.TrimPrefix(k, apiext.DomainPrefix)+"="+q.String())
	}
	return "{" + strings.Join(parts, " ") + "}"
}

func c19PodStr(pod *corev1.Pod) string {
	return fmt.Sprintf("%s/%s{req=%s hint=%s joint=%s}", pod.Namespace, pod.Name, c19RL(pod.Spec.Containers[0].Resources.Requests),
		pod.Annotations[apiext.AnnotationDeviceAllocateHint], pod.Annotations[apiext.AnnotationDeviceJointAllocate])
}

func c19AllocStr(a apiext.DeviceAllocations) string {
	if a == nil {
		return "none"
	}
	b, _ := json.Marshal(a)
	return string(b)
}

// ---------------------------------------------------------------- persisted objects and the informer handlers that read them

type c19Obj struct {
	Pod  *corev1.Pod
	Resv *schedulingv1alpha1.Reservation
}

func (o c19Obj) copy() c19Obj {
	if o.Resv != nil {
		return c19Obj{Resv: o.Resv.DeepCopy()}
	}
	return c19Obj{Pod: o.Pod.DeepCopy()}
}

func (o c19Obj) any() interface{} {
	if o.Resv != nil {
		return o.Resv
	}
	return o.Pod
}

func (o c19Obj) String() string {
	if o.Resv != nil {
		return fmt.Sprintf("reservation %s{phase=%q node=%q allocated=%s}", o.Resv.Name, o.Resv.Status.Phase, o.Resv.Status.NodeName, o.Resv.Annotations[apiext.AnnotationDeviceAllocated])
	}
	return fmt.Sprintf("pod %s/%s{phase=%q allocated=%s}", o.Pod.Namespace, o.Pod.Name, o.Pod.Status.Phase, o.Pod.Annotations[apiext.AnnotationDeviceAllocated])
}

// the cache keys holders by namespace/name of the (reserve) pod
func (o c19Obj) key() string {
	if o.Resv != nil {
		p := reservationutil.NewReservePod(o.Resv)
		return p.Namespace + "/" + p.Name
	}
	return o.Pod.Namespace + "/" + o.Pod.Name
}

func c19ViaAPI(t *rapid.T, o c19Obj) c19Obj {
	b, err := json.Marshal(o.any())
	if err != nil {
		t.Fatalf("harness: marshal: %v", err)
	}
	if o.Resv != nil {
		out := &schedulingv1alpha1.Reservation{}
		if err := json.Unmarshal(b, out); err != nil {
			t.Fatalf("harness: unmarshal: %v", err)
		}
		return c19Obj{Resv: out}
	}
	out := &corev1.Pod{}
	if err := json.Unmarshal(b, out); err != nil {
		t.Fatalf("harness: unmarshal: %v", err)
	}
	return c19Obj{Pod: out}
}

// c19Unbound is the object as the API server held it between the pre-bind patch (annotations written) and the bind
// (spec.nodeName / status.nodeName+phase written): annotated, not assigned yet.
func c19Unbound(o c19Obj) c19Obj {
	n := o.copy()
	if n.Resv != nil {
		n.Resv.Status.NodeName = ""
		n.Resv.Status.Phase = schedulingv1alpha1.ReservationPending
		n.Resv.Status.Allocatable = nil
	} else {
		n.Pod.Spec.NodeName = ""
		n.Pod.Status.Phase = ""
	}
	return n
}

// c19Handlers are the two registrations of registerPodEventHandler: pods, and reservations mapped to reserve pods.
type c19Handlers struct {
	pod  cache.ResourceEventHandler
	resv cache.ResourceEventHandler
}

func c19NewHandlers(dc *nodeDeviceCache) c19Handlers {
	h := cache.ResourceEventHandlerFuncs{AddFunc: dc.onPodAdd, UpdateFunc: dc.onPodUpdate, DeleteFunc: dc.onPodDelete}
	return c19Handlers{pod: h, resv: reservationutil.NewReservationToPodEventHandler(h, reservationutil.IsObjValidActiveReservation)}
}

func (h c19Handlers) of(o c19Obj) cache.ResourceEventHandler {
	if o.Resv != nil {
		return h.resv
	}
	return h.pod
}
func (h c19Handlers) add(o c19Obj)         { h.of(o).OnAdd(o.copy().any(), true) }
func (h c19Handlers) update(old, n c19Obj) { h.of(n).OnUpdate(old.copy().any(), n.copy().any()) }
func (h c19Handlers) delete(o c19Obj, tombstone bool) {
	if tombstone {
		h.of(o).OnDelete(cache.DeletedFinalStateUnknown{Key: "k", Obj: o.copy().any()})
	} else {
		h.of(o).OnDelete(o.copy().any())
	}
}

func c19NewReservation(pod *corev1.Pod, idx int) *schedulingv1alpha1.Reservation {
	r := &schedulingv1alpha1.Reservation{}
	r.Name = fmt.Sprintf("r%d", idx)
	r.UID = types.UID(fmt.Sprintf("uid-r%d", idx))
	tpl := &corev1.PodTemplateSpec{}
	tpl.Labels = pod.Labels
	tpl.Annotations = pod.Annotations
	tpl.Namespace = pod.Namespace
	tpl.Spec = *pod.Spec.DeepCopy()
	r.Spec.Template = tpl
	r.Spec.Owners = []schedulingv1alpha1.ReservationOwner{{LabelSelector: &metav1.LabelSelector{MatchLabels: map[string]string{"app": "x"}}}}
	r.Spec.TTL = &metav1.Duration{Duration: time.Hour}
	return r
}

// ---------------------------------------------------------------- replay into a fresh scheduler

type c19Event struct {
	// add | dup-add | update | device | add-unbound (the informer first saw the object annotated but not bound)
	// | bind-update (the update old=annotated unbound, new=bound that follows an add-unbound: same allocation)
	Kind string
	UID  types.UID
}

func c19Replay(device *schedulingv1alpha1.Device, objs map[types.UID]c19Obj, events []c19Event) *nodeDeviceCache {
	dc := newNodeDeviceCache()
	h := c19NewHandlers(dc)
	sawDevice := false
	for _, ev := range events {
		switch ev.Kind {
		case "device":
			dc.onDeviceAdd(device.DeepCopy())
			sawDevice = true
		case "add", "dup-add":
			h.add(objs[ev.UID])
		case "add-unbound":
			h.add(c19Unbound(objs[ev.UID]))
		case "bind-update":
			h.update(c19Unbound(objs[ev.UID]), objs[ev.UID])
		case "update":
			o := objs[ev.UID]
			n := o.copy()
			if n.Resv != nil {
				n.Resv.ResourceVersion = "next"
			} else {
				n.Pod.ResourceVersion = "next"
			}
			h.update(o, n)
		}
	}
	if !sawDevice {
		dc.onDeviceAdd(device.DeepCopy())
	}
	return dc
}

func c19GenEvents(t *rapid.T, uids []types.UID) ([]c19Event, int, bool) {
	var evs []c19Event
	if len(uids) > 0 {
		for _, u := range rapid.Permutation(uids).Draw(t, "deliveryOrder") {
			evs = append(evs, c19Event{"add", u})
		}
	}
	extras := 0
	if len(uids) > 0 {
		extras = rapid.IntRange(0, 3).Draw(t, "extraEvents")
	}
	for i := 0; i < extras; i++ {
		u := rapid.SampledFrom(uids).Draw(t, "extraUID")
		kind := rapid.SampledFrom([]string{"dup-add", "update"}).Draw(t, "extraKind")
		first := 0
		for j, ev := range evs {
			if ev.UID == u {
				first = j
				break
			}
		}
		pos := rapid.IntRange(first+1, len(evs)).Draw(t, "extraPos")
		evs = append(evs[:pos], append([]c19Event{{kind, u}}, evs[pos:]...)...)
	}
	// some objects are first seen between their pre-bind patch and their bind: Add(annotated, unbound), then the update
	// to the bound object, which carries the same allocation, before anything else about that object
	for _, u := range uids {
		if rapid.IntRange(0, 3).Draw(t, "seenBeforeBind") != 0 {
			continue
		}
		first, nextOfU := -1, len(evs)
		for j, ev := range evs {
			if ev.UID != u {
				continue
			}
			if first < 0 {
				first = j
			} else {
				nextOfU = j
				break
			}
		}
		evs[first].Kind = "add-unbound"
		pos := rapid.IntRange(first+1, nextOfU).Draw(t, "bindUpdatePos")
		evs = append(evs[:pos], append([]c19Event{{"bind-update", u}}, evs[pos:]...)...)
	}
	// the Device informer is independent of the pod informer: its report may arrive anywhere
	pos := 0
	if len(evs) > 0 && rapid.IntRange(0, 2).Draw(t, "deviceLate") == 0 {
		pos = rapid.IntRange(1, len(evs)).Draw(t, "devicePos")
	}
	evs = append(evs[:pos], append([]c19Event{{Kind: "device"}}, evs[pos:]...)...)
	return evs, extras, pos > 0
}

// ---------------------------------------------------------------- comparison of two ledgers

func c19RLDiff(a, b corev1.ResourceList) string {
	for k, qa := range a {
		qb := b[k]
		if qa.Cmp(qb) != 0 {
			return fmt.Sprintf("%s: %s vs %s", k, qa.String(), qb.String())
		}
	}
	for k, qb := range b {
		qa := a[k]
		if qa.Cmp(qb) != 0 {
			return fmt.Sprintf("%s: %s vs %s", k, qa.String(), qb.String())
		}
	}
	return ""
}

func c19DetailDiff(what string, a, b map[schedulingv1alpha1.DeviceType]deviceResources) string {
	dts := map[string]bool{}
	for dt := range a {
		dts[string(dt)] = true
	}
	for dt := range b {
		dts[string(dt)] = true
	}
	for _, dt := range vk.SortedKeys(dts) {
		ra, rb := a[schedulingv1alpha1.DeviceType(dt)], b[schedulingv1alpha1.DeviceType(dt)]
		minors := map[int]bool{}
		for m := range ra {
			minors[m] = true
		}
		for m := range rb {
			minors[m] = true
		}
		var ms []int
		for m := range minors {
			ms = append(ms, m)
		}
		sort.Ints(ms)
		for _, m := range ms {
			if d := c19RLDiff(ra[m], rb[m]); d != "" {
				return fmt.Sprintf("%s of %s#%d %s", what, dt, m, d)
			}
		}
	}
	return ""
}

func c19Summary(dc *nodeDeviceCache) *NodeDeviceSummary {
	s, ok := dc.getNodeDeviceSummary(c19Node)
	if !ok {
		return NewNodeDeviceSummary()
	}
	return s
}

func c19VFs(dc *nodeDeviceCache) map[string]bool {
	out := map[string]bool{}
	nd := dc.getNodeDevice(c19Node, false)
	if nd == nil {
		return out
	}
	for dt, va := range nd.vfAllocations {
		if va == nil {
			continue
		}
		for minor, set := range va.allocatedVFs {
			for bus := range set {
				out[fmt.Sprintf("%s#%d/%s", dt, minor, bus)] = true
			}
		}
	}
	return out
}

// c19Compare reports the first difference between two device ledgers of the node: (signature, message, holder key).
func c19Compare(an string, a *nodeDeviceCache, bn string, b *nodeDeviceCache) (string, string, string) {
	sa, sb := c19Summary(a), c19Summary(b)
	// holders
	for _, dt := range []schedulingv1alpha1.DeviceType{schedulingv1alpha1.GPU, schedulingv1alpha1.RDMA, schedulingv1alpha1.FPGA} {
		ha, hb := sa.AllocateSet[dt], sb.AllocateSet[dt]
		for _, k := range vk.SortedKeys(ha) {
			holds := false
			for _, rl := range ha[k] {
				for _, q := range rl {
					if !q.IsZero() {
						holds = true
					}
				}
			}
			if !holds {
				continue
			}
			if _, ok := hb[k]; !ok {
				return "holder-lost", fmt.Sprintf("%s holds %s %v in %s but is absent from %s", k, dt, ha[k], an, bn), k
			}
			minors := map[int]bool{}
			for m := range ha[k] {
				minors[m] = true
			}
			for m := range hb[k] {
				minors[m] = true
			}
			var ms []int
			for m := range minors {
				ms = append(ms, m)
			}
			sort.Ints(ms)
			for _, m := range ms {
				if d := c19RLDiff(ha[k][m], hb[k][m]); d != "" {
					return "holder-amount-differs", fmt.Sprintf("%s on %s#%d: %s (%s vs %s)", k, dt, m, d, an, bn), k
				}
			}
		}
	}
	if d := c19DetailDiff("used", sa.DeviceUsedDetail, sb.DeviceUsedDetail); d != "" {
		return "used-differs", fmt.Sprintf("%s (%s vs %s)", d, an, bn), ""
	}
	if d := c19DetailDiff("free", sa.DeviceFreeDetail, sb.DeviceFreeDetail); d != "" {
		return "free-differs", fmt.Sprintf("%s (%s vs %s)", d, an, bn), ""
	}
	if d := c19DetailDiff("total", sa.DeviceTotalDetail, sb.DeviceTotalDetail); d != "" {
		return "total-differs", fmt.Sprintf("%s (%s vs %s)", d, an, bn), ""
	}
	va, vb := c19VFs(a), c19VFs(b)
	for _, k := range vk.SortedKeys(va) {
		if !vb[k] {
			return "vf-differs", fmt.Sprintf("VF %s is taken in %s but free in %s", k, an, bn), ""
		}
	}
	return "", "", ""
}

// c19CopyAlloc is a field-by-field copy (no codec involved).
func c19CopyAlloc(in apiext.DeviceAllocations) apiext.DeviceAllocations {
	if in == nil {
		return nil
	}
	out := apiext.DeviceAllocations{}
	for dt, l := range in {
		cp := make([]*apiext.DeviceAllocation, 0, len(l))
		for _, a := range l {
			n := &apiext.DeviceAllocation{Minor: a.Minor, ID: a.ID, Resources: a.Resources.DeepCopy()}
			if a.Extension != nil {
				n.Extension = &apiext.DeviceAllocationExtension{GPUSharedResourceTemplate: a.Extension.GPUSharedResourceTemplate,
					VirtualFunctions: append([]apiext.VirtualFunction(nil), a.Extension.VirtualFunctions...)}
			}
			cp = append(cp, n)
		}
		out[dt] = cp
	}
	return out
}

func c19Persisted(m map[types.UID]c19Obj) string {
	var us []string
	for u := range m {
		us = append(us, string(u))
	}
	sort.Strings(us)
	var parts []string
	for _, u := range us {
		parts = append(parts, m[types.UID(u)].String())
	}
	return strings.Join(parts, "; ")
}

// ---------------------------------------------------------------- histories through the real plugin, cut anywhere, replayed

func TestVerifC19DeviceReplay(t *testing.T) {
	c19Silence()
	// ResizePod (off by default) makes PreBindReservation persist the device amounts a Reservation took
	defer utilfeature.SetFeatureGateDuringTest(t, k8sfeature.DefaultMutableFeatureGate, koordfeatures.ResizePod, true)()
	rec := vk.New(t, "C19", "deviceReplay")
	ctx := context.Background()
	rapid.Check(t, func(t *rapid.T) {
		c := rec.Begin()
		defer c.End()
		device := c19GenDevice(t)
		node := &corev1.Node{ObjectMeta: metav1.ObjectMeta{Name: c19Node}}
		scoring := rapid.SampledFrom([]schedulerconfig.ScoringStrategyType{schedulerconfig.LeastAllocated, schedulerconfig.MostAllocated}).Draw(t, "scoring")
		dc := newNodeDeviceCache()
		dc.onDeviceAdd(device.DeepCopy())
		plg := c19NewPlugin(t, node, device, dc, scoring)
		live := c19NewHandlers(dc)
		nodeInfo, _ := plg.handle.SnapshotSharedLister().NodeInfos().Get(c19Node)

		persisted := map[types.UID]c19Obj{}
		model := map[types.UID]apiext.DeviceAllocations{} // what Reserve handed to each still-active pod / reservation
		deletedHow := map[string]string{}                 // holder key -> how its object was deleted
		next := 0
		var hist []string
		dead := false
		sawVF, sawMultiType, sawMultiDev, sawShareDev, sawDup, sawTerminated, sawPodFinished, sawSelfEvent, sawLate, sawResv, sawID := false, false, false, false, false, false, false, false, false, false, false
		maxLive, checks := 0, 0
		sawInheritedKept, sawInheritedOverridden := false, false
		sawDeleted, sawEarly, sawOutage, sawOutageOfHeld, sawRestartInOutageOfHeld, sawResizeMulti := false, false, false, false, false, false

		bound := func() []types.UID {
			var out []types.UID
			for u := range persisted {
				out = append(out, u)
			}
			sort.Slice(out, func(i, j int) bool { return out[i] < out[j] })
			return out
		}
		running := func() []types.UID {
			var out []types.UID
			for _, u := range bound() {
				if _, ok := model[u]; ok {
					out = append(out, u)
				}
			}
			return out
		}

		// what the node agent currently reports: the inventory without the devices that dropped out
		missing := map[int]bool{}
		currentDevice := func() *schedulingv1alpha1.Device {
			d := device.DeepCopy()
			d.Spec.Devices = nil
			for i, info := range device.Spec.Devices {
				if !missing[i] {
					d.Spec.Devices = append(d.Spec.Devices, *info.DeepCopy())
				}
			}
			return d
		}
		// live vs fresh vs the harness model; `where` names the crash point
		judge := func(t *rapid.T, where string, fresh *nodeDeviceCache, evs []c19Event) {
			// the harness' own statement of what is taken: what Reserve handed to every object that is still active
			ref := newNodeDeviceCache()
			ref.onDeviceAdd(currentDevice())
			for _, u := range running() {
				o := persisted[u]
				p := o.Pod
				if o.Resv != nil {
					p = reservationutil.NewReservePod(o.Resv)
				}
				ref.getNodeDevice(c19Node, true).updateCacheUsed(c19CopyAlloc(model[u]), p, true)
			}
			sig, msg, about := c19Compare("live", dc, "fresh", fresh)
			if sig == "" {
				sig, msg, about = c19Compare("fresh", fresh, "live", dc)
			}
			vsModel := false
			if sig == "" {
				// also sees a loss that the live scheduler shares because it re-read its own annotation
				vsModel = true
				sig, msg, about = c19Compare("reserve-time", ref, "fresh", fresh)
				if sig == "" {
					sig, msg, about = c19Compare("fresh", fresh, "reserve-time", ref)
				}
			}
			if sig == "" {
				return
			}
			full := "device-replay:" + sig
			if how, gone := deletedHow[about]; gone && sig == "holder-lost" && !vsModel {
				full = "device-replay:live-keeps-deleted-object:" + how
			} else if !vsModel {
				if fsig, _, _ := c19Compare("reserve-time", ref, "fresh", fresh); fsig == "" {
					if fsig, _, _ = c19Compare("fresh", fresh, "reserve-time", ref); fsig == "" {
						full += ":live-differs-from-reserve-time"
					}
				}
			} else {
				msg = "(live and fresh agree) " + msg
			}
			if c.Violation(t, full, "%s: %s\ninventory: %s (currently reported: %s)\nhistory: %s\nreplay events: %v\npersisted: %s", where, msg, c19DeviceStr(device), c19DeviceStr(currentDevice()), strings.Join(hist, "\n  "), evs, c19Persisted(persisted)) {
				dead = true
			}
		}
		rebuild := func(t *rapid.T) (*nodeDeviceCache, []c19Event) {
			checks++
			uids := bound()
			evs, extras, late := c19GenEvents(t, uids)
			fresh := c19Replay(currentDevice(), persisted, evs)
			if late {
				sawLate = true
			}
			for _, ev := range evs {
				if ev.Kind == "add-unbound" {
					sawEarly = true
				}
			}
			if extras > 0 {
				sawDup = true
			}
			return fresh, evs
		}
		crash := func(t *rapid.T) {
			fresh, evs := rebuild(t)
			holders := 0
			perDev := map[string]int{}
			for _, u := range running() {
				if len(model[u]) > 0 {
					holders++
				}
				for dt, l := range model[u] {
					for _, a := range l {
						perDev[fmt.Sprintf("%s#%d", dt, a.Minor)]++
					}
				}
			}
			for _, n := range perDev {
				if n >= 2 {
					sawShareDev = true
				}
			}
			if holders > maxLive {
				maxLive = holders
			}
			judge(t, "crash point", fresh, evs)
		}
		setLister := func(d *schedulingv1alpha1.Device) {
			_ = plg.handle.(*c19Handle).factory.Scheduling().V1alpha1().Devices().Informer().GetIndexer().Update(d.DeepCopy())
		}
		held := func(i int) bool {
			info := device.Spec.Devices[i]
			for _, u := range running() {
				for _, a := range model[u][info.Type] {
					if a.Minor == *info.Minor {
						return true
					}
				}
			}
			return false
		}

		schedule := func(t *rapid.T) {
			if dead {
				return
			}
			tplPod := c19GenPod(t, next, device)
			idx := next
			next++
			asResv := rapid.IntRange(0, 4).Draw(t, "asReservation") == 0
			bindFails := rapid.IntRange(0, 7).Draw(t, "bindFails") == 0
			selfEvent := rapid.Bool().Draw(t, "liveSeesOwnBindEvent")
			viaAPI := rapid.IntRange(0, 3).Draw(t, "viaAPI") > 0
			var resv *schedulingv1alpha1.Reservation
			inherited := false
			pod := tplPod
			what := c19PodStr(tplPod)
			if asResv {
				resv = c19NewReservation(tplPod, idx)
				// The template may be a verbatim copy of a bound pod (Reservations created for a migration job copy the source
				// pod's whole metadata): it then carries the allocation result of THAT pod. What pre-bind writes on the
				// Reservation itself overrides it in the reserve pod.
				if rapid.IntRange(0, 2).Draw(t, "templateCopiedFromBoundPod") == 0 {
					ann := map[string]string{}
					for k, v := range resv.Spec.Template.Annotations {
						ann[k] = v
					}
					ann[apiext.AnnotationDeviceAllocated] = rapid.SampledFrom([]string{`{}`, `{"gpu":[{"minor":0,"resources":{"koordinator.sh/gpu-core":"100","koordinator.sh/gpu-memory-ratio":"100"}}]}`, `{"rdma":[{"minor":0,"resources":{"koordinator.sh/rdma":"100"}}]}`}).Draw(t, "inheritedAllocationResult")
					resv.Spec.Template.Annotations = ann
					inherited = true
				}
				pod = reservationutil.NewReservePod(resv)
				what = "reservation r" + fmt.Sprint(idx) + " of " + what
			}
			cs := framework.NewCycleState()
			_, st := plg.PreFilter(ctx, cs, pod, nil)
			if st.Code() != fwktype.Success && st.Code() != fwktype.Skip {
				hist = append(hist, fmt.Sprintf("schedule %s -> prefilter: %s", what, st.Message()))
				return
			}
			if st := plg.Filter(ctx, cs, pod, nodeInfo); !st.IsSuccess() {
				hist = append(hist, fmt.Sprintf("schedule %s -> filter: %s", what, st.Message()))
				return
			}
			if st := plg.Reserve(ctx, cs, pod, c19Node); !st.IsSuccess() {
				plg.Unreserve(ctx, cs, pod, c19Node)
				hist = append(hist, fmt.Sprintf("schedule %s -> reserve: %s", what, st.Message()))
				return
			}
			state, _ := getPreFilterState(cs)
			if bindFails {
				got := c19AllocStr(state.allocationResult)
				plg.Unreserve(ctx, cs, pod, c19Node)
				hist = append(hist, fmt.Sprintf("schedule %s -> reserved %s, bind failed, unreserved", what, got))
				return
			}
			var obj, before c19Obj
			if asResv {
				before = c19Obj{Resv: resv}
				r := resv.DeepCopy()
				st = plg.PreBindReservation(ctx, cs, r, c19Node)
				// what the reservation plugin's Bind records: Available on the node, and Status.Allocatable = the requests
				// overridden by the device amounts pre-bind persisted (resize-allocatable annotation, ResizePod feature)
				if err := reservationutil.SetReservationAvailable(r, c19Node); err != nil {
					t.Fatalf("harness: SetReservationAvailable: %v", err)
				}
				r.Status.Conditions = nil // wall-clock stamps, irrelevant here
				obj = c19Obj{Resv: r}
			} else {
				before = c19Obj{Pod: pod}
				p := pod.DeepCopy()
				st = plg.PreBind(ctx, cs, p, c19Node)
				p.Spec.NodeName = c19Node
				obj = c19Obj{Pod: p}
			}
			if !st.IsSuccess() {
				plg.Unreserve(ctx, cs, pod, c19Node)
				hist = append(hist, fmt.Sprintf("schedule %s -> prebind: %s", what, st.Message()))
				return
			}
			if inherited {
				if _, own := obj.Resv.Annotations[apiext.AnnotationDeviceAllocated]; !own {
					// This cycle allocated nothing, so pre-bind wrote no result of its own and the reserve pod would keep the
					// result copied from the source pod. Whether adopting that is right is not what C19 states; such a
					// history is not continued (handled like a failed bind).
					plg.Unreserve(ctx, cs, pod, c19Node)
					sawInheritedKept = true
					hist = append(hist, fmt.Sprintf("schedule %s -> nothing allocated, the inherited result would be kept: not continued", what))
					return
				}
				sawInheritedOverridden = true
				what += " [template carries the source pod's " + apiext.AnnotationDeviceAllocated + "]"
			}
			if viaAPI {
				obj = c19ViaAPI(t, obj)
			}
			persisted[pod.UID] = obj
			delete(deletedHow, obj.key())
			if asResv {
				sawResv = true
			}
			alloc := c19CopyAlloc(state.allocationResult) // the model must not alias what the plugin holds
			model[pod.UID] = alloc
			if asResv && len(alloc) > 0 {
				// With ResizePod the device amounts a Reservation took are persisted (pre-bind annotation -> Status.Allocatable)
				// and a restarted scheduler rebuilds the reserve pod from them: what is read back must be the sum over the
				// devices handed out at Reserve.
				want := map[corev1.ResourceName]*resource.Quantity{}
				nDev := 0
				for _, l := range alloc {
					for _, a := range l {
						nDev++
						for n, q := range a.Resources {
							if want[n] == nil {
								want[n] = &resource.Quantity{}
							}
							want[n].Add(q)
						}
					}
				}
				if nDev >= 2 {
					sawResizeMulti = true
				}
				rebuilt := apiresource.PodRequests(reservationutil.NewReservePod(obj.Resv), apiresource.PodResourcesOptions{})
				var names []string
				for n := range want {
					names = append(names, string(n))
				}
				sort.Strings(names)
				for _, n := range names {
					got := obj.Resv.Status.Allocatable[corev1.ResourceName(n)]
					req := rebuilt[corev1.ResourceName(n)]
					if got.Cmp(*want[corev1.ResourceName(n)]) != 0 || req.Cmp(*want[corev1.ResourceName(n)]) != 0 {
						if c.Violation(t, "device-replay:reservation-allocatable-differs-from-allocation",
							"reservation %s took %s (%d devices), sum of %s = %s; persisted Status.Allocatable says %s, the rebuilt reserve pod requests %s\ninventory: %s\nhistory: %s",
							obj.Resv.Name, c19AllocStr(alloc), nDev, n, want[corev1.ResourceName(n)].String(), got.String(), req.String(), c19DeviceStr(device), strings.Join(hist, "\n  ")) {
							dead = true
						}
						return
					}
				}
			}
			if len(alloc) >= 2 {
				sawMultiType = true
			}
			for _, l := range alloc {
				if len(l) >= 2 {
					sawMultiDev = true
				}
				for _, a := range l {
					if a.Extension != nil && len(a.Extension.VirtualFunctions) > 0 {
						sawVF = true
					}
					if a.ID != "" {
						sawID = true
					}
				}
			}
			if selfEvent { // the allocating scheduler's own informer reports the pre-bind patch, then the bind
				mid := c19Unbound(obj)
				live.update(before, mid)
				live.update(mid, obj)
				sawSelfEvent = true
			}
			hist = append(hist, fmt.Sprintf("schedule %s -> bound %s as %s selfEvent=%v", what, c19AllocStr(state.allocationResult), obj, selfEvent))
		}
		t.Repeat(map[string]func(*rapid.T){
			"schedule":  schedule, // three names: scheduling is three times as likely as each other action
			"schedule2": schedule,
			"schedule3": schedule,
			"schedule4": schedule,
			"schedule5": schedule,
			// A device drops out of the node's Device object (fell off the bus, not enumerated until it is reset): the
			// node agent reports the inventory without it. Pods that hold it keep running.
			"deviceOutage": func(t *rapid.T) {
				if dead {
					return
				}
				var present []int
				for i := range device.Spec.Devices {
					if !missing[i] {
						present = append(present, i)
					}
				}
				if len(present) == 0 || len(present) <= len(device.Spec.Devices)-2 || rapid.Bool().Draw(t, "noOutageNow") {
					t.Skip("no (further) outage now") // at most two devices are out at a time, so that allocation keeps going
				}
				i := rapid.SampledFrom(present).Draw(t, "device")
				for _, j := range present { // prefer a device that somebody holds
					if held(j) && rapid.Bool().Draw(t, "preferHeld") {
						i = j
						break
					}
				}
				old := currentDevice()
				missing[i] = true
				dc.onDeviceUpdate(old, currentDevice())
				setLister(currentDevice())
				sawOutage = true
				if held(i) {
					sawOutageOfHeld = true
				}
				hist = append(hist, fmt.Sprintf("Device update: %s#%d is no longer reported", device.Spec.Devices[i].Type, *device.Spec.Devices[i].Minor))
			},
			// The device is reported again. Checked as a restart DURING the outage: the restarted scheduler rebuilds from
			// the reduced Device object and the persisted pods, then both schedulers get the Device update.
			"deviceBack": func(t *rapid.T) {
				if dead {
					return
				}
				var gone []int
				for i := range device.Spec.Devices {
					if missing[i] {
						gone = append(gone, i)
					}
				}
				if len(gone) == 0 {
					t.Skip("nothing is missing")
				}
				i := rapid.SampledFrom(gone).Draw(t, "device")
				fresh, evs := rebuild(t)
				old := currentDevice()
				delete(missing, i)
				dc.onDeviceUpdate(old, currentDevice())
				fresh.onDeviceUpdate(old, currentDevice())
				setLister(currentDevice())
				if held(i) {
					sawRestartInOutageOfHeld = true
				}
				hist = append(hist, fmt.Sprintf("Device update: %s#%d is reported again", device.Spec.Devices[i].Type, *device.Spec.Devices[i].Minor))
				judge(t, "restart while the device was not reported, then the Device update on both", fresh, evs)
			},
			"delete": func(t *rapid.T) {
				if dead {
					return
				}
				uids := bound()
				if len(uids) == 0 {
					t.Skip("nothing bound")
				}
				u := rapid.SampledFrom(uids).Draw(t, "uid")
				tomb := rapid.IntRange(0, 3).Draw(t, "tombstone") == 0
				live.delete(persisted[u], tomb)
				how := "pod"
				if persisted[u].Resv != nil {
					how = "reservation"
				}
				if tomb {
					how += "-tombstone"
				}
				deletedHow[persisted[u].key()] = how
				delete(persisted, u)
				delete(model, u)
				sawDeleted = true
				hist = append(hist, fmt.Sprintf("delete %s (%s)", u, how))
			},
			// A pod that finishes (phase Succeeded/Failed) leaves the scheduler's pod informer, which carries the field
			// selector status.phase!=Succeeded,status.phase!=Failed (scheduler.NewInformerFactory): every handler gets a
			// DELETE and a restarted scheduler never sees the object. The Reservation informer is unfiltered: a consumed
			// or expired Reservation stays in the API server and is delivered with its terminal phase.
			"finish": func(t *rapid.T) {
				if dead {
					return
				}
				uids := running()
				if len(uids) == 0 {
					t.Skip("nothing running")
				}
				u := rapid.SampledFrom(uids).Draw(t, "uid")
				old := persisted[u]
				if old.Resv != nil {
					n := old.copy()
					n.Resv.Status.Phase = rapid.SampledFrom([]schedulingv1alpha1.ReservationPhase{schedulingv1alpha1.ReservationSucceeded, schedulingv1alpha1.ReservationFailed}).Draw(t, "resvPhase")
					live.update(old, n)
					persisted[u] = n
					delete(model, u)
					sawTerminated = true
					hist = append(hist, fmt.Sprintf("finish reservation %s (%s, object stays)", u, n.Resv.Status.Phase))
					return
				}
				phase := rapid.SampledFrom([]corev1.PodPhase{corev1.PodSucceeded, corev1.PodFailed}).Draw(t, "phase")
				tomb := rapid.IntRange(0, 3).Draw(t, "tombstone") == 0
				last := old.copy() // the last state the filtered informer knew: still running
				live.delete(last, tomb)
				how := "pod-finished"
				if tomb {
					how += "-tombstone"
				}
				deletedHow[old.key()] = how
				delete(persisted, u)
				delete(model, u)
				sawPodFinished = true
				hist = append(hist, fmt.Sprintf("finish pod %s (%s): delivered as delete (%s), object leaves the informer", u, phase, how))
			},
			"touch": func(t *rapid.T) {
				if dead {
					return
				}
				uids := bound()
				if len(uids) == 0 {
					t.Skip("nothing bound")
				}
				u := rapid.SampledFrom(uids).Draw(t, "uid")
				old := persisted[u]
				n := old.copy()
				var m *metav1.ObjectMeta
				if n.Resv != nil {
					m = &n.Resv.ObjectMeta
				} else {
					m = &n.Pod.ObjectMeta
				}
				if m.Labels == nil {
					m.Labels = map[string]string{}
				}
				m.Labels["touched"] = fmt.Sprint(len(hist))
				live.update(old, n)
				persisted[u] = n
				hist = append(hist, fmt.Sprintf("touch %s", u))
			},
			"": func(t *rapid.T) {
				if dead {
					return
				}
				crash(t)
			},
		})
		c.ClassIf(sawVF, "vf-allocation")
		c.ClassIf(sawMultiType, "multi-type-allocation")
		c.ClassIf(sawMultiDev, "multi-device-allocation")
		c.ClassIf(sawShareDev, "device-shared-by-two-holders")
		c.ClassIf(sawID, "device-id-filled")
		c.ClassIf(sawDup, "duplicate-or-noop-event")
		c.ClassIf(sawTerminated, "finished-reservation-persisted")
		c.ClassIf(sawPodFinished, "pod-finished(delivered-as-delete)")
		c.ClassIf(sawDeleted, "object-deleted")
		c.ClassIf(sawEarly, "replay:add-unbound-then-bind-update")
		c.ClassIf(sawInheritedOverridden, "reservation-template-carries-source-pod-allocation-result(overridden-by-own)")
		c.ClassIf(sawInheritedKept, "inherited-result-would-be-kept(history-not-continued)")
		c.ClassIf(sawResizeMulti, "ResizePod:reservation-holding>=2-devices")
		c.ClassIf(sawOutage, "device-dropped-from-Device-object")
		c.ClassIf(sawOutageOfHeld, "dropped-device-is-held")
		c.ClassIf(sawRestartInOutageOfHeld, "restart-during-outage-of-held-device-then-reported-again")
		c.ClassIf(sawSelfEvent, "live-saw-own-bind-event")
		c.ClassIf(sawLate, "pod-event-before-device-report")
		c.ClassIf(sawResv, "reservation-object-persisted")
		c.ClassIf(maxLive >= 2, "crash-with>=2-holders")
		c.ClassIf(maxLive == 0, "never-any-holder")
		if maxLive >= 2 && sawDup && sawShareDev {
			c.NonTrivial(c19DeviceStr(device), hist)
		}
		c.Sample(map[string]any{"inventory": c19DeviceStr(device), "history": hist, "crashPointsChecked": checks, "persistedAtEnd": c19Persisted(persisted)})
	})
}

// ---------------------------------------------------------------- first events of a node arriving concurrently

func c19SummaryDiff(a, b *NodeDeviceSummary) string {
	if d := c19DetailDiff("used", a.DeviceUsedDetail, b.DeviceUsedDetail); d != "" {
		return d
	}
	if d := c19DetailDiff("free", a.DeviceFreeDetail, b.DeviceFreeDetail); d != "" {
		return d
	}
	if d := c19DetailDiff("total", a.DeviceTotalDetail, b.DeviceTotalDetail); d != "" {
		return d
	}
	for _, side := range [][2]*NodeDeviceSummary{{a, b}, {b, a}} {
		for dt, holders := range side[0].AllocateSet {
			for k, perMinor := range holders {
				for m, rl := range perMinor {
					if d := c19RLDiff(rl, side[1].AllocateSet[dt][k][m]); d != "" {
						return fmt.Sprintf("holder %s on %s#%d: %s", k, dt, m, d)
					}
				}
			}
		}
	}
	return ""
}

// TestVerifC19DeviceConcurrentFirstEvents: during a restart the Device, pod and Reservation informers run their handlers
// on separate goroutines, so the first events of a node can arrive at the same time. The persisted objects of many
// nodes are replayed through the real handlers from three goroutines per node (released together, all joined before
// anything is read) and, at quiescence, every node's ledger must equal the one a sequential replay builds. The
// verdict does not depend on the schedule: the handlers commute on correct code.
func TestVerifC19DeviceConcurrentFirstEvents(t *testing.T) {
	c19Silence()
	rec := vk.New(t, "C19", "deviceConcurrentFirstEvents")
	rapid.Check(t, func(t *rapid.T) {
		c := rec.Begin()
		defer c.End()
		inv := c19GenDevice(t)
		const nodes = 48
		// what the pod and the reservation of every node hold: a slice of the first two devices
		mk := func(i int, share int64) apiext.DeviceAllocations {
			info := inv.Spec.Devices[i%len(inv.Spec.Devices)]
			rl := corev1.ResourceList{}
			for n := range info.Resources {
				rl[n] = *resource.NewQuantity(share, resource.DecimalSI)
			}
			return apiext.DeviceAllocations{info.Type: {{Minor: *info.Minor, Resources: rl}}}
		}
		podShare := int64(rapid.IntRange(1, 50).Draw(t, "podShare"))
		resvShare := int64(rapid.IntRange(1, 50).Draw(t, "reservationShare"))
		resvDev := rapid.IntRange(0, 1).Draw(t, "reservationDevice")
		type perNode struct {
			dev  *schedulingv1alpha1.Device
			pod  *corev1.Pod
			resv *schedulingv1alpha1.Reservation
		}
		var objs []perNode
		for i := 0; i < nodes; i++ {
			name := fmt.Sprintf("node-%d", i)
			d := inv.DeepCopy()
			d.Name = name
			p := &corev1.Pod{}
			p.Name, p.Namespace, p.UID = "p-"+name, "default", types.UID("uid-p-"+name)
			p.Spec.NodeName = name
			_ = apiext.SetDeviceAllocations(p, mk(0, podShare))
			r := c19NewReservation(&corev1.Pod{ObjectMeta: metav1.ObjectMeta{Namespace: "default"}, Spec: corev1.PodSpec{Containers: []corev1.Container{{Name: "c"}}}}, i)
			r.Name, r.UID = "r-"+name, types.UID("uid-r-"+name)
			r.Status.NodeName, r.Status.Phase = name, schedulingv1alpha1.ReservationAvailable
			_ = apiext.SetDeviceAllocations(r, mk(resvDev, resvShare))
			objs = append(objs, perNode{d, p, r})
		}
		seq := newNodeDeviceCache()
		hs := c19NewHandlers(seq)
		for _, o := range objs {
			seq.onDeviceAdd(o.dev.DeepCopy())
			hs.add(c19Obj{Pod: o.pod})
			hs.add(c19Obj{Resv: o.resv})
		}
		conc := newNodeDeviceCache()
		hc := c19NewHandlers(conc)
		var wg sync.WaitGroup
		for _, o := range objs {
			o := o
			var ready int32
			gate := func(f func()) {
				wg.Add(1)
				go func() {
					defer wg.Done()
					atomic.AddInt32(&ready, 1)
					for atomic.LoadInt32(&ready) < 3 { // released together
						runtime.Gosched()
					}
					f()
				}()
			}
			gate(func() { conc.onDeviceAdd(o.dev.DeepCopy()) })
			gate(func() { hc.add(c19Obj{Pod: o.pod}) })
			gate(func() { hc.add(c19Obj{Resv: o.resv}) })
		}
		wg.Wait() // joined: no goroutine outlives the case
		c.Class(fmt.Sprintf("GOMAXPROCS>=3:%v", runtime.GOMAXPROCS(0) >= 3))
		c.NonTrivial(c19DeviceStr(inv), podShare, resvShare, resvDev)
		c.Sample(map[string]any{"inventory": c19DeviceStr(inv), "nodes": nodes, "podShare": podShare, "reservationShare": resvShare})
		for _, o := range objs {
			a, okA := seq.getNodeDeviceSummary(o.dev.Name)
			b, okB := conc.getNodeDeviceSummary(o.dev.Name)
			if !okA || !okB {
				c.Violation(t, "device-replay:concurrent-first-events:node-missing", "node %s known to the sequential replay: %v, to the concurrent one: %v", o.dev.Name, okA, okB)
				return
			}
			if d := c19SummaryDiff(a, b); d != "" {
				c.Violation(t, "device-replay:concurrent-first-events-lose-an-update", "node %s (Device, pod and reservation adds released together): %s (sequential vs concurrent replay); inventory %s, pod holds %s, reservation holds %s",
					o.dev.Name, d, c19DeviceStr(inv), c19AllocStr(mk(0, podShare)), c19AllocStr(mk(resvDev, resvShare)))
				return
			}
		}
	})
}
