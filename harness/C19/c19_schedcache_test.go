//go:build verif

// C19 (unit 7, scheduler cache) — the reserved amount of an Available Reservation sits in the scheduler cache (NodeInfo)
// as its reserve pod. A restarted scheduler that gets the persisted Reservation objects through the unified reservation
// event handler holds the same reserve pods as the scheduler that watched them being scheduled: nothing that was
// reserved on a node before the restart is free after it.
// See /verif/DESIGN.md §1 C19. In-package harness (injected with -overlay).
package eventhandlers

import (
	"encoding/json"
	"fmt"
	"io"
	"sort"
	"strings"
	"sync"
	"testing"
	"time"

	corev1 "k8s.io/api/core/v1"
	"k8s.io/apimachinery/pkg/api/resource"
	metav1 "k8s.io/apimachinery/pkg/apis/meta/v1"
	"k8s.io/apimachinery/pkg/types"
	"k8s.io/client-go/tools/cache"
	apiresource "k8s.io/component-helpers/resource"
	"k8s.io/klog/v2"
	"k8s.io/kubernetes/pkg/scheduler"
	"k8s.io/kubernetes/pkg/scheduler/profile"
	"pgregory.net/rapid"

	schedulingv1alpha1 "github.com/koordinator-sh/koordinator/apis/scheduling/v1alpha1"
	"github.com/koordinator-sh/koordinator/pkg/scheduler/frameworkext"
	reservationutil "github.com/koordinator-sh/koordinator/pkg/util/reservation"
	"github.com/koordinator-sh/koordinator/pkg/verifkit/vk"
)

var c19Quiet sync.Once

func c19Silence() {
	c19Quiet.Do(func() {
		klog.LogToStderr(false)
		klog.SetOutput(io.Discard)
	})
}

// a scheduler as the handler sees it: its profiles and (a stand-in for) its cache and queue
type c19Sched struct {
	sched   *scheduler.Scheduler
	adapter *frameworkext.FakeScheduler
	h       cache.ResourceEventHandler
}

func c19NewSched(profiles []string) *c19Sched {
	m := profile.Map{}
	for _, p := range profiles {
		m[p] = nil // only the key is consulted (HandlesSchedulerName); a nil framework is skipped by the handler
	}
	s := &c19Sched{sched: &scheduler.Scheduler{Profiles: m}, adapter: frameworkext.NewFakeScheduler()}
	s.h = reservationEventHandlers(s.sched, s.adapter)
	return s
}

// reserve pods in the cache: uid -> "node requests"
func (s *c19Sched) reserved() map[string]string {
	out := map[string]string{}
	for _, p := range s.adapter.Pods {
		req := apiresource.PodRequests(p, apiresource.PodResourcesOptions{})
		var ks []string
		for k := range req {
			ks = append(ks, string(k))
		}
		sort.Strings(ks)
		var parts []string
		for _, k := range ks {
			q := req[corev1.ResourceName(k)]
			if !q.IsZero() {
				parts = append(parts, fmt.Sprintf("%s=%d", k, q.MilliValue()))
			}
		}
		out[string(p.UID)] = p.Spec.NodeName + " " + strings.Join(parts, ",")
	}
	return out
}

var c19SchedulerNames = []string{"", "koord-scheduler", "koord-scheduler", "other-scheduler", "retired-profile"}

func c19GenReservation(t *rapid.T, idx int) *schedulingv1alpha1.Reservation {
	r := &schedulingv1alpha1.Reservation{}
	r.Name = fmt.Sprintf("r%d", idx)
	r.UID = types.UID(fmt.Sprintf("uid-r%d", idx))
	r.ResourceVersion = "1"
	req := corev1.ResourceList{
		corev1.ResourceCPU:    *resource.NewMilliQuantity(rapid.SampledFrom([]int64{500, 1000, 4000}).Draw(t, "cpu"), resource.DecimalSI),
		corev1.ResourceMemory: *resource.NewQuantity(rapid.SampledFrom([]int64{1 << 20, 1 << 30}).Draw(t, "mem"), resource.BinarySI),
	}
	tpl := &corev1.PodTemplateSpec{}
	tpl.Namespace = "default"
	tpl.Spec.SchedulerName = rapid.SampledFrom(c19SchedulerNames).Draw(t, "schedulerName") // "" = default-scheduler
	tpl.Spec.Containers = []corev1.Container{{Name: "c", Resources: corev1.ResourceRequirements{Requests: req, Limits: req.DeepCopy()}}}
	r.Spec.Template = tpl
	r.Spec.Owners = []schedulingv1alpha1.ReservationOwner{{LabelSelector: &metav1.LabelSelector{MatchLabels: map[string]string{"app": "x"}}}}
	r.Spec.TTL = &metav1.Duration{Duration: time.Hour}
	r.Status.Phase = schedulingv1alpha1.ReservationPending
	return r
}

func c19RStr(r *schedulingv1alpha1.Reservation) string {
	return fmt.Sprintf("%s{scheduler=%q phase=%q node=%q}", r.Name, reservationutil.GetReservationSchedulerName(r), r.Status.Phase, r.Status.NodeName)
}

func c19ViaAPI(t *rapid.T, r *schedulingv1alpha1.Reservation) *schedulingv1alpha1.Reservation {
	b, err := json.Marshal(r)
	if err != nil {
		t.Fatalf("harness: marshal: %v", err)
	}
	out := &schedulingv1alpha1.Reservation{}
	if err := json.Unmarshal(b, out); err != nil {
		t.Fatalf("harness: unmarshal: %v", err)
	}
	return out
}

func c19Pending(r *schedulingv1alpha1.Reservation) *schedulingv1alpha1.Reservation {
	n := r.DeepCopy()
	n.Status.NodeName, n.Status.Phase, n.Status.Allocatable = "", schedulingv1alpha1.ReservationPending, nil
	n.ResourceVersion = "0"
	return n
}

type c19Event struct {
	Kind string // add | dup-add | update | add-unbound (first seen unscheduled) | bind-update
	UID  types.UID
}

func TestVerifC19SchedulerCacheReplay(t *testing.T) {
	c19Silence()
	// the handler asks the registered reservation caches for the ReservationInfo when a reservation leaves the cache
	frameworkext.SetReservationCache(frameworkext.NewFakeReservationCache(), "koord-scheduler")
	rec := vk.New(t, "C19", "schedulerCacheReplay")
	rapid.Check(t, func(t *rapid.T) {
		c := rec.Begin()
		defer c.End()
		// the scheduler serves one or two profiles; Reservations may name any scheduler (another instance binds them, or
		// they were bound under a profile name this scheduler no longer serves)
		profiles := []string{"koord-scheduler"}
		if rapid.Bool().Draw(t, "servesDefaultSchedulerName") {
			profiles = append(profiles, corev1.DefaultSchedulerName)
		}
		live := c19NewSched(profiles)
		persisted := map[types.UID]*schedulingv1alpha1.Reservation{}
		next := 0
		var hist []string
		dead := false
		sawForeign, sawForeignAvailable, sawDup, sawEarly, sawEnded, sawDeleted := false, false, false, false, false, false
		maxAvail := 0

		sorted := func(pred func(*schedulingv1alpha1.Reservation) bool) []types.UID {
			var out []types.UID
			for u, r := range persisted {
				if pred(r) {
					out = append(out, u)
				}
			}
			sort.Slice(out, func(i, j int) bool { return out[i] < out[j] })
			return out
		}
		bump := func(r *schedulingv1alpha1.Reservation) { r.ResourceVersion = fmt.Sprint(len(hist) + 2) }
		// the harness' own statement: exactly the Available reservations hold their allocatable on their node
		model := func() map[string]string {
			out := map[string]string{}
			for _, u := range sorted(func(r *schedulingv1alpha1.Reservation) bool {
				return r.Status.Phase == schedulingv1alpha1.ReservationAvailable && r.Status.NodeName != ""
			}) {
				r := persisted[u]
				var ks []string
				for k := range r.Status.Allocatable {
					ks = append(ks, string(k))
				}
				sort.Strings(ks)
				var parts []string
				for _, k := range ks {
					q := r.Status.Allocatable[corev1.ResourceName(k)]
					if !q.IsZero() {
						parts = append(parts, fmt.Sprintf("%s=%d", k, q.MilliValue()))
					}
				}
				out[string(u)] = r.Status.NodeName + " " + strings.Join(parts, ",")
			}
			return out
		}
		diff := func(an string, a map[string]string, bn string, b map[string]string) (string, string) {
			for _, u := range vk.SortedKeys(a) {
				if _, ok := b[u]; !ok {
					return "reserved-amount-lost", fmt.Sprintf("reservation %s holds [%s] in %s, %s does not hold it: its amount counts as free", u, a[u], an, bn)
				}
				if a[u] != b[u] {
					return "reserved-amount-differs", fmt.Sprintf("reservation %s holds [%s] in %s and [%s] in %s", u, a[u], an, b[u], bn)
				}
			}
			for _, u := range vk.SortedKeys(b) {
				if _, ok := a[u]; !ok {
					return "reserved-amount-invented", fmt.Sprintf("reservation %s holds [%s] in %s, %s does not hold it", u, b[u], bn, an)
				}
			}
			return "", ""
		}

		crash := func(t *rapid.T) {
			uids := sorted(func(*schedulingv1alpha1.Reservation) bool { return true })
			var evs []c19Event
			if len(uids) > 0 {
				for _, u := range rapid.Permutation(uids).Draw(t, "deliveryOrder") {
					evs = append(evs, c19Event{"add", u})
				}
				for i := rapid.IntRange(0, 3).Draw(t, "extraEvents"); i > 0; i-- {
					u := rapid.SampledFrom(uids).Draw(t, "extraUID")
					kind := rapid.SampledFrom([]string{"dup-add", "update"}).Draw(t, "extraKind")
					first := 0
					for j, ev := range evs {
						if ev.UID == u {
							first = j
							break
						}
					}
					pos := rapid.IntRange(first+1, len(evs)).Draw(t, "extraPos")
					evs = append(evs[:pos], append([]c19Event{{kind, u}}, evs[pos:]...)...)
					sawDup = true
				}
				for _, u := range uids {
					if persisted[u].Status.NodeName == "" || rapid.IntRange(0, 3).Draw(t, "seenBeforeBind") != 0 {
						continue
					}
					first, nextOfU := -1, len(evs)
					for j, ev := range evs {
						if ev.UID != u {
							continue
						}
						if first < 0 {
							first = j
						} else {
							nextOfU = j
							break
						}
					}
					evs[first].Kind = "add-unbound"
					pos := rapid.IntRange(first+1, nextOfU).Draw(t, "bindUpdatePos")
					evs = append(evs[:pos], append([]c19Event{{"bind-update", u}}, evs[pos:]...)...)
					sawEarly = true
				}
			}
			fresh := c19NewSched(profiles)
			for _, ev := range evs {
				r := persisted[ev.UID]
				switch ev.Kind {
				case "add", "dup-add":
					fresh.h.OnAdd(r.DeepCopy(), true)
				case "add-unbound":
					fresh.h.OnAdd(c19Pending(r), true)
				case "bind-update":
					fresh.h.OnUpdate(c19Pending(r), r.DeepCopy())
				case "update":
					n := r.DeepCopy()
					n.ResourceVersion = "next"
					fresh.h.OnUpdate(r.DeepCopy(), n)
				}
			}
			want := model()
			if len(want) > maxAvail {
				maxAvail = len(want)
			}
			sig, msg := diff("live", live.reserved(), "fresh", fresh.reserved())
			if sig == "" {
				if sig, msg = diff("model", want, "fresh", fresh.reserved()); sig != "" {
					msg = "(live and fresh agree) " + msg
				}
			} else if s2, _ := diff("model", want, "fresh", fresh.reserved()); s2 == "" {
				sig += ":live-differs-from-model"
			}
			if sig == "" {
				return
			}
			var objs []string
			for _, u := range uids {
				objs = append(objs, c19RStr(persisted[u]))
			}
			if c.Violation(t, "schedcache-replay:"+sig, "%s\nprofiles served: %v\nhistory: %s\nreplay events: %v\npersisted: %s", msg, profiles, strings.Join(hist, "\n  "), evs, strings.Join(objs, " ")) {
				dead = true
			}
		}

		t.Repeat(map[string]func(*rapid.T){
			"create": func(t *rapid.T) { // a Reservation is created; the scheduler sees it unscheduled
				if dead {
					return
				}
				r := c19GenReservation(t, next)
				next++
				live.h.OnAdd(r.DeepCopy(), false)
				persisted[r.UID] = r
				if !live.sched.Profiles.HandlesSchedulerName(reservationutil.GetReservationSchedulerName(r)) {
					sawForeign = true
				}
				hist = append(hist, "create "+c19RStr(r))
			},
			"bind": func(t *rapid.T) { // it is scheduled (by this scheduler or by the one that serves its name): the scheduler sees the update
				if dead {
					return
				}
				uids := sorted(func(r *schedulingv1alpha1.Reservation) bool {
					return r.Status.Phase == schedulingv1alpha1.ReservationPending
				})
				if len(uids) == 0 {
					t.Skip("nothing unscheduled")
				}
				u := rapid.SampledFrom(uids).Draw(t, "uid")
				old := persisted[u]
				n := old.DeepCopy()
				if err := reservationutil.SetReservationAvailable(n, rapid.SampledFrom([]string{"n0", "n1"}).Draw(t, "node")); err != nil {
					t.Fatalf("harness: %v", err)
				}
				n.Status.Conditions = nil // wall-clock stamps
				bump(n)
				if rapid.IntRange(0, 3).Draw(t, "viaAPI") > 0 {
					n = c19ViaAPI(t, n)
				}
				live.h.OnUpdate(old.DeepCopy(), n.DeepCopy())
				persisted[u] = n
				if !live.sched.Profiles.HandlesSchedulerName(reservationutil.GetReservationSchedulerName(n)) {
					sawForeignAvailable = true
				}
				hist = append(hist, "bind "+c19RStr(n))
			},
			"end": func(t *rapid.T) { // consumed or expired: the object stays with a terminal phase
				if dead {
					return
				}
				uids := sorted(func(r *schedulingv1alpha1.Reservation) bool {
					return r.Status.Phase == schedulingv1alpha1.ReservationAvailable || r.Status.Phase == schedulingv1alpha1.ReservationPending
				})
				if len(uids) == 0 {
					t.Skip("nothing to end")
				}
				u := rapid.SampledFrom(uids).Draw(t, "uid")
				old := persisted[u]
				n := old.DeepCopy()
				n.Status.Phase = rapid.SampledFrom([]schedulingv1alpha1.ReservationPhase{schedulingv1alpha1.ReservationSucceeded, schedulingv1alpha1.ReservationFailed}).Draw(t, "phase")
				bump(n)
				live.h.OnUpdate(old.DeepCopy(), n.DeepCopy())
				persisted[u] = n
				sawEnded = true
				hist = append(hist, "end "+c19RStr(n))
			},
			"delete": func(t *rapid.T) {
				if dead {
					return
				}
				uids := sorted(func(*schedulingv1alpha1.Reservation) bool { return true })
				if len(uids) == 0 {
					t.Skip("nothing")
				}
				u := rapid.SampledFrom(uids).Draw(t, "uid")
				if rapid.IntRange(0, 3).Draw(t, "tombstone") == 0 {
					live.h.OnDelete(cache.DeletedFinalStateUnknown{Key: persisted[u].Name, Obj: persisted[u].DeepCopy()})
				} else {
					live.h.OnDelete(persisted[u].DeepCopy())
				}
				hist = append(hist, "delete "+c19RStr(persisted[u]))
				delete(persisted, u)
				sawDeleted = true
			},
			"touch": func(t *rapid.T) {
				if dead {
					return
				}
				uids := sorted(func(*schedulingv1alpha1.Reservation) bool { return true })
				if len(uids) == 0 {
					t.Skip("nothing")
				}
				u := rapid.SampledFrom(uids).Draw(t, "uid")
				old := persisted[u]
				n := old.DeepCopy()
				if n.Labels == nil {
					n.Labels = map[string]string{}
				}
				n.Labels["touched"] = fmt.Sprint(len(hist))
				bump(n)
				live.h.OnUpdate(old.DeepCopy(), n.DeepCopy())
				persisted[u] = n
				hist = append(hist, "touch "+n.Name)
			},
			"": func(t *rapid.T) {
				if dead {
					return
				}
				crash(t)
			},
		})
		c.ClassIf(sawForeign, "reservation-of-a-scheduler-name-not-served-here")
		c.ClassIf(sawForeignAvailable, "available-reservation-of-a-scheduler-name-not-served-here")
		c.ClassIf(sawDup, "duplicate-or-noop-event")
		c.ClassIf(sawEarly, "replay:add-unscheduled-then-bind-update")
		c.ClassIf(sawEnded, "ended-reservation-persisted")
		c.ClassIf(sawDeleted, "reservation-deleted")
		c.ClassIf(maxAvail >= 2, "crash-with>=2-available-reservations")
		c.ClassIf(maxAvail == 0, "never-any-available-reservation")
		if maxAvail >= 2 && sawDup {
			c.NonTrivial(profiles, hist)
		}
		c.Sample(map[string]any{"profiles": profiles, "history": hist})
	})
}
