//go:build verif

// C19 (unit 5, elasticquota/core; deliberately small, C01 owns quota accounting) — a fresh GroupQuotaManager fed the
// quota objects and the pods the API server holds (bound pods take the fail-over branch of OnPodAdd) reports the same
// used / request per quota as the manager that lived through the history.
// See /verif/DESIGN.md §1 C19. In-package harness (injected with -overlay).
package core

import (
	"fmt"
	"io"
	"sort"
	"strings"
	"sync"
	"testing"

	corev1 "k8s.io/api/core/v1"
	"k8s.io/apimachinery/pkg/api/resource"
	metav1 "k8s.io/apimachinery/pkg/apis/meta/v1"
	"k8s.io/apimachinery/pkg/types"
	"k8s.io/klog/v2"
	"pgregory.net/rapid"

	"github.com/koordinator-sh/koordinator/apis/extension"
	"github.com/koordinator-sh/koordinator/apis/thirdparty/scheduler-plugins/pkg/apis/scheduling/v1alpha1"
	"github.com/koordinator-sh/koordinator/pkg/verifkit/vk"
)

var c19Quiet sync.Once

func c19Silence() {
	c19Quiet.Do(func() {
		klog.LogToStderr(false)
		klog.SetOutput(io.Discard)
	})
}

// ---------------------------------------------------------------- quota tree (webhook-valid: child max <= parent max, sum of child min <= parent min)

type c19Quota struct {
	Name, Parent   string
	IsParent       bool
	MaxCPU, MaxMem int64 // cores, GiB
	MinCPU, MinMem int64
}

func (q c19Quota) object() *v1alpha1.ElasticQuota {
	rl := func(cpu, mem int64) corev1.ResourceList {
		return corev1.ResourceList{corev1.ResourceCPU: *resource.NewQuantity(cpu, resource.DecimalSI), corev1.ResourceMemory: *resource.NewQuantity(mem<<30, resource.BinarySI)}
	}
	eq := &v1alpha1.ElasticQuota{ObjectMeta: metav1.ObjectMeta{Name: q.Name, Namespace: "default", Labels: map[string]string{}, Annotations: map[string]string{}}}
	eq.Spec.Max, eq.Spec.Min = rl(q.MaxCPU, q.MaxMem), rl(q.MinCPU, q.MinMem)
	eq.Labels[extension.LabelQuotaParent] = q.Parent
	eq.Labels[extension.LabelQuotaIsParent] = fmt.Sprint(q.IsParent)
	eq.Labels[extension.LabelAllowLentResource] = "true"
	eq.Annotations[extension.AnnotationSharedWeight] = fmt.Sprintf("{\"cpu\":%v, \"memory\":\"%vGi\"}", q.MaxCPU, q.MaxMem)
	return eq
}

func c19GenTree(t *rapid.T) []c19Quota {
	var out []c19Quota
	nTop := rapid.IntRange(1, 3).Draw(t, "topLevel")
	for i := 0; i < nTop; i++ {
		top := c19Quota{Name: fmt.Sprintf("q%d", i), Parent: extension.RootQuotaName}
		top.MaxCPU = rapid.Int64Range(2, 64).Draw(t, "maxCPU")
		top.MaxMem = rapid.Int64Range(2, 256).Draw(t, "maxMem")
		top.MinCPU = rapid.Int64Range(0, top.MaxCPU).Draw(t, "minCPU")
		top.MinMem = rapid.Int64Range(0, top.MaxMem).Draw(t, "minMem")
		nKids := rapid.SampledFrom([]int{0, 0, 1, 2}).Draw(t, "children")
		top.IsParent = nKids > 0
		out = append(out, top)
		restCPU, restMem := top.MinCPU, top.MinMem
		for k := 0; k < nKids; k++ {
			kid := c19Quota{Name: fmt.Sprintf("q%d-%d", i, k), Parent: top.Name}
			kid.MaxCPU = rapid.Int64Range(1, top.MaxCPU).Draw(t, "kidMaxCPU")
			kid.MaxMem = rapid.Int64Range(1, top.MaxMem).Draw(t, "kidMaxMem")
			kid.MinCPU = rapid.Int64Range(0, c19Min(restCPU, kid.MaxCPU)).Draw(t, "kidMinCPU")
			kid.MinMem = rapid.Int64Range(0, c19Min(restMem, kid.MaxMem)).Draw(t, "kidMinMem")
			restCPU -= kid.MinCPU
			restMem -= kid.MinMem
			out = append(out, kid)
		}
	}
	return out
}

func c19Min(a, b int64) int64 {
	if a < b {
		return a
	}
	return b
}

func c19NewManager(tree []c19Quota, scaleMin bool) (*GroupQuotaManager, error) {
	big := corev1.ResourceList{corev1.ResourceCPU: *resource.NewQuantity(1<<20, resource.DecimalSI), corev1.ResourceMemory: *resource.NewQuantity(1<<50, resource.BinarySI)}
	gqm := NewGroupQuotaManager("", scaleMin, big, big)
	gqm.UpdateClusterTotalResource(corev1.ResourceList{corev1.ResourceCPU: *resource.NewQuantity(128, resource.DecimalSI), corev1.ResourceMemory: *resource.NewQuantity(512<<30, resource.BinarySI)})
	for _, q := range tree { // parents precede their children in the slice
		if err := gqm.UpdateQuota(q.object()); err != nil {
			return nil, err
		}
	}
	return gqm, nil
}

// ---------------------------------------------------------------- pods

func c19GenPod(t *rapid.T, idx int, leaves []string) *corev1.Pod {
	pod := &corev1.Pod{}
	pod.Name = fmt.Sprintf("p%d", idx)
	pod.Namespace = "default"
	pod.UID = types.UID(fmt.Sprintf("uid-p%d", idx))
	pod.ResourceVersion = "1"
	pod.Labels = map[string]string{extension.LabelQuotaName: rapid.SampledFrom(leaves).Draw(t, "quota")}
	if rapid.IntRange(0, 4).Draw(t, "nonPreemptible") == 0 {
		pod.Labels[extension.LabelPreemptible] = "false"
	}
	req := corev1.ResourceList{}
	if v := rapid.SampledFrom([]int64{0, 100, 500, 1000, 1500, 4000, 70000}).Draw(t, "cpu"); v > 0 {
		req[corev1.ResourceCPU] = *resource.NewMilliQuantity(v, resource.DecimalSI)
	}
	if v := rapid.SampledFrom([]int64{0, 1 << 20, 1 << 30, 3 << 29, 300 << 30}).Draw(t, "mem"); v > 0 {
		req[corev1.ResourceMemory] = *resource.NewQuantity(v, resource.BinarySI)
	}
	if rapid.IntRange(0, 4).Draw(t, "gpu") == 0 {
		req[extension.ResourceGPU] = *resource.NewQuantity(100, resource.DecimalSI) // not a dimension of any quota: masked
	}
	pod.Spec.Containers = []corev1.Container{{Name: "c", Resources: corev1.ResourceRequirements{Requests: req, Limits: req.DeepCopy()}}}
	return pod
}

func c19Q(p *corev1.Pod) string { return p.Labels[extension.LabelQuotaName] }

func c19PodStr(p *corev1.Pod) string {
	var parts []string
	for _, n := range []corev1.ResourceName{corev1.ResourceCPU, corev1.ResourceMemory, extension.ResourceGPU} {
		if q, ok := p.Spec.Containers[0].Resources.Requests[n]; ok {
			parts = append(parts, string(n)+"="+q.String())
		}
	}
	return fmt.Sprintf("%s{quota=%s node=%q phase=%q req=%s}", p.Name, c19Q(p), p.Spec.NodeName, p.Status.Phase, strings.Join(parts, ","))
}

// ---------------------------------------------------------------- comparison

func c19RLDiff(a, b corev1.ResourceList) string {
	for k, qa := range a {
		qb := b[k]
		if qa.Cmp(qb) != 0 {
			return fmt.Sprintf("%s: %s vs %s", k, qa.String(), qb.String())
		}
	}
	for k, qb := range b {
		qa := a[k]
		if qa.Cmp(qb) != 0 {
			return fmt.Sprintf("%s: %s vs %s", k, qa.String(), qb.String())
		}
	}
	return ""
}

func c19Compare(tree []c19Quota, pods []*corev1.Pod, an string, a *GroupQuotaManager, bn string, b *GroupQuotaManager) (string, string) {
	names := []string{extension.RootQuotaName}
	for _, q := range tree {
		names = append(names, q.Name)
	}
	for _, n := range names {
		qa, qb := a.GetQuotaInfoByName(n), b.GetQuotaInfoByName(n)
		if qa == nil || qb == nil {
			if (qa == nil) != (qb == nil) {
				return "quota-missing", fmt.Sprintf("quota %s present in %s: %v, in %s: %v", n, an, qa != nil, bn, qb != nil)
			}
			continue
		}
		if d := c19RLDiff(qa.GetUsed(), qb.GetUsed()); d != "" {
			return "used-differs", fmt.Sprintf("quota %s used %s (%s vs %s)", n, d, an, bn)
		}
		if d := c19RLDiff(qa.GetNonPreemptibleUsed(), qb.GetNonPreemptibleUsed()); d != "" {
			return "non-preemptible-used-differs", fmt.Sprintf("quota %s non-preemptible used %s (%s vs %s)", n, d, an, bn)
		}
		if d := c19RLDiff(qa.GetRequest(), qb.GetRequest()); d != "" {
			return "request-differs", fmt.Sprintf("quota %s request %s (%s vs %s)", n, d, an, bn)
		}
		if d := c19RLDiff(qa.GetNonPreemptibleRequest(), qb.GetNonPreemptibleRequest()); d != "" {
			return "non-preemptible-request-differs", fmt.Sprintf("quota %s non-preemptible request %s (%s vs %s)", n, d, an, bn)
		}
	}
	for _, p := range pods {
		qa, qb := a.GetQuotaInfoByName(c19Q(p)), b.GetQuotaInfoByName(c19Q(p))
		if qa == nil || qb == nil {
			continue
		}
		if qa.IsPodExist(p) != qb.IsPodExist(p) {
			return "pod-membership-differs", fmt.Sprintf("pod %s known to quota %s in %s: %v, in %s: %v", p.Name, c19Q(p), an, qa.IsPodExist(p), bn, qb.IsPodExist(p))
		}
	}
	return "", ""
}

// ---------------------------------------------------------------- histories, cut anywhere, replayed

type c19Event struct {
	Kind string // add | dup-add | update
	UID  types.UID
}

func TestVerifC19QuotaReplay(t *testing.T) {
	c19Silence()
	rec := vk.New(t, "C19", "quotaReplay")
	rapid.Check(t, func(t *rapid.T) {
		c := rec.Begin()
		defer c.End()
		tree := c19GenTree(t)
		scaleMin := rapid.Bool().Draw(t, "scaleMin")
		live, err := c19NewManager(tree, scaleMin)
		if err != nil {
			t.Fatalf("harness: generated quota tree rejected: %v (%+v)", err, tree)
		}
		var leaves []string
		parentOf := map[string]string{}
		for _, q := range tree {
			parentOf[q.Name] = q.Parent
			if !q.IsParent {
				leaves = append(leaves, q.Name)
			}
		}
		persisted := map[types.UID]*corev1.Pod{} // every pod object the API server holds: pending, bound, finished
		next := 0
		var hist []string
		dead := false
		sawDup, sawPodFinished, sawPending, sawTwoInQuota, sawChild := false, false, false, false, false
		maxBound := 0
		sawDeleted := false

		sorted := func(pred func(*corev1.Pod) bool) []types.UID {
			var out []types.UID
			for u, p := range persisted {
				if pred(p) {
					out = append(out, u)
				}
			}
			sort.Slice(out, func(i, j int) bool { return out[i] < out[j] })
			return out
		}
		bump := func(p *corev1.Pod) { p.ResourceVersion = fmt.Sprint(len(hist) + 2) }

		// the harness' own statement: a quota is charged (used) the requests, over cpu and memory, of the bound,
		// unfinished pods of its subtree
		modelUsed := func() map[string]map[corev1.ResourceName]int64 {
			m := map[string]map[corev1.ResourceName]int64{}
			for _, u := range sorted(func(p *corev1.Pod) bool {
				return p.Spec.NodeName != "" && p.Status.Phase != corev1.PodSucceeded && p.Status.Phase != corev1.PodFailed
			}) {
				p := persisted[u]
				for q := c19Q(p); q != "" && q != extension.RootQuotaName; q = parentOf[q] {
					if m[q] == nil {
						m[q] = map[corev1.ResourceName]int64{}
					}
					for _, n := range []corev1.ResourceName{corev1.ResourceCPU, corev1.ResourceMemory} {
						r := p.Spec.Containers[0].Resources.Requests[n]
						m[q][n] += r.MilliValue()
					}
				}
			}
			return m
		}

		crash := func(t *rapid.T) {
			uids := sorted(func(*corev1.Pod) bool { return true })
			var evs []c19Event
			if len(uids) > 0 {
				for _, u := range rapid.Permutation(uids).Draw(t, "deliveryOrder") {
					evs = append(evs, c19Event{"add", u})
				}
				for i := rapid.IntRange(0, 3).Draw(t, "extraEvents"); i > 0; i-- {
					u := rapid.SampledFrom(uids).Draw(t, "extraUID")
					kind := rapid.SampledFrom([]string{"dup-add", "update"}).Draw(t, "extraKind")
					first := 0
					for j, ev := range evs {
						if ev.UID == u {
							first = j
							break
						}
					}
					pos := rapid.IntRange(first+1, len(evs)).Draw(t, "extraPos")
					evs = append(evs[:pos], append([]c19Event{{kind, u}}, evs[pos:]...)...)
					sawDup = true
				}
			}
			fresh, err := c19NewManager(tree, scaleMin) // quotas are rebuilt before pod events are delivered (startup hook)
			if err != nil {
				t.Fatalf("harness: %v", err)
			}
			for _, ev := range evs {
				p := persisted[ev.UID]
				switch ev.Kind {
				case "add", "dup-add":
					fresh.OnPodAdd(c19Q(p), p.DeepCopy())
				case "update":
					n := p.DeepCopy()
					n.ResourceVersion = "next"
					fresh.OnPodUpdate(c19Q(p), c19Q(p), n, p.DeepCopy())
				}
			}
			bound, perQuota := 0, map[string]int{}
			for _, u := range uids {
				if persisted[u].Spec.NodeName != "" {
					bound++
					perQuota[c19Q(persisted[u])]++
					if parentOf[c19Q(persisted[u])] != extension.RootQuotaName {
						sawChild = true
					}
				}
			}
			for _, n := range perQuota {
				if n >= 2 {
					sawTwoInQuota = true
				}
			}
			if bound > maxBound {
				maxBound = bound
			}
			var pods []*corev1.Pod
			for _, u := range uids {
				pods = append(pods, persisted[u])
			}
			sig, msg := c19Compare(tree, pods, "live", live, "fresh", fresh)
			vsModel := false
			if sig == "" {
				vsModel = true
				want := modelUsed()
				for _, q := range tree {
					got := fresh.GetQuotaInfoByName(q.Name).GetUsed()
					for _, n := range []corev1.ResourceName{corev1.ResourceCPU, corev1.ResourceMemory} {
						g := got[n]
						if g.MilliValue() != want[q.Name][n] {
							sig, msg = "used-differs", fmt.Sprintf("(live and fresh agree) quota %s used %s=%dm, bound unfinished pods of its subtree request %dm", q.Name, n, g.MilliValue(), want[q.Name][n])
						}
					}
				}
			}
			if sig == "" {
				return
			}
			full := "quota-replay:" + sig
			if !vsModel && sig == "used-differs" {
				// which side disagrees with the bound, unfinished pods?
				want := modelUsed()
				freshOK := true
				for _, q := range tree {
					got := fresh.GetQuotaInfoByName(q.Name).GetUsed()
					for _, n := range []corev1.ResourceName{corev1.ResourceCPU, corev1.ResourceMemory} {
						g := got[n]
						if g.MilliValue() != want[q.Name][n] {
							freshOK = false
						}
					}
				}
				if freshOK {
					full += ":live-differs-from-model"
				}
			}
			var objs []string
			for _, p := range pods {
				objs = append(objs, c19PodStr(p))
			}
			if c.Violation(t, full, "%s\nquotas: %+v\nhistory: %s\nreplay events: %v\npersisted: %s", msg, tree, strings.Join(hist, "\n  "), evs, strings.Join(objs, " ")) {
				dead = true
			}
		}

		create := func(t *rapid.T) {
			if dead {
				return
			}
			p := c19GenPod(t, next, leaves)
			next++
			live.OnPodAdd(c19Q(p), p.DeepCopy())
			persisted[p.UID] = p
			sawPending = true
			hist = append(hist, "create "+c19PodStr(p))
		}
		schedule := func(t *rapid.T) {
			if dead {
				return
			}
			uids := sorted(func(p *corev1.Pod) bool { return p.Spec.NodeName == "" })
			if len(uids) == 0 {
				t.Skip("nothing pending")
			}
			u := rapid.SampledFrom(uids).Draw(t, "uid")
			p := persisted[u]
			live.ReservePod(c19Q(p), p.DeepCopy())
			if rapid.IntRange(0, 7).Draw(t, "bindFails") == 0 {
				live.UnreservePod(c19Q(p), p.DeepCopy())
				hist = append(hist, fmt.Sprintf("schedule %s: reserved, bind failed, unreserved", p.Name))
				return
			}
			b := p.DeepCopy()
			b.Spec.NodeName = "n"
			bump(b)
			selfEvent := rapid.Bool().Draw(t, "liveSeesOwnBindEvent")
			if selfEvent {
				live.OnPodUpdate(c19Q(b), c19Q(p), b.DeepCopy(), p.DeepCopy())
			}
			persisted[u] = b
			hist = append(hist, fmt.Sprintf("schedule %s: bound selfEvent=%v", p.Name, selfEvent))
		}
		t.Repeat(map[string]func(*rapid.T){
			"create":    create,
			"create2":   create,
			"schedule":  schedule,
			"schedule2": schedule,
			"delete": func(t *rapid.T) {
				if dead {
					return
				}
				uids := sorted(func(*corev1.Pod) bool { return true })
				if len(uids) == 0 {
					t.Skip("no pod")
				}
				u := rapid.SampledFrom(uids).Draw(t, "uid")
				live.OnPodDelete(c19Q(persisted[u]), persisted[u].DeepCopy())
				sawDeleted = true
				hist = append(hist, "delete "+persisted[u].Name)
				delete(persisted, u)
			},
			// A pod that finishes (phase Succeeded/Failed) leaves the scheduler's pod informer, which carries the field
			// selector status.phase!=Succeeded,status.phase!=Failed (scheduler.NewInformerFactory): the plugin gets a
			// DELETE and a restarted scheduler never sees the object.
			"finish": func(t *rapid.T) {
				if dead {
					return
				}
				uids := sorted(func(p *corev1.Pod) bool { return p.Spec.NodeName != "" })
				if len(uids) == 0 {
					t.Skip("nothing running")
				}
				u := rapid.SampledFrom(uids).Draw(t, "uid")
				phase := rapid.SampledFrom([]corev1.PodPhase{corev1.PodSucceeded, corev1.PodFailed}).Draw(t, "phase")
				live.OnPodDelete(c19Q(persisted[u]), persisted[u].DeepCopy())
				hist = append(hist, fmt.Sprintf("finish %s (%s): delivered as delete, object leaves the informer", persisted[u].Name, phase))
				delete(persisted, u)
				sawPodFinished = true
			},
			"touch": func(t *rapid.T) {
				if dead {
					return
				}
				uids := sorted(func(*corev1.Pod) bool { return true })
				if len(uids) == 0 {
					t.Skip("no pod")
				}
				u := rapid.SampledFrom(uids).Draw(t, "uid")
				old := persisted[u]
				n := old.DeepCopy()
				n.Labels["touched"] = fmt.Sprint(len(hist))
				bump(n)
				live.OnPodUpdate(c19Q(n), c19Q(old), n.DeepCopy(), old.DeepCopy())
				persisted[u] = n
				hist = append(hist, "touch "+n.Name)
			},
			"": func(t *rapid.T) {
				if dead {
					return
				}
				crash(t)
			},
		})
		c.ClassIf(sawDup, "duplicate-or-noop-event")
		c.ClassIf(sawPodFinished, "pod-finished(delivered-as-delete)")
		c.ClassIf(sawDeleted, "pod-deleted")
		c.ClassIf(sawPending, "pending-pod-persisted")
		c.ClassIf(sawTwoInQuota, "two-bound-pods-in-one-quota")
		c.ClassIf(sawChild, "bound-pod-in-child-quota")
		c.ClassIf(maxBound >= 2, "crash-with>=2-bound-pods")
		c.ClassIf(maxBound == 0, "never-any-bound-pod")
		if maxBound >= 2 && sawDup && sawTwoInQuota {
			c.NonTrivial(fmt.Sprint(tree), hist)
		}
		c.Sample(map[string]any{"quotas": fmt.Sprint(tree), "history": hist})
	})
}
