//go:build verif

// C19 (unit 5, elasticquota/core; deliberately small, C01 owns quota accounting) — a fresh GroupQuotaManager fed the
// quota objects and the pods the API server holds (bound pods take the fail-over branch of OnPodAdd) reports the same
// used / request per quota as the manager that lived through the history.
// See /verif/DESIGN.md §1 C19. In-package harness (injected with -overlay).
package core

import (
	"fmt"
	"io"
	"sort"
	"strings"
	"sync"
	"testing"
	"time"

	corev1 "k8s.io/api/core/v1"
	"k8s.io/apimachinery/pkg/api/resource"
	metav1 "k8s.io/apimachinery/pkg/apis/meta/v1"
	"k8s.io/apimachinery/pkg/types"
	"k8s.io/klog/v2"
	"pgregory.net/rapid"

	"github.com/koordinator-sh/koordinator/apis/extension"
	"github.com/koordinator-sh/koordinator/apis/thirdparty/scheduler-plugins/pkg/apis/scheduling/v1alpha1"
	"github.com/koordinator-sh/koordinator/pkg/verifkit/vk"
)

var c19Quiet sync.Once

func c19Silence() {
	c19Quiet.Do(func() {
		klog.LogToStderr(false)
		klog.SetOutput(io.Discard)
	})
}

// ---------------------------------------------------------------- quota tree (webhook-valid: child max <= parent max, sum of child min <= parent min)

type c19Quota struct {
	Name, Parent   string
	IsParent       bool
	MaxCPU, MaxMem int64 // cores, GiB
	MinCPU, MinMem int64
}

func (q c19Quota) object() *v1alpha1.ElasticQuota {
	rl := func(cpu, mem int64) corev1.ResourceList {
		return corev1.ResourceList{corev1.ResourceCPU: *resource.NewQuantity(cpu, resource.DecimalSI), corev1.ResourceMemory: *resource.NewQuantity(mem<<30, resource.BinarySI)}
	}
	eq := &v1alpha1.ElasticQuota{ObjectMeta: metav1.ObjectMeta{Name: q.Name, Namespace: "default", Labels: map[string]string{}, Annotations: map[string]string{}}}
	eq.Spec.Max, eq.Spec.Min = rl(q.MaxCPU, q.MaxMem), rl(q.MinCPU, q.MinMem)
	eq.Labels[extension.LabelQuotaParent] = q.Parent
	eq.Labels[extension.LabelQuotaIsParent] = fmt.Sprint(q.IsParent)
	eq.Labels[extension.LabelAllowLentResource] = "true"
	eq.Annotations[extension.AnnotationSharedWeight] = fmt.Sprintf("{\"cpu\":%v, \"memory\":\"%vGi\"}", q.MaxCPU, q.MaxMem)
	return eq
}

func c19GenTree(t *rapid.T) []c19Quota {
	var out []c19Quota
	nTop := rapid.IntRange(1, 3).Draw(t, "topLevel")
	for i := 0; i < nTop; i++ {
		top := c19Quota{Name: fmt.Sprintf("q%d", i), Parent: extension.RootQuotaName}
		top.MaxCPU = rapid.Int64Range(2, 64).Draw(t, "maxCPU")
		top.MaxMem = rapid.Int64Range(2, 256).Draw(t, "maxMem")
		top.MinCPU = rapid.Int64Range(0, top.MaxCPU).Draw(t, "minCPU")
		top.MinMem = rapid.Int64Range(0, top.MaxMem).Draw(t, "minMem")
		nKids := rapid.SampledFrom([]int{0, 0, 1, 2}).Draw(t, "children")
		top.IsParent = nKids > 0
		out = append(out, top)
		restCPU, restMem := top.MinCPU, top.MinMem
		for k := 0; k < nKids; k++ {
			kid := c19Quota{Name: fmt.Sprintf("q%d-%d", i, k), Parent: top.Name}
			kid.MaxCPU = rapid.Int64Range(1, top.MaxCPU).Draw(t, "kidMaxCPU")
			kid.MaxMem = rapid.Int64Range(1, top.MaxMem).Draw(t, "kidMaxMem")
			kid.MinCPU = rapid.Int64Range(0, c19Min(restCPU, kid.MaxCPU)).Draw(t, "kidMinCPU")
			kid.MinMem = rapid.Int64Range(0, c19Min(restMem, kid.MaxMem)).Draw(t, "kidMinMem")
			restCPU -= kid.MinCPU
			restMem -= kid.MinMem
			out = append(out, kid)
		}
	}
	return out
}

func c19Min(a, b int64) int64 {
	if a < b {
		return a
	}
	return b
}

func c19NewManager(tree []c19Quota, scaleMin bool) (*GroupQuotaManager, error) {
	big := corev1.ResourceList{corev1.ResourceCPU: *resource.NewQuantity(1<<20, resource.DecimalSI), corev1.ResourceMemory: *resource.NewQuantity(1<<50, resource.BinarySI)}
	gqm := NewGroupQuotaManager("", scaleMin, big, big)
	gqm.UpdateClusterTotalResource(corev1.ResourceList{corev1.ResourceCPU: *resource.NewQuantity(128, resource.DecimalSI), corev1.ResourceMemory: *resource.NewQuantity(512<<30, resource.BinarySI)})
	for _, q := range tree { // parents precede their children in the slice
		if err := gqm.UpdateQuota(q.object()); err != nil {
			return nil, err
		}
	}
	return gqm, nil
}

// c19Route is the plugin's routing (getPodAssociateQuotaNameAndTreeID): a pod labelled with a quota the scheduler does
// not know (yet) is handled by the default quota.
func c19Route(m *GroupQuotaManager, p *corev1.Pod) string {
	if q := c19Q(p); q != "" && m.GetQuotaInfoByName(q) != nil {
		return q
	}
	return extension.DefaultQuotaName
}

// c19Holder names the quota whose pod cache holds the pod ("" if none).
func c19Holder(m *GroupQuotaManager, p *corev1.Pod) string {
	for _, n := range []string{c19Q(p), extension.DefaultQuotaName} {
		if qi := m.GetQuotaInfoByName(n); qi != nil && qi.IsPodExist(p) {
			return n
		}
	}
	return ""
}

// c19Migrate is plugin.migrateDefaultQuotaGroupsPod (run at the end of plugin New and then every second): every pod
// parked in the default quota whose own quota exists by now is moved there with MigratePod.
func c19Migrate(m *GroupQuotaManager) int {
	cache := m.GetQuotaInfoByName(extension.DefaultQuotaName).GetPodCache()
	n := 0
	for _, k := range vk.SortedKeys(cache) {
		pod := cache[k]
		q := c19Q(pod)
		if q == "" || q == extension.DefaultQuotaName || m.GetQuotaInfoByName(q) == nil {
			continue
		}
		m.MigratePod(pod, extension.DefaultQuotaName, q)
		n++
	}
	return n
}

// ---------------------------------------------------------------- pods

func c19GenPod(t *rapid.T, idx int, leaves []string) *corev1.Pod {
	pod := &corev1.Pod{}
	pod.Name = fmt.Sprintf("p%d", idx)
	pod.Namespace = "default"
	pod.UID = types.UID(fmt.Sprintf("uid-p%d", idx))
	pod.ResourceVersion = "1"
	pod.Labels = map[string]string{extension.LabelQuotaName: rapid.SampledFrom(leaves).Draw(t, "quota")}
	if rapid.IntRange(0, 4).Draw(t, "nonPreemptible") == 0 {
		pod.Labels[extension.LabelPreemptible] = "false"
	}
	req := corev1.ResourceList{}
	if v := rapid.SampledFrom([]int64{0, 100, 500, 1000, 1500, 4000, 70000}).Draw(t, "cpu"); v > 0 {
		req[corev1.ResourceCPU] = *resource.NewMilliQuantity(v, resource.DecimalSI)
	}
	if v := rapid.SampledFrom([]int64{0, 1 << 20, 1 << 30, 3 << 29, 300 << 30}).Draw(t, "mem"); v > 0 {
		req[corev1.ResourceMemory] = *resource.NewQuantity(v, resource.BinarySI)
	}
	if rapid.IntRange(0, 4).Draw(t, "gpu") == 0 {
		req[extension.ResourceGPU] = *resource.NewQuantity(100, resource.DecimalSI) // not a dimension of any quota: masked
	}
	pod.Spec.Containers = []corev1.Container{{Name: "c", Resources: corev1.ResourceRequirements{Requests: req, Limits: req.DeepCopy()}}}
	return pod
}

func c19Q(p *corev1.Pod) string { return p.Labels[extension.LabelQuotaName] }

func c19PodStr(p *corev1.Pod) string {
	var parts []string
	for _, n := range []corev1.ResourceName{corev1.ResourceCPU, corev1.ResourceMemory, extension.ResourceGPU} {
		if q, ok := p.Spec.Containers[0].Resources.Requests[n]; ok {
			parts = append(parts, string(n)+"="+q.String())
		}
	}
	return fmt.Sprintf("%s{quota=%s node=%q terminating=%v req=%s}", p.Name, c19Q(p), p.Spec.NodeName, p.DeletionTimestamp != nil, strings.Join(parts, ","))
}

// ---------------------------------------------------------------- comparison

func c19RLDiff(a, b corev1.ResourceList) string {
	for k, qa := range a {
		qb := b[k]
		if qa.Cmp(qb) != 0 {
			return fmt.Sprintf("%s: %s vs %s", k, qa.String(), qb.String())
		}
	}
	for k, qb := range b {
		qa := a[k]
		if qa.Cmp(qb) != 0 {
			return fmt.Sprintf("%s: %s vs %s", k, qa.String(), qb.String())
		}
	}
	return ""
}

func c19Compare(tree []c19Quota, pods []*corev1.Pod, an string, a *GroupQuotaManager, bn string, b *GroupQuotaManager) (string, string) {
	names := []string{extension.RootQuotaName, extension.DefaultQuotaName}
	for _, q := range tree {
		names = append(names, q.Name)
	}
	for _, n := range names {
		qa, qb := a.GetQuotaInfoByName(n), b.GetQuotaInfoByName(n)
		if qa == nil || qb == nil {
			if (qa == nil) != (qb == nil) {
				return "quota-missing", fmt.Sprintf("quota %s present in %s: %v, in %s: %v", n, an, qa != nil, bn, qb != nil)
			}
			continue
		}
		if d := c19RLDiff(qa.GetUsed(), qb.GetUsed()); d != "" {
			return "used-differs", fmt.Sprintf("quota %s used %s (%s vs %s)", n, d, an, bn)
		}
		if d := c19RLDiff(qa.GetNonPreemptibleUsed(), qb.GetNonPreemptibleUsed()); d != "" {
			return "non-preemptible-used-differs", fmt.Sprintf("quota %s non-preemptible used %s (%s vs %s)", n, d, an, bn)
		}
		if d := c19RLDiff(qa.GetRequest(), qb.GetRequest()); d != "" {
			return "request-differs", fmt.Sprintf("quota %s request %s (%s vs %s)", n, d, an, bn)
		}
		if d := c19RLDiff(qa.GetNonPreemptibleRequest(), qb.GetNonPreemptibleRequest()); d != "" {
			return "non-preemptible-request-differs", fmt.Sprintf("quota %s non-preemptible request %s (%s vs %s)", n, d, an, bn)
		}
	}
	for _, p := range pods {
		if ha, hb := c19Holder(a, p), c19Holder(b, p); ha != hb {
			return "pod-membership-differs", fmt.Sprintf("pod %s is held by quota %q in %s and by %q in %s", c19PodStr(p), ha, an, hb, bn)
		}
	}
	return "", ""
}

// ---------------------------------------------------------------- histories, cut anywhere, replayed

type c19Event struct {
	// add | dup-add | update | add-unbound (first seen pending) | bind-update (pending -> bound, follows an add-unbound)
	Kind string
	UID  types.UID
}

func c19Unbound(p *corev1.Pod) *corev1.Pod {
	n := p.DeepCopy()
	n.Spec.NodeName = ""
	n.ResourceVersion = "0"
	return n
}

// c19ReplayPods feeds pod events to a manager the way the plugin's pod handlers do (routing by the quotas it knows).
func c19ReplayPods(m *GroupQuotaManager, objs map[types.UID]*corev1.Pod, evs []c19Event) {
	for _, ev := range evs {
		p := objs[ev.UID]
		switch ev.Kind {
		case "add", "dup-add":
			m.OnPodAdd(c19Route(m, p), p.DeepCopy())
		case "add-unbound":
			u := c19Unbound(p)
			m.OnPodAdd(c19Route(m, u), u)
		case "bind-update":
			u := c19Unbound(p)
			m.OnPodUpdate(c19Route(m, p), c19Route(m, u), p.DeepCopy(), u)
		case "update":
			n := p.DeepCopy()
			n.ResourceVersion = "next"
			m.OnPodUpdate(c19Route(m, n), c19Route(m, p), n, p.DeepCopy())
		}
	}
}

func c19GenPodEvents(t *rapid.T, objs map[types.UID]*corev1.Pod, uids []types.UID) (evs []c19Event, dup, early bool) {
	if len(uids) == 0 {
		return nil, false, false
	}
	for _, u := range rapid.Permutation(uids).Draw(t, "deliveryOrder") {
		evs = append(evs, c19Event{"add", u})
	}
	for i := rapid.IntRange(0, 3).Draw(t, "extraEvents"); i > 0; i-- {
		u := rapid.SampledFrom(uids).Draw(t, "extraUID")
		kind := rapid.SampledFrom([]string{"dup-add", "update"}).Draw(t, "extraKind")
		first := 0
		for j, ev := range evs {
			if ev.UID == u {
				first = j
				break
			}
		}
		pos := rapid.IntRange(first+1, len(evs)).Draw(t, "extraPos")
		evs = append(evs[:pos], append([]c19Event{{kind, u}}, evs[pos:]...)...)
		dup = true
	}
	// a bound pod may have been seen first while it was still pending: Add(pending), then the update to the bound pod
	for _, u := range uids {
		if objs[u].Spec.NodeName == "" || rapid.IntRange(0, 3).Draw(t, "seenBeforeBind") != 0 {
			continue
		}
		first, nextOfU := -1, len(evs)
		for j, ev := range evs {
			if ev.UID != u {
				continue
			}
			if first < 0 {
				first = j
			} else {
				nextOfU = j
				break
			}
		}
		evs[first].Kind = "add-unbound"
		pos := rapid.IntRange(first+1, nextOfU).Draw(t, "bindUpdatePos")
		evs = append(evs[:pos], append([]c19Event{{"bind-update", u}}, evs[pos:]...)...)
		early = true
	}
	return evs, dup, early
}

func TestVerifC19QuotaReplay(t *testing.T) {
	c19Silence()
	rec := vk.New(t, "C19", "quotaReplay")
	rapid.Check(t, func(t *rapid.T) {
		c := rec.Begin()
		defer c.End()
		tree := c19GenTree(t)
		scaleMin := rapid.Bool().Draw(t, "scaleMin")
		// some quotas are created only later in the history (pods labelled with them exist before: they are parked in
		// the default quota and moved by the periodic migration once the quota is there); never a parent before its child
		exists := map[string]bool{}
		var leaves, lateNames []string
		parentOf := map[string]string{}
		for _, q := range tree {
			parentOf[q.Name] = q.Parent
			exists[q.Name] = true
			if !q.IsParent {
				leaves = append(leaves, q.Name)
				if rapid.IntRange(0, 2).Draw(t, "createdLater") == 0 {
					exists[q.Name] = false
					lateNames = append(lateNames, q.Name)
				}
			}
		}
		current := func() []c19Quota {
			var out []c19Quota
			for _, q := range tree {
				if exists[q.Name] {
					out = append(out, q)
				}
			}
			return out
		}
		live, err := c19NewManager(current(), scaleMin)
		if err != nil {
			t.Fatalf("harness: generated quota tree rejected: %v (%+v)", err, tree)
		}
		persisted := map[types.UID]*corev1.Pod{} // every pod object the (phase-filtered) pod informer would list: pending, bound
		next := 0
		var hist []string
		dead := false
		sawDup, sawPodFinished, sawPending, sawTwoInQuota, sawChild, sawEarly, sawParked, sawParkedBound, sawMigrated, sawContinuation := false, false, false, false, false, false, false, false, false, false
		maxBound := 0
		sawDeleted, sawTerminating := false, false

		sorted := func(pred func(*corev1.Pod) bool) []types.UID {
			var out []types.UID
			for u, p := range persisted {
				if pred(p) {
					out = append(out, u)
				}
			}
			sort.Slice(out, func(i, j int) bool { return out[i] < out[j] })
			return out
		}
		bump := func(p *corev1.Pod) { p.ResourceVersion = fmt.Sprint(len(hist) + 2) }

		// the harness' own statement: a quota is charged (used) the requests, over cpu and memory, of the bound pods
		// labelled with a quota of its subtree; bound pods whose quota does not exist are charged to the default quota
		modelUsed := func() map[string]map[corev1.ResourceName]int64 {
			m := map[string]map[corev1.ResourceName]int64{}
			add := func(q string, p *corev1.Pod) {
				if m[q] == nil {
					m[q] = map[corev1.ResourceName]int64{}
				}
				for _, n := range []corev1.ResourceName{corev1.ResourceCPU, corev1.ResourceMemory} {
					r := p.Spec.Containers[0].Resources.Requests[n]
					m[q][n] += r.MilliValue()
				}
			}
			for _, u := range sorted(func(p *corev1.Pod) bool { return p.Spec.NodeName != "" }) {
				p := persisted[u]
				if !exists[c19Q(p)] {
					add(extension.DefaultQuotaName, p)
					continue
				}
				for q := c19Q(p); q != "" && q != extension.RootQuotaName; q = parentOf[q] {
					add(q, p)
				}
			}
			return m
		}
		modelCheck := func(m *GroupQuotaManager) string {
			want := modelUsed()
			names := []string{extension.DefaultQuotaName}
			for _, q := range current() {
				names = append(names, q.Name)
			}
			for _, q := range names {
				got := m.GetQuotaInfoByName(q).GetUsed()
				for _, n := range []corev1.ResourceName{corev1.ResourceCPU, corev1.ResourceMemory} {
					g := got[n]
					if g.MilliValue() != want[q][n] {
						return fmt.Sprintf("quota %s used %s=%dm, the bound pods charged to it request %dm", q, n, g.MilliValue(), want[q][n])
					}
				}
			}
			return ""
		}
		// compare the live manager, a rebuilt one and the model; returns true if the case was abandoned
		verdict := func(t *rapid.T, where string, fresh *GroupQuotaManager, evs []c19Event) {
			var pods []*corev1.Pod
			var objs []string
			for _, u := range sorted(func(*corev1.Pod) bool { return true }) {
				pods = append(pods, persisted[u])
				objs = append(objs, c19PodStr(persisted[u]))
			}
			sig, msg := c19Compare(current(), pods, "live", live, "fresh", fresh)
			full := "quota-replay:" + sig
			if sig == "" {
				if d := modelCheck(fresh); d != "" {
					full, msg = "quota-replay:used-differs", "(live and fresh agree) rebuilt "+d
				} else {
					return
				}
			} else if sig == "used-differs" && modelCheck(fresh) == "" {
				full += ":live-differs-from-model"
			}
			if c.Violation(t, full, "%s: %s\nquotas: %+v (existing: %v)\nhistory: %s\nreplay events: %v\npersisted: %s", where, msg, tree, exists, strings.Join(hist, "\n  "), evs, strings.Join(objs, " ")) {
				dead = true
			}
		}
		rebuild := func(t *rapid.T) (*GroupQuotaManager, []c19Event) {
			uids := sorted(func(*corev1.Pod) bool { return true })
			evs, dup, early := c19GenPodEvents(t, persisted, uids)
			sawDup = sawDup || dup
			sawEarly = sawEarly || early
			// the quota informer is synced and the managers are rebuilt (ReplaceQuotas hook) before the main informers
			// start (cmd/koord-scheduler/app/server.go steps 1-3): the quotas that exist are known before any pod event
			fresh, err := c19NewManager(current(), scaleMin)
			if err != nil {
				t.Fatalf("harness: %v", err)
			}
			c19ReplayPods(fresh, persisted, evs)
			return fresh, evs
		}

		crash := func(t *rapid.T) {
			if c19Migrate(live) > 0 { // the migration ticks every second
				sawMigrated = true
			}
			fresh, evs := rebuild(t)
			c19Migrate(fresh) // plugin New ends with it, and it ticks
			bound, perQuota := 0, map[string]int{}
			for _, u := range sorted(func(p *corev1.Pod) bool { return p.Spec.NodeName != "" }) {
				bound++
				perQuota[c19Q(persisted[u])]++
				if parentOf[c19Q(persisted[u])] != extension.RootQuotaName {
					sawChild = true
				}
			}
			for _, n := range perQuota {
				if n >= 2 {
					sawTwoInQuota = true
				}
			}
			if bound > maxBound {
				maxBound = bound
			}
			verdict(t, "crash point", fresh, evs)
		}

		create := func(t *rapid.T) {
			if dead {
				return
			}
			p := c19GenPod(t, next, leaves)
			next++
			live.OnPodAdd(c19Route(live, p), p.DeepCopy())
			persisted[p.UID] = p
			sawPending = true
			if !exists[c19Q(p)] {
				sawParked = true
			}
			hist = append(hist, "create "+c19PodStr(p))
		}
		schedule := func(t *rapid.T) {
			if dead {
				return
			}
			uids := sorted(func(p *corev1.Pod) bool { return p.Spec.NodeName == "" })
			if len(uids) == 0 {
				t.Skip("nothing pending")
			}
			u := rapid.SampledFrom(uids).Draw(t, "uid")
			p := persisted[u]
			live.ReservePod(c19Route(live, p), p.DeepCopy())
			if rapid.IntRange(0, 7).Draw(t, "bindFails") == 0 {
				live.UnreservePod(c19Route(live, p), p.DeepCopy())
				hist = append(hist, fmt.Sprintf("schedule %s: reserved, bind failed, unreserved", p.Name))
				return
			}
			b := p.DeepCopy()
			b.Spec.NodeName = "n"
			bump(b)
			selfEvent := rapid.Bool().Draw(t, "liveSeesOwnBindEvent")
			if selfEvent {
				live.OnPodUpdate(c19Route(live, b), c19Route(live, p), b.DeepCopy(), p.DeepCopy())
			}
			persisted[u] = b
			if !exists[c19Q(b)] {
				sawParkedBound = true
			}
			hist = append(hist, fmt.Sprintf("schedule %s: bound selfEvent=%v", p.Name, selfEvent))
		}
		t.Repeat(map[string]func(*rapid.T){
			"create":    create,
			"create2":   create,
			"schedule":  schedule,
			"schedule2": schedule,
			// A quota that pods already refer to is created. Checked as a restart just BEFORE the creation: the restarted
			// scheduler rebuilds from the pods (parked in the default quota, bound ones through the fail-over branch),
			// then both schedulers get the quota add event and the migration tick.
			"createQuota": func(t *rapid.T) {
				if dead {
					return
				}
				var pending []string
				for _, n := range lateNames {
					if !exists[n] {
						pending = append(pending, n)
					}
				}
				if len(pending) == 0 {
					t.Skip("no quota left to create")
				}
				name := rapid.SampledFrom(pending).Draw(t, "quota")
				var q c19Quota
				for _, x := range tree {
					if x.Name == name {
						q = x
					}
				}
				c19Migrate(live)
				fresh, evs := rebuild(t) // restart before the quota exists
				c19Migrate(fresh)
				exists[name] = true
				for _, m := range []*GroupQuotaManager{live, fresh} {
					if err := m.UpdateQuota(q.object()); err != nil {
						t.Fatalf("harness: quota %s rejected: %v", name, err)
					}
				}
				hist = append(hist, "create quota "+name)
				if rapid.IntRange(0, 3).Draw(t, "eventsBeforeMigrationTick") == 0 && len(persisted) > 0 {
					// pod events can arrive while the pod is still parked although its quota exists now
					u := rapid.SampledFrom(sorted(func(*corev1.Pod) bool { return true })).Draw(t, "touchedWhileParked")
					old := persisted[u]
					n := old.DeepCopy()
					n.Labels["touched"] = fmt.Sprint(len(hist))
					bump(n)
					for _, m := range []*GroupQuotaManager{live, fresh} {
						m.OnPodUpdate(c19Route(m, n), c19Route(m, old), n.DeepCopy(), old.DeepCopy())
					}
					persisted[u] = n
					hist = append(hist, "touch "+n.Name+" (before the migration tick)")
				}
				if c19Migrate(live) > 0 {
					sawMigrated = true
				}
				c19Migrate(fresh)
				sawContinuation = true
				verdict(t, "restart right before quota "+name+" was created, then quota add + migration on both", fresh, evs)
			},
			"delete": func(t *rapid.T) {
				if dead {
					return
				}
				uids := sorted(func(*corev1.Pod) bool { return true })
				if len(uids) == 0 {
					t.Skip("no pod")
				}
				u := rapid.SampledFrom(uids).Draw(t, "uid")
				live.OnPodDelete(c19Route(live, persisted[u]), persisted[u].DeepCopy())
				sawDeleted = true
				hist = append(hist, "delete "+persisted[u].Name)
				delete(persisted, u)
			},
			// A pod that finishes (phase Succeeded/Failed) leaves the scheduler's pod informer, which carries the field
			// selector status.phase!=Succeeded,status.phase!=Failed (scheduler.NewInformerFactory): the plugin gets a
			// DELETE and a restarted scheduler never sees the object.
			"finish": func(t *rapid.T) {
				if dead {
					return
				}
				uids := sorted(func(p *corev1.Pod) bool { return p.Spec.NodeName != "" })
				if len(uids) == 0 {
					t.Skip("nothing running")
				}
				u := rapid.SampledFrom(uids).Draw(t, "uid")
				phase := rapid.SampledFrom([]corev1.PodPhase{corev1.PodSucceeded, corev1.PodFailed}).Draw(t, "phase")
				live.OnPodDelete(c19Route(live, persisted[u]), persisted[u].DeepCopy())
				hist = append(hist, fmt.Sprintf("finish %s (%s): delivered as delete, object leaves the informer", persisted[u].Name, phase))
				delete(persisted, u)
				sawPodFinished = true
			},
			// A bound pod is deleted gracefully: it gets a deletionTimestamp and keeps running (phase unchanged) until the
			// kubelet is done, so it stays in the informer and keeps its share (default feature gates).
			"gracefulDelete": func(t *rapid.T) {
				if dead {
					return
				}
				uids := sorted(func(p *corev1.Pod) bool { return p.Spec.NodeName != "" && p.DeletionTimestamp == nil })
				if len(uids) == 0 {
					t.Skip("nothing running")
				}
				u := rapid.SampledFrom(uids).Draw(t, "uid")
				old := persisted[u]
				n := old.DeepCopy()
				ts := metav1.NewTime(time.Unix(1700000000, 0).UTC()) // fixed stamp, nothing reads the wall clock
				n.DeletionTimestamp = &ts
				bump(n)
				live.OnPodUpdate(c19Route(live, n), c19Route(live, old), n.DeepCopy(), old.DeepCopy())
				persisted[u] = n
				sawTerminating = true
				hist = append(hist, "graceful delete of "+n.Name+": terminating, still bound")
			},
			"touch": func(t *rapid.T) {
				if dead {
					return
				}
				uids := sorted(func(*corev1.Pod) bool { return true })
				if len(uids) == 0 {
					t.Skip("no pod")
				}
				u := rapid.SampledFrom(uids).Draw(t, "uid")
				old := persisted[u]
				n := old.DeepCopy()
				n.Labels["touched"] = fmt.Sprint(len(hist))
				bump(n)
				live.OnPodUpdate(c19Route(live, n), c19Route(live, old), n.DeepCopy(), old.DeepCopy())
				persisted[u] = n
				hist = append(hist, "touch "+n.Name)
			},
			"": func(t *rapid.T) {
				if dead {
					return
				}
				crash(t)
			},
		})
		c.ClassIf(sawDup, "duplicate-or-noop-event")
		c.ClassIf(sawPodFinished, "pod-finished(delivered-as-delete)")
		c.ClassIf(sawDeleted, "pod-deleted")
		c.ClassIf(sawTerminating, "bound-pod-terminating(deletionTimestamp)-persisted")
		c.ClassIf(sawPending, "pending-pod-persisted")
		c.ClassIf(sawTwoInQuota, "two-bound-pods-in-one-quota")
		c.ClassIf(sawChild, "bound-pod-in-child-quota")
		c.ClassIf(sawEarly, "replay:add-pending-then-bind-update")
		c.ClassIf(sawParked, "pod-created-before-its-quota(parked-in-default)")
		c.ClassIf(sawParkedBound, "pod-bound-while-parked")
		c.ClassIf(sawMigrated, "live-migrated-parked-pods")
		c.ClassIf(sawContinuation, "restart-before-quota-creation+migration")
		c.ClassIf(maxBound >= 2, "crash-with>=2-bound-pods")
		c.ClassIf(maxBound == 0, "never-any-bound-pod")
		if maxBound >= 2 && sawDup && sawTwoInQuota {
			c.NonTrivial(fmt.Sprint(tree), hist)
		}
		c.Sample(map[string]any{"quotas": fmt.Sprint(tree), "history": hist})
	})
}
