//go:build verif

// C03 — Quota admission never lets usage pass the quota's limit.
// See /verif/DESIGN.md §1 C03. In-package harness (injected with -overlay).
//
// Closed loop: pod add -> PreFilter -> Reserve -> (bind | Unreserve) -> delete, interleaved with quota updates and
// cluster-capacity changes, over webhook-valid quota trees, once per combination of EnableRuntimeQuota x
// EnableCheckParentQuota. Every PreFilter verdict is re-derived from a reference model of "who is assigned where"
// (usage is NOT read back from the code under test) plus the limit the plugin publishes (runtime after a refresh,
// or the model's max), and after every step no quota whose max was never lowered may show used above max.
package elasticquota

import (
	"context"
	"encoding/json"
	"flag"
	"fmt"
	"io"
	"math"
	"sort"
	"strings"
	"testing"

	corev1 "k8s.io/api/core/v1"
	"k8s.io/apimachinery/pkg/api/resource"
	metav1 "k8s.io/apimachinery/pkg/apis/meta/v1"
	"k8s.io/apimachinery/pkg/types"
	"k8s.io/klog/v2"
	fwktype "k8s.io/kube-scheduler/framework"
	"k8s.io/kubernetes/pkg/scheduler/framework"
	"pgregory.net/rapid"

	"github.com/koordinator-sh/koordinator/apis/extension"
	"github.com/koordinator-sh/koordinator/apis/thirdparty/scheduler-plugins/pkg/apis/scheduling/v1alpha1"
	"github.com/koordinator-sh/koordinator/pkg/scheduler/plugins/elasticquota/core"
	"github.com/koordinator-sh/koordinator/pkg/verifkit/vk"
)

// ---------------------------------------------------------------- units

const c03GPU = corev1.ResourceName("example.com/gpu")

// c03Inf stands for "no effective bound" (the shipped default max of the default/system quota, MaxInt64/5 cores).
const c03Inf = int64(math.MaxInt64)

var c03Universe = []corev1.ResourceName{corev1.ResourceCPU, c03GPU, corev1.ResourceMemory} // sorted

type c03Res map[corev1.ResourceName]int64

// the harness counts cpu in milli-cores and everything else in whole units (all generated quantities are integral
// in these units, so no rounding is involved anywhere)
func c03Val(q resource.Quantity, rn corev1.ResourceName) int64 {
	if rn == corev1.ResourceCPU {
		return q.MilliValue()
	}
	return q.Value()
}

func c03Qty(v int64, rn corev1.ResourceName) resource.Quantity {
	switch rn {
	case corev1.ResourceCPU:
		return *resource.NewMilliQuantity(v, resource.DecimalSI)
	case corev1.ResourceMemory:
		return *resource.NewQuantity(v, resource.BinarySI)
	}
	return *resource.NewQuantity(v, resource.DecimalSI)
}

// c03List renders the given dimensions (all of them, zeros included: a quota declares a dimension by listing it)
func c03List(m c03Res, dims []corev1.ResourceName) corev1.ResourceList {
	rl := corev1.ResourceList{}
	for _, d := range dims {
		rl[d] = c03Qty(m[d], d)
	}
	return rl
}

func c03Str(m c03Res) string {
	ks := make([]string, 0, len(m))
	for k := range m {
		ks = append(ks, string(k))
	}
	sort.Strings(ks)
	var b strings.Builder
	b.WriteString("{")
	for i, k := range ks {
		if i > 0 {
			b.WriteString(" ")
		}
		v := m[corev1.ResourceName(k)]
		short := k
		if k == string(c03GPU) {
			short = "gpu"
		}
		if v == c03Inf {
			fmt.Fprintf(&b, "%s:inf", short)
		} else {
			fmt.Fprintf(&b, "%s:%d", short, v)
		}
	}
	b.WriteString("}")
	return b.String()
}

func c03FromList(rl corev1.ResourceList) c03Res {
	m := c03Res{}
	for k, q := range rl {
		m[k] = c03Val(q, k)
	}
	return m
}

func c03Grid(d corev1.ResourceName) int64 {
	if d == corev1.ResourceCPU {
		return 250
	}
	return 1
}

// amount in [0,hi] on the dimension's grid; rapid favours small values and the two ends (requests, minima)
func c03Amount(t *rapid.T, d corev1.ResourceName, hi int64, label string) int64 {
	g := c03Grid(d)
	n := hi / g
	if n <= 0 {
		return 0
	}
	switch rapid.IntRange(0, 5).Draw(t, label+"Kind") {
	case 0:
		return 0
	case 1:
		return n * g
	}
	return rapid.Int64Range(0, n).Draw(t, label) * g
}

// amount in [0,hi] for maxima and node capacities: zero is rare (a zero max or an empty cluster silences a whole
// subtree when runtime quota is on) and values lean towards hi, so that a quota fills up over several pods
func c03AmountBig(t *rapid.T, d corev1.ResourceName, hi int64, label string) int64 {
	g := c03Grid(d)
	n := hi / g
	if n <= 0 {
		return 0
	}
	switch rapid.IntRange(0, 15).Draw(t, label+"Kind") {
	case 0:
		return 0
	case 1:
		return rapid.Int64Range(0, n).Draw(t, label+"Small") * g
	}
	return (n - rapid.Int64Range(0, n-1).Draw(t, label)) * g
}

func c03MaxHi(d corev1.ResourceName) int64 {
	switch d {
	case corev1.ResourceCPU:
		return 8000
	case corev1.ResourceMemory:
		return 16
	}
	return 4
}

func c03PodHi(d corev1.ResourceName) int64 {
	switch d {
	case corev1.ResourceCPU:
		return 2000
	case corev1.ResourceMemory:
		return 4
	}
	return 2
}

// ---------------------------------------------------------------- model

type c03Quota struct {
	Name       string
	Parent     string // "" = directly under the root
	IsParent   bool
	Special    bool                  // default / system quota
	Dims       []corev1.ResourceName // dimensions the quota declares (keys of max)
	MinDims    []corev1.ResourceName // keys of min: = Dims for generated quotas, none for the built-in default/system quota (no min at all)
	Max, Min   c03Res
	AllowLent  bool
	Weight     c03Res // nil = default (max)
	Namespace  string
	NsAnno     []string
	RV         int
	MaxLowered bool
	Imported   bool // an assigned pod was moved in from the default quota (migration): that bypasses admission
	UpdWindow  bool // a pod update without node hit a parked pod reserved in the default quota inside the window (signature attribution only)
	Window     bool // a parked pod was reserved into / rolled back on this quota's path inside the window (signature attribution only)
	Children   []string
}

var c03StateName = []string{"pending", "reserved", "bound", "bound-but-rolled-back"}

// does the pod hold an assignment the quota accounts for?
func (pd *c03Pod) holds() bool { return pd.State == c03Reserved || pd.State == c03Bound }

func (q *c03Quota) declares(d corev1.ResourceName) bool {
	for _, x := range q.Dims {
		if x == d {
			return true
		}
	}
	return false
}

func (q *c03Quota) String() string {
	return fmt.Sprintf("%s(parent=%q isParent=%v lent=%v max=%s min=%s w=%s ns=%s anno=%v)", q.Name, q.Parent, q.IsParent, q.AllowLent,
		c03Str(q.Max), c03Str(q.Min), c03Str(q.Weight), q.Namespace, q.NsAnno)
}

const (
	c03Pending = iota
	c03Reserved
	c03Bound
	// bound and running, but the scheduler rolled its reservation back after the binding was already visible (the bind
	// call reported an error): charged nowhere until the next pod event re-assigns it. Never scheduled again (it is bound).
	c03Limbo
)

type c03Pod struct {
	Name     string
	Quota    string // the quota that holds the pod (the default quota while the pod is parked there)
	Label    string // parked pods: the quota named by the label, created later (or never)
	BindCall bool   // bound (the binding is visible) while the scheduler's bind call has not reported its result yet
	Parked   bool   // labelled with a quota that did not exist when the pod arrived: kept in the default quota until migrated
	How      string // how the association is expressed
	Req      c03Res // full request, undeclared dimensions included
	ZeroKeys []corev1.ResourceName
	NonPre   bool
	State    int
	Obj      *corev1.Pod
	RV       int
	Rejected bool // a rejection happened and no admission since
}

// a quota that is created in the middle of the history; pods labelled with its name before that are parked in the
// default quota and moved by the plugin's periodic migration afterwards
type c03Late struct {
	Name    string
	Parent  string // "" = below the root
	Created bool
}

type c03Node struct {
	Name  string
	Alloc c03Res
	Keys  []corev1.ResourceName
	RV    int
	Obj   *corev1.Node
}

type c03Case struct {
	p          *Plugin
	c          *vk.Case
	rtOn       bool
	parOn      bool
	quotas     map[string]*c03Quota
	order      []string // generated quotas, parents first
	leaves     []string
	pods       map[string]*c03Pod
	special    bool // some pods go to the default / system quota in this case
	late       []*c03Late
	lateErr    bool   // a late bind error happened in this case (signature attribution only)
	parentPods bool   // the "+parent-pods" units: pods may name a parent quota (SupportParentQuotaSubmitPod)
	hotQuota   string // +parked-late-bind-error: the quota a rolled-back running pod was just moved into (new pods aim there)
	parkLate   bool   // the "+parked-late-bind-error" unit: the late bind error also hits pods bound while parked in the default quota
	parkUpd    bool   // the "+parked-pod-updates" units: status updates also reach pods still parked in the default quota
	podUpd     bool   // the "+pod-updates" units: status updates of pods and the late bind error (Unreserve after the binding is visible)
	baseDims   []corev1.ResourceName
	tight      bool // small cluster: runtime quotas well below max
	podSeq     int
	nodes      map[string]*c03Node
	nodeSeq    int
	hist       []string
	setup      []string
	dead       bool
	relByQ     map[string]bool // per leaf quota: rejection seen, then a release, waiting for an admission
	rejByQ     map[string]bool
	ntHit      bool
	anyMaxLo   bool
}

func (h *c03Case) logf(format string, a ...any) { h.hist = append(h.hist, fmt.Sprintf(format, a...)) }

func (h *c03Case) dump() string {
	return fmt.Sprintf("config{runtimeQuota=%v checkParent=%v scaleMin=%v} setup=%v history=%v", h.rtOn, h.parOn,
		h.p.pluginArgs.EnableMinQuotaScale, h.setup, h.hist)
}

// ancestors of q below the root, nearest first
func (h *c03Case) chain(q *c03Quota) []*c03Quota {
	var out []*c03Quota
	for cur := q; cur.Parent != ""; {
		cur = h.quotas[cur.Parent]
		out = append(out, cur)
	}
	return out
}

func (h *c03Case) podNames() []string { return vk.SortedKeys(h.pods) }

// reference usage: what the pods that currently hold an assignment (reserved or bound) request, restricted to the
// dimensions their own quota declares, summed over the subtree of x
func (h *c03Case) modelUsed(x *c03Quota, nonPreOnly bool) c03Res {
	out := c03Res{}
	for _, name := range h.podNames() {
		pd := h.pods[name]
		if !pd.holds() || (nonPreOnly && !pd.NonPre) {
			continue
		}
		own := h.quotas[pd.Quota]
		// the usage of a quota, non-preemptible or not, is what its whole subtree holds (for a leaf: its own pods; a
		// parent quota that takes pods itself is checked against its min with its children's non-preemptible pods counted)
		in := own == x
		for _, a := range h.chain(own) {
			if a == x {
				in = true
			}
		}
		if !in {
			continue
		}
		for _, d := range own.Dims {
			out[d] += pd.Req[d]
		}
	}
	return out
}

// ---------------------------------------------------------------- object builders

func c03QuotaObj(q *c03Quota) *v1alpha1.ElasticQuota {
	eq := &v1alpha1.ElasticQuota{
		ObjectMeta: metav1.ObjectMeta{Name: q.Name, Namespace: q.Namespace, Labels: map[string]string{}, Annotations: map[string]string{},
			ResourceVersion: fmt.Sprint(q.RV), UID: types.UID("uid-" + q.Name)},
		Spec: v1alpha1.ElasticQuotaSpec{Max: c03List(q.Max, q.Dims), Min: c03List(q.Min, q.Dims)},
	}
	parent := q.Parent
	if parent == "" {
		parent = extension.RootQuotaName
	}
	eq.Labels[extension.LabelQuotaParent] = parent
	eq.Labels[extension.LabelQuotaIsParent] = fmt.Sprint(q.IsParent)
	if !q.AllowLent {
		eq.Labels[extension.LabelAllowLentResource] = "false"
	}
	if q.Weight != nil {
		b, _ := json.Marshal(c03List(q.Weight, q.Dims))
		eq.Annotations[extension.AnnotationSharedWeight] = string(b)
	}
	if len(q.NsAnno) > 0 {
		b, _ := json.Marshal(q.NsAnno)
		eq.Annotations[extension.AnnotationQuotaNamespaces] = string(b)
	}
	return eq
}

// the three objects the plugin creates for itself at start-up (plugin_helper.go create*QuotaIfNotPresent)
func c03BuiltinObjs(p *Plugin) []*v1alpha1.ElasticQuota {
	ns := p.pluginArgs.QuotaGroupNamespace
	root := &v1alpha1.ElasticQuota{ObjectMeta: metav1.ObjectMeta{Name: extension.RootQuotaName, Namespace: ns, ResourceVersion: "1",
		Labels:      map[string]string{extension.LabelQuotaIsParent: "true", extension.LabelAllowLentResource: "false", extension.LabelQuotaParent: ""},
		Annotations: map[string]string{}}}
	system := &v1alpha1.ElasticQuota{ObjectMeta: metav1.ObjectMeta{Name: extension.SystemQuotaName, Namespace: ns, ResourceVersion: "1", Annotations: map[string]string{}},
		Spec: v1alpha1.ElasticQuotaSpec{Max: p.pluginArgs.SystemQuotaGroupMax.DeepCopy()}}
	def := &v1alpha1.ElasticQuota{ObjectMeta: metav1.ObjectMeta{Name: extension.DefaultQuotaName, Namespace: ns, ResourceVersion: "1", Annotations: map[string]string{}},
		Spec: v1alpha1.ElasticQuotaSpec{Max: p.pluginArgs.DefaultQuotaGroupMax.DeepCopy()}}
	return []*v1alpha1.ElasticQuota{root, system, def}
}

func (h *c03Case) podObj(pd *c03Pod, nContainers int, split []c03Res, labels map[string]string, ns string) *corev1.Pod {
	pod := &corev1.Pod{ObjectMeta: metav1.ObjectMeta{Name: pd.Name, Namespace: ns, UID: types.UID("uid-" + pd.Name), Labels: labels, ResourceVersion: "1"}}
	for i := 0; i < nContainers; i++ {
		rl := corev1.ResourceList{}
		for _, d := range c03Universe {
			if v := split[i][d]; v > 0 {
				rl[d] = c03Qty(v, d)
			}
		}
		if i == 0 {
			for _, d := range pd.ZeroKeys {
				rl[d] = c03Qty(0, d)
			}
		}
		pod.Spec.Containers = append(pod.Spec.Containers, corev1.Container{Name: fmt.Sprintf("c%d", i), Resources: corev1.ResourceRequirements{Requests: rl}})
	}
	return pod
}

func c03NodeObj(n *c03Node) *corev1.Node {
	return &corev1.Node{ObjectMeta: metav1.ObjectMeta{Name: n.Name, ResourceVersion: fmt.Sprint(n.RV)},
		Status: corev1.NodeStatus{Allocatable: c03List(n.Alloc, n.Keys)}}
}

// ---------------------------------------------------------------- plugin (one per test function, manager rebuilt per case)

func c03Quiet() {
	var lvl klog.Level
	_ = lvl.Set("0")
	klog.LogToStderr(false)
	klog.SetOutput(io.Discard)
}

func c03NewPlugin(t *testing.T) *Plugin {
	suit := newPluginTestSuit(t, nil)
	// the suite turns klog up to -v=5; the harness wants silence (speed, and no wall-clock noise in the replay output)
	c03Quiet()
	// exactly what the scheduler does: New() through the framework-extender proxy. The informer factories are never
	// started: every event the informers would deliver is delivered by the harness, synchronously and in a generated order.
	pl, err := suit.proxyNew(context.TODO(), suit.elasticQuotaArgs, suit.Handle)
	if err != nil {
		t.Fatalf("cannot build plugin: %v", err)
	}
	return pl.(*Plugin)
}

var c03DimSets = [][]corev1.ResourceName{
	{corev1.ResourceCPU, corev1.ResourceMemory},
	{corev1.ResourceCPU, corev1.ResourceMemory},
	{corev1.ResourceCPU, c03GPU, corev1.ResourceMemory},
	{corev1.ResourceCPU},
	{c03GPU, corev1.ResourceMemory},
}

func c03GenMax(t *rapid.T, dims []corev1.ResourceName, label string) c03Res {
	m := c03Res{}
	for _, d := range dims {
		m[d] = c03AmountBig(t, d, c03MaxHi(d), label+"-"+string(d))
	}
	return m
}

// generate the subtree below `parent` (nil = top level) — webhook-valid by construction:
// same declared dimensions as the parent, min <= max, sum of children's min <= parent's min
func (h *c03Case) genQuota(t *rapid.T, name string, parent *c03Quota, dims []corev1.ResourceName, minBudget c03Res, depth int) *c03Quota {
	q := &c03Quota{Name: name, Dims: dims, MinDims: dims, Namespace: "quotas", RV: 1}
	if parent != nil {
		q.Parent = parent.Name
		parent.Children = append(parent.Children, name)
	}
	q.Max = c03GenMax(t, dims, "max")
	q.Min = c03Res{}
	for _, d := range dims {
		capv := q.Max[d]
		if minBudget != nil && minBudget[d] < capv {
			capv = minBudget[d]
		}
		if h.parentPods {
			// generous guarantees, so that non-preemptible pods get in on both levels
			q.Min[d] = c03AmountBig(t, d, capv, "min-"+string(d))
		} else {
			q.Min[d] = c03Amount(t, d, capv, "min-"+string(d))
		}
		if minBudget != nil {
			minBudget[d] -= q.Min[d]
		}
	}
	q.AllowLent = rapid.IntRange(0, 3).Draw(t, "allowLent") > 0
	if rapid.IntRange(0, 4).Draw(t, "customWeight") == 0 {
		q.Weight = c03Res{}
		nonZero := false
		for _, d := range dims {
			q.Weight[d] = c03Amount(t, d, c03MaxHi(d), "weight-"+string(d))
			nonZero = nonZero || q.Weight[d] > 0
		}
		if !nonZero { // an all-zero weight annotation means "default" to the code; say so in the model too
			q.Weight = nil
		}
	}
	h.quotas[name] = q
	h.order = append(h.order, name)
	if depth < 2 && rapid.IntRange(0, 9).Draw(t, "isParent") < 5-2*depth {
		q.IsParent = true
		n := rapid.IntRange(1, 3-depth).Draw(t, "children")
		budget := c03Res{}
		for d, v := range q.Min {
			budget[d] = v
		}
		for i := 0; i < n; i++ {
			h.genQuota(t, fmt.Sprintf("%s%d", name, i+1), q, dims, budget, depth+1)
		}
	} else {
		switch rapid.IntRange(0, 5).Draw(t, "nsAssoc") {
		case 0:
			q.Namespace = q.Name // pods of namespace <name> without a quota label belong to quota <name>
		case 1:
			q.NsAnno = []string{"team-" + q.Name}
		}
		h.leaves = append(h.leaves, name)
	}
	return q
}

func (h *c03Case) storeQuota(eq *v1alpha1.ElasticQuota) {
	// what the (never started) quota informer would hold: GetQuotaName reads it for pods without a quota label
	_ = h.p.quotaInformer.GetIndexer().Add(eq)
}

func c03NewCase(t *rapid.T, p *Plugin, c *vk.Case, rtOn, parOn bool, parentPods ...bool) *c03Case {
	h := &c03Case{p: p, c: c, rtOn: rtOn, parOn: parOn, parentPods: len(parentPods) > 0 && parentPods[0], quotas: map[string]*c03Quota{}, pods: map[string]*c03Pod{}, nodes: map[string]*c03Node{},
		relByQ: map[string]bool{}, rejByQ: map[string]bool{}}
	// ---- plugin arguments of this case
	p.pluginArgs.EnableRuntimeQuota = rtOn
	p.pluginArgs.EnableCheckParentQuota = parOn
	p.pluginArgs.EnableMinQuotaScale = rapid.Bool().Draw(t, "scaleMin")
	for _, sp := range []string{extension.DefaultQuotaName, extension.SystemQuotaName} {
		q := &c03Quota{Name: sp, Special: true, AllowLent: true, Namespace: p.pluginArgs.QuotaGroupNamespace, RV: 1}
		if rapid.IntRange(0, 3).Draw(t, "specialMaxSmall") == 0 {
			q.Dims = rapid.SampledFrom(c03DimSets).Draw(t, "specialDims")
			q.Max = c03GenMax(t, q.Dims, "specialMax")
			c.Class("bounded-" + map[bool]string{true: "default", false: "system"}[sp == extension.DefaultQuotaName] + "-quota")
		} else { // the shipped default: cpu and memory, MaxInt64/5
			q.Dims = []corev1.ResourceName{corev1.ResourceCPU, corev1.ResourceMemory}
			q.Max = c03Res{corev1.ResourceCPU: c03Inf, corev1.ResourceMemory: c03Inf}
		}
		q.Min = c03Res{}
		rl := corev1.ResourceList{}
		for _, d := range q.Dims {
			if q.Max[d] == c03Inf {
				rl[d] = *resource.NewQuantity(math.MaxInt64/5, resource.DecimalSI)
			} else {
				rl[d] = c03Qty(q.Max[d], d)
			}
		}
		if sp == extension.DefaultQuotaName {
			p.pluginArgs.DefaultQuotaGroupMax = rl
		} else {
			p.pluginArgs.SystemQuotaGroupMax = rl
		}
		h.quotas[sp] = q
		h.setup = append(h.setup, q.String())
	}
	h.special = rapid.IntRange(0, 2).Draw(t, "podsInBuiltinQuotas") == 0
	h.tight = rapid.IntRange(0, 2).Draw(t, "tightCluster") == 0
	c.ClassIf(h.tight, "tight-cluster")
	// ---- quota tree
	base := rapid.SampledFrom(c03DimSets).Draw(t, "dims")
	nTop := rapid.SampledFrom([]int{1, 1, 2, 2, 3}).Draw(t, "topLevel")
	mixed := false
	for i := 0; i < nTop; i++ {
		dims := base
		if i > 0 && rapid.IntRange(0, 3).Draw(t, "otherDims") == 0 { // the webhook compares keys only below the top level
			dims = rapid.SampledFrom(c03DimSets).Draw(t, "dimsOfTop")
			mixed = mixed || fmt.Sprint(dims) != fmt.Sprint(base)
		}
		h.genQuota(t, string(rune('a'+i)), nil, dims, nil, 0)
	}
	c.ClassIf(mixed, "top-level-subtrees-with-different-dimensions")
	h.baseDims = base
	for i, n := 0, rapid.SampledFrom([]int{0, 1, 1, 1, 2}).Draw(t, "lateQuotas"); i < n; i++ {
		l := &c03Late{Name: fmt.Sprintf("z%d", i+1)}
		var parents []string
		for _, name := range h.order {
			if h.quotas[name].IsParent {
				parents = append(parents, name)
			}
		}
		if len(parents) > 0 && rapid.Bool().Draw(t, "lateBelowParent") {
			l.Parent = rapid.SampledFrom(parents).Draw(t, "lateParent")
		}
		h.late = append(h.late, l)
		h.setup = append(h.setup, fmt.Sprintf("planned: quota %s (parent=%q) is created later", l.Name, l.Parent))
	}
	// ---- fresh manager, as at scheduler start-up: ReplaceQuotas over what the quota informer listed
	_ = p.quotaInformer.GetIndexer().Replace(nil, "")
	viaReplace := rapid.IntRange(0, 3).Draw(t, "treePresentAtStartup") == 0
	var initial []interface{}
	for _, eq := range c03BuiltinObjs(p) {
		h.storeQuota(eq)
		initial = append(initial, eq)
	}
	if viaReplace {
		for _, name := range h.order {
			eq := c03QuotaObj(h.quotas[name])
			h.storeQuota(eq)
			initial = append(initial, eq)
		}
	}
	if err := p.ReplaceQuotas(initial); err != nil {
		t.Fatalf("ReplaceQuotas: %v", err)
	}
	p.quotaSnapshot = map[string]*core.QuotaSnapshot{}
	p.quotaToTreeMapSnapshot = map[string]string{}
	for _, o := range initial { // the informer's add notifications for the listed objects
		p.OnQuotaAdd(o)
	}
	if !viaReplace {
		for _, name := range h.order { // parents first: the webhook refuses a child whose parent does not exist
			eq := c03QuotaObj(h.quotas[name])
			h.storeQuota(eq)
			p.OnQuotaAdd(eq)
		}
	}
	c.ClassIf(viaReplace, "tree-loaded-by-ReplaceQuotas")
	for _, name := range h.order {
		h.setup = append(h.setup, h.quotas[name].String())
	}
	// ---- cluster
	for i, n := 0, rapid.SampledFrom([]int{0, 1, 1, 2, 2, 3}).Draw(t, "nodes"); i < n; i++ {
		h.nodeAdd(t)
	}
	h.setup = append(h.setup, h.hist...)
	h.hist = nil
	return h
}

// ---------------------------------------------------------------- operations

func (h *c03Case) genNodeAlloc(t *rapid.T) (c03Res, []corev1.ResourceName) {
	alloc := c03Res{}
	var keys []corev1.ResourceName
	for _, d := range c03Universe {
		if d == c03GPU && rapid.IntRange(0, 3).Draw(t, "nodeWithoutGPU") == 0 {
			continue
		}
		keys = append(keys, d)
		if h.tight {
			alloc[d] = c03Amount(t, d, c03MaxHi(d)/2, "alloc-"+string(d))
		} else {
			alloc[d] = c03AmountBig(t, d, c03MaxHi(d), "alloc-"+string(d))
		}
	}
	return alloc, keys
}

func (h *c03Case) nodeAdd(t *rapid.T) {
	h.nodeSeq++
	n := &c03Node{Name: fmt.Sprintf("n%d", h.nodeSeq), RV: 1}
	n.Alloc, n.Keys = h.genNodeAlloc(t)
	n.Obj = c03NodeObj(n)
	h.nodes[n.Name] = n
	h.p.OnNodeAdd(n.Obj)
	h.logf("nodeAdd %s %s", n.Name, c03Str(n.Alloc))
}

func (h *c03Case) capacityChange(t *rapid.T) {
	names := vk.SortedKeys(h.nodes)
	kind := rapid.SampledFrom([]int{0, 0, 0, 1, 1, 1, 2, 2, 2, 2, 3}).Draw(t, "capacityKind")
	if kind == 3 && len(names) > 0 { // squeeze: every node shrinks to a quarter (runtime falls below what is already used)
		for _, name := range names {
			n := h.nodes[name]
			old := n.Obj
			for _, d := range n.Keys {
				n.Alloc[d] = n.Alloc[d] / 4 / c03Grid(d) * c03Grid(d)
			}
			n.RV++
			n.Obj = c03NodeObj(n)
			h.p.OnNodeUpdate(old, n.Obj)
		}
		h.c.Class("capacity-squeeze")
		h.logf("squeeze: every node to a quarter")
		return
	}
	if len(names) == 0 || (kind == 0 && len(names) < 4) {
		h.nodeAdd(t)
		return
	}
	n := h.nodes[rapid.SampledFrom(names).Draw(t, "node")]
	if kind == 1 {
		h.p.OnNodeDelete(n.Obj)
		delete(h.nodes, n.Name)
		h.logf("nodeDelete %s", n.Name)
		return
	}
	old := n.Obj
	n.Alloc, n.Keys = h.genNodeAlloc(t)
	n.RV++
	n.Obj = c03NodeObj(n)
	h.p.OnNodeUpdate(old, n.Obj)
	h.logf("nodeResize %s %s", n.Name, c03Str(n.Alloc))
}

func (h *c03Case) createPod(t *rapid.T) *c03Pod {
	h.podSeq++
	pd := &c03Pod{Name: fmt.Sprintf("p%d", h.podSeq), RV: 1}
	labels := map[string]string{}
	ns := "work"
	// ---- which quota, and how the pod says so
	k := 99
	if h.special {
		k = rapid.IntRange(0, 15).Draw(t, "target")
	}
	var pending []*c03Late
	for _, l := range h.late {
		if !l.Created {
			pending = append(pending, l)
		}
	}
	if len(pending) > 0 && rapid.IntRange(0, 2).Draw(t, "forLateQuota") == 0 {
		k = -1
	}
	switch {
	case k == -1:
		// the quota named by the label does not exist (yet): the plugin keeps the pod in the default quota, where it
		// is admitted, reserved and bound like any pod of that quota
		l := pending[rapid.IntRange(0, len(pending)-1).Draw(t, "lateName")]
		pd.Quota, pd.How, pd.Label, pd.Parked = extension.DefaultQuotaName, "label-names-quota-created-later", l.Name, true
		labels[extension.LabelQuotaName] = l.Name
		h.c.Class("pod-parked-in-default")
	case k == 0:
		pd.Quota, pd.How, ns = extension.DefaultQuotaName, "no-label-unmatched-namespace", "nomatch"
	case k == 1:
		pd.Quota, pd.How = extension.DefaultQuotaName, "label-names-missing-quota"
		labels[extension.LabelQuotaName] = "ghost"
	case k == 2:
		pd.Quota, pd.How = extension.DefaultQuotaName, "label-default"
		labels[extension.LabelQuotaName] = extension.DefaultQuotaName
	case k == 3:
		pd.Quota, pd.How = extension.SystemQuotaName, "label-system"
		labels[extension.LabelQuotaName] = extension.SystemQuotaName
	default:
		q := h.quotas[rapid.SampledFrom(h.leaves).Draw(t, "leaf")]
		if h.parkLate && h.hotQuota != "" && !h.quotas[h.hotQuota].IsParent && rapid.Bool().Draw(t, "toHotQuota") {
			q = h.quotas[h.hotQuota]
		}
		if h.parentPods {
			// feature gate SupportParentQuotaSubmitPod (webhook side only: ValidateAddPod lets a pod name a parent quota)
			var parents []string
			for _, name := range h.order {
				if h.quotas[name].IsParent {
					parents = append(parents, name)
				}
			}
			if len(parents) > 0 && rapid.IntRange(0, 2).Draw(t, "toParentQuota") == 0 {
				var loaded []string // parents whose subtree already holds non-preemptible usage
				for _, name := range parents {
					for _, v := range h.modelUsed(h.quotas[name], true) {
						if v > 0 {
							loaded = append(loaded, name)
							break
						}
					}
				}
				if len(loaded) > 0 && rapid.IntRange(0, 3).Draw(t, "loadedParent") > 0 {
					parents = loaded
				}
				q = h.quotas[rapid.SampledFrom(parents).Draw(t, "parentQuota")]
				h.c.Class("pod-submitted-to-parent-quota")
			}
		}
		// a leaf with room of its own below an ancestor that is nearly full: this is how an ancestor's limit
		// becomes the binding one
		if hot := h.leavesUnderFullAncestor(); len(hot) > 0 && rapid.IntRange(0, 2).Draw(t, "underFullAncestor") > 0 {
			q = h.quotas[rapid.SampledFrom(hot).Draw(t, "hotLeaf")]
			h.c.Class("pod-aimed-below-nearly-full-ancestor")
		}
		pd.Quota, pd.How = q.Name, "label"
		if q.IsParent {
			pd.How = "label-names-parent-quota"
		}
		viaNs := rapid.Bool().Draw(t, "viaNamespace")
		switch {
		case viaNs && q.Namespace == q.Name:
			pd.How, ns = "namespace-named-like-quota", q.Name
		case viaNs && len(q.NsAnno) > 0:
			pd.How, ns = "namespace-annotation", q.NsAnno[0]
		default:
			labels[extension.LabelQuotaName] = q.Name
		}
	}
	own := h.quotas[pd.Quota]
	npOdds := 2
	if h.parentPods {
		npOdds = 1
	}
	if rapid.IntRange(0, npOdds).Draw(t, "nonPreemptible") == 0 {
		pd.NonPre = true
		labels[extension.LabelPreemptible] = "false"
	}
	// ---- request: regular containers only, so the pod's request is the plain sum over containers
	nC := rapid.IntRange(1, 2).Draw(t, "containers")
	split := make([]c03Res, nC)
	pd.Req = c03Res{}
	for i := range split {
		split[i] = c03Res{}
		for _, d := range c03Universe {
			// mostly the dimensions the quota declares; sometimes one it does not
			odds := 3
			if !own.declares(d) {
				odds = 1
			}
			if rapid.IntRange(0, 3).Draw(t, "has-"+string(d)) < odds {
				split[i][d] = c03Amount(t, d, c03PodHi(d), "req-"+string(d))
				pd.Req[d] += split[i][d]
			}
		}
	}
	if h.parentPods && own.IsParent && pd.NonPre && rapid.Bool().Draw(t, "aimAtParentMin") {
		// aim at the boundary the parent's min draws: the request fits next to the parent's own non-preemptible pods
		// but not next to what its children hold as well
		sub, self := h.modelUsed(own, true), c03Res{}
		for _, n := range h.podNames() {
			if x := h.pods[n]; x.holds() && x.NonPre && x.Quota == own.Name {
				for _, d := range own.Dims {
					self[d] += x.Req[d]
				}
			}
		}
		for _, d := range own.MinDims {
			lo, hi := own.Min[d]-sub[d]+c03Grid(d), own.Min[d]-self[d]
			if sub[d] > self[d] && lo > 0 && lo <= hi {
				for i := range split {
					split[i][d] = 0
				}
				split[0][d], pd.Req[d] = lo, lo
			} else if pd.Req[d] > hi { // stay inside min elsewhere, so that this boundary is the one that decides
				for i := range split {
					split[i][d] = 0
				}
				pd.Req[d] = 0
			}
		}
		h.c.Class("pod-aimed-at-parent-min-boundary")
	}
	for _, d := range c03Universe {
		if pd.Req[d] == 0 && rapid.IntRange(0, 7).Draw(t, "zeroKey-"+string(d)) == 0 {
			pd.ZeroKeys = append(pd.ZeroKeys, d)
		}
	}
	pd.Obj = h.podObj(pd, nC, split, labels, ns)
	h.pods[pd.Name] = pd
	h.p.OnPodAdd(pd.Obj)
	undeclared := false
	for d, v := range pd.Req {
		if v > 0 && !own.declares(d) {
			undeclared = true
		}
	}
	h.c.ClassIf(undeclared, "pod-requests-undeclared-dimension")
	h.c.ClassIf(own.Special && !pd.Parked, "pod-in-default-or-system-quota")
	h.c.ClassIf(pd.How != "label" && !own.Special, "pod-associated-by-namespace")
	h.c.ClassIf(pd.NonPre, "non-preemptible-pod")
	h.logf("podAdd %s quota=%s(%s) nonPreemptible=%v req=%s zeroKeys=%v", pd.Name, pd.Quota, pd.How, pd.NonPre, c03Str(pd.Req), pd.ZeroKeys)
	return pd
}

// pick a pod in the given state (-1: any state that holds an assignment); three times out of four from the
// preferred ones, when there are any (aims the history at "rejected, then freed, then admitted")
func (h *c03Case) pick(t *rapid.T, state int, label string, prefer func(*c03Pod) bool) *c03Pod {
	var names, pref []string
	for _, n := range h.podNames() {
		pd := h.pods[n]
		if pd.State == state || (state == -1 && pd.holds()) {
			names = append(names, n)
			if prefer != nil && prefer(pd) {
				pref = append(pref, n)
			}
		}
	}
	if len(names) == 0 {
		return nil
	}
	if len(pref) > 0 && rapid.IntRange(0, 3).Draw(t, label+"Preferred") > 0 {
		names = pref
	}
	return h.pods[rapid.SampledFrom(names).Draw(t, label)]
}

// leaves without a standing rejection that sit below an ancestor that cannot grow much any more: its usage is at
// least 3/4 of its max, or (runtime quota) at least 3/4 of the cluster is handed out. A generator heuristic only.
func (h *c03Case) leavesUnderFullAncestor() []string {
	total, handedOut := c03Res{}, c03Res{}
	for _, n := range vk.SortedKeys(h.nodes) {
		for d, v := range h.nodes[n].Alloc {
			total[d] += v
		}
	}
	for _, n := range h.podNames() {
		if pd := h.pods[n]; pd.holds() {
			for _, d := range h.quotas[pd.Quota].Dims {
				handedOut[d] += pd.Req[d]
			}
		}
	}
	var out []string
	for _, leaf := range h.leaves {
		lq := h.quotas[leaf]
		if h.rejByQ[leaf] || lq.Parent == "" {
			continue
		}
		hot := false
		for _, a := range h.chain(lq) {
			au := h.modelUsed(a, false)
			for _, d := range a.Dims {
				if au[d] > 0 && (au[d]*4 >= a.Max[d]*3 || (h.rtOn && handedOut[d]*4 >= total[d]*3)) {
					hot = true
				}
			}
		}
		if hot {
			out = append(out, leaf)
		}
	}
	return out
}

// a parked pod whose quota has been created but which the migration cycle has not moved yet. During that window
// (at most one migration period, 1 s) the plugin resolves the pod to the new quota while the manager still holds it
// in the default quota. Pod update / delete events, Reserve and Unreserve all have to act on the quota that holds the
// pod: a pod scheduled inside the window is admitted against its own quota and charged to it from Reserve on (the
// manager migrates it first); a pod reserved in the default quota earlier and rolled back inside the window is released
// from the default quota. (Before koordinator commit 8efd15b ReservePod / UnreservePod were no-ops for such a pod.)
func (h *c03Case) inWindow(pd *c03Pod) bool {
	return pd.Parked && h.quotas[pd.Label] != nil
}

func (h *c03Case) taintWindow(q *c03Quota) {
	q.Window = true
	for _, a := range h.chain(q) {
		a.Window = true
	}
}

// signature to use when the quota (or an ancestor) saw a Reserve / Unreserve of a parked pod inside the window: the
// defect fixed by koordinator commit 8efd15b (ReservePod / UnreservePod were no-ops for such a pod) shows up as a
// wrong verdict or an overshoot on exactly these quotas; the kind of symptom is in the message
const c03WindowSig = "migration-window:reserve-or-unreserve-of-parked-pod-not-applied-to-holding-quota"

// a reserved pod's amount has to stay charged from Reserve to Unreserve / delete; an ordinary pod update (no node yet)
// that reaches a parked pod reserved in the default quota inside the window moves the pod to its own quota and has to
// carry the reservation along
const c03UpdWindowSig = "migration-window:pod-update-of-reserved-parked-pod-drops-reservation"

func (h *c03Case) windowSig(q *c03Quota, sig string) string {
	upd := q.UpdWindow
	for _, a := range h.chain(q) {
		upd = upd || a.UpdWindow
	}
	if upd && !h.lateErr {
		return c03UpdWindowSig
	}
	tainted := q.Window
	for _, a := range h.chain(q) {
		tainted = tainted || a.Window
	}
	if tainted && !h.lateErr {
		return c03WindowSig
	}
	return sig
}

// the pod now counts against the quota its label names (migration cycle, or a pod update that lands in the window)
func (h *c03Case) moveToOwnQuota(pd *c03Pod, how string) {
	q := h.quotas[pd.Label]
	pd.Quota, pd.Parked = q.Name, false
	if pd.holds() {
		// running pods arrive without passing admission: the quota and its ancestors leave the "used <= max" claim
		q.Imported = true
		for _, a := range h.chain(q) {
			a.Imported = true
		}
		h.c.Class("migrated-assigned-pod")
	} else {
		h.c.Class("migrated-pending-pod")
	}
	h.logf("  %s now in %s (%s, %s)", pd.Name, q.Name, how, c03StateName[pd.State])
}

// create one of the planned late quotas: a leaf, webhook-valid where it lands
func (h *c03Case) lateQuotaCreate(t *rapid.T, l *c03Late) {
	var parent *c03Quota
	dims := h.baseDims
	var budget c03Res
	if l.Parent != "" && h.quotas[l.Parent].IsParent { // (the planned parent may have been turned into a leaf meanwhile)
		parent = h.quotas[l.Parent]
		dims = parent.Dims
		budget = c03Res{}
		for _, d := range parent.Dims {
			budget[d] = parent.Min[d]
			for _, ch := range parent.Children {
				budget[d] -= h.quotas[ch].Min[d]
			}
			if budget[d] < 0 {
				budget[d] = 0
			}
		}
	}
	q := h.genQuota(t, l.Name, parent, dims, budget, 2) // depth 2: always a leaf
	l.Created = true
	eq := c03QuotaObj(q)
	h.storeQuota(eq)
	h.p.OnQuotaAdd(eq)
	h.c.Class("late-quota-created")
	h.logf("quotaCreate %s", q.String())
}

// one turn of the plugin's periodic goroutine (Plugin.Start: wait.Until(g.migrateDefaultQuotaGroupsPod, 1s))
func (h *c03Case) migrate() {
	h.p.migrateDefaultQuotaGroupsPod()
	h.logf("migrateDefaultQuotaGroupsPod")
	for _, n := range h.podNames() {
		if pd := h.pods[n]; h.inWindow(pd) {
			h.moveToOwnQuota(pd, "migration cycle")
		}
	}
}

// does pd hold quota on the path of a quota with a standing rejection that nothing has been freed for yet?
func (h *c03Case) blocksRejected(pd *c03Pod) bool {
	own := h.quotas[pd.Quota]
	path := map[string]bool{own.Name: true}
	for _, a := range h.chain(own) {
		path[a.Name] = true
	}
	for _, leaf := range vk.SortedKeys(h.rejByQ) {
		if !h.rejByQ[leaf] || h.relByQ[leaf] {
			continue
		}
		if path[leaf] {
			return true
		}
		for _, a := range h.chain(h.quotas[leaf]) {
			if path[a.Name] {
				return true
			}
		}
	}
	return false
}

func (h *c03Case) released(pd *c03Pod) {
	// an assignment was given back somewhere on the path of pd's quota: remember it for the non-trivial rule
	own := h.quotas[pd.Quota]
	path := map[string]bool{own.Name: true}
	for _, a := range h.chain(own) {
		path[a.Name] = true
	}
	for _, leaf := range append([]string{extension.DefaultQuotaName, extension.SystemQuotaName}, h.leaves...) {
		if !h.rejByQ[leaf] {
			continue
		}
		lq := h.quotas[leaf]
		hit := path[leaf]
		for _, a := range h.chain(lq) {
			hit = hit || path[a.Name]
		}
		if hit {
			h.relByQ[leaf] = true
		}
	}
}

func (h *c03Case) deletePod(t *rapid.T, pd *c03Pod) {
	was := pd.State
	h.p.OnPodDelete(pd.Obj)
	if was == c03Reserved || was == c03Bound {
		h.released(pd)
		h.c.Class("delete-of-assigned-pod")
	}
	delete(h.pods, pd.Name)
	h.logf("podDelete %s (was %s)", pd.Name, c03StateName[was])
	if was == c03Reserved && rapid.Bool().Draw(t, "lateUnreserve") {
		// the binding cycle of a pod deleted meanwhile fails and rolls back
		h.p.Unreserve(context.TODO(), framework.NewCycleState(), pd.Obj, "n1")
		h.logf("unreserve %s (after its delete)", pd.Name)
	}
}

// the scheduler's bind call of an already visibly bound pod returns: fine, or with an error / time-out although the
// binding went through. On an error the binding cycle rolls back (Unreserve; koordinator code paths may also ForgetPod,
// whose handler is the plugin's handlePodDelete). The pod keeps running; the manager charges it again with its next
// pod event (OnPodUpdate: bound, not terminated, not assigned -> assign), which bypasses admission.
func (h *c03Case) bindCallReturns(t *rapid.T, pd *c03Pod) {
	pd.BindCall = false
	if rapid.IntRange(0, 2).Draw(t, "bindCallError") == 0 && !(h.parkLate && pd.Parked) {
		h.logf("bindCallOK %s", pd.Name)
		return
	}
	h.p.Unreserve(context.TODO(), framework.NewCycleState(), pd.Obj, "n1")
	forget := rapid.Bool().Draw(t, "forgetPod")
	if h.parkLate && pd.Parked && forget {
		forget = rapid.Bool().Draw(t, "forgetParkedPod") // mostly leave the pod in the default quota's cache
	}
	if forget {
		h.p.handlePodDelete(pd.Obj)
		h.c.Class("forget-pod-after-late-bind-error")
	}
	pd.State = c03Limbo
	h.lateErr = true
	h.released(pd)
	h.c.Class("unreserve-after-binding-visible")
	h.logf("bindCallError %s: unreserve (forgetPod=%v) although the pod is bound", pd.Name, forget)
}

// an ordinary update of a pod that changes nothing the quota cares about (status, resourceVersion): labels, request and
// node stay. For a pod in limbo it is the event that makes the manager charge the running pod again.
func (h *c03Case) podStatusUpdate(t *rapid.T, pd *c03Pod) {
	old := pd.Obj
	pd.RV++
	nw := old.DeepCopy()
	nw.ResourceVersion = fmt.Sprint(pd.RV)
	if nw.Spec.NodeName != "" {
		nw.Status.Phase = corev1.PodRunning
	}
	pd.Obj = nw
	window := h.inWindow(pd)
	h.p.OnPodUpdate(old, nw)
	h.c.Class("pod-status-update:" + c03StateName[pd.State])
	h.logf("podStatusUpdate %s (%s)", pd.Name, c03StateName[pd.State])
	if window {
		// resolved to the new quota while the default quota holds the pod: the manager moves the pod over, and whatever
		// the pod holds (a reservation, a binding) has to move with it
		if pd.State == c03Reserved {
			h.c.Class("status-update-of-reserved-parked-pod-in-window")
			own := h.quotas[pd.Label]
			own.UpdWindow = true
			for _, a := range h.chain(own) {
				a.UpdWindow = true
			}
			def := h.quotas[pd.Quota]
			def.UpdWindow = true
		} else {
			h.c.Class("status-update-of-" + c03StateName[pd.State] + "-parked-pod-in-window")
		}
		h.moveToOwnQuota(pd, "pod update in the window")
	}
	if pd.State == c03Limbo {
		pd.State = c03Bound
		own := h.quotas[pd.Quota]
		own.Imported = true // charged again without passing admission
		for _, a := range h.chain(own) {
			a.Imported = true
		}
		h.c.Class("rolled-back-bound-pod-charged-again-by-update")
		if window {
			h.c.Class("rolled-back-parked-pod-moved-and-charged-by-update-in-window")
			h.hotQuota = pd.Quota
		}
	}
}

func (h *c03Case) finishBinding(t *rapid.T, pd *c03Pod) {
	if rapid.IntRange(0, 2).Draw(t, "bindFails") == 0 {
		if h.inWindow(pd) {
			// reserved in the default quota before its quota existed, rolled back now: released from the default quota,
			// the pod stays parked (pending) there until it is migrated or scheduled again
			h.c.Class("rolled-back-in-window")
			h.taintWindow(h.quotas[pd.Quota])
			h.taintWindow(h.quotas[pd.Label])
		}
		h.p.Unreserve(context.TODO(), framework.NewCycleState(), pd.Obj, "n1")
		pd.State = c03Pending
		h.released(pd)
		h.c.Class("unreserve")
		h.logf("unreserve %s", pd.Name)
		return
	}
	old := pd.Obj
	pd.RV++
	nw := old.DeepCopy()
	nw.Spec.NodeName = "n1"
	nw.ResourceVersion = fmt.Sprint(pd.RV)
	pd.Obj = nw
	window := h.inWindow(pd)
	h.p.OnPodUpdate(old, nw)
	pd.State = c03Bound
	h.c.Class("bind")
	h.logf("bind %s", pd.Name)
	if h.podUpd && !window && (!pd.Parked || h.parkLate) && (rapid.Bool().Draw(t, "bindCallStillOut") || (h.parkLate && pd.Parked)) {
		pd.BindCall = true // the informer saw the binding before the scheduler's bind call returned
	}
	if window {
		// the update is resolved to the new quota, the manager finds the pod in the default quota: it takes the pod
		// (and its usage) out there and adds it, bound, to the new quota
		h.moveToOwnQuota(pd, "pod update in the window")
	}
}

// deliver the update event for a quota whose model fields (labels) were just changed
func (h *c03Case) pushQuota(q *c03Quota, old *v1alpha1.ElasticQuota) {
	q.RV++
	nw := c03QuotaObj(q)
	_ = h.p.quotaInformer.GetIndexer().Update(nw)
	h.p.OnQuotaUpdate(old, nw)
}

func (h *c03Case) subtreeHolds(q *c03Quota) bool {
	for _, v := range h.modelUsed(q, false) {
		if v > 0 {
			return true
		}
	}
	return false
}

// flip the allow-lent-resource label of any quota: a "meta" change, the manager rebuilds the whole tree from the
// leaves' saved request / used (resetQuotaNoLock)
func (h *c03Case) quotaToggleAllowLent(t *rapid.T) {
	q := h.quotas[rapid.SampledFrom(h.order).Draw(t, "quota")]
	old := c03QuotaObj(q)
	q.AllowLent = !q.AllowLent
	h.pushQuota(q, old)
	h.c.Class("quota-toggle-allow-lent")
	h.logf("quotaToggleAllowLent %s -> lent=%v", q.Name, q.AllowLent)
}

// flip the is-parent label where the webhook lets it (checkIsParentChange): a parent without children may become a
// leaf, a leaf may become a parent only while no pod at all names it (label, its namespace, its annotated namespaces).
// Also a meta change: full rebuild.
func (h *c03Case) quotaToggleIsParent(t *rapid.T) bool {
	var cand []string
	for _, name := range h.order {
		q := h.quotas[name]
		if q.IsParent {
			if len(q.Children) == 0 {
				cand = append(cand, name)
			}
			continue
		}
		named := false
		for _, n := range h.podNames() {
			named = named || h.pods[n].Quota == name || h.pods[n].Label == name
		}
		if !named && len(h.leaves) > 1 { // (the harness keeps at least one leaf to send pods to)
			cand = append(cand, name)
		}
	}
	if len(cand) == 0 {
		return false
	}
	q := h.quotas[rapid.SampledFrom(cand).Draw(t, "quota")]
	old := c03QuotaObj(q)
	q.IsParent = !q.IsParent
	if q.IsParent {
		for i, l := range h.leaves {
			if l == q.Name {
				h.leaves = append(h.leaves[:i:i], h.leaves[i+1:]...)
				break
			}
		}
	} else {
		h.leaves = append(h.leaves, q.Name)
	}
	h.pushQuota(q, old)
	h.c.Class("quota-toggle-is-parent")
	h.logf("quotaToggleIsParent %s -> isParent=%v", q.Name, q.IsParent)
	return true
}

// move a quota (with its subtree and everything the subtree holds) below another parent, where the webhook lets it:
// the new parent is the root or an existing is-parent quota outside the moved subtree (no cycle) declaring the same
// dimensions, and the moved quota's min still fits into what the new parent's min has left
func (h *c03Case) quotaReparent(t *rapid.T) bool {
	type move struct{ q, to string }
	var cand, loaded []move
	for _, name := range h.order {
		q := h.quotas[name]
		inSubtree := map[string]bool{name: true}
		for changed := true; changed; {
			changed = false
			for _, n := range h.order {
				if x := h.quotas[n]; x.Parent != "" && inSubtree[x.Parent] && !inSubtree[n] {
					inSubtree[n], changed = true, true
				}
			}
		}
		holds := h.subtreeHolds(q)
		add := func(to string) {
			cand = append(cand, move{name, to})
			if holds {
				loaded = append(loaded, move{name, to})
			}
		}
		if q.Parent != "" {
			add("") // below the root: nothing to check for a leaf, only the children's sums (unchanged) for a parent
		}
		for _, pn := range h.order {
			np := h.quotas[pn]
			if !np.IsParent || inSubtree[pn] || pn == q.Parent || fmt.Sprint(np.Dims) != fmt.Sprint(q.Dims) {
				continue
			}
			fits := true
			for _, d := range q.Dims {
				room := np.Min[d]
				for _, ch := range np.Children {
					room -= h.quotas[ch].Min[d]
				}
				fits = fits && q.Min[d] <= room
			}
			if fits {
				add(pn)
			}
		}
	}
	if len(cand) == 0 {
		return false
	}
	if len(loaded) > 0 && rapid.IntRange(0, 3).Draw(t, "moveLoaded") > 0 {
		cand = loaded // mostly quotas that hold reserved / running pods: that is what has to move along
	}
	m := cand[rapid.IntRange(0, len(cand)-1).Draw(t, "move")]
	q := h.quotas[m.q]
	old := c03QuotaObj(q)
	holds := h.subtreeHolds(q)
	if q.Parent != "" {
		op := h.quotas[q.Parent]
		for i, ch := range op.Children {
			if ch == q.Name {
				op.Children = append(op.Children[:i:i], op.Children[i+1:]...)
				break
			}
		}
	}
	from := q.Parent
	q.Parent = m.to
	if m.to != "" {
		np := h.quotas[m.to]
		np.Children = append(np.Children, q.Name)
	}
	if holds {
		// the new ancestors take over usage that never passed their admission check
		for _, a := range h.chain(q) {
			a.Imported = true
		}
		h.c.Class("quota-reparent-with-assigned-pods")
	}
	h.pushQuota(q, old)
	h.c.Class("quota-reparent")
	h.logf("quotaReparent %s: parent %q -> %q (subtree holds %s)", q.Name, from, m.to, c03Str(h.modelUsed(q, false)))
	return true
}

func (h *c03Case) quotaUpdate(t *rapid.T) {
	q := h.quotas[rapid.SampledFrom(h.order).Draw(t, "quota")]
	kind := rapid.IntRange(0, 5).Draw(t, "updateKind")
	old := c03QuotaObj(q)
	what := ""
	switch {
	case kind <= 1: // raise max
		what = "raiseMax"
		for _, d := range q.Dims {
			q.Max[d] += c03Amount(t, d, c03MaxHi(d)/2, "raise-"+string(d))
		}
	case kind <= 4: // new min inside the webhook's window: >= sum of children, <= max, siblings' sum <= parent's min
		what = "setMin"
		for _, d := range q.Dims {
			lo, hi := int64(0), q.Max[d]
			for _, ch := range q.Children {
				lo += h.quotas[ch].Min[d]
			}
			if q.Parent != "" {
				par := h.quotas[q.Parent]
				room := par.Min[d]
				for _, sib := range par.Children {
					if sib != q.Name {
						room -= h.quotas[sib].Min[d]
					}
				}
				if room < hi {
					hi = room
				}
			}
			if hi < lo { // cannot happen for a valid tree; keep the old value if it does
				continue
			}
			q.Min[d] = lo + c03Amount(t, d, hi-lo, "newMin-"+string(d))
		}
	default: // lower max (never below min): from here on this quota is outside the "used <= max" claim
		what = "lowerMax"
		lowered := false
		for _, d := range q.Dims {
			cut := c03Amount(t, d, q.Max[d]-q.Min[d], "cut-"+string(d))
			q.Max[d] -= cut
			lowered = lowered || cut > 0
		}
		if lowered {
			q.MaxLowered = true
			h.anyMaxLo = true
			h.c.Class("max-lowered")
		}
	}
	q.RV++
	nw := c03QuotaObj(q)
	_ = h.p.quotaInformer.GetIndexer().Update(nw)
	h.p.OnQuotaUpdate(old, nw)
	h.c.Class("quota-update:" + what)
	h.logf("quotaUpdate %s %s max=%s min=%s", what, q.Name, c03Str(q.Max), c03Str(q.Min))
}

// ---------------------------------------------------------------- the oracle

type c03Verdict struct {
	own, np, ancNarrow, ancWide bool
	why                         []string
	runtimeBelowMax             bool
	missingLimitDim             bool
}

// limit of quota x in dimension d: the quota's max when runtime quota is off; when it is on, the runtime list the
// plugin publishes after a refresh (a dimension absent from that list is not limited by the plugin — counted, see
// DESIGN "R"). The built-in default and system quota take no part in the runtime calculation: the manager defines their
// runtime as their max (RefreshRuntime answers GetMax() for them and never fills a runtime list), so max is their limit
// under both settings.
func (h *c03Case) limit(x *c03Quota, d corev1.ResourceName, sums map[string]*core.QuotaInfoSummary) (int64, bool) {
	if !h.rtOn || x.Special {
		return x.Max[d], true
	}
	s := sums[x.Name]
	if s == nil {
		return 0, false
	}
	q, ok := s.Runtime[d]
	if !ok {
		return 0, false
	}
	return c03Val(q, d), true
}

func (h *c03Case) evaluate(pd *c03Pod, sums map[string]*core.QuotaInfoSummary) c03Verdict {
	own := h.quotas[pd.Quota]
	v := c03Verdict{own: true, np: true, ancNarrow: true, ancWide: true}
	used := h.modelUsed(own, false)
	for _, d := range own.Dims {
		lim, ok := h.limit(own, d, sums)
		if !ok {
			v.missingLimitDim = true
			continue
		}
		if lim == c03Inf {
			continue
		}
		if h.rtOn && own.Max[d] != c03Inf && lim < own.Max[d] {
			v.runtimeBelowMax = true
		}
		if used[d]+pd.Req[d] > lim {
			v.own = false
			v.why = append(v.why, fmt.Sprintf("%s %s: used %d + request %d > limit %d", own.Name, d, used[d], pd.Req[d], lim))
		}
	}
	if pd.NonPre {
		npu := h.modelUsed(own, true)
		for _, d := range own.MinDims {
			if npu[d]+pd.Req[d] > own.Min[d] {
				v.np = false
				v.why = append(v.why, fmt.Sprintf("%s %s: non-preemptible used %d + request %d > min %d", own.Name, d, npu[d], pd.Req[d], own.Min[d]))
			}
		}
	}
	if h.parOn {
		for _, a := range h.chain(own) {
			au := h.modelUsed(a, false)
			for _, d := range own.Dims {
				lim, ok := h.limit(a, d, sums)
				if !ok {
					v.missingLimitDim = true
					continue
				}
				if au[d]+pd.Req[d] > lim {
					v.ancWide = false
					if pd.Req[d] > 0 {
						v.ancNarrow = false
					}
					v.why = append(v.why, fmt.Sprintf("ancestor %s %s: used %d + request %d > limit %d", a.Name, d, au[d], pd.Req[d], lim))
				}
			}
		}
	}
	return v
}

func (h *c03Case) describeCode(pd *c03Pod, sums map[string]*core.QuotaInfoSummary) string {
	own := h.quotas[pd.Quota]
	var b strings.Builder
	for _, x := range append([]*c03Quota{own}, h.chain(own)...) {
		s := sums[x.Name]
		if s == nil {
			fmt.Fprintf(&b, " [%s: no summary]", x.Name)
			continue
		}
		fmt.Fprintf(&b, " [%s: plugin shows used=%s nonPreemptibleUsed=%s runtime=%s max=%s min=%s; model used=%s max=%s min=%s]", x.Name,
			c03Str(c03FromList(s.Used)), c03Str(c03FromList(s.NonPreemptibleUsed)), c03Str(c03FromList(s.Runtime)), c03Str(c03FromList(s.Max)),
			c03Str(c03FromList(s.Min)), c03Str(h.modelUsed(x, false)), c03Str(x.Max), c03Str(x.Min))
	}
	return b.String()
}

// one scheduling attempt of a pending pod: PreFilter, checked; on success Reserve
func (h *c03Case) schedule(t *rapid.T, pd *c03Pod, midCycle func()) {
	if h.inWindow(pd) {
		// the plugin checks the pod against its own, now existing, quota; from Reserve on it is charged there. A pending
		// pod holds nothing, so the model can move it right away whatever the verdict.
		pd.Quota, pd.Parked = pd.Label, false
		h.c.Class("scheduled-in-window")
		h.taintWindow(h.quotas[pd.Quota])
	}
	own := h.quotas[pd.Quota]
	mgr := h.p.groupQuotaManager
	if h.rtOn {
		mgr.RefreshRuntime(own.Name)
	}
	before := h.p.GetQuotaSummaries("", false)
	_, status := h.p.PreFilter(context.TODO(), framework.NewCycleState(), pd.Obj, nil)
	after := h.p.GetQuotaSummaries("", false)
	vb, va := h.evaluate(pd, before), h.evaluate(pd, after)
	if fmt.Sprint(vb) != fmt.Sprint(va) {
		h.c.Class("verdict-differs-before/after-PreFilter's-own-refresh(either accepted)")
	}
	if own.IsParent && pd.NonPre {
		sub, self := h.modelUsed(own, true), c03Res{}
		for _, n := range h.podNames() {
			if x := h.pods[n]; x.holds() && x.NonPre && x.Quota == own.Name {
				for _, d := range own.Dims {
					self[d] += x.Req[d]
				}
			}
		}
		below, decisive := false, false
		for _, d := range own.MinDims {
			below = below || sub[d] > self[d]
			decisive = decisive || (sub[d]+pd.Req[d] > own.Min[d] && self[d]+pd.Req[d] <= own.Min[d])
		}
		h.c.ClassIf(below, "non-preemptible-pod-to-parent-whose-children-hold-non-preemptible-usage")
		h.c.ClassIf(decisive && vb.own, "…and-only-the-children's-share-puts-it-over-min")
	}
	h.c.ClassIf(vb.runtimeBelowMax, "attempt-with-runtime<max")
	h.c.ClassIf(vb.missingLimitDim, "declared-dimension-missing-from-runtime-list(not limited by plugin; not asserted)")
	code := status.Code()
	switch code {
	case fwktype.Success:
		h.logf("schedule %s -> admitted", pd.Name)
		// admitted => every inequality holds (under the limits read before or after the plugin's own refresh)
		sig := ""
		switch {
		case !vb.own && !va.own:
			sig = "admit:own-quota-over-limit"
			if own.Special && h.rtOn && !h.lateErr {
				sig = "admit:own-quota-over-limit:default-or-system-quota-with-runtime-quota-on"
			}
		case !vb.np && !va.np:
			sig = "admit:non-preemptible-over-min"
		case !vb.ancNarrow && !va.ancNarrow:
			sig = "admit:ancestor-over-limit"
		}
		if sig != "" {
			kind := sig
			if !strings.Contains(sig, "default-or-system") && !(own.IsParent && sig == "admit:non-preemptible-over-min") {
				sig = h.windowSig(own, sig)
			}
			if h.c.Violation(t, sig, "[%s] pod %s (request %s, nonPreemptible=%v) admitted into %s although %v;%s %s", kind, pd.Name, c03Str(pd.Req), pd.NonPre,
				own.Name, vb.why, h.describeCode(pd, before), h.dump()) {
				h.dead = true
				return
			}
		}
		h.c.Class("admitted")
		if h.rejByQ[own.Name] && h.relByQ[own.Name] {
			h.ntHit = true
		}
		if pd.Rejected {
			h.c.Class("admitted-after-own-rejection")
		}
		pd.Rejected = false
		h.rejByQ[own.Name], h.relByQ[own.Name] = false, false
		if midCycle != nil {
			midCycle()
			if h.dead {
				return
			}
		}
		if _, alive := h.pods[pd.Name]; !alive { // deleted between PreFilter and Reserve: the cycle still runs Reserve
			h.p.Reserve(context.TODO(), framework.NewCycleState(), pd.Obj, "n1")
			h.logf("reserve %s (already deleted)", pd.Name)
			return
		}
		if st := h.p.Reserve(context.TODO(), framework.NewCycleState(), pd.Obj, "n1"); !st.IsSuccess() {
			h.c.Class("reserve-not-success(not asserted)")
			h.logf("reserve %s -> %v", pd.Name, st.Code())
			return
		}
		pd.State = c03Reserved
	case fwktype.Unschedulable, fwktype.UnschedulableAndUnresolvable:
		h.logf("schedule %s -> rejected (%s)", pd.Name, status.Message())
		// rejected => at least one inequality is false
		if vb.own && vb.np && vb.ancWide && va.own && va.np && va.ancWide {
			if h.c.Violation(t, h.windowSig(own, "reject:no-limit-exceeded"), "[reject:no-limit-exceeded] pod %s (quota %s, request %s, nonPreemptible=%v) rejected with %q although no limit would be exceeded;%s %s",
				pd.Name, own.Name, c03Str(pd.Req), pd.NonPre, status.Message(), h.describeCode(pd, before), h.dump()) {
				h.dead = true
				return
			}
		}
		h.c.Class("rejected")
		switch {
		case !vb.own:
			h.c.Class("reject-by-own-limit")
		case !vb.np:
			h.c.Class("reject-by-min")
		case !vb.ancWide:
			h.c.Class("reject-by-parent")
		}
		pd.Rejected = true
		h.rejByQ[own.Name] = true
		h.relByQ[own.Name] = false
	default: // Skip / Error: neither an admission nor a rejection
		h.c.Class(fmt.Sprintf("status-%v(not asserted)", code))
		h.logf("schedule %s -> %v %s", pd.Name, code, status.Message())
	}
}

// after every step: no quota whose max was never lowered shows used above max. Holds for the quotas pods are
// admitted against (leaves, default, system) always, and for their ancestors when parent checking is on.
func (h *c03Case) invariant(t *rapid.T) {
	sums := h.p.GetQuotaSummaries("", false)
	names := append([]string{extension.DefaultQuotaName, extension.SystemQuotaName}, h.order...)
	for _, name := range names {
		q := h.quotas[name]
		if q.MaxLowered || q.Imported || (q.IsParent && !h.parOn) {
			continue
		}
		s := sums[name]
		if s == nil {
			if h.c.Violation(t, "invariant:quota-missing-from-summaries", "quota %s not in GetQuotaSummaries; %s", name, h.dump()) {
				h.dead = true
			}
			return
		}
		mu := h.modelUsed(q, false)
		for _, d := range q.Dims {
			if q.Max[d] == c03Inf {
				continue
			}
			shown := int64(0)
			if u, ok := s.Used[d]; ok {
				shown = c03Val(u, d)
			}
			if shown > q.Max[d] || mu[d] > q.Max[d] {
				sig := "invariant:used-above-max"
				if q.Special && h.rtOn {
					sig = "invariant:used-above-max:default-or-system-quota-with-runtime-quota-on"
				} else {
					sig = h.windowSig(q, sig)
				}
				if h.c.Violation(t, sig, "[invariant:used-above-max] quota %s %s: plugin shows used %d, assigned pods sum to %d, max %d (max never lowered); runtime=%s; %s",
					name, d, shown, mu[d], q.Max[d], c03Str(c03FromList(s.Runtime)), h.dump()) {
					h.dead = true
				}
				return
			}
		}
	}
}

// ---------------------------------------------------------------- the state machine

// rapid's Repeat decides "one more action?" with a coin whose bias depends on -rapid.steps, so a recorded (shrunk)
// fail file only replays under the value it was recorded with. The registry runs this property with steps=70; when
// the flag is not given at all (the driver's --replay of a .fail file and its regress jobs do not pass it) pin it to
// that value instead of rapid's default of 30, otherwise such a replay silently passes.
func c03PinSteps() {
	explicit := false
	flag.Visit(func(f *flag.Flag) {
		if f.Name == "rapid.steps" {
			explicit = true
		}
	})
	if !explicit {
		_ = flag.Set("rapid.steps", "70")
	}
}

func c03Run(t *testing.T, unit string, rtOn, parOn bool) { c03RunX(t, unit, rtOn, parOn, false, false) }

func c03RunX(t *testing.T, unit string, rtOn, parOn, podUpd, parkUpd bool) {
	c03RunY(t, unit, rtOn, parOn, podUpd, parkUpd, false)
}

func c03RunY(t *testing.T, unit string, rtOn, parOn, podUpd, parkUpd, parentPods bool, more ...bool) {
	parkLate := len(more) > 0 && more[0]
	rec := vk.New(t, "C03", unit)
	p := c03NewPlugin(t)
	c03PinSteps()
	salt := 0
	if rtOn {
		salt += 2
	}
	if parOn {
		salt++
	}
	rapid.Check(t, func(t *rapid.T) {
		c := rec.Begin()
		defer c.End()
		for i := 0; i < salt; i++ { // the driver hands every test the same seed: shift the stream so the units differ
			rapid.Uint64().Draw(t, "salt")
		}
		h := c03NewCase(t, p, c, rtOn, parOn, parentPods)
		h.podUpd, h.parkUpd, h.parentPods, h.parkLate = podUpd, parkUpd, parentPods, parkLate

		doSchedule := func(t *rapid.T) {
			if h.dead {
				return
			}
			// mostly pods that have a chance: never refused so far, or something was freed on their path since
			hopeful := func(x *c03Pod) bool { return !x.Rejected || h.relByQ[x.Quota] }
			if wp := h.pick(t, c03Pending, "windowPod", h.inWindow); wp != nil && h.inWindow(wp) && rapid.Bool().Draw(t, "windowFirst") {
				h.schedule(t, wp, nil) // the scheduler picks a parked pod up before the migration cycle has moved it
				return
			}
			if pk := h.pick(t, c03Pending, "parkedPod", func(x *c03Pod) bool { return x.Parked && !x.Rejected }); pk != nil && pk.Parked && !pk.Rejected &&
				rapid.IntRange(0, 2).Draw(t, "parkedFirst") == 0 {
				h.schedule(t, pk, nil) // a parked pod runs in the default quota before its own quota appears
				return
			}
			pd := h.pick(t, c03Pending, "pendingPod", hopeful)
			fresh := 1 // in 6
			if pd != nil && !hopeful(pd) {
				fresh = 4 // nothing pending has a better chance than last time: rather bring a new pod
			}
			if pd == nil || rapid.IntRange(0, 5).Draw(t, "freshPod") < fresh {
				pd = h.createPod(t)
			}
			var mid func()
			if rapid.IntRange(0, 7).Draw(t, "midCycleEvent") == 0 {
				mid = func() { // an informer event lands between PreFilter and Reserve of the same cycle
					h.c.Class("event-between-PreFilter-and-Reserve")
					switch rapid.IntRange(0, 3).Draw(t, "midKind") {
					case 0:
						h.createPod(t)
					case 1:
						if names := h.podNames(); len(names) > 0 {
							h.deletePod(t, h.pods[rapid.SampledFrom(names).Draw(t, "midDelete")])
						}
					case 2:
						h.capacityChange(t)
					default:
						h.quotaUpdate(t)
					}
				}
			}
			h.schedule(t, pd, mid)
		}
		doFinish := func(t *rapid.T) {
			if h.dead {
				return
			}
			if h.podUpd {
				var out []string
				for _, n := range h.podNames() {
					if h.pods[n].BindCall {
						out = append(out, n)
					}
				}
				if len(out) > 0 && rapid.IntRange(0, 3).Draw(t, "bindCallFirst") > 0 {
					h.bindCallReturns(t, h.pods[rapid.SampledFrom(out).Draw(t, "boundPod")])
					return
				}
			}
			pd := h.pick(t, c03Reserved, "reservedPod", h.inWindow)
			if pd == nil {
				t.Skip("nothing reserved")
			}
			h.finishBinding(t, pd)
		}
		doDelete := func(t *rapid.T) {
			if h.dead {
				return
			}
			if len(h.pods) == 0 {
				t.Skip("no pod")
			}
			// mostly pods that hold an assignment: that is what frees quota
			var pd *c03Pod
			if rapid.IntRange(0, 4).Draw(t, "deleteHeld") > 0 {
				pd = h.pick(t, -1, "heldPod", h.blocksRejected)
			}
			if pd == nil {
				pd = h.pods[rapid.SampledFrom(h.podNames()).Draw(t, "pod")]
			}
			h.deletePod(t, pd)
		}
		doMigrate := func(t *rapid.T) {
			if h.dead {
				return
			}
			any := false
			for _, n := range h.podNames() {
				any = any || h.inWindow(h.pods[n])
			}
			if !any && rapid.IntRange(0, 7).Draw(t, "idleMigration") > 0 {
				t.Skip("nothing to migrate")
			}
			if any && rapid.IntRange(0, 3).Draw(t, "cycleNotDueYet") > 1 {
				t.Skip("the window stays open a little longer")
			}
			h.migrate()
		}
		actions := map[string]func(*rapid.T){
			"schedule":  doSchedule,
			"schedule2": doSchedule,
			"schedule3": doSchedule,
			"schedule4": doSchedule,
			"createPod": func(t *rapid.T) {
				if !h.dead {
					h.createPod(t)
				}
			},
			"finishBinding":  doFinish,
			"finishBinding2": doFinish,
			"deletePod":      doDelete,
			"deletePod2":     doDelete,

			"lateQuotaCreate": func(t *rapid.T) {
				if h.dead {
					return
				}
				var open []*c03Late
				for _, l := range h.late {
					if !l.Created {
						open = append(open, l)
					}
				}
				if len(open) == 0 {
					t.Skip("no quota left to create")
				}
				l := open[rapid.IntRange(0, len(open)-1).Draw(t, "late")]
				parked, held := false, false
				for _, n := range h.podNames() {
					if pd := h.pods[n]; pd.Parked && pd.Label == l.Name {
						parked = true
						held = held || pd.holds() || pd.State == c03Limbo
					}
				}
				// mostly once a pod waits for it, preferably one that already runs in the default quota
				if (!parked && rapid.IntRange(0, 3).Draw(t, "createUnawaited") > 0) || (parked && !held && rapid.Bool().Draw(t, "waitForAssignment")) {
					t.Skip("later")
				}
				h.lateQuotaCreate(t, l)
			},
			"migrate":  doMigrate,
			"migrate2": doMigrate,
			"quotaToggleAllowLent": func(t *rapid.T) {
				if !h.dead {
					h.quotaToggleAllowLent(t)
				}
			},
			"quotaToggleIsParent": func(t *rapid.T) {
				if !h.dead && !h.quotaToggleIsParent(t) {
					t.Skip("no quota may change is-parent")
				}
			},
			"quotaReparent": func(t *rapid.T) {
				if !h.dead && !h.quotaReparent(t) {
					t.Skip("no valid move")
				}
			},
			"quotaUpdate": func(t *rapid.T) {
				if !h.dead {
					h.quotaUpdate(t)
				}
			},
			"capacityChange": func(t *rapid.T) {
				if !h.dead {
					h.capacityChange(t)
				}
			},
			"": func(t *rapid.T) {
				if !h.dead {
					h.invariant(t)
				}
			},
		}
		if podUpd {
			doStatus := func(t *rapid.T) {
				if h.dead {
					return
				}
				// any pod that is not parked (a parked pod's events are routed by the window rules, see inWindow);
				// mostly the ones that wait for exactly this event
				var all, limbo []string
				for _, n := range h.podNames() {
					if pd := h.pods[n]; !pd.Parked || h.parkUpd {
						all = append(all, n)
						if pd.State == c03Limbo || (h.inWindow(pd) && pd.State == c03Reserved) {
							limbo = append(limbo, n)
						}
					}
				}
				if len(all) == 0 {
					t.Skip("no pod")
				}
				if len(limbo) > 0 && rapid.IntRange(0, 3).Draw(t, "limboFirst") > 0 {
					all = limbo
				}
				h.podStatusUpdate(t, h.pods[rapid.SampledFrom(all).Draw(t, "pod")])
			}
			actions["podStatusUpdate"] = doStatus
			actions["podStatusUpdate2"] = doStatus
		}
		t.Repeat(actions)
		c.ClassIf(!h.anyMaxLo, "no-max-lowered(used<=max asserted for every quota)")
		if h.ntHit {
			c.Class("admitted-after-rejection-and-release")
			c.NonTrivial(h.setup, h.hist)
		}
		if c.WantSample() {
			c.Sample(map[string]any{"runtimeQuota": rtOn, "checkParent": parOn, "scaleMin": p.pluginArgs.EnableMinQuotaScale, "setup": h.setup, "history": h.hist})
		}
	})
}

func TestVerifC03RuntimeOnParentOff(t *testing.T)  { c03Run(t, "runtime-on/parent-off", true, false) }
func TestVerifC03RuntimeOnParentOn(t *testing.T)   { c03Run(t, "runtime-on/parent-on", true, true) }
func TestVerifC03RuntimeOffParentOff(t *testing.T) { c03Run(t, "runtime-off/parent-off", false, false) }
func TestVerifC03RuntimeOffParentOn(t *testing.T)  { c03Run(t, "runtime-off/parent-on", false, true) }

// the same machine plus ordinary pod update events and the late bind error (separate tests: the extra actions change
// the draw sequence, the recorded regress files of the four tests above stay valid)
func TestVerifC03PodUpdatesRuntimeOnParentOn(t *testing.T) {
	c03RunX(t, "runtime-on/parent-on+pod-updates", true, true, true, false)
}
func TestVerifC03PodUpdatesRuntimeOffParentOff(t *testing.T) {
	c03RunX(t, "runtime-off/parent-off+pod-updates", false, false, true, false)
}
func TestVerifC03PodUpdatesRuntimeOnParentOff(t *testing.T) {
	c03RunX(t, "runtime-on/parent-off+pod-updates", true, false, true, false)
}
func TestVerifC03PodUpdatesRuntimeOffParentOn(t *testing.T) {
	c03RunX(t, "runtime-off/parent-on+pod-updates", false, true, true, false)
}

// the +pod-updates machine with status updates also delivered to pods that are still parked in the default quota
func TestVerifC03ParkedPodUpdatesRuntimeOnParentOn(t *testing.T) {
	c03RunX(t, "runtime-on/parent-on+parked-pod-updates", true, true, true, true)
}
func TestVerifC03ParkedPodUpdatesRuntimeOffParentOff(t *testing.T) {
	c03RunX(t, "runtime-off/parent-off+parked-pod-updates", false, false, true, true)
}

// the base machine with pods that name a parent quota directly (alpha feature gate SupportParentQuotaSubmitPod: the pod
// webhook then admits such pods; the scheduler side has no switch). A parent's usage, non-preemptible usage included,
// is what its whole subtree holds.
func TestVerifC03ParentPodsRuntimeOffParentOn(t *testing.T) {
	c03RunY(t, "runtime-off/parent-on+parent-pods", false, true, false, false, true)
}
func TestVerifC03ParentPodsRuntimeOnParentOff(t *testing.T) {
	c03RunY(t, "runtime-on/parent-off+parent-pods", true, false, false, false, true)
}
func TestVerifC03ParentPodsRuntimeOffParentOff(t *testing.T) {
	c03RunY(t, "runtime-off/parent-off+parent-pods", false, false, false, false, true)
}

// +parked-pod-updates plus the late bind error for pods that were bound while parked in the default quota: such a pod
// sits in the default quota unassigned (or was forgotten) when its own quota appears; the update that moves it over has
// to charge the running pod to the new quota
func TestVerifC03ParkedLateBindErrorRuntimeOffParentOff(t *testing.T) {
	c03RunY(t, "runtime-off/parent-off+parked-late-bind-error", false, false, true, true, false, true)
}
