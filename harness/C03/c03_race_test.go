//go:build verif

// C03 — "however admissions, reservations, roll-backs and deletions interleave": one harness-owned interleaving.
// The roll-back of a reservation (Plugin.Unreserve -> GroupQuotaManager.UnreservePod) and the informer's delete event of
// the same pod arrive together. A QuotaHookPlugin (OnPodUpdated is called from inside the roll-back, before the used is
// released) starts the delete in a goroutine and gives it a bounded chance to get in; the goroutine is joined after
// Unreserve has returned. Whatever the order, at quiescence the pod is gone and holds nothing, so the next admission
// must see exactly the usage of the remaining pods.
package elasticquota

import (
	"context"
	"fmt"
	"sync"
	"testing"
	"time"

	corev1 "k8s.io/api/core/v1"
	metav1 "k8s.io/apimachinery/pkg/apis/meta/v1"
	fwktype "k8s.io/kube-scheduler/framework"
	"k8s.io/kubernetes/pkg/scheduler/framework"
	"pgregory.net/rapid"

	"github.com/koordinator-sh/koordinator/apis/extension"
	"github.com/koordinator-sh/koordinator/apis/thirdparty/scheduler-plugins/pkg/apis/scheduling/v1alpha1"
	"github.com/koordinator-sh/koordinator/pkg/scheduler/apis/config"
	"github.com/koordinator-sh/koordinator/pkg/scheduler/plugins/elasticquota/core"
	"github.com/koordinator-sh/koordinator/pkg/verifkit/vk"
)

type c03RaceHook struct {
	mu     sync.Mutex
	armed  string // name of the pod whose roll-back triggers the concurrent delete
	run    func()
	done   chan struct{}
	gotIn  bool
	waited time.Duration
}

func (m *c03RaceHook) GetKey() string { return "c03RaceHook" }
func (m *c03RaceHook) IsQuotaUpdated(_, _ *core.QuotaInfo, _ *v1alpha1.ElasticQuota) bool {
	return false
}
func (m *c03RaceHook) PreQuotaUpdate(_, _ *core.QuotaInfo, _ *v1alpha1.ElasticQuota, _ *core.QuotaUpdateState) {
}
func (m *c03RaceHook) PostQuotaUpdate(_, _ *core.QuotaInfo, _ *v1alpha1.ElasticQuota, _ *core.QuotaUpdateState) {
}
func (m *c03RaceHook) UpdateQuotaStatus(_, _ *v1alpha1.ElasticQuota) *v1alpha1.ElasticQuota {
	return nil
}
func (m *c03RaceHook) CheckPod(string, *corev1.Pod) error { return nil }
func (m *c03RaceHook) OnPodUpdated(_ string, oldPod, newPod *corev1.Pod) {
	m.mu.Lock()
	if oldPod == nil || newPod != nil || m.armed == "" || oldPod.Name != m.armed {
		m.mu.Unlock()
		return
	}
	m.armed = "" // once: the delete itself comes through here again when it gets in
	run, done := m.run, make(chan struct{})
	m.done = done
	m.mu.Unlock()
	go func() { run(); close(done) }()
	select { // the concurrent delete gets a bounded chance; on a tree that serialises the two it simply waits outside
	case <-done:
		m.mu.Lock()
		m.gotIn = true
		m.mu.Unlock()
	case <-time.After(m.waited):
	}
}

var c03TheRaceHook = &c03RaceHook{waited: 20 * time.Millisecond}

func TestVerifC03UnreserveDeleteInterleaved(t *testing.T) {
	rec := vk.New(t, "C03", "unreserve||delete")
	core.RegisterHookPluginFactory("c03RaceFactory", func(_ *core.QuotaInfoReader, _, _ string) (core.QuotaHookPlugin, error) {
		return c03TheRaceHook, nil
	})
	suit := newPluginTestSuit(t, nil, func(a *config.ElasticQuotaArgs) {
		a.EnableRuntimeQuota = false
		a.HookPlugins = []config.HookPluginConf{{Key: "c03RaceHook", FactoryKey: "c03RaceFactory"}}
	})
	c03Quiet()
	pl, err := suit.proxyNew(context.TODO(), suit.elasticQuotaArgs, suit.Handle)
	if err != nil {
		t.Fatalf("cannot build plugin: %v", err)
	}
	p := pl.(*Plugin)
	hook := c03TheRaceHook
	rapid.Check(t, func(t *rapid.T) {
		c := rec.Begin()
		defer c.End()
		p.pluginArgs.EnableRuntimeQuota, p.pluginArgs.EnableCheckParentQuota = false, false
		var initial []interface{}
		for _, eq := range c03BuiltinObjs(p) {
			initial = append(initial, eq)
		}
		if err := p.ReplaceQuotas(initial); err != nil {
			t.Fatalf("ReplaceQuotas: %v", err)
		}
		cpu := []corev1.ResourceName{corev1.ResourceCPU}
		max := rapid.Int64Range(2, 32).Draw(t, "max") * 250
		q := &c03Quota{Name: "q", Dims: cpu, MinDims: cpu, Max: c03Res{corev1.ResourceCPU: max}, Min: c03Res{corev1.ResourceCPU: 0}, AllowLent: true, Namespace: "quotas", RV: 1}
		p.OnQuotaAdd(c03QuotaObj(q))
		a := rapid.Int64Range(1, max/250-1).Draw(t, "a") * 250
		b := rapid.Int64Range(1, (max-a)/250).Draw(t, "b") * 250
		cc := rapid.Int64Range(1, max/250).Draw(t, "c") * 250
		mk := func(name string, milli int64) *corev1.Pod {
			return &corev1.Pod{ObjectMeta: metav1.ObjectMeta{Name: name, Namespace: "work", ResourceVersion: "1", Labels: map[string]string{extension.LabelQuotaName: "q"}},
				Spec: corev1.PodSpec{Containers: []corev1.Container{{Name: "c", Resources: corev1.ResourceRequirements{Requests: corev1.ResourceList{corev1.ResourceCPU: c03Qty(milli, corev1.ResourceCPU)}}}}}}
		}
		sched := func(pod *corev1.Pod) bool {
			p.OnPodAdd(pod)
			_, st := p.PreFilter(context.TODO(), framework.NewCycleState(), pod, nil)
			if st.Code() != fwktype.Success {
				return false
			}
			p.Reserve(context.TODO(), framework.NewCycleState(), pod, "n1")
			return true
		}
		pa, pb, pc := mk("a", a), mk("b", b), mk("c", cc)
		if !sched(pa) || !sched(pb) {
			t.Fatalf("setup: pods a=%d b=%d do not fit max=%d although a+b<=max", a, b, max)
		}
		hook.mu.Lock()
		hook.armed, hook.gotIn, hook.done = "b", false, nil
		hook.run = func() { p.OnPodDelete(pb) }
		hook.mu.Unlock()
		p.Unreserve(context.TODO(), framework.NewCycleState(), pb, "n1")
		hook.mu.Lock()
		done, gotIn := hook.done, hook.gotIn
		hook.mu.Unlock()
		if done == nil {
			t.Fatalf("the roll-back never reached the hook")
		}
		<-done // quiescence: roll-back returned, delete delivered
		c.ClassIf(gotIn, "delete-ran-inside-the-roll-back")
		c.ClassIf(!gotIn, "delete-waited-until-the-roll-back-returned")
		// pod b is gone and holds nothing; pod a still holds a. The next admission must see exactly that.
		p.OnPodAdd(pc)
		_, st := p.PreFilter(context.TODO(), framework.NewCycleState(), pc, nil)
		fits := a+cc <= max
		c.ClassIf(fits, "next-pod-fits")
		c.ClassIf(!fits, "next-pod-does-not-fit")
		c.NonTrivial(max, a, b, cc)
		c.Sample(map[string]any{"max": max, "a": a, "b": b, "c": cc, "deleteRanInside": gotIn, "verdict": fmt.Sprint(st.Code())})
		shown := p.GetQuotaSummaries("", false)["q"]
		switch {
		case st.Code() == fwktype.Success && !fits:
			c.Violation(t, "admit:own-quota-over-limit:after-interleaved-unreserve-and-delete", "max %d; pod a (%d) reserved, pod b (%d) rolled back while its delete event arrived (delete ran inside the roll-back: %v); pod c (%d) admitted although %d + %d > %d; plugin shows used=%s",
				max, a, b, gotIn, cc, a, cc, max, c03Str(c03FromList(shown.Used)))
		case st.Code() == fwktype.Unschedulable && fits:
			c.Violation(t, "reject:no-limit-exceeded:after-interleaved-unreserve-and-delete", "max %d; pod a (%d) reserved, pod b (%d) rolled back and deleted together; pod c (%d) rejected (%s) although %d + %d <= %d; plugin shows used=%s",
				max, a, b, cc, st.Message(), a, cc, max, c03Str(c03FromList(shown.Used)))
		}
	})
}
