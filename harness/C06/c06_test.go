//go:build verif

// C06 — CPU and NUMA allocations are exact, disjoint and within capacity.
// See /verif/DESIGN.md §1 C06. In-package harness (injected with -overlay).
package nodenumaresource

import (
	"fmt"
	"sort"
	"testing"

	corev1 "k8s.io/api/core/v1"
	"k8s.io/apimachinery/pkg/api/resource"
	"k8s.io/apimachinery/pkg/types"
	"pgregory.net/rapid"

	schedulingconfig "github.com/koordinator-sh/koordinator/pkg/scheduler/apis/config"
	"github.com/koordinator-sh/koordinator/pkg/scheduler/frameworkext/topologymanager"
	"github.com/koordinator-sh/koordinator/pkg/util/bitmask"
	"github.com/koordinator-sh/koordinator/pkg/util/cpuset"
	"github.com/koordinator-sh/koordinator/pkg/verifkit/vk"
)

// ---------------------------------------------------------------- generators

type c06Topo struct {
	Sockets, NodesPerSocket, CoresPerNode, Threads int
	topo                                           *CPUTopology
}

// violation messages must be identical when a case is re-run (rapid only minimizes a failure it can reproduce with the same
// message), so the topology is printed by its dimensions, never with the pointer
func (tp c06Topo) String() string {
	return fmt.Sprintf("{sockets:%d numaPerSocket:%d coresPerNUMA:%d threads:%d}", tp.Sockets, tp.NodesPerSocket, tp.CoresPerNode, tp.Threads)
}

func c06BuildTopo(s, n, c, p int) *CPUTopology {
	topo := &CPUTopology{NumSockets: s, NumNodes: n * s, NumCores: c * n * s, NumCPUs: p * c * n * s, CPUDetails: make(map[int]CPUInfo)}
	var nodeID, coreID, cpuID int
	for si := 0; si < s; si++ {
		for ni := 0; ni < n; ni++ {
			for ci := 0; ci < c; ci++ {
				for pi := 0; pi < p; pi++ {
					topo.CPUDetails[cpuID] = CPUInfo{SocketID: si, NodeID: nodeID, CoreID: coreID, CPUID: cpuID}
					cpuID++
				}
				coreID++
			}
			nodeID++
		}
	}
	return topo
}

func c06GenTopo(t *rapid.T) c06Topo {
	s := rapid.IntRange(1, 2).Draw(t, "sockets")
	n := rapid.IntRange(1, 2).Draw(t, "nodesPerSocket")
	c := rapid.IntRange(1, 8).Draw(t, "coresPerNode")
	p := rapid.SampledFrom([]int{1, 2, 2, 2, 4}).Draw(t, "threads")
	return c06Topo{s, n, c, p, c06BuildTopo(s, n, c, p)}
}

var c06BindPolicies = []schedulingconfig.CPUBindPolicy{
	schedulingconfig.CPUBindPolicyDefault, schedulingconfig.CPUBindPolicyFullPCPUs, schedulingconfig.CPUBindPolicySpreadByPCPUs,
}
var c06ExclPolicies = []schedulingconfig.CPUExclusivePolicy{
	schedulingconfig.CPUExclusivePolicyNone, schedulingconfig.CPUExclusivePolicyPCPULevel, schedulingconfig.CPUExclusivePolicyNUMANodeLevel,
}
var c06Strategies = []schedulingconfig.NUMAAllocateStrategy{schedulingconfig.NUMAMostAllocated, schedulingconfig.NUMALeastAllocated}

func c06Subset(t *rapid.T, ids []int, label string) []int {
	mode := rapid.IntRange(0, 3).Draw(t, label+"Mode")
	var out []int
	switch mode {
	case 0: // everything
		out = append(out, ids...)
	default:
		mask := rapid.SliceOfN(rapid.Bool(), len(ids), len(ids)).Draw(t, label+"Mask")
		for i, id := range ids {
			if mask[i] {
				out = append(out, id)
			}
		}
	}
	return out
}

// ---------------------------------------------------------------- (1) takeCPUs / takePreferredCPUs on arbitrary free sets

func TestVerifC06TakeCPUs(t *testing.T) {
	rec := vk.New(t, "C06", "takeCPUs")
	rapid.Check(t, c06TakeCPUsProp(rec))
}

func c06TakeCPUsProp(rec *vk.Rec) func(*rapid.T) {
	return func(t *rapid.T) {
		c := rec.Begin()
		defer c.End()
		tp := c06GenTopo(t)
		topo := tp.topo
		all := topo.CPUDetails.CPUs().ToSlice()
		maxRef := rapid.IntRange(1, 2).Draw(t, "maxRefCount")
		avail := c06Subset(t, all, "avail")
		availSet := cpuset.NewCPUSet(avail...)
		// CPUs already held by others: arbitrary, with refcounts; a CPU at refcount >= maxRef is not available
		allocated := NewCPUDetails()
		for _, id := range all {
			if rapid.IntRange(0, 3).Draw(t, fmt.Sprintf("alloc%d", id)) == 0 {
				info := topo.CPUDetails[id]
				info.RefCount = rapid.IntRange(1, maxRef).Draw(t, "ref")
				info.ExclusivePolicy = rapid.SampledFrom(c06ExclPolicies).Draw(t, "exclOf")
				allocated[id] = info
				if info.RefCount >= maxRef {
					availSet = availSet.Difference(cpuset.NewCPUSet(id))
				}
			}
		}
		n := rapid.IntRange(0, len(all)+2).Draw(t, "need")
		bind := rapid.SampledFrom(c06BindPolicies).Draw(t, "bind")
		excl := rapid.SampledFrom(c06ExclPolicies).Draw(t, "excl")
		strat := rapid.SampledFrom(c06Strategies).Draw(t, "strategy")
		usePreferred := rapid.Bool().Draw(t, "usePreferred")
		var preferred cpuset.CPUSet
		if usePreferred {
			preferred = cpuset.NewCPUSet(c06Subset(t, all, "preferred")...)
		}

		var got cpuset.CPUSet
		var err error
		func() {
			defer func() {
				if r := recover(); r != nil {
					c.Violation(t, "takecpus:panic", "takeCPUs panicked: %v topo=%+v avail=%v need=%d bind=%v excl=%v", r, tp, availSet, n, bind, excl)
				}
			}()
			if usePreferred {
				got, err = takePreferredCPUs(topo, maxRef, availSet, preferred, allocated, n, bind, excl, strat)
			} else {
				got, err = takeCPUs(topo, maxRef, availSet, allocated, n, bind, excl, strat)
			}
		}()
		asym := false
		{ // a partially free core makes the free set asymmetric
			d := topo.CPUDetails.KeepOnly(availSet)
			for _, core := range d.Cores().ToSliceNoSort() {
				if d.CPUsInCores(core).Size() != topo.CPUsPerCore() {
					asym = true
				}
			}
		}
		c.ClassIf(asym, "asymmetric-free-set")
		c.ClassIf(err == nil, "success")
		c.ClassIf(err != nil, "refused")
		c.ClassIf(usePreferred, "preferred")
		c.ClassIf(n > tp.topo.CPUsPerNode(), "spans-numa")
		c.ClassIf(maxRef > 1, "maxref2")
		c.Class("bind:" + string(bind))
		c.Class("excl:" + string(excl))
		if asym && n > topo.CPUsPerNode() && err == nil {
			c.NonTrivial(tp.Sockets, tp.NodesPerSocket, tp.CoresPerNode, tp.Threads, availSet.String(), n, bind, excl, strat, maxRef, preferred.String())
		}
		c.Sample(map[string]any{"topo": []int{tp.Sockets, tp.NodesPerSocket, tp.CoresPerNode, tp.Threads}, "available": availSet.String(),
			"need": n, "bind": bind, "excl": excl, "strategy": strat, "maxRef": maxRef, "preferred": preferred.String(),
			"result": got.String(), "err": fmt.Sprint(err)})
		if err != nil {
			if n <= availSet.Size() && n >= 0 {
				c.Class("refused-though-enough-free(not asserted)")
			}
			return
		}
		if got.Size() != n {
			c.Violation(t, "takecpus:wrong-count", "asked %d CPUs, got %d (%v) avail=%v topo=%+v bind=%v excl=%v pref=%v", n, got.Size(), got, availSet, tp, bind, excl, preferred)
			return
		}
		if !got.IsSubsetOf(availSet) {
			c.Violation(t, "takecpus:not-from-free", "result %v not within free %v (topo=%+v bind=%v excl=%v pref=%v)", got, availSet, tp, bind, excl, preferred)
			return
		}
	}
}

// ---------------------------------------------------------------- (2) NUMA split

func c06Mask(ids []int) bitmask.BitMask {
	m, _ := bitmask.NewBitMask(ids...)
	return m
}

func TestVerifC06NUMASplit(t *testing.T) {
	rec := vk.New(t, "C06", "numaSplit")
	rapid.Check(t, c06NUMASplitProp(rec))
}

func c06NUMASplitProp(rec *vk.Rec) func(*rapid.T) {
	return func(t *rapid.T) {
		c := rec.Begin()
		defer c.End()
		nNodes := rapid.IntRange(1, 4).Draw(t, "numaNodes")
		ids := make([]int, nNodes)
		for i := range ids {
			ids[i] = i
		}
		// hint: any non-empty subset of node ids
		var hint []int
		for len(hint) == 0 {
			mask := rapid.SliceOfN(rapid.Bool(), nNodes, nNodes).Draw(t, "hintMask")
			hint = hint[:0]
			for i, b := range mask {
				if b {
					hint = append(hint, i)
				}
			}
			if len(hint) == 0 {
				hint = []int{rapid.IntRange(0, nNodes-1).Draw(t, "hintOne")}
			}
		}
		memGen := rapid.OneOf(rapid.Int64Range(0, 16), rapid.Int64Range(0, 1<<20), rapid.Int64Range(0, 1<<40))
		cpuGen := rapid.OneOf(rapid.Int64Range(0, 8000), rapid.Int64Range(0, 256000))
		withCPU := rapid.Bool().Draw(t, "numaHasCPU")
		total := map[int]corev1.ResourceList{}
		for _, id := range ids {
			rl := corev1.ResourceList{corev1.ResourceMemory: *resource.NewQuantity(memGen.Draw(t, "availMem"), resource.BinarySI)}
			if withCPU {
				rl[corev1.ResourceCPU] = *resource.NewMilliQuantity(cpuGen.Draw(t, "availCPU"), resource.DecimalSI)
			}
			total[id] = rl
		}
		var sumMem, sumCPU int64
		for _, id := range hint {
			q := total[id][corev1.ResourceMemory]
			sumMem += q.Value()
			q = total[id][corev1.ResourceCPU]
			sumCPU += q.MilliValue()
		}
		// request: around the boundary of what the hinted nodes hold together
		pick := func(sum int64, label string) int64 {
			switch rapid.IntRange(0, 4).Draw(t, label+"Kind") {
			case 0:
				return sum
			case 1:
				return sum + 1
			case 2:
				if sum > 0 {
					return sum - 1
				}
				return 0
			case 3:
				return rapid.Int64Range(0, sum).Draw(t, label)
			default:
				return rapid.Int64Range(0, 2*sum+2).Draw(t, label)
			}
		}
		reqMem := pick(sumMem, "reqMem")
		reqCPU := pick(sumCPU, "reqCPU")
		requests := corev1.ResourceList{}
		hasMem := rapid.IntRange(0, 4).Draw(t, "hasMem") > 0
		hasCPU := rapid.Bool().Draw(t, "hasCPU")
		if hasMem {
			requests[corev1.ResourceMemory] = *resource.NewQuantity(reqMem, resource.BinarySI)
		}
		if hasCPU {
			requests[corev1.ResourceCPU] = *resource.NewMilliQuantity(reqCPU, resource.DecimalSI)
		}
		opts := &ResourceOptions{requestCPUBind: false, hint: topologymanager.NUMATopologyHint{NUMANodeAffinity: c06Mask(hint)}}
		// the function mutates requests; keep a copy
		orig := requests.DeepCopy()
		availCopy := map[int]corev1.ResourceList{}
		for k, v := range total {
			availCopy[k] = v.DeepCopy()
		}
		result, reasons := tryBestToDistributeEvenly(requests, total, opts)

		notPrefix := hint[0] != 0 || hint[len(hint)-1] != len(hint)-1
		unequal := false
		for _, id := range hint[1:] {
			a, b := availCopy[id][corev1.ResourceMemory], availCopy[hint[0]][corev1.ResourceMemory]
			if a.Cmp(b) != 0 {
				unequal = true
			}
		}
		c.ClassIf(notPrefix, "hint-not-0..k")
		c.ClassIf(len(hint) > 1, "multi-node-hint")
		c.ClassIf(len(reasons) == 0, "success")
		c.ClassIf(len(reasons) > 0, "refused")
		if notPrefix && unequal && len(hint) > 1 {
			c.NonTrivial(hint, fmt.Sprint(availCopy), fmt.Sprint(orig))
		}
		c.Sample(map[string]any{"hint": hint, "available": c06RL(availCopy), "request": c06RLOne(orig), "result": fmt.Sprint(result), "reasons": reasons})

		// completeness for freely divisible resources
		for _, rn := range []corev1.ResourceName{corev1.ResourceMemory, corev1.ResourceCPU} {
			q, ok := orig[rn]
			if !ok {
				continue
			}
			if rn == corev1.ResourceCPU && !withCPU {
				continue
			}
			var sum, req int64
			if rn == corev1.ResourceCPU {
				sum, req = sumCPU, q.MilliValue()
			} else {
				sum, req = sumMem, q.Value()
			}
			insufficient := false
			for _, r := range reasons {
				if r == fmt.Sprintf("Insufficient NUMA %s", rn) {
					insufficient = true
				}
			}
			if sum >= req && insufficient {
				sig := "numa-split:refused-though-enough"
				if notPrefix {
					sig = "numa-split:refused-though-enough:hint-not-prefix"
				}
				if c.Violation(t, sig, "%s: request %d, hinted nodes %v hold %d together (available %v) but split reported %v", rn, req, hint, sum, c06RL(availCopy), reasons) {
					return
				}
			}
			if sum < req && !insufficient {
				c.Violation(t, "numa-split:accepted-though-short", "%s: request %d > %d free on hinted %v but accepted: %v", rn, req, sum, hint, result)
				return
			}
		}
		if len(reasons) > 0 {
			return
		}
		// exactness, per-node bound, only hinted nodes
		got := map[corev1.ResourceName]int64{}
		inHint := map[int]bool{}
		for _, id := range hint {
			inHint[id] = true
		}
		seen := map[int]bool{}
		for _, r := range result {
			if seen[r.Node] {
				c.Violation(t, "numa-split:duplicate-node", "node %d twice in %v", r.Node, result)
				return
			}
			seen[r.Node] = true
			if !inHint[r.Node] {
				c.Violation(t, "numa-split:outside-hint", "allocated on node %d outside hint %v: %v", r.Node, hint, result)
				return
			}
			for rn, q := range r.Resources {
				av := availCopy[r.Node][rn]
				if q.Cmp(av) > 0 {
					c.Violation(t, "numa-split:over-node-free", "node %d %s allocated %s > free %s", r.Node, rn, q.String(), av.String())
					return
				}
				if q.Sign() < 0 {
					c.Violation(t, "numa-split:negative", "node %d %s allocated %s", r.Node, rn, q.String())
					return
				}
				got[rn] += q.MilliValue()
			}
		}
		for rn, q := range orig {
			if _, numa := availCopy[0][rn]; !numa {
				continue
			}
			if got[rn] != q.MilliValue() {
				c.Violation(t, "numa-split:not-exact", "%s: requested %d milli, handed out %d milli (hint %v avail %v result %v)", rn, q.MilliValue(), got[rn], hint, c06RL(availCopy), result)
				return
			}
		}
	}
}

func c06RLOne(rl corev1.ResourceList) map[string]string {
	m := map[string]string{}
	for k, v := range rl {
		m[string(k)] = v.String()
	}
	return m
}

func c06RL(m map[int]corev1.ResourceList) map[string]map[string]string {
	out := map[string]map[string]string{}
	for k, v := range m {
		out[fmt.Sprint(k)] = c06RLOne(v)
	}
	return out
}

// ---------------------------------------------------------------- (3) allocate / update / release histories through resourceManager

type c06Pod struct {
	UID   types.UID
	Alloc *PodAllocation
}

func TestVerifC06ManagerHistory(t *testing.T) {
	rec := vk.New(t, "C06", "managerHistory")
	rapid.Check(t, c06ManagerHistoryProp(rec, false))
}

// The same state machine plus two rules (a separate test, so that the draw sequence of TestVerifC06ManagerHistory stays what it was):
//   - topologyFlap: the node's NodeResourceTopology is deleted (topologyOptionsManager.Delete — what the NRT informer's OnDelete
//     does), pods are deleted / updated / attempted while no topology is known, then the same topology is reported again;
//   - reusableDryRun: a scheduling attempt that may reuse the CPUs of a matched reservation (ResourceOptions.preferredCPUs and
//     reusableResources — what tryAllocateFromReusable passes), mostly with a NUMA hint and a REQUIRED bind policy.
func TestVerifC06ManagerHistoryExt(t *testing.T) {
	rec := vk.New(t, "C06", "managerHistoryExt")
	rapid.Check(t, c06ManagerHistoryProp(rec, true))
}

func c06ManagerHistoryProp(rec *vk.Rec, ext bool) func(*rapid.T) {
	return func(t *rapid.T) {
		c := rec.Begin()
		defer c.End()
		tp := c06GenTopo(t)
		topo := tp.topo
		all := topo.CPUDetails.CPUs().ToSlice()
		maxRef := rapid.IntRange(1, 2).Draw(t, "maxRefCount")
		reserved := cpuset.NewCPUSet()
		if rapid.Bool().Draw(t, "hasReserved") {
			reserved = cpuset.NewCPUSet(c06Subset(t, all, "reserved")...)
			if reserved.Size() == len(all) {
				reserved = cpuset.NewCPUSet()
			}
		}
		memPerNode := rapid.Int64Range(0, 1<<12).Draw(t, "memPerNode")
		tom := NewTopologyOptionsManager()
		const nodeName = "n"
		reportTopology := func() {
			tom.UpdateTopologyOptions(nodeName, func(o *TopologyOptions) {
				o.CPUTopology = topo
				o.MaxRefCount = maxRef
				o.ReservedCPUs = reserved
				o.NUMANodeResources = nil
				for i := 0; i < topo.NumNodes; i++ {
					o.NUMANodeResources = append(o.NUMANodeResources, NUMANodeResource{Node: i, Resources: corev1.ResourceList{
						corev1.ResourceCPU:    *resource.NewMilliQuantity(int64(topo.CPUsPerNode())*1000, resource.DecimalSI),
						corev1.ResourceMemory: *resource.NewQuantity(memPerNode, resource.BinarySI),
					}})
				}
			})
		}
		reportTopology()
		strat := rapid.SampledFrom(c06Strategies).Draw(t, "strategy")
		rm := &resourceManager{numaAllocateStrategy: strat, topologyOptionsManager: tom, nodeAllocations: map[string]*NodeAllocation{}}
		node := &corev1.Node{}
		node.Name = nodeName

		live := map[types.UID]*PodAllocation{}
		next := 0
		var hist []string
		sawShared, sawNUMA, sawReleaseAfterShare, sawRequired := false, false, false, false
		sawRealloc, sawPeek := false, false
		dead := false // set when a case is abandoned on a known finding: remaining actions become no-ops
		// used by the ext rules only
		topoGone := false // between "NodeResourceTopology deleted" and "reported again"
		flapOps, flapReleases, flapAttempts, flapAttemptOK := 0, 0, 0, 0
		releasedWhileGone, allocAfterGoneRelease := false, false
		reusableRuns, reusableOK, unalignedRuns, targetRuns, targetOK := 0, 0, 0, 0, 0
		preemptRuns, preemptOK, preemptOffZero, preemptBoundary := 0, 0, 0, 0
		reservedChanged, reservedRefreshes, heldBecameReserved := false, 0, 0

		check := func(where string) bool {
			na := rm.GetNodeAllocation(nodeName)
			// model refcounts
			ref := map[int]int{}
			for _, a := range live {
				for _, id := range a.CPUSet.ToSliceNoSort() {
					ref[id]++
				}
			}
			for id, n := range ref {
				if n > maxRef {
					return c.Violation(t, "history:cpu-over-shared", "%s: cpu %d held by %d live pods > sharing limit %d; history=%v", where, id, n, maxRef, hist)
				}
				if !reservedChanged && reserved.Contains(id) {
					return c.Violation(t, "history:reserved-cpu-allocated", "%s: node-reserved cpu %d allocated; history=%v", where, id, hist)
				}
				if na.allocatedCPUs[id].RefCount != n {
					return c.Violation(t, "history:refcount-mismatch", "%s: cpu %d ledger refcount %d, live holders %d; history=%v", where, id, na.allocatedCPUs[id].RefCount, n, hist)
				}
			}
			for id, info := range na.allocatedCPUs {
				if ref[id] == 0 {
					return c.Violation(t, "history:stale-cpu-entry", "%s: ledger holds cpu %d (ref %d) with no live holder; history=%v", where, id, info.RefCount, hist)
				}
			}
			if len(na.allocatedPods) != len(live) {
				return c.Violation(t, "history:pod-set-mismatch", "%s: ledger has %d pods, model %d; history=%v", where, len(na.allocatedPods), len(live), hist)
			}
			// NUMA ledger equals the sum over live pods, and stays within capacity
			want := map[int]map[corev1.ResourceName]int64{}
			for _, a := range live {
				for _, r := range a.NUMANodeResources {
					if want[r.Node] == nil {
						want[r.Node] = map[corev1.ResourceName]int64{}
					}
					for rn, q := range r.Resources {
						want[r.Node][rn] += q.MilliValue()
					}
				}
			}
			for i := 0; i < topo.NumNodes; i++ {
				var have corev1.ResourceList
				if na.allocatedResources[i] != nil {
					have = na.allocatedResources[i].Resources
				}
				for _, rn := range []corev1.ResourceName{corev1.ResourceCPU, corev1.ResourceMemory} {
					q := have[rn]
					if q.MilliValue() != want[i][rn] {
						return c.Violation(t, "history:numa-ledger-mismatch", "%s: NUMA %d %s ledger %d milli, live pods sum %d milli; history=%v", where, i, rn, q.MilliValue(), want[i][rn], hist)
					}
				}
				if want[i][corev1.ResourceMemory] > memPerNode*1000 {
					return c.Violation(t, "history:numa-over-capacity", "%s: NUMA %d memory allocated %d > capacity %d; history=%v", where, i, want[i][corev1.ResourceMemory]/1000, memPerNode, hist)
				}
				if want[i][corev1.ResourceCPU] > int64(topo.CPUsPerNode())*1000 {
					return c.Violation(t, "history:numa-over-capacity", "%s: NUMA %d cpu allocated %d milli > capacity; history=%v", where, i, want[i][corev1.ResourceCPU], hist)
				}
			}
			if topoGone { // no topology known: only the ledger itself can be compared with the model
				return false
			}
			// GetAvailableCPUs agrees with the model
			avail, _, err := rm.GetAvailableCPUs(nodeName)
			if err != nil {
				return c.Violation(t, "history:getavailable-error", "%s: %v", where, err)
			}
			for _, id := range all {
				wantFree := ref[id] < maxRef && !reserved.Contains(id)
				if avail.Contains(id) != wantFree {
					return c.Violation(t, "history:available-mismatch", "%s: cpu %d available=%v, model free=%v (holders %d, limit %d); history=%v", where, id, avail.Contains(id), wantFree, ref[id], maxRef, hist)
				}
			}
			return false
		}

		actions := map[string]func(*rapid.T){
			"allocate": func(t *rapid.T) {
				if dead {
					return
				}
				uid := types.UID(fmt.Sprintf("p%d", next))
				next++
				cpuBind := rapid.IntRange(0, 3).Draw(t, "cpuBind") > 0
				useHint := rapid.Bool().Draw(t, "useHint")
				n := rapid.IntRange(1, len(all)+1).Draw(t, "need")
				bind := rapid.SampledFrom(c06BindPolicies).Draw(t, "bind")
				required := rapid.Bool().Draw(t, "required") && bind != schedulingconfig.CPUBindPolicyDefault
				excl := rapid.SampledFrom(c06ExclPolicies).Draw(t, "excl")
				req := corev1.ResourceList{corev1.ResourceCPU: *resource.NewMilliQuantity(int64(n)*1000, resource.DecimalSI)}
				if !cpuBind {
					req[corev1.ResourceCPU] = *resource.NewMilliQuantity(rapid.Int64Range(1, int64(len(all))*1000).Draw(t, "milli"), resource.DecimalSI)
				}
				if rapid.Bool().Draw(t, "wantMem") {
					req[corev1.ResourceMemory] = *resource.NewQuantity(rapid.Int64Range(0, memPerNode*int64(topo.NumNodes)+1).Draw(t, "mem"), resource.BinarySI)
				}
				opts := &ResourceOptions{numCPUsNeeded: n, requestCPUBind: cpuBind, requests: req.DeepCopy(), originalRequests: req.DeepCopy(),
					requiredCPUBindPolicy: required && cpuBind, cpuBindPolicy: bind, cpuExclusivePolicy: excl, topologyOptions: tom.GetTopologyOptions(nodeName)}
				if !cpuBind {
					opts.numCPUsNeeded = 0
				}
				var hint []int
				if useHint {
					for i := 0; i < topo.NumNodes; i++ {
						if rapid.Bool().Draw(t, "hintBit") {
							hint = append(hint, i)
						}
					}
					if len(hint) == 0 {
						hint = []int{rapid.IntRange(0, topo.NumNodes-1).Draw(t, "hintOne")}
					}
					opts.hint = topologymanager.NUMATopologyHint{NUMANodeAffinity: c06Mask(hint)}
				}
				if !cpuBind && !useHint {
					return // nothing to allocate for such a pod
				}
				pod := &corev1.Pod{}
				pod.UID, pod.Name, pod.Namespace = uid, string(uid), "default"
				availBefore, _, _ := rm.GetAvailableCPUs(nodeName)
				var alloc *PodAllocation
				var failed bool
				func() {
					defer func() {
						if r := recover(); r != nil {
							c.Violation(t, "history:allocate-panic", "Allocate panicked: %v; history=%v", r, hist)
							failed, dead = true, true
						}
					}()
					a, st := rm.Allocate(node, pod, opts)
					if st.IsSuccess() {
						alloc = a
					}
				}()
				if failed {
					return
				}
				hist = append(hist, fmt.Sprintf("allocate %s cpuBind=%v n=%d bind=%v req=%v excl=%v hint=%v mem=%v -> %v", uid, cpuBind, n, bind, required, excl, hint, c06RLOne(req), c06AllocStr(alloc)))
				if alloc == nil {
					return
				}
				if cpuBind {
					if alloc.CPUSet.Size() != n {
						c.Violation(t, "history:wrong-count", "asked %d CPUs got %v; history=%v", n, alloc.CPUSet, hist)
						dead = true
						return
					}
					if !alloc.CPUSet.IsSubsetOf(availBefore) {
						c.Violation(t, "history:not-from-free", "got %v, free before was %v; history=%v", alloc.CPUSet, availBefore, hist)
						dead = true
						return
					}
					for _, id := range alloc.CPUSet.ToSliceNoSort() {
						if reserved.Contains(id) {
							c.Violation(t, "history:reserved-cpu-allocated", "node-reserved cpu %d handed out (%v, reserved %v); history=%v", id, alloc.CPUSet, reserved, hist)
							dead = true
							return
						}
					}
					if opts.requiredCPUBindPolicy {
						sawRequired = true
						if !c06PolicyHolds(bind, alloc.CPUSet, topo) {
							c.Violation(t, "history:required-policy-not-met", "required %v reported satisfied by %v on topo %+v; history=%v", bind, alloc.CPUSet, tp, hist)
							dead = true
							return
						}
					}
					if useHint { // CPUs must come from the NUMA nodes that were charged
						for _, id := range alloc.CPUSet.ToSliceNoSort() {
							ok := false
							for _, r := range alloc.NUMANodeResources {
								if r.Node == topo.CPUDetails[id].NodeID {
									ok = true
								}
							}
							if !ok {
								c.Class("cpu-outside-charged-numa(not asserted)")
							}
						}
					}
				}
				if useHint {
					sawNUMA = true
					sum := map[corev1.ResourceName]int64{}
					for _, r := range alloc.NUMANodeResources {
						in := false
						for _, h := range hint {
							if h == r.Node {
								in = true
							}
						}
						if !in {
							c.Violation(t, "history:numa-outside-hint", "allocated on NUMA %d outside hint %v; history=%v", r.Node, hint, hist)
							dead = true
							return
						}
						for rn, q := range r.Resources {
							sum[rn] += q.MilliValue()
						}
					}
					for rn, q := range req {
						if sum[rn] != q.MilliValue() {
							c.Violation(t, "history:numa-not-exact", "%s requested %d milli, NUMA allocation sums to %d; history=%v", rn, q.MilliValue(), sum[rn], hist)
							dead = true
							return
						}
					}
				}
				rm.Update(nodeName, alloc)
				live[uid] = alloc
				if releasedWhileGone {
					allocAfterGoneRelease = true
				}
				for _, id := range alloc.CPUSet.ToSliceNoSort() {
					holders := 0
					for _, a := range live {
						if a.CPUSet.Contains(id) {
							holders++
						}
					}
					if holders > 1 {
						sawShared = true
					}
				}
			},
			// an already placed pod gets a new allocation (Update replaces the old one; nothing of the old may stay charged)
			"reallocate": func(t *rapid.T) {
				if dead {
					return
				}
				if len(live) == 0 {
					t.Skip("no live pod")
				}
				uid := rapid.SampledFrom(c06SortedUIDs(live)).Draw(t, "uid")
				cpuBind := rapid.Bool().Draw(t, "cpuBind")
				n := rapid.IntRange(1, len(all)).Draw(t, "need")
				req := corev1.ResourceList{corev1.ResourceCPU: *resource.NewMilliQuantity(int64(n)*1000, resource.DecimalSI)}
				if !cpuBind {
					req[corev1.ResourceCPU] = *resource.NewMilliQuantity(rapid.Int64Range(1, int64(len(all))*1000).Draw(t, "milli"), resource.DecimalSI)
				}
				if rapid.Bool().Draw(t, "wantMem") {
					req[corev1.ResourceMemory] = *resource.NewQuantity(rapid.Int64Range(0, memPerNode*int64(topo.NumNodes)+1).Draw(t, "mem"), resource.BinarySI)
				}
				var hint []int
				for i := 0; i < topo.NumNodes; i++ {
					if rapid.Bool().Draw(t, "hintBit") {
						hint = append(hint, i)
					}
				}
				if len(hint) == 0 && !cpuBind {
					hint = []int{rapid.IntRange(0, topo.NumNodes-1).Draw(t, "hintOne")}
				}
				opts := &ResourceOptions{numCPUsNeeded: n, requestCPUBind: cpuBind, requests: req.DeepCopy(), originalRequests: req.DeepCopy(),
					cpuBindPolicy: schedulingconfig.CPUBindPolicyDefault, topologyOptions: tom.GetTopologyOptions(nodeName)}
				if !cpuBind {
					opts.numCPUsNeeded = 0
				}
				if len(hint) > 0 {
					opts.hint = topologymanager.NUMATopologyHint{NUMANodeAffinity: c06Mask(hint)}
				}
				pod := &corev1.Pod{}
				pod.UID, pod.Name, pod.Namespace = uid, string(uid), "default"
				a, st := rm.Allocate(node, pod, opts)
				if !st.IsSuccess() {
					hist = append(hist, fmt.Sprintf("reallocate %s cpuBind=%v n=%d hint=%v req=%v -> refused", uid, cpuBind, n, hint, c06RLOne(req)))
					return
				}
				for _, id := range a.CPUSet.ToSliceNoSort() {
					if reserved.Contains(id) {
						hist = append(hist, fmt.Sprintf("reallocate %s -> %v", uid, c06AllocStr(a)))
						c.Violation(t, "history:reserved-cpu-allocated", "node-reserved cpu %d handed out (%v, reserved %v); history=%v", id, a.CPUSet, reserved, hist)
						dead = true
						return
					}
				}
				rm.Update(nodeName, a)
				live[uid] = a
				sawRealloc = true
				hist = append(hist, fmt.Sprintf("reallocate %s cpuBind=%v n=%d hint=%v req=%v -> %v", uid, cpuBind, n, hint, c06RLOne(req), c06AllocStr(a)))
			},
			// a scheduling attempt that is evaluated but not carried out (filter / preemption dry run): asks which CPUs would be
			// available if the given reservation-restored and preemptible CPUs were handed back; it must not change the ledger
			"peekAvailable": func(t *rapid.T) {
				if dead {
					return
				}
				var held []int
				ref := map[int]int{}
				for _, a := range live {
					for _, id := range a.CPUSet.ToSliceNoSort() {
						ref[id]++
					}
				}
				for _, id := range all {
					if ref[id] > 0 {
						held = append(held, id)
					}
				}
				pick := func(label string) cpuset.CPUSet {
					if len(held) == 0 || rapid.IntRange(0, 2).Draw(t, label+"Empty") == 0 {
						return cpuset.NewCPUSet()
					}
					return cpuset.NewCPUSet(c06Subset(t, held, label)...)
				}
				preferred, preemptible := pick("preferred"), pick("preemptible")
				var got cpuset.CPUSet
				var err error
				viaAllocate := rapid.Bool().Draw(t, "viaAllocate")
				if viaAllocate {
					n := rapid.IntRange(1, len(all)).Draw(t, "need")
					req := corev1.ResourceList{corev1.ResourceCPU: *resource.NewMilliQuantity(int64(n)*1000, resource.DecimalSI)}
					opts := &ResourceOptions{numCPUsNeeded: n, requestCPUBind: true, requests: req.DeepCopy(), originalRequests: req.DeepCopy(),
						cpuBindPolicy: schedulingconfig.CPUBindPolicyDefault, topologyOptions: tom.GetTopologyOptions(nodeName),
						preferredCPUs: preferred, preemptibleCPUs: preemptible}
					pod := &corev1.Pod{}
					pod.UID, pod.Name, pod.Namespace = "dry", "dry", "default"
					a, st := rm.Allocate(node, pod, opts)
					hist = append(hist, fmt.Sprintf("dryRunAllocate n=%d preferred=%s preemptible=%s -> %v (not committed)", n, preferred, preemptible, st.IsSuccess()))
					if st.IsSuccess() {
						got = a.CPUSet
						// every CPU handed out must have been free or handed back by one of the two sets
						for _, id := range got.ToSliceNoSort() {
							back := 0
							if preferred.Contains(id) {
								back++
							}
							if preemptible.Contains(id) {
								back++
							}
							if reserved.Contains(id) || ref[id]-back >= maxRef {
								dead = true
								c.Violation(t, "history:dry-run-took-held-cpu", "dry-run allocation got cpu %d (holders %d, handed back %d times, limit %d, reserved=%v); history=%v", id, ref[id], back, maxRef, reserved.Contains(id), hist)
								return
							}
						}
					}
					sawPeek = sawPeek || !preemptible.IsEmpty() || !preferred.IsEmpty()
					return
				}
				got, _, err = rm.GetAvailableCPUs(nodeName, preferred, preemptible)
				hist = append(hist, fmt.Sprintf("peekAvailable preferred=%s preemptible=%s -> %s", preferred, preemptible, got))
				if err != nil {
					dead = true
					c.Violation(t, "history:getavailable-error", "%v", err)
					return
				}
				for _, id := range all {
					back := 0
					if preferred.Contains(id) {
						back++
					}
					if preemptible.Contains(id) {
						back++
					}
					eff := ref[id] - back
					if eff < 0 {
						eff = 0
					}
					want := !reserved.Contains(id) && eff < maxRef
					if got.Contains(id) != want {
						dead = true
						c.Violation(t, "history:peek-available-mismatch", "cpu %d: available=%v, expected %v (holders %d, handed back %d, limit %d); history=%v", id, got.Contains(id), want, ref[id], back, maxRef, hist)
						return
					}
				}
				sawPeek = sawPeek || !preemptible.IsEmpty() || !preferred.IsEmpty()
			},
			"updateAgain": func(t *rapid.T) {
				if dead {
					return
				}
				if len(live) == 0 {
					t.Skip("no live pod")
				}
				uids := c06SortedUIDs(live)
				uid := rapid.SampledFrom(uids).Draw(t, "uid")
				rm.Update(nodeName, live[uid])
				hist = append(hist, fmt.Sprintf("updateAgain %s", uid))
			},
			"release": func(t *rapid.T) {
				if dead {
					return
				}
				if len(live) == 0 {
					t.Skip("no live pod")
				}
				uids := c06SortedUIDs(live)
				uid := rapid.SampledFrom(uids).Draw(t, "uid")
				rm.Release(nodeName, uid)
				delete(live, uid)
				if sawShared {
					sawReleaseAfterShare = true
				}
				hist = append(hist, fmt.Sprintf("release %s", uid))
			},
			"releaseUnknown": func(t *rapid.T) {
				rm.Release(nodeName, types.UID("ghost"))
				hist = append(hist, "release ghost")
			},
			"": func(t *rapid.T) {
				if !dead && check("after "+fmt.Sprint(len(hist))+" ops") {
					dead = true
				}
			},
		}
		if ext {
			// The NodeResourceTopology of the node is deleted and later reported again (koordlet re-creates it; informer OnDelete ->
			// topologyOptionsManager.Delete, OnAdd -> UpdateTopologyOptions). The ledger lives in the resourceManager and survives; pods
			// recorded before are still live, and pod events keep arriving in between. One compound rule, so that the periods without
			// topology do not dilute the rest of the history. What real callers can do while no valid topology is known:
			//   - Release: pod delete / terminated / unassigned event (pod_eventhandler.go), Unreserve, forget — no topology guard;
			//   - Update of a recorded pod (pod update event): resourceManager.Update ignores it (guard), ledger unchanged either way;
			//   - Allocate for a pod WITHOUT cpu-bind but with a NUMA hint (plugin.go allocate(): only cpu-bind pods are refused up
			//     front when the topology is invalid); evaluated as a dry run here, nothing is committed.
			// The same topology (same MaxRefCount, reserved CPUs, NUMA resources) is reported again at the end of the rule.
			actions["topologyFlap"] = func(t *rapid.T) {
				if dead {
					return
				}
				tom.Delete(nodeName)
				topoGone = true
				hist = append(hist, "NodeResourceTopology deleted")
				k := rapid.IntRange(0, 3).Draw(t, "flapOps")
				for i := 0; i < k && !dead; i++ {
					flapOps++
					switch rapid.IntRange(0, 3).Draw(t, "flapOp") {
					case 0, 1:
						uids := c06SortedUIDs(live)
						if len(uids) == 0 {
							rm.Release(nodeName, types.UID("ghost"))
							hist = append(hist, "release ghost (no topology)")
							break
						}
						uid := rapid.SampledFrom(uids).Draw(t, "uid")
						rm.Release(nodeName, uid)
						delete(live, uid)
						flapReleases++
						releasedWhileGone = true
						hist = append(hist, fmt.Sprintf("release %s (no topology)", uid))
						if left, still := rm.GetNodeAllocation(nodeName).allocatedPods[uid]; still {
							dead = c.Violation(t, "history:release-lost-while-topology-missing", "pod %s was released while the node had no topology but is still recorded in the ledger (%s); history=%v", uid, c06AllocStr(&left), hist)
							return
						}
					case 2:
						uids := c06SortedUIDs(live)
						if len(uids) == 0 {
							break
						}
						uid := rapid.SampledFrom(uids).Draw(t, "uid")
						rm.Update(nodeName, live[uid])
						hist = append(hist, fmt.Sprintf("updateAgain %s (no topology)", uid))
					case 3:
						flapAttempts++
						var hint []int
						for i := 0; i < topo.NumNodes; i++ {
							if rapid.Bool().Draw(t, "hintBit") {
								hint = append(hint, i)
							}
						}
						if len(hint) == 0 {
							hint = []int{rapid.IntRange(0, topo.NumNodes-1).Draw(t, "hintOne")}
						}
						req := corev1.ResourceList{corev1.ResourceCPU: *resource.NewMilliQuantity(rapid.Int64Range(1, int64(len(all))*1000).Draw(t, "milli"), resource.DecimalSI)}
						opts := &ResourceOptions{requests: req.DeepCopy(), originalRequests: req.DeepCopy(), cpuBindPolicy: schedulingconfig.CPUBindPolicyDefault,
							topologyOptions: tom.GetTopologyOptions(nodeName), hint: topologymanager.NUMATopologyHint{NUMANodeAffinity: c06Mask(hint)}}
						pod := &corev1.Pod{}
						pod.UID, pod.Name, pod.Namespace = "dry", "dry", "default"
						_, st := rm.Allocate(node, pod, opts)
						if st.IsSuccess() {
							flapAttemptOK++
						}
						hist = append(hist, fmt.Sprintf("dryRunAllocate hint=%v req=%v (no topology) -> %v (not committed)", hint, c06RLOne(req), st.IsSuccess()))
					}
					if check(fmt.Sprintf("without topology, after %d ops", len(hist))) {
						dead = true
						return
					}
				}
				reportTopology()
				topoGone = false
				hist = append(hist, "NodeResourceTopology reported again (unchanged)")
			}
			// A scheduling attempt that may reuse what a matched reservation holds: the reservation's reserve pod is one of the live
			// pods (it holds its CPUs / NUMA amounts in the ledger); the CPUs it still has to give are passed as preferredCPUs and
			// its NUMA amounts as reusableResources, as tryAllocateFromReusable does. Evaluated as a dry run (Filter, hint generation,
			// FilterNominateReservation); nothing is committed. The clauses of the statement about one successful allocation apply:
			// exact count, only CPUs free for this pod, required policy reported satisfied really is.
			actions["reusableDryRun"] = func(t *rapid.T) {
				if dead {
					return
				}
				var holders []types.UID
				for _, uid := range c06SortedUIDs(live) {
					if !live[uid].CPUSet.IsEmpty() {
						holders = append(holders, uid)
					}
				}
				if len(holders) == 0 {
					t.Skip("no live pod holding CPUs")
				}
				ruid := rapid.SampledFrom(holders).Draw(t, "reservation")
				rsv := live[ruid]
				preferred := cpuset.NewCPUSet(c06Subset(t, rsv.CPUSet.ToSlice(), "remained")...)
				if preferred.IsEmpty() {
					preferred = rsv.CPUSet
				}
				reusable := map[int]corev1.ResourceList{}
				for _, r := range rsv.NUMANodeResources {
					rl := corev1.ResourceList{}
					if q, ok := r.Resources[corev1.ResourceMemory]; ok {
						rl[corev1.ResourceMemory] = q.DeepCopy()
					}
					if q, ok := r.Resources[corev1.ResourceCPU]; ok {
						m := int64(0)
						for _, id := range preferred.ToSliceNoSort() {
							if topo.CPUDetails[id].NodeID == r.Node {
								m += 1000
							}
						}
						if m > q.MilliValue() {
							m = q.MilliValue()
						}
						rl[corev1.ResourceCPU] = *resource.NewMilliQuantity(m, resource.DecimalSI)
					}
					reusable[r.Node] = rl
				}
				threads := topo.CPUsPerCore()
				bind := rapid.SampledFrom([]schedulingconfig.CPUBindPolicy{schedulingconfig.CPUBindPolicyFullPCPUs, schedulingconfig.CPUBindPolicyFullPCPUs,
					schedulingconfig.CPUBindPolicySpreadByPCPUs, schedulingconfig.CPUBindPolicyDefault}).Draw(t, "bind")
				required := rapid.IntRange(0, 3).Draw(t, "required") > 0 && bind != schedulingconfig.CPUBindPolicyDefault
				useHint := rapid.IntRange(0, 3).Draw(t, "useHint") > 0
				var n int
				if bind == schedulingconfig.CPUBindPolicyFullPCPUs && rapid.IntRange(0, 3).Draw(t, "wholeCores") > 0 {
					n = threads * rapid.IntRange(1, len(all)/threads).Draw(t, "cores")
				} else {
					n = rapid.IntRange(1, len(all)).Draw(t, "need")
				}
				excl := rapid.SampledFrom(c06ExclPolicies).Draw(t, "excl")
				req := corev1.ResourceList{corev1.ResourceCPU: *resource.NewMilliQuantity(int64(n)*1000, resource.DecimalSI)}
				opts := &ResourceOptions{numCPUsNeeded: n, requestCPUBind: true, requests: req.DeepCopy(), originalRequests: req.DeepCopy(),
					requiredCPUBindPolicy: required, cpuBindPolicy: bind, cpuExclusivePolicy: excl, topologyOptions: tom.GetTopologyOptions(nodeName),
					preferredCPUs: preferred, reusableResources: reusable}
				var hint []int
				if useHint {
					for i := 0; i < topo.NumNodes; i++ {
						if rapid.Bool().Draw(t, "hintBit") {
							hint = append(hint, i)
						}
					}
					if len(hint) == 0 {
						hint = []int{rapid.IntRange(0, topo.NumNodes-1).Draw(t, "hintOne")}
					}
					opts.hint = topologymanager.NUMATopologyHint{NUMANodeAffinity: c06Mask(hint)}
				}
				unaligned := false // a preferred CPU whose core is not wholly preferred
				for _, id := range preferred.ToSliceNoSort() {
					if !topo.CPUDetails.CPUsInCores(topo.CPUDetails[id].CoreID).IsSubsetOf(preferred) {
						unaligned = true
					}
				}
				target := unaligned && useHint && required && bind == schedulingconfig.CPUBindPolicyFullPCPUs && n%threads == 0
				reusableRuns++
				if unaligned {
					unalignedRuns++
				}
				if target {
					targetRuns++
				}
				ref := map[int]int{}
				for _, a := range live {
					for _, id := range a.CPUSet.ToSliceNoSort() {
						ref[id]++
					}
				}
				pod := &corev1.Pod{}
				pod.UID, pod.Name, pod.Namespace = "dry", "dry", "default"
				a, st := rm.Allocate(node, pod, opts)
				hist = append(hist, fmt.Sprintf("dryRunAllocateFromReservation %s n=%d bind=%v required=%v excl=%v hint=%v preferred=%s reusable=%v -> %v (not committed)",
					ruid, n, bind, required, excl, hint, preferred, c06RL(reusable), c06AllocStr(a)))
				if !st.IsSuccess() {
					return
				}
				reusableOK++
				if target {
					targetOK++
				}
				got := a.CPUSet
				if got.Size() != n {
					dead = true
					c.Violation(t, "history:wrong-count", "asked %d CPUs got %v; history=%v", n, got, hist)
					return
				}
				for _, id := range got.ToSliceNoSort() {
					back := 0
					if preferred.Contains(id) {
						back = 1
					}
					if reserved.Contains(id) || ref[id]-back >= maxRef {
						dead = true
						c.Violation(t, "history:dry-run-took-held-cpu", "dry-run allocation got cpu %d (holders %d, handed back %d times, limit %d, reserved=%v); history=%v", id, ref[id], back, maxRef, reserved.Contains(id), hist)
						return
					}
				}
				if required && !c06PolicyHolds(bind, got, topo) {
					dead = true
					c.Violation(t, "history:required-policy-not-met:reusable-cpus", "required %v reported satisfied by %v on topo %+v (preferred %s, hint %v); history=%v", bind, got, tp, preferred, hint, hist)
					return
				}
				if useHint {
					sum := int64(0)
					for _, r := range a.NUMANodeResources {
						in := false
						for _, h := range hint {
							if h == r.Node {
								in = true
							}
						}
						if !in {
							dead = true
							c.Violation(t, "history:numa-outside-hint", "allocated on NUMA %d outside hint %v; history=%v", r.Node, hint, hist)
							return
						}
						q := r.Resources[corev1.ResourceCPU]
						sum += q.MilliValue()
					}
					if sum != int64(n)*1000 {
						dead = true
						c.Violation(t, "history:numa-not-exact", "cpu requested %d milli, NUMA allocation sums to %d; history=%v", n*1000, sum, hist)
						return
					}
				}
			}
			// Preemption dry run (plugin RemovePod + tryAllocateFromNode / GetTopologyHints): the victims are live pods; what they
			// would give back is read from the manager exactly as preempt.go getPodAllocated does (GetAllocatedCPUSet,
			// GetAllocatedNUMAResource), summed per NUMA node id (preemptibleAlloc.Accumulate) and passed as preemptibleCPUs /
			// reusableResources to an uncommitted Allocate with a NUMA hint. Oracle from the model only: what is "free for this pod"
			// on a NUMA node is its capacity minus what the live pods that are NOT victims hold there. On success nothing more than
			// that is handed out from any NUMA node (and the amounts are exact, inside the hint); a request without cpu-bind (cpu and
			// memory are then freely divisible) must succeed whenever the hinted nodes together have that much free for this pod.
			// NodeResourceTopology refresh with a different reserved set (kubelet gives CPUs to static-policy pods, node reservation /
			// system-QoS cpuset changes: NewTopologyOptions recomputes ReservedCPUs on every NRT update). CPUs that pods already
			// hold may become reserved; from then on no reserved CPU may be handed out or reported available, whatever its refcount.
			actions["reservedCPUsChanged"] = func(t *rapid.T) {
				if dead {
					return
				}
				ref := map[int]int{}
				for _, a := range live {
					for _, id := range a.CPUSet.ToSliceNoSort() {
						ref[id]++
					}
				}
				var held []int
				for _, id := range all {
					if ref[id] > 0 {
						held = append(held, id)
					}
				}
				pool := all
				if len(held) > 0 && rapid.Bool().Draw(t, "amongHeld") {
					pool = held
				}
				nr := cpuset.NewCPUSet(c06Subset(t, pool, "newReserved")...)
				if nr.Size() == len(all) {
					nr = cpuset.NewCPUSet()
				}
				reserved = nr
				reservedChanged = true
				reservedRefreshes++
				for _, id := range nr.ToSliceNoSort() {
					if ref[id] > 0 && ref[id] < maxRef {
						heldBecameReserved++
					}
				}
				reportTopology()
				hist = append(hist, fmt.Sprintf("NodeResourceTopology refreshed, reserved CPUs now %s", nr))
			}
			actions["preemptionDryRun"] = func(t *rapid.T) {
				if dead {
					return
				}
				uids := c06SortedUIDs(live)
				if len(uids) == 0 {
					t.Skip("no live pod")
				}
				var victims []types.UID
				vmask := rapid.SliceOfN(rapid.Bool(), len(uids), len(uids)).Draw(t, "victimMask")
				for i, u := range uids {
					if vmask[i] {
						victims = append(victims, u)
					}
				}
				if len(victims) == 0 {
					victims = []types.UID{rapid.SampledFrom(uids).Draw(t, "victim")}
				}
				isVictim := map[types.UID]bool{}
				offZero := false
				reusable := map[int]corev1.ResourceList{}
				preemptible := cpuset.NewCPUSet()
				for _, v := range victims {
					isVictim[v] = true
					for i, r := range live[v].NUMANodeResources {
						if r.Node != i {
							offZero = true
						}
					}
					if cpus, ok := rm.GetAllocatedCPUSet(nodeName, v); ok && !cpus.IsEmpty() {
						preemptible = preemptible.Union(cpus)
					}
					if nr, ok := rm.GetAllocatedNUMAResource(nodeName, v); ok {
						for nid, rl := range nr { // summation is order independent
							if reusable[nid] == nil {
								reusable[nid] = corev1.ResourceList{}
							}
							for rn, q := range rl {
								cur := reusable[nid][rn]
								cur.Add(q)
								reusable[nid][rn] = cur
							}
						}
					}
				}
				// model: free for this pod, per NUMA node, in milli units
				free := make([]map[corev1.ResourceName]int64, topo.NumNodes)
				for i := range free {
					free[i] = map[corev1.ResourceName]int64{corev1.ResourceCPU: int64(topo.CPUsPerNode()) * 1000, corev1.ResourceMemory: memPerNode * 1000}
				}
				ref := map[int]int{}
				for _, uid := range uids {
					if isVictim[uid] {
						continue
					}
					for _, id := range live[uid].CPUSet.ToSliceNoSort() {
						ref[id]++
					}
					for _, r := range live[uid].NUMANodeResources {
						for rn, q := range r.Resources {
							free[r.Node][rn] -= q.MilliValue()
						}
					}
				}
				var hint []int
				for i := 0; i < topo.NumNodes; i++ {
					if rapid.Bool().Draw(t, "hintBit") {
						hint = append(hint, i)
					}
				}
				if len(hint) == 0 {
					hint = []int{rapid.IntRange(0, topo.NumNodes-1).Draw(t, "hintOne")}
				}
				sumFree := map[corev1.ResourceName]int64{}
				for _, h := range hint {
					for rn, v := range free[h] {
						sumFree[rn] += v
					}
				}
				cpuBind := rapid.IntRange(0, 2).Draw(t, "cpuBind") == 0
				boundary := false
				pick := func(sum, max int64, label string) int64 { // around what the hinted nodes have free for this pod
					if sum < 0 {
						sum = 0
					}
					switch rapid.IntRange(0, 3).Draw(t, label+"Kind") {
					case 0:
						boundary = true
						return sum
					case 1:
						boundary = true
						return sum + 1
					case 2:
						return rapid.Int64Range(0, sum).Draw(t, label)
					default:
						return rapid.Int64Range(0, max+1).Draw(t, label)
					}
				}
				req := corev1.ResourceList{}
				n := 0
				if cpuBind {
					n = int(pick(sumFree[corev1.ResourceCPU]/1000, int64(len(all)), "needCPUs"))
					if n < 1 {
						n = 1
					}
					req[corev1.ResourceCPU] = *resource.NewMilliQuantity(int64(n)*1000, resource.DecimalSI)
				} else {
					m := pick(sumFree[corev1.ResourceCPU], int64(len(all))*1000, "milli")
					if m < 1 {
						m = 1
					}
					req[corev1.ResourceCPU] = *resource.NewMilliQuantity(m, resource.DecimalSI)
				}
				if rapid.Bool().Draw(t, "wantMem") {
					req[corev1.ResourceMemory] = *resource.NewQuantity(pick(sumFree[corev1.ResourceMemory]/1000, memPerNode*int64(topo.NumNodes), "mem"), resource.BinarySI)
				}
				opts := &ResourceOptions{numCPUsNeeded: n, requestCPUBind: cpuBind, requests: req.DeepCopy(), originalRequests: req.DeepCopy(),
					cpuBindPolicy: schedulingconfig.CPUBindPolicyDefault, topologyOptions: tom.GetTopologyOptions(nodeName),
					preemptibleCPUs: preemptible, reusableResources: reusable, hint: topologymanager.NUMATopologyHint{NUMANodeAffinity: c06Mask(hint)}}
				pod := &corev1.Pod{}
				pod.UID, pod.Name, pod.Namespace = "preemptor", "preemptor", "default"
				preemptRuns++
				if offZero {
					preemptOffZero++
					if boundary {
						preemptBoundary++
					}
				}
				a, st := rm.Allocate(node, pod, opts)
				hist = append(hist, fmt.Sprintf("preemptionDryRun victims=%v cpuBind=%v hint=%v req=%v (restored: cpus=%s numa=%v) -> %v (not committed)",
					victims, cpuBind, hint, c06RLOne(req), preemptible, c06RL(reusable), c06AllocStr(a)))
				if !st.IsSuccess() {
					if !cpuBind {
						enough := true
						for rn, q := range req {
							if sumFree[rn] < q.MilliValue() {
								enough = false
							}
						}
						if enough {
							dead = true
							c.Violation(t, "history:preempt-dry-run:refused-though-enough", "request %v refused (%s) although the hinted NUMA nodes %v have %v milli free for this pod once the victims %v are gone (per node %v); history=%v",
								c06RLOne(req), st.Message(), hint, sumFree, victims, free, hist)
						}
					}
					return
				}
				preemptOK++
				sum := map[corev1.ResourceName]int64{}
				for _, r := range a.NUMANodeResources {
					in := false
					for _, h := range hint {
						if h == r.Node {
							in = true
						}
					}
					if !in {
						dead = true
						c.Violation(t, "history:numa-outside-hint", "allocated on NUMA %d outside hint %v; history=%v", r.Node, hint, hist)
						return
					}
					for _, rn := range []corev1.ResourceName{corev1.ResourceCPU, corev1.ResourceMemory} {
						q, ok := r.Resources[rn]
						if !ok {
							continue
						}
						sum[rn] += q.MilliValue()
						if q.MilliValue() > free[r.Node][rn] {
							dead = true
							c.Violation(t, "history:preempt-dry-run:numa-over-free", "NUMA %d: %d milli %s handed out, but only %d milli are free for this pod there once the victims %v are gone (per node %v); history=%v",
								r.Node, q.MilliValue(), rn, free[r.Node][rn], victims, free, hist)
							return
						}
					}
				}
				for _, rn := range []corev1.ResourceName{corev1.ResourceCPU, corev1.ResourceMemory} {
					if q, ok := req[rn]; ok && sum[rn] != q.MilliValue() {
						dead = true
						c.Violation(t, "history:numa-not-exact", "%s requested %d milli, NUMA allocation sums to %d; history=%v", rn, q.MilliValue(), sum[rn], hist)
						return
					}
				}
				if cpuBind {
					if a.CPUSet.Size() != n {
						dead = true
						c.Violation(t, "history:wrong-count", "asked %d CPUs got %v; history=%v", n, a.CPUSet, hist)
						return
					}
					for _, id := range a.CPUSet.ToSliceNoSort() {
						if reserved.Contains(id) || ref[id] >= maxRef {
							dead = true
							c.Violation(t, "history:dry-run-took-held-cpu", "preemption dry run got cpu %d (holders that stay %d, limit %d, reserved=%v); history=%v", id, ref[id], maxRef, reserved.Contains(id), hist)
							return
						}
					}
				}
			}
		}
		t.Repeat(actions)
		if ext {
			c.ClassIf(flapOps > 0, "topology-flap-with-events")
			c.ClassIf(flapReleases > 0, "recorded-pod-released-while-topology-missing")
			c.ClassIf(allocAfterGoneRelease, "allocation-recorded-after-such-a-release")
			c.ClassIf(flapAttempts > 0, "numa-attempt-while-topology-missing")
			c.ClassIf(flapAttemptOK > 0, "numa-attempt-while-topology-missing-succeeded(not asserted)")
			c.ClassIf(reusableRuns > 0, "reusable-dry-run")
			c.ClassIf(reusableOK > 0, "reusable-dry-run-success")
			c.ClassIf(unalignedRuns > 0, "reusable-preferred-cpus-not-core-aligned")
			c.ClassIf(targetRuns > 0, "reusable-unaligned+numa-hint+required-fullpcpus+whole-core-request")
			c.ClassIf(targetOK > 0, "reusable-unaligned+numa-hint+required-fullpcpus+whole-core-request:success")
			c.ClassIf(targetRuns > targetOK, "reusable-unaligned+numa-hint+required-fullpcpus+whole-core-request:refused")
			c.ClassIf(reservedRefreshes > 0, "reserved-cpus-changed-by-topology-refresh")
			c.ClassIf(heldBecameReserved > 0, "held-cpu-below-sharing-limit-became-reserved")
			c.ClassIf(preemptRuns > 0, "preempt-dry-run")
			c.ClassIf(preemptOK > 0, "preempt-dry-run-success")
			c.ClassIf(preemptRuns > preemptOK, "preempt-dry-run-refused")
			c.ClassIf(preemptOffZero > 0, "preempt-victim-numa-nodes-not-0..k")
			c.ClassIf(preemptBoundary > 0, "preempt-victim-numa-nodes-not-0..k+request-at-the-free-boundary")
		}
		c.ClassIf(sawShared, "cpu-shared-by-2")
		c.ClassIf(sawNUMA, "numa-hint-allocation")
		c.ClassIf(sawRequired, "required-policy-success")
		c.ClassIf(sawReleaseAfterShare, "release-after-sharing")
		c.ClassIf(maxRef > 1, "maxref2")
		c.ClassIf(sawRealloc, "pod-reallocated")
		c.ClassIf(sawPeek, "dry-run-with-restored-or-preemptible-cpus")
		if !ext && len(hist) >= 3 && (sawNUMA || sawShared) {
			c.NonTrivial(hist)
		}
		// ext: a recorded pod was released while the node had no topology, or a required policy was evaluated with a NUMA hint
		// over reusable CPUs that are not core-aligned, or a preemption dry run had a victim whose NUMA node list is not {0..k}
		if ext && len(hist) >= 3 && (flapReleases > 0 || targetRuns > 0 || preemptOffZero > 0 || heldBecameReserved > 0) {
			c.NonTrivial(hist)
		}
		c.Sample(map[string]any{"topo": []int{tp.Sockets, tp.NodesPerSocket, tp.CoresPerNode, tp.Threads}, "maxRef": maxRef, "reserved": reserved.String(), "memPerNode": memPerNode, "history": hist})
	}
}

func c06SortedUIDs(m map[types.UID]*PodAllocation) []types.UID {
	out := make([]types.UID, 0, len(m))
	for k := range m {
		out = append(out, k)
	}
	sort.Slice(out, func(i, j int) bool { return out[i] < out[j] })
	return out
}

func c06AllocStr(a *PodAllocation) string {
	if a == nil {
		return "refused"
	}
	s := "cpus=" + a.CPUSet.String()
	for _, r := range a.NUMANodeResources {
		s += fmt.Sprintf(" numa%d=%v", r.Node, c06RLOne(r.Resources))
	}
	return s
}

// independent statement of the two required policies
func c06PolicyHolds(p schedulingconfig.CPUBindPolicy, cpus cpuset.CPUSet, topo *CPUTopology) bool {
	perCore := map[int]int{}
	for _, id := range cpus.ToSliceNoSort() {
		perCore[topo.CPUDetails[id].CoreID]++
	}
	coreSize := map[int]int{}
	for _, info := range topo.CPUDetails {
		coreSize[info.CoreID]++
	}
	switch p {
	case schedulingconfig.CPUBindPolicyFullPCPUs:
		for core, n := range perCore {
			if n != coreSize[core] {
				return false
			}
		}
	case schedulingconfig.CPUBindPolicySpreadByPCPUs:
		for _, n := range perCore {
			if n != 1 {
				return false
			}
		}
	}
	return true
}

// ---------------------------------------------------------------- native fuzzing (thorough tier): the same properties, with the
// byte stream that drives rapid's generators mutated under coverage guidance

func FuzzVerifC06NUMASplit(f *testing.F) {
	rec := vk.New(f, "C06", "numaSplitFuzz")
	f.Add([]byte{})
	f.Add([]byte{3, 0, 0, 0, 0, 0, 0, 0, 6, 0, 0, 0, 0, 0, 0, 0, 0, 0, 0, 0, 0, 0, 0, 0, 1, 0, 0, 0, 0, 0, 0, 0})
	f.Fuzz(rapid.MakeFuzz(c06NUMASplitProp(rec)))
}

func FuzzVerifC06TakeCPUs(f *testing.F) {
	rec := vk.New(f, "C06", "takeCPUsFuzz")
	f.Add([]byte{})
	f.Fuzz(rapid.MakeFuzz(c06TakeCPUsProp(rec)))
}
