//go:build verif

// C06 — NUMA-level allocation through resourceManager.Allocate on nodes whose NUMA nodes report DIFFERENT resource sets (huge pages
// or device-like resources only on some NUMA nodes; legal: extractNUMANodeResources copies whatever each NRT zone lists).
//
// A resource is NUMA-managed on a node when at least one of its NUMA nodes reports it; a NUMA node that does not report it has none
// of it. Oracle (statement): a successful allocation hands out exactly the requested amount of every NUMA-managed resource, only on
// hinted NUMA nodes, never more than a NUMA node has free; and, all requests here being freely divisible (no cpu-bind), it succeeds
// exactly when the hinted NUMA nodes together have enough of every requested NUMA-managed resource free.
package nodenumaresource

import (
	"fmt"
	"testing"

	corev1 "k8s.io/api/core/v1"
	"k8s.io/apimachinery/pkg/api/resource"
	"k8s.io/apimachinery/pkg/types"
	"pgregory.net/rapid"

	"github.com/koordinator-sh/koordinator/pkg/scheduler/frameworkext/topologymanager"
	"github.com/koordinator-sh/koordinator/pkg/verifkit/vk"
)

func TestVerifC06HeteroNUMA(t *testing.T) {
	rec := vk.New(t, "C06", "heteroNUMA")
	names := []corev1.ResourceName{corev1.ResourceCPU, corev1.ResourceMemory, "hugepages-1Gi", "example.com/nic"}
	rapid.Check(t, func(t *rapid.T) {
		c := rec.Begin()
		defer c.End()
		s := rapid.IntRange(1, 2).Draw(t, "sockets")
		n := rapid.IntRange(1, 2).Draw(t, "nodesPerSocket")
		if s*n == 1 {
			n = 2
		}
		cores := rapid.IntRange(1, 4).Draw(t, "coresPerNode")
		topo := c06BuildTopo(s, n, cores, 2)
		// capacity per NUMA node: cpu everywhere, the others on an arbitrary subset of the NUMA nodes (possibly none, possibly all)
		capacity := make([]map[corev1.ResourceName]int64, topo.NumNodes) // in the unit of Quantity.Value() (cpu: milli)
		hetero := false
		// which NUMA nodes the NodeResourceTopology reports at all (zones): any non-empty subset, listed in ascending id order as
		// extractNUMANodeResources does - so the position in the list differs from the NUMA id when a lower id is missing
		reported := make([]bool, topo.NumNodes)
		anyReported, idNePos := false, false
		for i := range reported {
			reported[i] = rapid.IntRange(0, 3).Draw(t, "zoneReported") > 0
			anyReported = anyReported || reported[i]
		}
		if !anyReported {
			reported[rapid.IntRange(0, topo.NumNodes-1).Draw(t, "zoneOne")] = true
		}
		for i, pos := 0, 0; i < topo.NumNodes; i++ {
			if reported[i] {
				idNePos = idNePos || i != pos
				pos++
			}
		}
		for i := range capacity {
			capacity[i] = map[corev1.ResourceName]int64{}
			if reported[i] {
				capacity[i][corev1.ResourceCPU] = int64(topo.CPUsPerNode()) * 1000
			}
		}
		for _, rn := range names[1:] {
			have := 0
			for i := range capacity {
				if reported[i] && rapid.Bool().Draw(t, "reports") {
					capacity[i][rn] = rapid.Int64Range(0, 16).Draw(t, "capacity")
					have++
				}
			}
			if have > 0 && have < topo.NumNodes {
				hetero = true
			}
		}
		managed := map[corev1.ResourceName]bool{}
		tom := NewTopologyOptionsManager()
		const nodeName = "n"
		tom.UpdateTopologyOptions(nodeName, func(o *TopologyOptions) {
			o.CPUTopology = topo
			for i := range capacity {
				if !reported[i] {
					continue
				}
				rl := corev1.ResourceList{}
				for rn, v := range capacity[i] {
					managed[rn] = true
					if rn == corev1.ResourceCPU {
						rl[rn] = *resource.NewMilliQuantity(v, resource.DecimalSI)
					} else {
						rl[rn] = *resource.NewQuantity(v, resource.DecimalSI)
					}
				}
				o.NUMANodeResources = append(o.NUMANodeResources, NUMANodeResource{Node: i, Resources: rl})
			}
		})
		rm := &resourceManager{numaAllocateStrategy: rapid.SampledFrom(c06Strategies).Draw(t, "strategy"), topologyOptionsManager: tom, nodeAllocations: map[string]*NodeAllocation{}}
		node := &corev1.Node{}
		node.Name = nodeName
		val := func(rn corev1.ResourceName, q resource.Quantity) int64 {
			if rn == corev1.ResourceCPU {
				return q.MilliValue()
			}
			return q.Value()
		}
		free := make([]map[corev1.ResourceName]int64, topo.NumNodes)
		for i := range free {
			free[i] = map[corev1.ResourceName]int64{}
			for rn, v := range capacity[i] {
				free[i][rn] = v
			}
		}
		var hist []string
		pods := rapid.IntRange(1, 4).Draw(t, "pods")
		sawLackingHint, sawLackingRefused, sawSuccess := false, false, false
		for pi := 0; pi < pods; pi++ {
			var hint []int
			for i := 0; i < topo.NumNodes; i++ {
				if rapid.Bool().Draw(t, "hintBit") {
					hint = append(hint, i)
				}
			}
			if len(hint) == 0 {
				hint = []int{rapid.IntRange(0, topo.NumNodes-1).Draw(t, "hintOne")}
			}
			req := corev1.ResourceList{}
			enough, lacking := true, false
			for _, rn := range names {
				if rn != corev1.ResourceCPU && !rapid.Bool().Draw(t, "wants") {
					continue
				}
				sum, reported := int64(0), false
				for _, h := range hint {
					if v, ok := free[h][rn]; ok {
						sum += v
						reported = true
					}
				}
				var v int64
				switch rapid.IntRange(0, 3).Draw(t, "kind") {
				case 0:
					v = sum
				case 1:
					v = sum + 1
				case 2:
					v = rapid.Int64Range(0, sum).Draw(t, "amount")
				default:
					v = rapid.Int64Range(1, 8).Draw(t, "amount")
				}
				if rn == corev1.ResourceCPU {
					if v < 1 {
						v = 1
					}
					req[rn] = *resource.NewMilliQuantity(v, resource.DecimalSI)
				} else {
					req[rn] = *resource.NewQuantity(v, resource.DecimalSI)
				}
				if managed[rn] {
					if v > sum {
						enough = false
					}
					if !reported && v > 0 {
						lacking = true // requested, NUMA-managed on this node, but none of the hinted NUMA nodes reports it
					}
				}
			}
			opts := &ResourceOptions{requests: req.DeepCopy(), originalRequests: req.DeepCopy(), topologyOptions: tom.GetTopologyOptions(nodeName),
				hint: topologymanager.NUMATopologyHint{NUMANodeAffinity: c06Mask(hint)}}
			pod := &corev1.Pod{}
			pod.UID, pod.Name, pod.Namespace = types.UID(fmt.Sprintf("p%d", pi)), fmt.Sprintf("p%d", pi), "default"
			a, st := rm.Allocate(node, pod, opts)
			hist = append(hist, fmt.Sprintf("allocate %s hint=%v req=%v (free per NUMA node %v) -> %v", pod.Name, hint, c06RLOne(req), free, c06AllocStr(a)))
			sawLackingHint = sawLackingHint || lacking
			if !st.IsSuccess() {
				sawLackingRefused = sawLackingRefused || lacking
				if enough {
					c.Violation(t, "hetero:refused-though-enough", "the hinted NUMA nodes together have every requested NUMA-managed resource free, but the allocation was refused; capacity=%v history=%v", capacity, hist)
					return
				}
				continue
			}
			sawSuccess = true
			if !enough {
				// which clause is broken: nothing of a resource handed out, or more than free
				got := map[corev1.ResourceName]int64{}
				for _, r := range a.NUMANodeResources {
					for rn, q := range r.Resources {
						got[rn] += val(rn, q)
					}
				}
				for _, rn := range names {
					if q, ok := req[rn]; ok && managed[rn] && got[rn] != val(rn, q) {
						c.Violation(t, "hetero:success-without-handing-out", "%s is NUMA-managed on this node, %d requested, the hinted NUMA nodes %v cannot serve it, yet the allocation succeeded handing out %d of it; capacity=%v history=%v", rn, val(rn, q), hint, got[rn], capacity, hist)
						return
					}
				}
			}
			got := map[corev1.ResourceName]int64{}
			for _, r := range a.NUMANodeResources {
				in := false
				for _, h := range hint {
					if h == r.Node {
						in = true
					}
				}
				if !in {
					c.Violation(t, "hetero:outside-hint", "allocated on NUMA %d outside hint %v; history=%v", r.Node, hint, hist)
					return
				}
				for rn, q := range r.Resources {
					if val(rn, q) > free[r.Node][rn] {
						c.Violation(t, "hetero:over-node-free", "NUMA %d: %d of %s handed out, %d free; capacity=%v history=%v", r.Node, val(rn, q), rn, free[r.Node][rn], capacity, hist)
						return
					}
					got[rn] += val(rn, q)
				}
			}
			for _, rn := range names {
				if q, ok := req[rn]; ok && managed[rn] && got[rn] != val(rn, q) {
					c.Violation(t, "hetero:not-exact", "%s: %d requested, %d handed out; capacity=%v history=%v", rn, val(rn, q), got[rn], capacity, hist)
					return
				}
			}
			rm.Update(nodeName, a)
			for _, r := range a.NUMANodeResources {
				for rn, q := range r.Resources {
					free[r.Node][rn] -= val(rn, q)
				}
			}
		}
		// the ledger agrees with what was handed out
		na := rm.GetNodeAllocation(nodeName)
		for i := range capacity {
			for rn, cp := range capacity[i] {
				var q resource.Quantity
				if na.allocatedResources[i] != nil {
					q = na.allocatedResources[i].Resources[rn]
				}
				if val(rn, q) != cp-free[i][rn] {
					c.Violation(t, "hetero:numa-ledger-mismatch", "NUMA %d %s: ledger %d, handed out %d; history=%v", i, rn, val(rn, q), cp-free[i][rn], hist)
					return
				}
			}
		}
		c.ClassIf(hetero, "numa-nodes-report-different-resource-sets")
		c.ClassIf(idNePos, "reported-numa-ids-differ-from-list-positions")
		c.ClassIf(sawLackingHint, "hint-names-only-numa-nodes-lacking-a-requested-resource")
		c.ClassIf(sawLackingRefused, "hint-names-only-numa-nodes-lacking-a-requested-resource:refused")
		c.ClassIf(sawSuccess, "success")
		if hetero && sawLackingHint {
			c.NonTrivial(fmt.Sprint(capacity), hist)
		}
		c.Sample(map[string]any{"capacity": fmt.Sprint(capacity), "history": hist})
	})
}
