//go:build verif

// C06 — "... however allocations and releases interleave ..., and the node's allocation ledger always equals the sum of the live
// pods' allocations": concurrent first touch of fresh nodes.
//
// The pod informer, the reservation informer, the forget-pod handler and the scheduling cycle call the resourceManager from their own
// goroutines. After a scheduler (re)start, after a node was added, or after onNodeDelete dropped the entry, several of them touch the
// same node for the FIRST time (no NodeAllocation object yet) at the same moment.
//
// One case = one generated "script set" (2-8 goroutines, each with 1-3 operations: record a pod / record and release it / release an
// unknown pod / read), replayed on many fresh nodes; on every node all goroutines start together behind a barrier. The recorded
// allocations are pairwise disjoint and every pod is touched by one goroutine only, so the state after the goroutines were joined does
// not depend on the schedule: the oracle (ledger == sum of the live pods, GetAvailableCPUs == all - held) is evaluated at quiescence
// only and its verdict on correct code is deterministic. Detection of a lost update is probabilistic (it needs two goroutines inside
// the unprotected window), which is why a case uses many fresh nodes. No goroutine outlives a case.
package nodenumaresource

import (
	"fmt"
	"runtime"
	"sync"
	"sync/atomic"
	"testing"
	"time"

	corev1 "k8s.io/api/core/v1"
	"k8s.io/apimachinery/pkg/api/resource"
	"k8s.io/apimachinery/pkg/types"
	"pgregory.net/rapid"

	"github.com/koordinator-sh/koordinator/pkg/util/cpuset"
	"github.com/koordinator-sh/koordinator/pkg/verifkit/vk"
)

type c06cOp struct {
	Kind string // record | recordThenRelease | releaseGhost | readAvailable | readPod
	Pod  *PodAllocation
}

func (o c06cOp) String() string {
	if o.Pod != nil {
		return fmt.Sprintf("%s(%s: %s)", o.Kind, o.Pod.UID, c06AllocStr(o.Pod))
	}
	return o.Kind
}

func TestVerifC06ConcurrentFirstTouch(t *testing.T) {
	rec := vk.New(t, "C06", "concurrentFirstTouch")
	nodesPerCase := 100
	if vk.Thorough() {
		nodesPerCase = 300
	}
	rapid.Check(t, func(t *rapid.T) {
		c := rec.Begin()
		defer c.End()
		tp := c06GenTopo(t)
		topo := tp.topo
		all := topo.CPUDetails.CPUs().ToSlice()
		maxRef := rapid.IntRange(1, 2).Draw(t, "maxRefCount")
		memPerNode := int64(1 << 12)
		workers := rapid.IntRange(2, 8).Draw(t, "goroutines")

		// script set; CPUs are handed to the pods from a pool so that the allocations are disjoint
		pool := append([]int(nil), all...)
		scripts := make([][]c06cOp, workers)
		live := map[types.UID]*PodAllocation{} // model: what must be in the ledger of every node at quiescence
		npods := 0
		firstTouchRecorders, releases := 0, 0
		newPod := func() *PodAllocation {
			uid := types.UID(fmt.Sprintf("p%d", npods))
			npods++
			a := &PodAllocation{UID: uid, Namespace: "default", Name: string(uid)}
			k := rapid.IntRange(0, 3).Draw(t, "cpus")
			if k > len(pool) {
				k = len(pool)
			}
			a.CPUSet = cpuset.NewCPUSet(pool[:k]...)
			perNode := map[int]int64{}
			for _, id := range pool[:k] {
				perNode[topo.CPUDetails[id].NodeID] += 1000
			}
			pool = pool[k:]
			if k == 0 || rapid.Bool().Draw(t, "numaCharged") {
				if k == 0 { // NUMA-only pod (no cpu-bind): some milli-cpu on one NUMA node
					perNode[rapid.IntRange(0, topo.NumNodes-1).Draw(t, "numaNode")] = rapid.Int64Range(1, 1000).Draw(t, "milli")
				}
				for nid := 0; nid < topo.NumNodes; nid++ {
					if m, ok := perNode[nid]; ok {
						rl := corev1.ResourceList{corev1.ResourceCPU: *resource.NewMilliQuantity(m, resource.DecimalSI)}
						if rapid.Bool().Draw(t, "withMem") {
							rl[corev1.ResourceMemory] = *resource.NewQuantity(rapid.Int64Range(0, 16).Draw(t, "mem"), resource.BinarySI)
						}
						a.NUMANodeResources = append(a.NUMANodeResources, NUMANodeResource{Node: nid, Resources: rl})
					}
				}
			}
			return a
		}
		for w := range scripts {
			nops := rapid.IntRange(1, 3).Draw(t, "ops")
			for i := 0; i < nops; i++ {
				switch rapid.SampledFrom([]string{"record", "record", "record", "recordThenRelease", "releaseGhost", "readAvailable", "readPod"}).Draw(t, "op") {
				case "record":
					a := newPod()
					live[a.UID] = a
					scripts[w] = append(scripts[w], c06cOp{"record", a})
					if i == 0 {
						firstTouchRecorders++
					}
				case "recordThenRelease":
					scripts[w] = append(scripts[w], c06cOp{"recordThenRelease", newPod()})
					releases++
				case "releaseGhost":
					scripts[w] = append(scripts[w], c06cOp{Kind: "releaseGhost"})
					releases++
				case "readAvailable":
					scripts[w] = append(scripts[w], c06cOp{Kind: "readAvailable"})
				default:
					scripts[w] = append(scripts[w], c06cOp{Kind: "readPod"})
				}
			}
		}

		tom := NewTopologyOptionsManager()
		var numaRes []NUMANodeResource
		for i := 0; i < topo.NumNodes; i++ {
			numaRes = append(numaRes, NUMANodeResource{Node: i, Resources: corev1.ResourceList{
				corev1.ResourceCPU:    *resource.NewMilliQuantity(int64(topo.CPUsPerNode())*1000, resource.DecimalSI),
				corev1.ResourceMemory: *resource.NewQuantity(memPerNode, resource.BinarySI),
			}})
		}
		names := make([]string, nodesPerCase)
		for i := range names {
			names[i] = fmt.Sprintf("n%d", i)
			tom.UpdateTopologyOptions(names[i], func(o *TopologyOptions) {
				o.CPUTopology = topo
				o.MaxRefCount = maxRef
				o.NUMANodeResources = numaRes
			})
		}
		rm := &resourceManager{topologyOptionsManager: tom, nodeAllocations: map[string]*NodeAllocation{}}

		// run: the same goroutines walk over the fresh nodes; a barrier in front of every node makes them touch it together
		var arrived int64
		var wg sync.WaitGroup
		panics := make([]any, workers)
		for w := 0; w < workers; w++ {
			wg.Add(1)
			go func(w int) {
				defer wg.Done()
				defer func() {
					if r := recover(); r != nil {
						panics[w] = r
						atomic.AddInt64(&arrived, int64(nodesPerCase)) // never block the others
					}
				}()
				for i, name := range names {
					atomic.AddInt64(&arrived, 1)
					// spin briefly (tight common start), then give the core back to the OS: on an oversubscribed machine a pure
					// spin barrier makes every round cost scheduler quanta
					for spins := 0; atomic.LoadInt64(&arrived) < int64(workers)*int64(i+1); spins++ {
						if spins < 2000 {
							runtime.Gosched()
						} else {
							time.Sleep(20 * time.Microsecond)
						}
					}
					for _, op := range scripts[w] {
						switch op.Kind {
						case "record":
							rm.Update(name, op.Pod)
						case "recordThenRelease":
							rm.Update(name, op.Pod)
							rm.Release(name, op.Pod.UID)
						case "releaseGhost":
							rm.Release(name, types.UID("ghost"))
						case "readAvailable":
							_, _, _ = rm.GetAvailableCPUs(name)
						case "readPod":
							_, _ = rm.GetAllocatedCPUSet(name, types.UID("ghost"))
						}
					}
				}
			}(w)
		}
		wg.Wait()

		c.ClassIf(workers >= 4, "goroutines>=4")
		c.ClassIf(firstTouchRecorders >= 2, "first-op-records-a-pod-in>=2-goroutines")
		c.ClassIf(releases > 0, "with-releases")
		c.ClassIf(len(live) >= 3, "live-pods>=3")
		c.ClassIf(maxRef > 1, "maxref2")
		if firstTouchRecorders >= 2 {
			c.NonTrivial(tp.String(), fmt.Sprint(scripts))
		}
		c.Sample(map[string]any{"topo": tp.String(), "goroutines": workers, "freshNodes": nodesPerCase, "scripts": fmt.Sprint(scripts)})

		for w, p := range panics {
			if p != nil {
				c.Violation(t, "concurrent:panic", "goroutine %d panicked: %v; scripts=%v", w, p, scripts)
				return
			}
		}

		// oracle at quiescence, from the script set only. Which node / which pod is hit depends on the schedule, so those details go to
		// the log and the violation message stays the same on every run (rapid only minimizes failures it can reproduce).
		wantRef := map[int]int{}
		wantNUMA := map[int]map[corev1.ResourceName]int64{}
		for _, a := range live {
			for _, id := range a.CPUSet.ToSliceNoSort() {
				wantRef[id]++
			}
			for _, r := range a.NUMANodeResources {
				if wantNUMA[r.Node] == nil {
					wantNUMA[r.Node] = map[corev1.ResourceName]int64{}
				}
				for rn, q := range r.Resources {
					wantNUMA[r.Node][rn] += q.MilliValue()
				}
			}
		}
		bad := map[string]int{}
		firstDetail := map[string]string{}
		note := func(sig, format string, args ...any) {
			if bad[sig] == 0 {
				firstDetail[sig] = fmt.Sprintf(format, args...)
			}
			bad[sig]++
		}
		for _, name := range names {
			na := rm.GetNodeAllocation(name)
			nodeBad := ""
			for _, uid := range c06SortedUIDs(live) {
				if _, ok := na.allocatedPods[uid]; !ok && nodeBad == "" {
					nodeBad = "concurrent:recorded-pod-lost"
					note(nodeBad, "node %s: pod %s was recorded with Update() and never released, but is not in the ledger", name, uid)
				}
			}
			if nodeBad == "" && len(na.allocatedPods) != len(live) {
				nodeBad = "concurrent:released-pod-still-recorded"
				note(nodeBad, "node %s: ledger has %d pods, %d are live", name, len(na.allocatedPods), len(live))
			}
			if nodeBad == "" {
				for _, id := range all {
					if na.allocatedCPUs[id].RefCount != wantRef[id] {
						nodeBad = "concurrent:refcount-mismatch"
						note(nodeBad, "node %s: cpu %d ledger refcount %d, live holders %d", name, id, na.allocatedCPUs[id].RefCount, wantRef[id])
						break
					}
				}
			}
			if nodeBad == "" {
				for nid := 0; nid < topo.NumNodes && nodeBad == ""; nid++ {
					var have corev1.ResourceList
					if na.allocatedResources[nid] != nil {
						have = na.allocatedResources[nid].Resources
					}
					for _, rn := range []corev1.ResourceName{corev1.ResourceCPU, corev1.ResourceMemory} {
						q := have[rn]
						if q.MilliValue() != wantNUMA[nid][rn] {
							nodeBad = "concurrent:numa-ledger-mismatch"
							note(nodeBad, "node %s: NUMA %d %s ledger %d milli, live pods sum %d milli", name, nid, rn, q.MilliValue(), wantNUMA[nid][rn])
							break
						}
					}
				}
			}
			if nodeBad == "" {
				avail, _, err := rm.GetAvailableCPUs(name)
				for _, id := range all {
					if err != nil || avail.Contains(id) != (wantRef[id] < maxRef) {
						nodeBad = "concurrent:available-mismatch"
						note(nodeBad, "node %s: cpu %d available=%v but %d live holders (limit %d), err=%v", name, id, avail.Contains(id), wantRef[id], maxRef, err)
						break
					}
				}
			}
		}
		for _, sig := range []string{"concurrent:recorded-pod-lost", "concurrent:released-pod-still-recorded", "concurrent:refcount-mismatch", "concurrent:numa-ledger-mismatch", "concurrent:available-mismatch"} {
			if bad[sig] > 0 {
				t.Logf("%s on %d of %d fresh nodes; first: %s", sig, bad[sig], nodesPerCase, firstDetail[sig])
				if c.Violation(t, sig, "after %d goroutines touched fresh nodes for the first time at the same moment and were joined, the ledger of at least one node differs from the sum of the live pods' allocations (details, schedule dependent, in the log line above); topo=%s maxRef=%d scripts(one per goroutine)=%v", workers, tp, maxRef, scripts) {
					return
				}
			}
		}
	})
}
