//go:build verif

// C06 — the same ledger, driven one level above the ResourceManager API: the real Plugin (PreFilter / RestoreReservation / Filter with
// the NUMA topology manager / Reserve / Unreserve / PreBind), the real podEventHandler (OnAdd / OnUpdate / OnDelete with annotated
// pods) and NodeResourceTopology delete / re-report, over generated histories.
//
// Model (independent of the code under test): a pod or reservation is "recorded" once its scheduling cycle passed Reserve (and was not
// unreserved) or once an informer event of the bound, annotated pod was delivered while the node had a valid topology; it stops
// being live with its delete / terminated event or Unreserve. Oracle = the statement: the ledger equals the sum of the live recorded
// allocations; no CPU is held by more pods than the sharing limit (1 here); a successful allocation has exactly the requested CPUs,
// all free for this pod; no NUMA node hands out more than it has free for this pod (capacity minus what the other live pods and the
// reservations this pod is not allocated from hold there), so a NUMA node is never over capacity.
package nodenumaresource

import (
	"context"
	"fmt"
	"sort"
	"testing"

	corev1 "k8s.io/api/core/v1"
	"k8s.io/apimachinery/pkg/api/resource"
	metav1 "k8s.io/apimachinery/pkg/apis/meta/v1"
	"k8s.io/apimachinery/pkg/types"
	"k8s.io/client-go/tools/cache"
	fwktype "k8s.io/kube-scheduler/framework"
	"k8s.io/kubernetes/pkg/scheduler/framework"
	"k8s.io/utils/ptr"
	"pgregory.net/rapid"

	"github.com/koordinator-sh/koordinator/apis/extension"
	schedulingv1alpha1 "github.com/koordinator-sh/koordinator/apis/scheduling/v1alpha1"
	"github.com/koordinator-sh/koordinator/pkg/scheduler/frameworkext"
	"github.com/koordinator-sh/koordinator/pkg/scheduler/frameworkext/hinter"
	"github.com/koordinator-sh/koordinator/pkg/util/cpuset"
	reservationutil "github.com/koordinator-sh/koordinator/pkg/util/reservation"
	"github.com/koordinator-sh/koordinator/pkg/verifkit/vk"
)

const c06pNode = "c06-node"

type c06pPod struct {
	obj    *corev1.Pod        // the object as the informer last delivered it (or as it went through the cycle)
	cs     fwktype.CycleState // kept until bound / unreserved
	alloc  *PodAllocation     // what the pod holds
	bound  bool               // informer knows it as bound + annotated
	isRsv  bool               // reserve pod of a reservation
	rInfo  *frameworkext.ReservationInfo
	policy schedulingv1alpha1.ReservationAllocatePolicy
}

func c06pAllocFromAnnotations(pod *corev1.Pod) *PodAllocation {
	st, _ := extension.GetResourceStatus(pod.Annotations)
	sp, _ := extension.GetResourceSpec(pod.Annotations)
	cpus, _ := cpuset.Parse(st.CPUSet)
	a := &PodAllocation{UID: pod.UID, Namespace: pod.Namespace, Name: pod.Name, CPUSet: cpus, CPUExclusivePolicy: sp.PreferredCPUExclusivePolicy}
	for _, r := range st.NUMANodeResources {
		a.NUMANodeResources = append(a.NUMANodeResources, NUMANodeResource{Node: int(r.Node), Resources: r.Resources})
	}
	return a
}

func TestVerifC06PluginHistory(t *testing.T) {
	rec := vk.New(t, "C06", "pluginHistory")
	node := &corev1.Node{ObjectMeta: metav1.ObjectMeta{Name: c06pNode}, Status: corev1.NodeStatus{Allocatable: corev1.ResourceList{
		corev1.ResourceCPU: resource.MustParse("512"), corev1.ResourceMemory: resource.MustParse("1Ti")}}}
	suit := newPluginTestSuit(t, nil, []*corev1.Node{node})
	p, err := suit.proxyNew(context.TODO(), suit.nodeNUMAResourceArgs, suit.Handle)
	if err != nil {
		t.Fatalf("cannot build the plugin: %v", err)
	}
	pl := p.(*Plugin)
	nominator := pl.handle.GetReservationNominator().(*frameworkext.FakeNominator)
	nodeInfo := framework.NewNodeInfo()
	nodeInfo.SetNode(node)
	ctx := context.TODO()

	rapid.Check(t, func(t *rapid.T) {
		c := rec.Begin()
		defer c.End()
		tp := c06GenTopo(t)
		topo := tp.topo
		all := topo.CPUDetails.CPUs().ToSlice()
		policy := rapid.SampledFrom([]extension.NUMATopologyPolicy{extension.NUMATopologyPolicyNone, extension.NUMATopologyPolicySingleNUMANode,
			extension.NUMATopologyPolicySingleNUMANode, extension.NUMATopologyPolicyRestricted, extension.NUMATopologyPolicyBestEffort}).Draw(t, "numaPolicy")
		numaAware := policy != extension.NUMATopologyPolicyNone
		memPerNode := rapid.Int64Range(0, 1<<12).Draw(t, "memPerNode")
		strat := rapid.SampledFrom(c06Strategies).Draw(t, "strategy")

		// fresh manager objects per case behind the one plugin instance
		tom := NewTopologyOptionsManager()
		rm := &resourceManager{numaAllocateStrategy: strat, topologyOptionsManager: tom, nodeAllocations: map[string]*NodeAllocation{}}
		pl.resourceManager, pl.topologyOptionsManager = rm, tom
		handler := &podEventHandler{resourceManager: rm}
		reportTopology := func() {
			tom.UpdateTopologyOptions(c06pNode, func(o *TopologyOptions) {
				o.CPUTopology = topo
				o.MaxRefCount = 1
				o.NUMATopologyPolicy = policy
				o.NUMANodeResources = nil
				for i := 0; i < topo.NumNodes; i++ {
					o.NUMANodeResources = append(o.NUMANodeResources, NUMANodeResource{Node: i, Resources: corev1.ResourceList{
						corev1.ResourceCPU:    *resource.NewMilliQuantity(int64(topo.CPUsPerNode())*1000, resource.DecimalSI),
						corev1.ResourceMemory: *resource.NewQuantity(memPerNode, resource.BinarySI),
					}})
				}
			})
		}
		reportTopology()
		topoGone := false

		live := map[types.UID]*c06pPod{}       // recorded (must be in the ledger)
		unrecorded := map[types.UID]*c06pPod{} // bound pods whose events all arrived while no topology was known
		next := 0
		var hist []string
		dead := false
		// class counters
		var nCycleOK, nCycleRefused, nDesignatedOK, nDesignatedConflict, nRsv, nMatchedUnmatched, nFromRsv, nBoundary, nBind, nUnreserve int
		var nStatusUpdate, nHealed, nAddNoTopo, nAddExisting, nFlap, nNUMAAlloc int
		var nTombstone int

		capOf := func(rn corev1.ResourceName) int64 {
			if rn == corev1.ResourceCPU {
				return int64(topo.CPUsPerNode()) * 1000
			}
			return memPerNode * 1000
		}
		sortedLive := func() []types.UID {
			out := make([]types.UID, 0, len(live))
			for k := range live {
				out = append(out, k)
			}
			sort.Slice(out, func(i, j int) bool { return out[i] < out[j] })
			return out
		}
		sortedUnrec := func() []types.UID {
			out := make([]types.UID, 0, len(unrecorded))
			for k := range unrecorded {
				out = append(out, k)
			}
			sort.Slice(out, func(i, j int) bool { return out[i] < out[j] })
			return out
		}
		heldCPUs := func() map[int]int { // by live recorded AND known-but-unrecorded pods (the cluster truth)
			ref := map[int]int{}
			for _, p := range live {
				for _, id := range p.alloc.CPUSet.ToSliceNoSort() {
					ref[id]++
				}
			}
			for _, p := range unrecorded {
				for _, id := range p.alloc.CPUSet.ToSliceNoSort() {
					ref[id]++
				}
			}
			return ref
		}
		// what the live recorded pods / reservations hold per NUMA node (milli), optionally without one of them
		heldNUMA := func(except types.UID) []map[corev1.ResourceName]int64 {
			out := make([]map[corev1.ResourceName]int64, topo.NumNodes)
			for i := range out {
				out[i] = map[corev1.ResourceName]int64{}
			}
			for uid, p := range live {
				if uid == except {
					continue
				}
				for _, r := range p.alloc.NUMANodeResources {
					if r.Node < 0 || r.Node >= topo.NumNodes {
						continue
					}
					for rn, q := range r.Resources {
						out[r.Node][rn] += q.MilliValue()
					}
				}
			}
			return out
		}

		check := func(where string) bool {
			na := rm.GetNodeAllocation(c06pNode)
			ref := map[int]int{}
			for _, p := range live {
				for _, id := range p.alloc.CPUSet.ToSliceNoSort() {
					ref[id]++
				}
			}
			for _, uid := range sortedLive() {
				if _, ok := na.allocatedPods[uid]; !ok {
					return c.Violation(t, "plugin:live-pod-not-in-ledger", "%s: %s is live and recorded (%s) but the ledger does not know it; history=%v", where, uid, c06AllocStr(live[uid].alloc), hist)
				}
			}
			if len(na.allocatedPods) != len(live) {
				return c.Violation(t, "plugin:pod-set-mismatch", "%s: ledger has %d pods, model %d; history=%v", where, len(na.allocatedPods), len(live), hist)
			}
			for _, id := range all {
				if ref[id] > 1 {
					return c.Violation(t, "plugin:cpu-over-shared", "%s: cpu %d held by %d live pods, sharing limit 1; history=%v", where, id, ref[id], hist)
				}
				if na.allocatedCPUs[id].RefCount != ref[id] {
					return c.Violation(t, "plugin:refcount-mismatch", "%s: cpu %d ledger refcount %d, live holders %d; history=%v", where, id, na.allocatedCPUs[id].RefCount, ref[id], hist)
				}
			}
			want := heldNUMA("")
			for i := 0; i < topo.NumNodes; i++ {
				var have corev1.ResourceList
				if na.allocatedResources[i] != nil {
					have = na.allocatedResources[i].Resources
				}
				for _, rn := range []corev1.ResourceName{corev1.ResourceCPU, corev1.ResourceMemory} {
					q := have[rn]
					if q.MilliValue() != want[i][rn] {
						return c.Violation(t, "plugin:numa-ledger-mismatch", "%s: NUMA %d %s ledger %d milli, live sum %d milli; history=%v", where, i, rn, q.MilliValue(), want[i][rn], hist)
					}
					if want[i][rn] > capOf(rn) {
						return c.Violation(t, "plugin:numa-over-capacity", "%s: NUMA %d %s: %d milli held by live pods and reservations, capacity %d milli; history=%v", where, i, rn, want[i][rn], capOf(rn), hist)
					}
				}
			}
			if topoGone {
				return false
			}
			avail, _, err := rm.GetAvailableCPUs(c06pNode)
			if err != nil {
				return c.Violation(t, "plugin:getavailable-error", "%s: %v", where, err)
			}
			for _, id := range all {
				if avail.Contains(id) != (ref[id] < 1) {
					return c.Violation(t, "plugin:available-mismatch", "%s: cpu %d available=%v but %d live holders; history=%v", where, id, avail.Contains(id), ref[id], hist)
				}
			}
			return false
		}

		newPodObj := func(lsr bool, cpuMilli, mem int64, spec *extension.ResourceSpec) *corev1.Pod {
			uid := types.UID(fmt.Sprintf("p%d", next))
			next++
			req := corev1.ResourceList{corev1.ResourceCPU: *resource.NewMilliQuantity(cpuMilli, resource.DecimalSI)}
			if mem >= 0 {
				req[corev1.ResourceMemory] = *resource.NewQuantity(mem, resource.BinarySI)
			}
			pod := &corev1.Pod{ObjectMeta: metav1.ObjectMeta{Namespace: "default", Name: string(uid), UID: uid, Labels: map[string]string{}, Annotations: map[string]string{}},
				Spec: corev1.PodSpec{Containers: []corev1.Container{{Name: "main", Resources: corev1.ResourceRequirements{Requests: req}}}}}
			if lsr {
				pod.Labels[extension.LabelPodQoS] = string(extension.QoSLSR)
				pod.Spec.Priority = ptr.To[int32](extension.PriorityProdValueMax)
			}
			if spec != nil {
				_ = extension.SetResourceSpec(pod, spec)
			}
			return pod
		}

		// one scheduling cycle through the plugin, as the framework calls it
		runCycle := func(pod *corev1.Pod, designated bool, matched, unmatched []*frameworkext.ReservationInfo, nominated *frameworkext.ReservationInfo) (fwktype.CycleState, *PodAllocation, string) {
			cs := framework.NewCycleState()
			if designated {
				hinter.SetSchedulingHintState(cs, &hinter.SchedulingHintStateData{PreFilterNodes: []string{c06pNode}, Extensions: map[string]interface{}{Name: map[string]interface{}{}}})
			}
			if _, st := pl.PreFilter(ctx, cs, pod, nil); !st.IsSuccess() {
				return cs, nil, "refused in PreFilter"
			}
			pl.PreRestoreReservation(ctx, cs, pod)
			if len(matched)+len(unmatched) > 0 {
				if _, st := pl.RestoreReservation(ctx, cs, pod, matched, unmatched, nodeInfo); !st.IsSuccess() {
					return cs, nil, "refused in RestoreReservation"
				}
			}
			if st := pl.Filter(ctx, cs, pod, nodeInfo); !st.IsSuccess() {
				return cs, nil, "refused in Filter"
			}
			if nominated != nil {
				nominator.AddNominatedReservation(pod, c06pNode, nominated)
			}
			st := pl.Reserve(ctx, cs, pod, c06pNode)
			nominator.RemoveNominatedReservations(pod)
			if !st.IsSuccess() {
				return cs, nil, "refused in Reserve"
			}
			state, _ := getPreFilterState(cs)
			if state == nil || state.allocation == nil {
				return cs, nil, "no allocation needed"
			}
			return cs, state.allocation, ""
		}

		// clauses about one successful allocation; freeNUMA = what every NUMA node has free for this pod (milli)
		judge := func(what, sigp string, exact bool, pod *corev1.Pod, a *PodAllocation, wantCPUs int, refBefore map[int]int, heldBefore []map[corev1.ResourceName]int64) bool {
			if wantCPUs >= 0 && a.CPUSet.Size() != wantCPUs {
				return c.Violation(t, sigp+"wrong-count", "%s: %d CPUs requested, got %v; history=%v", what, wantCPUs, a.CPUSet, hist)
			}
			for _, id := range a.CPUSet.ToSliceNoSort() {
				if refBefore[id] > 0 {
					return c.Violation(t, sigp+"took-held-cpu", "%s: got cpu %d which %d live pod(s) hold (sharing limit 1); history=%v", what, id, refBefore[id], hist)
				}
			}
			for _, r := range a.NUMANodeResources {
				for _, rn := range []corev1.ResourceName{corev1.ResourceCPU, corev1.ResourceMemory} {
					q, ok := r.Resources[rn]
					if !ok {
						continue
					}
					if free := capOf(rn) - heldBefore[r.Node][rn]; q.MilliValue() > free {
						return c.Violation(t, sigp+"numa-over-free", "%s: NUMA %d handed out %d milli %s, but only %d milli are free for this pod there (capacity %d, held by the other live pods and reservations %d); history=%v",
							what, r.Node, q.MilliValue(), rn, free, capOf(rn), heldBefore[r.Node][rn], hist)
					}
				}
			}
			if exact && len(a.NUMANodeResources) > 0 {
				want := pod.Spec.Containers[0].Resources.Requests
				for _, rn := range []corev1.ResourceName{corev1.ResourceCPU, corev1.ResourceMemory} {
					q, ok := want[rn]
					if !ok {
						continue
					}
					sum := int64(0)
					for _, r := range a.NUMANodeResources {
						x := r.Resources[rn]
						sum += x.MilliValue()
					}
					if sum != q.MilliValue() {
						return c.Violation(t, sigp+"numa-not-exact", "%s: %s requested %d milli, NUMA allocation sums to %d; history=%v", what, rn, q.MilliValue(), sum, hist)
					}
				}
			}
			return false
		}
		recordedAsExpected := func(what string, uid types.UID, a *PodAllocation) bool {
			got, ok := rm.GetNodeAllocation(c06pNode).allocatedPods[uid]
			if !ok {
				return c.Violation(t, "plugin:not-recorded:"+what, "%s: %s (%s) is not in the ledger afterwards; history=%v", what, uid, c06AllocStr(a), hist)
			}
			if !got.CPUSet.Equals(a.CPUSet) {
				return c.Violation(t, "plugin:recorded-differently:"+what, "%s: %s holds %v, ledger says %v; history=%v", what, uid, a.CPUSet, got.CPUSet, hist)
			}
			return false
		}
		schedulingAllowed := func() bool { return !topoGone && len(unrecorded) == 0 }
		reservations := func() []types.UID {
			var out []types.UID
			for _, uid := range sortedLive() {
				if live[uid].isRsv {
					out = append(out, uid)
				}
			}
			return out
		}

		actions := map[string]func(*rapid.T){
			// a pod goes through PreFilter / RestoreReservation / Filter / Reserve
			"schedule": func(t *rapid.T) {
				if dead {
					return
				}
				if !schedulingAllowed() {
					t.Skip("pods whose allocation the scheduler could not record yet exist, or no topology")
				}
				// which reservations match this pod is decided by owner selectors: any subset
				var matched, unmatched []*frameworkext.ReservationInfo
				var matchedUIDs []types.UID
				rsvs := reservations()
				forceSplit := len(rsvs) >= 2 && rapid.IntRange(0, 3).Draw(t, "forceSplit") > 0 // aim at: some match, some do not
				for i, uid := range rsvs {
					m := rapid.Bool().Draw(t, "matches")
					if forceSplit && i < 2 {
						m = i == 0
					}
					if m {
						matched = append(matched, live[uid].rInfo)
						matchedUIDs = append(matchedUIDs, uid)
					} else {
						unmatched = append(unmatched, live[uid].rInfo)
					}
				}
				var nominated *frameworkext.ReservationInfo
				var nominatedUID types.UID
				if len(matched) > 0 && rapid.IntRange(0, 3).Draw(t, "nominate") > 0 {
					i := rapid.IntRange(0, len(matched)-1).Draw(t, "nominated")
					nominated, nominatedUID = matched[i], matchedUIDs[i]
				}
				refBefore := heldCPUs()
				heldBefore := heldNUMA(nominatedUID)
				lsr := rapid.Bool().Draw(t, "lsr") || !numaAware
				var spec *extension.ResourceSpec
				var cpuMilli int64
				wantCPUs := -1
				boundary := false
				pickAround := func(free, max int64, label string) int64 { // around what one NUMA node has free for this pod
					if free < 0 {
						free = 0
					}
					switch rapid.IntRange(0, 4).Draw(t, label+"Kind") {
					case 0:
						boundary = true
						return free
					case 1:
						boundary = true
						return free + 1
					case 2:
						boundary = true
						return free + rapid.Int64Range(1, max+1).Draw(t, label+"Over")
					default:
						return rapid.Int64Range(0, max).Draw(t, label)
					}
				}
				k := rapid.IntRange(0, topo.NumNodes-1).Draw(t, "aimAtNUMA")
				if lsr {
					bind := rapid.SampledFrom([]extension.CPUBindPolicy{"", extension.CPUBindPolicyFullPCPUs, extension.CPUBindPolicySpreadByPCPUs}).Draw(t, "bind")
					spec = &extension.ResourceSpec{PreferredCPUExclusivePolicy: extension.CPUExclusivePolicy(rapid.SampledFrom([]string{"", "PCPULevel", "NUMANodeLevel"}).Draw(t, "excl"))}
					if rapid.Bool().Draw(t, "required") {
						spec.RequiredCPUBindPolicy = bind
					} else {
						spec.PreferredCPUBindPolicy = bind
					}
					n := pickAround((capOf(corev1.ResourceCPU)-heldBefore[k][corev1.ResourceCPU])/1000, int64(len(all)), "cpus")
					if n < 1 {
						n = 1
					}
					cpuMilli, wantCPUs = n*1000, int(n)
				} else {
					cpuMilli = pickAround(capOf(corev1.ResourceCPU)-heldBefore[k][corev1.ResourceCPU], int64(len(all))*1000, "milli")
					if cpuMilli < 1 {
						cpuMilli = 1
					}
				}
				mem := int64(-1)
				if rapid.Bool().Draw(t, "wantMem") {
					mem = pickAround((capOf(corev1.ResourceMemory)-heldBefore[k][corev1.ResourceMemory])/1000, memPerNode*int64(topo.NumNodes), "mem")
				}
				pod := newPodObj(lsr, cpuMilli, mem, spec)
				cs, a, why := runCycle(pod, false, matched, unmatched, nominated)
				if len(matched) > 0 && len(unmatched) > 0 {
					nMatchedUnmatched++
					if boundary {
						nBoundary++
					}
				}
				hist = append(hist, fmt.Sprintf("schedule %s lsr=%v req=%v spec=%+v matched=%v nominated=%q unmatched=%d -> %s %s", pod.UID, lsr, c06RLOne(pod.Spec.Containers[0].Resources.Requests), spec, matchedUIDs, nominatedUID, len(unmatched), c06AllocStr(a), why))
				if a == nil {
					nCycleRefused++
					return
				}
				nCycleOK++
				if len(a.NUMANodeResources) > 0 {
					nNUMAAlloc++
				}
				// a Restricted reservation only serves the resources it holds; what the pod requests beyond them is not NUMA-allocated at
				// all by koordinator (observed, reservation semantics, not asserted)
				exact := nominated == nil || live[nominatedUID].policy != schedulingv1alpha1.ReservationAllocatePolicyRestricted
				if judge("schedule "+string(pod.UID), "plugin:", exact, pod, a, wantCPUs, refBefore, heldBefore) {
					dead = true
					return
				}
				live[pod.UID] = &c06pPod{obj: pod, cs: cs, alloc: a}
				if recordedAsExpected("after-reserve", pod.UID, a) {
					dead = true
					return
				}
				if nominated != nil {
					// the pod was allocated with the nominated reservation; the reservation is allocate-once: it is consumed and its
					// reserve pod leaves the ledger (reservation event handler -> OnDelete of the reserve pod)
					nFromRsv++
					handler.OnDelete(live[nominatedUID].obj)
					delete(live, nominatedUID)
					hist = append(hist, fmt.Sprintf("reservation %s consumed by %s, removed", nominatedUID, pod.UID))
				}
			},
			// a pod scheduled with a designated allocation (scheduling hint + resource-status annotation): allocated in Filter
			"scheduleDesignated": func(t *rapid.T) {
				if dead {
					return
				}
				if !schedulingAllowed() {
					t.Skip("no topology / unrecorded pods")
				}
				refBefore := heldCPUs()
				heldBefore := heldNUMA("")
				var free []int
				var held []int
				for _, id := range all {
					if refBefore[id] == 0 {
						free = append(free, id)
					} else {
						held = append(held, id)
					}
				}
				if len(free) == 0 {
					t.Skip("no free CPU")
				}
				// what the designating component saw is consistent with the cluster: free CPUs, and (NUMA-aware node) not more CPUs on a
				// NUMA node than it has cpu free
				budget := make([]int64, topo.NumNodes)
				for i := range budget {
					budget[i] = int64(len(all))
					if numaAware {
						budget[i] = (capOf(corev1.ResourceCPU) - heldBefore[i][corev1.ResourceCPU]) / 1000
					}
				}
				var pickSet []int
				for _, id := range c06Subset(t, free, "designated") {
					if nid := topo.CPUDetails[id].NodeID; budget[nid] > 0 {
						budget[nid]--
						pickSet = append(pickSet, id)
					}
				}
				if len(pickSet) == 0 {
					for _, id := range free {
						if nid := topo.CPUDetails[id].NodeID; budget[nid] > 0 {
							pickSet = append(pickSet, id)
							break
						}
					}
				}
				if len(pickSet) == 0 {
					t.Skip("no NUMA node with a free CPU and cpu amount")
				}
				conflict := len(held) > 0 && rapid.IntRange(0, 7).Draw(t, "conflict") == 0
				if conflict {
					pickSet = append(pickSet, rapid.SampledFrom(held).Draw(t, "heldCPU"))
				}
				cpus := cpuset.NewCPUSet(pickSet...)
				status := &extension.ResourceStatus{CPUSet: cpus.String()}
				if numaAware {
					perNode := map[int]int64{}
					for _, id := range cpus.ToSliceNoSort() {
						perNode[topo.CPUDetails[id].NodeID]++
					}
					for nid := 0; nid < topo.NumNodes; nid++ {
						if n, ok := perNode[nid]; ok {
							status.NUMANodeResources = append(status.NUMANodeResources, extension.NUMANodeResource{Node: int32(nid), Resources: corev1.ResourceList{corev1.ResourceCPU: *resource.NewQuantity(n, resource.DecimalSI)}})
						}
					}
				}
				pod := newPodObj(true, int64(cpus.Size())*1000, -1, &extension.ResourceSpec{PreferredCPUBindPolicy: extension.CPUBindPolicy(rapid.SampledFrom([]string{"", "FullPCPUs", "SpreadByPCPUs"}).Draw(t, "bind"))})
				_ = extension.SetResourceStatus(pod, status)
				cs, a, why := runCycle(pod, true, nil, nil, nil)
				hist = append(hist, fmt.Sprintf("scheduleDesignated %s cpus=%s conflict=%v -> %s %s", pod.UID, cpus, conflict, c06AllocStr(a), why))
				if conflict {
					nDesignatedConflict++
				}
				if a == nil {
					nCycleRefused++
					return
				}
				nDesignatedOK++
				if judge("scheduleDesignated "+string(pod.UID), "plugin:designated:", true, pod, a, cpus.Size(), refBefore, heldBefore) {
					dead = true
					return
				}
				// the cycle is over and passed Reserve: from now on the CPUs belong to the pod
				live[pod.UID] = &c06pPod{obj: pod, cs: cs, alloc: a}
				if recordedAsExpected("after-reserve-designated", pod.UID, a) {
					dead = true
					return
				}
			},
			// a reservation is scheduled: its reserve pod goes through the same cycle and holds NUMA amounts in the ledger
			"scheduleReservation": func(t *rapid.T) {
				if dead {
					return
				}
				if !schedulingAllowed() || !numaAware {
					t.Skip("no topology / unrecorded pods / node without NUMA policy")
				}
				heldBefore := heldNUMA("")
				k := rapid.IntRange(0, topo.NumNodes-1).Draw(t, "aimAtNUMA")
				freeCPU := capOf(corev1.ResourceCPU) - heldBefore[k][corev1.ResourceCPU]
				if freeCPU < 1 {
					freeCPU = 1
				}
				cpuMilli := rapid.Int64Range(1, freeCPU).Draw(t, "milli")
				mem := int64(-1)
				if memPerNode > 0 && rapid.Bool().Draw(t, "wantMem") {
					mem = rapid.Int64Range(1, memPerNode).Draw(t, "mem")
				}
				tmpl := newPodObj(false, cpuMilli, mem, nil)
				allocPolicy := rapid.SampledFrom([]schedulingv1alpha1.ReservationAllocatePolicy{schedulingv1alpha1.ReservationAllocatePolicyDefault,
					schedulingv1alpha1.ReservationAllocatePolicyAligned, schedulingv1alpha1.ReservationAllocatePolicyRestricted}).Draw(t, "allocatePolicy")
				r := &schedulingv1alpha1.Reservation{ObjectMeta: metav1.ObjectMeta{Name: "r-" + tmpl.Name, UID: types.UID("r-" + tmpl.Name)},
					Spec:   schedulingv1alpha1.ReservationSpec{AllocatePolicy: allocPolicy, AllocateOnce: ptr.To(true), Template: &corev1.PodTemplateSpec{Spec: tmpl.Spec}},
					Status: schedulingv1alpha1.ReservationStatus{Phase: schedulingv1alpha1.ReservationAvailable, NodeName: c06pNode}}
				reservePod := reservationutil.NewReservePod(r)
				_, a, why := runCycle(reservePod, false, nil, nil, nil)
				hist = append(hist, fmt.Sprintf("scheduleReservation %s policy=%q req=%v -> %s %s", r.UID, allocPolicy, c06RLOne(tmpl.Spec.Containers[0].Resources.Requests), c06AllocStr(a), why))
				if a == nil {
					nCycleRefused++
					return
				}
				if judge("scheduleReservation "+string(r.UID), "plugin:", true, tmpl, a, -1, heldCPUs(), heldBefore) {
					dead = true
					return
				}
				reservePod.Spec.NodeName = c06pNode
				live[r.UID] = &c06pPod{obj: reservePod, alloc: a, isRsv: true, rInfo: frameworkext.NewReservationInfo(r), policy: allocPolicy}
				nRsv++
				if recordedAsExpected("after-reserve-reservation", r.UID, a) {
					dead = true
					return
				}
			},
			// binding failed / was rejected after Reserve
			"unreserve": func(t *rapid.T) {
				if dead {
					return
				}
				var cands []types.UID
				for _, uid := range sortedLive() {
					if !live[uid].bound && !live[uid].isRsv {
						cands = append(cands, uid)
					}
				}
				if len(cands) == 0 {
					t.Skip("no assumed pod")
				}
				uid := rapid.SampledFrom(cands).Draw(t, "uid")
				pl.Unreserve(ctx, live[uid].cs, live[uid].obj, c06pNode)
				delete(live, uid)
				nUnreserve++
				hist = append(hist, fmt.Sprintf("unreserve %s", uid))
			},
			// PreBind writes the allocation into the pod, the pod is bound, the informer delivers the update
			"bind": func(t *rapid.T) {
				if dead {
					return
				}
				var cands []types.UID
				for _, uid := range sortedLive() {
					if !live[uid].bound && !live[uid].isRsv {
						cands = append(cands, uid)
					}
				}
				if len(cands) == 0 {
					t.Skip("no assumed pod")
				}
				uid := rapid.SampledFrom(cands).Draw(t, "uid")
				p := live[uid]
				old := p.obj.DeepCopy()
				if st := pl.PreBind(ctx, p.cs, p.obj, c06pNode); !st.IsSuccess() {
					hist = append(hist, fmt.Sprintf("bind %s: PreBind failed (%s), unreserved", uid, st.Message()))
					pl.Unreserve(ctx, p.cs, p.obj, c06pNode)
					delete(live, uid)
					return
				}
				bound := p.obj.DeepCopy()
				bound.Spec.NodeName = c06pNode
				bound.Status.Phase = corev1.PodRunning
				handler.OnUpdate(old, bound)
				p.obj, p.bound, p.cs = bound, true, nil
				nBind++
				hist = append(hist, fmt.Sprintf("bind %s (annotated %s)", uid, bound.Annotations[extension.AnnotationResourceStatus]))
				if ann := c06pAllocFromAnnotations(bound); !ann.CPUSet.Equals(p.alloc.CPUSet) {
					dead = c.Violation(t, "plugin:prebind-annotation-differs", "%s was allocated %v but annotated %v; history=%v", uid, p.alloc.CPUSet, ann.CPUSet, hist)
				}
			},
			// kubelet status heartbeat of a bound pod: the allocation annotations do not change
			"podStatusUpdate": func(t *rapid.T) {
				if dead {
					return
				}
				var cands []types.UID
				for _, uid := range sortedLive() {
					if live[uid].bound {
						cands = append(cands, uid)
					}
				}
				cands = append(cands, sortedUnrec()...)
				if len(cands) == 0 {
					t.Skip("no bound pod")
				}
				uid := rapid.SampledFrom(cands).Draw(t, "uid")
				p, wasUnrecorded := unrecorded[uid]
				if !wasUnrecorded {
					p = live[uid]
				}
				old := p.obj
				upd := old.DeepCopy()
				upd.ResourceVersion = fmt.Sprint(len(hist))
				upd.Status.Conditions = append(upd.Status.Conditions, corev1.PodCondition{Type: corev1.PodReady, Status: corev1.ConditionTrue})
				handler.OnUpdate(old, upd)
				p.obj = upd
				nStatusUpdate++
				hist = append(hist, fmt.Sprintf("podStatusUpdate %s (unrecorded before: %v, topology known: %v)", uid, wasUnrecorded, !topoGone))
				if wasUnrecorded && !topoGone {
					// an informer event of a bound annotated pod with a valid topology: its allocation is in the ledger from now on
					delete(unrecorded, uid)
					live[uid] = p
					nHealed++
					if recordedAsExpected("after-pod-update-event", uid, p.alloc) {
						dead = true
					}
				}
			},
			// the informer delivers a pod that was bound by an earlier life of the scheduler (annotated allocation, consistent with
			// what is free in the cluster)
			"podAddExisting": func(t *rapid.T) {
				if dead {
					return
				}
				ref := heldCPUs()
				held := heldNUMA("")
				k := rapid.IntRange(0, topo.NumNodes-1).Draw(t, "numa")
				var free []int
				for _, id := range all {
					if ref[id] == 0 && topo.CPUDetails[id].NodeID == k {
						free = append(free, id)
					}
				}
				maxN := int64(len(free))
				if numaAware {
					if f := (capOf(corev1.ResourceCPU) - held[k][corev1.ResourceCPU]) / 1000; f < maxN {
						maxN = f
					}
					for _, p := range unrecorded { // they hold NUMA amounts too, the ledger just does not know yet
						for _, r := range p.alloc.NUMANodeResources {
							if r.Node == k {
								q := r.Resources[corev1.ResourceCPU]
								maxN -= q.Value()
							}
						}
					}
				}
				if maxN < 1 {
					t.Skip("nothing free on that NUMA node")
				}
				n := rapid.Int64Range(1, maxN).Draw(t, "cpus")
				cpus := cpuset.NewCPUSet(free[:n]...)
				pod := newPodObj(true, n*1000, -1, &extension.ResourceSpec{PreferredCPUBindPolicy: extension.CPUBindPolicyFullPCPUs})
				status := &extension.ResourceStatus{CPUSet: cpus.String()}
				if numaAware {
					status.NUMANodeResources = []extension.NUMANodeResource{{Node: int32(k), Resources: corev1.ResourceList{corev1.ResourceCPU: *resource.NewQuantity(n, resource.DecimalSI)}}}
				}
				_ = extension.SetResourceStatus(pod, status)
				pod.Spec.NodeName = c06pNode
				pod.Status.Phase = corev1.PodRunning
				handler.OnAdd(pod, rapid.Bool().Draw(t, "initialList"))
				p := &c06pPod{obj: pod, alloc: c06pAllocFromAnnotations(pod), bound: true}
				nAddExisting++
				hist = append(hist, fmt.Sprintf("podAddExisting %s %s (topology known: %v)", pod.UID, c06AllocStr(p.alloc), !topoGone))
				if topoGone {
					unrecorded[pod.UID] = p // resourceManager.Update drops it while the node has no valid topology
					nAddNoTopo++
					return
				}
				live[pod.UID] = p
				if recordedAsExpected("after-pod-add-event", pod.UID, p.alloc) {
					dead = true
				}
			},
			"podDelete": func(t *rapid.T) {
				if dead {
					return
				}
				var cands []types.UID
				for _, uid := range sortedLive() {
					if live[uid].bound || live[uid].isRsv {
						cands = append(cands, uid)
					}
				}
				cands = append(cands, sortedUnrec()...)
				if len(cands) == 0 {
					t.Skip("no bound pod")
				}
				uid := rapid.SampledFrom(cands).Draw(t, "uid")
				p, un := unrecorded[uid]
				if !un {
					p = live[uid]
				}
				how := ""
				if !p.isRsv && rapid.Bool().Draw(t, "terminatedUpdate") {
					upd := p.obj.DeepCopy()
					upd.Status.Phase = corev1.PodSucceeded
					handler.OnUpdate(p.obj, upd)
				} else if rapid.Bool().Draw(t, "tombstone") {
					// the informer missed the delete (watch dropped, re-list): client-go delivers a tombstone VALUE
					handler.OnDelete(cache.DeletedFinalStateUnknown{Key: "default/" + p.obj.Name, Obj: p.obj})
					nTombstone++
					how = " (DeletedFinalStateUnknown)"
				} else {
					handler.OnDelete(p.obj)
				}
				delete(live, uid)
				delete(unrecorded, uid)
				hist = append(hist, fmt.Sprintf("podDelete %s%s", uid, how))
				if _, still := rm.GetNodeAllocation(c06pNode).allocatedPods[uid]; still {
					dead = c.Violation(t, "plugin:deleted-pod-still-recorded", "%s was deleted%s but is still in the ledger; history=%v", uid, how, hist)
				}
			},
			"topologyRemoved": func(t *rapid.T) {
				if dead {
					return
				}
				if topoGone {
					t.Skip("already gone")
				}
				tom.Delete(c06pNode)
				topoGone = true
				nFlap++
				hist = append(hist, "NodeResourceTopology deleted")
			},
			"topologyReported": func(t *rapid.T) {
				if dead {
					return
				}
				if !topoGone {
					t.Skip("present")
				}
				reportTopology()
				topoGone = false
				hist = append(hist, "NodeResourceTopology reported again (unchanged)")
			},
			"": func(t *rapid.T) {
				if !dead && check(fmt.Sprintf("after %d ops", len(hist))) {
					dead = true
				}
			},
		}
		t.Repeat(actions)

		c.ClassIf(numaAware, "node-with-numa-policy")
		c.ClassIf(nCycleOK > 0, "cycle-success")
		c.ClassIf(nCycleRefused > 0, "cycle-refused")
		c.ClassIf(nNUMAAlloc > 0, "numa-level-allocation")
		c.ClassIf(nDesignatedOK > 0, "designated-allocation-reserved")
		c.ClassIf(nDesignatedConflict > 0, "designated-allocation-with-held-cpu")
		c.ClassIf(nRsv > 0, "reservation-scheduled")
		c.ClassIf(nMatchedUnmatched > 0, "cycle-with-matched-and-unmatched-reservations")
		c.ClassIf(nBoundary > 0, "cycle-with-matched-and-unmatched-reservations+request-at-free-boundary")
		c.ClassIf(nFromRsv > 0, "pod-allocated-with-nominated-reservation")
		c.ClassIf(nBind > 0, "bound-through-prebind+informer-update")
		c.ClassIf(nUnreserve > 0, "unreserved")
		c.ClassIf(nStatusUpdate > 0, "status-only-pod-update")
		c.ClassIf(nAddExisting > 0, "existing-pod-added-by-informer")
		c.ClassIf(nAddNoTopo > 0, "pod-event-dropped-without-topology")
		c.ClassIf(nHealed > 0, "dropped-pod-recorded-by-later-status-update")
		c.ClassIf(nFlap > 0, "topology-removed")
		c.ClassIf(nTombstone > 0, "pod-delete-delivered-as-tombstone")
		if len(hist) >= 3 && (nDesignatedOK > 0 || nHealed > 0 || nMatchedUnmatched > 0 || nBind > 0) {
			c.NonTrivial(hist)
		}
		c.Sample(map[string]any{"topo": tp.String(), "numaPolicy": policy, "memPerNode": memPerNode, "history": hist})
	})
}
