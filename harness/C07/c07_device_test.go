//go:build verif

// C07 — Devices are never over-committed and device accounting balances.
// See /verif/DESIGN.md §1 C07. In-package harness (injected with -overlay).
//
// Two units:
//   - history:  rapid state machine over one nodeDeviceCache / nodeDevice (allocate through the real
//     AutopilotAllocator + commit as Reserve does or through the pod informer handler, duplicate events,
//     pod update with a changed allocation, release in four ways, release twice, inventory refresh
//     growing / shrinking / unhealthy / removed / Device CR deleted) with the ledger oracle evaluated on
//     getNodeDeviceSummary() after every step;
//   - allocate: single (inventory, usage, request) triples, validity + completeness of one allocation.
//
// The reference model is kept by the harness alone: the inventory it sent last, and for every live pod the
// allocation it was handed. Free is always derived from the model (max(total-used,0)), never read back from
// the code, so the allocation oracle is independent of the ledgers under test.
package deviceshare

import (
	"flag"
	"fmt"
	"io"
	"sort"
	"strings"
	"sync"
	"testing"

	corev1 "k8s.io/api/core/v1"
	"k8s.io/apimachinery/pkg/api/resource"
	metav1 "k8s.io/apimachinery/pkg/apis/meta/v1"
	"k8s.io/apimachinery/pkg/types"
	"k8s.io/client-go/tools/cache"
	"k8s.io/klog/v2"
	"k8s.io/utils/ptr"
	"pgregory.net/rapid"

	apiext "github.com/koordinator-sh/koordinator/apis/extension"
	schedulingv1alpha1 "github.com/koordinator-sh/koordinator/apis/scheduling/v1alpha1"
	schedulerconfig "github.com/koordinator-sh/koordinator/pkg/scheduler/apis/config"
	"github.com/koordinator-sh/koordinator/pkg/verifkit/vk"
)

const c07Node = "c07-node"

var c07Quiet sync.Once

// buildDeviceResources logs one error line per unhealthy device; keep the captured output small.
func c07Silence() {
	c07Quiet.Do(func() {
		fs := flag.NewFlagSet("c07-klog", flag.ContinueOnError)
		klog.InitFlags(fs)
		_ = fs.Set("logtostderr", "false")
		_ = fs.Set("alsologtostderr", "false")
		_ = fs.Set("stderrthreshold", "FATAL")
		klog.SetOutput(io.Discard)
	})
}

// ---------------------------------------------------------------- model

// c07Flat maps "type/minor/resource" (or any other flat key) to an amount; absent == 0, zero entries are never stored.
type c07Flat map[string]int64

func c07Key(dt schedulingv1alpha1.DeviceType, minor int, rn corev1.ResourceName) string {
	return fmt.Sprintf("%s/%d/%s", dt, minor, rn)
}

func (f c07Flat) add(k string, v int64) {
	if v == 0 {
		return
	}
	f[k] += v
	if f[k] == 0 {
		delete(f, k)
	}
}

func c07Keys(ms ...c07Flat) []string {
	seen := map[string]struct{}{}
	for _, m := range ms {
		for k := range m {
			seen[k] = struct{}{}
		}
	}
	out := make([]string, 0, len(seen))
	for k := range seen {
		out = append(out, k)
	}
	sort.Strings(out)
	return out
}

func c07FlattenDetail(m map[schedulingv1alpha1.DeviceType]deviceResources) c07Flat {
	out := c07Flat{}
	for dt, devs := range m {
		for minor, rl := range devs {
			for rn, q := range rl {
				out.add(c07Key(dt, minor, rn), q.Value())
			}
		}
	}
	return out
}

type c07Dev struct {
	Type   schedulingv1alpha1.DeviceType
	Minor  int
	Health bool
	Res    map[corev1.ResourceName]int64 // as reported by the node agent (also kept while unhealthy)
	NUMA   int                           // -1: no topology reported
	PCIe   int
}

func (d c07Dev) String() string {
	h := "ok"
	if !d.Health {
		h = "UNHEALTHY"
	}
	topo := ""
	if d.NUMA >= 0 {
		topo = fmt.Sprintf(" numa%d/pcie%d", d.NUMA, d.PCIe)
	}
	return fmt.Sprintf("%s#%d[%s %s%s]", d.Type, d.Minor, h, c07ResStr(d.Res), topo)
}

func c07ResStr(m map[corev1.ResourceName]int64) string {
	ks := make([]string, 0, len(m))
	for k := range m {
		ks = append(ks, string(k))
	}
	sort.Strings(ks)
	var b strings.Builder
	for i, k := range ks {
		if i > 0 {
			b.WriteByte(' ')
		}
		fmt.Fprintf(&b, "%s=%d", strings.TrimPrefix(k, apiext.DomainPrefix), m[corev1.ResourceName(k)])
	}
	return b.String()
}

func c07Quantity(rn corev1.ResourceName, v int64) resource.Quantity {
	if rn == apiext.ResourceGPUMemory {
		return *resource.NewQuantity(v, resource.BinarySI)
	}
	return *resource.NewQuantity(v, resource.DecimalSI)
}

func c07RL(m map[corev1.ResourceName]int64) corev1.ResourceList {
	if m == nil {
		return nil
	}
	rl := corev1.ResourceList{}
	for k, v := range m {
		rl[k] = c07Quantity(k, v)
	}
	return rl
}

func c07BuildDevice(inv []c07Dev) *schedulingv1alpha1.Device {
	d := &schedulingv1alpha1.Device{ObjectMeta: metav1.ObjectMeta{Name: c07Node}}
	for _, x := range inv {
		info := schedulingv1alpha1.DeviceInfo{
			Type: x.Type, UUID: fmt.Sprintf("%s-%d", x.Type, x.Minor), Minor: ptr.To(int32(x.Minor)),
			Health: x.Health, Resources: c07RL(x.Res),
		}
		if x.NUMA >= 0 {
			info.Topology = &schedulingv1alpha1.DeviceTopology{SocketID: int32(x.NUMA / 2), NodeID: int32(x.NUMA), PCIEID: fmt.Sprint(x.PCIe)}
		}
		d.Spec.Devices = append(d.Spec.Devices, info)
	}
	return d
}

type c07Live struct {
	Name      string
	Sched     *corev1.Pod // the pod as seen in the scheduling cycle (unbound, no annotation)
	Bound     *corev1.Pod // the pod as the informer delivers it after binding (nodeName + allocation annotation)
	Alloc     apiext.DeviceAllocations
	Flat      c07Flat         // type/minor/resource -> amount held
	Requested map[string]bool // type/resource names that were part of the per-device request (the others were derived by fillGPUTotalMem)
	Done      *corev1.Pod     // the pod object as last delivered in a terminal phase (Succeeded/Failed); holds nothing from then on
	Dup       bool            // a duplicate event was delivered while live
	Refreshed bool            // an inventory refresh happened while live
}

type c07World struct {
	cache       *nodeDeviceCache
	node        *corev1.Node
	inv         []c07Dev
	invalidated bool // Device CR deleted and not yet re-created: every device counts as unusable
	live        map[string]*c07Live
	scorer      *resourceAllocationScorer
	memMode     int // 0: memory asked as ratio only, 1: as bytes only, 2: mixed
	nextPod     int
	resized     map[int]bool // GPU minors whose memory size may differ from the size their holders were charged against
}

func (w *c07World) markResized(minor int) {
	if w.resized == nil {
		w.resized = map[int]bool{}
	}
	w.resized[minor] = true
}

// singleMemoryView reports whether every live holder of GPU memory on the device asked for it in the given view ("ratio" or
// "bytes") against the device's present memory size. On such a device the documented truncating conversions guarantee that
// the other view fits whenever the asked one does (sum of floor(r_i*T/100) <= T for sum r_i <= 100, and sum of
// floor(100*b_i/T) <= 100 for sum b_i <= T), so a request in the same view must be served on its asked view alone.
func (w *c07World) singleMemoryView(minor int, view string) bool {
	if w.resized[minor] {
		return false
	}
	ratioKey := c07Key(schedulingv1alpha1.GPU, minor, apiext.ResourceGPUMemoryRatio)
	memKey := c07Key(schedulingv1alpha1.GPU, minor, apiext.ResourceGPUMemory)
	for _, p := range w.live {
		if p.Flat[ratioKey] == 0 && p.Flat[memKey] == 0 {
			continue
		}
		askedRatio, askedBytes := p.Requested["gpu/"+string(apiext.ResourceGPUMemoryRatio)], p.Requested["gpu/"+string(apiext.ResourceGPUMemory)]
		if (view == "ratio" && !(askedRatio && !askedBytes)) || (view == "bytes" && !(askedBytes && !askedRatio)) {
			return false
		}
	}
	return true
}

func c07AllocFlat(a apiext.DeviceAllocations) c07Flat {
	out := c07Flat{}
	for dt, list := range a {
		for _, x := range list {
			for rn, q := range x.Resources {
				out.add(c07Key(dt, int(x.Minor), rn), q.Value())
			}
		}
	}
	return out
}

func (w *c07World) liveNames() []string {
	out := make([]string, 0, len(w.live))
	for k := range w.live {
		out = append(out, k)
	}
	sort.Strings(out)
	return out
}

func (w *c07World) modelTotal() c07Flat {
	out := c07Flat{}
	if w.invalidated {
		return out
	}
	for _, d := range w.inv {
		if !d.Health {
			continue
		}
		for rn, v := range d.Res {
			out.add(c07Key(d.Type, d.Minor, rn), v)
		}
	}
	return out
}

func (w *c07World) modelUsed() c07Flat {
	out := c07Flat{}
	for _, p := range w.live {
		for k, v := range p.Flat {
			out.add(k, v)
		}
	}
	return out
}

func c07Free(total, used c07Flat) c07Flat {
	out := c07Flat{}
	for k, tv := range total {
		if v := tv - used[k]; v > 0 {
			out[k] = v
		}
	}
	return out
}

func (w *c07World) devsOf(dt schedulingv1alpha1.DeviceType) []c07Dev {
	var out []c07Dev
	for _, d := range w.inv {
		if d.Type == dt {
			out = append(out, d)
		}
	}
	return out
}

func (w *c07World) invString() string {
	parts := make([]string, 0, len(w.inv))
	for _, d := range w.inv {
		parts = append(parts, d.String())
	}
	s := strings.Join(parts, ", ")
	if w.invalidated {
		s += " (Device CR deleted)"
	}
	return s
}

// ---------------------------------------------------------------- generators

var c07Types = []schedulingv1alpha1.DeviceType{schedulingv1alpha1.GPU, schedulingv1alpha1.RDMA, schedulingv1alpha1.FPGA}

func c07TypeResource(dt schedulingv1alpha1.DeviceType) corev1.ResourceName {
	if dt == schedulingv1alpha1.RDMA {
		return apiext.ResourceRDMA
	}
	return apiext.ResourceFPGA
}

func c07GenGPUMem(t *rapid.T, label string) int64 {
	return rapid.OneOf(
		rapid.SampledFrom([]int64{1 << 30, 16 << 30, 1 << 36, 85198045184, 100 << 24, 24 << 30}),
		rapid.Int64Range(1<<30, 1<<36),
	).Draw(t, label)
}

func c07GenDevRes(t *rapid.T, dt schedulingv1alpha1.DeviceType, gpuMem int64) map[corev1.ResourceName]int64 {
	zero := rapid.IntRange(0, 15).Draw(t, "zeroRes") == 0 // a healthy device that reports nothing
	if dt == schedulingv1alpha1.GPU {
		if zero {
			if rapid.Bool().Draw(t, "zeroAsEmpty") {
				return map[corev1.ResourceName]int64{}
			}
			return map[corev1.ResourceName]int64{apiext.ResourceGPUCore: 0, apiext.ResourceGPUMemoryRatio: 0, apiext.ResourceGPUMemory: 0}
		}
		return map[corev1.ResourceName]int64{apiext.ResourceGPUCore: 100, apiext.ResourceGPUMemoryRatio: 100, apiext.ResourceGPUMemory: gpuMem}
	}
	if zero {
		return map[corev1.ResourceName]int64{c07TypeResource(dt): 0}
	}
	return map[corev1.ResourceName]int64{c07TypeResource(dt): rapid.SampledFrom([]int64{100, 100, 100, 100, 50, 200, 1}).Draw(t, "total")}
}

func c07GenInventory(t *rapid.T) []c07Dev {
	var inv []c07Dev
	counts := map[schedulingv1alpha1.DeviceType]int{
		schedulingv1alpha1.GPU:  rapid.SampledFrom([]int{0, 1, 1, 2, 2, 3, 4, 4, 5, 8}).Draw(t, "nGPU"),
		schedulingv1alpha1.RDMA: rapid.SampledFrom([]int{0, 0, 1, 2, 2, 4}).Draw(t, "nRDMA"),
		schedulingv1alpha1.FPGA: rapid.SampledFrom([]int{0, 0, 0, 1, 2, 4}).Draw(t, "nFPGA"),
	}
	topoMode := rapid.SampledFrom([]int{0, 0, 1, 1, 2}).Draw(t, "topoMode") // 0 none, 1 every device, 2 some devices
	numaN := rapid.IntRange(1, 2).Draw(t, "numaNodes")
	homogeneous := rapid.IntRange(0, 4).Draw(t, "homogeneousMem") > 0
	mem := c07GenGPUMem(t, "gpuMem")
	for _, dt := range c07Types {
		n := counts[dt]
		if n == 0 {
			continue
		}
		var minors []int
		if rapid.IntRange(0, 2).Draw(t, "sparseMinors") == 0 {
			minors = rapid.SliceOfNDistinct(rapid.IntRange(0, 11), n, n, func(i int) int { return i }).Draw(t, "minors")
			sort.Ints(minors)
		} else {
			for i := 0; i < n; i++ {
				minors = append(minors, i)
			}
		}
		for i, minor := range minors {
			m := mem
			if !homogeneous {
				m = c07GenGPUMem(t, "gpuMemDev")
			}
			d := c07Dev{Type: dt, Minor: minor, NUMA: -1}
			d.Res = c07GenDevRes(t, dt, m)
			d.Health = rapid.IntRange(0, 7).Draw(t, "healthy") > 0
			if topoMode == 1 || (topoMode == 2 && rapid.Bool().Draw(t, "hasTopo")) {
				d.NUMA = i * numaN / n
				d.PCIe = d.NUMA*10 + rapid.IntRange(0, 1).Draw(t, "pcie")
			}
			inv = append(inv, d)
		}
	}
	return inv
}

// c07Request is one pod's device request together with the harness' own statement of what it means per device.
type c07Request struct {
	Desc  string
	Pod   corev1.ResourceList
	Per   map[schedulingv1alpha1.DeviceType]map[corev1.ResourceName]int64
	Count map[schedulingv1alpha1.DeviceType]int
	// MaxCount, when set for a type, is the largest number of devices a successful allocation may hand out (joint
	// allocation gives a secondary device per PCIe switch of the primary devices); default: exactly Count.
	MaxCount map[schedulingv1alpha1.DeviceType]int
}

// c07GPUPerDevice restates the documented conversion of a pod-level GPU request (after the nvidia.com/gpu and
// koordinator.sh/gpu aliases have been expanded to core+ratio) into (amount per device, number of devices):
// gpu.shared gives the count; otherwise a memory-ratio that is a multiple of 100 above 100 asks for ratio/100
// whole devices; every amount is divided evenly (integer division) over the devices; memory is asked either as
// a ratio or, when no ratio is given, in bytes.
func c07GPUPerDevice(shared, core, ratio, mem int64, hasCore, hasRatio, hasMem bool) (map[corev1.ResourceName]int64, int) {
	count := int64(1)
	if shared > 0 {
		count = shared
	} else if hasRatio && ratio > 100 && ratio%100 == 0 {
		count = ratio / 100
	}
	per := map[corev1.ResourceName]int64{}
	if hasCore {
		per[apiext.ResourceGPUCore] = core / count
	}
	if hasRatio {
		per[apiext.ResourceGPUMemoryRatio] = ratio / count
	} else if hasMem {
		per[apiext.ResourceGPUMemory] = mem / count
	}
	return per, int(count)
}

// c07Usable is a healthy device with a non-zero total, as the model sees it right now.
type c07Usable struct {
	free, total map[corev1.ResourceName]int64
}

// c07Hints aims the request generator at the boundary of what the node can serve right now (free, free+-1 of some
// device; as many devices as are usable, one more). It only steers generation; the oracle never looks at it.
type c07Hints struct {
	usable map[schedulingv1alpha1.DeviceType][]c07Usable
	n      map[schedulingv1alpha1.DeviceType]int // all reported devices of the type
	target map[schedulingv1alpha1.DeviceType]*c07Usable
}

func (w *c07World) hints() c07Hints {
	h := c07Hints{usable: map[schedulingv1alpha1.DeviceType][]c07Usable{}, n: map[schedulingv1alpha1.DeviceType]int{}, target: map[schedulingv1alpha1.DeviceType]*c07Usable{}}
	free := c07Free(w.modelTotal(), w.modelUsed())
	for _, d := range w.inv {
		h.n[d.Type]++
		if !d.Health || w.invalidated {
			continue
		}
		u := c07Usable{free: map[corev1.ResourceName]int64{}, total: map[corev1.ResourceName]int64{}}
		nonzero := false
		for rn, v := range d.Res {
			u.total[rn] = v
			u.free[rn] = free[c07Key(d.Type, d.Minor, rn)]
			if v > 0 {
				nonzero = true
			}
		}
		if nonzero {
			h.usable[d.Type] = append(h.usable[d.Type], u)
		}
	}
	return h
}

func (h c07Hints) aim(t *rapid.T, dt schedulingv1alpha1.DeviceType) {
	if us := h.usable[dt]; len(us) > 0 {
		h.target[dt] = &us[rapid.IntRange(0, len(us)-1).Draw(t, "aimAt")]
	}
}

// c07Whole draws a number of whole devices: up to the number of usable ones, sometimes one more.
func c07Whole(t *rapid.T, h c07Hints, dt schedulingv1alpha1.DeviceType, label string) int64 {
	u := int64(len(h.usable[dt]))
	k := rapid.Int64Range(1, u+1).Draw(t, label)
	if k == u+1 && u > 0 && rapid.Bool().Draw(t, label+"Clamp") {
		k = rapid.Int64Range(1, u).Draw(t, label+"Within")
	}
	return k
}

func c07Pct(t *rapid.T, h c07Hints, dt schedulingv1alpha1.DeviceType, rn corev1.ResourceName, label string) int64 {
	f := int64(100)
	if tg := h.target[dt]; tg != nil {
		f = tg.free[rn]
	}
	v := int64(0)
	switch rapid.IntRange(0, 7).Draw(t, label+"Kind") {
	case 0:
		v = f
	case 1:
		v = f - 1
	case 2:
		v = f + 1
	case 3, 4, 5:
		hi := f
		if hi > 100 {
			hi = 100
		}
		if hi < 1 {
			hi = 1
		}
		v = rapid.Int64Range(1, hi).Draw(t, label)
	case 6:
		v = rapid.Int64Range(1, 100).Draw(t, label)
	default:
		v = rapid.SampledFrom([]int64{100, 50, 25, 1, 99}).Draw(t, label)
	}
	if v < 1 {
		v = 1
	}
	if v > 100 {
		v = 100
	}
	return v
}

func c07Bytes(t *rapid.T, h c07Hints, min int64, label string) int64 {
	f, total := int64(1<<30), int64(1<<30)
	if tg := h.target[schedulingv1alpha1.GPU]; tg != nil {
		f, total = tg.free[apiext.ResourceGPUMemory], tg.total[apiext.ResourceGPUMemory]
	}
	v := int64(0)
	switch rapid.IntRange(0, 8).Draw(t, label+"Kind") {
	case 0:
		v = f
	case 1:
		v = f - 1
	case 2:
		v = f + 1
	case 3:
		v = total
	case 4: // exactly k percent of the device
		v = total / 100 * rapid.Int64Range(1, 100).Draw(t, label+"Pct")
	case 5, 6, 7:
		hi := f
		if hi < 1 {
			hi = 1
		}
		v = rapid.Int64Range(1, hi).Draw(t, label)
	default:
		v = rapid.Int64Range(1, 1<<36+1).Draw(t, label)
	}
	if v < min {
		v = min
	}
	return v
}

// c07GenRequest constructs a webhook/PreFilter-valid device request (ValidateDeviceRequest: percentages are <=100 or a
// multiple of 100; with gpu.shared the core and ratio are multiples of the share count and at most 100 per share).
func c07GenRequest(t *rapid.T, h c07Hints, memMode int) c07Request {
	req := c07Request{Pod: corev1.ResourceList{}, Per: map[schedulingv1alpha1.DeviceType]map[corev1.ResourceName]int64{}, Count: map[schedulingv1alpha1.DeviceType]int{}}
	which := rapid.SampledFrom([]string{"gpu", "gpu", "gpu", "gpu", "rdma", "fpga", "gpu+rdma", "gpu+rdma+fpga", "rdma+fpga"}).Draw(t, "types")
	if rapid.IntRange(0, 4).Draw(t, "onlyPresentTypes") > 0 { // mostly ask for device types the node reports at all
		var keep []string
		for _, s := range strings.Split(which, "+") {
			if h.n[schedulingv1alpha1.DeviceType(s)] > 0 {
				keep = append(keep, s)
			}
		}
		if len(keep) == 0 {
			for _, dt := range c07Types {
				if h.n[dt] > 0 {
					keep = append(keep, string(dt))
				}
			}
			if len(keep) > 1 {
				keep = []string{rapid.SampledFrom(keep).Draw(t, "presentType")}
			}
		}
		if len(keep) > 0 {
			which = strings.Join(keep, "+")
		}
	}
	var descs []string
	if strings.Contains(which, "gpu") {
		h.aim(t, schedulingv1alpha1.GPU)
		kinds := []int{0, 1, 2, 2, 3, 4}
		switch memMode {
		case 1:
			kinds = []int{5, 6, 6, 7}
		case 2:
			kinds = []int{0, 1, 2, 3, 4, 5, 6, 7}
		}
		kind := rapid.SampledFrom(kinds).Draw(t, "gpuKind")
		whole := func(label string) int64 { return c07Whole(t, h, schedulingv1alpha1.GPU, label) }
		pct := func(rn corev1.ResourceName, label string) int64 {
			return c07Pct(t, h, schedulingv1alpha1.GPU, rn, label)
		}
		q := func(v int64) resource.Quantity { return *resource.NewQuantity(v, resource.DecimalSI) }
		var shared, core, ratio, mem int64
		var hasCore, hasRatio, hasMem bool
		switch kind {
		case 0: // nvidia.com/gpu: k  == k whole devices
			k := whole("nvidia")
			req.Pod[apiext.ResourceNvidiaGPU] = q(k)
			core, ratio, hasCore, hasRatio = 100*k, 100*k, true, true
			descs = append(descs, fmt.Sprintf("nvidia.com/gpu=%d", k))
		case 1: // koordinator.sh/gpu: v  == core v + memory-ratio v
			v := pct(apiext.ResourceGPUMemoryRatio, "koordGPU")
			if rapid.IntRange(0, 3).Draw(t, "koordGPUWhole") == 0 {
				v = 100 * whole("koordGPUk")
			}
			req.Pod[apiext.ResourceGPU] = q(v)
			core, ratio, hasCore, hasRatio = v, v, true, true
			descs = append(descs, fmt.Sprintf("koordinator.sh/gpu=%d", v))
		case 2: // gpu-core + gpu-memory-ratio
			core, ratio, hasCore, hasRatio = pct(apiext.ResourceGPUCore, "core"), pct(apiext.ResourceGPUMemoryRatio, "ratio"), true, true
			switch rapid.IntRange(0, 5).Draw(t, "coreRatioShape") {
			case 0:
				k := whole("k")
				core, ratio = 100*k, 100*k
			case 1:
				ratio = 100 * whole("kRatio") // e.g. core 50 over 2 devices -> 25 each
			case 2:
				core = 100 * whole("kCore") // more core than one device has unless ratio says so too
			}
			req.Pod[apiext.ResourceGPUCore], req.Pod[apiext.ResourceGPUMemoryRatio] = q(core), q(ratio)
			descs = append(descs, fmt.Sprintf("gpu-core=%d gpu-memory-ratio=%d", core, ratio))
		case 3: // gpu-memory-ratio alone
			ratio, hasRatio = pct(apiext.ResourceGPUMemoryRatio, "ratio"), true
			if rapid.IntRange(0, 3).Draw(t, "ratioWhole") == 0 {
				ratio = 100 * whole("k")
			}
			req.Pod[apiext.ResourceGPUMemoryRatio] = q(ratio)
			descs = append(descs, fmt.Sprintf("gpu-memory-ratio=%d", ratio))
		case 4: // gpu.shared + ratio (+ core)
			shared = rapid.Int64Range(1, 3).Draw(t, "shared")
			ratio, hasRatio = shared*pct(apiext.ResourceGPUMemoryRatio, "ratioPerShare"), true
			req.Pod[apiext.ResourceGPUShared], req.Pod[apiext.ResourceGPUMemoryRatio] = q(shared), q(ratio)
			d := fmt.Sprintf("gpu.shared=%d gpu-memory-ratio=%d", shared, ratio)
			if rapid.Bool().Draw(t, "sharedCore") {
				core, hasCore = shared*pct(apiext.ResourceGPUCore, "corePerShare"), true
				req.Pod[apiext.ResourceGPUCore] = q(core)
				d += fmt.Sprintf(" gpu-core=%d", core)
			}
			descs = append(descs, d)
		case 5: // gpu-memory bytes alone
			mem, hasMem = c07Bytes(t, h, 1, "memBytes"), true
			req.Pod[apiext.ResourceGPUMemory] = c07Quantity(apiext.ResourceGPUMemory, mem)
			descs = append(descs, fmt.Sprintf("gpu-memory=%d", mem))
		case 6: // gpu-core + gpu-memory bytes
			core, hasCore = pct(apiext.ResourceGPUCore, "core"), true
			if rapid.IntRange(0, 7).Draw(t, "coreWhole") == 0 {
				core = 100 * whole("kCore")
			}
			mem, hasMem = c07Bytes(t, h, 1, "memBytes"), true
			req.Pod[apiext.ResourceGPUCore] = q(core)
			req.Pod[apiext.ResourceGPUMemory] = c07Quantity(apiext.ResourceGPUMemory, mem)
			descs = append(descs, fmt.Sprintf("gpu-core=%d gpu-memory=%d", core, mem))
		case 7: // gpu.shared + memory bytes (+ core)
			shared = rapid.Int64Range(1, 3).Draw(t, "shared")
			mem, hasMem = c07Bytes(t, h, shared, "memBytes"), true
			req.Pod[apiext.ResourceGPUShared] = q(shared)
			req.Pod[apiext.ResourceGPUMemory] = c07Quantity(apiext.ResourceGPUMemory, mem)
			d := fmt.Sprintf("gpu.shared=%d gpu-memory=%d", shared, mem)
			if rapid.Bool().Draw(t, "sharedCore") {
				core, hasCore = shared*pct(apiext.ResourceGPUCore, "corePerShare"), true
				req.Pod[apiext.ResourceGPUCore] = q(core)
				d += fmt.Sprintf(" gpu-core=%d", core)
			}
			descs = append(descs, d)
		}
		req.Per[schedulingv1alpha1.GPU], req.Count[schedulingv1alpha1.GPU] = c07GPUPerDevice(shared, core, ratio, mem, hasCore, hasRatio, hasMem)
	}
	for _, dt := range []schedulingv1alpha1.DeviceType{schedulingv1alpha1.RDMA, schedulingv1alpha1.FPGA} {
		if !strings.Contains(which, string(dt)) {
			continue
		}
		rn := c07TypeResource(dt)
		h.aim(t, dt)
		v := c07Pct(t, h, dt, rn, string(dt))
		if rapid.IntRange(0, 2).Draw(t, string(dt)+"Whole") == 0 {
			v = 100 * c07Whole(t, h, dt, string(dt)+"k")
		}
		req.Pod[rn] = *resource.NewQuantity(v, resource.DecimalSI)
		// a percentage above 100 that is a multiple of 100 asks for v/100 whole devices, 100 each
		count := int64(1)
		if v > 100 && v%100 == 0 {
			count = v / 100
		}
		req.Per[dt] = map[corev1.ResourceName]int64{rn: v / count}
		req.Count[dt] = int(count)
		descs = append(descs, fmt.Sprintf("%s=%d", dt, v))
	}
	req.Desc = strings.Join(descs, " ")
	return req
}

// c07DeleteEvent is what the informer hands to the delete handler: the last known object, or - when the deletion itself
// was missed (watch gap, re-list) - client-go's tombstone, which is delivered BY VALUE.
func c07DeleteEvent(pod *corev1.Pod, tombstone bool) interface{} {
	if tombstone {
		return cache.DeletedFinalStateUnknown{Key: pod.Namespace + "/" + pod.Name, Obj: pod}
	}
	return pod
}

// c07StripAllocation is the pod as delivered after its device-allocated annotation was removed (the pod stays assigned
// and running): by its own record it holds no device any more.
func c07StripAllocation(pod *corev1.Pod) *corev1.Pod {
	out := pod.DeepCopy()
	delete(out.Annotations, apiext.AnnotationDeviceAllocated)
	return out
}

func c07NewPod(name string, req corev1.ResourceList) *corev1.Pod {
	return &corev1.Pod{
		ObjectMeta: metav1.ObjectMeta{Namespace: "default", Name: name, UID: types.UID(name)},
		Spec:       corev1.PodSpec{Containers: []corev1.Container{{Name: "main", Resources: corev1.ResourceRequirements{Requests: req.DeepCopy(), Limits: req.DeepCopy()}}}},
	}
}

func c07Bind(pod *corev1.Pod, alloc apiext.DeviceAllocations) (*corev1.Pod, error) {
	b := pod.DeepCopy()
	b.Spec.NodeName = c07Node
	if err := apiext.SetDeviceAllocations(b, alloc); err != nil {
		return nil, err
	}
	return b, nil
}

func c07NewWorld(t *rapid.T) *c07World {
	w := &c07World{cache: newNodeDeviceCache(), live: map[string]*c07Live{}}
	w.node = &corev1.Node{ObjectMeta: metav1.ObjectMeta{Name: c07Node}}
	w.inv = c07GenInventory(t)
	w.memMode = rapid.SampledFrom([]int{0, 0, 0, 1, 1, 2, 2}).Draw(t, "memMode")
	switch rapid.IntRange(0, 2).Draw(t, "scorer") {
	case 1:
		args := getDefaultArgs()
		args.ScoringStrategy.Type = schedulerconfig.LeastAllocated
		w.scorer = deviceResourceStrategyTypeMap[args.ScoringStrategy.Type](args)
	case 2:
		args := getDefaultArgs()
		args.ScoringStrategy.Type = schedulerconfig.MostAllocated
		w.scorer = deviceResourceStrategyTypeMap[args.ScoringStrategy.Type](args)
	}
	w.cache.onDeviceAdd(c07BuildDevice(w.inv))
	return w
}

// ---------------------------------------------------------------- running the allocator as the plugin does

// tryAllocate mirrors Plugin.allocate (PreFilter state, AutopilotAllocator, fillGPUTotalMem) without reservations.
// realPath passes the empty non-nil "preemptible" map the plugin always passes (which routes through nodeDevice.filter);
// otherwise nil as the package's own unit tests do.
func (w *c07World) tryAllocate(pod *corev1.Pod, realPath bool) (apiext.DeviceAllocations, string) {
	state, status := preparePod(pod, nil, nil)
	if !status.IsSuccess() {
		return nil, "prepare: " + status.Message()
	}
	state.designatedAllocation, state.designatedVF = nil, nil // as PreFilter does without a scheduling hint
	if state.skip {
		return nil, "prepare: skip"
	}
	nd := w.cache.getNodeDevice(c07Node, false)
	if nd == nil {
		return nil, "no nodeDevice"
	}
	allocator := &AutopilotAllocator{state: state, nodeDevice: nd, node: w.node, pod: pod, scorer: w.scorer}
	var preemptible map[schedulingv1alpha1.DeviceType]deviceResources
	if realPath {
		preemptible = appendAllocated(nil, nil, nil)
	}
	nd.lock.RLock()
	defer nd.lock.RUnlock()
	result, status := allocator.Allocate(nil, nil, nil, preemptible)
	if !status.IsSuccess() {
		return nil, status.Message()
	}
	if err := fillGPUTotalMem(result, nd); err != nil {
		return nil, "fillGPUTotalMem: " + err.Error()
	}
	return result, ""
}

func c07AllocStr(a apiext.DeviceAllocations) string {
	if a == nil {
		return "refused"
	}
	var parts []string
	for _, dt := range c07Types {
		for _, x := range a[dt] {
			m := map[corev1.ResourceName]int64{}
			for rn, q := range x.Resources {
				m[rn] = q.Value()
			}
			parts = append(parts, fmt.Sprintf("%s#%d{%s}", dt, x.Minor, c07ResStr(m)))
		}
	}
	return strings.Join(parts, " ")
}

// checkAllocation is the allocation oracle: validity on success, completeness on refusal. free is the model's
// free map just before the call. Returns true when the case must be abandoned (known finding).
func (w *c07World) checkAllocation(c *vk.Case, t *rapid.T, req c07Request, free c07Flat, result apiext.DeviceAllocations, msg string, ctx func() string) bool {
	// How many devices of each asked type could serve one per-device request right now: every asked resource has the
	// asked amount free. Only on a GPU whose memory is held in MIXED views (some holder asked bytes, another a ratio, or the
	// memory size changed under the holders) the completeness direction additionally wants the other view of the memory
	// (which the plugin charges too when it commits) to fit, rounded against the request: there the two views of "free"
	// legitimately disagree and an allocator that compares both is as correct as one that compares only the asked one.
	feasible, feasibleWeak := true, true
	qualifying := map[schedulingv1alpha1.DeviceType][]int{}
	for _, dt := range c07Types {
		per, ok := req.Per[dt]
		if !ok {
			continue
		}
		weak := 0
		for _, d := range w.devsOf(dt) {
			fits := true
			for rn, v := range per {
				if free[c07Key(dt, d.Minor, rn)] < v {
					fits = false
				}
			}
			if !fits {
				continue
			}
			weak++
			if dt == schedulingv1alpha1.GPU {
				total := d.Res[apiext.ResourceGPUMemory]
				ratio, hasRatio := per[apiext.ResourceGPUMemoryRatio]
				mem, hasMem := per[apiext.ResourceGPUMemory]
				if hasRatio && !hasMem && !w.singleMemoryView(d.Minor, "ratio") && free[c07Key(dt, d.Minor, apiext.ResourceGPUMemory)] < (ratio*total+99)/100 {
					continue
				}
				if hasMem && !hasRatio && total > 0 && !w.singleMemoryView(d.Minor, "bytes") && free[c07Key(dt, d.Minor, apiext.ResourceGPUMemoryRatio)] < (100*mem+total-1)/total {
					continue
				}
			}
			qualifying[dt] = append(qualifying[dt], d.Minor)
		}
		if len(qualifying[dt]) < req.Count[dt] {
			feasible = false
		}
		if weak < req.Count[dt] {
			feasibleWeak = false
		}
	}
	c.ClassIf(feasibleWeak && !feasible, "only-the-unrequested-memory-view-is-short(completeness not asserted)")
	if result == nil {
		if strings.HasPrefix(msg, "prepare:") {
			c.Class("request-rejected-before-allocation")
			return false
		}
		if feasible {
			return c.Violation(t, "alloc:refused-though-enough-free",
				"request [%s] (per device %v x %v) refused with %q although devices %v each have that much free; %s", req.Desc, c07PerStr(req), req.Count, msg, qualifying, ctx())
		}
		return false
	}
	for _, dt := range c07Types {
		per, ok := req.Per[dt]
		if !ok {
			continue
		}
		got := result[dt]
		maxCount := req.Count[dt]
		if m := req.MaxCount[dt]; m > maxCount {
			maxCount = m
		}
		if len(got) < req.Count[dt] || len(got) > maxCount {
			return c.Violation(t, "alloc:wrong-device-count", "request [%s] asks %d %s device(s), allocation has %d: %s; %s", req.Desc, req.Count[dt], dt, len(got), c07AllocStr(result), ctx())
		}
		seen := map[int32]bool{}
		for _, a := range got {
			if seen[a.Minor] {
				return c.Violation(t, "alloc:duplicate-device", "request [%s]: %s minor %d handed out twice: %s; %s", req.Desc, dt, a.Minor, c07AllocStr(result), ctx())
			}
			seen[a.Minor] = true
			for _, rn := range c07SortedNames(per) {
				v := per[rn]
				if f := free[c07Key(dt, int(a.Minor), rn)]; f < v {
					return c.Violation(t, "alloc:device-lacks-free", "request [%s] needs %s=%d per device, chosen %s minor %d had only %d free: %s; %s", req.Desc, rn, v, dt, a.Minor, f, c07AllocStr(result), ctx())
				}
				if q := a.Resources[rn]; q.Value() < v {
					return c.Violation(t, "alloc:amount-below-request", "request [%s] needs %s=%d per device, allocation on %s minor %d records %d: %s; %s", req.Desc, rn, v, dt, a.Minor, q.Value(), c07AllocStr(result), ctx())
				}
			}
		}
	}
	return false
}

func c07SortedNames(m map[corev1.ResourceName]int64) []corev1.ResourceName {
	out := make([]corev1.ResourceName, 0, len(m))
	for k := range m {
		out = append(out, k)
	}
	sort.Slice(out, func(i, j int) bool { return out[i] < out[j] })
	return out
}

func c07PerStr(req c07Request) string {
	var parts []string
	for _, dt := range c07Types {
		if per, ok := req.Per[dt]; ok {
			parts = append(parts, fmt.Sprintf("%s{%s}x%d", dt, c07ResStr(per), req.Count[dt]))
		}
	}
	return strings.Join(parts, " ")
}

func c07Requested(req c07Request) map[string]bool {
	out := map[string]bool{}
	for dt, per := range req.Per {
		for rn := range per {
			out[string(dt)+"/"+string(rn)] = true
		}
	}
	return out
}

// ---------------------------------------------------------------- ledger oracle

// checkLedger compares getNodeDeviceSummary() with the model. capacityHolds says whether "used <= total" must hold
// everywhere (no capacity was taken away from under running pods in this history).
func (w *c07World) checkLedger(c *vk.Case, t *rapid.T, capacityHolds bool, ctx func() string) bool {
	sum, ok := w.cache.getNodeDeviceSummary(c07Node)
	if !ok || sum == nil {
		return c.Violation(t, "ledger:no-summary", "no device summary for the node; %s", ctx())
	}
	total, free, used := c07FlattenDetail(sum.DeviceTotalDetail), c07FlattenDetail(sum.DeviceFreeDetail), c07FlattenDetail(sum.DeviceUsedDetail)
	mTotal, mUsed := w.modelTotal(), w.modelUsed()
	for _, k := range c07Keys(total, mTotal) {
		if total[k] != mTotal[k] {
			return c.Violation(t, "ledger:total-ne-inventory", "%s: ledger total %d, last reported inventory says %d; %s", k, total[k], mTotal[k], ctx())
		}
	}
	for _, k := range c07Keys(used, mUsed) {
		if used[k] != mUsed[k] {
			return c.Violation(t, "ledger:used-ne-sum-of-live", "%s: ledger used %d, live pods' allocations sum to %d; %s", k, used[k], mUsed[k], ctx())
		}
	}
	for _, k := range c07Keys(total, used, free) {
		want := total[k] - used[k]
		if want < 0 {
			want = 0 // capacity was removed from under running pods: free cannot go negative
			c.ClassIf(!capacityHolds, "used>total-after-capacity-loss(legitimate)")
		}
		if free[k] != want {
			return c.Violation(t, "ledger:free-ne-total-minus-used", "%s: free %d, total %d, used %d; %s", k, free[k], total[k], used[k], ctx())
		}
	}
	// per-pod allocation set
	have, want := c07Flat{}, c07Flat{}
	havePods, wantPods := map[string]bool{}, map[string]bool{}
	for dt, pods := range sum.AllocateSet {
		for pod, devs := range pods {
			havePods[string(dt)+"|"+pod] = true
			for minor, rl := range devs {
				for rn, q := range rl {
					have.add(pod+"|"+c07Key(dt, minor, rn), q.Value())
				}
			}
		}
	}
	for _, p := range w.live {
		for dt := range p.Alloc {
			wantPods[string(dt)+"|default/"+p.Name] = true
		}
		for k, v := range p.Flat {
			want.add("default/"+p.Name+"|"+k, v)
		}
	}
	for _, k := range vk.SortedKeys(havePods) {
		if !wantPods[k] {
			return c.Violation(t, "ledger:allocate-set-mismatch", "allocate set holds %s which is not a live pod; %s", k, ctx())
		}
	}
	for _, k := range vk.SortedKeys(wantPods) {
		if !havePods[k] {
			return c.Violation(t, "ledger:allocate-set-mismatch", "live pod %s missing from the allocate set; %s", k, ctx())
		}
	}
	for _, k := range c07Keys(have, want) {
		if have[k] != want[k] {
			return c.Violation(t, "ledger:allocate-set-mismatch", "%s: allocate set records %d, the pod was handed %d; %s", k, have[k], want[k], ctx())
		}
	}
	if capacityHolds {
		for _, k := range c07Keys(used) {
			if used[k] > total[k] {
				// was the over-committed resource one the allocator never compared (derived by fillGPUTotalMem) for some holder?
				parts := strings.SplitN(k, "/", 3)
				typeRes := parts[0] + "/" + parts[2]
				derived := false
				for _, p := range w.live {
					if p.Flat[k] > 0 && !p.Requested[typeRes] {
						derived = true
					}
				}
				sig := "ledger:used-exceeds-total"
				if derived {
					sig = "ledger:used-exceeds-total:derived-gpu-memory"
				}
				return c.Violation(t, sig, "%s: used %d > total %d although no capacity was ever removed; holders: %s; %s", k, used[k], total[k], w.holders(k), ctx())
			}
		}
	}
	return false
}

func (w *c07World) holders(k string) string {
	var parts []string
	for _, n := range w.liveNames() {
		if v := w.live[n].Flat[k]; v > 0 {
			parts = append(parts, fmt.Sprintf("%s=%d", n, v))
		}
	}
	return strings.Join(parts, ",")
}

// afterAllocation: whatever happened before (even capacity loss), an allocation never pushes a resource it was asked
// for beyond the device's total.
func (w *c07World) checkNotOvercommittedBy(c *vk.Case, t *rapid.T, p *c07Live, ctx func() string) bool {
	total, used := w.modelTotal(), w.modelUsed()
	for _, k := range c07Keys(p.Flat) {
		parts := strings.SplitN(k, "/", 3)
		if !p.Requested[parts[0]+"/"+parts[2]] {
			continue
		}
		if used[k] > total[k] {
			return c.Violation(t, "alloc:overcommits-requested-resource", "%s: after allocating %s to %s used %d > total %d; %s", k, c07AllocStr(p.Alloc), p.Name, used[k], total[k], ctx())
		}
	}
	return false
}

// ---------------------------------------------------------------- (1) histories

func TestVerifC07History(t *testing.T) {
	c07Silence()
	rec := vk.New(t, "C07", "history")
	rapid.Check(t, func(t *rapid.T) {
		c := rec.Begin()
		defer c.End()
		w := c07NewWorld(t)
		allowLoss := rapid.Bool().Draw(t, "allowCapacityLoss")
		var hist, fp []string // fp: the history without koordinator's status messages (their wording may depend on Go map order)
		note := func(e string) { hist, fp = append(hist, e), append(fp, e) }
		note("inventory: " + w.invString())
		ctx := func() string { return "history=[" + strings.Join(hist, " ; ") + "]" }
		dead := false
		capacityHolds := true
		var released []*c07Live
		var completed []*c07Live // pods that reached a terminal phase and whose object still exists (not yet deleted)
		var sawCompletedUpdate, sawTerminatedAdd, sawTombstone, sawAnnotationDropped bool
		var sawShare, sawMulti, sawUnhealthy, sawLossUnderPods, sawRefused, sawSuccess, sawDup, sawTwice, sawChanged, sawDeleted bool
		var ntDupThenRelease, ntRefreshBetween bool
		for _, d := range w.inv {
			if !d.Health {
				sawUnhealthy = true
			}
		}

		noteSharing := func() {
			holders := map[string]int{}
			for _, p := range w.live {
				seen := map[string]bool{}
				for k := range p.Flat {
					parts := strings.SplitN(k, "/", 3)
					seen[parts[0]+"/"+parts[1]] = true
				}
				for d := range seen {
					holders[d]++
				}
			}
			for _, n := range holders {
				if n >= 2 {
					sawShare = true
				}
			}
		}

		// allocate for pod (a new one, or an existing one whose allocation is being replaced); returns the result or nil
		allocate := func(t *rapid.T, name string) (*c07Live, bool) {
			req := c07GenRequest(t, w.hints(), w.memMode)
			realPath := rapid.IntRange(0, 2).Draw(t, "realPath") > 0
			pod := c07NewPod(name, req.Pod)
			free := c07Free(w.modelTotal(), w.modelUsed())
			result, msg := w.tryAllocate(pod, realPath)
			entry := fmt.Sprintf("allocate %s [%s] filterPath=%v -> %s", name, req.Desc, realPath, c07AllocStr(result))
			hist = append(hist, entry+c07Msg(msg))
			fp = append(fp, entry)
			if w.checkAllocation(c, t, req, free, result, msg, ctx) {
				return nil, true
			}
			if result == nil {
				sawRefused = true
				return nil, false
			}
			sawSuccess = true
			for _, list := range result {
				if len(list) > 1 {
					sawMulti = true
				}
			}
			bound, err := c07Bind(pod, result)
			if err != nil {
				t.Fatalf("cannot annotate pod: %v", err)
			}
			return &c07Live{Name: name, Sched: pod, Bound: bound, Alloc: result, Flat: c07AllocFlat(result), Requested: c07Requested(req)}, false
		}

		t.Repeat(map[string]func(*rapid.T){
			"allocate": func(t *rapid.T) {
				if dead {
					return
				}
				name := fmt.Sprintf("p%d", w.nextPod)
				w.nextPod++
				p, abandon := allocate(t, name)
				if abandon {
					dead = true
					return
				}
				if p == nil {
					return
				}
				// commit: in memory as Reserve does, or (scheduler restart / other instance) through the pod informer
				nd := w.cache.getNodeDevice(c07Node, false)
				switch rapid.IntRange(0, 2).Draw(t, "commitVia") {
				case 0:
					w.cache.onPodAdd(p.Bound)
					note("commit " + name + " via podAdd")
				default:
					nd.lock.Lock()
					nd.updateCacheUsed(p.Alloc, p.Sched, true)
					nd.lock.Unlock()
					note("commit " + name + " via Reserve")
				}
				w.live[name] = p
				noteSharing()
				if w.checkNotOvercommittedBy(c, t, p, ctx) {
					dead = true
				}
			},
			"duplicateEvent": func(t *rapid.T) {
				if dead {
					return
				}
				if len(w.live) == 0 {
					t.Skip("no live pod")
				}
				p := w.live[rapid.SampledFrom(w.liveNames()).Draw(t, "pod")]
				switch rapid.IntRange(0, 3).Draw(t, "dupKind") {
				case 0:
					w.cache.onPodAdd(p.Bound)
					note("podAdd again " + p.Name)
				case 1: // the bind event following Reserve: old has neither node nor annotation
					w.cache.onPodUpdate(p.Sched, p.Bound)
					note("podUpdate unbound->bound " + p.Name)
				case 2: // resync / status update: same allocation on both sides
					w.cache.onPodUpdate(p.Bound, p.Bound.DeepCopy())
					note("podUpdate unchanged " + p.Name)
				default: // Reserve-style commit repeated
					nd := w.cache.getNodeDevice(c07Node, false)
					nd.lock.Lock()
					nd.updateCacheUsed(p.Alloc, p.Sched, true)
					nd.lock.Unlock()
					note("Reserve-commit again " + p.Name)
				}
				p.Dup = true
				sawDup = true
			},
			"changeAllocation": func(t *rapid.T) {
				if dead {
					return
				}
				if len(w.live) == 0 {
					t.Skip("no live pod")
				}
				old := w.live[rapid.SampledFrom(w.liveNames()).Draw(t, "pod")]
				var np *c07Live
				if rapid.IntRange(0, 3).Draw(t, "shrinkOnly") == 0 {
					// drop one device of one type from the current allocation
					alloc := apiext.DeviceAllocations{}
					dropped := false
					for _, dt := range c07Types {
						list := old.Alloc[dt]
						if len(list) == 0 {
							continue
						}
						if !dropped && len(list) > 1 {
							list = list[1:]
							dropped = true
						}
						alloc[dt] = list
					}
					if !dropped {
						t.Skip("nothing to drop")
					}
					bound, err := c07Bind(old.Sched, alloc)
					if err != nil {
						t.Fatalf("cannot annotate pod: %v", err)
					}
					np = &c07Live{Name: old.Name, Sched: old.Sched, Bound: bound, Alloc: alloc, Flat: c07AllocFlat(alloc), Requested: old.Requested}
					note(fmt.Sprintf("podUpdate %s allocation reduced to %s", old.Name, c07AllocStr(alloc)))
				} else {
					var abandon bool
					np, abandon = allocate(t, old.Name)
					if abandon {
						dead = true
						return
					}
					if np == nil {
						return
					}
					note(fmt.Sprintf("podUpdate %s allocation replaced", old.Name))
				}
				w.cache.onPodUpdate(old.Bound, np.Bound)
				np.Dup, np.Refreshed = old.Dup, old.Refreshed
				w.live[old.Name] = np
				sawChanged = true
				noteSharing()
			},
			"release": func(t *rapid.T) {
				if dead {
					return
				}
				if len(w.live) == 0 {
					t.Skip("no live pod")
				}
				p := w.live[rapid.SampledFrom(w.liveNames()).Draw(t, "pod")]
				switch rapid.IntRange(0, 4).Draw(t, "releaseVia") {
				case 0:
					tomb := len(hist)%2 == 1 // no draw: keeps the draw sequence of this test stable
					w.cache.onPodDelete(c07DeleteEvent(p.Bound, tomb))
					sawTombstone = sawTombstone || tomb
					note(fmt.Sprintf("podDelete %s tombstone=%v", p.Name, tomb))
				case 1, 4:
					done := p.Bound.DeepCopy()
					done.Status.Phase = rapid.SampledFrom([]corev1.PodPhase{corev1.PodSucceeded, corev1.PodFailed}).Draw(t, "phase")
					w.cache.onPodUpdate(p.Bound, done)
					p.Done = done
					completed = append(completed, p)
					note(fmt.Sprintf("podUpdate running->%s %s", done.Status.Phase, p.Name))
				case 2: // another scheduler un-assigned the pod
					if len(hist)%2 == 0 { // no draw (keeps this test's draw sequence): every other time the pod instead loses its annotation
						stripped := c07StripAllocation(p.Bound)
						w.cache.onPodUpdate(p.Bound, stripped)
						p.Bound = stripped // later events for the pod carry no allocation
						sawAnnotationDropped = true
						note("podUpdate allocation annotation removed " + p.Name)
					} else {
						un := p.Bound.DeepCopy()
						un.Spec.NodeName = ""
						w.cache.onPodUpdate(p.Bound, un)
						note("podUpdate unassigned " + p.Name)
					}
				default: // Unreserve
					nd := w.cache.getNodeDevice(c07Node, false)
					nd.lock.Lock()
					nd.updateCacheUsed(p.Alloc, p.Sched, false)
					nd.lock.Unlock()
					note("Unreserve " + p.Name)
				}
				delete(w.live, p.Name)
				released = append(released, p)
				if p.Dup {
					ntDupThenRelease = true
				}
				if p.Refreshed {
					ntRefreshBetween = true
				}
			},
			// events for a pod that already completed: the object stays in the API server until it is deleted and keeps being
			// updated (status, labels, resync) and re-listed; it holds nothing from its first terminal event on
			"completedPodEvent": func(t *rapid.T) {
				if dead {
					return
				}
				kind := rapid.IntRange(0, 4).Draw(t, "completedKind")
				if kind == 4 || len(completed) == 0 {
					// a pod that is already terminated when first seen (re-list after a scheduler restart); its annotation carries
					// an allocation that is valid for the node right now, but nothing may be charged for it
					name := fmt.Sprintf("p%d", w.nextPod)
					w.nextPod++
					p, abandon := allocate(t, name)
					if abandon {
						dead = true
						return
					}
					if p == nil {
						return
					}
					done := p.Bound.DeepCopy()
					done.Status.Phase = rapid.SampledFrom([]corev1.PodPhase{corev1.PodSucceeded, corev1.PodFailed}).Draw(t, "phase")
					p.Done = done
					w.cache.onPodAdd(done)
					completed = append(completed, p)
					released = append(released, p)
					sawTerminatedAdd = true
					note(fmt.Sprintf("podAdd of already %s %s (nothing committed)", done.Status.Phase, name))
					if !rapid.Bool().Draw(t, "thenUpdate") {
						return
					}
					kind = rapid.IntRange(0, 2).Draw(t, "followUpKind")
				}
				p := completed[rapid.IntRange(0, len(completed)-1).Draw(t, "completedPod")]
				next := p.Done.DeepCopy()
				switch kind {
				case 0: // resync: nothing changed
					note("podUpdate completed->completed unchanged " + p.Name)
				case 1: // metadata / status detail changed
					if next.Labels == nil {
						next.Labels = map[string]string{}
					}
					next.Labels["c07/touched"] = fmt.Sprint(len(hist))
					next.ResourceVersion = fmt.Sprint(len(hist))
					next.Status.Message = "touched"
					note("podUpdate completed->completed labels+status changed " + p.Name)
				case 2: // container statuses / conditions filled in later by the kubelet
					next.Status.Conditions = append(next.Status.Conditions, corev1.PodCondition{Type: corev1.PodReady, Status: corev1.ConditionFalse, Reason: "PodCompleted"})
					note("podUpdate completed->completed condition added " + p.Name)
				default: // re-list delivers the completed pod as an add
					w.cache.onPodAdd(next)
					p.Done = next
					sawTerminatedAdd = true
					note("podAdd again of completed " + p.Name)
					return
				}
				w.cache.onPodUpdate(p.Done, next)
				p.Done = next
				sawCompletedUpdate = true
			},
			"releaseAgain": func(t *rapid.T) {
				if dead {
					return
				}
				var cands []*c07Live
				for _, p := range released {
					if _, again := w.live[p.Name]; !again {
						cands = append(cands, p)
					}
				}
				if len(cands) == 0 {
					t.Skip("nothing released yet")
				}
				p := cands[rapid.IntRange(0, len(cands)-1).Draw(t, "pod")]
				if rapid.Bool().Draw(t, "viaInformer") {
					last := p.Bound
					if p.Done != nil {
						last = p.Done
					}
					tomb := len(hist)%2 == 1
					w.cache.onPodDelete(c07DeleteEvent(last, tomb))
					sawTombstone = sawTombstone || tomb
					for i, q := range completed { // the object is gone: no further events for it
						if q == p {
							completed = append(append([]*c07Live{}, completed[:i]...), completed[i+1:]...)
							break
						}
					}
					note("podDelete again " + p.Name)
				} else {
					nd := w.cache.getNodeDevice(c07Node, false)
					nd.lock.Lock()
					nd.updateCacheUsed(p.Alloc, p.Sched, false)
					nd.lock.Unlock()
					note("Unreserve again " + p.Name)
				}
				sawTwice = true
			},
			"refresh": func(t *rapid.T) {
				if dead {
					return
				}
				kinds := []string{"same", "add", "recover", "grow"}
				if allowLoss {
					kinds = append(kinds, "remove", "unhealthy", "reduce", "gpuMemChange", "deleteCR", "remove", "unhealthy")
				}
				kind := rapid.SampledFrom(kinds).Draw(t, "refreshKind")
				loss := false
				pick := func(filter func(c07Dev) bool) int {
					var idx []int
					for i, d := range w.inv {
						if filter(d) {
							idx = append(idx, i)
						}
					}
					if len(idx) == 0 {
						return -1
					}
					return idx[rapid.IntRange(0, len(idx)-1).Draw(t, "dev")]
				}
				switch kind {
				case "add":
					dt := rapid.SampledFrom(c07Types).Draw(t, "addType")
					usedMinor := map[int]bool{}
					n := 0
					for _, d := range w.inv {
						if d.Type == dt {
							usedMinor[d.Minor] = true
							n++
						}
					}
					if n >= 8 {
						t.Skip("enough devices")
					}
					minor := 0
					for usedMinor[minor] {
						minor++
					}
					d := c07Dev{Type: dt, Minor: minor, Health: true, NUMA: -1, Res: c07GenDevRes(t, dt, c07GenGPUMem(t, "gpuMem"))}
					// keep the topology report consistent with the other devices of the type
					for _, o := range w.devsOf(dt) {
						if o.NUMA >= 0 {
							d.NUMA, d.PCIe = o.NUMA, o.PCIe
						}
					}
					if dt == schedulingv1alpha1.GPU {
						w.markResized(minor) // pods of a device that was removed earlier may still be charged against its old size
					}
					w.inv = append(w.inv, d)
					sort.SliceStable(w.inv, func(i, j int) bool {
						if w.inv[i].Type != w.inv[j].Type {
							return c07TypeOrder(w.inv[i].Type) < c07TypeOrder(w.inv[j].Type)
						}
						return w.inv[i].Minor < w.inv[j].Minor
					})
				case "recover":
					i := pick(func(d c07Dev) bool { return !d.Health })
					if i < 0 {
						t.Skip("no unhealthy device")
					}
					w.inv[i].Health = true
				case "grow":
					i := pick(func(d c07Dev) bool { return d.Type != schedulingv1alpha1.GPU })
					if i < 0 {
						t.Skip("no rdma/fpga device")
					}
					rn := c07TypeResource(w.inv[i].Type)
					res := map[corev1.ResourceName]int64{rn: w.inv[i].Res[rn] + rapid.Int64Range(1, 100).Draw(t, "by")}
					w.inv[i].Res = res
				case "remove":
					i := pick(func(c07Dev) bool { return true })
					if i < 0 {
						t.Skip("no device")
					}
					w.inv = append(append([]c07Dev{}, w.inv[:i]...), w.inv[i+1:]...)
					loss = true
				case "unhealthy":
					i := pick(func(d c07Dev) bool { return d.Health })
					if i < 0 {
						t.Skip("no healthy device")
					}
					w.inv[i].Health = false
					sawUnhealthy = true
					loss = true
				case "reduce":
					i := pick(func(d c07Dev) bool { return d.Type != schedulingv1alpha1.GPU && d.Res[c07TypeResource(d.Type)] > 0 })
					if i < 0 {
						t.Skip("no rdma/fpga device")
					}
					rn := c07TypeResource(w.inv[i].Type)
					w.inv[i].Res = map[corev1.ResourceName]int64{rn: rapid.Int64Range(0, w.inv[i].Res[rn]-1).Draw(t, "to")}
					loss = true
				case "gpuMemChange": // the ratio resources are relative to this, so a change in either direction re-scales running pods
					i := pick(func(d c07Dev) bool { return d.Type == schedulingv1alpha1.GPU && d.Res[apiext.ResourceGPUMemory] > 0 })
					if i < 0 {
						t.Skip("no gpu")
					}
					w.inv[i].Res = map[corev1.ResourceName]int64{apiext.ResourceGPUCore: 100, apiext.ResourceGPUMemoryRatio: 100, apiext.ResourceGPUMemory: c07GenGPUMem(t, "gpuMem")}
					w.markResized(w.inv[i].Minor)
					loss = true
				case "deleteCR":
					loss = true
				}
				if kind == "deleteCR" {
					w.cache.onDeviceDelete(c07BuildDevice(w.inv))
					w.invalidated = true
					sawDeleted = true
				} else {
					dev := c07BuildDevice(w.inv)
					if rapid.Bool().Draw(t, "asUpdate") {
						w.cache.onDeviceUpdate(dev, dev)
					} else {
						w.cache.onDeviceAdd(dev)
					}
					w.invalidated = false
				}
				note(fmt.Sprintf("refresh(%s): %s", kind, w.invString()))
				if loss {
					capacityHolds = false
					if len(w.live) > 0 {
						sawLossUnderPods = true
					}
				}
				for _, p := range w.live {
					p.Refreshed = true
				}
			},
			"": func(t *rapid.T) {
				if !dead && w.checkLedger(c, t, capacityHolds, ctx) {
					dead = true
				}
			},
		})
		c.ClassIf(sawShare, "device-shared-by-2-pods")
		c.ClassIf(sawMulti, "multi-device-allocation")
		c.ClassIf(sawUnhealthy, "unhealthy-device")
		c.ClassIf(sawLossUnderPods, "capacity-loss-under-live-pods")
		c.ClassIf(capacityHolds, "no-capacity-loss(used<=total asserted throughout)")
		c.ClassIf(sawRefused, "some-request-refused")
		c.ClassIf(sawSuccess, "some-request-served")
		c.ClassIf(sawDup, "duplicate-event")
		c.ClassIf(sawTwice, "release-twice")
		c.ClassIf(sawChanged, "allocation-changed-by-update")
		c.ClassIf(sawDeleted, "device-cr-deleted")
		c.ClassIf(sawTombstone, "delete-delivered-as-tombstone")
		c.ClassIf(sawAnnotationDropped, "update-removes-allocation-annotation-of-live-pod")
		c.ClassIf(sawCompletedUpdate, "update-of-already-completed-pod")
		c.ClassIf(sawTerminatedAdd, "add-of-already-terminated-pod")
		c.ClassIf(ntDupThenRelease, "nt:duplicate-then-release")
		c.ClassIf(ntRefreshBetween, "nt:refresh-between-allocate-and-release")
		c.Class(fmt.Sprintf("memMode:%d", w.memMode))
		if ntDupThenRelease || ntRefreshBetween {
			c.NonTrivial(fp)
		}
		c.Sample(map[string]any{"history": hist})
	})
}

func c07TypeOrder(dt schedulingv1alpha1.DeviceType) int {
	for i, x := range c07Types {
		if x == dt {
			return i
		}
	}
	return len(c07Types)
}

func c07Msg(msg string) string {
	if msg == "" {
		return ""
	}
	return " (" + msg + ")"
}

// ---------------------------------------------------------------- (2) single allocations on generated (inventory, usage, request)

func TestVerifC07Allocate(t *testing.T) {
	c07Silence()
	rec := vk.New(t, "C07", "allocate")
	rapid.Check(t, func(t *rapid.T) {
		c := rec.Begin()
		defer c.End()
		w := c07NewWorld(t)
		// usage: pods restored by the informer (as after a scheduler restart), each holding a slice of one or more devices;
		// constructed to stay within every device's total
		var usage []string
		total := w.modelTotal()
		nUsers := rapid.IntRange(0, 6).Draw(t, "users")
		for i := 0; i < nUsers && len(w.inv) > 0; i++ {
			d := w.inv[rapid.IntRange(0, len(w.inv)-1).Draw(t, "userDev")]
			if !d.Health {
				continue
			}
			free := c07Free(total, w.modelUsed())
			take := func(rn corev1.ResourceName) int64 {
				f := free[c07Key(d.Type, d.Minor, rn)]
				if f <= 0 {
					return 0
				}
				switch rapid.IntRange(0, 3).Draw(t, "takeKind") {
				case 0:
					return f
				case 1:
					return (f + 1) / 2
				default:
					return rapid.Int64Range(1, f).Draw(t, "take")
				}
			}
			res := corev1.ResourceList{}
			requested := map[string]bool{} // both memory views are validated below, so neither counts as "derived" for these pods
			if d.Type == schedulingv1alpha1.GPU {
				T := d.Res[apiext.ResourceGPUMemory]
				if T <= 0 {
					continue
				}
				core := take(apiext.ResourceGPUCore)
				var ratio, mem int64
				if w.memMode == 1 || (w.memMode == 2 && rapid.Bool().Draw(t, "userBytes")) {
					mem = take(apiext.ResourceGPUMemory)
					if mem == 0 {
						continue
					}
					ratio = int64(float64(mem) / float64(T) * 100) // what fillGPUTotalMem records for a bytes request
				} else {
					ratio = take(apiext.ResourceGPUMemoryRatio)
					if ratio == 0 {
						continue
					}
					mem = ratio * T / 100 // what fillGPUTotalMem records for a ratio request
				}
				if ratio > free[c07Key(d.Type, d.Minor, apiext.ResourceGPUMemoryRatio)] || mem > free[c07Key(d.Type, d.Minor, apiext.ResourceGPUMemory)] {
					continue // keep the constructed usage within the device on both views
				}
				if core > 0 && rapid.Bool().Draw(t, "userCore") {
					res[apiext.ResourceGPUCore] = c07Quantity(apiext.ResourceGPUCore, core)
				}
				res[apiext.ResourceGPUMemoryRatio] = c07Quantity(apiext.ResourceGPUMemoryRatio, ratio)
				res[apiext.ResourceGPUMemory] = c07Quantity(apiext.ResourceGPUMemory, mem)
				// the memory view the pod asked in (the other one is what fillGPUTotalMem records for it, truncated)
				requested["gpu/"+string(apiext.ResourceGPUCore)] = true
				if ratio*T/100 == mem {
					requested["gpu/"+string(apiext.ResourceGPUMemoryRatio)] = true
				}
				if int64(float64(mem)/float64(T)*100) == ratio && ratio*T/100 != mem {
					requested["gpu/"+string(apiext.ResourceGPUMemory)] = true
				}
			} else {
				rn := c07TypeResource(d.Type)
				v := take(rn)
				if v == 0 {
					continue
				}
				res[rn] = c07Quantity(rn, v)
				requested[string(d.Type)+"/"+string(rn)] = true
			}
			alloc := apiext.DeviceAllocations{d.Type: {{Minor: int32(d.Minor), Resources: res}}}
			name := fmt.Sprintf("u%d", i)
			pod := c07NewPod(name, nil)
			bound, err := c07Bind(pod, alloc)
			if err != nil {
				t.Fatalf("cannot annotate pod: %v", err)
			}
			w.cache.onPodAdd(bound)
			w.live[name] = &c07Live{Name: name, Sched: pod, Bound: bound, Alloc: alloc, Flat: c07AllocFlat(alloc), Requested: requested}
			usage = append(usage, name+": "+c07AllocStr(alloc))
		}
		ctx := func() string {
			return fmt.Sprintf("inventory=[%s] usage=[%s]", w.invString(), strings.Join(usage, " ; "))
		}
		if w.checkLedger(c, t, true, ctx) {
			return
		}
		h := w.hints()
		req := c07GenRequest(t, h, w.memMode)
		realPath := rapid.IntRange(0, 2).Draw(t, "realPath") > 0
		pod := c07NewPod("p0", req.Pod)
		free := c07Free(w.modelTotal(), w.modelUsed())
		result, msg := w.tryAllocate(pod, realPath)
		ctx2 := func() string {
			return fmt.Sprintf("%s request=[%s] filterPath=%v scorer=%v result=%s%s", ctx(), req.Desc, realPath, w.scorer != nil, c07AllocStr(result), c07Msg(msg))
		}

		// classes
		hasUnhealthy, hasZero, hasTopo, fractional := false, false, false, false
		for _, d := range w.inv {
			if !d.Health {
				hasUnhealthy = true
			}
			z := true
			for _, v := range d.Res {
				if v != 0 {
					z = false
				}
			}
			if d.Health && z {
				hasZero = true
			}
			if d.NUMA >= 0 {
				hasTopo = true
			}
		}
		nDev := 0
		for dt, per := range req.Per {
			nDev += req.Count[dt]
			for _, v := range per {
				if v%100 != 0 {
					fractional = true
				}
			}
			if _, bytes := per[apiext.ResourceGPUMemory]; bytes {
				fractional = true
			}
		}
		// how tight: number of qualifying devices minus number needed, for the tightest type
		margin := 1 << 20
		for dt, per := range req.Per {
			q := 0
			for _, d := range w.devsOf(dt) {
				fits := true
				for rn, v := range per {
					if free[c07Key(dt, d.Minor, rn)] < v {
						fits = false
					}
				}
				if fits {
					q++
				}
			}
			if q-req.Count[dt] < margin {
				margin = q - req.Count[dt]
			}
		}
		typeAbsent, typeUnusable := false, false
		for dt := range req.Per {
			if h.n[dt] == 0 {
				typeAbsent = true
			} else if len(h.usable[dt]) == 0 {
				typeUnusable = true
			}
		}
		c.ClassIf(typeAbsent, "asked-type-not-reported")
		c.ClassIf(typeUnusable, "asked-type-has-no-usable-device")
		c.ClassIf(hasUnhealthy, "unhealthy-device")
		c.ClassIf(hasZero, "healthy-zero-resource-device")
		c.ClassIf(hasTopo, "topology-reported")
		c.ClassIf(fractional, "fractional-request")
		c.ClassIf(nDev > 1, "multi-device-request")
		c.ClassIf(len(req.Per) > 1, "multi-type-request")
		c.ClassIf(len(usage) > 0, "pre-existing-usage")
		c.ClassIf(margin == 0, "exactly-enough-devices")
		c.ClassIf(margin == -1, "one-device-short")
		c.ClassIf(margin < -1, "far-short")
		c.ClassIf(margin > 0, "slack")
		c.ClassIf(result != nil, "served")
		c.ClassIf(result == nil, "refused")
		c.ClassIf(realPath, "filter-path")
		c.Class(fmt.Sprintf("memMode:%d", w.memMode))
		// non-trivial: devices are partly used or partly unusable, and the request sits at the feasibility boundary (or needs several devices)
		if (len(usage) > 0 || hasUnhealthy || hasZero) && (margin == 0 || margin == -1 || nDev > 1) {
			c.NonTrivial(w.invString(), usage, req.Desc, realPath)
		}
		c.Sample(map[string]any{"inventory": w.invString(), "usage": usage, "request": req.Desc, "perDevice": c07PerStr(req), "filterPath": realPath,
			"result": c07AllocStr(result), "message": msg})

		if w.checkAllocation(c, t, req, free, result, msg, ctx2) {
			return
		}
		if result == nil {
			return
		}
		// commit as Reserve does and re-check the books
		nd := w.cache.getNodeDevice(c07Node, false)
		nd.lock.Lock()
		nd.updateCacheUsed(result, pod, true)
		nd.lock.Unlock()
		p := &c07Live{Name: "p0", Sched: pod, Alloc: result, Flat: c07AllocFlat(result), Requested: c07Requested(req)}
		w.live["p0"] = p
		if w.checkNotOvercommittedBy(c, t, p, ctx2) {
			return
		}
		if w.checkLedger(c, t, true, ctx2) {
			return
		}
	})
}
