//go:build verif

// C07, completeness-directed units ("... and fails only if no such set exists among the devices it may use"):
//
//   - ratioFill: a GPU is filled exactly by a generated composition of 100 % into fractional gpu-memory-ratio shares
//     (koordinator.sh/gpu, core+ratio or ratio alone), on memory sizes where ratio*total/100 is mostly not integral;
//     shares are released and asked again. Every share must be served: core and ratio free suffice by construction, and on
//     a device held in the ratio view only the truncated byte amounts always fit as well.
//   - jointAllocate: GPU+RDMA joint allocation (device-joint-allocate annotation) on generated PCIe topologies in which
//     a switch may host more NICs than the pod has preferred switches, with used / full / unhealthy NICs. Without a
//     required scope the PCIe switches of the GPUs are only PREFERRED for the NICs, so the request must be served
//     whenever enough GPUs and enough NICs (anywhere) have the asked amount free.
package deviceshare

import (
	"context"
	"fmt"
	"sort"
	"strings"
	"testing"

	corev1 "k8s.io/api/core/v1"
	"k8s.io/apimachinery/pkg/api/resource"
	metav1 "k8s.io/apimachinery/pkg/apis/meta/v1"
	"k8s.io/kubernetes/pkg/scheduler/framework"
	"pgregory.net/rapid"

	apiext "github.com/koordinator-sh/koordinator/apis/extension"
	schedulingv1alpha1 "github.com/koordinator-sh/koordinator/apis/scheduling/v1alpha1"
	schedulerconfig "github.com/koordinator-sh/koordinator/pkg/scheduler/apis/config"
	"github.com/koordinator-sh/koordinator/pkg/verifkit/vk"
)

func c07BareWorld(t *rapid.T, inv []c07Dev) *c07World {
	w := &c07World{cache: newNodeDeviceCache(), live: map[string]*c07Live{}, inv: inv}
	w.node = &corev1.Node{ObjectMeta: metav1.ObjectMeta{Name: c07Node}}
	switch rapid.IntRange(0, 2).Draw(t, "scorer") {
	case 1:
		args := getDefaultArgs()
		args.ScoringStrategy.Type = schedulerconfig.LeastAllocated
		w.scorer = deviceResourceStrategyTypeMap[args.ScoringStrategy.Type](args)
	case 2:
		args := getDefaultArgs()
		args.ScoringStrategy.Type = schedulerconfig.MostAllocated
		w.scorer = deviceResourceStrategyTypeMap[args.ScoringStrategy.Type](args)
	}
	w.cache.onDeviceAdd(c07BuildDevice(w.inv))
	return w
}

// commit as Reserve does
func (w *c07World) commitReserve(name string, pod *corev1.Pod, req c07Request, result apiext.DeviceAllocations) *c07Live {
	nd := w.cache.getNodeDevice(c07Node, false)
	nd.lock.Lock()
	nd.updateCacheUsed(result, pod, true)
	nd.lock.Unlock()
	bound, _ := c07Bind(pod, result)
	p := &c07Live{Name: name, Sched: pod, Bound: bound, Alloc: result, Flat: c07AllocFlat(result), Requested: c07Requested(req)}
	w.live[name] = p
	return p
}

// ---------------------------------------------------------------- ratio shares that fill a GPU exactly

func TestVerifC07RatioFill(t *testing.T) {
	c07Silence()
	rec := vk.New(t, "C07", "ratioFill")
	rapid.Check(t, func(t *rapid.T) {
		c := rec.Begin()
		defer c.End()
		nGPU := rapid.SampledFrom([]int{1, 1, 1, 2, 3}).Draw(t, "gpus")
		mem := rapid.OneOf(
			rapid.SampledFrom([]int64{16 << 30, 32 << 30, 1 << 30, 24 << 30, 40 << 30, 80 << 30, 85198045184, 11 << 30, 12884901888 - 7}),
			rapid.Int64Range(1<<30, 1<<36),
		).Draw(t, "gpuMem")
		topo := rapid.Bool().Draw(t, "topology")
		var inv []c07Dev
		for i := 0; i < nGPU; i++ {
			d := c07Dev{Type: schedulingv1alpha1.GPU, Minor: i, Health: true, NUMA: -1,
				Res: map[corev1.ResourceName]int64{apiext.ResourceGPUCore: 100, apiext.ResourceGPUMemoryRatio: 100, apiext.ResourceGPUMemory: mem}}
			if topo {
				d.NUMA, d.PCIe = 0, i/2
			}
			inv = append(inv, d)
		}
		w := c07BareWorld(t, inv)
		var hist []string
		hist = append(hist, "inventory: "+w.invString())
		ctx := func() string { return "history=[" + strings.Join(hist, " ; ") + "]" }

		// a composition of nGPU x 100 % into shares, each <= 100, so that the shares of every device can sum to exactly 100:
		// compose 100 per device
		var shares []int64
		for g := 0; g < nGPU; g++ {
			k := rapid.IntRange(1, 8).Draw(t, "shares")
			remaining := int64(100)
			if rapid.IntRange(0, 2).Draw(t, "equalShares") == 0 {
				k = rapid.SampledFrom([]int{2, 4, 5, 5, 10, 20}).Draw(t, "equalK")
				for i := 0; i < k; i++ {
					shares = append(shares, 100/int64(k))
				}
				continue
			}
			for i := 0; i < k && remaining > 0; i++ {
				v := remaining
				if i < k-1 && remaining > 1 {
					v = rapid.Int64Range(1, remaining-1).Draw(t, "share")
				}
				shares = append(shares, v)
				remaining -= v
			}
		}
		nonIntegral, roundsUp := false, false
		for _, v := range shares {
			if r := v * mem % 100; r != 0 {
				nonIntegral = true
				roundsUp = roundsUp || r >= 50
			}
		}

		next := 0
		served := 0
		var pool []int64 // shares that were released and can be asked again
		ask := func(v int64) bool {
			name := fmt.Sprintf("p%d", next)
			next++
			req := c07Request{Pod: corev1.ResourceList{}, Per: map[schedulingv1alpha1.DeviceType]map[corev1.ResourceName]int64{}, Count: map[schedulingv1alpha1.DeviceType]int{schedulingv1alpha1.GPU: 1}}
			q := *resource.NewQuantity(v, resource.DecimalSI)
			switch rapid.IntRange(0, 2).Draw(t, "shape") {
			case 0:
				req.Pod[apiext.ResourceGPU] = q
				req.Per[schedulingv1alpha1.GPU] = map[corev1.ResourceName]int64{apiext.ResourceGPUCore: v, apiext.ResourceGPUMemoryRatio: v}
				req.Desc = fmt.Sprintf("koordinator.sh/gpu=%d", v)
			case 1:
				req.Pod[apiext.ResourceGPUMemoryRatio] = q
				req.Per[schedulingv1alpha1.GPU] = map[corev1.ResourceName]int64{apiext.ResourceGPUMemoryRatio: v}
				req.Desc = fmt.Sprintf("gpu-memory-ratio=%d", v)
			default:
				core := rapid.Int64Range(1, v).Draw(t, "core")
				req.Pod[apiext.ResourceGPUCore] = *resource.NewQuantity(core, resource.DecimalSI)
				req.Pod[apiext.ResourceGPUMemoryRatio] = q
				req.Per[schedulingv1alpha1.GPU] = map[corev1.ResourceName]int64{apiext.ResourceGPUCore: core, apiext.ResourceGPUMemoryRatio: v}
				req.Desc = fmt.Sprintf("gpu-core=%d gpu-memory-ratio=%d", core, v)
			}
			pod := c07NewPod(name, req.Pod)
			realPath := rapid.IntRange(0, 2).Draw(t, "realPath") > 0
			free := c07Free(w.modelTotal(), w.modelUsed())
			result, msg := w.tryAllocate(pod, realPath)
			hist = append(hist, fmt.Sprintf("allocate %s [%s] filterPath=%v -> %s%s", name, req.Desc, realPath, c07AllocStr(result), c07Msg(msg)))
			if w.checkAllocation(c, t, req, free, result, msg, ctx) {
				return true
			}
			if result == nil {
				// not every order of shares packs (first-fit over several devices); only a refusal although some device has the share free is an alarm
				pool = append(pool, v)
				return false
			}
			served++
			p := w.commitReserve(name, pod, req, result)
			if w.checkNotOvercommittedBy(c, t, p, ctx) {
				return true
			}
			return w.checkLedger(c, t, true, ctx)
		}
		for _, v := range shares {
			if ask(v) {
				return
			}
		}
		// churn: release some shares and ask for exactly the same amounts again
		churn := rapid.IntRange(0, 6).Draw(t, "churn")
		for i := 0; i < churn && len(w.live) > 0; i++ {
			p := w.live[rapid.SampledFrom(w.liveNames()).Draw(t, "released")]
			w.cache.onPodDelete(c07DeleteEvent(p.Bound, i%2 == 1))
			delete(w.live, p.Name)
			v := p.Flat[c07Key(schedulingv1alpha1.GPU, int(p.Alloc[schedulingv1alpha1.GPU][0].Minor), apiext.ResourceGPUMemoryRatio)]
			hist = append(hist, "podDelete "+p.Name)
			if w.checkLedger(c, t, true, ctx) {
				return
			}
			if ask(v) {
				return
			}
		}
		fullDevices := 0
		used := w.modelUsed()
		for _, d := range w.inv {
			if used[c07Key(d.Type, d.Minor, apiext.ResourceGPUMemoryRatio)] == 100 {
				fullDevices++
			}
		}
		c.ClassIf(nonIntegral, "some-share-bytes-not-integral")
		c.ClassIf(roundsUp, "some-share-remainder>=half-byte")
		c.ClassIf(fullDevices > 0, "gpu-filled-to-exactly-100%")
		c.ClassIf(fullDevices > 0 && len(shares) >= 3*nGPU, "gpu-filled-exactly-by>=3-shares")
		c.ClassIf(churn > 0, "shares-released-and-asked-again")
		c.ClassIf(len(pool) > 0, "some-share-refused(no device had it free)")
		c.ClassIf(topo, "topology-reported")
		if fullDevices > 0 && nonIntegral && served >= 3 {
			c.NonTrivial(mem, nGPU, topo, hist[1:])
		}
		c.Sample(map[string]any{"gpuMem": mem, "shares": shares, "history": hist})
	})
}

// ---------------------------------------------------------------- joint GPU+RDMA allocation over PCIe switches

func TestVerifC07JointAllocate(t *testing.T) {
	c07Silence()
	rec := vk.New(t, "C07", "jointAllocate")
	rapid.Check(t, func(t *rapid.T) {
		c := rec.Begin()
		defer c.End()
		nSw := rapid.SampledFrom([]int{1, 1, 2, 2, 3}).Draw(t, "switches")
		var inv []c07Dev
		gpuMinor, nicMinor := 0, 0
		nicsOf := map[int][]int{} // switch -> NIC minors
		gpusOf := map[int][]int{}
		for s := 0; s < nSw; s++ {
			for i, n := 0, rapid.SampledFrom([]int{0, 1, 1, 1, 2}).Draw(t, "gpusOnSwitch"); i < n; i++ {
				inv = append(inv, c07Dev{Type: schedulingv1alpha1.GPU, Minor: gpuMinor, Health: rapid.IntRange(0, 9).Draw(t, "gpuHealthy") > 0, NUMA: s / 2, PCIe: s,
					Res: map[corev1.ResourceName]int64{apiext.ResourceGPUCore: 100, apiext.ResourceGPUMemoryRatio: 100, apiext.ResourceGPUMemory: 16 << 30}})
				gpusOf[s] = append(gpusOf[s], gpuMinor)
				gpuMinor++
			}
		}
		for s := 0; s < nSw; s++ {
			for i, n := 0, rapid.SampledFrom([]int{0, 1, 1, 2, 2, 3, 4}).Draw(t, "nicsOnSwitch"); i < n; i++ {
				inv = append(inv, c07Dev{Type: schedulingv1alpha1.RDMA, Minor: nicMinor, Health: rapid.IntRange(0, 9).Draw(t, "nicHealthy") > 0, NUMA: s / 2, PCIe: s,
					Res: map[corev1.ResourceName]int64{apiext.ResourceRDMA: 100}})
				nicsOf[s] = append(nicsOf[s], nicMinor)
				nicMinor++
			}
		}
		if rapid.IntRange(0, 4).Draw(t, "nicWithoutTopology") == 0 { // a NIC the agent reports no topology for
			inv = append(inv, c07Dev{Type: schedulingv1alpha1.RDMA, Minor: nicMinor, Health: true, NUMA: -1, Res: map[corev1.ResourceName]int64{apiext.ResourceRDMA: 100}})
			nicMinor++
		}
		sort.SliceStable(inv, func(i, j int) bool { return c07TypeOrder(inv[i].Type) < c07TypeOrder(inv[j].Type) })
		w := c07BareWorld(t, inv)

		// usage delivered by the informer: NICs full / partly used, some GPUs taken
		var usage []string
		for _, d := range w.inv {
			if !d.Health {
				continue
			}
			res := corev1.ResourceList{}
			requested := map[string]bool{}
			if d.Type == schedulingv1alpha1.RDMA {
				v := rapid.SampledFrom([]int64{0, 0, 0, 100, 100, 50, 1, 99}).Draw(t, "nicUsed")
				if v == 0 {
					continue
				}
				res[apiext.ResourceRDMA] = c07Quantity(apiext.ResourceRDMA, v)
				requested["rdma/"+string(apiext.ResourceRDMA)] = true
			} else {
				v := rapid.SampledFrom([]int64{0, 0, 0, 0, 100, 50}).Draw(t, "gpuUsed")
				if v == 0 {
					continue
				}
				res[apiext.ResourceGPUCore] = c07Quantity(apiext.ResourceGPUCore, v)
				res[apiext.ResourceGPUMemoryRatio] = c07Quantity(apiext.ResourceGPUMemoryRatio, v)
				res[apiext.ResourceGPUMemory] = c07Quantity(apiext.ResourceGPUMemory, v*d.Res[apiext.ResourceGPUMemory]/100)
				requested["gpu/"+string(apiext.ResourceGPUCore)], requested["gpu/"+string(apiext.ResourceGPUMemoryRatio)] = true, true
			}
			alloc := apiext.DeviceAllocations{d.Type: {{Minor: int32(d.Minor), Resources: res}}}
			name := fmt.Sprintf("u%d", len(usage))
			pod := c07NewPod(name, nil)
			bound, err := c07Bind(pod, alloc)
			if err != nil {
				t.Fatalf("cannot annotate pod: %v", err)
			}
			w.cache.onPodAdd(bound)
			w.live[name] = &c07Live{Name: name, Sched: pod, Bound: bound, Alloc: alloc, Flat: c07AllocFlat(alloc), Requested: requested}
			usage = append(usage, name+": "+c07AllocStr(alloc))
		}
		free := c07Free(w.modelTotal(), w.modelUsed())

		// the request: GPUs (whole or a share of one) + RDMA, jointly allocated
		req := c07Request{Pod: corev1.ResourceList{}, Per: map[schedulingv1alpha1.DeviceType]map[corev1.ResourceName]int64{}, Count: map[schedulingv1alpha1.DeviceType]int{}, MaxCount: map[schedulingv1alpha1.DeviceType]int{}}
		var descs []string
		if rapid.IntRange(0, 3).Draw(t, "gpuShare") == 0 {
			v := rapid.SampledFrom([]int64{50, 25, 100, 1, 99}).Draw(t, "gpuPercent")
			req.Pod[apiext.ResourceGPU] = *resource.NewQuantity(v, resource.DecimalSI)
			req.Per[schedulingv1alpha1.GPU] = map[corev1.ResourceName]int64{apiext.ResourceGPUCore: v, apiext.ResourceGPUMemoryRatio: v}
			req.Count[schedulingv1alpha1.GPU] = 1
			descs = append(descs, fmt.Sprintf("koordinator.sh/gpu=%d", v))
		} else {
			k := rapid.Int64Range(1, int64(gpuMinor)+1).Draw(t, "gpus")
			if k > 1 && rapid.Bool().Draw(t, "oneGPU") {
				k = 1
			}
			req.Pod[apiext.ResourceNvidiaGPU] = *resource.NewQuantity(k, resource.DecimalSI)
			req.Per[schedulingv1alpha1.GPU] = map[corev1.ResourceName]int64{apiext.ResourceGPUCore: 100, apiext.ResourceGPUMemoryRatio: 100}
			req.Count[schedulingv1alpha1.GPU] = int(k)
			descs = append(descs, fmt.Sprintf("nvidia.com/gpu=%d", k))
		}
		var rdma int64
		switch rapid.IntRange(0, 5).Draw(t, "rdmaKind") {
		case 0:
			rdma = 100 * rapid.Int64Range(1, int64(nicMinor)+1).Draw(t, "nics")
		case 1:
			rdma = rapid.Int64Range(1, 100).Draw(t, "rdma")
		default:
			rdma = rapid.SampledFrom([]int64{1, 1, 50, 100, 100, 200}).Draw(t, "rdmaTypical")
		}
		req.Pod[apiext.ResourceRDMA] = *resource.NewQuantity(rdma, resource.DecimalSI)
		nicCount := int64(1)
		if rdma > 100 && rdma%100 == 0 {
			nicCount = rdma / 100
		}
		req.Per[schedulingv1alpha1.RDMA] = map[corev1.ResourceName]int64{apiext.ResourceRDMA: rdma / nicCount}
		req.Count[schedulingv1alpha1.RDMA] = int(nicCount)
		descs = append(descs, fmt.Sprintf("rdma=%d", rdma))
		req.Desc = strings.Join(descs, " ") + " joint[gpu,rdma]"
		samePCIe := rapid.IntRange(0, 7).Draw(t, "requireSamePCIe") == 0
		pod := c07NewPod("p0", req.Pod)
		ja := &apiext.DeviceJointAllocate{DeviceTypes: []schedulingv1alpha1.DeviceType{schedulingv1alpha1.GPU, schedulingv1alpha1.RDMA}}
		if samePCIe {
			ja.RequiredScope = apiext.SamePCIeDeviceJointAllocateScope
			req.Desc += " requiredScope=SamePCIe"
		}
		if err := apiext.SetDeviceJointAllocate(pod, ja); err != nil {
			t.Fatalf("cannot annotate pod: %v", err)
		}
		realPath := rapid.IntRange(0, 2).Draw(t, "realPath") > 0
		result, msg := w.tryAllocate(pod, realPath)
		ctx := func() string {
			return fmt.Sprintf("inventory=[%s] usage=[%s] request=[%s] filterPath=%v result=%s%s", w.invString(), strings.Join(usage, " ; "), req.Desc, realPath, c07AllocStr(result), c07Msg(msg))
		}

		// shape: which switches would be preferred (those of the GPUs that can serve), and is a fitting NIC of such a switch
		// at a position >= the number of preferred switches?
		switchOfGPU := map[int]int{}
		for s, gs := range gpusOf {
			for _, g := range gs {
				switchOfGPU[g] = s
			}
		}
		moreNICsThanPreferred, laterNICNeeded := false, false
		if result != nil {
			sw := map[int]bool{}
			for _, a := range result[schedulingv1alpha1.GPU] {
				sw[switchOfGPU[int(a.Minor)]] = true
			}
			// a joint allocation may hand out one NIC per switch of the GPUs
			req.MaxCount[schedulingv1alpha1.RDMA] = len(sw)
			for s := range sw {
				if len(nicsOf[s]) > len(sw) {
					moreNICsThanPreferred = true
				}
				for _, a := range result[schedulingv1alpha1.RDMA] {
					for pos, m := range nicsOf[s] {
						if m == int(a.Minor) && pos >= len(sw) {
							laterNICNeeded = true
						}
					}
				}
			}
		}
		fitNICs := 0
		for _, d := range w.devsOf(schedulingv1alpha1.RDMA) {
			if free[c07Key(d.Type, d.Minor, apiext.ResourceRDMA)] >= req.Per[schedulingv1alpha1.RDMA][apiext.ResourceRDMA] {
				fitNICs++
			}
		}
		c.ClassIf(result != nil, "served")
		c.ClassIf(result == nil, "refused")
		c.ClassIf(moreNICsThanPreferred, "a-preferred-switch-hosts-more-nics-than-there-are-preferred-switches")
		c.ClassIf(laterNICNeeded, "served-by-a-nic-at-position>=number-of-preferred-switches")
		c.ClassIf(int(nicCount) > 1, "multi-nic-request")
		c.ClassIf(fitNICs == int(nicCount), "exactly-enough-nics-fit")
		c.ClassIf(samePCIe, "required-scope-SamePCIe(completeness not asserted)")
		c.ClassIf(len(usage) > 0, "pre-existing-usage")
		if moreNICsThanPreferred || (len(usage) > 0 && fitNICs <= int(nicCount)+1) {
			c.NonTrivial(w.invString(), usage, req.Desc, realPath)
		}
		c.Sample(map[string]any{"inventory": w.invString(), "usage": usage, "request": req.Desc, "result": c07AllocStr(result), "message": msg})

		if result == nil && samePCIe {
			return // the switches of the GPUs are then binding for the NICs; whether another choice of GPUs would have worked is not decided here
		}
		if w.checkAllocation(c, t, req, free, result, msg, ctx) {
			return
		}
		if result == nil {
			return
		}
		p := w.commitReserve("p0", pod, req, result)
		if w.checkNotOvercommittedBy(c, t, p, ctx) {
			return
		}
		w.checkLedger(c, t, true, ctx)
	})
}

// ---------------------------------------------------------------- joint pods through the plugin's scheduling cycle

// TestVerifC07JointReserve schedules a few pods asking GPUs plus secondary devices (RDMA, sometimes FPGA) with the
// joint-allocate annotation through PreFilter / Filter / Reserve, Reserve being called as the framework extender calls it
// (Reserve phase recorded in the cycle state), on nodes whose Device object may carry the secondary-device-well-planned
// label. What a successful Reserve commits must contain every asked device type with the asked number of devices and
// amounts, each of which was free at that moment; a refusal needs a device type of which too few devices had the amount free.
func TestVerifC07JointReserve(t *testing.T) {
	c07Silence()
	base := c07NewPlugin(t)
	rec := vk.New(t, "C07", "jointReserve")
	rapid.Check(t, func(t *rapid.T) {
		c := rec.Begin()
		defer c.End()
		nSw := rapid.SampledFrom([]int{1, 1, 2, 2, 3}).Draw(t, "switches")
		var inv []c07Dev
		minor := map[schedulingv1alpha1.DeviceType]int{}
		switchOfGPU := map[int]int{}
		add := func(dt schedulingv1alpha1.DeviceType, s int, res map[corev1.ResourceName]int64) {
			inv = append(inv, c07Dev{Type: dt, Minor: minor[dt], Health: rapid.IntRange(0, 11).Draw(t, "healthy") > 0, NUMA: s / 2, PCIe: s, Res: res})
			if dt == schedulingv1alpha1.GPU {
				switchOfGPU[minor[dt]] = s
			}
			minor[dt]++
		}
		for s := 0; s < nSw; s++ {
			for i, n := 0, rapid.SampledFrom([]int{1, 1, 2}).Draw(t, "gpusOnSwitch"); i < n; i++ {
				add(schedulingv1alpha1.GPU, s, map[corev1.ResourceName]int64{apiext.ResourceGPUCore: 100, apiext.ResourceGPUMemoryRatio: 100, apiext.ResourceGPUMemory: 16 << 30})
			}
			for i, n := 0, rapid.SampledFrom([]int{0, 1, 1, 2, 3}).Draw(t, "nicsOnSwitch"); i < n; i++ {
				add(schedulingv1alpha1.RDMA, s, map[corev1.ResourceName]int64{apiext.ResourceRDMA: 100})
			}
			for i, n := 0, rapid.SampledFrom([]int{0, 0, 1}).Draw(t, "fpgasOnSwitch"); i < n; i++ {
				add(schedulingv1alpha1.FPGA, s, map[corev1.ResourceName]int64{apiext.ResourceFPGA: 100})
			}
		}
		sort.SliceStable(inv, func(i, j int) bool { return c07TypeOrder(inv[i].Type) < c07TypeOrder(inv[j].Type) })
		w := c07BareWorld(t, inv)
		wellPlanned := rapid.Bool().Draw(t, "secondaryDeviceWellPlanned")
		dev := c07BuildDevice(w.inv)
		if rapid.Bool().Draw(t, "labelled") || wellPlanned {
			dev.Labels = map[string]string{apiext.LabelSecondaryDeviceWellPlanned: fmt.Sprint(wellPlanned)}
		}
		w.cache.onDeviceUpdate(dev, dev)
		plugin := *base
		pl := &plugin
		pl.nodeDeviceCache = w.cache
		pl.scorer = w.scorer
		nodeInfo := framework.NewNodeInfo()
		nodeInfo.SetNode(w.node)
		bg := context.Background()

		var hist []string
		hist = append(hist, fmt.Sprintf("inventory (well-planned=%v): %s", wellPlanned, w.invString()))
		ctx := func() string { return "history=[" + strings.Join(hist, " ; ") + "]" }
		var sawWholeJointOnWellPlanned, sawSharedJoint, sawServed, sawRefused, sawFPGA bool
		served := 0
		for i, n := 0, rapid.IntRange(1, 4).Draw(t, "pods"); i < n; i++ {
			req := c07Request{Pod: corev1.ResourceList{}, Per: map[schedulingv1alpha1.DeviceType]map[corev1.ResourceName]int64{}, Count: map[schedulingv1alpha1.DeviceType]int{}, MaxCount: map[schedulingv1alpha1.DeviceType]int{}}
			var descs []string
			whole := rapid.IntRange(0, 3).Draw(t, "wholeGPU") > 0
			if whole {
				k := int64(1)
				if rapid.IntRange(0, 2).Draw(t, "severalGPUs") == 0 {
					k = rapid.Int64Range(1, int64(minor[schedulingv1alpha1.GPU])).Draw(t, "gpus")
				}
				req.Pod[apiext.ResourceNvidiaGPU] = *resource.NewQuantity(k, resource.DecimalSI)
				req.Per[schedulingv1alpha1.GPU] = map[corev1.ResourceName]int64{apiext.ResourceGPUCore: 100, apiext.ResourceGPUMemoryRatio: 100}
				req.Count[schedulingv1alpha1.GPU] = int(k)
				descs = append(descs, fmt.Sprintf("nvidia.com/gpu=%d", k))
			} else {
				v := rapid.SampledFrom([]int64{50, 25, 10, 99}).Draw(t, "gpuPercent")
				req.Pod[apiext.ResourceGPU] = *resource.NewQuantity(v, resource.DecimalSI)
				req.Per[schedulingv1alpha1.GPU] = map[corev1.ResourceName]int64{apiext.ResourceGPUCore: v, apiext.ResourceGPUMemoryRatio: v}
				req.Count[schedulingv1alpha1.GPU] = 1
				descs = append(descs, fmt.Sprintf("koordinator.sh/gpu=%d", v))
			}
			types := []schedulingv1alpha1.DeviceType{schedulingv1alpha1.GPU, schedulingv1alpha1.RDMA}
			secondary := []schedulingv1alpha1.DeviceType{schedulingv1alpha1.RDMA}
			if rapid.IntRange(0, 3).Draw(t, "withFPGA") == 0 {
				secondary = append(secondary, schedulingv1alpha1.FPGA)
				sawFPGA = true
				if rapid.Bool().Draw(t, "fpgaJoint") {
					types = append(types, schedulingv1alpha1.FPGA)
				}
			}
			for _, dt := range secondary {
				rn := c07TypeResource(dt)
				v := rapid.SampledFrom([]int64{1, 1, 50, 100, 100, 200}).Draw(t, string(dt))
				count := int64(1)
				if v > 100 {
					count = v / 100
				}
				req.Pod[rn] = *resource.NewQuantity(v, resource.DecimalSI)
				req.Per[dt] = map[corev1.ResourceName]int64{rn: v / count}
				req.Count[dt] = int(count)
				descs = append(descs, fmt.Sprintf("%s=%d", dt, v))
			}
			req.Desc = fmt.Sprintf("%s joint%v", strings.Join(descs, " "), types)
			name := fmt.Sprintf("p%d", i)
			pod := c07NewPod(name, req.Pod)
			if err := apiext.SetDeviceJointAllocate(pod, &apiext.DeviceJointAllocate{DeviceTypes: types}); err != nil {
				t.Fatalf("cannot annotate pod: %v", err)
			}
			sawWholeJointOnWellPlanned = sawWholeJointOnWellPlanned || (whole && wellPlanned)
			sawSharedJoint = sawSharedJoint || !whole
			cs := framework.NewCycleState()
			if _, st := pl.PreFilter(bg, cs, pod, nil); !st.IsSuccess() {
				c.Class("request-rejected-before-allocation")
				continue
			}
			free := c07Free(w.modelTotal(), w.modelUsed())
			if st := pl.Filter(bg, cs, pod, nodeInfo); !st.IsSuccess() {
				hist = append(hist, fmt.Sprintf("schedule %s [%s]: Filter refused (%s)", name, req.Desc, c07Status(st)))
				sawRefused = true
				if w.checkAllocation(c, t, req, free, nil, "Filter: "+c07Status(st), ctx) {
					return
				}
				continue
			}
			st := c07Reserve(pl, cs, pod)
			if !st.IsSuccess() {
				pl.Unreserve(bg, cs, pod, c07Node)
				hist = append(hist, fmt.Sprintf("schedule %s [%s]: Reserve refused (%s)", name, req.Desc, c07Status(st)))
				sawRefused = true
				if w.checkAllocation(c, t, req, free, nil, "Reserve: "+c07Status(st), ctx) {
					return
				}
				continue
			}
			state, _ := getPreFilterState(cs)
			if state == nil || state.allocationResult == nil {
				t.Fatalf("Reserve succeeded without an allocation result; %s", ctx())
			}
			result := state.allocationResult
			hist = append(hist, fmt.Sprintf("schedule %s [%s] -> %s", name, req.Desc, c07AllocStr(result)))
			sw := map[int]bool{}
			for _, a := range result[schedulingv1alpha1.GPU] {
				sw[switchOfGPU[int(a.Minor)]] = true
			}
			for _, dt := range types[1:] { // a joint allocation may hand out one secondary device per switch of the GPUs
				req.MaxCount[dt] = len(sw)
			}
			if w.checkAllocation(c, t, req, free, result, "", ctx) {
				return
			}
			sawServed = true
			served++
			bound, _ := c07Bind(pod, result)
			p := &c07Live{Name: name, Sched: pod, Bound: bound, Alloc: result, Flat: c07AllocFlat(result), Requested: c07Requested(req)}
			w.live[name] = p
			if w.checkNotOvercommittedBy(c, t, p, ctx) {
				return
			}
			if w.checkLedger(c, t, true, ctx) {
				return
			}
		}
		c.ClassIf(wellPlanned, "node-labelled-secondary-device-well-planned")
		c.ClassIf(sawWholeJointOnWellPlanned, "whole-gpu-joint-pod-on-well-planned-node")
		c.ClassIf(sawWholeJointOnWellPlanned && sawServed, "whole-gpu-joint-pod-on-well-planned-node+some-pod-served")
		c.ClassIf(sawSharedJoint, "shared-gpu-joint-pod")
		c.ClassIf(sawFPGA, "fpga-asked-too")
		c.ClassIf(sawServed, "some-pod-served")
		c.ClassIf(sawRefused, "some-pod-refused")
		if served > 0 && (wellPlanned || served >= 2) {
			c.NonTrivial(hist)
		}
		c.Sample(map[string]any{"history": hist})
	})
}
