//go:build verif

// C07, fourth unit: histories with reservations that hold PART of a shared device and owner pods that are allocated
// through the reservation-restore path (PreFilter / PreRestoreReservation / RestoreReservation / Filter /
// FilterNominateReservation / Reserve), next to ordinary pods, informer-delivered pods, deletions and refreshes.
//
// The cache books a reservation's reserve pod like a pod and books its owner pods on top of it, so the ledger's "used"
// double counts what owners consume from the reservation; the ledger identities (used == sum of all recorded entries,
// free == max(total-used,0), allocate set == entries) are still checked after every step. The over-commit clause of the
// statement is evaluated on what REAL pods hold: the allocations of the live non-reserve pods on a device never sum to
// more than the device's total (while no capacity was taken away), and no allocation pushes a device it touches beyond it.
package deviceshare

import (
	"context"
	"fmt"
	"sort"
	"strings"
	"sync/atomic"
	"testing"

	corev1 "k8s.io/api/core/v1"
	"k8s.io/apimachinery/pkg/api/resource"
	metav1 "k8s.io/apimachinery/pkg/apis/meta/v1"
	"k8s.io/apimachinery/pkg/types"
	"k8s.io/kubernetes/pkg/scheduler/framework"
	"pgregory.net/rapid"

	apiext "github.com/koordinator-sh/koordinator/apis/extension"
	schedulingv1alpha1 "github.com/koordinator-sh/koordinator/apis/scheduling/v1alpha1"
	"github.com/koordinator-sh/koordinator/pkg/scheduler/frameworkext"
	reservationutil "github.com/koordinator-sh/koordinator/pkg/util/reservation"
	"github.com/koordinator-sh/koordinator/pkg/verifkit/vk"
)

// the framework handle (and with it the fake reservation nominator, keyed by UID) is shared by all cases of the test
// function: UIDs are made unique per case so that nothing can leak from one case into the next
var c07CaseSeq atomic.Int64

type c07Resv struct {
	Name   string
	Policy schedulingv1alpha1.ReservationAllocatePolicy
	Pod    *corev1.Pod // the reserve pod as the reservation event handler hands it to the pod handler
	RInfo  *frameworkext.ReservationInfo
	Flat   c07Flat // what it reserves
}

// c07PartRequest asks for v percent of one device of the type.
func c07PartRequest(dt schedulingv1alpha1.DeviceType, v int64) c07Request {
	req := c07Request{Pod: corev1.ResourceList{}, Per: map[schedulingv1alpha1.DeviceType]map[corev1.ResourceName]int64{}, Count: map[schedulingv1alpha1.DeviceType]int{dt: 1}}
	q := *resource.NewQuantity(v, resource.DecimalSI)
	if dt == schedulingv1alpha1.GPU {
		req.Pod[apiext.ResourceGPU] = q
		req.Per[dt] = map[corev1.ResourceName]int64{apiext.ResourceGPUCore: v, apiext.ResourceGPUMemoryRatio: v}
		req.Desc = fmt.Sprintf("koordinator.sh/gpu=%d", v)
	} else {
		rn := c07TypeResource(dt)
		req.Pod[rn] = q
		req.Per[dt] = map[corev1.ResourceName]int64{rn: v}
		req.Desc = fmt.Sprintf("%s=%d", dt, v)
	}
	return req
}

func TestVerifC07ReservationHistory(t *testing.T) {
	c07Silence()
	base := c07NewPlugin(t)
	rec := vk.New(t, "C07", "reservationHistory")
	rapid.Check(t, func(t *rapid.T) {
		c := rec.Begin()
		defer c.End()
		seq := c07CaseSeq.Add(1)
		uid := func(name string) types.UID { return types.UID(fmt.Sprintf("%s-case%d", name, seq)) }
		w := c07NewWorld(t)
		w.memMode = 0 // memory is asked as a ratio throughout this unit
		plugin := *base
		pl := &plugin
		pl.nodeDeviceCache = w.cache
		pl.scorer = w.scorer
		nodeInfo := framework.NewNodeInfo()
		nodeInfo.SetNode(w.node)
		bg := context.Background()
		allowLoss := rapid.IntRange(0, 3).Draw(t, "allowCapacityLoss") == 0

		var hist, fp []string // fp: the history without koordinator's status messages
		note := func(e string) { hist, fp = append(hist, e), append(fp, e) }
		noteMsg := func(e, msg string) { hist, fp = append(hist, e+c07Msg(msg)), append(fp, e) }
		note("inventory: " + w.invString())
		ctx := func() string { return "history=[" + strings.Join(hist, " ; ") + "]" }

		dead := false
		capacityHolds := true
		resvs := map[string]*c07Resv{} // live reservations by name
		ownerOf := map[string]string{} // real pod -> reservation it was assigned to
		real := map[string]bool{}      // live non-reserve pods
		sigSuffix := ""                // set while a commit is being judged: which reservation shape the committed pod is in
		var sawOwner, sawSpill, sawOwnerAfterSpill, sawNonOwnerAfterSpill, sawRefused, sawRestricted, sawTombstone, sawResvDeleted, sawNoNomination, sawOwnerAttemptAfterSpill, sawOtherAttemptAfterSpill bool
		nResv := 0

		resvNames := func() []string {
			out := make([]string, 0, len(resvs))
			for k := range resvs {
				out = append(out, k)
			}
			sort.Strings(out)
			return out
		}
		realNames := func() []string {
			out := make([]string, 0, len(real))
			for k := range real {
				out = append(out, k)
			}
			sort.Strings(out)
			return out
		}
		realUsed := func() c07Flat {
			out := c07Flat{}
			for n := range real {
				for k, v := range w.live[n].Flat {
					out.add(k, v)
				}
			}
			return out
		}
		// a reservation has "spilled" when its live owners together hold more on a reserved device than was reserved there
		spilled := func(rv *c07Resv) bool {
			for k, reserved := range rv.Flat {
				var held int64
				for pn, rn := range ownerOf {
					if rn == rv.Name && w.live[pn] != nil {
						held += w.live[pn].Flat[k]
					}
				}
				if held > reserved {
					return true
				}
			}
			return false
		}
		// the statement's over-commit clause on what real pods hold
		checkReal := func(t *rapid.T, only c07Flat, where string) bool {
			total, used := w.modelTotal(), realUsed()
			for _, k := range c07Keys(used) {
				if only != nil && only[k] == 0 {
					continue
				}
				if used[k] > total[k] {
					var holders []string
					for _, n := range realNames() {
						if v := w.live[n].Flat[k]; v > 0 {
							holders = append(holders, fmt.Sprintf("%s=%d", n, v))
						}
					}
					return c.Violation(t, "reservation:real-pods-exceed-total"+sigSuffix, "%s: %s: live pods hold %d > total %d (%s); %s", where, k, used[k], total[k], strings.Join(holders, ","), ctx())
				}
			}
			return false
		}

		addReservation := func(t *rapid.T) {
			var usable []c07Dev
			free := c07Free(w.modelTotal(), w.modelUsed())
			for _, d := range w.inv {
				if d.Health && free[c07Key(d.Type, d.Minor, c07MainResource(d.Type))] > 0 {
					usable = append(usable, d)
				}
			}
			if len(usable) == 0 {
				return
			}
			d := usable[rapid.IntRange(0, len(usable)-1).Draw(t, "resvDev")]
			f := free[c07Key(d.Type, d.Minor, c07MainResource(d.Type))]
			if d.Type == schedulingv1alpha1.GPU {
				if fc := free[c07Key(d.Type, d.Minor, apiext.ResourceGPUCore)]; fc < f {
					f = fc
				}
				if f <= 0 {
					return
				}
			}
			v := f
			switch rapid.IntRange(0, 4).Draw(t, "resvPart") {
			case 0:
			case 1, 2:
				v = (f + 1) / 2
			case 3:
				v = (f + 3) / 4
			default:
				v = rapid.Int64Range(1, f).Draw(t, "resvAmount")
			}
			res := corev1.ResourceList{}
			if d.Type == schedulingv1alpha1.GPU {
				res[apiext.ResourceGPUCore] = c07Quantity(apiext.ResourceGPUCore, v)
				res[apiext.ResourceGPUMemoryRatio] = c07Quantity(apiext.ResourceGPUMemoryRatio, v)
				res[apiext.ResourceGPUMemory] = c07Quantity(apiext.ResourceGPUMemory, v*d.Res[apiext.ResourceGPUMemory]/100)
			} else {
				res[c07TypeResource(d.Type)] = c07Quantity(c07TypeResource(d.Type), v)
			}
			name := fmt.Sprintf("resv%d", nResv)
			nResv++
			policy := rapid.SampledFrom([]schedulingv1alpha1.ReservationAllocatePolicy{
				schedulingv1alpha1.ReservationAllocatePolicyDefault, schedulingv1alpha1.ReservationAllocatePolicyAligned,
				schedulingv1alpha1.ReservationAllocatePolicyAligned, schedulingv1alpha1.ReservationAllocatePolicyRestricted}).Draw(t, "policy")
			r := &schedulingv1alpha1.Reservation{
				ObjectMeta: metav1.ObjectMeta{Name: name, UID: uid(name)},
				Spec:       schedulingv1alpha1.ReservationSpec{Template: &corev1.PodTemplateSpec{}, AllocatePolicy: policy},
				Status:     schedulingv1alpha1.ReservationStatus{Phase: schedulingv1alpha1.ReservationAvailable, NodeName: c07Node},
			}
			alloc := apiext.DeviceAllocations{d.Type: {{Minor: int32(d.Minor), Resources: res}}}
			if err := apiext.SetDeviceAllocations(r, alloc); err != nil {
				t.Fatalf("cannot annotate reservation: %v", err)
			}
			reservePod := reservationutil.NewReservePod(r)
			w.cache.onPodAdd(reservePod)
			rv := &c07Resv{Name: name, Policy: policy, Pod: reservePod, RInfo: frameworkext.NewReservationInfo(r), Flat: c07AllocFlat(alloc)}
			resvs[name] = rv
			w.live[reservePod.Name] = &c07Live{Name: reservePod.Name, Sched: reservePod, Bound: reservePod, Alloc: alloc, Flat: rv.Flat, Requested: map[string]bool{}}
			sawRestricted = sawRestricted || policy == schedulingv1alpha1.ReservationAllocatePolicyRestricted
			note(fmt.Sprintf("reservation %s (%s) reserves %s", name, policy, c07AllocStr(alloc)))
		}

		for i, n := 0, rapid.IntRange(0, 3).Draw(t, "residents"); i < n; i++ {
			name := fmt.Sprintf("r%d", i)
			if desc, ok := w.addResident(t, name); ok {
				w.live[name].Bound.UID = uid(name)
				real[name] = true
				note("resident " + desc)
			}
		}
		for i, n := 0, rapid.IntRange(1, 3).Draw(t, "reservations"); i < n; i++ {
			addReservation(t)
		}

		t.Repeat(map[string]func(*rapid.T){
			"schedule": func(t *rapid.T) {
				if dead {
					return
				}
				// which reservations the pod is an owner of (decided by owner selectors in a real cluster)
				var matched, unmatched []*c07Resv
				// once a reservation has spilled, look at it again often: as its next owner, or as a pod it does not serve
				focus, focusOwner := "", false
				var spilledNames []string
				for _, n := range resvNames() {
					if spilled(resvs[n]) {
						spilledNames = append(spilledNames, n)
					}
				}
				if len(spilledNames) > 0 && rapid.Bool().Draw(t, "focusSpilled") {
					focus = rapid.SampledFrom(spilledNames).Draw(t, "focus")
					focusOwner = rapid.Bool().Draw(t, "focusAsOwner")
				}
				for _, n := range resvNames() {
					if n == focus {
						if focusOwner {
							matched = append(matched, resvs[n])
						} else {
							unmatched = append(unmatched, resvs[n])
						}
						continue
					}
					if rapid.Bool().Draw(t, "ownerOf"+n) {
						matched = append(matched, resvs[n])
					} else {
						unmatched = append(unmatched, resvs[n])
					}
				}
				// the request: mostly a part of one device, aimed at the reserved amount and at reserved+free of a reservation's device
				var req c07Request
				if all := append(append([]*c07Resv{}, matched...), unmatched...); len(all) > 0 && rapid.IntRange(0, 4).Draw(t, "aimAtReservation") > 0 {
					rv := all[rapid.IntRange(0, len(all)-1).Draw(t, "aimed")]
					if focus != "" {
						rv = resvs[focus]
					}
					var key string
					for _, k := range c07Keys(rv.Flat) {
						if strings.HasSuffix(k, "/"+string(apiext.ResourceGPUMemoryRatio)) || !strings.HasPrefix(k, "gpu/") {
							key = k
						}
					}
					parts := strings.SplitN(key, "/", 3)
					reserved := rv.Flat[key]
					nodeFree := w.modelTotal()[key] - w.modelUsed()[key]
					if nodeFree < 0 {
						nodeFree = 0
					}
					v := reserved
					switch rapid.IntRange(0, 7).Draw(t, "amountKind") {
					case 0:
					case 1:
						v = reserved + nodeFree
					case 2:
						v = reserved + nodeFree + 1
					case 3:
						v = reserved + (nodeFree+1)/2
					case 4:
						v = reserved + 1
					case 5:
						v = (reserved + 1) / 2
					default:
						v = rapid.Int64Range(1, 100).Draw(t, "amount")
					}
					if v < 1 {
						v = 1
					}
					if v > 100 {
						v = 100
					}
					req = c07PartRequest(schedulingv1alpha1.DeviceType(parts[0]), v)
				} else {
					req = c07GenRequest(t, w.hints(), 0)
				}
				name := fmt.Sprintf("p%d", w.nextPod)
				w.nextPod++
				pod := c07NewPod(name, req.Pod)
				pod.UID = uid(name)
				var mNames []string
				var mInfos, uInfos []*frameworkext.ReservationInfo
				for _, rv := range matched {
					mNames = append(mNames, rv.Name)
					mInfos = append(mInfos, rv.RInfo)
				}
				for _, rv := range unmatched {
					uInfos = append(uInfos, rv.RInfo)
				}
				tag := fmt.Sprintf("schedule %s [%s] owner-of=%v", name, req.Desc, mNames)
				for _, rv := range matched {
					sawOwnerAttemptAfterSpill = sawOwnerAttemptAfterSpill || spilled(rv)
				}
				for _, rv := range unmatched {
					sawOtherAttemptAfterSpill = sawOtherAttemptAfterSpill || spilled(rv)
				}
				cs := framework.NewCycleState()
				if _, st := pl.PreFilter(bg, cs, pod, nil); !st.IsSuccess() {
					c.Class("request-rejected-before-allocation")
					return
				}
				if st := pl.PreRestoreReservation(bg, cs, pod); !st.IsSuccess() {
					t.Fatalf("PreRestoreReservation: %v; %s", st.Message(), ctx())
				}
				nodeState, st := pl.RestoreReservation(bg, cs, pod, mInfos, uInfos, nodeInfo)
				if !st.IsSuccess() {
					t.Fatalf("RestoreReservation: %v; %s", st.Message(), ctx())
				}
				if st := pl.FinalRestoreReservation(bg, cs, pod, frameworkext.NodeReservationRestoreStates{c07Node: nodeState}); !st.IsSuccess() {
					t.Fatalf("FinalRestoreReservation: %v; %s", st.Message(), ctx())
				}
				if st := pl.Filter(bg, cs, pod, nodeInfo); !st.IsSuccess() {
					noteMsg(tag+": Filter refused", c07Status(st))
					sawRefused = true
					return
				}
				// the reservation plugin nominates the first matched reservation that can serve the pod on this node, or none
				var nominated *c07Resv
				for _, rv := range matched {
					if pl.FilterNominateReservation(bg, cs, pod, rv.RInfo, c07Node).IsSuccess() {
						nominated = rv
						break
					}
				}
				nominator := pl.handle.GetReservationNominator()
				if nominated != nil {
					nominator.AddNominatedReservation(pod, c07Node, nominated.RInfo)
					tag += " nominated=" + nominated.Name
				} else if len(matched) > 0 {
					sawNoNomination = true
				}
				st = c07Reserve(pl, cs, pod)
				nominator.RemoveNominatedReservations(pod)
				if !st.IsSuccess() {
					pl.Unreserve(bg, cs, pod, c07Node)
					noteMsg(tag+": Reserve refused", c07Status(st))
					sawRefused = true
					return
				}
				state, _ := getPreFilterState(cs)
				if state == nil || state.allocationResult == nil {
					t.Fatalf("Reserve succeeded without an allocation result; %s", ctx())
				}
				result := state.allocationResult
				note(tag + " -> " + c07AllocStr(result))
				bound, err := c07Bind(pod, result)
				if err != nil {
					t.Fatalf("cannot annotate pod: %v", err)
				}
				p := &c07Live{Name: name, Sched: pod, Bound: bound, Alloc: result, Flat: c07AllocFlat(result), Requested: c07Requested(req)}
				w.live[name] = p
				real[name] = true
				// which shape is this commit in (before the pod itself is counted as an owner)
				ownerAfterSpill, otherOnSpilled := false, false
				for _, n := range resvNames() {
					if !spilled(resvs[n]) {
						continue
					}
					for k := range resvs[n].Flat {
						if p.Flat[k] > 0 {
							if nominated != nil && nominated.Name == n {
								ownerAfterSpill = true
							} else {
								otherOnSpilled = true
							}
						}
					}
				}
				sawOwnerAfterSpill = sawOwnerAfterSpill || ownerAfterSpill
				sawNonOwnerAfterSpill = sawNonOwnerAfterSpill || otherOnSpilled
				sigSuffix = ""
				switch {
				case otherOnSpilled:
					sigSuffix = ":on-device-of-spilled-reservation-not-nominated"
				case ownerAfterSpill:
					sigSuffix = ":owner-of-spilled-reservation"
				}
				if nominated != nil {
					nominated.RInfo.AddAssignedPod(bound)
					ownerOf[name] = nominated.Name
					sawOwner = true
					sawSpill = sawSpill || spilled(nominated)
				}
				if rapid.Bool().Draw(t, "bindEvent") {
					w.cache.onPodUpdate(pod, bound)
				}
				// count, distinct devices and recorded amounts as for every allocation
				for _, dt := range c07Types {
					per, ok := req.Per[dt]
					if !ok {
						continue
					}
					if len(result[dt]) != req.Count[dt] {
						if c.Violation(t, "alloc:wrong-device-count", "request [%s] asks %d %s device(s), allocation has %d: %s; %s", req.Desc, req.Count[dt], dt, len(result[dt]), c07AllocStr(result), ctx()) {
							dead = true
							return
						}
					}
					seen := map[int32]bool{}
					for _, a := range result[dt] {
						if seen[a.Minor] {
							if c.Violation(t, "alloc:duplicate-device", "request [%s]: %s minor %d handed out twice: %s; %s", req.Desc, dt, a.Minor, c07AllocStr(result), ctx()) {
								dead = true
								return
							}
						}
						seen[a.Minor] = true
						for _, rn := range c07SortedNames(per) {
							if q := a.Resources[rn]; q.Value() < per[rn] {
								if c.Violation(t, "alloc:amount-below-request", "request [%s] needs %s=%d per device, allocation on %s minor %d records %d; %s", req.Desc, rn, per[rn], dt, a.Minor, q.Value(), ctx()) {
									dead = true
									return
								}
							}
						}
					}
				}
				// the devices it was given must have had that much really free: afterwards real pods do not hold more than the total there
				touched := c07Flat{}
				for k, v := range p.Flat {
					parts := strings.SplitN(k, "/", 3)
					if p.Requested[parts[0]+"/"+parts[2]] {
						touched[k] = v
					}
				}
				if checkReal(t, touched, "after Reserve of "+name) {
					dead = true
				}
				sigSuffix = ""
			},
			"resident": func(t *rapid.T) {
				if dead {
					return
				}
				name := fmt.Sprintf("p%d", w.nextPod)
				w.nextPod++
				if desc, ok := w.addResident(t, name); ok {
					w.live[name].Bound.UID = uid(name)
					real[name] = true
					note("podAdd (bound elsewhere) " + desc)
				}
			},
			"deletePod": func(t *rapid.T) {
				if dead {
					return
				}
				if len(real) == 0 {
					t.Skip("no live pod")
				}
				p := w.live[rapid.SampledFrom(realNames()).Draw(t, "pod")]
				tomb := rapid.Bool().Draw(t, "tombstone")
				w.cache.onPodDelete(c07DeleteEvent(p.Bound, tomb))
				sawTombstone = sawTombstone || tomb
				if rn, ok := ownerOf[p.Name]; ok {
					if rv := resvs[rn]; rv != nil {
						rv.RInfo.RemoveAssignedPod(p.Bound)
					}
					delete(ownerOf, p.Name)
				}
				delete(w.live, p.Name)
				delete(real, p.Name)
				note(fmt.Sprintf("podDelete %s tombstone=%v", p.Name, tomb))
			},
			"deleteReservation": func(t *rapid.T) {
				if dead {
					return
				}
				if len(resvs) == 0 {
					t.Skip("no reservation")
				}
				rv := resvs[rapid.SampledFrom(resvNames()).Draw(t, "reservation")]
				tomb := rapid.Bool().Draw(t, "tombstone")
				w.cache.onPodDelete(c07DeleteEvent(rv.Pod, tomb)) // the reservation handler unwraps its own tombstone; the pod one may still arrive wrapped
				sawTombstone = sawTombstone || tomb
				delete(w.live, rv.Pod.Name)
				delete(resvs, rv.Name)
				for pn, rn := range ownerOf {
					if rn == rv.Name {
						delete(ownerOf, pn) // the owners live on as ordinary pods
					}
				}
				sawResvDeleted = true
				note("reservation " + rv.Name + " deleted")
			},
			"addReservation": func(t *rapid.T) {
				if dead {
					return
				}
				if len(resvs) >= 3 {
					t.Skip("enough reservations")
				}
				addReservation(t)
			},
			"refresh": func(t *rapid.T) {
				if dead {
					return
				}
				kinds := []string{"same", "recover"}
				if allowLoss {
					kinds = append(kinds, "unhealthy")
				}
				kind := rapid.SampledFrom(kinds).Draw(t, "refreshKind")
				if kind != "same" {
					var idx []int
					for i, d := range w.inv {
						if d.Health == (kind == "unhealthy") {
							idx = append(idx, i)
						}
					}
					if len(idx) == 0 {
						t.Skip("no such device")
					}
					i := idx[rapid.IntRange(0, len(idx)-1).Draw(t, "dev")]
					w.inv[i].Health = kind == "recover"
					if kind == "unhealthy" {
						capacityHolds = false
					}
				}
				dev := c07BuildDevice(w.inv)
				w.cache.onDeviceUpdate(dev, dev)
				note(fmt.Sprintf("refresh(%s): %s", kind, w.invString()))
			},
			"": func(t *rapid.T) {
				if dead {
					return
				}
				// ledger identities; "used <= total" is not asked of the ledger here because it double counts reserve pod + owners
				if w.checkLedger(c, t, false, ctx) {
					dead = true
					return
				}
				if capacityHolds && checkReal(t, nil, "after the last step") {
					dead = true
				}
			},
		})
		c.ClassIf(sawOwner, "owner-allocated-through-reservation")
		c.ClassIf(sawSpill, "owner-holds-more-than-reserved-on-reserved-device")
		c.ClassIf(sawOwnerAttemptAfterSpill, "owner-of-spilled-reservation-scheduled(attempt)")
		c.ClassIf(sawOtherAttemptAfterSpill, "non-owner-scheduled-while-a-reservation-is-spilled(attempt)")
		c.ClassIf(sawOwnerAfterSpill, "owner-of-same-reservation-served-after-spill")
		c.ClassIf(sawNonOwnerAfterSpill, "other-pod-served-on-spilled-device")
		c.ClassIf(sawNoNomination, "matched-but-no-reservation-nominated")
		c.ClassIf(sawRestricted, "restricted-reservation")
		c.ClassIf(sawResvDeleted, "reservation-deleted")
		c.ClassIf(sawRefused, "some-request-refused")
		c.ClassIf(sawTombstone, "delete-delivered-as-tombstone")
		c.ClassIf(capacityHolds, "no-capacity-loss(real pods <= total asserted throughout)")
		if sawSpill || (sawOwner && len(hist) >= 6) {
			c.NonTrivial(fp)
		}
		c.Sample(map[string]any{"history": hist})
	})
}

func c07MainResource(dt schedulingv1alpha1.DeviceType) corev1.ResourceName {
	if dt == schedulingv1alpha1.GPU {
		return apiext.ResourceGPUMemoryRatio
	}
	return c07TypeResource(dt)
}
