//go:build verif

// C07, third unit: histories driven through the scheduler-facing entry points of the plugin (PreFilter / Filter /
// PreFilterExtensions.RemovePod+AddPod / Reserve / Unreserve) interleaved with informer events, with the same ledger
// oracle (c07World.checkLedger) evaluated on the live cache after every step and the same allocation oracle
// (c07World.checkAllocation) evaluated at the moment of the commit (Reserve), against the model's free amounts.
//
// Shapes this unit adds to the plain cache history of c07_device_test.go:
//   - preemption dry runs: clone the cycle state, RemovePod for a sequence of victims, Filter, reprieve with AddPod —
//     a read-only computation after which the books of the live cache must balance exactly as before;
//   - pods with a designated allocation (device-allocated annotation + DeviceShare scheduling hint) and cache-changing
//     events (another pod bound by someone else, a device lost, a pod deleted) between Filter and Reserve: what Reserve
//     commits must have been free when it was committed;
//   - Reserve -> informer shows the pod bound -> Unreserve (Bind failed client-side but was persisted) -> ordinary
//     updates of the bound pod: a live bound pod must be accounted after its next informer event.
package deviceshare

import (
	"context"
	"fmt"
	"strings"
	"testing"

	corev1 "k8s.io/api/core/v1"
	fwktype "k8s.io/kube-scheduler/framework"
	"k8s.io/kubernetes/pkg/scheduler/framework"
	"pgregory.net/rapid"

	apiext "github.com/koordinator-sh/koordinator/apis/extension"
	schedulingv1alpha1 "github.com/koordinator-sh/koordinator/apis/scheduling/v1alpha1"
	"github.com/koordinator-sh/koordinator/pkg/scheduler/frameworkext/hinter"
	"github.com/koordinator-sh/koordinator/pkg/scheduler/frameworkext/schedulingphase"
	"github.com/koordinator-sh/koordinator/pkg/verifkit/vk"
)

// c07NewPlugin builds one Plugin (framework handle, fake reservation cache/nominator) for the whole test function; every
// case works on a copy of it with a fresh nodeDeviceCache. No informer is started; the GC goroutine New starts is stopped.
func c07NewPlugin(t *testing.T) *Plugin {
	node := &corev1.Node{}
	node.Name = c07Node
	suit := newPluginTestSuit(t, []*corev1.Node{node})
	ctx, cancel := context.WithCancel(context.Background())
	p, err := suit.proxyNew(ctx, getDefaultArgs(), suit.Framework)
	cancel()
	if err != nil {
		t.Fatalf("cannot build the plugin: %v", err)
	}
	return p.(*Plugin)
}

// addResident lets the informer deliver a running pod that holds a slice of one device (constructed to fit on both
// memory views), as after a scheduler restart. Returns false when nothing was added.
func (w *c07World) addResident(t *rapid.T, name string) (string, bool) {
	if len(w.inv) == 0 {
		return "", false
	}
	d := w.inv[rapid.IntRange(0, len(w.inv)-1).Draw(t, "residentDev")]
	if !d.Health {
		return "", false
	}
	free := c07Free(w.modelTotal(), w.modelUsed())
	take := func(rn corev1.ResourceName) int64 {
		f := free[c07Key(d.Type, d.Minor, rn)]
		if f <= 0 {
			return 0
		}
		switch rapid.IntRange(0, 4).Draw(t, "takeKind") {
		case 0:
			return f
		case 1:
			return (f + 1) / 2
		case 2:
			return (f + 3) / 4
		default:
			return rapid.Int64Range(1, f).Draw(t, "take")
		}
	}
	res := corev1.ResourceList{}
	requested := map[string]bool{}
	if d.Type == schedulingv1alpha1.GPU {
		total := d.Res[apiext.ResourceGPUMemory]
		if total <= 0 {
			return "", false
		}
		core := take(apiext.ResourceGPUCore)
		var ratio, mem int64
		if w.memMode == 1 || (w.memMode == 2 && rapid.Bool().Draw(t, "residentBytes")) {
			if mem = take(apiext.ResourceGPUMemory); mem == 0 {
				return "", false
			}
			ratio = int64(float64(mem) / float64(total) * 100)
		} else {
			if ratio = take(apiext.ResourceGPUMemoryRatio); ratio == 0 {
				return "", false
			}
			mem = ratio * total / 100
		}
		if ratio > free[c07Key(d.Type, d.Minor, apiext.ResourceGPUMemoryRatio)] || mem > free[c07Key(d.Type, d.Minor, apiext.ResourceGPUMemory)] {
			return "", false
		}
		if core > 0 && rapid.Bool().Draw(t, "residentCore") {
			res[apiext.ResourceGPUCore] = c07Quantity(apiext.ResourceGPUCore, core)
		}
		res[apiext.ResourceGPUMemoryRatio] = c07Quantity(apiext.ResourceGPUMemoryRatio, ratio)
		res[apiext.ResourceGPUMemory] = c07Quantity(apiext.ResourceGPUMemory, mem)
		requested["gpu/"+string(apiext.ResourceGPUCore)] = true
		if ratio*total/100 == mem {
			requested["gpu/"+string(apiext.ResourceGPUMemoryRatio)] = true // asked as a ratio; bytes truncated as fillGPUTotalMem records them
		} else {
			requested["gpu/"+string(apiext.ResourceGPUMemory)] = true // asked in bytes
		}
	} else {
		rn := c07TypeResource(d.Type)
		v := take(rn)
		if v == 0 {
			return "", false
		}
		res[rn] = c07Quantity(rn, v)
		requested[string(d.Type)+"/"+string(rn)] = true
	}
	alloc := apiext.DeviceAllocations{d.Type: {{Minor: int32(d.Minor), Resources: res}}}
	pod := c07NewPod(name, nil)
	bound, err := c07Bind(pod, alloc)
	if err != nil {
		t.Fatalf("cannot annotate pod: %v", err)
	}
	bound.Status.Phase = corev1.PodRunning
	w.cache.onPodAdd(bound)
	w.live[name] = &c07Live{Name: name, Sched: pod, Bound: bound, Alloc: alloc, Flat: c07AllocFlat(alloc), Requested: requested}
	return name + ": " + c07AllocStr(alloc), true
}

// c07RestrictToDesignated: a pod with a designated allocation may only use the designated devices, and of each at most
// the designated amount; for the device types it designates, everything else counts as not available.
func c07RestrictToDesignated(free c07Flat, desig apiext.DeviceAllocations) c07Flat {
	if desig == nil {
		return free
	}
	want := c07AllocFlat(desig)
	out := c07Flat{}
	for k, v := range free {
		dt := schedulingv1alpha1.DeviceType(strings.SplitN(k, "/", 3)[0])
		if _, designated := desig[dt]; !designated {
			out[k] = v
			continue
		}
		if d := want[k]; d > 0 {
			if d < v {
				v = d
			}
			out[k] = v
		}
	}
	return out
}

// c07Reserve calls Reserve the way the framework extender does (RunReservePluginsReserve records the phase in the cycle
// state around the Reserve calls of the plugins).
func c07Reserve(pl *Plugin, cs fwktype.CycleState, pod *corev1.Pod) *fwktype.Status {
	schedulingphase.RecordPhase(cs, schedulingphase.Reserve)
	defer schedulingphase.RecordPhase(cs, "")
	return pl.Reserve(context.Background(), cs, pod, c07Node)
}

func c07Status(st *fwktype.Status) string {
	if st.IsSuccess() {
		return "ok"
	}
	return strings.Join(st.Reasons(), "|")
}

func TestVerifC07PluginHistory(t *testing.T) {
	c07Silence()
	base := c07NewPlugin(t)
	rec := vk.New(t, "C07", "pluginHistory")
	rapid.Check(t, func(t *rapid.T) {
		c := rec.Begin()
		defer c.End()
		w := c07NewWorld(t)
		plugin := *base
		pl := &plugin
		pl.nodeDeviceCache = w.cache
		pl.scorer = w.scorer
		nodeInfo := framework.NewNodeInfo()
		nodeInfo.SetNode(w.node)
		bg := context.Background()
		allowLoss := rapid.Bool().Draw(t, "allowCapacityLoss")

		var hist, fp []string
		note := func(e string) { hist, fp = append(hist, e), append(fp, e) }
		noteMsg := func(e, msg string) { hist, fp = append(hist, e+c07Msg(msg)), append(fp, e) }
		note("inventory: " + w.invString())
		ctx := func() string { return "history=[" + strings.Join(hist, " ; ") + "]" }
		for i, n := 0, rapid.IntRange(0, 6).Draw(t, "residents"); i < n; i++ {
			if desc, ok := w.addResident(t, fmt.Sprintf("r%d", i)); ok {
				note("resident " + desc)
			}
		}

		dead := false
		capacityHolds := true
		cycles := map[string]fwktype.CycleState{} // pods committed by Reserve whose scheduling cycle can still be rolled back
		delivered := map[string]bool{}            // the informer has shown the pod bound
		var sawDryRun, sawDryRun3, sawAliasShape, sawDesignated, sawDesignatedInterleaved, sawInterleaved, sawReserveRefusedAfterFilter, sawBindFailed, sawServed, sawRefused, sawTombstone, sawAnnotationDropped bool

		// an event that changes the cache, delivered between Filter and Reserve of somebody else's cycle
		interleave := func(t *rapid.T, sameAs c07Request, victimOf apiext.DeviceAllocations) (string, bool) {
			kinds := []string{"otherPodSameRequest", "otherPod", "deletePod"}
			if allowLoss {
				kinds = append(kinds, "deviceLost", "deviceLost")
			}
			switch kind := rapid.SampledFrom(kinds).Draw(t, "interleaved"); kind {
			case "otherPodSameRequest", "otherPod":
				req := sameAs
				if kind == "otherPod" {
					req = c07GenRequest(t, w.hints(), w.memMode)
				}
				name := fmt.Sprintf("o%d", w.nextPod)
				w.nextPod++
				pod := c07NewPod(name, req.Pod)
				free := c07Free(w.modelTotal(), w.modelUsed())
				result, msg := w.tryAllocate(pod, true)
				noteMsg(fmt.Sprintf("  meanwhile: another scheduler places %s [%s] -> %s", name, req.Desc, c07AllocStr(result)), msg)
				if w.checkAllocation(c, t, req, free, result, msg, ctx) {
					return kind, true
				}
				if result == nil {
					return kind + "(refused)", false
				}
				bound, err := c07Bind(pod, result)
				if err != nil {
					t.Fatalf("cannot annotate pod: %v", err)
				}
				bound.Status.Phase = corev1.PodRunning
				w.cache.onPodAdd(bound)
				w.live[name] = &c07Live{Name: name, Sched: pod, Bound: bound, Alloc: result, Flat: c07AllocFlat(result), Requested: c07Requested(req)}
				delivered[name] = true
				return kind, false
			case "deletePod":
				if len(w.live) == 0 {
					return "nothing", false
				}
				p := w.live[rapid.SampledFrom(w.liveNames()).Draw(t, "deleted")]
				tomb := rapid.Bool().Draw(t, "tombstone")
				w.cache.onPodDelete(c07DeleteEvent(p.Bound, tomb))
				sawTombstone = sawTombstone || tomb
				delete(w.live, p.Name)
				delete(cycles, p.Name)
				note(fmt.Sprintf("  meanwhile: podDelete %s tombstone=%v", p.Name, tomb))
				return kind, false
			default: // a device goes away or turns unhealthy; prefer one the pending pod was going to use
				var idx []int
				for i, d := range w.inv {
					for _, a := range victimOf[d.Type] {
						if int(a.Minor) == d.Minor && d.Health {
							idx = append(idx, i)
						}
					}
				}
				if len(idx) == 0 || rapid.IntRange(0, 3).Draw(t, "anyDevice") == 0 {
					idx = idx[:0]
					for i, d := range w.inv {
						if d.Health {
							idx = append(idx, i)
						}
					}
				}
				if len(idx) == 0 {
					return "nothing", false
				}
				i := idx[rapid.IntRange(0, len(idx)-1).Draw(t, "lostDev")]
				if rapid.Bool().Draw(t, "removed") {
					w.inv = append(append([]c07Dev{}, w.inv[:i]...), w.inv[i+1:]...)
				} else {
					w.inv[i].Health = false
				}
				dev := c07BuildDevice(w.inv)
				w.cache.onDeviceUpdate(dev, dev)
				w.invalidated = false
				capacityHolds = false
				note("  meanwhile: refresh(device lost): " + w.invString())
				return kind, false
			}
		}

		t.Repeat(map[string]func(*rapid.T){
			// one scheduling cycle of an ordinary pod or of a pod with a designated allocation
			"schedule": func(t *rapid.T) {
				if dead {
					return
				}
				name := fmt.Sprintf("p%d", w.nextPod)
				w.nextPod++
				req := c07GenRequest(t, w.hints(), w.memMode)
				pod := c07NewPod(name, req.Pod)
				cs := framework.NewCycleState()
				var desig apiext.DeviceAllocations
				if rapid.Bool().Draw(t, "designated") {
					// the allocation an earlier attempt worked out, recorded on the pod and honoured through the scheduling hint
					if desig, _ = w.tryAllocate(pod, true); desig != nil {
						if err := apiext.SetDeviceAllocations(pod, desig); err != nil {
							t.Fatalf("cannot annotate pod: %v", err)
						}
						hinter.SetSchedulingHintState(cs, &hinter.SchedulingHintStateData{Extensions: map[string]interface{}{Name: nil}})
						sawDesignated = true
					}
				}
				tag := "schedule " + name + " [" + req.Desc + "]"
				if desig != nil {
					tag += " designated " + c07AllocStr(desig)
				}
				if _, st := pl.PreFilter(bg, cs, pod, nil); !st.IsSuccess() {
					noteMsg(tag+": PreFilter rejected", c07Status(st))
					c.Class("request-rejected-before-allocation")
					return
				}
				freeAtFilter := c07RestrictToDesignated(c07Free(w.modelTotal(), w.modelUsed()), desig)
				if st := pl.Filter(bg, cs, pod, nodeInfo); !st.IsSuccess() {
					noteMsg(tag+": Filter refused", c07Status(st))
					sawRefused = true
					if w.checkAllocation(c, t, req, freeAtFilter, nil, "Filter: "+c07Status(st), ctx) {
						dead = true
					}
					return
				}
				note(tag + ": Filter ok")
				interleaved := false
				if rapid.IntRange(0, 2).Draw(t, "interleave") > 0 {
					kind, abandon := interleave(t, req, desig)
					if abandon {
						dead = true
						return
					}
					interleaved = kind != "nothing"
					sawInterleaved = sawInterleaved || interleaved
					sawDesignatedInterleaved = sawDesignatedInterleaved || (interleaved && desig != nil)
				}
				free := c07RestrictToDesignated(c07Free(w.modelTotal(), w.modelUsed()), desig)
				st := c07Reserve(pl, cs, pod)
				if !st.IsSuccess() {
					pl.Unreserve(bg, cs, pod, c07Node) // what the framework does when Reserve fails
					noteMsg("  Reserve "+name+" refused", c07Status(st))
					sawRefused = true
					sawReserveRefusedAfterFilter = sawReserveRefusedAfterFilter || interleaved
					if w.checkAllocation(c, t, req, free, nil, "Reserve: "+c07Status(st), ctx) {
						dead = true
					}
					return
				}
				state, _ := getPreFilterState(cs)
				if state == nil || state.allocationResult == nil {
					t.Fatalf("Reserve succeeded without an allocation result; %s", ctx())
				}
				result := state.allocationResult
				note("  Reserve " + name + " -> " + c07AllocStr(result))
				sawServed = true
				if w.checkAllocation(c, t, req, free, result, "", ctx) {
					dead = true
					return
				}
				bound, err := c07Bind(pod, result)
				if err != nil {
					t.Fatalf("cannot annotate pod: %v", err)
				}
				p := &c07Live{Name: name, Sched: pod, Bound: bound, Alloc: result, Flat: c07AllocFlat(result), Requested: c07Requested(req)}
				w.live[name] = p
				cycles[name] = cs
				if w.checkNotOvercommittedBy(c, t, p, ctx) {
					dead = true
					return
				}
				if rapid.Bool().Draw(t, "bindEvent") {
					w.cache.onPodUpdate(pod, bound)
					delivered[name] = true
					note("  podUpdate unbound->bound " + name)
				}
			},
			// default-preemption style dry run on a clone of the cycle state: read-only for the cache
			"preemptionDryRun": func(t *rapid.T) {
				if dead {
					return
				}
				if len(w.live) == 0 {
					t.Skip("no live pod")
				}
				req := c07GenRequest(t, w.hints(), w.memMode)
				preemptor := c07NewPod(fmt.Sprintf("hp%d", w.nextPod), req.Pod)
				w.nextPod++
				cs := framework.NewCycleState()
				if _, st := pl.PreFilter(bg, cs, preemptor, nil); !st.IsSuccess() {
					c.Class("request-rejected-before-allocation")
					return
				}
				first := pl.Filter(bg, cs, preemptor, nodeInfo)
				order := rapid.Permutation(w.liveNames()).Draw(t, "victimOrder")
				if !rapid.Bool().Draw(t, "allPods") {
					order = order[:rapid.IntRange(1, len(order)).Draw(t, "victims")]
				}
				dry := cs.Clone()
				// does the sequence contain: a victim on a device the merged map does not hold yet (after the first victim of the
				// type), followed by a victim on that same device?
				firstOfType := map[string]bool{}
				seen, fresh := map[string]bool{}, map[string]bool{}
				for _, n := range order {
					v := w.live[n]
					devs := map[string]bool{}
					for k := range v.Flat {
						parts := strings.SplitN(k, "/", 3)
						devs[parts[0]+"/"+parts[1]] = true
					}
					for d := range devs {
						dt := strings.SplitN(d, "/", 2)[0]
						switch {
						case fresh[d]:
							sawAliasShape = true
						case firstOfType[dt] && !seen[d]:
							fresh[d] = true
						}
						seen[d] = true
					}
					for d := range devs {
						firstOfType[strings.SplitN(d, "/", 2)[0]] = true
					}
					podInfo, _ := framework.NewPodInfo(v.Bound)
					if st := pl.RemovePod(bg, dry, preemptor, podInfo, nodeInfo); !st.IsSuccess() {
						t.Fatalf("RemovePod(%s) failed: %v; %s", n, st.Message(), ctx())
					}
				}
				after := pl.Filter(bg, dry, preemptor, nodeInfo)
				reprieved := 0
				if rapid.Bool().Draw(t, "reprieve") {
					for _, n := range order {
						podInfo, _ := framework.NewPodInfo(w.live[n].Bound)
						if st := pl.AddPod(bg, dry, preemptor, podInfo, nodeInfo); !st.IsSuccess() {
							t.Fatalf("AddPod(%s) failed: %v; %s", n, st.Message(), ctx())
						}
						if pl.Filter(bg, dry, preemptor, nodeInfo).IsSuccess() {
							reprieved++
						} else if st := pl.RemovePod(bg, dry, preemptor, podInfo, nodeInfo); !st.IsSuccess() {
							t.Fatalf("RemovePod(%s) failed: %v; %s", n, st.Message(), ctx())
						}
					}
				}
				note(fmt.Sprintf("preemption dry run for [%s]: fits=%v, remove %v -> fits=%v, reprieved %d", req.Desc, first.IsSuccess(), order, after.IsSuccess(), reprieved))
				sawDryRun = true
				sawDryRun3 = sawDryRun3 || len(order) >= 3
			},
			// Reserve committed the pod, the API server persisted the binding and the informer shows it, but Bind returned an
			// error to the scheduler, which rolls the cycle back; the pod lives on and keeps being updated
			"bindFailedButPersisted": func(t *rapid.T) {
				if dead {
					return
				}
				var cands []string
				for _, n := range w.liveNames() {
					if cycles[n] != nil {
						cands = append(cands, n)
					}
				}
				if len(cands) == 0 {
					t.Skip("no pod whose cycle can be rolled back")
				}
				p := w.live[rapid.SampledFrom(cands).Draw(t, "pod")]
				if !delivered[p.Name] {
					w.cache.onPodUpdate(p.Sched, p.Bound)
					delivered[p.Name] = true
					note("podUpdate unbound->bound " + p.Name)
				}
				pl.Unreserve(bg, cycles[p.Name], p.Sched, c07Node)
				delete(cycles, p.Name)
				note("Unreserve " + p.Name + " (Bind failed client-side, pod stays bound)")
				cur := p.Bound
				for i, n := 0, rapid.IntRange(1, 3).Draw(t, "updates"); i < n; i++ {
					next := cur.DeepCopy()
					switch rapid.IntRange(0, 2).Draw(t, "updateKind") {
					case 0:
						note("  podUpdate unchanged (resync) " + p.Name)
					case 1:
						next.Status.Phase = corev1.PodRunning
						next.Status.Message = fmt.Sprint("started ", len(hist))
						note("  podUpdate status " + p.Name)
					default:
						if next.Labels == nil {
							next.Labels = map[string]string{}
						}
						next.Labels["c07/touched"] = fmt.Sprint(len(hist))
						note("  podUpdate labels " + p.Name)
					}
					w.cache.onPodUpdate(cur, next)
					cur = next
				}
				p.Bound = cur // the pod is alive and bound: from its next informer event on it must be accounted again
				sawBindFailed = true
			},
			"release": func(t *rapid.T) {
				if dead {
					return
				}
				if len(w.live) == 0 {
					t.Skip("no live pod")
				}
				p := w.live[rapid.SampledFrom(w.liveNames()).Draw(t, "pod")]
				if cs := cycles[p.Name]; cs != nil && !delivered[p.Name] && rapid.Bool().Draw(t, "viaUnreserve") {
					pl.Unreserve(bg, cs, p.Sched, c07Node)
					note("Unreserve " + p.Name + " (pod never bound)")
				} else if (cycles[p.Name] == nil || delivered[p.Name]) && rapid.IntRange(0, 3).Draw(t, "dropAnnotation") == 0 {
					// the pod stays assigned and running but its device-allocated annotation is removed: it holds nothing any more;
					// status updates and finally the delete follow, all without an allocation
					stripped := c07StripAllocation(p.Bound)
					w.cache.onPodUpdate(p.Bound, stripped)
					note("podUpdate allocation annotation removed " + p.Name)
					if rapid.Bool().Draw(t, "thenStatusUpdate") {
						next := stripped.DeepCopy()
						next.Status.Message = "touched"
						w.cache.onPodUpdate(stripped, next)
						stripped = next
						note("  podUpdate status " + p.Name)
					}
					if rapid.Bool().Draw(t, "thenDelete") {
						w.cache.onPodDelete(c07DeleteEvent(stripped, rapid.Bool().Draw(t, "tombstone")))
						note("  podDelete " + p.Name)
					}
					sawAnnotationDropped = true
				} else {
					tomb := rapid.Bool().Draw(t, "tombstone")
					w.cache.onPodDelete(c07DeleteEvent(p.Bound, tomb))
					sawTombstone = sawTombstone || tomb
					note(fmt.Sprintf("podDelete %s tombstone=%v", p.Name, tomb))
				}
				delete(w.live, p.Name)
				delete(cycles, p.Name)
			},
			"refresh": func(t *rapid.T) {
				if dead {
					return
				}
				kinds := []string{"same", "recover"}
				if allowLoss {
					kinds = append(kinds, "unhealthy", "remove")
				}
				kind := rapid.SampledFrom(kinds).Draw(t, "refreshKind")
				var idx []int
				for i, d := range w.inv {
					if kind == "same" || (kind == "recover" && !d.Health) || (kind == "unhealthy" && d.Health) || kind == "remove" {
						idx = append(idx, i)
					}
				}
				if kind != "same" {
					if len(idx) == 0 {
						t.Skip("no such device")
					}
					i := idx[rapid.IntRange(0, len(idx)-1).Draw(t, "dev")]
					switch kind {
					case "recover":
						w.inv[i].Health = true
					case "unhealthy":
						w.inv[i].Health = false
						capacityHolds = false
					case "remove":
						w.inv = append(append([]c07Dev{}, w.inv[:i]...), w.inv[i+1:]...)
						capacityHolds = false
					}
				}
				dev := c07BuildDevice(w.inv)
				w.cache.onDeviceUpdate(dev, dev)
				note(fmt.Sprintf("refresh(%s): %s", kind, w.invString()))
			},
			"": func(t *rapid.T) {
				if !dead && w.checkLedger(c, t, capacityHolds, ctx) {
					dead = true
				}
			},
		})
		c.ClassIf(sawDryRun, "preemption-dry-run")
		c.ClassIf(sawDryRun3, "dry-run-with>=3-victims")
		c.ClassIf(sawAliasShape, "dry-run:victim-on-new-device-then-victim-sharing-it")
		c.ClassIf(sawDesignated, "designated-allocation")
		c.ClassIf(sawInterleaved, "event-between-filter-and-reserve")
		c.ClassIf(sawDesignatedInterleaved, "designated+event-between-filter-and-reserve")
		c.ClassIf(sawReserveRefusedAfterFilter, "reserve-refused-after-interleaved-event")
		c.ClassIf(sawBindFailed, "unreserve-of-bound-pod-then-updates")
		c.ClassIf(sawTombstone, "delete-delivered-as-tombstone")
		c.ClassIf(sawAnnotationDropped, "update-removes-allocation-annotation-of-live-pod")
		c.ClassIf(sawServed, "some-request-served")
		c.ClassIf(sawRefused, "some-request-refused")
		c.ClassIf(capacityHolds, "no-capacity-loss(used<=total asserted throughout)")
		c.Class(fmt.Sprintf("memMode:%d", w.memMode))
		if sawDryRun3 || sawDesignatedInterleaved || sawBindFailed {
			c.NonTrivial(fp)
		}
		c.Sample(map[string]any{"history": hist})
	})
}
