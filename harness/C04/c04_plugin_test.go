//go:build verif

// C04, second unit — the release path through the Coscheduling plugin (Permit -> AllowGangGroup, Unreserve,
// AfterPostFilter, PostBind as the framework calls them). See /verif/DESIGN.md §1 C04.
//
// The plugin is built around a real core.PodGroupManager. The informer factories handed to NewPodGroupManager are
// thin wrappers that capture the registered event handlers, so the harness delivers pod / PodGroup events
// synchronously (no goroutines, deterministic). The fake framework handle owns the waiting-pod map.
// Compared with the first unit there is no informer lag except for the bind update (before / after PostBind) and
// plain updates ("touch"); what is checked here is the plugin's own decision: which pods leave the permit stage
// (Success returned, or Allow called on a waiting pod) and when waiting members are rejected.
package coscheduling

import (
	"context"
	"encoding/json"
	"fmt"
	"io"
	"sort"
	"strconv"
	"strings"
	"testing"
	"time"

	corev1 "k8s.io/api/core/v1"
	metav1 "k8s.io/apimachinery/pkg/apis/meta/v1"
	"k8s.io/apimachinery/pkg/types"
	"k8s.io/apimachinery/pkg/util/sets"
	"k8s.io/client-go/informers"
	coreinformers "k8s.io/client-go/informers/core"
	corev1informers "k8s.io/client-go/informers/core/v1"
	kubefake "k8s.io/client-go/kubernetes/fake"
	"k8s.io/client-go/tools/cache"
	"k8s.io/klog/v2"
	fwktype "k8s.io/kube-scheduler/framework"
	"k8s.io/kubernetes/pkg/scheduler/framework"
	"pgregory.net/rapid"

	"github.com/koordinator-sh/koordinator/apis/extension"
	"github.com/koordinator-sh/koordinator/apis/thirdparty/scheduler-plugins/pkg/apis/scheduling/v1alpha1"
	fakepgclientset "github.com/koordinator-sh/koordinator/apis/thirdparty/scheduler-plugins/pkg/generated/clientset/versioned/fake"
	pgformers "github.com/koordinator-sh/koordinator/apis/thirdparty/scheduler-plugins/pkg/generated/informers/externalversions"
	pgscheduling "github.com/koordinator-sh/koordinator/apis/thirdparty/scheduler-plugins/pkg/generated/informers/externalversions/scheduling"
	pgschedulingv1alpha1 "github.com/koordinator-sh/koordinator/apis/thirdparty/scheduler-plugins/pkg/generated/informers/externalversions/scheduling/v1alpha1"
	koordfake "github.com/koordinator-sh/koordinator/pkg/client/clientset/versioned/fake"
	koordinatorinformers "github.com/koordinator-sh/koordinator/pkg/client/informers/externalversions"
	"github.com/koordinator-sh/koordinator/pkg/scheduler/apis/config"
	"github.com/koordinator-sh/koordinator/pkg/scheduler/frameworkext"
	frameworkexthelper "github.com/koordinator-sh/koordinator/pkg/scheduler/frameworkext/helper"
	"github.com/koordinator-sh/koordinator/pkg/scheduler/frameworkext/workloadauditor"
	"github.com/koordinator-sh/koordinator/pkg/scheduler/plugins/coscheduling/core"
	"github.com/koordinator-sh/koordinator/pkg/verifkit/vk"
)

// ---------------------------------------------------------------- informer wrappers that capture the handlers

type c04pInformer struct {
	cache.SharedIndexInformer
	handlers []cache.ResourceEventHandler
}

type c04pReg struct{}

func (c04pReg) HasSynced() bool { return true }

func (i *c04pInformer) AddEventHandler(h cache.ResourceEventHandler) (cache.ResourceEventHandlerRegistration, error) {
	i.handlers = append(i.handlers, h)
	return c04pReg{}, nil
}

func (i *c04pInformer) AddEventHandlerWithResyncPeriod(h cache.ResourceEventHandler, _ time.Duration) (cache.ResourceEventHandlerRegistration, error) {
	return i.AddEventHandler(h)
}

type c04pPodFactory struct {
	informers.SharedInformerFactory
	inf *c04pInformer
}

func (f c04pPodFactory) Core() coreinformers.Interface {
	return c04pCore{f.SharedInformerFactory.Core(), f.inf}
}

type c04pCore struct {
	coreinformers.Interface
	inf *c04pInformer
}

func (c c04pCore) V1() corev1informers.Interface { return c04pCoreV1{c.Interface.V1(), c.inf} }

type c04pCoreV1 struct {
	corev1informers.Interface
	inf *c04pInformer
}

func (c c04pCoreV1) Pods() corev1informers.PodInformer { return c04pPods{c.Interface.Pods(), c.inf} }

type c04pPods struct {
	corev1informers.PodInformer
	inf *c04pInformer
}

func (p c04pPods) Informer() cache.SharedIndexInformer {
	if p.inf.SharedIndexInformer == nil {
		p.inf.SharedIndexInformer = p.PodInformer.Informer()
	}
	return p.inf
}

type c04pPGFactory struct {
	pgformers.SharedInformerFactory
	inf *c04pInformer
}

func (f c04pPGFactory) Scheduling() pgscheduling.Interface {
	return c04pPGGroup{f.SharedInformerFactory.Scheduling(), f.inf}
}

type c04pPGGroup struct {
	pgscheduling.Interface
	inf *c04pInformer
}

func (g c04pPGGroup) V1alpha1() pgschedulingv1alpha1.Interface {
	return c04pPGVersion{g.Interface.V1alpha1(), g.inf}
}

type c04pPGVersion struct {
	pgschedulingv1alpha1.Interface
	inf *c04pInformer
}

func (v c04pPGVersion) PodGroups() pgschedulingv1alpha1.PodGroupInformer {
	return c04pPGs{v.Interface.PodGroups(), v.inf}
}

type c04pPGs struct {
	pgschedulingv1alpha1.PodGroupInformer
	inf *c04pInformer
}

func (p c04pPGs) Informer() cache.SharedIndexInformer {
	if p.inf.SharedIndexInformer == nil {
		p.inf.SharedIndexInformer = p.PodGroupInformer.Informer()
	}
	return p.inf
}

// ---------------------------------------------------------------- fake framework handle

const (
	c04pNone = iota
	c04pPending
	c04pWaiting
	c04pBound
)

var c04pStName = []string{"none", "pending", "waiting", "bound"}

const (
	c04pQueue = iota
	c04pParked
	c04pBinding
	c04pPostBindDue
	c04pDone
	c04pGone
)

const (
	c04pDecNone = iota
	c04pDecAllowed
	c04pDecRejected
)

type c04pGang struct {
	idx          int
	ns, name, id string
	crd          bool
	min          int
	mode, policy string
	effMode      string
	effPolicy    string
	groupAnno    string
}

type c04pPod struct {
	idx      int
	name     string
	key      string
	gang     *c04pGang
	ver      int
	node     bool // API object carries spec.nodeName
	sawNode  bool // informer delivered the nodeName
	deleted  bool
	last     *corev1.Pod // last delivered object
	schedObj *corev1.Pod
	phase    int
	decision int
	st       int // reference model
}

type c04pHandle struct {
	frameworkext.ExtendedHandle
	sim *c04pSim
}

func (h *c04pHandle) Scheduler() frameworkext.Scheduler                      { return nil }
func (h *c04pHandle) GetWorkloadAuditor() workloadauditor.WorkloadAuditor { return nil }
func (h *c04pHandle) IterateOverWaitingPods(cb func(fwktype.WaitingPod)) {
	for _, p := range h.sim.pods {
		if p.phase == c04pParked {
			cb(&c04pWaitingPod{p: p, sim: h.sim})
		}
	}
}

type c04pWaitingPod struct {
	p   *c04pPod
	sim *c04pSim
}

func (w *c04pWaitingPod) GetPod() *corev1.Pod         { return w.p.schedObj }
func (w *c04pWaitingPod) GetPendingPlugins() []string { return []string{Name} }
func (w *c04pWaitingPod) Allow(string) {
	if w.p.decision == c04pDecNone {
		w.p.decision = c04pDecAllowed
		w.sim.allowed = append(w.sim.allowed, w.p)
	}
}
func (w *c04pWaitingPod) Reject(string, string) {
	if w.p.decision == c04pDecNone {
		w.p.decision = c04pDecRejected
		w.sim.rejected = append(w.sim.rejected, w.p.name)
	}
}

type c04pSim struct {
	c         *vk.Case
	args      *config.CoschedulingArgs
	cs        *Coscheduling
	podH, pgH cache.ResourceEventHandler
	gangs     []*c04pGang
	pods      []*c04pPod
	once      bool
	hist      []string
	dead      bool
	allowed   []*c04pPod
	rejected  []string

	permitSeen, disturbed, nt bool
	nSuccess                  int
	afterUnreserve            bool
}

func (s *c04pSim) logf(f string, a ...any) { s.hist = append(s.hist, fmt.Sprintf(f, a...)) }

func (s *c04pSim) describe() string {
	var b strings.Builder
	fmt.Fprintf(&b, "defaultPolicy=%s gangs=[", s.args.DefaultMatchPolicy)
	for _, g := range s.gangs {
		fmt.Fprintf(&b, "{%s crd=%v min=%d mode=%q policy=%q groups=%q} ", g.id, g.crd, g.min, g.mode, g.policy, g.groupAnno)
	}
	b.WriteString("] history=[" + strings.Join(s.hist, " | ") + "]")
	return b.String()
}

func (s *c04pSim) violation(t *rapid.T, sig, f string, a ...any) {
	if s.c.Violation(t, sig, "%s ;; %s", fmt.Sprintf(f, a...), s.describe()) {
		s.dead = true
	}
}

var c04pTime = metav1.NewTime(time.Unix(1_600_000_000, 0))

func (p *c04pPod) build() *corev1.Pod {
	g := p.gang
	p.ver++
	pod := &corev1.Pod{ObjectMeta: metav1.ObjectMeta{Name: p.name, Namespace: g.ns, UID: types.UID("uid-" + p.name),
		ResourceVersion: strconv.Itoa(p.ver), CreationTimestamp: c04pTime, Labels: map[string]string{}, Annotations: map[string]string{}}}
	if g.crd {
		pod.Labels[v1alpha1.PodGroupLabel] = g.name
	} else {
		pod.Annotations[extension.AnnotationGangName] = g.name
		pod.Annotations[extension.AnnotationGangMinNum] = strconv.Itoa(g.min)
		if g.mode != "" {
			pod.Annotations[extension.AnnotationGangMode] = g.mode
		}
		if g.policy != "" {
			pod.Annotations[extension.AnnotationGangMatchPolicy] = g.policy
		}
		if g.groupAnno != "" {
			pod.Annotations[extension.AnnotationGangGroups] = g.groupAnno
		}
	}
	if p.node {
		pod.Spec.NodeName = "node-1"
	}
	return pod
}

func (s *c04pSim) counts(g *c04pGang) (w, b, children int) {
	for _, p := range s.pods {
		if p.gang != g {
			continue
		}
		if p.st != c04pNone && !p.deleted {
			children++
		}
		switch p.st {
		case c04pWaiting:
			w++
		case c04pBound:
			b++
		}
	}
	return
}

func (s *c04pSim) gangDefined(g *c04pGang) bool {
	if g.crd {
		return true // PodGroups exist from the start in this unit
	}
	_, _, ch := s.counts(g)
	return ch > 0
}

func (s *c04pSim) satisfied() (bool, string) {
	ok := true
	var parts []string
	for _, g := range s.gangs {
		w, b, _ := s.counts(g)
		sat := false
		if s.gangDefined(g) {
			switch g.effPolicy {
			case extension.GangMatchPolicyOnlyWaiting:
				sat = w >= g.min
			case extension.GangMatchPolicyWaitingAndRunning:
				sat = w+b >= g.min
			default:
				sat = w >= g.min || s.once
			}
		}
		parts = append(parts, fmt.Sprintf("%s:%s min=%d waiting=%d bound=%d sat=%v", g.id, g.effPolicy, g.min, w, b, sat))
		ok = ok && sat
	}
	return ok, strings.Join(parts, "; ")
}

func (s *c04pSim) checkPartition(t *rapid.T) {
	if s.dead {
		return
	}
	sums := s.cs.pgMgr.GetGangSummaries()
	for _, g := range s.gangs {
		sum := sums[g.id]
		if sum != nil {
			for _, key := range c04pSorted(sum.Children) {
				if in := c04pSets(sum, key); len(in) != 1 {
					sig := "partition:member-in-no-set"
					if len(in) > 1 {
						sig = "partition:member-in-several-sets:" + strings.Join(in, "+")
						if s.afterUnreserve {
							sig += ":after-unreserve"
						}
					}
					s.violation(t, sig, "gang %s: member %s is in sets %v", g.id, key, in)
					return
				}
			}
		}
		for _, p := range s.pods {
			if p.gang != g || p.deleted || p.st == c04pNone {
				continue
			}
			if sum == nil || !sum.Children.Has(p.key) {
				s.violation(t, "partition:member-not-a-child", "gang %s: live delivered pod %s is not a child", g.id, p.key)
				return
			}
			if in := c04pSets(sum, p.key); len(in) == 1 && in[0] != c04pStName[p.st] {
				s.violation(t, "partition:wrong-set:model-"+c04pStName[p.st]+"-cache-"+in[0], "gang %s: pod %s must be %s, cache has it in %s", g.id, p.key, c04pStName[p.st], in[0])
				return
			}
		}
	}
}

func c04pSets(sum *core.GangSummary, key string) []string {
	var in []string
	if sum.PendingChildren.Has(key) {
		in = append(in, "pending")
	}
	if sum.WaitingForBindChildren.Has(key) {
		in = append(in, "waiting")
	}
	if sum.BoundChildren.Has(key) {
		in = append(in, "bound")
	}
	return in
}

func c04pSorted(m sets.Set[string]) []string {
	out := m.UnsortedList()
	sort.Strings(out)
	return out
}

// strict-mode expectation, evaluated before the failure reaches the plugin
func (s *c04pSim) expectReject(p *c04pPod) (active bool, undecided []*c04pPod) {
	g := p.gang
	if !s.gangDefined(g) || g.effMode != extension.GangModeStrict {
		return false, nil
	}
	if g.effPolicy == extension.GangMatchPolicyOnceSatisfied && s.once {
		return false, nil
	}
	if p.st == c04pBound {
		// roll-back of a member the cache already knows as bound: not decided by the statement, both behaviours accepted
		s.c.Class("rollback-of-bound-member(strict reject not asserted)")
		return false, nil
	}
	for _, q := range s.pods {
		if q.phase == c04pParked && q.decision == c04pDecNone {
			undecided = append(undecided, q)
		}
	}
	return true, undecided
}

func (s *c04pSim) checkReject(t *rapid.T, active bool, undecided []*c04pPod, what string, p *c04pPod) {
	if s.dead || !active {
		return
	}
	s.c.ClassIf(len(undecided) > 0, "strict-failure-with-waiting-members")
	for _, q := range undecided {
		if q.decision != c04pDecRejected {
			sig := "strict:waiting-member-not-rejected"
			if q.gang != p.gang {
				sig = "strict:waiting-member-of-sibling-gang-not-rejected"
			}
			s.violation(t, sig, "%s of %s (gang %s, strict): waiting pod %s of gang %s was not rejected", what, p.key, p.gang.id, q.key, q.gang.id)
			return
		}
	}
}

// noRelease asserts that an operation which is not a satisfied Permit released nobody from the permit stage.
func (s *c04pSim) noRelease(t *rapid.T, what string) {
	if s.dead || len(s.allowed) == 0 {
		return
	}
	_, detail := s.satisfied()
	s.violation(t, "release:allowed-outside-a-satisfied-permit", "%s allowed waiting pod %s although no Permit had just found the group satisfied [%s]", what, s.allowed[0].key, detail)
}

func (s *c04pSim) unreserve(t *rapid.T, p *c04pPod, why string) {
	active, und := s.expectReject(p)
	s.allowed, s.rejected = nil, nil
	if p.schedObj == nil {
		p.schedObj = p.last.DeepCopy()
		p.schedObj.Spec.NodeName = "node-1"
	}
	s.cs.Unreserve(context.TODO(), framework.NewCycleState(), p.schedObj, "node-1")
	s.logf("unreserve %s (%s) -> rejected %v", p.name, why, s.rejected)
	if p.st == c04pWaiting {
		if p.deleted {
			p.st = c04pNone
		} else {
			p.st = c04pPending
		}
	}
	if p.deleted {
		p.phase = c04pGone
	} else {
		p.phase = c04pQueue
	}
	p.decision, p.schedObj = c04pDecNone, nil
	s.afterUnreserve = true
	if s.permitSeen {
		s.disturbed = true
	}
	s.noRelease(t, "Unreserve("+p.key+")")
	s.checkReject(t, active, und, "unreserve("+why+")", p)
}

func c04pSilence() {
	klog.LogToStderr(false)
	klog.SetOutput(io.Discard)
}

func TestVerifC04PluginRelease(t *testing.T) {
	c04pSilence()
	rec := vk.New(t, "C04", "pluginRelease")
	modes := []string{"", extension.GangModeStrict, extension.GangModeNonStrict}
	policies := []string{"", extension.GangMatchPolicyOnlyWaiting, extension.GangMatchPolicyWaitingAndRunning, extension.GangMatchPolicyOnceSatisfied}
	rapid.Check(t, func(t *rapid.T) {
		c := rec.Begin()
		defer c.End()
		frameworkexthelper.ResetRegistrations()
		s := &c04pSim{c: c}
		defPolicy := rapid.SampledFrom([]string{extension.GangMatchPolicyOnceSatisfied, extension.GangMatchPolicyOnlyWaiting, extension.GangMatchPolicyWaitingAndRunning}).Draw(t, "defaultMatchPolicy")
		s.args = &config.CoschedulingArgs{DefaultTimeout: metav1.Duration{Duration: 3 * time.Hour}, DefaultMatchPolicy: defPolicy}
		h := &c04pHandle{sim: s}
		podInf, pgInf := &c04pInformer{}, &c04pInformer{}
		pgClient := fakepgclientset.NewSimpleClientset()
		pgFactory := c04pPGFactory{pgformers.NewSharedInformerFactory(pgClient, 0), pgInf}
		podFactory := c04pPodFactory{informers.NewSharedInformerFactory(kubefake.NewSimpleClientset(), 0), podInf}
		koordFactory := koordinatorinformers.NewSharedInformerFactory(koordfake.NewSimpleClientset(), 0)
		mgr := core.NewPodGroupManager(h, s.args, pgClient, pgFactory, podFactory, koordFactory)
		if len(podInf.handlers) != 1 || len(pgInf.handlers) != 1 {
			t.Fatalf("harness: expected exactly one captured handler per informer, got pods=%d podgroups=%d", len(podInf.handlers), len(pgInf.handlers))
		}
		s.podH, s.pgH = podInf.handlers[0], pgInf.handlers[0]
		s.cs = &Coscheduling{args: s.args, frameworkHandler: h, pgMgr: mgr}

		// one gang group of 1-3 gangs
		n := rapid.SampledFrom([]int{1, 2, 2, 3}).Draw(t, "gangs")
		var ids []string
		for i := 0; i < n; i++ {
			g := &c04pGang{idx: i, ns: rapid.SampledFrom([]string{"n1", "n2"}).Draw(t, "ns"), name: fmt.Sprintf("g%d", i)}
			g.id = g.ns + "/" + g.name
			g.crd = rapid.Bool().Draw(t, "crd")
			g.min = rapid.SampledFrom([]int{1, 1, 2, 2, 3}).Draw(t, "min")
			g.mode = rapid.SampledFrom(modes).Draw(t, "mode")
			g.policy = rapid.SampledFrom(policies).Draw(t, "policy")
			g.effMode, g.effPolicy = g.mode, g.policy
			if g.effMode == "" {
				g.effMode = extension.GangModeStrict
			}
			if g.effPolicy == "" {
				g.effPolicy = defPolicy
			}
			ids = append(ids, g.id)
			s.gangs = append(s.gangs, g)
		}
		anno := ""
		if n > 1 || rapid.Bool().Draw(t, "annotateSingle") {
			b, _ := json.Marshal(ids)
			anno = string(b)
		}
		for _, g := range s.gangs {
			g.groupAnno = anno
			if g.crd {
				timeout := int32(7200)
				pg := &v1alpha1.PodGroup{ObjectMeta: metav1.ObjectMeta{Name: g.name, Namespace: g.ns, CreationTimestamp: c04pTime, Annotations: map[string]string{}},
					Spec: v1alpha1.PodGroupSpec{MinMember: int32(g.min), ScheduleTimeoutSeconds: &timeout}}
				if g.mode != "" {
					pg.Annotations[extension.AnnotationGangMode] = g.mode
				}
				if g.policy != "" {
					pg.Annotations[extension.AnnotationGangMatchPolicy] = g.policy
				}
				if anno != "" {
					pg.Annotations[extension.AnnotationGangGroups] = anno
				}
				s.pgH.OnAdd(pg, true)
			}
		}
		create := func(g *c04pGang) {
			p := &c04pPod{idx: len(s.pods), gang: g}
			p.name = fmt.Sprintf("p%d", p.idx)
			p.key = g.ns + "/" + p.name
			s.pods = append(s.pods, p)
			p.last = p.build()
			s.podH.OnAdd(p.last, false)
			p.st = c04pPending
			s.logf("create+add %s in %s", p.name, g.id)
		}
		for _, g := range s.gangs {
			for k := rapid.IntRange(0, g.min).Draw(t, "initialPods"); k > 0; k-- {
				create(g)
			}
		}
		pick := func(t *rapid.T, label string, pred func(*c04pPod) bool) *c04pPod {
			var el []*c04pPod
			for _, p := range s.pods {
				if pred(p) {
					el = append(el, p)
				}
			}
			if len(el) == 0 {
				return nil
			}
			return el[rapid.IntRange(0, len(el)-1).Draw(t, label)]
		}
		inQueue := func(p *c04pPod) bool { return p.phase == c04pQueue && !p.deleted }
		binding := func(p *c04pPod) bool {
			return p.phase == c04pBinding || (p.phase == c04pParked && p.decision == c04pDecAllowed)
		}
		update := func(p *c04pPod, why string) {
			obj := p.build()
			s.allowed = nil
			s.podH.OnUpdate(p.last, obj)
			p.last = obj
			if p.node {
				p.sawNode = true
				p.st = c04pBound
				s.once = true
			}
			s.logf("informer update %s (%s) node=%v", p.name, why, p.node)
		}

		step := func(t *rapid.T) {
			if s.dead {
				return
			}
			s.afterUnreserve = false
			switch rapid.SampledFrom([]string{"permit", "permit", "permit", "permit", "create", "bindOK", "bindOK", "postBind", "postBind", "nodeUpdate", "nodeUpdate",
				"timeout", "unreserveRejected", "unreserveRejected", "bindFail", "delete", "touch", "postFilterFail", "reserveFail", "lateBindError"}).Draw(t, "rule") {
			case "create":
				if len(s.pods) < 8 {
					create(s.gangs[rapid.IntRange(0, len(s.gangs)-1).Draw(t, "gang")])
				}
			case "permit":
				p := pick(t, "permitPod", inQueue)
				if p == nil {
					return
				}
				p.schedObj = p.last.DeepCopy()
				p.schedObj.Spec.NodeName = "node-1"
				s.allowed, s.rejected = nil, nil
				status, wait := s.cs.Permit(context.TODO(), framework.NewCycleState(), p.schedObj, "node-1")
				if status.Code() == fwktype.Unschedulable { // gang unknown: the framework rolls back at once
					s.logf("permit %s -> unschedulable (%s)", p.name, status.Message())
					c.Class("permit-gang-not-found")
					s.noRelease(t, "Permit("+p.key+")=Unschedulable")
					if !s.dead {
						s.unreserve(t, p, "permit refused")
					}
					return
				}
				p.st = c04pWaiting
				ok, detail := s.satisfied()
				if s.disturbed && len(s.gangs) >= 2 {
					s.nt = true
				}
				s.permitSeen = true
				switch status.Code() {
				case fwktype.Success:
					s.nSuccess++
					var names []string
					for _, q := range s.allowed {
						names = append(names, q.name)
					}
					s.logf("permit %s -> SUCCESS allowed %v [%s]", p.name, names, detail)
					c.Class("permit-success")
					c.ClassIf(len(s.allowed) > 0, "permit-success-releases-waiting-members")
					if !ok {
						sig := "permit:released-while-group-unsatisfied"
						if s.once {
							sig += ":after-first-bind"
						}
						s.violation(t, sig, "Coscheduling.Permit(%s) = Success but the gang group is not satisfied at that instant: %s", p.key, detail)
						return
					}
					p.phase = c04pBinding
				case fwktype.Wait:
					s.logf("permit %s -> wait %v [%s]", p.name, wait, detail)
					c.Class("permit-wait")
					p.phase, p.decision = c04pParked, c04pDecNone
					s.noRelease(t, "Permit("+p.key+")=Wait")
				default:
					s.violation(t, "permit:unexpected-status", "Coscheduling.Permit(%s) returned %v", p.key, status)
				}
			case "timeout":
				if p := pick(t, "timeoutPod", func(p *c04pPod) bool { return p.phase == c04pParked && p.decision == c04pDecNone }); p != nil {
					p.decision = c04pDecRejected
					s.logf("permit timeout %s", p.name)
				}
			case "unreserveRejected":
				if p := pick(t, "rejectedPod", func(p *c04pPod) bool { return p.phase == c04pParked && p.decision == c04pDecRejected }); p != nil {
					s.unreserve(t, p, "rejected while waiting")
				}
			case "bindFail":
				if p := pick(t, "bindFailPod", binding); p != nil {
					s.unreserve(t, p, "bind failed")
				}
			case "reserveFail":
				if p := pick(t, "reserveFailPod", inQueue); p != nil {
					s.unreserve(t, p, "reserve failed")
				}
			case "postFilterFail":
				if p := pick(t, "unschedulablePod", inQueue); p != nil {
					active, und := s.expectReject(p)
					s.allowed, s.rejected = nil, nil
					s.cs.AfterPostFilter(context.TODO(), framework.NewCycleState(), p.last.DeepCopy(), nil, nil)
					s.logf("afterPostFilter %s -> rejected %v", p.name, s.rejected)
					if s.permitSeen {
						s.disturbed = true
					}
					s.noRelease(t, "AfterPostFilter("+p.key+")")
					s.checkReject(t, active, und, "afterPostFilter", p)
				}
			case "lateBindError":
				// the bind was persisted but the binding cycle ends in an error: Unreserve instead of PostBind
				if p := pick(t, "lateErrorPod", func(p *c04pPod) bool { return p.phase == c04pPostBindDue }); p != nil {
					c.ClassIf(p.sawNode, "unreserve-after-informer-saw-bind")
					c.ClassIf(!p.sawNode, "unreserve-after-bind-before-informer-saw-it")
					s.unreserve(t, p, "error after the bind was persisted")
					if !p.deleted {
						p.phase = c04pDone
					}
				}
			case "bindOK":
				if p := pick(t, "bindPod", func(p *c04pPod) bool { return binding(p) && !p.deleted }); p != nil {
					p.node, p.phase = true, c04pPostBindDue
					s.logf("bind ok %s", p.name)
				}
			case "postBind":
				if p := pick(t, "postBindPod", func(p *c04pPod) bool { return p.phase == c04pPostBindDue }); p != nil {
					s.allowed = nil
					s.cs.PostBind(context.TODO(), framework.NewCycleState(), p.schedObj, "node-1")
					p.st, p.phase = c04pBound, c04pDone
					s.once = true
					s.logf("postBind %s", p.name)
					s.noRelease(t, "PostBind("+p.key+")")
				}
			case "nodeUpdate":
				if p := pick(t, "nodeUpdatePod", func(p *c04pPod) bool { return p.node && !p.sawNode && !p.deleted }); p != nil {
					update(p, "bind")
					s.noRelease(t, "pod update")
				}
			case "touch":
				// an update that does not (yet) carry the nodeName: only while the informer has not seen the bind
				if p := pick(t, "touchPod", func(p *c04pPod) bool { return !p.deleted && !p.sawNode }); p != nil {
					node := p.node
					p.node = false
					stale := p.st == c04pBound
					update(p, "touch")
					p.node = node
					c.ClassIf(stale, "stale-update-after-postbind")
					s.noRelease(t, "pod update")
				}
			case "delete":
				// the informer delete and the framework's own reaction (reject a waiting pod) happen together here
				if p := pick(t, "deletePod", func(p *c04pPod) bool { return !p.deleted && p.phase != c04pPostBindDue }); p != nil {
					s.allowed = nil
					s.podH.OnDelete(p.last)
					p.deleted, p.st = true, c04pNone
					if p.phase == c04pParked && p.decision == c04pDecNone {
						p.decision = c04pDecRejected
					}
					if p.phase == c04pQueue {
						p.phase = c04pGone
					}
					if !p.gang.crd { // an annotation gang disappears with its last member
						if _, _, ch := s.counts(p.gang); ch == 0 {
							for _, q := range s.pods {
								if q.gang == p.gang {
									q.st = c04pNone
								}
							}
						}
					}
					if s.permitSeen {
						s.disturbed = true
					}
					s.logf("delete %s", p.name)
					s.noRelease(t, "pod delete")
				}
			}
		}
		t.Repeat(map[string]func(*rapid.T){
			"step": step,
			"":     func(t *rapid.T) { s.checkPartition(t) },
		})
		c.ClassIf(len(s.gangs) >= 2, "multi-gang-group")
		c.ClassIf(s.nSuccess >= 2, "successes>=2")
		for _, g := range s.gangs {
			c.ClassIf(g.crd, "crd-gang")
			c.Class("policy:" + g.effPolicy)
		}
		if s.nt {
			c.NonTrivial(s.describe())
		}
		if c.WantSample() {
			c.Sample(map[string]any{"setup": strings.SplitN(s.describe(), " history=", 2)[0], "history": s.hist})
		}
	})
}
