//go:build verif

// C04 — Gang scheduling is all-or-nothing across the whole gang group.
// See /verif/DESIGN.md §1 C04. In-package harness (injected with -overlay).
//
// The harness plays the scheduler framework and the informers around a real GangCache / PodGroupManager:
//   * an "API server" truth per pod (versions, the version at which spec.nodeName appeared, deleted),
//   * an informer that delivers those versions to the gang cache in order, with arbitrary lag, re-lists
//     (skipped versions) and resyncs (old == new),
//   * the scheduling framework: Permit (scheduling cycle), the waiting-pod map owned by a fake handle
//     (first Allow/Reject wins, the entry stays until the binding goroutine picks it up), timeouts,
//     bind success / failure, Unreserve, PostBind, AfterPostFilter, the framework's own reaction to a deleted pod.
//
// A reference model keeps, from the events alone, what a correct cache must hold for every pod
// (pending / waiting / bound) and evaluates the all-or-nothing rule at the instant Permit returns.
package core

import (
	"context"
	"encoding/json"
	"fmt"
	"io"
	"os"
	"sort"
	"strconv"
	"strings"
	"testing"
	"time"

	corev1 "k8s.io/api/core/v1"
	metav1 "k8s.io/apimachinery/pkg/apis/meta/v1"
	"k8s.io/apimachinery/pkg/types"
	"k8s.io/apimachinery/pkg/util/sets"
	"k8s.io/client-go/tools/cache"
	"k8s.io/klog/v2"
	fwktype "k8s.io/kube-scheduler/framework"
	"k8s.io/kubernetes/pkg/scheduler/framework"
	"pgregory.net/rapid"

	"github.com/koordinator-sh/koordinator/apis/extension"
	"github.com/koordinator-sh/koordinator/apis/thirdparty/scheduler-plugins/pkg/apis/scheduling/v1alpha1"
	"github.com/koordinator-sh/koordinator/pkg/scheduler/apis/config"
	"github.com/koordinator-sh/koordinator/pkg/scheduler/frameworkext"
	"github.com/koordinator-sh/koordinator/pkg/verifkit/vk"
)

// ---------------------------------------------------------------- vocabulary

const (
	c04None = iota
	c04Pending
	c04Waiting
	c04Bound
)

var c04StName = []string{"none", "pending", "waiting", "bound"}

const (
	c04PhQueue       = iota // in the scheduling queue (or in a scheduling cycle that has not reached Permit)
	c04PhParked             // in the framework's waiting-pod map (Permit returned Wait)
	c04PhBinding            // Permit returned Success for this very pod: binding cycle running
	c04PhPostBindDue        // bind succeeded at the API server, PostBind not yet run
	c04PhDone               // PostBind ran (or the pod was bound before this scheduler saw it)
)

var c04PhName = []string{"queue", "parked", "binding", "postBindDue", "done"}

const (
	c04DecNone = iota
	c04DecAllowed
	c04DecRejected
)

var c04FixedTime = metav1.NewTime(time.Unix(1_600_000_000, 0))

var c04Policies = []string{extension.GangMatchPolicyOnlyWaiting, extension.GangMatchPolicyWaitingAndRunning, extension.GangMatchPolicyOnceSatisfied}

// ---------------------------------------------------------------- universe

type c04Gang struct {
	idx, grp int
	ns, name string
	id       string
	crd      bool // declared by a PodGroup object (pods carry the pod-group label); otherwise by pod annotations
	light    bool // annotation gang declared with the light-weight labels for name / min-available
	// declared configuration: on every pod (annotation gangs) or in the current PodGroup object (CRD gangs)
	min, total   int
	mode, policy string // "" = not written (defaults apply)
	groupAnno    string // value of the groups annotation, "" = absent (single-gang group only)

	// spellings and late bundling (only drawn by the tests that say so; zero values = the plain spelling)
	policySpelling int   // 0 primary match-policy key, 1 the compatibility (alias) key only, 2 both keys, the primary one wins
	lightMinAnno   bool  // light-weight name label, but min-available given by the annotation
	declGroup      []int // gang indexes of the group the gang CURRENTLY declares; nil = the whole group s.groups[grp]
	lateAnno       string // groups annotation that a later PodGroup update will add (late bundling), "" = none pending
	everStandalone bool   // the gang was first declared with a group list other than its final group (late bundling)

	// PodGroup object (CRD gangs); its events are delivered synchronously
	pgExists bool
	pgVer    int
	pgObj    *v1alpha1.PodGroup

	// reference model of the cache record of this gang
	recExists  bool // a record exists (created by the first pod event or the PodGroup add)
	recInit    bool // the gang's parameters are known (first pod of an annotation gang / PodGroup seen)
	recFromCRD bool // a PodGroup add/update was handled since the record was created: record survives without children
	effMin     int
	effMode    string
	effPolicy  string
}

type c04Pod struct {
	idx  int
	name string
	key  string
	gang *c04Gang

	// API truth
	apiVer     int
	bindVer    int // version from which spec.nodeName is set (0: never)
	apiDeleted bool
	objs       map[int]*corev1.Pod

	// informer -> gang cache
	delivered       int // last version handed to the gang cache handlers (0: none yet)
	deleteDelivered bool

	// scheduling framework
	phase           int
	decision        int // only meaningful while parked
	fwNoticedDelete bool
	schedObj        *corev1.Pod // the (assumed) object of the running cycle

	// reference model: what a correct cache holds for this pod
	known bool // member (child) of the current record of its gang
	st    int
}

// c04Handle is the framework handle seen by the code under test. It owns the waiting-pod map.
// Everything the gang code is not supposed to touch is a nil interface (a call would panic and be reported).
type c04Handle struct {
	frameworkext.ExtendedHandle
	sim *c04Sim
}

func (h *c04Handle) Scheduler() frameworkext.Scheduler { return nil }

func (h *c04Handle) IterateOverWaitingPods(cb func(fwktype.WaitingPod)) {
	for _, p := range h.sim.pods { // creation order: deterministic
		if p.phase == c04PhParked {
			cb(&c04WaitingPod{p: p, sim: h.sim})
		}
	}
}

type c04WaitingPod struct {
	p   *c04Pod
	sim *c04Sim
}

func (w *c04WaitingPod) GetPod() *corev1.Pod         { return w.p.schedObj }
func (w *c04WaitingPod) GetPendingPlugins() []string { return []string{Name} }
func (w *c04WaitingPod) Allow(pluginName string) {
	if w.p.decision == c04DecNone { // first signal wins, as with the framework's buffered channel
		w.p.decision = c04DecAllowed
		w.sim.allowed = append(w.sim.allowed, w.p.name)
	}
}
func (w *c04WaitingPod) Reject(pluginName, msg string) {
	if w.p.decision == c04DecNone {
		w.p.decision = c04DecRejected
		w.sim.rejected = append(w.sim.rejected, w.p.name)
	}
}

type c04Sim struct {
	c      *vk.Case
	args   *config.CoschedulingArgs
	cache  *GangCache
	mgr    *PodGroupManager
	h      *c04Handle
	gangs  []*c04Gang
	groups [][]int
	pods   []*c04Pod
	once   []bool // per group: some member has been bound (sticky)
	hist    []string
	dead    bool
	maxPods int
	// the last rule ended in an Unreserve (used to give a doubly-listed member a cause-specific signature)
	afterUnreserve bool
	resubmitted    map[int]bool // groups whose PodGroups were all deleted and created again (variants only)

	allowed, rejected []string // effects of the current operation on the waiting-pod map

	// distribution
	permitSeen        []bool // per group
	disturbedAfter    []bool // per group: a delete / roll-back of a member happened after a permit
	disturbKind       []string
	nt                bool
	nPermit, nSuccess int
}

func (s *c04Sim) logf(format string, a ...any) { s.hist = append(s.hist, fmt.Sprintf(format, a...)) }

// ---------------------------------------------------------------- object construction

func (g *c04Gang) effective(defaultPolicy string) (min int, mode, policy string) {
	mode = g.mode
	if mode == "" {
		mode = extension.GangModeStrict
	}
	policy = g.policy
	if policy == "" {
		policy = defaultPolicy
	}
	return g.min, mode, policy
}

func (p *c04Pod) obj(v int) *corev1.Pod {
	if o := p.objs[v]; o != nil {
		return o
	}
	g := p.gang
	pod := &corev1.Pod{ObjectMeta: metav1.ObjectMeta{
		Name: p.name, Namespace: g.ns, UID: types.UID("uid-" + p.name), ResourceVersion: strconv.Itoa(v),
		CreationTimestamp: c04FixedTime, Labels: map[string]string{}, Annotations: map[string]string{},
	}}
	pod.Spec.SchedulerName = "koord-scheduler"
	switch {
	case g.crd:
		pod.Labels[v1alpha1.PodGroupLabel] = g.name
	case g.light:
		// nolint:staticcheck
		pod.Labels[extension.LabelLightweightCoschedulingPodGroupName] = g.name
		if g.lightMinAnno {
			pod.Annotations[extension.AnnotationGangMinNum] = strconv.Itoa(g.min)
		} else {
			// nolint:staticcheck
			pod.Labels[extension.LabelLightweightCoschedulingPodGroupMinAvailable] = strconv.Itoa(g.min)
		}
	default:
		pod.Annotations[extension.AnnotationGangName] = g.name
		pod.Annotations[extension.AnnotationGangMinNum] = strconv.Itoa(g.min)
	}
	if !g.crd {
		if g.total > 0 {
			pod.Annotations[extension.AnnotationGangTotalNum] = strconv.Itoa(g.total)
		}
		if g.mode != "" {
			pod.Annotations[extension.AnnotationGangMode] = g.mode
		}
		if g.policy != "" {
			g.writePolicy(pod.Annotations)
		}
		if g.groupAnno != "" {
			pod.Annotations[extension.AnnotationGangGroups] = g.groupAnno
		}
	}
	if p.bindVer > 0 && v >= p.bindVer {
		pod.Spec.NodeName = "node-1"
		pod.Status.Phase = corev1.PodRunning
	} else {
		pod.Status.Phase = corev1.PodPending
	}
	p.objs[v] = pod
	return pod
}

// writePolicy writes the declared match policy (g.policy != "") in the gang's spelling.
func (g *c04Gang) writePolicy(anno map[string]string) {
	switch g.policySpelling {
	case 1:
		anno[extension.AnnotationAliasGangMatchPolicy] = g.policy
	case 2:
		anno[extension.AnnotationGangMatchPolicy] = g.policy
		other := extension.GangMatchPolicyOnlyWaiting
		if g.policy == other {
			other = extension.GangMatchPolicyOnceSatisfied
		}
		anno[extension.AnnotationAliasGangMatchPolicy] = other // ignored: the primary key wins
	default:
		anno[extension.AnnotationGangMatchPolicy] = g.policy
	}
}

// declared returns the gangs (indexes) of the gang group that g currently declares.
func (s *c04Sim) declared(g *c04Gang) []int {
	if g.declGroup != nil {
		return g.declGroup
	}
	return s.groups[g.grp]
}

func (s *c04Sim) inDeclared(g, other *c04Gang) bool {
	for _, gi := range s.declared(g) {
		if gi == other.idx {
			return true
		}
	}
	return false
}

func (s *c04Sim) declaredIDs(g *c04Gang) []string {
	var ids []string
	for _, gi := range s.declared(g) {
		ids = append(ids, s.gangs[gi].id)
	}
	return ids
}

func (p *c04Pod) hasNode(v int) bool { return p.bindVer > 0 && v >= p.bindVer }

func (g *c04Gang) buildPG() *v1alpha1.PodGroup {
	timeout := int32(7200)
	pg := &v1alpha1.PodGroup{ObjectMeta: metav1.ObjectMeta{Name: g.name, Namespace: g.ns, ResourceVersion: strconv.Itoa(g.pgVer),
		CreationTimestamp: c04FixedTime, Annotations: map[string]string{}},
		Spec: v1alpha1.PodGroupSpec{MinMember: int32(g.min), ScheduleTimeoutSeconds: &timeout}}
	if g.total > 0 {
		pg.Annotations[extension.AnnotationGangTotalNum] = strconv.Itoa(g.total)
	}
	if g.mode != "" {
		pg.Annotations[extension.AnnotationGangMode] = g.mode
	}
	if g.policy != "" {
		g.writePolicy(pg.Annotations)
	}
	if g.groupAnno != "" {
		pg.Annotations[extension.AnnotationGangGroups] = g.groupAnno
	}
	return pg
}

// ---------------------------------------------------------------- reference model

func (s *c04Sim) dropRecord(g *c04Gang) {
	knewItsGroup := g.recInit
	g.recExists, g.recInit, g.recFromCRD = false, false, false
	for _, p := range s.pods {
		if p.gang == g {
			p.known, p.st = false, c04None
		}
	}
	// when no gang of the group is left the group is gone: gangs that appear later under the same names form a new
	// group that has not been satisfied yet
	for _, gi := range s.groups[g.grp] {
		if s.gangs[gi].recExists {
			return
		}
	}
	for _, gi := range s.groups[g.grp] {
		if s.gangs[gi].everStandalone {
			// late-bundled group: the gangs were first seen with another group list, and the unchanged cache then keeps
			// the group's once-satisfied record across a whole-group deletion (reported as an observation). Whether that
			// is forbidden depends on reading a re-created group as a new one: kept sticky here (weaker, never stronger).
			s.c.ClassIf(s.once[g.grp], "once-satisfied-kept-although-the-whole-late-bundled-group-vanished(tolerated)")
			return
		}
	}
	if !knewItsGroup {
		// the last record to go was an undefined one (pods of a PodGroup gang seen without their PodGroup): it does not
		// know its group, and the unchanged cache then keeps the group's once-satisfied record. Kept sticky (weaker).
		s.c.ClassIf(s.once[g.grp], "once-satisfied-kept-although-the-whole-group-vanished(last gang undefined, tolerated)")
		return
	}
	if s.once[g.grp] {
		s.once[g.grp] = false
		s.c.Class("once-satisfied-forgotten-because-the-whole-group-vanished")
	}
}

func (s *c04Sim) knownChildren(g *c04Gang) int {
	n := 0
	for _, p := range s.pods {
		if p.gang == g && p.known {
			n++
		}
	}
	return n
}

func (s *c04Sim) modelPodEvent(p *c04Pod, v int) {
	g := p.gang
	if !g.recExists {
		g.recExists, g.recInit, g.recFromCRD = true, false, false
	}
	if !g.crd && !g.recInit {
		g.recInit = true
		g.effMin, g.effMode, g.effPolicy = g.effective(s.args.DefaultMatchPolicy)
	}
	p.known = true
	if p.hasNode(v) {
		p.st = c04Bound
		s.once[g.grp] = true
	} else if p.st == c04None {
		p.st = c04Pending
	}
}

func (s *c04Sim) modelPodDelete(p *c04Pod) {
	g := p.gang
	if !g.recExists {
		return
	}
	p.known, p.st = false, c04None
	if !g.recFromCRD && s.knownChildren(g) == 0 {
		s.dropRecord(g)
	}
}

func (s *c04Sim) modelPG(g *c04Gang, kind string) {
	switch kind {
	case "add":
		g.recExists, g.recInit, g.recFromCRD = true, true, true
		g.effMin, g.effMode, g.effPolicy = g.effective(s.args.DefaultMatchPolicy)
	case "update":
		if g.recExists {
			g.recInit, g.recFromCRD = true, true
			g.effMin, g.effMode, g.effPolicy = g.effective(s.args.DefaultMatchPolicy)
		}
	case "delete":
		if g.recExists {
			s.dropRecord(g)
		}
	}
}

func (s *c04Sim) counts(g *c04Gang, liveOnly bool) (w, b int) {
	for _, p := range s.pods {
		if p.gang != g || (liveOnly && p.deleteDelivered) {
			continue
		}
		switch p.st {
		case c04Waiting:
			w++
		case c04Bound:
			b++
		}
	}
	return
}

// groupSatisfied states the all-or-nothing rule on the model: every gang of the group is defined and holds at least
// its minimum number of pods that hold resources under its match policy. exempt reports that the once-satisfied
// exemption was needed for at least one gang. With liveOnly, pods whose informer delete has been delivered (but which
// a Permit / PostBind that raced with the delete put back into the cache) are not counted.
func (s *c04Sim) groupSatisfied(of *c04Gang, liveOnly bool) (ok, exempt bool, detail string) {
	grp := of.grp
	ok = true
	var parts []string
	for _, gi := range s.declared(of) {
		g := s.gangs[gi]
		w, b := s.counts(g, liveOnly)
		var sat bool
		switch {
		case !g.recExists:
			parts = append(parts, fmt.Sprintf("%s:absent", g.id))
		case !g.recInit:
			parts = append(parts, fmt.Sprintf("%s:undefined(no PodGroup) waiting=%d", g.id, w))
		default:
			switch g.effPolicy {
			case extension.GangMatchPolicyOnlyWaiting:
				sat = w >= g.effMin
			case extension.GangMatchPolicyWaitingAndRunning:
				sat = w+b >= g.effMin
			default:
				sat = w >= g.effMin
				if !sat && s.once[grp] {
					sat, exempt = true, true
				}
			}
			parts = append(parts, fmt.Sprintf("%s:%s min=%d waiting=%d bound=%d sat=%v", g.id, g.effPolicy, g.effMin, w, b, sat))
		}
		if !sat {
			ok = false
		}
	}
	return ok, exempt, strings.Join(parts, "; ")
}

// ---------------------------------------------------------------- oracle (3): partition

func (s *c04Sim) describe() string {
	var b strings.Builder
	fmt.Fprintf(&b, "defaultPolicy=%s gangs=[", s.args.DefaultMatchPolicy)
	for _, g := range s.gangs {
		kind := "anno"
		if g.crd {
			kind = "crd"
		} else if g.light {
			kind = "light"
		}
		if g.policySpelling != 0 {
			kind += fmt.Sprintf(" policyKey=%s", []string{"primary", "alias", "both"}[g.policySpelling])
		}
		if g.lightMinAnno {
			kind += " minByAnnotation"
		}
		fmt.Fprintf(&b, "{%s %s group=%d min=%d total=%d mode=%q policy=%q groups=%q} ", g.id, kind, g.grp, g.min, g.total, g.mode, g.policy, g.groupAnno)
	}
	b.WriteString("] history=[")
	b.WriteString(strings.Join(s.hist, " | "))
	b.WriteString("]")
	return b.String()
}

func (s *c04Sim) violation(t *rapid.T, sig, format string, a ...any) {
	msg := fmt.Sprintf(format, a...)
	if s.c.Violation(t, sig, "%s ;; %s", msg, s.describe()) {
		s.dead = true
	}
}

func (s *c04Sim) checkPartition(t *rapid.T) {
	if s.dead {
		return
	}
	sums := s.mgr.GetGangSummaries()
	for _, g := range s.gangs {
		sum := sums[g.id]
		if sum != nil {
			// the statement itself: every member (child) of the gang is in exactly one of the three sets
			for _, key := range c04Sorted(sum.Children) {
				if sets := c04Sets(sum, key); len(sets) != 1 {
					sig := c04PartitionSig(sets)
					if s.afterUnreserve && len(sets) > 1 {
						sig += ":after-unreserve"
					}
					s.violation(t, sig, "gang %s: member %s is in sets %v (children=%v pending=%v waiting=%v bound=%v)",
						g.id, key, sets, c04Sorted(sum.Children), c04Sorted(sum.PendingChildren), c04Sorted(sum.WaitingForBindChildren), c04Sorted(sum.BoundChildren))
					return
				}
			}
		}
		for _, p := range s.pods {
			if p.gang != g || !p.known {
				continue
			}
			if sum == nil {
				s.violation(t, "partition:member-of-vanished-gang", "gang %s has no record although %s is a live, delivered member (model state %s)", g.id, p.key, c04StName[p.st])
				return
			}
			if !sum.Children.Has(p.key) {
				s.violation(t, "partition:member-not-a-child", "gang %s: delivered live pod %s is not among children %v (model state %s)", g.id, p.key, c04Sorted(sum.Children), c04StName[p.st])
				return
			}
			sets := c04Sets(sum, p.key)
			if len(sets) == 1 && sets[0] != c04StName[p.st] {
				s.violation(t, "partition:wrong-set:model-"+c04StName[p.st]+"-cache-"+sets[0], "gang %s: pod %s must be %s by the events so far, cache has it in %s", g.id, p.key, c04StName[p.st], sets[0])
				return
			}
		}
	}
}

func c04Sets(sum *GangSummary, key string) []string {
	var sets []string
	if sum.PendingChildren.Has(key) {
		sets = append(sets, "pending")
	}
	if sum.WaitingForBindChildren.Has(key) {
		sets = append(sets, "waiting")
	}
	if sum.BoundChildren.Has(key) {
		sets = append(sets, "bound")
	}
	return sets
}

func c04PartitionSig(sets []string) string {
	if len(sets) == 0 {
		return "partition:member-in-no-set"
	}
	return "partition:member-in-several-sets:" + strings.Join(sets, "+")
}

func c04Sorted(m sets.Set[string]) []string {
	out := m.UnsortedList()
	sort.Strings(out)
	return out
}

// ---------------------------------------------------------------- oracle (2): strict-mode group rejection

type c04RejectExpect struct {
	active    bool
	undecided []*c04Pod
	g         *c04Gang
}

// expectReject is evaluated BEFORE a roll-back / failure of pod p reaches the gang code.
func (s *c04Sim) expectReject(p *c04Pod) c04RejectExpect {
	g := p.gang
	e := c04RejectExpect{g: g}
	if !g.recExists || !g.recInit || g.effMode != extension.GangModeStrict {
		return e
	}
	if g.effPolicy == extension.GangMatchPolicyOnceSatisfied && s.once[g.grp] {
		return e // once-satisfied group: exempt
	}
	if p.st == c04Bound {
		// Unreserve of a member the cache already knows as bound (error after the bind was persisted): whether that is a
		// "rolled-back member" is not decided by the statement; the code rejects the waiting members, both are accepted
		s.c.Class("rollback-of-bound-member(strict reject not asserted)")
		return e
	}
	e.active = true
	for _, q := range s.pods {
		if q.phase == c04PhParked && q.decision == c04DecNone && s.inDeclared(g, q.gang) {
			e.undecided = append(e.undecided, q)
		}
	}
	return e
}

func (s *c04Sim) checkReject(t *rapid.T, e c04RejectExpect, what string, p *c04Pod) {
	if s.dead || !e.active {
		return
	}
	s.c.ClassIf(len(e.undecided) > 0, "strict-failure-with-waiting-members")
	for _, q := range e.undecided {
		if q.decision != c04DecRejected {
			sig := "strict:waiting-member-not-rejected"
			if q.gang != e.g {
				sig = "strict:waiting-member-of-sibling-gang-not-rejected"
			}
			s.violation(t, sig, "%s of %s (gang %s, strict, group %v not exempt): waiting pod %s of gang %s was not rejected", what, p.key, e.g.id, s.declaredIDs(e.g), q.key, q.gang.id)
			return
		}
	}
}

func (s *c04Sim) groupIDs(grp int) []string {
	var ids []string
	for _, gi := range s.groups[grp] {
		ids = append(ids, s.gangs[gi].id)
	}
	return ids
}

// ---------------------------------------------------------------- operations

func (s *c04Sim) newPod(g *c04Gang, preBound bool) *c04Pod {
	p := &c04Pod{idx: len(s.pods), gang: g, apiVer: 1, objs: map[int]*corev1.Pod{}}
	p.name = fmt.Sprintf("p%d", p.idx)
	p.key = g.ns + "/" + p.name
	if preBound {
		p.bindVer, p.phase = 1, c04PhDone
	}
	s.pods = append(s.pods, p)
	s.logf("create %s in %s%s", p.name, g.id, map[bool]string{true: " (already bound)", false: ""}[preBound])
	return p
}

// deliverTo hands version v of p to the gang cache as the next informer event (add for the first one).
func (s *c04Sim) deliverTo(p *c04Pod, v int) {
	if p.delivered == 0 {
		s.cache.onPodAdd(p.obj(v))
		s.logf("informer add %s v%d node=%v", p.name, v, p.hasNode(v))
	} else {
		stale := !p.hasNode(v) && p.st == c04Bound
		s.cache.onPodUpdate(p.obj(p.delivered), p.obj(v))
		s.logf("informer update %s v%d->v%d node=%v", p.name, p.delivered, v, p.hasNode(v))
		s.c.ClassIf(stale, "stale-update-after-postbind")
		s.c.ClassIf(v == p.delivered, "resync-update")
	}
	p.delivered = v
	s.modelPodEvent(p, v)
}

func (s *c04Sim) deliverDelete(t *rapid.T, p *c04Pod) {
	final := p.obj(p.delivered)
	if p.apiVer > p.delivered && rapid.Bool().Draw(t, "deleteCarriesFinalState") {
		final = p.obj(p.apiVer)
	}
	var ev interface{} = final
	tomb := rapid.IntRange(0, 4).Draw(t, "tombstone") == 0
	if tomb {
		ev = cache.DeletedFinalStateUnknown{Key: p.key, Obj: final}
	}
	wasWaiting := p.st == c04Waiting
	s.cache.onPodDelete(ev)
	s.logf("informer delete %s (tombstone=%v)", p.name, tomb)
	p.deleteDelivered = true
	s.modelPodDelete(p)
	s.disturb(p.gang.grp, "delete-between-permits")
	s.c.ClassIf(wasWaiting, "delete-of-waiting-member")
}

func (s *c04Sim) disturb(grp int, kind string) {
	if s.permitSeen[grp] {
		s.disturbedAfter[grp] = true
		s.disturbKind[grp] = kind
	}
}

func (s *c04Sim) cycleObj(p *c04Pod, assumed bool) *corev1.Pod {
	o := p.obj(p.delivered).DeepCopy()
	if assumed {
		o.Spec.NodeName = "node-1" // the scheduler assumes the pod before Reserve / Permit
	}
	return o
}

func (s *c04Sim) unreserve(t *rapid.T, p *c04Pod, why string) {
	e := s.expectReject(p)
	partial := false
	for _, q := range s.pods {
		if q != p && q.gang.grp == p.gang.grp && (q.st == c04Bound || q.phase == c04PhPostBindDue) {
			partial = true
		}
	}
	s.rejected, s.allowed = nil, nil
	if p.schedObj == nil {
		p.schedObj = s.cycleObj(p, true)
	}
	s.mgr.Unreserve(context.TODO(), framework.NewCycleState(), p.schedObj, "node-1", s.h, Name)
	s.logf("unreserve %s (%s) -> rejected %v", p.name, why, s.rejected)
	// model
	if p.gang.recExists && p.st == c04Waiting {
		if p.known {
			p.st = c04Pending
		} else {
			p.st = c04None
		}
	}
	p.phase, p.decision, p.schedObj = c04PhQueue, c04DecNone, nil
	s.afterUnreserve = true
	s.disturb(p.gang.grp, "unreserve-between-permits")
	s.c.ClassIf(partial, "unreserve-after-partial-bind")
	s.checkReject(t, e, "unreserve("+why+")", p)
}

func (s *c04Sim) permit(t *rapid.T, p *c04Pod) {
	g := p.gang
	p.schedObj = s.cycleObj(p, true)
	zombie := !p.known
	_, status := s.mgr.Permit(context.TODO(), p.schedObj)
	s.nPermit++
	s.c.ClassIf(zombie && p.deleteDelivered, "permit-of-pod-whose-delete-was-already-delivered")
	switch status {
	case PodGroupNotFound:
		s.logf("permit %s -> gang-not-found", p.name)
		s.c.Class("permit-gang-not-found")
		s.c.ClassIf(g.recExists, "divergence:gang-exists-in-model-but-not-found(not asserted)")
		// the framework rolls the cycle back at once
		s.unreserve(t, p, "permit refused")
		return
	case Wait, Success:
	default:
		s.violation(t, "permit:unexpected-status", "Permit(%s) returned %q", p.key, status)
		return
	}
	// model: the pod now holds resources and sits in the permit stage (whatever the verdict)
	if g.recExists {
		p.st = c04Waiting
	} else {
		s.c.Class("divergence:gang-missing-in-model-but-found(not asserted)")
	}
	ok, exempt, detail := s.groupSatisfied(g, false)
	okLive, _, _ := s.groupSatisfied(g, true)
	if s.disturbedAfter[g.grp] {
		s.c.Class(s.disturbKind[g.grp])
		if len(s.groups[g.grp]) >= 2 {
			s.nt = true
		}
	}
	s.permitSeen[g.grp] = true
	s.c.ClassIf(s.resubmitted[g.grp], "variant:permit-in-a-resubmitted-group")
	if status == Success {
		s.nSuccess++
		s.logf("permit %s -> SUCCESS [%s]", p.name, detail)
		s.c.Class("permit-success")
		s.c.ClassIf(len(s.groups[g.grp]) >= 2, "permit-success-in-multi-gang-group")
		s.c.ClassIf(exempt, "once-satisfied-shortcut")
		if !ok {
			sig := "permit:released-while-group-unsatisfied"
			if s.once[g.grp] {
				sig += ":after-first-bind"
			}
			s.violation(t, sig, "Permit(%s) = Success but the gang group %v is not satisfied at that instant: %s", p.key, s.declaredIDs(g), detail)
			return
		}
		s.c.ClassIf(!okLive, "released-only-because-a-deleted-pod-is-counted(tolerated)")
		if !okLive && os.Getenv("VERIF_C04_STRICT_DELETED") != "" { // opt-in, stricter than the default reading (see the registry assumptions)
			_, _, live := s.groupSatisfied(g, true)
			s.violation(t, "permit:released-counting-a-deleted-pod", "Permit(%s) = Success only because a pod whose informer delete was already handled is counted: live pods %s; all %s", p.key, live, detail)
			return
		}
		p.phase = c04PhBinding
		// what Coscheduling.Permit does on Success
		s.allowed, s.rejected = nil, nil
		s.mgr.AllowGangGroup(p.schedObj, s.h, Name)
		s.mgr.SucceedGangScheduling() // ends the scheduling round of the gang group, if one is open (no-op otherwise)
		s.logf("allowGangGroup(%s) -> allowed %v", p.name, s.allowed)
		for _, q := range s.pods {
			// the statement only says when a pod MAY be released, not that all are: counted, not asserted
			s.c.ClassIf(q.phase == c04PhParked && q.decision == c04DecNone && q.gang.grp == g.grp, "member-left-waiting-after-release(not asserted)")
		}
		return
	}
	s.logf("permit %s -> wait [%s]", p.name, detail)
	s.c.Class("permit-wait")
	s.c.ClassIf(ok, "wait-though-model-satisfied(not asserted)")
	p.phase, p.decision = c04PhParked, c04DecNone
}

// ---------------------------------------------------------------- generation of the universe

func c04GenSim(t *rapid.T, c *vk.Case, maxPods int) *c04Sim {
	s := &c04Sim{c: c, maxPods: maxPods, resubmitted: map[int]bool{}}
	defPolicy := rapid.SampledFrom([]string{extension.GangMatchPolicyOnceSatisfied, extension.GangMatchPolicyOnceSatisfied,
		extension.GangMatchPolicyOnlyWaiting, extension.GangMatchPolicyWaitingAndRunning}).Draw(t, "defaultMatchPolicy")
	s.args = &config.CoschedulingArgs{DefaultTimeout: metav1.Duration{Duration: 3 * time.Hour}, DefaultMatchPolicy: defPolicy}
	s.h = &c04Handle{sim: s}
	s.cache = NewGangCache(s.args, nil, nil, nil, s.h)
	s.mgr = &PodGroupManager{handle: s.h, args: s.args, cache: s.cache}

	sizes := []int{rapid.SampledFrom([]int{1, 2, 2, 2, 3, 3}).Draw(t, "group0Size")}
	if rapid.IntRange(0, 2).Draw(t, "secondGroup") == 2 {
		sizes = append(sizes, rapid.IntRange(1, 2).Draw(t, "group1Size"))
	}
	for gi, n := range sizes {
		var members []int
		for k := 0; k < n; k++ {
			g := &c04Gang{idx: len(s.gangs), grp: gi}
			g.ns = rapid.SampledFrom([]string{"n1", "n1", "n2"}).Draw(t, "ns")
			g.name = fmt.Sprintf("g%d", g.idx)
			g.id = g.ns + "/" + g.name
			switch rapid.IntRange(0, 4).Draw(t, "declaredBy") { // 0,1: plain annotations
			case 2:
				g.light = true
			case 3, 4:
				g.crd = true
			}
			g.min = rapid.SampledFrom([]int{1, 1, 2, 2, 2, 3}).Draw(t, "min")
			if rapid.Bool().Draw(t, "hasTotal") {
				g.total = g.min + rapid.IntRange(0, 2).Draw(t, "extra")
			}
			g.mode = rapid.SampledFrom([]string{"", extension.GangModeStrict, extension.GangModeNonStrict}).Draw(t, "mode")
			g.policy = rapid.SampledFrom([]string{"", extension.GangMatchPolicyOnlyWaiting, extension.GangMatchPolicyWaitingAndRunning, extension.GangMatchPolicyOnceSatisfied}).Draw(t, "policy")
			members = append(members, g.idx)
			s.gangs = append(s.gangs, g)
		}
		s.groups = append(s.groups, members)
	}
	for gi, members := range s.groups {
		ids := s.groupIDs(gi)
		anno := ""
		if len(members) > 1 || rapid.Bool().Draw(t, "annotateSingleGroup") {
			// any order: the code sorts
			if rapid.Bool().Draw(t, "reverseGroupOrder") {
				for i, j := 0, len(ids)-1; i < j; i, j = i+1, j-1 {
					ids[i], ids[j] = ids[j], ids[i]
				}
			}
			b, _ := json.Marshal(ids)
			anno = string(b)
		}
		for _, m := range members {
			s.gangs[m].groupAnno = anno
		}
	}
	s.once = make([]bool, len(s.groups))
	s.permitSeen = make([]bool, len(s.groups))
	s.disturbedAfter = make([]bool, len(s.groups))
	s.disturbKind = make([]string, len(s.groups))
	return s
}

func (s *c04Sim) pgAdd(t *rapid.T, g *c04Gang) {
	g.pgExists = true
	g.pgVer++
	g.pgObj = g.buildPG()
	s.cache.onPodGroupAdd(g.pgObj)
	s.logf("podgroup add %s min=%d mode=%q policy=%q", g.id, g.min, g.mode, g.policy)
	s.modelPG(g, "add")
}


// ---------------------------------------------------------------- rules

func c04Silence() {
	klog.LogToStderr(false)
	klog.SetOutput(io.Discard)
}

// c04Rule is one kind of step. A rule is enabled when at least one pod (or gang) satisfies its predicate; the step
// action draws one enabled rule (weighted) and one eligible subject, so no step is wasted on a disabled rule.
type c04Rule struct {
	name  string
	w     int
	pod   func(*c04Pod) bool
	gang  func(*c04Gang) bool
	other func() bool
	run   func(t *rapid.T, p *c04Pod, g *c04Gang)
}

func c04InCycle(p *c04Pod) bool {
	// a pod the scheduler can be running a scheduling cycle for: it learnt of the pod, the pod is unbound, and the
	// scheduler's own handler has not yet removed it on deletion
	return p.phase == c04PhQueue && p.delivered > 0 && !p.fwNoticedDelete && p.bindVer == 0
}

func c04Binding(p *c04Pod) bool {
	return p.phase == c04PhBinding || (p.phase == c04PhParked && p.decision == c04DecAllowed)
}

func (s *c04Sim) rules() []c04Rule {
	modes := []string{"", extension.GangModeStrict, extension.GangModeNonStrict}
	policies := []string{"", extension.GangMatchPolicyOnlyWaiting, extension.GangMatchPolicyWaitingAndRunning, extension.GangMatchPolicyOnceSatisfied}
	return []c04Rule{
		{name: "permit", w: 8, pod: c04InCycle, run: func(t *rapid.T, p *c04Pod, _ *c04Gang) { s.permit(t, p) }},
		{name: "deliver", w: 5, pod: func(p *c04Pod) bool {
			return !p.deleteDelivered && (p.delivered < p.apiVer || p.apiDeleted)
		}, run: func(t *rapid.T, p *c04Pod, _ *c04Gang) {
			if p.apiDeleted && p.delivered == 0 {
				// never seen and already gone: the informer never reports it
				p.deleteDelivered = true
				s.logf("informer never reports %s (deleted before first delivery)", p.name)
				return
			}
			if p.delivered < p.apiVer && !(p.apiDeleted && rapid.IntRange(0, 2).Draw(t, "deleteSkipsUpdates") == 0) {
				v := p.delivered + 1
				if p.apiVer > v && rapid.IntRange(0, 3).Draw(t, "relist") == 0 {
					v = rapid.IntRange(v, p.apiVer).Draw(t, "toVersion")
				}
				s.deliverTo(p, v)
				return
			}
			s.deliverDelete(t, p)
		}},
		{name: "postBind", w: 3, pod: func(p *c04Pod) bool { return p.phase == c04PhPostBindDue }, run: func(t *rapid.T, p *c04Pod, _ *c04Gang) {
			s.mgr.PostBind(context.TODO(), p.schedObj, "node-1")
			s.logf("postBind %s", p.name)
			s.c.ClassIf(p.deleteDelivered, "postbind-after-delete-delivered(zombie)")
			s.c.ClassIf(p.delivered >= p.bindVer, "postbind-after-informer-saw-node")
			if p.gang.recExists {
				p.st = c04Bound
			}
			s.once[p.gang.grp] = true
			p.phase = c04PhDone
		}},
		{name: "bindOK", w: 4, pod: func(p *c04Pod) bool { return !p.apiDeleted && c04Binding(p) }, run: func(t *rapid.T, p *c04Pod, _ *c04Gang) {
			p.apiVer++
			p.bindVer = p.apiVer
			p.phase = c04PhPostBindDue
			s.logf("bind ok %s -> v%d", p.name, p.apiVer)
		}},
		{name: "bindFail", w: 2, pod: c04Binding, run: func(t *rapid.T, p *c04Pod, _ *c04Gang) { s.unreserve(t, p, "bind failed") }},
		{name: "unreserveRejected", w: 3, pod: func(p *c04Pod) bool { return p.phase == c04PhParked && p.decision == c04DecRejected },
			run: func(t *rapid.T, p *c04Pod, _ *c04Gang) { s.unreserve(t, p, "rejected while waiting") }},
		{name: "permitTimeout", w: 2, pod: func(p *c04Pod) bool { return p.phase == c04PhParked && p.decision == c04DecNone },
			run: func(t *rapid.T, p *c04Pod, _ *c04Gang) {
				p.decision = c04DecRejected
				s.logf("permit timeout %s", p.name)
			}},
		{name: "reserveFail", w: 1, pod: c04InCycle, run: func(t *rapid.T, p *c04Pod, _ *c04Gang) {
			p.schedObj = s.cycleObj(p, true)
			s.unreserve(t, p, "reserve failed")
		}},
		{name: "postFilterFail", w: 2, pod: c04InCycle, run: func(t *rapid.T, p *c04Pod, _ *c04Gang) {
			e := s.expectReject(p)
			s.rejected = nil
			s.mgr.AfterPostFilter(context.TODO(), framework.NewCycleState(), s.cycleObj(p, false), s.h, Name, nil, nil)
			s.logf("afterPostFilter %s -> rejected %v", p.name, s.rejected)
			s.disturb(p.gang.grp, "unschedulable-between-permits")
			s.checkReject(t, e, "afterPostFilter", p)
		}},
		{name: "podCreate", w: 3, other: func() bool { return len(s.pods) < s.maxPods }, run: func(t *rapid.T, _ *c04Pod, _ *c04Gang) {
			g := s.gangs[rapid.IntRange(0, len(s.gangs)-1).Draw(t, "gang")]
			s.newPod(g, rapid.IntRange(0, 9).Draw(t, "preBound") == 9)
		}},
		{name: "podTouch", w: 2, pod: func(p *c04Pod) bool { return !p.apiDeleted }, run: func(t *rapid.T, p *c04Pod, _ *c04Gang) {
			p.apiVer++
			s.logf("api touch %s -> v%d", p.name, p.apiVer)
		}},
		{name: "resync", w: 1, pod: func(p *c04Pod) bool { return p.delivered > 0 && !p.deleteDelivered }, run: func(t *rapid.T, p *c04Pod, _ *c04Gang) {
			s.deliverTo(p, p.delivered)
		}},
		{name: "podDelete", w: 2, pod: func(p *c04Pod) bool { return !p.apiDeleted }, run: func(t *rapid.T, p *c04Pod, _ *c04Gang) {
			p.apiDeleted = true
			s.logf("api delete %s", p.name)
		}},
		{name: "fwNoticeDelete", w: 2, pod: func(p *c04Pod) bool { return p.apiDeleted && !p.fwNoticedDelete && p.delivered > 0 },
			run: func(t *rapid.T, p *c04Pod, _ *c04Gang) {
				p.fwNoticedDelete = true
				if p.phase == c04PhParked && p.decision == c04DecNone {
					p.decision = c04DecRejected // framework.RejectWaitingPod from the scheduler's own delete handler
				}
				s.logf("framework notices deletion of %s (phase %s)", p.name, c04PhName[p.phase])
			}},
		{name: "pgAdd", w: 3, gang: func(g *c04Gang) bool { return g.crd && !g.pgExists }, run: func(t *rapid.T, _ *c04Pod, g *c04Gang) { s.pgAdd(t, g) }},
		{name: "pgUpdate", w: 1, gang: func(g *c04Gang) bool { return g.crd && g.pgExists }, run: func(t *rapid.T, _ *c04Pod, g *c04Gang) {
			switch rapid.IntRange(0, 3).Draw(t, "what") {
			case 0: // status-only update
			case 1:
				g.min = rapid.IntRange(1, 3).Draw(t, "min")
				if g.total > 0 && g.total < g.min {
					g.total = g.min
				}
			case 2:
				g.mode = rapid.SampledFrom(modes).Draw(t, "mode")
			default:
				g.policy = rapid.SampledFrom(policies).Draw(t, "policy")
			}
			old := g.pgObj
			g.pgVer++
			g.pgObj = g.buildPG()
			s.cache.onPodGroupUpdate(old, g.pgObj)
			s.logf("podgroup update %s min=%d mode=%q policy=%q", g.id, g.min, g.mode, g.policy)
			s.modelPG(g, "update")
			s.c.Class("podgroup-update")
		}},
		{name: "pgDelete", w: 1, gang: func(g *c04Gang) bool { return g.crd && g.pgExists }, run: func(t *rapid.T, _ *c04Pod, g *c04Gang) {
			if rapid.IntRange(0, 2).Draw(t, "really") != 2 { // keep PodGroup deletions rare
				s.logf("noop")
				return
			}
			g.pgExists = false
			s.cache.onPodGroupDelete(g.pgObj)
			s.logf("podgroup delete %s", g.id)
			s.modelPG(g, "delete")
			s.c.Class("podgroup-delete")
		}},
		// The bind was persisted (the API object carries the node) but the binding cycle still ends in an error
		// (client-side timeout of the Bind call, failure of a later plugin): Unreserve instead of PostBind. The informer
		// update carrying the node may or may not have been delivered yet. The pod is never scheduled again.
		{name: "lateBindError", w: 2, pod: func(p *c04Pod) bool { return p.phase == c04PhPostBindDue }, run: func(t *rapid.T, p *c04Pod, _ *c04Gang) {
			saw := p.delivered >= p.bindVer
			s.c.ClassIf(saw, "unreserve-after-informer-saw-bind")
			s.c.ClassIf(!saw, "unreserve-after-bind-before-informer-saw-it")
			s.unreserve(t, p, "error after the bind was persisted")
			p.phase = c04PhDone
		}},
	}
}

// step runs one enabled rule.
func (s *c04Sim) step(t *rapid.T, rules []c04Rule) {
	if s.dead {
		return
	}
	s.afterUnreserve = false
	type cand struct {
		r    *c04Rule
		pods []*c04Pod
		gs   []*c04Gang
	}
	var cands []cand
	var ticket []int
	for i := range rules {
		r := &rules[i]
		cd := cand{r: r}
		switch {
		case r.pod != nil:
			for _, p := range s.pods {
				if r.pod(p) {
					cd.pods = append(cd.pods, p)
				}
			}
			if len(cd.pods) == 0 {
				continue
			}
		case r.gang != nil:
			for _, g := range s.gangs {
				if r.gang(g) {
					cd.gs = append(cd.gs, g)
				}
			}
			if len(cd.gs) == 0 {
				continue
			}
		default:
			if !r.other() {
				continue
			}
		}
		for k := 0; k < r.w; k++ {
			ticket = append(ticket, len(cands))
		}
		cands = append(cands, cd)
	}
	if len(cands) == 0 {
		s.logf("idle")
		return
	}
	cd := cands[ticket[rapid.IntRange(0, len(ticket)-1).Draw(t, "rule")]]
	var p *c04Pod
	var g *c04Gang
	if cd.pods != nil {
		p = cd.pods[rapid.IntRange(0, len(cd.pods)-1).Draw(t, cd.r.name+"Pod")]
	}
	if cd.gs != nil {
		g = cd.gs[rapid.IntRange(0, len(cd.gs)-1).Draw(t, cd.r.name+"Gang")]
	}
	s.c.Class("rule:" + cd.r.name)
	cd.r.run(t, p, g)
}

// populate creates the initial objects: PodGroups mostly present, a few pods per gang mostly delivered.
func (s *c04Sim) populate(t *rapid.T) {
	for _, g := range s.gangs {
		if g.crd && rapid.IntRange(0, 5).Draw(t, "pgAbsent") != 5 {
			s.pgAdd(t, g)
		}
		n := rapid.IntRange(0, g.min+1).Draw(t, "initialPods")
		for i := 0; i < n && len(s.pods) < s.maxPods; i++ {
			p := s.newPod(g, rapid.IntRange(0, 9).Draw(t, "preBound") == 9)
			if rapid.IntRange(0, 5).Draw(t, "lateAdd") != 5 {
				s.deliverTo(p, 1)
			}
		}
	}
}

func (s *c04Sim) finish() {
	c := s.c
	multi := false
	for _, g := range s.gangs {
		c.ClassIf(g.crd, "crd-gang")
		c.ClassIf(g.light, "lightweight-label-gang")
		c.ClassIf(g.effMode == extension.GangModeNonStrict && g.recInit, "non-strict-gang")
		if g.recInit {
			c.Class("policy:" + g.effPolicy)
		}
	}
	for _, m := range s.groups {
		if len(m) >= 2 {
			multi = true
		}
	}
	c.ClassIf(multi, "multi-gang-group")
	c.ClassIf(len(s.groups) > 1, "two-groups")
	c.ClassIf(s.nPermit >= 3, "permits>=3")
	c.ClassIf(s.nSuccess >= 2, "successes>=2")
	if s.nt {
		c.NonTrivial(s.describe())
	}
	if c.WantSample() {
		c.Sample(map[string]any{"setup": strings.SplitN(s.describe(), " history=", 2)[0], "history": s.hist})
	}
}

// ---------------------------------------------------------------- the history tests

func c04HistoryProp(rec *vk.Rec, maxPods int) func(t *rapid.T) {
	return func(t *rapid.T) {
		c := rec.Begin()
		defer c.End()
		s := c04GenSim(t, c, maxPods)
		s.populate(t)
		rules := s.rules()
		t.Repeat(map[string]func(*rapid.T){
			"step": func(t *rapid.T) { s.step(t, rules) },
			"":     func(t *rapid.T) { s.checkPartition(t) },
		})
		s.finish()
	}
}

// quick + thorough: <= 9 pods, ~40 rules per history
func TestVerifC04History(t *testing.T) {
	c04Silence()
	rapid.Check(t, c04HistoryProp(vk.New(t, "C04", "history"), 9))
}

// thorough only: longer histories (-rapid.steps from the registry), up to 14 pods
func TestVerifC04HistoryLong(t *testing.T) {
	c04Silence()
	rapid.Check(t, c04HistoryProp(vk.New(t, "C04", "historyLong"), 14))
}

// ---------------------------------------------------------------- concurrency variant (thorough, -race)
//
// The informer goroutine (pod updates, resyncs, deletes) races the scheduling goroutine (Permit, AllowGangGroup,
// Unreserve, PostBind). Both scripts are drawn beforehand; the goroutines never touch rapid or the recorder.
// Checked: the race detector; at quiescence every member is in exactly one set, and every pod that was not deleted is
// in the set that the scheduling goroutine's own operations imply (informer updates without nodeName do not move a
// pod, so any interleaving must end there); a Permit that returned Success had, in every gang of the group, at least
// min pods that the scheduling goroutine itself had brought to waiting/bound (deleted or not: upper bound).

type c04IEv struct {
	pod  int
	kind int // 0 update to a new version, 1 resync, 2 delete, 3 status-only update of the pod's PodGroup (opt-in)
}

type c04SEv struct {
	pod    int
	bindOK bool
}

func TestVerifC04Concurrent(t *testing.T) {
	c04Silence()
	rec := vk.New(t, "C04", "concurrent")
	rapid.Check(t, func(t *rapid.T) {
		c := rec.Begin()
		defer c.End()
		s := c04GenSim(t, c, 9)
		// sequential prefix: every PodGroup and every pod is known to the cache
		for _, g := range s.gangs {
			if g.crd {
				s.pgAdd(t, g)
			}
			n := rapid.IntRange(1, g.min+1).Draw(t, "pods")
			for i := 0; i < n && len(s.pods) < s.maxPods; i++ {
				s.deliverTo(s.newPod(g, false), 1)
			}
		}
		// a short sequential warm-up with the scheduling rules only (no deletes, no lag): reach a mid-flight state
		warm := []c04Rule{}
		for _, r := range s.rules() {
			switch r.name {
			case "permit", "postBind", "bindOK", "bindFail", "unreserveRejected", "permitTimeout":
				warm = append(warm, r)
			}
		}
		for k := rapid.IntRange(0, 8).Draw(t, "warmup"); k > 0; k-- {
			s.step(t, warm)
		}
		for _, p := range s.pods { // let the informer catch up: the concurrent phase starts from a consistent state
			if p.delivered < p.apiVer {
				s.deliverTo(p, p.apiVer)
			}
		}
		s.checkPartition(t)
		if s.dead {
			return
		}
		np := len(s.pods)
		kinds := []int{0, 0, 0, 1, 2}
		if os.Getenv("VERIF_C04_PGRACE") != "" { // exploration only: PodGroup updates racing Permit (see the report)
			kinds = append(kinds, 3, 3)
		}
		iev := make([]c04IEv, rapid.IntRange(1, 14).Draw(t, "informerEvents"))
		for i := range iev {
			iev[i] = c04IEv{pod: rapid.IntRange(0, np-1).Draw(t, "iPod"), kind: rapid.SampledFrom(kinds).Draw(t, "iKind")}
		}
		sev := make([]c04SEv, rapid.IntRange(1, 14).Draw(t, "schedulingEvents"))
		for i := range sev {
			sev[i] = c04SEv{pod: rapid.IntRange(0, np-1).Draw(t, "sPod"), bindOK: rapid.IntRange(0, 3).Draw(t, "bindOK") > 0}
		}
		// objects the scheduling goroutine works with are fixed before the race starts
		for _, p := range s.pods {
			if p.schedObj == nil {
				p.schedObj = s.cycleObj(p, true)
			}
		}
		// expected state as implied by the scheduling goroutine's operations alone
		exp := make([]int, np)
		for i, p := range s.pods {
			exp[i] = p.st
		}
		once := append([]bool{}, s.once...)
		var ilog, slog []string
		var sviol []string
		start := make(chan struct{})
		done := make(chan struct{}, 2)
		go func() { // informer goroutine
			defer func() { done <- struct{}{} }()
			<-start
			for _, e := range iev {
				p := s.pods[e.pod]
				if e.kind == 3 {
					if g := p.gang; g.crd && g.pgExists {
						old := g.pgObj
						g.pgVer++
						g.pgObj = g.buildPG()
						s.cache.onPodGroupUpdate(old, g.pgObj)
						ilog = append(ilog, fmt.Sprintf("podgroup status update %s", g.id))
					}
					continue
				}
				if p.deleteDelivered {
					continue
				}
				switch e.kind {
				case 0:
					p.apiVer++
					s.cache.onPodUpdate(p.obj(p.delivered), p.obj(p.apiVer))
					ilog = append(ilog, fmt.Sprintf("update %s v%d->v%d", p.name, p.delivered, p.apiVer))
					p.delivered = p.apiVer
				case 1:
					s.cache.onPodUpdate(p.obj(p.delivered), p.obj(p.delivered))
					ilog = append(ilog, fmt.Sprintf("resync %s", p.name))
				default:
					p.apiDeleted, p.deleteDelivered = true, true
					s.cache.onPodDelete(p.obj(p.delivered))
					ilog = append(ilog, fmt.Sprintf("delete %s", p.name))
				}
			}
		}()
		go func() { // scheduling goroutine: owns the waiting-pod map and the framework phases
			defer func() { done <- struct{}{} }()
			<-start
			ctx := context.TODO()
			unreserve := func(p *c04Pod, why string) {
				s.mgr.Unreserve(ctx, framework.NewCycleState(), p.schedObj, "node-1", s.h, Name)
				if exp[p.idx] == c04Waiting {
					exp[p.idx] = c04Pending
				}
				p.phase, p.decision = c04PhQueue, c04DecNone
				slog = append(slog, fmt.Sprintf("unreserve %s (%s)", p.name, why))
			}
			for _, e := range sev {
				p := s.pods[e.pod]
				switch {
				case p.phase == c04PhQueue && exp[p.idx] != c04Bound:
					_, st := s.mgr.Permit(ctx, p.schedObj)
					switch st {
					case PodGroupNotFound:
						slog = append(slog, fmt.Sprintf("permit %s -> not found", p.name))
						unreserve(p, "permit refused")
					case Success, Wait:
						exp[p.idx] = c04Waiting
						slog = append(slog, fmt.Sprintf("permit %s -> %s", p.name, st))
						if st == Wait {
							p.phase, p.decision = c04PhParked, c04DecNone
							break
						}
						p.phase = c04PhBinding
						// upper bound of what can be counted: everything this goroutine brought to waiting / bound
						for _, gi := range s.groups[p.gang.grp] {
							g := s.gangs[gi]
							w, b := 0, 0
							for _, q := range s.pods {
								if q.gang == g && exp[q.idx] == c04Waiting {
									w++
								}
								if q.gang == g && exp[q.idx] == c04Bound {
									b++
								}
							}
							sat := w >= g.effMin
							switch g.effPolicy {
							case extension.GangMatchPolicyWaitingAndRunning:
								sat = w+b >= g.effMin
							case extension.GangMatchPolicyOnceSatisfied:
								sat = sat || once[g.grp]
							}
							if !sat {
								sviol = append(sviol, fmt.Sprintf("Permit(%s)=Success but gang %s (%s, min %d) has at most waiting=%d bound=%d", p.key, g.id, g.effPolicy, g.effMin, w, b))
							}
						}
						s.mgr.AllowGangGroup(p.schedObj, s.h, Name)
					}
				case p.phase == c04PhParked && p.decision == c04DecNone:
					p.decision = c04DecRejected
					unreserve(p, "timeout")
				case p.phase == c04PhParked && p.decision == c04DecRejected:
					unreserve(p, "rejected")
				case c04Binding(p):
					if e.bindOK {
						s.mgr.PostBind(ctx, p.schedObj, "node-1")
						exp[p.idx] = c04Bound
						once[p.gang.grp] = true
						p.phase = c04PhDone
						slog = append(slog, fmt.Sprintf("postBind %s", p.name))
					} else {
						unreserve(p, "bind failed")
					}
				case p.phase == c04PhPostBindDue:
					s.mgr.PostBind(ctx, p.schedObj, "node-1")
					exp[p.idx] = c04Bound
					once[p.gang.grp] = true
					p.phase = c04PhDone
					slog = append(slog, fmt.Sprintf("postBind %s", p.name))
				}
			}
		}()
		close(start)
		<-done
		<-done
		s.logf("CONCURRENT informer=%v scheduling=%v", ilog, slog)
		deleted, bound := 0, 0
		for _, p := range s.pods {
			if p.deleteDelivered {
				deleted++
			}
			if exp[p.idx] == c04Bound {
				bound++
			}
		}
		c.ClassIf(deleted > 0, "delete-raced")
		c.ClassIf(bound > 0, "postbind-raced")
		c.ClassIf(len(ilog) >= 3 && len(slog) >= 3, "both-goroutines>=3-ops")
		if len(ilog) >= 3 && len(slog) >= 3 {
			c.NonTrivial(s.describe())
		}
		if c.WantSample() {
			c.Sample(map[string]any{"setup": strings.SplitN(s.describe(), " history=", 2)[0], "history": s.hist})
		}
		if len(sviol) > 0 {
			s.violation(t, "concurrent:released-while-group-unsatisfied", "%s", strings.Join(sviol, "; "))
			return
		}
		// quiescence
		sums := s.mgr.GetGangSummaries()
		for _, g := range s.gangs {
			sum := sums[g.id]
			if sum == nil {
				continue
			}
			for _, key := range c04Sorted(sum.Children) {
				if in := c04Sets(sum, key); len(in) != 1 {
					s.violation(t, c04PartitionSig(in), "at quiescence gang %s: member %s is in sets %v", g.id, key, in)
					return
				}
			}
		}
		for _, p := range s.pods {
			if p.deleteDelivered {
				continue
			}
			sum := sums[p.gang.id]
			if sum == nil || !sum.Children.Has(p.key) {
				s.violation(t, "concurrent:live-member-lost", "at quiescence live pod %s is not a child of %s", p.key, p.gang.id)
				return
			}
			if in := c04Sets(sum, p.key); len(in) == 1 && in[0] != c04StName[exp[p.idx]] {
				s.violation(t, "concurrent:wrong-set:want-"+c04StName[exp[p.idx]]+"-got-"+in[0], "at quiescence pod %s is %s in the cache, the scheduling operations imply %s", p.key, in[0], c04StName[exp[p.idx]])
				return
			}
		}
	})
}
