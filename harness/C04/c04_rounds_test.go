//go:build verif

// C04, scheduling rounds — the same reference model and oracles as c04_gang_test.go, but every scheduling cycle is driven
// the way koord-scheduler drives a gang group: NextPod / queue pop -> BeforePreFilter (which opens the round's
// GangSchedulingContext) -> Permit, or no node fits -> AfterPostFilter, or Reserve fails -> Unreserve. The first member
// that fails in a round becomes the round's trigger pod; later members of the round fail in BeforePreFilter and still
// get AfterPostFilter (RunPostFilterPlugins runs for every pod whose PreFilter was rejected).
//
// Why a separate test: the strict-mode clause ("a failed member of a strict gang causes all waiting members of the
// group to be rejected") must also hold for the 2nd, 3rd ... failing member of a round, in particular in a gang group
// that mixes Strict and NonStrict gangs where the trigger pod belongs to a NonStrict gang and rolled back nothing.
//
// NextPod picks "any pending member that was not attempted in this round" by Go map order. To stay deterministic the
// harness makes that choice itself (rapid draw over the sorted candidates) and records the attempt in the round's
// context exactly as NextPod does; the real NextPod is called whenever its result does not depend on map order
// (no candidate: it rejects the group and closes the round; one candidate: it must return it).
package core

import (
	"context"
	"sort"
	"testing"

	corev1 "k8s.io/api/core/v1"
	fwktype "k8s.io/kube-scheduler/framework"
	"k8s.io/kubernetes/pkg/scheduler/framework"
	"pgregory.net/rapid"

	"github.com/koordinator-sh/koordinator/apis/extension"
	"github.com/koordinator-sh/koordinator/pkg/scheduler/frameworkext"
	"github.com/koordinator-sh/koordinator/pkg/verifkit/vk"
)

// the only part of the snapshot the gang code reads on these paths: the number of nodes (for a message)
type c04NodeLister struct {
	fwktype.SharedLister
	fwktype.NodeInfoLister
}

func (l *c04NodeLister) NodeInfos() fwktype.NodeInfoLister     { return l }
func (l *c04NodeLister) List() ([]fwktype.NodeInfo, error)     { return nil, nil }
func (h *c04Handle) SnapshotSharedLister() fwktype.SharedLister { return &c04NodeLister{} }

func (s *c04Sim) podByKey(key string) *c04Pod {
	for _, p := range s.pods {
		if p.key == key {
			return p
		}
	}
	return nil
}

// roundCandidates lists what NextPod could return now: pending members (as the cache sees them) of the gangs of the open
// round that were not yet attempted in it, sorted by key.
func (s *c04Sim) roundCandidates(gctx *GangSchedulingContext) []string {
	var out []string
	gctx.RLock()
	defer gctx.RUnlock()
	for _, id := range c04Sorted(gctx.gangGroup) {
		sum, ok := s.mgr.GetGangSummary(id)
		if !ok {
			continue
		}
		for _, key := range c04Sorted(sum.PendingChildren) {
			if !gctx.alreadyAttemptedPods.Has(key) {
				out = append(out, key)
			}
		}
	}
	sort.Strings(out)
	return out
}

// afterPostFilter: pod p turned out unschedulable in this cycle (state is the cycle's state).
func (s *c04Sim) afterPostFilter(t *rapid.T, p *c04Pod, obj *corev1.Pod, state fwktype.CycleState, why string) {
	g := p.gang
	e := s.expectReject(p)
	// shape of the round at this instant (classification only)
	if gctx := s.mgr.holder.getCurrentGangSchedulingContext(); gctx != nil {
		if tp := gctx.triggerPod; tp == nil {
			s.c.Class("round:first-failing-member")
			s.c.ClassIf(g.recInit && g.effMode == extension.GangModeNonStrict, "round:first-failing-member-is-nonstrict")
		} else if tp.UID != obj.UID {
			s.c.Class("round:later-failing-member")
			trig := s.podByKey(tp.Namespace + "/" + tp.Name)
			if trig != nil && trig.gang.recInit && trig.gang.effMode == extension.GangModeNonStrict && g.recInit && g.effMode == extension.GangModeStrict {
				s.c.Class("round:strict-member-fails-after-nonstrict-trigger")
				s.c.ClassIf(e.active && len(e.undecided) > 0, "round:strict-member-fails-after-nonstrict-trigger-with-waiting-members")
			}
		}
	}
	s.rejected = nil
	// node-status map and post-filter status are not needed by the roll-back (nil keeps the condition patching, which
	// needs an API client, out of the picture)
	s.mgr.AfterPostFilter(context.TODO(), state, obj, s.h, Name, nil, nil)
	s.logf("afterPostFilter %s (%s) -> rejected %v", p.name, why, s.rejected)
	s.disturb(g.grp, "unschedulable-between-permits")
	s.checkReject(t, e, "afterPostFilter("+why+")", p)
}

// loop is one iteration of the scheduler loop: pick the next pod (NextPod, else the queue) and run its scheduling cycle.
func (s *c04Sim) loop(t *rapid.T) {
	var p *c04Pod
	if gctx := s.mgr.holder.getCurrentGangSchedulingContext(); gctx != nil {
		s.c.Class("round:loop-iteration-inside-a-round")
		switch cands := s.roundCandidates(gctx); len(cands) {
		case 0:
			s.rejected = nil
			r := s.mgr.NextPod()
			s.logf("nextPod -> none left, round closed, rejected %v", s.rejected)
			s.c.Class("round:closed-by-nextpod")
			s.c.ClassIf(r != nil, "harness:nextpod-returned-a-pod-without-candidates(not asserted)")
			if r != nil {
				p = s.podByKey(r.Namespace + "/" + r.Name)
			}
		case 1:
			r := s.mgr.NextPod()
			if r != nil {
				p = s.podByKey(r.Namespace + "/" + r.Name)
				s.logf("nextPod -> %s", p.name)
			} else {
				s.logf("nextPod -> nil")
			}
			s.c.ClassIf(r == nil || r.Namespace+"/"+r.Name != cands[0], "harness:nextpod-differs-from-single-candidate(not asserted)")
		default:
			key := cands[rapid.IntRange(0, len(cands)-1).Draw(t, "nextPod")]
			gctx.Lock()
			gctx.alreadyAttemptedPods.Insert(key) // what NextPod does for the pod it picks
			gctx.Unlock()
			p = s.podByKey(key)
			s.logf("nextPod -> %s (one of %d)", p.name, len(cands))
		}
		if p != nil && !c04InCycle(p) {
			// e.g. deleted at the API but the delete has not reached the cache: the scheduler skips such a pod
			s.logf("cycle of %s skipped (phase %s)", p.name, c04PhName[p.phase])
			return
		}
	}
	if p == nil { // nothing from NextPod: pop the queue
		var el []*c04Pod
		for _, q := range s.pods {
			if c04InCycle(q) {
				el = append(el, q)
			}
		}
		if len(el) == 0 {
			s.logf("queue empty")
			return
		}
		p = el[rapid.IntRange(0, len(el)-1).Draw(t, "queuePop")]
	}
	outcome := rapid.SampledFrom([]string{"permit", "permit", "permit", "unschedulable", "unschedulable", "reserveFail"}).Draw(t, "outcome")
	state := framework.NewCycleState()
	obj := s.cycleObj(p, false)
	frameworkext.InitDiagnosis(state, obj)
	before := s.mgr.holder.getCurrentGangSchedulingContext()
	err := s.mgr.BeforePreFilter(context.TODO(), state, obj)
	after := s.mgr.holder.getCurrentGangSchedulingContext()
	s.c.ClassIf(before == nil && after != nil, "round:opened")
	if err != nil {
		s.logf("beforePreFilter %s -> rejected", p.name)
		s.c.ClassIf(before != nil && before.failedMessage != "", "round:member-rejected-because-the-round-already-failed")
		s.afterPostFilter(t, p, obj, state, "prefilter rejected")
		return
	}
	s.logf("beforePreFilter %s -> ok", p.name)
	switch outcome {
	case "permit":
		s.permit(t, p)
	case "unschedulable":
		s.afterPostFilter(t, p, obj, state, "no node fits")
	default:
		p.schedObj = s.cycleObj(p, true)
		s.unreserve(t, p, "reserve failed")
	}
}

// drawVariants adds what the plain generator never writes: the other spellings of the gang annotations and gang
// groups that are only bundled after the gangs were first seen. Called right after c04GenSim, before any object exists.
//   - match policy through the compatibility key pod-group.scheduling.sigs.k8s.io/match-policy (alone, or next to the
//     primary key which then wins); light-weight name label with min-available given by the annotation;
//   - late bundling: the PodGroup gangs of a multi-gang group start stand-alone (no groups annotation) and get the
//     groups annotation by a later PodGroup update (rule pgBundle). Until then such a gang declares only itself.
func (s *c04Sim) drawVariants(t *rapid.T) {
	for _, g := range s.gangs {
		if g.policy != "" {
			g.policySpelling = rapid.SampledFrom([]int{0, 1, 1, 2}).Draw(t, "policySpelling")
		}
		if g.light {
			g.lightMinAnno = rapid.Bool().Draw(t, "lightMinByAnnotation")
		}
	}
	// re-submitted jobs need groups made of PodGroup gangs only: force that now and then
	for _, members := range s.groups {
		if len(members) >= 2 && rapid.IntRange(0, 3).Draw(t, "allPodGroups") == 3 {
			for _, gi := range members {
				s.gangs[gi].crd, s.gangs[gi].light, s.gangs[gi].lightMinAnno = true, false, false
			}
		}
	}
	for _, members := range s.groups {
		if len(members) < 2 || !rapid.Bool().Draw(t, "lateBundling") {
			continue
		}
		for _, gi := range members {
			if g := s.gangs[gi]; g.crd {
				g.lateAnno, g.groupAnno = g.groupAnno, ""
				g.declGroup = []int{g.idx}
				g.everStandalone = true
			}
		}
	}
}

func (s *c04Sim) variantRules() []c04Rule {
	return []c04Rule{
		{name: "pgBundle", w: 4, gang: func(g *c04Gang) bool { return g.crd && g.pgExists && g.lateAnno != "" }, run: func(t *rapid.T, _ *c04Pod, g *c04Gang) {
			g.groupAnno, g.lateAnno, g.declGroup = g.lateAnno, "", nil
			old := g.pgObj
			g.pgVer++
			g.pgObj = g.buildPG()
			s.cache.onPodGroupUpdate(old, g.pgObj)
			s.logf("podgroup update %s: bundled, groups=%s", g.id, g.groupAnno)
			s.modelPG(g, "update")
			s.c.Class("variant:group-bundled-by-a-later-podgroup-update")
		}},
		s.resubmitRule(),
	}
}

// resubmitRule: a job made of a multi-gang group of PodGroups is deleted as a whole (all its PodGroups, and its pods at the
// API: their informer deletes arrive later through the ordinary deliver rule) and, mostly at once, submitted again with
// the same names and annotations; the pods of the new run are created by the ordinary rules (the pod budget grows).
func (s *c04Sim) resubmitRule() c04Rule {
	whole := func(g *c04Gang) bool { // g is the first gang of a group of >= 2 PodGroup gangs that all exist
		m := s.groups[g.grp]
		if len(m) < 2 || m[0] != g.idx {
			return false
		}
		for _, gi := range m {
			if gg := s.gangs[gi]; !gg.crd || !gg.pgExists {
				return false
			}
		}
		return true
	}
	return c04Rule{name: "groupResubmit", w: 3, gang: whole, run: func(t *rapid.T, _ *c04Pod, g *c04Gang) {
		s.c.Class("variant:whole-multi-gang-podgroup-group-deleted")
		s.c.ClassIf(s.once[g.grp], "variant:whole-multi-gang-podgroup-group-deleted-after-it-was-bound-once")
		deletePods := rapid.IntRange(0, 3).Draw(t, "deletePods") > 0
		again := rapid.IntRange(0, 3).Draw(t, "submitAgain") > 0
		for _, gi := range s.groups[g.grp] {
			gg := s.gangs[gi]
			gg.pgExists = false
			s.cache.onPodGroupDelete(gg.pgObj)
			s.logf("podgroup delete %s (whole group)", gg.id)
			s.modelPG(gg, "delete")
		}
		if deletePods {
			for _, p := range s.pods {
				if p.gang.grp == g.grp && !p.apiDeleted {
					p.apiDeleted = true
					s.maxPods++
					s.logf("api delete %s", p.name)
				}
			}
		}
		if again {
			for _, gi := range s.groups[g.grp] {
				s.pgAdd(t, s.gangs[gi])
			}
			s.resubmitted[g.grp] = true
		}
	}}
}

func (s *c04Sim) finishVariants() {
	for _, g := range s.gangs {
		s.c.ClassIf(g.policySpelling == 1, "variant:match-policy-by-alias-key")
		s.c.ClassIf(g.policySpelling == 1 && g.recInit && g.effPolicy != s.args.DefaultMatchPolicy, "variant:match-policy-by-alias-key-differs-from-default")
		s.c.ClassIf(g.policySpelling == 2, "variant:match-policy-by-both-keys")
		s.c.ClassIf(g.lightMinAnno, "variant:lightweight-name-with-annotation-min")
		s.c.ClassIf(g.lateAnno != "", "variant:group-never-bundled")
	}
}

// the History machine (direct Permit / AfterPostFilter / reserve failure, no rounds) over the variants
func TestVerifC04HistoryVariants(t *testing.T) {
	c04Silence()
	rec := vk.New(t, "C04", "historyVariants")
	rapid.Check(t, func(t *rapid.T) {
		c := rec.Begin()
		defer c.End()
		s := c04GenSim(t, c, 9)
		s.drawVariants(t)
		s.populate(t)
		rules := append(s.rules(), s.variantRules()...)
		t.Repeat(map[string]func(*rapid.T){
			"step": func(t *rapid.T) { s.step(t, rules) },
			"":     func(t *rapid.T) { s.checkPartition(t) },
		})
		s.finishVariants()
		s.finish()
	})
}

func TestVerifC04Rounds(t *testing.T) {
	c04Silence()
	rec := vk.New(t, "C04", "rounds")
	rapid.Check(t, func(t *rapid.T) {
		c := rec.Begin()
		defer c.End()
		s := c04GenSim(t, c, 12)
		s.drawVariants(t)
		// every gang mostly complete, so that rounds can open (BeforePreFilter wants min children in every gang)
		for _, g := range s.gangs {
			if g.crd && rapid.IntRange(0, 9).Draw(t, "pgAbsent") != 9 {
				s.pgAdd(t, g)
			}
			n := g.min + rapid.IntRange(-1, 1).Draw(t, "podsVsMin")
			for i := 0; i < n && len(s.pods) < s.maxPods; i++ {
				p := s.newPod(g, rapid.IntRange(0, 14).Draw(t, "preBound") == 14)
				if rapid.IntRange(0, 9).Draw(t, "lateAdd") != 9 {
					s.deliverTo(p, 1)
				}
			}
		}
		var rules []c04Rule
		rules = append(rules, c04Rule{name: "loop", w: 14, other: func() bool { return true }, run: func(t *rapid.T, _ *c04Pod, _ *c04Gang) { s.loop(t) }})
		for _, r := range s.rules() {
			switch r.name {
			case "permit", "postFilterFail", "reserveFail": // replaced by the loop
			case "podDelete", "pgDelete", "podTouch", "resync":
				r.w = 1
				rules = append(rules, r)
			default:
				rules = append(rules, r)
			}
		}
		rules = append(rules, s.variantRules()...)
		t.Repeat(map[string]func(*rapid.T){
			"step": func(t *rapid.T) { s.step(t, rules) },
			"":     func(t *rapid.T) { s.checkPartition(t) },
		})
		s.finishVariants()
		mixed := false
		for _, m := range s.groups {
			strict, non := false, false
			for _, gi := range m {
				if g := s.gangs[gi]; g.mode == extension.GangModeNonStrict {
					non = true
				} else {
					strict = true
				}
			}
			mixed = mixed || (strict && non)
		}
		c.ClassIf(mixed, "mixed-mode-group")
		s.finish()
	})
}

var _ = vk.Thorough
