//go:build verif

// C16 (b)+(c) — eviction caps of PodEvictor, sequential and with concurrent callers.
// See /verif/DESIGN.md §1 C16 and harness/C16/c16kit.go (shared machinery, package c16kit).
package evictions

import (
	"context"
	"testing"

	corev1 "k8s.io/api/core/v1"
	"pgregory.net/rapid"

	"github.com/koordinator-sh/koordinator/pkg/descheduler/framework"
	"github.com/koordinator-sh/koordinator/pkg/verifkit/c16kit"
	"github.com/koordinator-sh/koordinator/pkg/verifkit/vk"
)

func c16Quiet() { c16kit.QuietKlog() }

// c16PodEvictor builds the real PodEvictor on top of the gate clientset.
func c16PodEvictor(sc *c16kit.Scenario, env *c16kit.Env) *c16kit.SUT {
	pe := NewPodEvictor(env.Client, env.Recorder, "policy/v1", sc.DryRun, sc.CapNode, sc.CapNs)
	return &c16kit.SUT{
		Name: "podevictor",
		Evict: func(ctx context.Context, pod *corev1.Pod) bool {
			return pe.Evict(ctx, pod, framework.EvictOptions{PluginName: "verif", Reason: "c16"})
		},
		HasCounters:      true,
		NodeEvicted:      pe.NodeEvicted,
		NamespaceEvicted: pe.NamespaceEvicted,
		TotalEvicted:     pe.TotalEvicted,
		CountersInDryRun: false,
	}
}

func TestVerifC16PodEvictorSequential(t *testing.T) {
	c16Quiet()
	rec := vk.New(t, "C16", "podEvictorSequential")
	rapid.Check(t, func(t *rapid.T) {
		c := rec.Begin()
		defer c.End()
		c16kit.RunSequential(t, c, c16PodEvictor, false)
	})
}

// One action per step, quiescence in between: the interleaving is exactly the drawn schedule.
func TestVerifC16PodEvictorInterleaved(t *testing.T) {
	c16Quiet()
	rec := vk.New(t, "C16", "podEvictorInterleaved")
	rapid.Check(t, func(t *rapid.T) {
		c := rec.Begin()
		defer c.End()
		c16kit.RunConcurrent(t, c, c16PodEvictor, false, false)
	})
}

// Batches of actions without waiting in between: real parallelism, run under -race.
func TestVerifC16PodEvictorParallel(t *testing.T) {
	c16Quiet()
	rec := vk.New(t, "C16", "podEvictorParallel")
	rapid.Check(t, func(t *rapid.T) {
		c := rec.Begin()
		defer c.End()
		c16kit.RunConcurrent(t, c, c16PodEvictor, false, true)
	})
}
