//go:build verif

// C16 (b)+(c) — eviction caps of the framework's evictorProxy (EvictionLimiter.AllowEvict -> evict
// plugin -> EvictionLimiter.Done), sequential and with concurrent callers.
// See /verif/DESIGN.md §1 C16 and harness/C16/c16kit.go (shared machinery, package c16kit).
package runtime

import (
	"context"
	"testing"

	corev1 "k8s.io/api/core/v1"
	"pgregory.net/rapid"

	"github.com/koordinator-sh/koordinator/pkg/descheduler/evictions"
	"github.com/koordinator-sh/koordinator/pkg/descheduler/framework"
	"github.com/koordinator-sh/koordinator/pkg/verifkit/c16kit"
	"github.com/koordinator-sh/koordinator/pkg/verifkit/vk"
)

func c16Quiet() { c16kit.QuietKlog() }

// c16EvictPlugin is what defaultevictor.DefaultEvictor is for the framework: an EvictPlugin that
// delegates to a PodEvictor without caps of its own (defaultevictor/evictor.go:90-97, :118).
type c16EvictPlugin struct{ pe *evictions.PodEvictor }

func (p *c16EvictPlugin) Name() string { return "C16Evictor" }
func (p *c16EvictPlugin) Evict(ctx context.Context, pod *corev1.Pod, o framework.EvictOptions) bool {
	return p.pe.Evict(ctx, pod, o)
}

// c16Proxy builds frameworkImpl{limiter, evict plugin}; every Evict goes through a fresh
// f.Evictor() proxy, as the descheduling plugins do (handle.Evictor().Evict(...)).
func c16Proxy(sc *c16kit.Scenario, env *c16kit.Env) *c16kit.SUT {
	limiter := evictions.NewEvictionLimiter(sc.CapNode, sc.CapNs, sc.CapTotal)
	plugin := &c16EvictPlugin{pe: evictions.NewPodEvictor(env.Client, env.Recorder, "policy/v1", false, nil, nil)}
	f := &frameworkImpl{
		dryRun:          sc.DryRun,
		clientSet:       env.Client,
		eventRecorder:   env.Recorder,
		evictionLimiter: limiter,
		evictPlugins:    []framework.EvictPlugin{plugin},
	}
	return &c16kit.SUT{
		Name: "evictorproxy",
		Evict: func(ctx context.Context, pod *corev1.Pod) bool {
			return f.Evictor().Evict(ctx, pod, framework.EvictOptions{PluginName: "verif", Reason: "c16"})
		},
		HasCounters:      true,
		NodeEvicted:      limiter.NodeEvicted,
		NamespaceEvicted: limiter.NamespaceEvicted,
		TotalEvicted:     func() int { return int(limiter.TotalEvicted()) },
		CountersInDryRun: true,
		Reset:            func() { f.Evictor().(*evictorProxy).Reset() },
	}
}

func TestVerifC16ProxySequential(t *testing.T) {
	c16Quiet()
	rec := vk.New(t, "C16", "evictorProxySequential")
	rapid.Check(t, func(t *rapid.T) {
		c := rec.Begin()
		defer c.End()
		c16kit.RunSequential(t, c, c16Proxy, true)
	})
}

func TestVerifC16ProxyInterleaved(t *testing.T) {
	c16Quiet()
	rec := vk.New(t, "C16", "evictorProxyInterleaved")
	rapid.Check(t, func(t *rapid.T) {
		c := rec.Begin()
		defer c.End()
		c16kit.RunConcurrent(t, c, c16Proxy, true, false)
	})
}

func TestVerifC16ProxyParallel(t *testing.T) {
	c16Quiet()
	rec := vk.New(t, "C16", "evictorProxyParallel")
	rapid.Check(t, func(t *rapid.T) {
		c := rec.Begin()
		defer c.End()
		c16kit.RunConcurrent(t, c, c16Proxy, true, true)
	})
}
