//go:build verif

// C16 (b') — the eviction caps hold for a whole descheduling cycle: everything that all Deschedule plugins and all
// Balance plugins of all profiles evict during one Descheduler.deschedulerOnce is charged to one budget.
// The real Descheduler loop, the real framework (profiles built by framework/testing.NewFramework), the real
// evictorProxy + EvictionLimiter and a PodEvictor-backed evict plugin on the gate clientset of package c16kit; the
// Deschedule / Balance plugins are harness plugins that ask handle.Evictor() to evict generated pods.
package descheduler

import (
	"context"
	"fmt"
	"testing"

	corev1 "k8s.io/api/core/v1"
	metav1 "k8s.io/apimachinery/pkg/apis/meta/v1"
	"k8s.io/apimachinery/pkg/runtime"
	"k8s.io/client-go/informers"
	"pgregory.net/rapid"

	deschedulerconfig "github.com/koordinator-sh/koordinator/pkg/descheduler/apis/config"
	"github.com/koordinator-sh/koordinator/pkg/descheduler/evictions"
	"github.com/koordinator-sh/koordinator/pkg/descheduler/framework"
	frameworkruntime "github.com/koordinator-sh/koordinator/pkg/descheduler/framework/runtime"
	frameworktesting "github.com/koordinator-sh/koordinator/pkg/descheduler/framework/testing"
	"github.com/koordinator-sh/koordinator/pkg/descheduler/profile"
	"github.com/koordinator-sh/koordinator/pkg/verifkit/c16kit"
	"github.com/koordinator-sh/koordinator/pkg/verifkit/vk"
)

// c16EvictPlugin: what defaultevictor.DefaultEvictor is for the framework (delegates to a PodEvictor without caps).
type c16EvictPlugin struct{ pe *evictions.PodEvictor }

func (p *c16EvictPlugin) Name() string { return "C16Evictor" }
func (p *c16EvictPlugin) Evict(ctx context.Context, pod *corev1.Pod, o framework.EvictOptions) bool {
	return p.pe.Evict(ctx, pod, o)
}

// c16VictimPlugin evicts, through the framework's evictor, the pods it is told to; registered as Deschedule or Balance plugin.
type c16VictimPlugin struct {
	name    string
	handle  framework.Handle
	victims []*c16kit.Req
}

func (p *c16VictimPlugin) Name() string { return p.name }
func (p *c16VictimPlugin) evictAll(ctx context.Context) *framework.Status {
	for _, r := range p.victims {
		r.SetReturned(p.handle.Evictor().Evict(ctx, r.Pod(), framework.EvictOptions{PluginName: p.name, Reason: "c16"}))
	}
	return &framework.Status{}
}
func (p *c16VictimPlugin) Deschedule(ctx context.Context, nodes []*corev1.Node) *framework.Status {
	return p.evictAll(ctx)
}
func (p *c16VictimPlugin) Balance(ctx context.Context, nodes []*corev1.Node) *framework.Status {
	return p.evictAll(ctx)
}

func c16Descheduler(sc *c16kit.Scenario, env *c16kit.Env, nD, nB []int) *c16kit.CycleSUT {
	ctx := context.TODO()
	for _, n := range sc.Nodes {
		node := &corev1.Node{ObjectMeta: metav1.ObjectMeta{Name: n},
			Status: corev1.NodeStatus{Conditions: []corev1.NodeCondition{{Type: corev1.NodeReady, Status: corev1.ConditionTrue}}}}
		if _, err := env.Client.CoreV1().Nodes().Create(ctx, node, metav1.CreateOptions{}); err != nil {
			panic(err)
		}
	}
	limiter := evictions.NewEvictionLimiter(sc.CapNode, sc.CapNs, sc.CapTotal)
	// the node informer is never started: ReadyNodes then lists the nodes from the clientset (no goroutines per case)
	informerFactory := informers.NewSharedInformerFactory(env.Client, 0)
	nodeInformer := informerFactory.Core().V1().Nodes()
	profiles := profile.Map{}
	type pl struct{ d, b []*c16VictimPlugin }
	var plugins []pl
	for p := range nD {
		var cur pl
		fns := []frameworktesting.RegisterPluginFunc{
			func(reg *frameworkruntime.Registry, prof *deschedulerconfig.DeschedulerProfile) {
				_ = reg.Register("C16Evictor", func(ctx context.Context, args runtime.Object, handle framework.Handle) (framework.Plugin, error) {
					return &c16EvictPlugin{pe: evictions.NewPodEvictor(env.Client, env.Recorder, "policy/v1", false, nil, nil)}, nil
				})
				prof.Plugins.Evict.Enabled = append(prof.Plugins.Evict.Enabled, deschedulerconfig.Plugin{Name: "C16Evictor"})
			},
		}
		add := func(v *c16VictimPlugin, balance bool) {
			fns = append(fns, func(reg *frameworkruntime.Registry, prof *deschedulerconfig.DeschedulerProfile) {
				_ = reg.Register(v.name, func(ctx context.Context, args runtime.Object, handle framework.Handle) (framework.Plugin, error) {
					v.handle = handle
					return v, nil
				})
				if balance {
					prof.Plugins.Balance.Enabled = append(prof.Plugins.Balance.Enabled, deschedulerconfig.Plugin{Name: v.name})
				} else {
					prof.Plugins.Deschedule.Enabled = append(prof.Plugins.Deschedule.Enabled, deschedulerconfig.Plugin{Name: v.name})
				}
			})
		}
		for i := 0; i < nD[p]; i++ {
			v := &c16VictimPlugin{name: fmt.Sprintf("c16-deschedule-%d-%d", p, i)}
			cur.d = append(cur.d, v)
			add(v, false)
		}
		for i := 0; i < nB[p]; i++ {
			v := &c16VictimPlugin{name: fmt.Sprintf("c16-balance-%d-%d", p, i)}
			cur.b = append(cur.b, v)
			add(v, true)
		}
		name := fmt.Sprintf("c16-profile-%d", p)
		fh, err := frameworktesting.NewFramework(fns, name,
			frameworkruntime.WithDryRun(sc.DryRun),
			frameworkruntime.WithClientSet(env.Client),
			frameworkruntime.WithEventRecorder(env.Recorder),
			frameworkruntime.WithSharedInformerFactory(informerFactory),
			frameworkruntime.WithEvictionLimiter(limiter))
		if err != nil {
			panic(fmt.Sprintf("building the framework: %v", err))
		}
		profiles[name] = fh
		plugins = append(plugins, cur)
	}
	d := &Descheduler{Profiles: profiles, clientSet: env.Client, nodeInformer: nodeInformer, evictionLimiter: limiter}
	return &c16kit.CycleSUT{
		Name: "descheduler-cycle",
		RunCycle: func(work []c16kit.ProfileWork) error {
			for p := range plugins {
				for i, v := range plugins[p].d {
					v.victims = work[p].Deschedule[i]
				}
				for i, v := range plugins[p].b {
					v.victims = work[p].Balance[i]
				}
			}
			return d.deschedulerOnce(ctx)
		},
		NodeEvicted:      limiter.NodeEvicted,
		NamespaceEvicted: limiter.NamespaceEvicted,
		TotalEvicted:     func() int { return int(limiter.TotalEvicted()) },
	}
}

func TestVerifC16DeschedulerCycle(t *testing.T) {
	c16kit.QuietKlog()
	rec := vk.New(t, "C16", "deschedulerCycle")
	rapid.Check(t, func(t *rapid.T) {
		c := rec.Begin()
		defer c.End()
		c16kit.RunCycles(t, c, c16Descheduler)
	})
}
