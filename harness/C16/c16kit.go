//go:build verif

// Package c16kit is the machinery shared by the two eviction-cap harnesses of property C16
// (pkg/descheduler/evictions and pkg/descheduler/framework/runtime). It is injected with the
// build overlay as github.com/koordinator-sh/koordinator/pkg/verifkit/c16kit (see lib/props/C16.py)
// and never committed to /repo. See /verif/DESIGN.md §1 C16 (b) and (c).
//
// What it provides:
//   - Gate: the fake eviction endpoint. It is reached through a clientset wrapper whose
//     PolicyV1().Evictions(ns).Evict does NOT go through client-go's Fake (that one serialises all
//     reactors under a mutex). In "park" mode every in-flight API call blocks on its own channel
//     until the harness releases it, so the interleaving around the API call is owned by rapid.
//   - a scheduler that starts worker goroutines and releases parked calls in a rapid-drawn order,
//     waiting for quiescence (every started worker parked / finished / blocked on a lock) between
//     steps. Quiescence is observed, not slept for: counters first, and if the implementation under
//     test holds a lock across the API call, a consistent goroutine-state snapshot (runtime.Stack).
//   - the independent oracle: a plain count of the API calls that succeeded, grouped by node /
//     namespace / total, compared with the caps and with the counters the evictor reports.
package c16kit

import (
	"context"
	"flag"
	"fmt"
	"io"
	"os"
	"regexp"
	"runtime"
	"sort"
	"strings"
	"sync"
	"time"

	corev1 "k8s.io/api/core/v1"
	policy "k8s.io/api/policy/v1"
	apierrors "k8s.io/apimachinery/pkg/api/errors"
	metav1 "k8s.io/apimachinery/pkg/apis/meta/v1"
	k8sruntime "k8s.io/apimachinery/pkg/runtime"
	"k8s.io/apimachinery/pkg/runtime/schema"
	"k8s.io/apimachinery/pkg/types"
	clientset "k8s.io/client-go/kubernetes"
	"k8s.io/client-go/kubernetes/fake"
	typedpolicyv1 "k8s.io/client-go/kubernetes/typed/policy/v1"
	"k8s.io/klog/v2"
	"pgregory.net/rapid"

	"github.com/koordinator-sh/koordinator/pkg/verifkit/vk"
)

// QuietKlog silences klog for the test process (the evictors log every refusal and every failed call).
func QuietKlog() {
	fs := flag.NewFlagSet("c16", flag.ContinueOnError)
	klog.InitFlags(fs)
	_ = fs.Set("logtostderr", "false")
	_ = fs.Set("alsologtostderr", "false")
	_ = fs.Set("stderrthreshold", "FATAL")
	klog.SetOutput(io.Discard)
	klog.StopFlushDaemon() // a background goroutine that takes klog's lock: keep it out of the quiescence picture
}

// ---------------------------------------------------------------- scenario

// Outcome of one eviction API call, decided by the generator (not by the code under test).
type Outcome int

const (
	OK Outcome = iota
	NotFound
	TooManyRequests
	ServerError
)

func (o Outcome) String() string {
	return [...]string{"ok", "notfound", "429", "500"}[o]
}

func (o Outcome) err(name string) error {
	switch o {
	case NotFound:
		return apierrors.NewNotFound(schema.GroupResource{Resource: "pods"}, name)
	case TooManyRequests:
		return apierrors.NewTooManyRequests("disruption budget", 1)
	case ServerError:
		return apierrors.NewInternalError(fmt.Errorf("injected failure"))
	}
	return nil
}

// Req is one eviction request (one pod) and, after the run, what happened to it.
type Req struct {
	Worker, Index  int
	Node, Ns, Name string
	Outcome        Outcome
	NewCycle       bool // sequential only: a new descheduling cycle starts before this request (limiter Reset)
	// results (guarded by Gate.mu while workers run)
	apiCalls int   // how often the API endpoint was reached for this pod
	returned *bool // what Evict returned
}

func (r *Req) key() string { return r.Ns + "/" + r.Name }

func (r *Req) String() string {
	ret := "?"
	if r.returned != nil {
		ret = fmt.Sprint(*r.returned)
	}
	cyc := ""
	if r.NewCycle {
		cyc = "[new cycle] "
	}
	return fmt.Sprintf("%sw%d.%d %s node=%q api=%s -> called=%d evict()=%s", cyc, r.Worker, r.Index, r.key(), r.Node, r.Outcome, r.apiCalls, ret)
}

func (r *Req) Pod() *corev1.Pod {
	return &corev1.Pod{
		ObjectMeta: metav1.ObjectMeta{Namespace: r.Ns, Name: r.Name, UID: types.UID("uid-" + r.Name)},
		Spec:       corev1.PodSpec{NodeName: r.Node},
		Status:     corev1.PodStatus{Phase: corev1.PodRunning},
	}
}

// Scenario is one generated case.
type Scenario struct {
	Nodes, Namespaces        []string
	CapNode, CapNs, CapTotal *uint
	DryRun                   bool
	Workers                  [][]*Req
}

func capStr(c *uint) string {
	if c == nil {
		return "unset"
	}
	return fmt.Sprint(*c)
}

func (sc *Scenario) String() string {
	return fmt.Sprintf("caps{node=%s ns=%s total=%s} dryRun=%v", capStr(sc.CapNode), capStr(sc.CapNs), capStr(sc.CapTotal), sc.DryRun)
}

func (sc *Scenario) all() []*Req {
	var out []*Req
	for _, w := range sc.Workers {
		out = append(out, w...)
	}
	return out
}

func genCap(t *rapid.T, label string, choices []int) *uint {
	v := rapid.SampledFrom(choices).Draw(t, label)
	if v < 0 {
		return nil
	}
	u := uint(v)
	return &u
}

// GenScenario draws caps (unset / 0 / small), 1-3 nodes, 1-3 namespaces and the request multiset.
// concurrent=false: one worker with 0..20 requests. concurrent=true: 2..16 workers with 1..3 each.
// hasTotal=false for evictors that have no total cap (PodEvictor).
func GenScenario(t *rapid.T, concurrent, hasTotal bool) *Scenario {
	sc := &Scenario{}
	nn := rapid.IntRange(1, 3).Draw(t, "nodes")
	for i := 0; i < nn; i++ {
		sc.Nodes = append(sc.Nodes, fmt.Sprintf("n%d", i))
	}
	ns := rapid.IntRange(1, 3).Draw(t, "namespaces")
	for i := 0; i < ns; i++ {
		sc.Namespaces = append(sc.Namespaces, fmt.Sprintf("ns%d", i))
	}
	sc.CapNode = genCap(t, "capNode", []int{-1, -1, 0, 1, 1, 2, 2, 3})
	sc.CapNs = genCap(t, "capNs", []int{-1, -1, -1, 0, 1, 1, 2, 3})
	if hasTotal {
		sc.CapTotal = genCap(t, "capTotal", []int{-1, -1, -1, 0, 1, 2, 3, 4, 5})
	}
	sc.DryRun = rapid.IntRange(0, 9).Draw(t, "dryRun") == 0
	failRate := rapid.SampledFrom([]int{0, 0, 1, 3}).Draw(t, "failRate") // x/8 of the API calls fail
	nWorkers, minReq, maxReq := 1, 0, 20
	if concurrent {
		nWorkers = rapid.OneOf(rapid.IntRange(2, 4), rapid.IntRange(2, 16)).Draw(t, "workers")
		minReq, maxReq = 1, 3
	}
	id := 0
	for w := 0; w < nWorkers; w++ {
		n := rapid.IntRange(minReq, maxReq).Draw(t, "requests")
		reqs := []*Req{}
		for i := 0; i < n; i++ {
			r := &Req{Worker: w, Index: i, Name: fmt.Sprintf("p%d", id)}
			id++
			r.Node = rapid.SampledFrom(sc.Nodes).Draw(t, "node")
			if rapid.IntRange(0, 15).Draw(t, "unassigned") == 0 {
				r.Node = "" // a pod without node: counted per namespace / total only
			}
			r.Ns = rapid.SampledFrom(sc.Namespaces).Draw(t, "ns")
			if rapid.IntRange(0, 7).Draw(t, "fail") < failRate {
				r.Outcome = rapid.SampledFrom([]Outcome{NotFound, TooManyRequests, ServerError}).Draw(t, "failKind")
			}
			if !concurrent && i > 0 {
				r.NewCycle = rapid.IntRange(0, 11).Draw(t, "newCycle") == 0
			}
			reqs = append(reqs, r)
		}
		sc.Workers = append(sc.Workers, reqs)
	}
	return sc
}

// ---------------------------------------------------------------- gate (fake eviction endpoint)

type parked struct {
	req *Req
	ch  chan struct{}
}

// Gate is the eviction endpoint of the fake API server.
type Gate struct {
	mu        sync.Mutex
	park      bool            // park mode: calls block until released
	failAll   bool            // abort mode: every call fails immediately
	reqs      map[string]*Req // by ns/name, read-only after construction
	parked    []*parked       // currently in flight
	succeeded []*Req          // API calls that were answered with success in the current cycle, in order
	everOK    int             // ... in all cycles
	arrived   int             // API calls that reached the endpoint
	unknown   []string        // calls for pods nobody asked to evict
	finished  int             // workers that have returned (scheduler bookkeeping)
	events    int             // events emitted through Recorder
}

func newGate(sc *Scenario, park bool) *Gate {
	g := &Gate{park: park, reqs: map[string]*Req{}}
	for _, r := range sc.all() {
		g.reqs[r.key()] = r
	}
	return g
}

func (g *Gate) evict(ns, name string) error {
	key := ns + "/" + name
	g.mu.Lock()
	g.arrived++
	r := g.reqs[key]
	if r == nil {
		g.unknown = append(g.unknown, key)
		g.mu.Unlock()
		return apierrors.NewNotFound(schema.GroupResource{Resource: "pods"}, name)
	}
	r.apiCalls++
	if g.failAll {
		g.mu.Unlock()
		return ServerError.err(name)
	}
	if !g.park {
		if r.Outcome == OK {
			g.succeeded = append(g.succeeded, r)
			g.everOK++
		}
		g.mu.Unlock()
		return r.Outcome.err(name)
	}
	p := &parked{req: r, ch: make(chan struct{})}
	g.parked = append(g.parked, p)
	g.mu.Unlock()
	<-p.ch // the scheduler has already recorded the outcome when it closes the channel
	g.mu.Lock()
	fail := g.failAll
	g.mu.Unlock()
	if fail {
		return ServerError.err(name)
	}
	return r.Outcome.err(name)
}

// release answers one parked call (the API server commits the eviction at this instant).
func (g *Gate) release(p *parked) {
	g.mu.Lock()
	for i, q := range g.parked {
		if q == p {
			g.parked = append(g.parked[:i:i], g.parked[i+1:]...)
			break
		}
	}
	if p.req.Outcome == OK && !g.failAll {
		g.succeeded = append(g.succeeded, p.req)
		g.everOK++
	}
	g.mu.Unlock()
	close(p.ch)
}

// Client returns a clientset whose eviction endpoint is the gate; everything else is the plain fake.
func (g *Gate) Client() clientset.Interface {
	return &gateClient{Interface: fake.NewSimpleClientset(), g: g}
}

type gateClient struct {
	clientset.Interface
	g *Gate
}

func (c *gateClient) PolicyV1() typedpolicyv1.PolicyV1Interface {
	return &gatePolicy{PolicyV1Interface: c.Interface.PolicyV1(), g: c.g}
}

type gatePolicy struct {
	typedpolicyv1.PolicyV1Interface
	g *Gate
}

func (p *gatePolicy) Evictions(namespace string) typedpolicyv1.EvictionInterface {
	return &gateEvictions{ns: namespace, g: p.g}
}

type gateEvictions struct {
	ns string
	g  *Gate
}

func (e *gateEvictions) Evict(ctx context.Context, ev *policy.Eviction) error {
	ns := ev.Namespace
	if ns == "" {
		ns = e.ns
	}
	return e.g.evict(ns, ev.Name)
}

// Recorder counts the events the evictor emits (an event for a refused eviction is a side effect).
type Recorder struct{ g *Gate }

func (r *Recorder) Eventf(regarding k8sruntime.Object, related k8sruntime.Object, eventtype, reason, action, note string, args ...interface{}) {
	r.g.mu.Lock()
	r.g.events++
	r.g.mu.Unlock()
}

// ---------------------------------------------------------------- system under test

// Env is what a factory gets to build the evictor from.
type Env struct {
	Client   clientset.Interface
	Recorder *Recorder
}

// SUT adapts one evictor implementation.
type SUT struct {
	Name             string // signature prefix: "podevictor", "evictorproxy"
	Evict            func(ctx context.Context, pod *corev1.Pod) bool
	HasCounters      bool
	NodeEvicted      func(node string) uint
	NamespaceEvicted func(ns string) uint
	TotalEvicted     func() int
	// CountersInDryRun: the evictor counts simulated evictions in dry-run mode (evictorProxy does,
	// PodEvictor does not); counters are then compared with the accepted requests instead of the API calls.
	CountersInDryRun bool
	// Reset starts a new descheduling cycle (nil: the evictor lives for one cycle only).
	Reset func()
}

type Factory func(sc *Scenario, env *Env) *SUT

func evictCtx() context.Context {
	return context.Background()
}

// ---------------------------------------------------------------- oracle

type tally struct {
	node, ns map[string]uint
	total    uint
}

func newTally() *tally { return &tally{node: map[string]uint{}, ns: map[string]uint{}} }

func (m *tally) add(r *Req) {
	if r.Node != "" {
		m.node[r.Node]++
	}
	m.ns[r.Ns]++
	m.total++
}

func over(n uint, c *uint) bool { return c != nil && n > *c }

// check compares the evictions that really happened with the caps and the reported counters.
// final=false is used while calls may still be in flight (caps only). Returns true if the case
// must be abandoned (known finding).
func check(t *rapid.T, c *vk.Case, sc *Scenario, g *Gate, sut *SUT, mode string, final bool, hist func() string) bool {
	g.mu.Lock()
	succ := newTally()
	for _, r := range g.succeeded {
		succ.add(r)
	}
	accepted := newTally()
	arrived, events, everOK, unknown := g.arrived, g.events, g.everOK, append([]string(nil), g.unknown...)
	var reqs []*Req
	for _, r := range sc.all() {
		cp := *r
		reqs = append(reqs, &cp)
		if r.NewCycle && r.returned != nil && sut.Reset != nil {
			accepted = newTally() // counters restart with the cycle
		}
		if r.returned != nil && *r.returned {
			accepted.add(r)
		}
	}
	g.mu.Unlock()

	overSig := sut.Name + ":over-cap"
	if mode != "sequential" {
		overSig = sut.Name + ":concurrent-over-cap"
	}
	if sc.DryRun && arrived > 0 {
		return c.Violation(t, sut.Name+":dry-run-api-call", "%s: dry-run issued %d eviction API calls; %s", sc, arrived, hist())
	}
	if len(unknown) > 0 {
		return c.Violation(t, sut.Name+":evicted-unrequested-pod", "%s: API calls for pods nobody asked to evict: %v; %s", sc, unknown, hist())
	}
	for _, n := range sc.Nodes {
		if over(succ.node[n], sc.CapNode) {
			return c.Violation(t, overSig, "%s: %d pods evicted from node %s > per-node cap %d; %s", sc, succ.node[n], n, *sc.CapNode, hist())
		}
	}
	for _, n := range sc.Namespaces {
		if over(succ.ns[n], sc.CapNs) {
			return c.Violation(t, overSig, "%s: %d pods evicted from namespace %s > per-namespace cap %d; %s", sc, succ.ns[n], n, *sc.CapNs, hist())
		}
	}
	if over(succ.total, sc.CapTotal) {
		return c.Violation(t, overSig, "%s: %d pods evicted in total > total cap %d; %s", sc, succ.total, *sc.CapTotal, hist())
	}
	if !final {
		return false
	}
	// a refused eviction has no side effect; an eviction that happened is not reported as refused
	if !sc.DryRun {
		for _, r := range reqs {
			if r.returned != nil && !*r.returned && r.Outcome == OK && r.apiCalls > 0 {
				return c.Violation(t, sut.Name+":evicted-but-reported-refused", "%s: %s was evicted by the API server but Evict returned false; %s", sc, r.key(), hist())
			}
		}
		if events > everOK {
			return c.Violation(t, sut.Name+":event-without-eviction", "%s: %d eviction events emitted for %d evictions; %s", sc, events, everOK, hist())
		}
	}
	// the reported counters equal the evictions issued
	if sut.HasCounters {
		want := succ
		what := "evictions issued"
		if sc.DryRun {
			if !sut.CountersInDryRun {
				return false
			}
			want, what = accepted, "simulated (dry-run) evictions accepted"
		}
		sig := sut.Name + ":counter-ne-issued"
		for _, n := range sc.Nodes {
			if got := sut.NodeEvicted(n); got != want.node[n] {
				return c.Violation(t, sig, "%s: NodeEvicted(%s)=%d but %s on that node = %d; %s", sc, n, got, what, want.node[n], hist())
			}
		}
		for _, n := range sc.Namespaces {
			if got := sut.NamespaceEvicted(n); got != want.ns[n] {
				return c.Violation(t, sig, "%s: NamespaceEvicted(%s)=%d but %s in that namespace = %d; %s", sc, n, got, what, want.ns[n], hist())
			}
		}
		if got := sut.TotalEvicted(); got != int(want.total) {
			return c.Violation(t, sig, "%s: TotalEvicted()=%d but %s = %d; %s", sc, got, what, want.total, hist())
		}
	}
	return false
}

func classify(c *vk.Case, sc *Scenario, g *Gate, cyclic bool) (demandOverCap bool) {
	c.Class("cap-node:" + capStr(sc.CapNode))
	c.Class("cap-ns:" + capStr(sc.CapNs))
	c.Class("cap-total:" + capStr(sc.CapTotal))
	c.ClassIf(sc.DryRun, "dry-run")
	okDemand := newTally()
	evalDemand := func() {
		for _, n := range sc.Nodes {
			demandOverCap = demandOverCap || over(okDemand.node[n], sc.CapNode)
		}
		for _, n := range sc.Namespaces {
			demandOverCap = demandOverCap || over(okDemand.ns[n], sc.CapNs)
		}
		demandOverCap = demandOverCap || over(okDemand.total, sc.CapTotal)
	}
	fails, unassigned, refusedCalls := 0, 0, 0
	for _, r := range sc.all() {
		if r.NewCycle && cyclic {
			evalDemand()
			okDemand = newTally()
		}
		if r.Outcome == OK {
			okDemand.add(r)
		} else {
			fails++
		}
		if r.Node == "" {
			unassigned++
		}
		if r.returned != nil && !*r.returned && r.apiCalls == 0 {
			refusedCalls++
		}
	}
	evalDemand()
	c.ClassIf(demandOverCap, "demand-exceeds-some-cap")
	c.ClassIf(fails > 0, "api-failures-injected")
	c.ClassIf(unassigned > 0, "pod-without-node")
	c.ClassIf(refusedCalls > 0, "some-request-refused-without-api-call")
	c.ClassIf(g.everOK > 0, "some-eviction-issued")
	return
}

func sample(sc *Scenario, extra map[string]any) map[string]any {
	var reqs []string
	for _, r := range sc.all() {
		reqs = append(reqs, r.String())
	}
	m := map[string]any{"caps": sc.String(), "requests": reqs}
	for k, v := range extra {
		m[k] = v
	}
	return m
}

// ---------------------------------------------------------------- (b) sequential

// RunSequential issues the requests one after the other and checks the oracle after every one.
// Non-trivial: not dry-run and, in some capped scope, more requests whose API call would succeed than the cap allows.
func RunSequential(t *rapid.T, c *vk.Case, mk Factory, hasTotal bool) {
	sc := GenScenario(t, false, hasTotal)
	g := newGate(sc, false)
	sut := mk(sc, &Env{Client: g.Client(), Recorder: &Recorder{g: g}})
	reqs := sc.Workers[0]
	hist := func() string {
		var s []string
		for _, r := range reqs {
			if r.returned != nil {
				s = append(s, r.String())
			}
		}
		return "history=[" + strings.Join(s, "; ") + "]"
	}
	cycles := 1
	for _, r := range reqs {
		if r.NewCycle && sut.Reset != nil {
			sut.Reset()
			g.succeeded = nil // the caps and the counters are per cycle
			cycles++
		}
		before := g.arrived
		var nodeB, nsB uint
		var totB int
		if sut.HasCounters {
			nodeB, nsB, totB = sut.NodeEvicted(r.Node), sut.NamespaceEvicted(r.Ns), sut.TotalEvicted()
		}
		ok := sut.Evict(evictCtx(), r.Pod())
		r.returned = &ok
		if !ok && g.arrived == before && sut.HasCounters {
			// refused without reaching the API server: nothing may have changed
			if sut.NodeEvicted(r.Node) != nodeB || sut.NamespaceEvicted(r.Ns) != nsB || sut.TotalEvicted() != totB {
				if c.Violation(t, sut.Name+":refusal-changed-counters", "%s: refused %s changed the counters; %s", sc, r.key(), hist()) {
					return
				}
			}
		}
		if check(t, c, sc, g, sut, "sequential", true, hist) {
			return
		}
	}
	demandOver := classify(c, sc, g, sut.Reset != nil)
	c.ClassIf(cycles > 1, "several-cycles(reset)")
	if demandOver && !sc.DryRun {
		c.NonTrivial(sc.String(), hist())
	}
	c.Sample(sample(sc, nil))
}

// ---------------------------------------------------------------- (c) concurrent

type sched struct {
	sc         *Scenario
	g          *Gate
	sut        *SUT
	wg         sync.WaitGroup
	started    int
	cur        []int // per worker: index of the request it is executing (guarded by g.mu)
	log        []string
	sawBlocked bool
}

//go:noinline
func workerMain(s *sched, w int) {
	defer s.wg.Done()
	for i, r := range s.sc.Workers[w] {
		s.g.mu.Lock()
		s.cur[w] = i
		s.g.mu.Unlock()
		ok := s.sut.Evict(evictCtx(), r.Pod())
		s.g.mu.Lock()
		r.returned = &ok
		s.g.mu.Unlock()
	}
	s.g.mu.Lock()
	s.cur[w] = len(s.sc.Workers[w])
	s.g.finished++
	s.g.mu.Unlock()
}

var reGoroutine = regexp.MustCompile(`^goroutine \d+[^\[]*\[([^\],]+)`)

// blockedStates are the wait reasons of a goroutine that cannot proceed until another goroutine acts.
func isBlockedState(st string) bool {
	st = strings.TrimSpace(st)
	if i := strings.Index(st, " ("); i > 0 { // e.g. "chan receive (nil chan)"
		st = st[:i]
	}
	switch {
	case strings.HasPrefix(st, "sync."), st == "semacquire", st == "chan receive", st == "chan send", st == "select":
		return true
	}
	return false
}

// workerStates returns, from one consistent (stop-the-world) snapshot, how many live worker goroutines
// there are and how many of them are blocked.
func allStacks() string {
	buf := make([]byte, 1<<18)
	for {
		n := runtime.Stack(buf, true)
		if n < len(buf) {
			return string(buf[:n])
		}
		buf = make([]byte, 2*len(buf))
	}
}

var lastDump string

func workerStates() (live, blocked int) {
	lastDump = allStacks()
	for _, blk := range strings.Split(lastDump, "\n\n") {
		if !strings.Contains(blk, "c16kit.workerMain(") {
			continue
		}
		m := reGoroutine.FindStringSubmatch(blk)
		if m == nil {
			continue
		}
		live++
		if isBlockedState(m[1]) {
			blocked++
		}
	}
	return
}

// settle waits until no started worker can make progress on its own: each is parked in the gate,
// finished, or blocked on a lock/channel of the code under test. It never decides a verdict: if the
// workers do not settle within the (generous) deadline the whole run is abandoned as inconclusive.
//
// Fast path (code under test does not hold a lock across the API call): parked + finished == started,
// read from the gate's own counters. Slow path: a stop-the-world goroutine snapshot in which every live
// worker is in a wait state; because a worker can also wait for a moment on a lock held by a goroutine
// that is not a worker (klog, the runtime), the picture must be confirmed by settleConfirm consecutive
// identical snapshots taken some time apart before it is believed.
const settleConfirm = 3

func (s *sched) settle() {
	deadline := time.Now().Add(60 * time.Second)
	confirmed, lastParked, lastFin, lastLive := 0, -1, -1, -1
	for spin := 0; ; spin++ {
		s.g.mu.Lock()
		parkedN, fin := len(s.g.parked), s.g.finished
		s.g.mu.Unlock()
		if parkedN+fin == s.started {
			return
		}
		if spin < 200 {
			runtime.Gosched()
			continue
		}
		live, blocked := workerStates()
		ok := false
		if live == blocked {
			// every live worker waits for somebody else; re-read the gate to make sure the picture is consistent
			s.g.mu.Lock()
			ok = len(s.g.parked) == parkedN && s.g.finished == fin && live == s.started-fin
			s.g.mu.Unlock()
		}
		if ok && parkedN == lastParked && fin == lastFin && live == lastLive {
			confirmed++
		} else if ok {
			confirmed, lastParked, lastFin, lastLive = 1, parkedN, fin, live
		} else {
			confirmed, lastParked, lastFin, lastLive = 0, -1, -1, -1
		}
		if confirmed >= settleConfirm {
			if live > parkedN {
				s.sawBlocked = true
			}
			return
		}
		if time.Now().After(deadline) {
			fmt.Fprintf(os.Stderr, "VERIF-INCONCLUSIVE C16: workers did not settle within 60s (started=%d parked=%d finished=%d live=%d blocked=%d); log=%v\n%s\n",
				s.started, parkedN, fin, live, blocked, s.log, lastDump)
			os.Exit(2)
		}
		time.Sleep(100 * time.Microsecond)
	}
}

// abort releases everything with failures and joins the workers (used when a case ends early).
func (s *sched) abort() {
	s.g.mu.Lock()
	s.g.failAll = true
	s.g.mu.Unlock()
	done := make(chan struct{})
	go func() { s.wg.Wait(); close(done) }()
	for {
		s.g.mu.Lock()
		ps := append([]*parked(nil), s.g.parked...)
		s.g.mu.Unlock()
		for _, p := range ps {
			s.g.release(p)
		}
		select {
		case <-done:
			return
		case <-time.After(200 * time.Microsecond):
		}
	}
}

// contention reports whether at this quiescent point at least two unfinished workers are inside an
// Evict call (API call in flight, or queued on the evictor's lock) for pods of one capped scope that
// has exactly one slot left.
func (s *sched) contention() bool {
	s.g.mu.Lock()
	defer s.g.mu.Unlock()
	succ := newTally()
	for _, r := range s.g.succeeded {
		succ.add(r)
	}
	inflight := newTally()
	for w := 0; w < s.started; w++ {
		if i := s.cur[w]; i >= 0 && i < len(s.sc.Workers[w]) && s.sc.Workers[w][i].returned == nil {
			inflight.add(s.sc.Workers[w][i])
		}
	}
	one := func(n uint, c *uint) bool { return c != nil && *c >= 1 && n == *c-1 }
	for _, n := range s.sc.Nodes {
		if one(succ.node[n], s.sc.CapNode) && inflight.node[n] >= 2 {
			return true
		}
	}
	for _, n := range s.sc.Namespaces {
		if one(succ.ns[n], s.sc.CapNs) && inflight.ns[n] >= 2 {
			return true
		}
	}
	return one(succ.total, s.sc.CapTotal) && inflight.total >= 2
}

// RunConcurrent runs 2..16 workers against one evictor. In every step rapid chooses among "start the
// next worker" and "answer parked API call X"; parallel=false performs one action per step and waits
// for quiescence (the explored interleaving of check / API call / count is then a pure function of the
// drawn schedule); parallel=true performs up to 4 actions back to back so that the code under test
// really runs concurrently (this is what lets the race detector see unsynchronised accesses).
// Non-trivial: at some quiescent point two workers were inside Evict for a capped scope with one slot left.
func RunConcurrent(t *rapid.T, c *vk.Case, mk Factory, hasTotal, parallel bool) {
	sc := GenScenario(t, true, hasTotal)
	g := newGate(sc, true)
	sut := mk(sc, &Env{Client: g.Client(), Recorder: &Recorder{g: g}})
	s := &sched{sc: sc, g: g, sut: sut, cur: make([]int, len(sc.Workers))}
	for i := range s.cur {
		s.cur[i] = -1
	}
	joined := false
	defer func() {
		if !joined {
			s.abort()
		}
	}()
	hist := func() string {
		var rs []string
		for _, r := range sc.all() {
			rs = append(rs, r.String())
		}
		return fmt.Sprintf("schedule=%v requests=[%s]", s.log, strings.Join(rs, "; "))
	}
	contended, maxInFlight, stalls := false, 0, 0
	for {
		s.settle()
		g.mu.Lock()
		ps := append([]*parked(nil), g.parked...)
		fin := g.finished
		g.mu.Unlock()
		sort.Slice(ps, func(i, j int) bool { return ps[i].req.Worker < ps[j].req.Worker })
		if len(ps) > maxInFlight {
			maxInFlight = len(ps)
		}
		if s.contention() {
			contended = true
		}
		if fin == len(sc.Workers) {
			break
		}
		// options: 0 = start next worker (if any), then one per parked call
		canStart := s.started < len(sc.Workers)
		nOpt := len(ps)
		if canStart {
			nOpt++
		}
		if nOpt == 0 && stalls < 2000 {
			// nothing to start, nothing to answer, yet not everybody has finished: the snapshot was taken while
			// a worker was held up for a moment by something that is not a worker. Look again (bounded).
			stalls++
			time.Sleep(time.Millisecond)
			continue
		}
		if nOpt == 0 {
			fmt.Fprintf(os.Stderr, "VERIF-INCONCLUSIVE C16: %d workers blocked with no API call in flight (deadlock in the code under test?); log=%v\n==== decision-time snapshot\n%s\n==== now\n%s\n", s.started-fin, s.log, lastDump, allStacks())
			os.Exit(2)
		}
		batch := 1
		if parallel {
			batch = rapid.IntRange(1, 4).Draw(t, "batch")
		}
		for b := 0; b < batch && nOpt > 0; b++ {
			k := rapid.IntRange(0, nOpt-1).Draw(t, "action")
			if canStart && k == 0 {
				w := s.started
				s.started++
				s.wg.Add(1)
				s.log = append(s.log, fmt.Sprintf("start w%d", w))
				go workerMain(s, w)
				canStart = s.started < len(sc.Workers)
				if !canStart {
					nOpt--
				}
				continue
			}
			if canStart {
				k--
			}
			p := ps[k]
			ps = append(ps[:k:k], ps[k+1:]...)
			nOpt--
			s.log = append(s.log, fmt.Sprintf("answer w%d.%d(%s)=%s", p.req.Worker, p.req.Index, p.req.key(), p.req.Outcome))
			g.release(p)
		}
	}
	s.wg.Wait()
	joined = true
	// statistics first: a case abandoned on a known finding still counts for the distribution
	classify(c, sc, g, false)
	switch n := len(sc.Workers); {
	case n <= 4:
		c.Class("workers:2-4")
	case n <= 8:
		c.Class("workers:5-8")
	default:
		c.Class("workers:9-16")
	}
	c.ClassIf(maxInFlight >= 2, "two-api-calls-in-flight")
	c.ClassIf(s.sawBlocked, "workers-queued-on-evictor-lock")
	c.ClassIf(contended, "two-in-evict-with-one-slot-left")
	if contended && !sc.DryRun {
		c.NonTrivial(sc.String(), hist())
	}
	if check(t, c, sc, g, sut, "concurrent", true, hist) {
		return
	}
	c.Sample(sample(sc, map[string]any{"schedule": s.log}))
}

// ---------------------------------------------------------------- (b') whole descheduling cycles

// SetReturned records what Evict returned for this request (used by harness-owned plugins).
func (r *Req) SetReturned(ok bool) { r.returned = &ok }

// ProfileWork is what the plugins of one profile ask to evict in one cycle: one request list per Deschedule plugin and
// one per Balance plugin.
type ProfileWork struct {
	Deschedule, Balance [][]*Req
}

// CycleSUT adapts a complete descheduler (profiles with Deschedule and Balance plugins sharing one eviction limiter).
type CycleSUT struct {
	Name string
	// RunCycle runs ONE descheduling cycle; work[p] is what the plugins of profile p evict in it.
	RunCycle         func(work []ProfileWork) error
	NodeEvicted      func(node string) uint
	NamespaceEvicted func(ns string) uint
	TotalEvicted     func() int
}

// CycleFactory builds the descheduler with the given number of profiles and, per profile, Deschedule / Balance plugins.
type CycleFactory func(sc *Scenario, env *Env, deschedulePlugins, balancePlugins []int) *CycleSUT

// RunCycles drives 1..3 complete descheduling cycles. The caps are per cycle: everything the Deschedule plugins and the
// Balance plugins of all profiles evict in one cycle is charged to one budget, and at the end of the cycle the reported
// counters equal the evictions issued in that cycle.
// Non-trivial: not dry-run and, in some cycle and some capped scope, both a Deschedule plugin and a Balance plugin ask
// for an eviction that the API server would grant while together they ask for more than the cap.
func RunCycles(t *rapid.T, c *vk.Case, mk CycleFactory) {
	sc := &Scenario{}
	for i, n := 0, rapid.IntRange(2, 4).Draw(t, "nodes"); i < n; i++ { // the descheduler refuses to run with fewer than 2 nodes
		sc.Nodes = append(sc.Nodes, fmt.Sprintf("n%d", i))
	}
	for i, n := 0, rapid.IntRange(1, 3).Draw(t, "namespaces"); i < n; i++ {
		sc.Namespaces = append(sc.Namespaces, fmt.Sprintf("ns%d", i))
	}
	sc.CapNode = genCap(t, "capNode", []int{-1, -1, 0, 1, 1, 2, 2, 3})
	sc.CapNs = genCap(t, "capNs", []int{-1, -1, -1, 0, 1, 1, 2, 3})
	sc.CapTotal = genCap(t, "capTotal", []int{-1, -1, -1, 0, 1, 2, 3, 4, 5})
	sc.DryRun = rapid.IntRange(0, 9).Draw(t, "dryRun") == 0
	failRate := rapid.SampledFrom([]int{0, 0, 1, 3}).Draw(t, "failRate")
	nProfiles := rapid.SampledFrom([]int{1, 1, 1, 2}).Draw(t, "profiles")
	var nD, nB []int
	for p := 0; p < nProfiles; p++ {
		nD = append(nD, rapid.SampledFrom([]int{1, 1, 0, 2}).Draw(t, "deschedulePlugins"))
		nB = append(nB, rapid.SampledFrom([]int{1, 1, 0, 2}).Draw(t, "balancePlugins"))
	}
	nCycles := rapid.IntRange(1, 3).Draw(t, "cycles")
	id := 0
	genList := func(cycle int, phase string) []*Req {
		var out []*Req
		for i, n := 0, rapid.IntRange(0, 4).Draw(t, "requests"); i < n; i++ {
			r := &Req{Worker: cycle, Index: id, Name: fmt.Sprintf("%s%d", phase, id)}
			id++
			r.Node = rapid.SampledFrom(sc.Nodes).Draw(t, "node")
			r.Ns = rapid.SampledFrom(sc.Namespaces).Draw(t, "ns")
			if rapid.IntRange(0, 7).Draw(t, "fail") < failRate {
				r.Outcome = rapid.SampledFrom([]Outcome{NotFound, TooManyRequests, ServerError}).Draw(t, "failKind")
			}
			out = append(out, r)
		}
		return out
	}
	plan := make([][]ProfileWork, nCycles)
	bothPhasesBite := false
	for cy := 0; cy < nCycles; cy++ {
		var all []*Req
		dem := map[string]*tally{"d": newTally(), "b": newTally()}
		for p := 0; p < nProfiles; p++ {
			pw := ProfileWork{}
			for i := 0; i < nD[p]; i++ {
				l := genList(cy, "d")
				pw.Deschedule = append(pw.Deschedule, l)
				all = append(all, l...)
			}
			for i := 0; i < nB[p]; i++ {
				l := genList(cy, "b")
				pw.Balance = append(pw.Balance, l)
				all = append(all, l...)
			}
			plan[cy] = append(plan[cy], pw)
		}
		for _, r := range all {
			if r.Outcome == OK {
				dem[r.Name[:1]].add(r)
			}
		}
		bite := func(d, b uint, cap *uint) bool { return cap != nil && d >= 1 && b >= 1 && d+b > *cap }
		for _, n := range sc.Nodes {
			bothPhasesBite = bothPhasesBite || bite(dem["d"].node[n], dem["b"].node[n], sc.CapNode)
		}
		for _, n := range sc.Namespaces {
			bothPhasesBite = bothPhasesBite || bite(dem["d"].ns[n], dem["b"].ns[n], sc.CapNs)
		}
		bothPhasesBite = bothPhasesBite || bite(dem["d"].total, dem["b"].total, sc.CapTotal)
		sc.Workers = append(sc.Workers, all)
	}

	g := newGate(sc, false)
	cs := mk(sc, &Env{Client: g.Client(), Recorder: &Recorder{g: g}}, nD, nB)
	sut := &SUT{Name: cs.Name, HasCounters: true, NodeEvicted: cs.NodeEvicted, NamespaceEvicted: cs.NamespaceEvicted,
		TotalEvicted: cs.TotalEvicted, CountersInDryRun: true}
	done := 0
	hist := func() string {
		var s []string
		for cy := 0; cy < done; cy++ {
			var rs []string
			for _, r := range sc.Workers[cy] {
				rs = append(rs, r.String())
			}
			s = append(s, fmt.Sprintf("cycle %d: [%s]", cy+1, strings.Join(rs, "; ")))
		}
		return fmt.Sprintf("profiles: deschedule plugins %v, balance plugins %v; %s", nD, nB, strings.Join(s, " "))
	}
	for cy := 0; cy < nCycles; cy++ {
		g.succeeded = nil // the caps and the counters are per cycle
		if err := cs.RunCycle(plan[cy]); err != nil {
			t.Fatalf("cycle %d did not run: %v", cy+1, err)
		}
		done = cy + 1
		for _, r := range sc.Workers[cy] {
			if r.returned == nil {
				t.Fatalf("cycle %d: plugin request %s was never issued (harness wiring)", cy+1, r.key())
			}
		}
		cur := *sc // the oracle looks at one cycle at a time
		cur.Workers = [][]*Req{sc.Workers[cy]}
		if check(t, c, &cur, g, sut, "sequential", true, hist) {
			return
		}
	}
	classify(c, sc, g, false)
	c.ClassIf(nProfiles > 1, "two-profiles")
	c.ClassIf(nCycles > 1, "several-cycles")
	c.ClassIf(bothPhasesBite, "deschedule-and-balance-share-a-cap-that-bites")
	if bothPhasesBite && !sc.DryRun {
		c.NonTrivial(sc.String(), hist())
	}
	c.Sample(sample(sc, map[string]any{"plugins": fmt.Sprintf("deschedule %v balance %v", nD, nB)}))
}
