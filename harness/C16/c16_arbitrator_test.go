//go:build verif

// C16 (a) — arbitration rounds never admit more migration jobs than the configured limits allow.
// See /verif/DESIGN.md §1 C16. In-package harness (injected with -overlay).
//
// The arbitrator under test is the real arbitratorImpl with the real sort chain and the real filter,
// wired by the real filter.initFilters (so which checks are retryable is part of what is tested), on a
// controller-runtime fake client that carries the field indexes of pkg/descheduler/fieldindex. Only the
// controller finder (workload -> pods, replicas) is a harness fake that reads the same fake API.
// The oracle never calls a filter function: it lists jobs and pods from the fake API and counts.
package arbitrator

import (
	"context"
	"fmt"
	"math"
	"sort"
	"strconv"
	"strings"
	"testing"
	"time"

	corev1 "k8s.io/api/core/v1"
	apierrors "k8s.io/apimachinery/pkg/api/errors"
	metav1 "k8s.io/apimachinery/pkg/apis/meta/v1"
	"k8s.io/apimachinery/pkg/runtime"
	"k8s.io/apimachinery/pkg/types"
	"k8s.io/apimachinery/pkg/util/intstr"
	fakediscovery "k8s.io/client-go/discovery/fake"
	"k8s.io/client-go/informers"
	kubefake "k8s.io/client-go/kubernetes/fake"
	"k8s.io/client-go/tools/events"
	"k8s.io/client-go/util/workqueue"
	"k8s.io/utils/ptr"
	"pgregory.net/rapid"
	"sigs.k8s.io/controller-runtime/pkg/client"
	"sigs.k8s.io/controller-runtime/pkg/client/fake"
	"sigs.k8s.io/controller-runtime/pkg/event"
	"sigs.k8s.io/controller-runtime/pkg/reconcile"

	"github.com/koordinator-sh/koordinator/apis/extension"
	"github.com/koordinator-sh/koordinator/apis/scheduling/v1alpha1"
	"github.com/koordinator-sh/koordinator/pkg/descheduler/apis/config"
	"github.com/koordinator-sh/koordinator/pkg/descheduler/fieldindex"
	"github.com/koordinator-sh/koordinator/pkg/descheduler/framework"
	frameworkruntime "github.com/koordinator-sh/koordinator/pkg/descheduler/framework/runtime"
	"github.com/koordinator-sh/koordinator/pkg/descheduler/utils/sorter"
	"github.com/koordinator-sh/koordinator/pkg/verifkit/c16kit"
	"github.com/koordinator-sh/koordinator/pkg/verifkit/vk"
)

// ---------------------------------------------------------------- world

type c16Workload struct {
	UID      types.UID
	Kind     string
	Name, Ns string
	Replicas int32
}

type c16World struct {
	c         client.Client
	nodes     []string
	nss       []string
	workloads []*c16Workload
	byUID     map[types.UID]*c16Workload
	args      *config.MigrationControllerArgs
	podSeq    int
	jobSeq    int
	ghost     map[types.UID]bool // jobs admitted while their pod did not exist (they migrate nothing)
	hist      []string
	// read cache of the fake API (harness side only; dropped whenever anybody may have written)
	podCache []*corev1.Pod
	jobCache []*v1alpha1.PodMigrationJob
}

func (w *c16World) dirty() { w.podCache, w.jobCache = nil, nil }

func (w *c16World) logf(format string, a ...any) { w.hist = append(w.hist, fmt.Sprintf(format, a...)) }

// c16Finder is the controller finder: the pods of a workload are the pods in the fake API whose
// controller is that workload; the expected replicas are the workload's spec.
type c16Finder struct{ w *c16World }

func (f *c16Finder) podsOf(uid types.UID) []*corev1.Pod {
	var out []*corev1.Pod
	for _, p := range f.w.pods() {
		if o := metav1.GetControllerOf(p); o != nil && o.UID == uid {
			out = append(out, p)
		}
	}
	return out
}

func (f *c16Finder) GetPodsForRef(ref *metav1.OwnerReference, ns string, _ *metav1.LabelSelector, _ bool) ([]*corev1.Pod, int32, error) {
	wl := f.w.byUID[ref.UID]
	if wl == nil {
		return nil, 0, fmt.Errorf("unknown workload %s", ref.UID)
	}
	return f.podsOf(ref.UID), wl.Replicas, nil
}

func (f *c16Finder) GetExpectedScaleForPod(pod *corev1.Pod) (int32, error) {
	if o := metav1.GetControllerOf(pod); o != nil && f.w.byUID[o.UID] != nil {
		return f.w.byUID[o.UID].Replicas, nil
	}
	return 0, nil
}

func (f *c16Finder) ListPodsByWorkloads(uids []types.UID, ns string, _ *metav1.LabelSelector, _ bool) ([]*corev1.Pod, error) {
	var out []*corev1.Pod
	for _, u := range uids {
		out = append(out, f.podsOf(u)...)
	}
	return out, nil
}

func (w *c16World) pods() []*corev1.Pod {
	if w.podCache != nil {
		return w.podCache
	}
	l := &corev1.PodList{}
	if err := w.c.List(context.TODO(), l); err != nil {
		panic(err)
	}
	out := make([]*corev1.Pod, 0, len(l.Items))
	for i := range l.Items {
		out = append(out, &l.Items[i])
	}
	sort.Slice(out, func(i, j int) bool { return c16Key(out[i]) < c16Key(out[j]) })
	w.podCache = out
	return out
}

func (w *c16World) jobs() []*v1alpha1.PodMigrationJob {
	if w.jobCache != nil {
		return w.jobCache
	}
	l := &v1alpha1.PodMigrationJobList{}
	if err := w.c.List(context.TODO(), l); err != nil {
		panic(err)
	}
	out := make([]*v1alpha1.PodMigrationJob, 0, len(l.Items))
	for i := range l.Items {
		out = append(out, &l.Items[i])
	}
	sort.Slice(out, func(i, j int) bool { return c16JobNum(out[i].Name) < c16JobNum(out[j].Name) })
	w.jobCache = out
	return out
}

func c16JobNum(name string) int {
	n, _ := strconv.Atoi(strings.TrimPrefix(name, "job-"))
	return n
}

func c16Key(p *corev1.Pod) string { return p.Namespace + "/" + p.Name }

func c16Phase(j *v1alpha1.PodMigrationJob) v1alpha1.PodMigrationJobPhase {
	if j.Status.Phase == "" {
		return v1alpha1.PodMigrationJobPending
	}
	return j.Status.Phase
}

func c16Passed(j *v1alpha1.PodMigrationJob) bool {
	return j.Annotations[AnnotationPassedArbitration] == "true"
}

// live: the job still intends to migrate its pod.
func c16Live(j *v1alpha1.PodMigrationJob) bool {
	p := c16Phase(j)
	return p == v1alpha1.PodMigrationJobPending || p == v1alpha1.PodMigrationJobRunning
}

// active: running, or pending and passed arbitration ("running or have passed arbitration").
func c16Active(j *v1alpha1.PodMigrationJob) bool {
	p := c16Phase(j)
	return p == v1alpha1.PodMigrationJobRunning || (p == v1alpha1.PodMigrationJobPending && c16Passed(j))
}

func c16Ready(p *corev1.Pod) bool {
	if p.DeletionTimestamp != nil || p.Status.Phase == corev1.PodSucceeded || p.Status.Phase == corev1.PodFailed {
		return false
	}
	for _, c := range p.Status.Conditions {
		if c.Type == corev1.PodReady {
			return c.Status == corev1.ConditionTrue
		}
	}
	return false
}

var c16Base = time.Date(2024, 1, 1, 0, 0, 0, 0, time.UTC)

func (w *c16World) newPod(wl *c16Workload, ns, node string, ready bool, prio int32, maxCost bool) *corev1.Pod {
	w.podSeq++
	name := fmt.Sprintf("pod-%d", w.podSeq)
	p := &corev1.Pod{
		ObjectMeta: metav1.ObjectMeta{
			Namespace: ns, Name: name, UID: types.UID("uid-" + name),
			CreationTimestamp: metav1.Time{Time: c16Base.Add(time.Duration(w.podSeq) * time.Minute)},
			Annotations:       map[string]string{},
		},
		Spec:   corev1.PodSpec{NodeName: node, SchedulerName: "koord-scheduler", Priority: ptr.To(prio)},
		Status: corev1.PodStatus{Phase: corev1.PodRunning, QOSClass: corev1.PodQOSBurstable},
	}
	if wl != nil {
		p.OwnerReferences = []metav1.OwnerReference{{APIVersion: "apps/v1", Kind: wl.Kind, Name: wl.Name, UID: wl.UID, Controller: ptr.To(true)}}
	}
	if maxCost {
		p.Annotations[extension.AnnotationEvictionCost] = strconv.Itoa(math.MaxInt32)
	}
	st := corev1.ConditionFalse
	if ready {
		st = corev1.ConditionTrue
	}
	p.Status.Conditions = []corev1.PodCondition{{Type: corev1.PodReady, Status: st}}
	if err := w.c.Create(context.TODO(), p); err != nil {
		panic(err)
	}
	w.dirty()
	return p
}

const c16Finalizer = "verif.koordinator.sh/hold"

// terminate puts the pod into graceful deletion: deletionTimestamp set, object (and its Running / Ready
// status) still there. The fake client only keeps a deleted object while it has a finalizer.
func (w *c16World) terminate(p *corev1.Pod) {
	cur := &corev1.Pod{}
	if err := w.c.Get(context.TODO(), types.NamespacedName{Namespace: p.Namespace, Name: p.Name}, cur); err != nil {
		panic(err)
	}
	cur.Finalizers = []string{c16Finalizer}
	if err := w.c.Update(context.TODO(), cur); err != nil {
		panic(err)
	}
	if err := w.c.Delete(context.TODO(), cur); err != nil {
		panic(err)
	}
	w.dirty()
}

// removePod makes the pod object disappear from the API (also a terminating one).
func (w *c16World) removePod(p *corev1.Pod) {
	cur := &corev1.Pod{}
	if err := w.c.Get(context.TODO(), types.NamespacedName{Namespace: p.Namespace, Name: p.Name}, cur); err == nil {
		if len(cur.Finalizers) > 0 {
			cur.Finalizers = nil
			if err := w.c.Update(context.TODO(), cur); err != nil && !apierrors.IsNotFound(err) {
				panic(err)
			}
		}
		if err := w.c.Delete(context.TODO(), cur); err != nil && !apierrors.IsNotFound(err) {
			panic(err)
		}
	}
	w.dirty()
}

// recreatePod replaces the pod by a new one with the same namespace/name, owner and annotations but a new UID
// (what a StatefulSet controller does after its pod has been deleted).
func (w *c16World) recreatePod(old *corev1.Pod, node string, ready bool) *corev1.Pod {
	w.removePod(old)
	w.podSeq++
	p := &corev1.Pod{
		ObjectMeta: metav1.ObjectMeta{
			Namespace: old.Namespace, Name: old.Name, UID: types.UID(fmt.Sprintf("uid-%s-r%d", old.Name, w.podSeq)),
			CreationTimestamp: metav1.Time{Time: c16Base.Add(time.Duration(w.podSeq) * time.Minute)},
			Annotations:       map[string]string{},
			OwnerReferences:   old.OwnerReferences,
		},
		Spec:   corev1.PodSpec{NodeName: node, SchedulerName: old.Spec.SchedulerName, Priority: old.Spec.Priority},
		Status: corev1.PodStatus{Phase: corev1.PodRunning, QOSClass: corev1.PodQOSBurstable},
	}
	for k, v := range old.Annotations {
		p.Annotations[k] = v
	}
	st := corev1.ConditionFalse
	if ready {
		st = corev1.ConditionTrue
	}
	p.Status.Conditions = []corev1.PodCondition{{Type: corev1.PodReady, Status: st}}
	if err := w.c.Create(context.TODO(), p); err != nil {
		panic(err)
	}
	w.dirty()
	return p
}

// newJob creates a PodMigrationJob for the pod. withUID=false: spec.podRef carries only namespace and name, as in a
// hand-written job (the controller fills in the UID when the job turns Running).
func (w *c16World) newJob(pod *corev1.Pod, tsOffset int, withUID bool) *v1alpha1.PodMigrationJob {
	w.jobSeq++
	name := fmt.Sprintf("job-%d", w.jobSeq)
	j := &v1alpha1.PodMigrationJob{
		ObjectMeta: metav1.ObjectMeta{
			Name: name, UID: types.UID(name + "-uid"),
			// distinct seconds: the first sort key of a round is then total, so the processing order does not depend on map iteration
			CreationTimestamp: metav1.Time{Time: c16Base.Add(time.Duration(tsOffset*100+w.jobSeq) * time.Second)},
		},
		Spec: v1alpha1.PodMigrationJobSpec{
			PodRef: &corev1.ObjectReference{Namespace: pod.Namespace, Name: pod.Name, UID: pod.UID},
			Mode:   v1alpha1.PodMigrationJobModeReservationFirst,
		},
	}
	if !withUID {
		j.Spec.PodRef.UID = ""
	}
	if err := w.c.Create(context.TODO(), j); err != nil {
		panic(err)
	}
	w.dirty()
	return j
}

func (w *c16World) setPhase(j *v1alpha1.PodMigrationJob, ph v1alpha1.PodMigrationJobPhase) *v1alpha1.PodMigrationJob {
	cur := &v1alpha1.PodMigrationJob{}
	if err := w.c.Get(context.TODO(), types.NamespacedName{Name: j.Name}, cur); err != nil {
		panic(err)
	}
	cur.Status.Phase = ph
	if err := w.c.Status().Update(context.TODO(), cur); err != nil {
		panic(err)
	}
	w.dirty()
	return cur
}

// liveJobOf: a job in the API that still intends to migrate this pod.
func (w *c16World) liveJobOf(pod *corev1.Pod) *v1alpha1.PodMigrationJob {
	for _, j := range w.jobs() {
		r := j.Spec.PodRef
		if c16Live(j) && r != nil && (r.UID == pod.UID || (r.Namespace == pod.Namespace && r.Name == pod.Name)) {
			return j
		}
	}
	return nil
}

// ---------------------------------------------------------------- independent statement of the limits

// c16Scaled restates util.GetMaxMigrating/GetMaxUnavailable: an absolute number or a percentage of the
// replicas rounded down, at least 1; unset -> 10% for >10 replicas, 2 for 4..10, else 1; never more than the replicas.
func c16Scaled(v *intstr.IntOrString, replicas int) int {
	x := 0
	if v != nil {
		if v.Type == intstr.Int {
			x = int(v.IntVal)
		} else {
			pct, _ := strconv.Atoi(strings.TrimSuffix(v.StrVal, "%"))
			x = pct * replicas / 100
		}
		if x == 0 {
			x = 1
		}
	} else {
		switch {
		case replicas > 10:
			x = replicas / 10
		case replicas >= 4:
			x = 2
		default:
			x = 1
		}
	}
	if x > replicas {
		x = replicas
	}
	return x
}

// skips: the gate is listed in args.SkipEvictionGates, i.e. its check is switched off.
func (w *c16World) skips(g config.EvictionGate) bool {
	for _, x := range w.args.SkipEvictionGates {
		if x == g {
			return true
		}
	}
	return false
}

// The limits that are in force (0 = none): the configured value unless its gate is skipped. Skipping the
// per-workload migrating gate does not change what "unavailable or being migrated" means for the unavailable limit.
func (w *c16World) limGlobal() int {
	if w.skips(config.EvictionGateMaxMigratingGlobally) {
		return 0
	}
	return c16Lim(w.args.MaxMigratingGlobally)
}

func (w *c16World) limNode() int {
	if w.skips(config.EvictionGateMaxMigratingPerNode) {
		return 0
	}
	return c16Lim(w.args.MaxMigratingPerNode)
}

func (w *c16World) limNs() int {
	if w.skips(config.EvictionGateMaxMigratingPerNamespace) {
		return 0
	}
	return c16Lim(w.args.MaxMigratingPerNamespace)
}

func (w *c16World) limWlMig(replicas int) int {
	if w.skips(config.EvictionGateMaxMigratingPerWorkload) {
		return 0
	}
	return c16Scaled(w.args.MaxMigratingPerWorkload, replicas)
}

func (w *c16World) limWlUnav(replicas int) int {
	if w.skips(config.EvictionGateMaxUnavailablePerWorkload) {
		return 0
	}
	return c16Scaled(w.args.MaxUnavailablePerWorkload, replicas)
}

// nonHeadroomReason: why this pod may not be migrated at all (nothing to do with free slots).
func (w *c16World) nonHeadroomReason(p *corev1.Pod) string {
	if c16Forced(p) {
		return "" // the override annotation lets the pod pass every evictability check
	}
	if p.Annotations[extension.AnnotationEvictionCost] == strconv.Itoa(math.MaxInt32) {
		return "max-eviction-cost"
	}
	if p.DeletionTimestamp != nil {
		return "terminating"
	}
	o := metav1.GetControllerOf(p)
	if o == nil {
		if w.skips(config.EvictionGateBarePods) {
			return ""
		}
		return "bare-pod"
	}
	wl := w.byUID[o.UID]
	r := int(wl.Replicas)
	skip := w.skips(config.EvictionGateExpectedReplicas) || (w.args.SkipCheckExpectedReplicas != nil && *w.args.SkipCheckExpectedReplicas)
	if !skip && (r == 1 || r == c16Scaled(w.args.MaxMigratingPerWorkload, r) || r == c16Scaled(w.args.MaxUnavailablePerWorkload, r)) {
		return "expected-replicas"
	}
	return ""
}

type c16Snap struct {
	global   int
	node, ns map[string]int
	wlMig    map[types.UID]int
	wlUnav   map[types.UID]int
	active   map[types.UID]bool
}

// snapshot counts, from the fake API only, the active jobs per scope and the unavailable-or-migrating pods per workload.
func (w *c16World) snapshot() *c16Snap {
	s := &c16Snap{node: map[string]int{}, ns: map[string]int{}, wlMig: map[types.UID]int{}, wlUnav: map[types.UID]int{}, active: map[types.UID]bool{}}
	pods := w.pods()
	byKey := map[string]*corev1.Pod{}
	for _, p := range pods {
		byKey[c16Key(p)] = p
	}
	migrating := map[types.UID]map[string]bool{}
	for _, j := range w.jobs() {
		if !c16Active(j) || w.ghost[j.UID] {
			continue
		}
		s.active[j.UID] = true
		s.global++
		s.ns[j.Spec.PodRef.Namespace]++
		if p := byKey[j.Spec.PodRef.Namespace+"/"+j.Spec.PodRef.Name]; p != nil {
			if p.Spec.NodeName != "" {
				s.node[p.Spec.NodeName]++
			}
			if o := metav1.GetControllerOf(p); o != nil {
				if migrating[o.UID] == nil {
					migrating[o.UID] = map[string]bool{}
				}
				migrating[o.UID][c16Key(p)] = true
			}
		}
	}
	for _, wl := range w.workloads {
		un := map[string]bool{}
		for k := range migrating[wl.UID] {
			un[k] = true
		}
		for _, p := range pods {
			if o := metav1.GetControllerOf(p); o != nil && o.UID == wl.UID && !c16Ready(p) {
				un[c16Key(p)] = true
			}
		}
		s.wlMig[wl.UID] = len(migrating[wl.UID])
		s.wlUnav[wl.UID] = len(un)
	}
	return s
}

func c16Lim(v *int32) int {
	if v == nil || *v <= 0 {
		return 0 // no limit
	}
	return int(*v)
}

// ---------------------------------------------------------------- construction of the arbitrator

type c16Queue struct {
	workqueue.TypedRateLimitingInterface[reconcile.Request]
}

func (c16Queue) Add(reconcile.Request) {}

func c16NewClient() client.Client {
	scheme := runtime.NewScheme()
	_ = v1alpha1.AddToScheme(scheme)
	_ = corev1.AddToScheme(scheme) // only what the arbitrator touches: the fake client's cost grows with the scheme
	jobRef := func(o client.Object) *corev1.ObjectReference {
		if j, ok := o.(*v1alpha1.PodMigrationJob); ok {
			return j.Spec.PodRef
		}
		return nil
	}
	return fake.NewClientBuilder().WithScheme(scheme).WithStatusSubresource(&v1alpha1.PodMigrationJob{}).
		WithIndex(&corev1.Pod{}, fieldindex.IndexPodByNodeName, func(o client.Object) []string {
			if p := o.(*corev1.Pod); p.Spec.NodeName != "" {
				return []string{p.Spec.NodeName}
			}
			return []string{}
		}).
		WithIndex(&corev1.Pod{}, fieldindex.IndexPodByOwnerRefUID, func(o client.Object) []string {
			out := []string{}
			for _, r := range o.GetOwnerReferences() {
				out = append(out, string(r.UID))
			}
			return out
		}).
		WithIndex(&v1alpha1.PodMigrationJob{}, fieldindex.IndexJobByPodUID, func(o client.Object) []string {
			if r := jobRef(o); r != nil {
				return []string{string(r.UID)}
			}
			return []string{}
		}).
		WithIndex(&v1alpha1.PodMigrationJob{}, fieldindex.IndexJobPodNamespacedName, func(o client.Object) []string {
			if r := jobRef(o); r != nil {
				return []string{r.Namespace + "/" + r.Name}
			}
			return []string{}
		}).
		WithIndex(&v1alpha1.PodMigrationJob{}, fieldindex.IndexJobByPodNamespace, func(o client.Object) []string {
			if r := jobRef(o); r != nil {
				return []string{r.Namespace}
			}
			return []string{}
		}).
		Build()
}

// c16Handle is a bare framework handle: initFilters only needs it to build the default evictor filter.
func c16Handle() framework.Handle {
	cs := kubefake.NewSimpleClientset()
	cs.Discovery().(*fakediscovery.FakeDiscovery).Resources = []*metav1.APIResourceList{
		{GroupVersion: "v1", APIResources: []metav1.APIResource{{Name: "pods/eviction", Kind: "Eviction", Group: "policy", Version: "v1"}}},
		{GroupVersion: "policy/v1", APIResources: []metav1.APIResource{{Name: "poddisruptionbudgets", Kind: "PodDisruptionBudget"}}},
	}
	h, err := frameworkruntime.NewFramework(context.TODO(), nil, nil,
		frameworkruntime.WithClientSet(cs),
		frameworkruntime.WithSharedInformerFactory(informers.NewSharedInformerFactory(cs, 0)),
		frameworkruntime.WithGetPodsAssignedToNodeFunc(func(string, framework.FilterFunc) ([]*corev1.Pod, error) { return nil, nil }),
		frameworkruntime.WithEventRecorder(&events.FakeRecorder{}))
	if err != nil {
		panic(err)
	}
	return h
}

func c16NewArbitrator(w *c16World, handle framework.Handle) *arbitratorImpl {
	f := &filter{
		client:                     w.c,
		args:                       w.args,
		controllerFinder:           &c16Finder{w: w},
		arbitratedPodMigrationJobs: map[types.UID]bool{},
		skipEvictionGates:          newEvictionGateSet(w.args.SkipEvictionGates),
	}
	if err := f.initFilters(w.args, handle); err != nil {
		panic(fmt.Sprintf("initFilters: %v", err))
	}
	return &arbitratorImpl{
		waitingCollection: map[types.UID]*v1alpha1.PodMigrationJob{},
		sorts: []SortFn{
			SortJobsByCreationTime(),
			SortJobsByPod(sorter.PodSorter().Sort),
			SortJobsByController(),
			SortJobsByMigratingNum(w.c),
		},
		filter:        f,
		client:        w.c,
		eventRecorder: &events.FakeRecorder{},
	}
}

// ---------------------------------------------------------------- generators

var c16AllGates = []config.EvictionGate{
	config.EvictionGateMaxUnavailablePerWorkload, config.EvictionGateMaxMigratingPerWorkload, config.EvictionGateMaxMigratingPerNode,
	config.EvictionGateMaxMigratingPerNamespace, config.EvictionGateMaxMigratingGlobally,
	config.EvictionGateExpectedReplicas, config.EvictionGatePVC, config.EvictionGateBarePods, config.EvictionGateLocalStorage,
	config.EvictionGateSystemCritical, config.EvictionGatePriorityThreshold, config.EvictionGateLabelSelector,
	config.EvictionGateNamespaces, config.EvictionGateNodeFit,
}

func c16GenIntLimit(t *rapid.T, label string) *int32 {
	v := rapid.SampledFrom([]int{-1, 0, 1, 1, 2, 2, 3}).Draw(t, label)
	if v < 0 {
		return nil
	}
	return ptr.To(int32(v))
}

func c16GenIntOrPercent(t *rapid.T, label string) *intstr.IntOrString {
	switch rapid.IntRange(0, 3).Draw(t, label+"Kind") {
	case 0:
		return nil
	case 1:
		v := intstr.FromString(fmt.Sprintf("%d%%", rapid.SampledFrom([]int{10, 25, 34, 50, 67, 100}).Draw(t, label+"Pct")))
		return &v
	default:
		v := intstr.FromInt(rapid.IntRange(1, 3).Draw(t, label+"Int"))
		return &v
	}
}

func c16IOS(v *intstr.IntOrString) string {
	if v == nil {
		return "unset"
	}
	return v.String()
}

func c16I32(v *int32) string {
	if v == nil {
		return "unset"
	}
	return fmt.Sprint(*v)
}

// ---------------------------------------------------------------- the test

// c16Opts switches on the generator extensions of TestVerifC16ArbitrationEvents. Everything they add is guarded so that
// with the zero value the draw sequence of TestVerifC16ArbitrationRounds (and its committed regress file) is unchanged.
type c16Opts struct {
	// events: after every round the informer delivers the Update events of the jobs the round has written (annotation
	// of a passed job - phase still empty -, status of a failed job) to the real arbitration event handler.
	events bool
	// evictAnnotated: some pods carry the override annotation descheduler.alpha.kubernetes.io/evict (their jobs pass
	// every filter by design) and the descheduler asks again and again to evict them.
	evictAnnotated bool
	// recreate: the pod of a waiting job is deleted and re-created under the same name with a new UID (StatefulSet).
	recreate bool
}

// the override annotation, spelled out here on purpose (not taken from the code under test)
const c16EvictAnnotation = "descheduler.alpha.kubernetes.io/evict"

func c16Forced(p *corev1.Pod) bool {
	if p == nil {
		return false
	}
	_, ok := p.Annotations[c16EvictAnnotation]
	return ok
}

func TestVerifC16ArbitrationRounds(t *testing.T) {
	c16kit.QuietKlog()
	rec := vk.New(t, "C16", "arbitrationRounds")
	handle := c16Handle() // stateless for our purposes (nodeFit is off): shared by all cases
	rapid.Check(t, func(t *rapid.T) {
		c := rec.Begin()
		defer c.End()
		c16ArbitrationCase(t, c, handle, c16Opts{})
	})
}

// The same state machine with the event handler in the loop after every round and with pods that carry the evict
// override annotation (see c16Opts).
func TestVerifC16ArbitrationEvents(t *testing.T) {
	c16kit.QuietKlog()
	rec := vk.New(t, "C16", "arbitrationEvents")
	handle := c16Handle()
	rapid.Check(t, func(t *rapid.T) {
		c := rec.Begin()
		defer c.End()
		c16ArbitrationCase(t, c, handle, c16Opts{events: true, evictAnnotated: true, recreate: true})
	})
}

func c16ArbitrationCase(t *rapid.T, c *vk.Case, handle framework.Handle, opt c16Opts) {
	{
		w := &c16World{c: c16NewClient(), byUID: map[types.UID]*c16Workload{}, ghost: map[types.UID]bool{}}
		w.args = &config.MigrationControllerArgs{
			DefaultJobMode:            string(v1alpha1.PodMigrationJobModeReservationFirst),
			SchedulerNames:            []string{"koord-scheduler"},
			MaxMigratingGlobally:      c16GenIntLimit(t, "maxGlobal"),
			MaxMigratingPerNode:       c16GenIntLimit(t, "maxPerNode"),
			MaxMigratingPerNamespace:  c16GenIntLimit(t, "maxPerNs"),
			MaxMigratingPerWorkload:   c16GenIntOrPercent(t, "maxMigWl"),
			MaxUnavailablePerWorkload: c16GenIntOrPercent(t, "maxUnavWl"),
		}
		if rapid.IntRange(0, 3).Draw(t, "skipExpectedReplicas") == 0 {
			w.args.SkipCheckExpectedReplicas = ptr.To(true)
		}
		if rapid.IntRange(0, 9).Draw(t, "skipGatesMode") >= 4 { // 40% no gate skipped, else any subset of the legal names
			for _, g := range c16AllGates {
				if rapid.IntRange(0, 3).Draw(t, "skip"+string(g)) == 0 {
					w.args.SkipEvictionGates = append(w.args.SkipEvictionGates, g)
				}
			}
		}
		limits := fmt.Sprintf("limits{global=%s node=%s ns=%s wlMigrating=%s wlUnavailable=%s skipExpectedReplicas=%v skipGates=%v}",
			c16I32(w.args.MaxMigratingGlobally), c16I32(w.args.MaxMigratingPerNode), c16I32(w.args.MaxMigratingPerNamespace),
			c16IOS(w.args.MaxMigratingPerWorkload), c16IOS(w.args.MaxUnavailablePerWorkload), w.args.SkipCheckExpectedReplicas != nil, w.args.SkipEvictionGates)

		for i, n := 0, rapid.IntRange(1, 3).Draw(t, "nodes"); i < n; i++ {
			w.nodes = append(w.nodes, fmt.Sprintf("n%d", i))
		}
		for i, n := 0, rapid.IntRange(1, 3).Draw(t, "namespaces"); i < n; i++ {
			w.nss = append(w.nss, fmt.Sprintf("ns%d", i))
		}
		sawTerminatingReady, restarts, sawStalePassed, sawNoUID, sawFilterDupNoUID := false, 0, false, false, false
		sawForcedPod, sawForcedDup, sawForcedAdmitted, sawPassedEvent, sawRoundAfterPassedEvent := false, false, false, false, false
		passedEventPending := map[types.UID]bool{} // jobs whose "passed" Update event (phase still empty) has been delivered
		sawRecreated, sawRoundWithReplacedPod := false, false
		replacedFor := map[types.UID]bool{} // waiting jobs (podRef with UID) whose pod has been re-created under the same name
		genPod := func(wl *c16Workload, ns string) *corev1.Pod {
			node := rapid.SampledFrom(w.nodes).Draw(t, "podNode")
			ready := rapid.IntRange(0, 4).Draw(t, "podReady") > 0
			prio := int32(rapid.SampledFrom([]int{0, 0, 5000, 9000}).Draw(t, "podPrio"))
			maxCost := rapid.IntRange(0, 19).Draw(t, "podMaxCost") == 0
			terminating := rapid.IntRange(0, 24).Draw(t, "podTerminating") == 0
			forced := opt.evictAnnotated && rapid.IntRange(0, 9).Draw(t, "podEvictAnnotated") == 0
			p := w.newPod(wl, ns, node, ready, prio, maxCost)
			if forced {
				p.Annotations[c16EvictAnnotation] = "true"
				if err := w.c.Update(context.TODO(), p); err != nil {
					panic(err)
				}
				w.dirty()
				sawForcedPod = true
			}
			if terminating {
				w.terminate(p) // being deleted, but still Running (and Ready if it was): not available any more
				sawTerminatingReady = sawTerminatingReady || (ready && wl != nil)
			}
			wn := "bare"
			if wl != nil {
				wn = wl.Name
			}
			w.logf("pod %s wl=%s node=%s ready=%v prio=%d maxCost=%v terminating=%v evictAnnotated=%v", c16Key(p), wn, node, ready, prio, maxCost, terminating, forced)
			return p
		}
		for i, n := 0, rapid.IntRange(1, 4).Draw(t, "workloads"); i < n; i++ {
			wl := &c16Workload{
				UID: types.UID(fmt.Sprintf("wl-%d-uid", i)), Name: fmt.Sprintf("wl-%d", i),
				Kind:     rapid.SampledFrom([]string{"ReplicaSet", "StatefulSet", "Job"}).Draw(t, "wlKind"),
				Ns:       rapid.SampledFrom(w.nss).Draw(t, "wlNs"),
				Replicas: int32(rapid.SampledFrom([]int{1, 2, 3, 3, 4, 4, 5, 6, 6, 11}).Draw(t, "replicas")),
			}
			w.workloads = append(w.workloads, wl)
			w.byUID[wl.UID] = wl
			w.logf("workload %s kind=%s ns=%s replicas=%d", wl.Name, wl.Kind, wl.Ns, wl.Replicas)
			nPods := int(wl.Replicas) + rapid.SampledFrom([]int{0, 0, 0, -1}).Draw(t, "podDelta")
			if wl.Replicas > 6 {
				nPods = 6 // a big workload whose other pods are elsewhere/pending creation
			}
			for k := 0; k < nPods; k++ {
				genPod(wl, wl.Ns)
			}
		}
		if rapid.IntRange(0, 3).Draw(t, "barePod") == 0 {
			genPod(nil, rapid.SampledFrom(w.nss).Draw(t, "bareNs"))
		}

		a := c16NewArbitrator(w, handle)
		h := NewHandler(a, w.c)
		q := c16Queue{}
		ctx := context.TODO()

		// jobs that exist before the first round: running ones (counted whatever their history) and
		// pending ones that passed an earlier round; they may already exceed a limit.
		for i, n := 0, rapid.IntRange(0, 4).Draw(t, "preexisting"); i < n; i++ {
			var free []*corev1.Pod
			for _, p := range w.pods() {
				if w.liveJobOf(p) == nil {
					free = append(free, p)
				}
			}
			if len(free) == 0 {
				break
			}
			p := rapid.SampledFrom(free).Draw(t, "prePod")
			withUID := rapid.Bool().Draw(t, "preJobHasPodUID")
			sawNoUID = sawNoUID || !withUID
			j := w.newJob(p, 0, withUID)
			j.Annotations = map[string]string{AnnotationPassedArbitration: "true"}
			if err := w.c.Update(ctx, j); err != nil {
				panic(err)
			}
			w.dirty()
			if rapid.Bool().Draw(t, "preRunning") {
				w.setPhase(j, v1alpha1.PodMigrationJobRunning)
				w.logf("preexisting running %s -> %s (podRef.uid=%v)", j.Name, c16Key(p), withUID)
			} else {
				a.filter.markJobPassedArbitration(j.UID) // exactly what updatePassedJob leaves behind
				w.logf("preexisting passed-pending %s -> %s (podRef.uid=%v)", j.Name, c16Key(p), withUID)
			}
		}

		dead := false
		rounds, contended, contendedOne := 0, false, false
		sawRefused, sawFailed, sawPassed, sawGhost, sawOverBefore, sawFilterDup := false, false, false, false, false, false
		viol := func(sig, format string, args ...any) {
			msg := fmt.Sprintf(format, args...)
			if c.Violation(t, sig, "%s: %s; history=%s", limits, msg, strings.Join(w.hist, " | ")) {
				dead = true
			}
		}
		pick := func(t *rapid.T, label string, cond func(j *v1alpha1.PodMigrationJob) bool) *v1alpha1.PodMigrationJob {
			var cands []*v1alpha1.PodMigrationJob
			for _, j := range w.jobs() {
				if cond(j) {
					cands = append(cands, j)
				}
			}
			if len(cands) == 0 {
				t.Skip("no candidate job")
			}
			return rapid.SampledFrom(cands).Draw(t, label)
		}
		addJob := func(t *rapid.T, p *corev1.Pod, how string, withUID bool) {
			sawNoUID = sawNoUID || !withUID
			j := w.newJob(p, rapid.IntRange(0, 20).Draw(t, "jobAge"), withUID)
			h.Create(ctx, event.CreateEvent{Object: j}, q)
			w.logf("%s %s -> %s (created %s, podRef.uid=%v)", how, j.Name, c16Key(p), j.CreationTimestamp.Format("15:04:05"), withUID)
		}

		round := func(t *rapid.T) {
			if dead {
				return
			}
			rounds++
			before := w.snapshot()
			pods := map[string]*corev1.Pod{}
			for _, p := range w.pods() {
				pods[c16Key(p)] = p
			}
			a.mu.Lock()
			var waiting []types.UID
			for uid := range a.waitingCollection {
				waiting = append(waiting, uid)
			}
			a.mu.Unlock()
			sort.Slice(waiting, func(i, j int) bool { return waiting[i] < waiting[j] })
			jobsBefore := map[types.UID]*v1alpha1.PodMigrationJob{}
			for _, j := range w.jobs() {
				jobsBefore[j.UID] = j
			}
			// after a restart: jobs that passed arbitration before it (annotation in the API) and have been replayed
			// into the new arbitrator but not gone through a round yet
			stalePassed := 0
			for _, uid := range waiting {
				if j := jobsBefore[uid]; j != nil && c16Phase(j) == v1alpha1.PodMigrationJobPending && c16Passed(j) && !w.ghost[uid] {
					stalePassed++
				}
			}
			sawStalePassed = sawStalePassed || stalePassed > 0
			// competition (non-trivial rule): in some limited scope with free slots, more admissible waiting jobs than slots
			{
				type sc struct{ left, want int }
				scopes := map[string]*sc{}
				add := func(key string, limit, used int) {
					if limit <= 0 {
						return
					}
					if scopes[key] == nil {
						scopes[key] = &sc{left: limit - used}
					}
					scopes[key].want++
				}
				for _, uid := range waiting {
					j := jobsBefore[uid]
					if j == nil || c16Active(j) || !c16Live(j) {
						continue
					}
					p := pods[j.Spec.PodRef.Namespace+"/"+j.Spec.PodRef.Name]
					if p == nil || w.nonHeadroomReason(p) != "" || c16Forced(p) {
						continue
					}
					add("global", w.limGlobal(), before.global)
					add("node/"+p.Spec.NodeName, w.limNode(), before.node[p.Spec.NodeName])
					add("ns/"+p.Namespace, w.limNs(), before.ns[p.Namespace])
					if o := metav1.GetControllerOf(p); o != nil {
						r := int(w.byUID[o.UID].Replicas)
						add("wlmig/"+string(o.UID), w.limWlMig(r), before.wlMig[o.UID])
						unav := before.wlUnav[o.UID]
						add("wlunav/"+string(o.UID), w.limWlUnav(r), unav)
					}
				}
				for _, s := range scopes {
					if s.left >= 1 && s.want > s.left {
						contended = true
						if s.left == 1 {
							contendedOne = true
						}
					}
				}
			}

			// shape for the event rule: a job that passed earlier, whose Update event (phase still empty) has already been
			// delivered, is still pending while other jobs are waiting in this round
			for _, uid := range waiting {
				j := jobsBefore[uid]
				if j == nil || c16Active(j) || !c16Live(j) || pods[j.Spec.PodRef.Namespace+"/"+j.Spec.PodRef.Name] == nil {
					continue
				}
				for puid := range passedEventPending {
					if pj := jobsBefore[puid]; pj != nil && c16Phase(pj) == v1alpha1.PodMigrationJobPending && c16Passed(pj) {
						sawRoundAfterPassedEvent = true
					}
				}
			}
			for _, uid := range waiting {
				if j := jobsBefore[uid]; j != nil && replacedFor[uid] && !c16Active(j) && c16Live(j) && pods[j.Spec.PodRef.Namespace+"/"+j.Spec.PodRef.Name] != nil {
					sawRoundWithReplacedPod = true
				}
			}
			// admissions forced by the override annotation in this round, per scope: they come on top of the limits by design
			forcedGlobal, forcedNode, forcedNs, forcedWl := 0, map[string]int{}, map[string]int{}, map[types.UID]int{}

			a.doOnceArbitrate()
			w.dirty()

			// jobs admitted although their pod does not exist migrate nothing: not counted (see report)
			jobsAfter := map[types.UID]*v1alpha1.PodMigrationJob{}
			for _, j := range w.jobs() {
				jobsAfter[j.UID] = j
			}
			var passedNow, refusedNow, failedNow []string
			for _, uid := range waiting {
				jb, ja := jobsBefore[uid], jobsAfter[uid]
				if jb == nil || ja == nil {
					continue // deleted from the API while waiting
				}
				if c16Active(jb) || !c16Live(jb) {
					continue
				}
				p := pods[jb.Spec.PodRef.Namespace+"/"+jb.Spec.PodRef.Name]
				a.mu.Lock()
				_, stillWaiting := a.waitingCollection[uid]
				a.mu.Unlock()
				switch {
				case c16Phase(ja) == v1alpha1.PodMigrationJobFailed:
					failedNow = append(failedNow, ja.Name)
					sawFailed = true
					reason := ""
					if p != nil {
						reason = w.nonHeadroomReason(p)
					}
					if reason == "" {
						w.logf("round %d: passed=%v refused=%v failed=%v", rounds, passedNow, refusedNow, failedNow)
						viol("arbitration:job-failed-for-lack-of-headroom", "round %d: %s (pod %s) was set to Failed although nothing but the limits can have refused it", rounds, ja.Name, jb.Spec.PodRef.Name)
						return
					}
				case c16Active(ja):
					passedNow = append(passedNow, ja.Name)
					sawPassed = true
					if p == nil {
						w.ghost[uid] = true
						sawGhost = true
					}
					if c16Forced(p) {
						sawForcedAdmitted = true
						forcedGlobal++
						forcedNs[p.Namespace]++
						if p.Spec.NodeName != "" {
							forcedNode[p.Spec.NodeName]++
						}
						if o := metav1.GetControllerOf(p); o != nil {
							forcedWl[o.UID]++
						}
					}
				default:
					refusedNow = append(refusedNow, ja.Name)
					sawRefused = true
					if !stillWaiting || c16Phase(ja) != v1alpha1.PodMigrationJobPending {
						w.logf("round %d: passed=%v refused=%v failed=%v", rounds, passedNow, refusedNow, failedNow)
						viol("arbitration:refused-job-not-waiting", "round %d: %s was neither admitted nor failed but is no longer waiting (in waiting collection=%v, phase=%q)", rounds, ja.Name, stillWaiting, ja.Status.Phase)
						return
					}
				}
			}
			w.logf("round %d: passed=%v refused=%v failed=%v", rounds, passedNow, refusedNow, failedNow)
			after := w.snapshot()
			for uid := range after.active {
				if !before.active[uid] && jobsBefore[uid] != nil {
					found := false
					for _, x := range waiting {
						found = found || x == uid
					}
					if !found {
						viol("arbitration:admitted-job-that-was-not-waiting", "round %d: %s became active without being in the waiting collection", rounds, jobsAfter[uid].Name)
						return
					}
				}
			}
			chk := func(scope string, limit, b, af, forced int) bool {
				if limit <= 0 {
					return false
				}
				if b > limit {
					sawOverBefore = true
				}
				bound := limit
				if b > bound {
					bound = b
				}
				bound += forced // jobs of pods with the override annotation pass whatever the limits say
				if af > bound {
					sig := "arbitration:over-limit:" + strings.SplitN(scope, " ", 2)[0]
					if stalePassed > 0 {
						// a different defect than a wrong limit check: the new arbitrator does not know yet about jobs admitted before the restart
						sig = "arbitration:over-limit-after-restart:passed-job-not-yet-rearbitrated"
					}
					viol(sig, "round %d: %s: %d active after the round, limit %d, %d before the round, %d admitted through the evict override annotation (%d passed-pending jobs replayed after a restart were still waiting for re-arbitration)", rounds, scope, af, limit, b, forced, stalePassed)
					return true
				}
				return false
			}
			if chk("global", w.limGlobal(), before.global, after.global, forcedGlobal) {
				return
			}
			for _, n := range w.nodes {
				if chk("node "+n, w.limNode(), before.node[n], after.node[n], forcedNode[n]) {
					return
				}
			}
			for _, n := range w.nss {
				if chk("namespace "+n, w.limNs(), before.ns[n], after.ns[n], forcedNs[n]) {
					return
				}
			}
			for _, wl := range w.workloads {
				r := int(wl.Replicas)
				if chk("workload-migrating "+wl.Name, w.limWlMig(r), before.wlMig[wl.UID], after.wlMig[wl.UID], forcedWl[wl.UID]) {
					return
				}
				if chk("workload-unavailable "+wl.Name, w.limWlUnav(r), before.wlUnav[wl.UID], after.wlUnav[wl.UID], forcedWl[wl.UID]) {
					return
				}
			}
			// the informer delivers what the round has written to the arbitrator's own event handler
			if opt.events {
				var delivered []string
				for _, ja := range w.jobs() {
					jb := jobsBefore[ja.UID]
					if jb == nil || jb.ResourceVersion == ja.ResourceVersion {
						continue
					}
					h.Update(ctx, event.UpdateEvent{ObjectOld: jb, ObjectNew: ja}, q)
					delivered = append(delivered, fmt.Sprintf("%s(phase=%q)", ja.Name, ja.Status.Phase))
					if c16Phase(ja) == v1alpha1.PodMigrationJobPending && c16Passed(ja) && ja.Status.Phase == "" {
						passedEventPending[ja.UID] = true
						sawPassedEvent = true
					}
				}
				if len(delivered) > 0 {
					w.logf("update events delivered: %v", delivered)
				}
			}
		}

		actions := map[string]func(*rapid.T){
			// the descheduler wants to migrate a pod: Reconciler.Evict = arbitrator.Filter, then create the job
			"deschedulerEvict": func(t *rapid.T) {
				if dead {
					return
				}
				ps := w.pods()
				if len(ps) == 0 {
					t.Skip("no pods")
				}
				p := rapid.SampledFrom(ps).Draw(t, "pod")
				liveJob := w.liveJobOf(p)
				ok := a.Filter(p)
				if liveJob != nil {
					sawFilterDup = true
					sawForcedDup = sawForcedDup || c16Forced(p)
					sawFilterDupNoUID = sawFilterDupNoUID || liveJob.Spec.PodRef.UID == ""
					if ok {
						viol("arbitration:second-live-job-allowed", "Filter(%s) = true although %s (phase %q) is a live job for that pod", c16Key(p), liveJob.Name, liveJob.Status.Phase)
						return
					}
				}
				if ok {
					addJob(t, p, "descheduler job", true) // CreatePodMigrationJob always records the pod UID
				} else {
					w.logf("descheduler evict %s refused by Filter", c16Key(p))
				}
			},
			// a job created by somebody else (kubectl, another controller): not gated by Filter
			"externalJob": func(t *rapid.T) {
				if dead {
					return
				}
				var free []*corev1.Pod
				for _, p := range w.pods() {
					if w.liveJobOf(p) == nil {
						free = append(free, p)
					}
				}
				if len(free) == 0 {
					t.Skip("every pod has a job")
				}
				addJob(t, rapid.SampledFrom(free).Draw(t, "pod"), "external job", rapid.Bool().Draw(t, "jobHasPodUID"))
			},
			"externalJob2": func(t *rapid.T) {
				if dead {
					return
				}
				var free []*corev1.Pod
				for _, p := range w.pods() {
					if w.liveJobOf(p) == nil {
						free = append(free, p)
					}
				}
				if len(free) == 0 {
					t.Skip("every pod has a job")
				}
				addJob(t, rapid.SampledFrom(free).Draw(t, "pod"), "external job", rapid.Bool().Draw(t, "jobHasPodUID"))
			},
			"jobStartsRunning": func(t *rapid.T) {
				if dead {
					return
				}
				j := pick(t, "job", func(j *v1alpha1.PodMigrationJob) bool {
					return c16Phase(j) == v1alpha1.PodMigrationJobPending && c16Passed(j)
				})
				filled := false
				if j.Spec.PodRef.UID == "" && rapid.Bool().Draw(t, "controllerFillsUID") {
					p := &corev1.Pod{}
					if err := w.c.Get(ctx, types.NamespacedName{Namespace: j.Spec.PodRef.Namespace, Name: j.Spec.PodRef.Name}, p); err == nil {
						cur := &v1alpha1.PodMigrationJob{}
						if err := w.c.Get(ctx, types.NamespacedName{Name: j.Name}, cur); err != nil {
							panic(err)
						}
						cur.Spec.PodRef.UID = p.UID
						if err := w.c.Update(ctx, cur); err != nil {
							panic(err)
						}
						w.dirty()
						filled = true
					}
				}
				nj := w.setPhase(j, v1alpha1.PodMigrationJobRunning)
				h.Update(ctx, event.UpdateEvent{ObjectOld: j, ObjectNew: nj}, q)
				w.logf("%s running (pod uid filled in=%v)", j.Name, filled)
			},
			// the running job evicts its pod; the workload controller creates a replacement (not ready yet)
			"runningJobEvictsPod": func(t *rapid.T) {
				if dead {
					return
				}
				j := pick(t, "job", func(j *v1alpha1.PodMigrationJob) bool { return c16Phase(j) == v1alpha1.PodMigrationJobRunning })
				p := &corev1.Pod{}
				if err := w.c.Get(ctx, types.NamespacedName{Namespace: j.Spec.PodRef.Namespace, Name: j.Spec.PodRef.Name}, p); err != nil {
					t.Skip("pod already gone")
				}
				w.removePod(p)
				w.logf("%s evicted its pod %s", j.Name, c16Key(p))
				if o := metav1.GetControllerOf(p); o != nil {
					np := w.newPod(w.byUID[o.UID], p.Namespace, rapid.SampledFrom(w.nodes).Draw(t, "newNode"), false, 0, false)
					w.logf("replacement pod %s wl=%s node=%s ready=false", c16Key(np), w.byUID[o.UID].Name, np.Spec.NodeName)
				}
			},
			"jobFinishes": func(t *rapid.T) {
				if dead {
					return
				}
				j := pick(t, "job", func(j *v1alpha1.PodMigrationJob) bool { return c16Active(j) })
				ph := rapid.SampledFrom([]v1alpha1.PodMigrationJobPhase{v1alpha1.PodMigrationJobSucceeded, v1alpha1.PodMigrationJobFailed, v1alpha1.PodMigrationJobAborted}).Draw(t, "phase")
				if ph == v1alpha1.PodMigrationJobSucceeded && c16Phase(j) != v1alpha1.PodMigrationJobRunning {
					ph = v1alpha1.PodMigrationJobAborted
				}
				nj := w.setPhase(j, ph)
				h.Update(ctx, event.UpdateEvent{ObjectOld: j, ObjectNew: nj}, q)
				w.logf("%s %s", j.Name, ph)
			},
			"jobDeleted": func(t *rapid.T) {
				if dead {
					return
				}
				j := pick(t, "job", func(j *v1alpha1.PodMigrationJob) bool { return true })
				if err := w.c.Delete(ctx, j); err != nil && !apierrors.IsNotFound(err) {
					panic(err)
				}
				w.dirty()
				h.Delete(ctx, event.DeleteEvent{Object: j}, q)
				w.logf("%s deleted (phase %q passed=%v)", j.Name, j.Status.Phase, c16Passed(j))
			},
			"podReadiness": func(t *rapid.T) {
				if dead {
					return
				}
				ps := w.pods()
				if len(ps) == 0 {
					t.Skip("no pods")
				}
				p := rapid.SampledFrom(ps).Draw(t, "pod")
				st := corev1.ConditionTrue
				if c16Ready(p) {
					st = corev1.ConditionFalse
				}
				p = p.DeepCopy()
				p.Status.Conditions = []corev1.PodCondition{{Type: corev1.PodReady, Status: st}}
				if err := w.c.Status().Update(ctx, p); err != nil {
					panic(err)
				}
				w.dirty()
				w.logf("pod %s ready=%s", c16Key(p), st)
			},
			// the pod of a job that is still waiting disappears (deleted by its owner, finished, ...)
			"podVanishes": func(t *rapid.T) {
				if dead {
					return
				}
				if rapid.IntRange(0, 2).Draw(t, "rare") != 0 {
					t.Skip("rare action")
				}
				ps := w.pods()
				if len(ps) == 0 {
					t.Skip("no pods")
				}
				p := rapid.SampledFrom(ps).Draw(t, "pod")
				w.removePod(p)
				w.logf("pod %s vanished", c16Key(p))
			},
			// graceful deletion of a replica starts (scale-in, rollout, node drain ...): still Running/Ready for a while
			"podStartsTerminating": func(t *rapid.T) {
				if dead {
					return
				}
				if rapid.IntRange(0, 2).Draw(t, "rare") != 0 {
					t.Skip("rare action")
				}
				var cands []*corev1.Pod
				for _, p := range w.pods() {
					if p.DeletionTimestamp == nil {
						cands = append(cands, p)
					}
				}
				if len(cands) == 0 {
					t.Skip("no pods")
				}
				p := rapid.SampledFrom(cands).Draw(t, "pod")
				w.terminate(p)
				sawTerminatingReady = sawTerminatingReady || (c16Ready(p) && metav1.GetControllerOf(p) != nil)
				w.logf("pod %s terminating (ready=%v)", c16Key(p), c16Ready(p))
			},
			// descheduler restart / leader failover: a new arbitrator with empty in-memory state on the same API
			// state; the informer replays every job that is not finished through the real create-event handler
			"arbitratorRestart": func(t *rapid.T) {
				if dead {
					return
				}
				if rapid.IntRange(0, 1).Draw(t, "rare") != 0 {
					t.Skip("rare action")
				}
				a = c16NewArbitrator(w, handle)
				h = NewHandler(a, w.c)
				var live []*v1alpha1.PodMigrationJob
				for _, j := range w.jobs() {
					if c16Live(j) {
						live = append(live, j)
					}
				}
				var order []string
				if len(live) > 0 {
					for _, j := range rapid.Permutation(live).Draw(t, "replayOrder") {
						h.Create(ctx, event.CreateEvent{Object: j}, q)
						order = append(order, j.Name)
					}
				}
				restarts++
				w.logf("arbitrator restart, replayed %v", order)
			},
			"round":  round,
			"round2": round,
			"round3": round,
		}
		if opt.evictAnnotated {
			// every plugin / every cycle selects the annotated pods again
			actions["deschedulerEvictAnnotated"] = func(t *rapid.T) {
				if dead {
					return
				}
				var cands []*corev1.Pod
				for _, p := range w.pods() {
					if c16Forced(p) {
						cands = append(cands, p)
					}
				}
				if len(cands) == 0 {
					t.Skip("no annotated pod")
				}
				p := rapid.SampledFrom(cands).Draw(t, "pod")
				liveJob := w.liveJobOf(p)
				ok := a.Filter(p)
				if liveJob != nil {
					sawFilterDup, sawForcedDup = true, true
					if ok {
						viol("arbitration:second-live-job-allowed", "Filter(%s) = true although %s (phase %q) is a live job for that pod (the pod carries the evict override annotation)", c16Key(p), liveJob.Name, liveJob.Status.Phase)
						return
					}
				}
				if ok {
					addJob(t, p, "descheduler job (annotated pod)", true)
				} else {
					w.logf("descheduler evict of annotated %s refused by Filter", c16Key(p))
				}
			}
		}
		if opt.recreate {
			actions["podRecreatedUnderSameName"] = func(t *rapid.T) {
				if dead {
					return
				}
				// pods of jobs that are still waiting for arbitration
				var cands []*corev1.Pod
				var jobs []*v1alpha1.PodMigrationJob
				for _, p := range w.pods() {
					if j := w.liveJobOf(p); j != nil && !c16Active(j) && p.DeletionTimestamp == nil {
						cands = append(cands, p)
						jobs = append(jobs, j)
					}
				}
				if len(cands) == 0 {
					t.Skip("no pod with a waiting job")
				}
				i := rapid.IntRange(0, len(cands)-1).Draw(t, "pod")
				np := w.recreatePod(cands[i], rapid.SampledFrom(w.nodes).Draw(t, "newNode"), rapid.IntRange(0, 3).Draw(t, "newReady") > 0)
				sawRecreated = true
				if jobs[i].Spec.PodRef.UID != "" {
					replacedFor[jobs[i].UID] = true
				}
				w.logf("pod %s re-created under the same name (uid %s -> %s, node=%s ready=%v), waiting job %s (podRef.uid=%q)", c16Key(np), cands[i].UID, np.UID, np.Spec.NodeName, c16Ready(np), jobs[i].Name, jobs[i].Spec.PodRef.UID)
			}
		}
		t.Repeat(actions)
		if !dead {
			round(t) // every case ends with a round
		}

		c.Class(fmt.Sprintf("rounds:%s", map[bool]string{true: ">=3", false: "<3"}[rounds >= 3]))
		c.ClassIf(contended, "waiting-jobs-exceed-free-slots")
		c.ClassIf(contendedOne, "two-waiting-jobs-one-free-slot")
		c.ClassIf(sawRefused, "job-refused-for-headroom")
		c.ClassIf(sawFailed, "job-failed-non-retryable")
		c.ClassIf(sawPassed, "job-admitted")
		c.ClassIf(sawGhost, "job-admitted-without-pod(not counted)")
		c.ClassIf(sawOverBefore, "limit-already-exceeded-before-round")
		c.ClassIf(sawFilterDup, "filter-asked-for-pod-with-live-job")
		c.ClassIf(sawTerminatingReady, "terminating-but-ready-replica")
		c.ClassIf(restarts > 0, "arbitrator-restarted")
		c.ClassIf(sawStalePassed, "round-with-replayed-passed-job")
		c.ClassIf(sawNoUID, "job-with-podref-without-uid")
		c.ClassIf(sawRecreated, "pod-of-waiting-job-recreated-under-same-name")
		c.ClassIf(sawRoundWithReplacedPod, "round-with-waiting-job-whose-podref-uid-is-of-the-old-pod")
		c.ClassIf(sawForcedPod, "pod-with-evict-override-annotation")
		c.ClassIf(sawForcedDup, "filter-asked-for-annotated-pod-with-live-job")
		c.ClassIf(sawForcedAdmitted, "job-admitted-through-override-annotation")
		c.ClassIf(sawPassedEvent, "update-event-of-passed-job-with-empty-phase-delivered")
		c.ClassIf(sawRoundAfterPassedEvent, "round-with-waiting-jobs-while-such-a-job-is-still-pending")
		c.ClassIf(sawFilterDupNoUID, "filter-asked-for-pod-with-live-job-without-uid")
		c.ClassIf(len(w.args.SkipEvictionGates) > 0, "skip-gates:some")
		for _, g := range c16AllGates[:6] {
			c.ClassIf(w.skips(g), "skip-gate:"+string(g))
		}
		c.ClassIf(w.skips(config.EvictionGateBarePods), "skip-gate:BarePods")
		c.ClassIf(w.skips(config.EvictionGateMaxMigratingPerWorkload) && !w.skips(config.EvictionGateMaxUnavailablePerWorkload), "skip-migrating-gate-but-unavailable-in-force")
		c.ClassIf(w.args.MaxMigratingGlobally != nil && *w.args.MaxMigratingGlobally > 0, "global-limit-set")
		c.ClassIf(w.args.MaxMigratingPerWorkload != nil && w.args.MaxMigratingPerWorkload.Type == intstr.String, "workload-limit-percent")
		if contendedOne {
			c.NonTrivial(limits, w.hist)
		}
		c.Sample(map[string]any{"limits": limits, "history": w.hist})
	}
}
