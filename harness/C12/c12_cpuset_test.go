//go:build verif

// C12 (second unit) — the best-effort cpuset rewrite of cpusuppress (applyCPUSetWithNonePolicy) never passes through an
// invalid hierarchy. See /verif/DESIGN.md §1 C12.
package cpusuppress

import (
	"fmt"
	"os"
	"path/filepath"
	"sort"
	"strings"
	"testing"
	"time"

	corev1 "k8s.io/api/core/v1"
	"pgregory.net/rapid"

	maframework "github.com/koordinator-sh/koordinator/pkg/koordlet/metricsadvisor/framework"
	"github.com/koordinator-sh/koordinator/pkg/koordlet/qosmanager/framework"
	"github.com/koordinator-sh/koordinator/pkg/koordlet/resourceexecutor"
	koordletutil "github.com/koordinator-sh/koordinator/pkg/koordlet/util"
	"github.com/koordinator-sh/koordinator/pkg/koordlet/util/system"
	"github.com/koordinator-sh/koordinator/pkg/util/cache"
	"github.com/koordinator-sh/koordinator/pkg/util/cpuset"
	"github.com/koordinator-sh/koordinator/pkg/verifkit/vk"
)

// c12SnapExecutor forwards one updater at a time to the real executor and lets the harness look at the tree after each.
type c12SnapExecutor struct {
	inner resourceexecutor.ResourceUpdateExecutor
	after func(step string)
}

func (e *c12SnapExecutor) Update(cacheable bool, u resourceexecutor.ResourceUpdater) (bool, error) {
	ok, err := e.inner.Update(cacheable, u)
	e.after(fmt.Sprintf("update(%s,%s)", u.Path(), u.Value()))
	return ok, err
}

func (e *c12SnapExecutor) UpdateBatch(cacheable bool, us ...resourceexecutor.ResourceUpdater) {
	for _, u := range us { // a batch is a sequence of independent single updates
		e.inner.UpdateBatch(cacheable, u)
		e.after(fmt.Sprintf("write(%s,%s)", u.Path(), u.Value()))
	}
}

func (e *c12SnapExecutor) LeveledUpdateBatch(us [][]resourceexecutor.ResourceUpdater) {
	e.inner.LeveledUpdateBatch(us)
	e.after("leveled")
}

func (e *c12SnapExecutor) Run(stopCh <-chan struct{}) { e.inner.Run(stopCh) }

func c12Subset(t *rapid.T, parent []int, label string) []int {
	var out []int
	for _, id := range parent {
		if rapid.Bool().Draw(t, label) {
			out = append(out, id)
		}
	}
	if len(out) == 0 {
		out = []int{parent[rapid.IntRange(0, len(parent)-1).Draw(t, label+"One")]}
	}
	return out
}

func c12ToInt32(ids []int) []int32 {
	out := make([]int32, len(ids))
	for i, v := range ids {
		out[i] = int32(v)
	}
	return out
}

func TestVerifC12BECPUSetRewrite(t *testing.T) {
	rec := vk.New(t, "C12", "beCPUSetRewrite")
	universe := []int{0, 1, 2, 3, 4, 5, 6, 7}
	sentinel := time.Date(2001, 1, 1, 0, 0, 0, 0, time.UTC)

	rapid.Check(t, func(rt *rapid.T) {
		c := rec.Begin()
		defer c.End()
		// a fresh temp cgroup root per case (NewFileTestUtil needs the outer *testing.T)
		helper := system.NewFileTestUtil(t)
		defer helper.Cleanup()
		v2 := rapid.Bool().Draw(rt, "cgroupV2")
		helper.SetCgroupsV2(v2)
		res, err := system.GetCgroupResource(system.CPUSetCPUSName)
		if err != nil {
			rt.Fatalf("harness: %v", err)
		}
		beRoot := koordletutil.GetPodQoSRelativePath(corev1.PodQOSBestEffort)
		kubepods := koordletutil.GetPodQoSRelativePath(corev1.PodQOSGuaranteed)

		// dirs: index 0 = kubepods (all cpus, never written), 1 = BE root, then pods, then containers
		type node struct {
			Dir    string
			Parent int
			Set    []int
		}
		nodes := []node{{Dir: kubepods, Parent: -1, Set: universe}}
		rootSet := c12Subset(rt, universe, "rootOld")
		nodes = append(nodes, node{Dir: beRoot, Parent: 0, Set: rootSet})
		nPods := rapid.IntRange(0, 3).Draw(rt, "pods")
		for p := 0; p < nPods; p++ {
			ps := c12Subset(rt, rootSet, "podOld")
			nodes = append(nodes, node{Dir: filepath.Join(beRoot, fmt.Sprintf("pod%d", p)), Parent: 1, Set: ps})
			pi := len(nodes) - 1
			for k := 0; k < rapid.IntRange(0, 2).Draw(rt, "containers"); k++ {
				nodes = append(nodes, node{Dir: filepath.Join(nodes[pi].Dir, fmt.Sprintf("c%d", k)), Parent: pi, Set: c12Subset(rt, ps, "ctrOld")})
			}
		}
		write := func(n node) {
			p := res.Path(n.Dir)
			_ = os.MkdirAll(filepath.Dir(p), 0o777)
			if err := os.WriteFile(p, []byte(cpuset.NewCPUSet(n.Set...).String()), 0o644); err != nil {
				rt.Fatalf("harness: %v", err)
			}
		}
		for _, n := range nodes {
			write(n)
		}

		opt := &framework.Options{Config: framework.NewDefaultConfig(), MetricAdvisorConfig: maframework.NewDefaultConfig()}
		r := newTestCPUSuppress(opt)
		inner := &resourceexecutor.ResourceUpdateExecutorImpl{Config: resourceexecutor.NewDefaultConfig(), ResourceCache: cache.NewCacheDefault()}
		inner.Config.ResourceForceUpdateSeconds = 24 * 3600
		var trace []string
		dead := false
		read := func(i int) (cpuset.CPUSet, string) {
			b, _ := os.ReadFile(res.Path(nodes[i].Dir))
			s := strings.Trim(string(b), "\n")
			cs, err := cpuset.Parse(s)
			if err != nil {
				return cpuset.NewCPUSet(), s
			}
			return cs, s
		}
		snap := &c12SnapExecutor{inner: inner}
		snap.after = func(step string) {
			if dead {
				return
			}
			cur := make([]string, len(nodes))
			sets := make([]cpuset.CPUSet, len(nodes))
			for i := range nodes {
				sets[i], cur[i] = read(i)
			}
			trace = append(trace, fmt.Sprintf("%s => %v", strings.TrimPrefix(step, helper.TempDir), cur))
			for i, n := range nodes {
				if n.Parent < 0 {
					continue
				}
				if sets[i].IsEmpty() || !sets[i].IsSubsetOf(sets[n.Parent]) {
					dead = true
					c.Violation(rt, "becpuset:child-outside-parent", "after %s: %s=%q not within parent %s=%q; trace=%v", step, n.Dir, cur[i], nodes[n.Parent].Dir, cur[n.Parent], trace)
					return
				}
			}
		}
		r.executor = snap
		stop := make(chan struct{})
		defer close(stop)
		r.init(stop)

		rounds := rapid.IntRange(1, 3).Draw(rt, "rounds")
		sawShift, sawShrink, sawGrow, sawSame := false, false, false, false
		var roundsDesc []string
		for round := 0; round < rounds && !dead; round++ {
			cur, _ := read(1)
			old := cur.ToSlice()
			target := c12Subset(rt, universe, "target")
			if rapid.IntRange(0, 4).Draw(rt, "sameAsOld") == 0 {
				target = old
			}
			tset := cpuset.NewCPUSet(target...)
			switch {
			case tset.Equals(cur):
				sawSame = true
			case tset.IsSubsetOf(cur):
				sawShrink = true
			case cur.IsSubsetOf(tset):
				sawGrow = true
			default:
				sawShift = true
			}
			// which files already hold the target (they must not be rewritten)
			unchanged := map[int]bool{}
			for i := 1; i < len(nodes); i++ {
				s, _ := read(i)
				if s.Equals(tset) && tset.Equals(cur) { // the merged value equals the target too, so no write at all is needed
					unchanged[i] = true
					_ = os.Chtimes(res.Path(nodes[i].Dir), sentinel, sentinel)
				}
			}
			roundsDesc = append(roundsDesc, fmt.Sprintf("old=%s target=%s", cur.String(), tset.String()))
			trace = append(trace, fmt.Sprintf("-- round %d: old=%s target=%s", round, cur.String(), tset.String()))
			// shuffle the order in which the agent is told the cpus (it must not matter)
			tgt32 := c12ToInt32(target)
			if rapid.Bool().Draw(rt, "reverseTargetOrder") {
				sort.Slice(tgt32, func(i, j int) bool { return tgt32[i] > tgt32[j] })
			}
			if err := r.applyCPUSetWithNonePolicy(tgt32, c12ToInt32(old)); err != nil {
				rt.Fatalf("harness: applyCPUSetWithNonePolicy: %v", err)
			}
			if dead {
				break
			}
			for i := 1; i < len(nodes); i++ {
				s, raw := read(i)
				if !s.Equals(tset) {
					dead = true
					c.Violation(rt, "becpuset:final-not-target", "round %d: %s holds %q, target %q; trace=%v", round, nodes[i].Dir, raw, tset.String(), trace)
					break
				}
				if unchanged[i] {
					if st, err := os.Stat(res.Path(nodes[i].Dir)); err == nil && !st.ModTime().Equal(sentinel) {
						dead = true
						c.Violation(rt, "becpuset:unchanged-file-rewritten", "round %d: %s already held %q and was rewritten; trace=%v", round, nodes[i].Dir, tset.String(), trace)
						break
					}
				}
			}
			// between rounds the kubelet may create a new BE pod cgroup (hierarchy-valid: inherits a subset of the root's set)
			if !dead && round+1 < rounds && rapid.Bool().Draw(rt, "newPodBetweenRounds") {
				n := node{Dir: filepath.Join(beRoot, fmt.Sprintf("late%d", round)), Parent: 1, Set: c12Subset(rt, target, "lateSet")}
				nodes = append(nodes, n)
				write(n)
				c.Class("pod-created-between-rounds")
			}
		}
		c.ClassIf(v2, "cgroup-v2")
		c.ClassIf(sawShift, "shift")
		c.ClassIf(sawShrink, "shrink")
		c.ClassIf(sawGrow, "grow")
		c.ClassIf(sawSame, "target-equals-old")
		c.Class(fmt.Sprintf("rounds:%d", rounds))
		c.ClassIf(len(nodes) > 2, "has-pods")
		if len(nodes) > 2 && (sawShift || (sawShrink && sawGrow)) {
			c.NonTrivial(v2, fmt.Sprint(nodes), roundsDesc)
		}
		c.Sample(map[string]any{"v2": v2, "nodes": nodes, "rounds": roundsDesc, "trace": trace})
	})
}
