//go:build verif

// C12 (second unit) — the best-effort cpuset rewrite of cpusuppress (applyCPUSetWithNonePolicy) never passes through an
// invalid hierarchy. See /verif/DESIGN.md §1 C12.
package cpusuppress

import (
	"fmt"
	"os"
	"path/filepath"
	"sort"
	"strings"
	"testing"
	"time"

	topov1alpha1 "github.com/k8stopologyawareschedwg/noderesourcetopology-api/pkg/apis/topology/v1alpha1"
	corev1 "k8s.io/api/core/v1"
	"pgregory.net/rapid"

	apiext "github.com/koordinator-sh/koordinator/apis/extension"
	"github.com/koordinator-sh/koordinator/pkg/koordlet/metriccache"
	maframework "github.com/koordinator-sh/koordinator/pkg/koordlet/metricsadvisor/framework"
	"github.com/koordinator-sh/koordinator/pkg/koordlet/qosmanager/framework"
	"github.com/koordinator-sh/koordinator/pkg/koordlet/resourceexecutor"
	"github.com/koordinator-sh/koordinator/pkg/koordlet/statesinformer"
	koordletutil "github.com/koordinator-sh/koordinator/pkg/koordlet/util"
	"github.com/koordinator-sh/koordinator/pkg/koordlet/util/system"
	"github.com/koordinator-sh/koordinator/pkg/util/cache"
	"github.com/koordinator-sh/koordinator/pkg/util/cpuset"
	"github.com/koordinator-sh/koordinator/pkg/verifkit/vk"
)

// c12SnapExecutor forwards one updater at a time to the real executor and lets the harness look at the tree after each.
type c12SnapExecutor struct {
	inner resourceexecutor.ResourceUpdateExecutor
	plain *resourceexecutor.ResourceUpdateExecutorImpl
	after func(step string)
}

func (e *c12SnapExecutor) Update(cacheable bool, u resourceexecutor.ResourceUpdater) (bool, error) {
	ok, err := e.inner.Update(cacheable, u)
	e.after(fmt.Sprintf("update(%s,%s)", u.Path(), u.Value()))
	return ok, err
}

// UpdateBatch hands the WHOLE batch to the real executor (so that whatever it does with the batch as a whole — ordering, merging —
// is exercised) and observes the tree after every single file write: each cgroup updater is replaced by a clone whose update
// function runs the original updater's own update function (through a plain, non-caching executor) and then snapshots.
func (e *c12SnapExecutor) UpdateBatch(cacheable bool, us ...resourceexecutor.ResourceUpdater) {
	if e.plain == nil {
		e.plain = &resourceexecutor.ResourceUpdateExecutorImpl{Config: resourceexecutor.NewDefaultConfig(), ResourceCache: cache.NewCacheDefault()}
	}
	wrapped := make([]resourceexecutor.ResourceUpdater, 0, len(us))
	for _, u := range us {
		cu, ok := u.(*resourceexecutor.CgroupResourceUpdater)
		if !ok {
			panic(fmt.Sprintf("harness: unexpected updater type %T in a BE cpuset batch", u))
		}
		orig := cu.Clone()
		w := cu.Clone().(*resourceexecutor.CgroupResourceUpdater).WithUpdateFunc(func(resourceexecutor.ResourceUpdater) error {
			_, err := e.plain.Update(false, orig)
			e.after(fmt.Sprintf("write(%s,%s)", orig.Path(), orig.Value()))
			return err
		})
		wrapped = append(wrapped, w)
	}
	e.inner.UpdateBatch(cacheable, wrapped...)
}

func (e *c12SnapExecutor) LeveledUpdateBatch(us [][]resourceexecutor.ResourceUpdater) {
	e.inner.LeveledUpdateBatch(us)
	e.after("leveled")
}

func (e *c12SnapExecutor) Run(stopCh <-chan struct{}) { e.inner.Run(stopCh) }

func c12Subset(t *rapid.T, parent []int, label string) []int {
	var out []int
	for _, id := range parent {
		if rapid.Bool().Draw(t, label) {
			out = append(out, id)
		}
	}
	if len(out) == 0 {
		out = []int{parent[rapid.IntRange(0, len(parent)-1).Draw(t, label+"One")]}
	}
	return out
}

func c12ToInt32(ids []int) []int32 {
	out := make([]int32, len(ids))
	for i, v := range ids {
		out[i] = int32(v)
	}
	return out
}

func TestVerifC12BECPUSetRewrite(t *testing.T) {
	rec := vk.New(t, "C12", "beCPUSetRewrite")
	universe := []int{0, 1, 2, 3, 4, 5, 6, 7}
	sentinel := time.Date(2001, 1, 1, 0, 0, 0, 0, time.UTC)

	rapid.Check(t, func(rt *rapid.T) {
		c := rec.Begin()
		defer c.End()
		// a fresh temp cgroup root per case (NewFileTestUtil needs the outer *testing.T)
		helper := system.NewFileTestUtil(t)
		defer helper.Cleanup()
		v2 := rapid.Bool().Draw(rt, "cgroupV2")
		helper.SetCgroupsV2(v2)
		res, err := system.GetCgroupResource(system.CPUSetCPUSName)
		if err != nil {
			rt.Fatalf("harness: %v", err)
		}
		beRoot := koordletutil.GetPodQoSRelativePath(corev1.PodQOSBestEffort)
		kubepods := koordletutil.GetPodQoSRelativePath(corev1.PodQOSGuaranteed)

		// dirs: index 0 = kubepods (all cpus, never written), 1 = BE root, then pods, then containers
		type node struct {
			Dir    string
			Parent int
			Set    []int
		}
		nodes := []node{{Dir: kubepods, Parent: -1, Set: universe}}
		rootSet := c12Subset(rt, universe, "rootOld")
		nodes = append(nodes, node{Dir: beRoot, Parent: 0, Set: rootSet})
		nPods := rapid.IntRange(0, 3).Draw(rt, "pods")
		for p := 0; p < nPods; p++ {
			ps := c12Subset(rt, rootSet, "podOld")
			nodes = append(nodes, node{Dir: filepath.Join(beRoot, fmt.Sprintf("pod%d", p)), Parent: 1, Set: ps})
			pi := len(nodes) - 1
			for k := 0; k < rapid.IntRange(0, 2).Draw(rt, "containers"); k++ {
				nodes = append(nodes, node{Dir: filepath.Join(nodes[pi].Dir, fmt.Sprintf("c%d", k)), Parent: pi, Set: c12Subset(rt, ps, "ctrOld")})
			}
		}
		write := func(n node) {
			p := res.Path(n.Dir)
			_ = os.MkdirAll(filepath.Dir(p), 0o777)
			if err := os.WriteFile(p, []byte(cpuset.NewCPUSet(n.Set...).String()), 0o644); err != nil {
				rt.Fatalf("harness: %v", err)
			}
		}
		for _, n := range nodes {
			write(n)
		}

		opt := &framework.Options{Config: framework.NewDefaultConfig(), MetricAdvisorConfig: maframework.NewDefaultConfig()}
		r := newTestCPUSuppress(opt)
		inner := &resourceexecutor.ResourceUpdateExecutorImpl{Config: resourceexecutor.NewDefaultConfig(), ResourceCache: cache.NewCacheDefault()}
		inner.Config.ResourceForceUpdateSeconds = 24 * 3600
		var trace []string
		dead := false
		read := func(i int) (cpuset.CPUSet, string) {
			b, _ := os.ReadFile(res.Path(nodes[i].Dir))
			s := strings.Trim(string(b), "\n")
			cs, err := cpuset.Parse(s)
			if err != nil {
				return cpuset.NewCPUSet(), s
			}
			return cs, s
		}
		snap := &c12SnapExecutor{inner: inner}
		snap.after = func(step string) {
			if dead {
				return
			}
			cur := make([]string, len(nodes))
			sets := make([]cpuset.CPUSet, len(nodes))
			for i := range nodes {
				sets[i], cur[i] = read(i)
			}
			trace = append(trace, fmt.Sprintf("%s => %v", strings.TrimPrefix(step, helper.TempDir), cur))
			for i, n := range nodes {
				if n.Parent < 0 {
					continue
				}
				if sets[i].IsEmpty() || !sets[i].IsSubsetOf(sets[n.Parent]) {
					dead = true
					c.Violation(rt, "becpuset:child-outside-parent", "after %s: %s=%q not within parent %s=%q; trace=%v", step, n.Dir, cur[i], nodes[n.Parent].Dir, cur[n.Parent], trace)
					return
				}
			}
		}
		r.executor = snap
		stop := make(chan struct{})
		defer close(stop)
		r.init(stop)

		rounds := rapid.IntRange(1, 3).Draw(rt, "rounds")
		sawShift, sawShrink, sawGrow, sawSame := false, false, false, false
		var roundsDesc []string
		for round := 0; round < rounds && !dead; round++ {
			cur, _ := read(1)
			old := cur.ToSlice()
			target := c12Subset(rt, universe, "target")
			if rapid.IntRange(0, 4).Draw(rt, "sameAsOld") == 0 {
				target = old
			}
			tset := cpuset.NewCPUSet(target...)
			switch {
			case tset.Equals(cur):
				sawSame = true
			case tset.IsSubsetOf(cur):
				sawShrink = true
			case cur.IsSubsetOf(tset):
				sawGrow = true
			default:
				sawShift = true
			}
			// which files already hold the target (they must not be rewritten)
			unchanged := map[int]bool{}
			for i := 1; i < len(nodes); i++ {
				s, _ := read(i)
				if s.Equals(tset) && tset.Equals(cur) { // the merged value equals the target too, so no write at all is needed
					unchanged[i] = true
					_ = os.Chtimes(res.Path(nodes[i].Dir), sentinel, sentinel)
				}
			}
			roundsDesc = append(roundsDesc, fmt.Sprintf("old=%s target=%s", cur.String(), tset.String()))
			trace = append(trace, fmt.Sprintf("-- round %d: old=%s target=%s", round, cur.String(), tset.String()))
			// shuffle the order in which the agent is told the cpus (it must not matter)
			tgt32 := c12ToInt32(target)
			if rapid.Bool().Draw(rt, "reverseTargetOrder") {
				sort.Slice(tgt32, func(i, j int) bool { return tgt32[i] > tgt32[j] })
			}
			if err := r.applyCPUSetWithNonePolicy(tgt32, c12ToInt32(old)); err != nil {
				rt.Fatalf("harness: applyCPUSetWithNonePolicy: %v", err)
			}
			if dead {
				break
			}
			for i := 1; i < len(nodes); i++ {
				s, raw := read(i)
				if !s.Equals(tset) {
					dead = true
					c.Violation(rt, "becpuset:final-not-target", "round %d: %s holds %q, target %q; trace=%v", round, nodes[i].Dir, raw, tset.String(), trace)
					break
				}
				if unchanged[i] {
					if st, err := os.Stat(res.Path(nodes[i].Dir)); err == nil && !st.ModTime().Equal(sentinel) {
						dead = true
						c.Violation(rt, "becpuset:unchanged-file-rewritten", "round %d: %s already held %q and was rewritten; trace=%v", round, nodes[i].Dir, tset.String(), trace)
						break
					}
				}
			}
			// between rounds the kubelet may create a new BE pod cgroup (hierarchy-valid: inherits a subset of the root's set)
			if !dead && round+1 < rounds && rapid.Bool().Draw(rt, "newPodBetweenRounds") {
				n := node{Dir: filepath.Join(beRoot, fmt.Sprintf("late%d", round)), Parent: 1, Set: c12Subset(rt, target, "lateSet")}
				nodes = append(nodes, n)
				write(n)
				c.Class("pod-created-between-rounds")
			}
		}
		c.ClassIf(v2, "cgroup-v2")
		c.ClassIf(sawShift, "shift")
		c.ClassIf(sawShrink, "shrink")
		c.ClassIf(sawGrow, "grow")
		c.ClassIf(sawSame, "target-equals-old")
		c.Class(fmt.Sprintf("rounds:%d", rounds))
		c.ClassIf(len(nodes) > 2, "has-pods")
		if len(nodes) > 2 && (sawShift || (sawShrink && sawGrow)) {
			c.NonTrivial(v2, fmt.Sprint(nodes), roundsDesc)
		}
		c.Sample(map[string]any{"v2": v2, "nodes": nodes, "rounds": roundsDesc, "trace": trace})
	})
}

// ---------------------------------------------------------------------------------------------------------------------------
// applyBESuppressCPUSet under both kubelet cpu-manager policies, several rounds, the policy may switch between rounds.
// static policy: BE root and pods are recovered to "all BE cpus" (node cpus minus the exclusively owned ones), only containers
// get the suppressed set; none policy: the two-phase rewrite of the whole subtree.

type c12Informer struct {
	statesinformer.StatesInformer // nil: a method not overridden below would panic; the code under test uses only these
	pods                          []*statesinformer.PodMeta
	topo                          *topov1alpha1.NodeResourceTopology
}

func (f *c12Informer) GetAllPods() []*statesinformer.PodMeta           { return f.pods }
func (f *c12Informer) GetNodeTopo() *topov1alpha1.NodeResourceTopology { return f.topo }

type c12MetricCache struct {
	metriccache.MetricCache
	info *metriccache.NodeCPUInfo
}

func (f *c12MetricCache) Get(key interface{}) (interface{}, bool) {
	if key == metriccache.NodeCPUInfoKey {
		return f.info, true
	}
	return nil, false
}

// c12SyncEffective stands in for the kernel on cgroup v2, where the agent reads a cgroup's current cpuset from
// cpuset.cpus.effective: effective = cpuset.cpus ∩ the parent's effective set, recomputed top-down (dirs are listed parents first).
func c12SyncEffective(v2 bool, dirs []string, parents []int) {
	if !v2 {
		return
	}
	cpus, err1 := system.GetCgroupResource(system.CPUSetCPUSName)
	eff, err2 := system.GetCgroupResource(system.CPUSetCPUSEffectiveName)
	if err1 != nil || err2 != nil {
		panic(fmt.Sprintf("harness: %v %v", err1, err2))
	}
	sets := make([]cpuset.CPUSet, len(dirs))
	for i, d := range dirs {
		b, _ := os.ReadFile(cpus.Path(d))
		cs, err := cpuset.Parse(strings.Trim(string(b), "\n"))
		if err != nil {
			cs = cpuset.NewCPUSet()
		}
		if parents[i] >= 0 {
			cs = cs.Intersection(sets[parents[i]])
		}
		sets[i] = cs
		_ = os.WriteFile(eff.Path(d), []byte(cs.String()), 0o644)
	}
}

func TestVerifC12BECPUSetPolicies(t *testing.T) {
	rec := vk.New(t, "C12", "beCPUSetPolicies")
	universe := []int{0, 1, 2, 3, 4, 5, 6, 7}
	info := &metriccache.NodeCPUInfo{}
	for _, id := range universe {
		info.ProcessorInfos = append(info.ProcessorInfos, koordletutil.ProcessorInfo{CPUID: int32(id), CoreID: int32(id / 2), SocketID: 0, NodeID: 0})
	}

	rapid.Check(t, func(rt *rapid.T) {
		c := rec.Begin()
		defer c.End()
		helper := system.NewFileTestUtil(t)
		defer helper.Cleanup()
		v2 := rapid.Bool().Draw(rt, "cgroupV2")
		helper.SetCgroupsV2(v2)
		res, err := system.GetCgroupResource(system.CPUSetCPUSName)
		if err != nil {
			rt.Fatalf("harness: %v", err)
		}
		beRoot := koordletutil.GetPodQoSRelativePath(corev1.PodQOSBestEffort)
		kubepods := koordletutil.GetPodQoSRelativePath(corev1.PodQOSGuaranteed)

		// cpus owned exclusively by an LSE pod: fixed for the whole case (a change of the exclusive set between rounds is a different
		// rewrite — old values outside the new "all BE cpus" — and is not generated here); at least 3 cpus stay for BE
		var exclusive []int
		if rapid.Bool().Draw(rt, "hasLSE") {
			first := rapid.IntRange(0, 3).Draw(rt, "lseCore") * 2
			exclusive = []int{first, first + 1}
			if rapid.Bool().Draw(rt, "lseTwoCores") {
				exclusive = append(exclusive, (first+2)%8, (first+3)%8)
			}
		}
		isExcl := map[int]bool{}
		for _, id := range exclusive {
			isExcl[id] = true
		}
		var allBE []int
		for _, id := range universe {
			if !isExcl[id] {
				allBE = append(allBE, id)
			}
		}
		allBESet := cpuset.NewCPUSet(allBE...)

		type node struct {
			Dir    string
			Parent int
			Depth  int // 0 kubepods, 1 BE root, 2 pod, 3 container
			Set    []int
		}
		nodes := []node{{Dir: kubepods, Parent: -1, Depth: 0, Set: universe}}
		rootSet := c12Subset(rt, allBE, "rootOld")
		if rapid.Bool().Draw(rt, "rootStartsAtAllBE") {
			rootSet = allBE
		}
		nodes = append(nodes, node{Dir: beRoot, Parent: 0, Depth: 1, Set: rootSet})
		nPods := rapid.IntRange(1, 3).Draw(rt, "pods")
		for p := 0; p < nPods; p++ {
			ps := c12Subset(rt, rootSet, "podOld")
			nodes = append(nodes, node{Dir: filepath.Join(beRoot, fmt.Sprintf("pod%d", p)), Parent: 1, Depth: 2, Set: ps})
			pi := len(nodes) - 1
			for k := 0; k < rapid.IntRange(0, 2).Draw(rt, "containers"); k++ {
				nodes = append(nodes, node{Dir: filepath.Join(nodes[pi].Dir, fmt.Sprintf("c%d", k)), Parent: pi, Depth: 3, Set: c12Subset(rt, ps, "ctrOld")})
			}
		}
		for _, n := range nodes {
			p := res.Path(n.Dir)
			_ = os.MkdirAll(filepath.Dir(p), 0o777)
			if err := os.WriteFile(p, []byte(cpuset.NewCPUSet(n.Set...).String()), 0o644); err != nil {
				rt.Fatalf("harness: %v", err)
			}
		}

		effDirs, effParents := make([]string, len(nodes)), make([]int, len(nodes))
		for i, n := range nodes {
			effDirs[i], effParents[i] = n.Dir, n.Parent
		}
		c12SyncEffective(v2, effDirs, effParents)
		inf := &c12Informer{topo: &topov1alpha1.NodeResourceTopology{}}
		inf.topo.Name = "node0"
		if len(exclusive) > 0 {
			lse := &corev1.Pod{}
			lse.Name, lse.Namespace, lse.UID = "lse", "ns", "lse-uid"
			lse.Labels = map[string]string{apiext.LabelPodQoS: string(apiext.QoSLSE)}
			lse.Annotations = map[string]string{apiext.AnnotationResourceStatus: fmt.Sprintf(`{"cpuset":%q}`, cpuset.NewCPUSet(exclusive...).String())}
			inf.pods = []*statesinformer.PodMeta{{Pod: lse}}
		}
		setPolicy := func(static bool) {
			if static {
				inf.topo.Annotations = map[string]string{apiext.AnnotationKubeletCPUManagerPolicy: `{"policy":"static"}`}
			} else if rapid.Bool().Draw(rt, "nonePolicyExplicit") {
				inf.topo.Annotations = map[string]string{apiext.AnnotationKubeletCPUManagerPolicy: `{"policy":"none"}`}
			} else {
				inf.topo.Annotations = map[string]string{}
			}
		}

		opt := &framework.Options{Config: framework.NewDefaultConfig(), MetricAdvisorConfig: maframework.NewDefaultConfig(),
			StatesInformer: inf, MetricCache: &c12MetricCache{info: info}}
		r := newTestCPUSuppress(opt)
		inner := &resourceexecutor.ResourceUpdateExecutorImpl{Config: resourceexecutor.NewDefaultConfig(), ResourceCache: cache.NewCacheDefault()}
		inner.Config.ResourceForceUpdateSeconds = 24 * 3600
		var trace []string
		dead := false
		read := func(i int) (cpuset.CPUSet, string) {
			b, _ := os.ReadFile(res.Path(nodes[i].Dir))
			s := strings.Trim(string(b), "\n")
			cs, err := cpuset.Parse(s)
			if err != nil {
				return cpuset.NewCPUSet(), s
			}
			return cs, s
		}
		snap := &c12SnapExecutor{inner: inner}
		snap.after = func(step string) {
			if dead {
				return
			}
			c12SyncEffective(v2, effDirs, effParents)
			cur := make([]string, len(nodes))
			sets := make([]cpuset.CPUSet, len(nodes))
			for i := range nodes {
				sets[i], cur[i] = read(i)
			}
			trace = append(trace, fmt.Sprintf("%s => %v", strings.ReplaceAll(step, helper.TempDir, ""), cur))
			for i, n := range nodes {
				if n.Parent < 0 {
					continue
				}
				if sets[i].IsEmpty() || !sets[i].IsSubsetOf(sets[n.Parent]) {
					dead = true
					c.Violation(rt, "becpuset-policy:child-outside-parent", "after %s: %s=%q not within parent %s=%q; exclusive=%v trace=%v", step, n.Dir, cur[i], nodes[n.Parent].Dir, cur[n.Parent], exclusive, trace)
					return
				}
			}
		}
		r.executor = snap
		stop := make(chan struct{})
		defer close(stop)
		r.init(stop)

		rounds := rapid.IntRange(1, 4).Draw(rt, "rounds")
		var desc []string
		sawStatic, sawNone, sawNoneToStatic, sawStaticToNone, sawStaticOutsidePods := false, false, false, false, false
		prevStatic, havePrev := false, false
		for round := 0; round < rounds && !dead; round++ {
			static := rapid.Bool().Draw(rt, "staticPolicy")
			setPolicy(static)
			cur, _ := read(1)
			target := c12Subset(rt, allBE, "target")
			tset := cpuset.NewCPUSet(target...)
			if static {
				sawStatic = true
				for i := range nodes {
					if nodes[i].Depth == 2 {
						if s, _ := read(i); !tset.IsSubsetOf(s) {
							sawStaticOutsidePods = true
						}
					}
				}
			} else {
				sawNone = true
			}
			if havePrev && !prevStatic && static {
				sawNoneToStatic = true
			}
			if havePrev && prevStatic && !static {
				sawStaticToNone = true
			}
			prevStatic, havePrev = static, true
			desc = append(desc, fmt.Sprintf("static=%v old=%s target=%s", static, cur.String(), tset.String()))
			trace = append(trace, fmt.Sprintf("-- round %d: static=%v old(root)=%s target=%s", round, static, cur.String(), tset.String()))
			if err := r.applyBESuppressCPUSet(c12ToInt32(target), c12ToInt32(cur.ToSlice())); err != nil {
				rt.Fatalf("harness: applyBESuppressCPUSet: %v", err)
			}
			if dead {
				break
			}
			for i := 1; i < len(nodes); i++ {
				want := tset
				if static && nodes[i].Depth < 3 {
					want = allBESet // root and pods are handed back to the kubelet: all cpus BE may use
				}
				if s, raw := read(i); !s.Equals(want) {
					dead = true
					c.Violation(rt, "becpuset-policy:final-not-target", "round %d (static=%v): %s holds %q, want %q; exclusive=%v trace=%v", round, static, nodes[i].Dir, raw, want.String(), exclusive, trace)
					break
				}
			}
		}
		c.ClassIf(v2, "cgroup-v2")
		c.ClassIf(len(exclusive) > 0, "lse-exclusive-cpus")
		c.ClassIf(sawStatic, "static-round")
		c.ClassIf(sawNone, "none-round")
		c.ClassIf(sawNoneToStatic, "switch:none->static")
		c.ClassIf(sawStaticToNone, "switch:static->none")
		c.ClassIf(sawStaticOutsidePods, "static-round:target-not-within-a-pod's-current-set")
		c.Class(fmt.Sprintf("rounds:%d", rounds))
		hasCtr := false
		for _, n := range nodes {
			hasCtr = hasCtr || n.Depth == 3
		}
		c.ClassIf(hasCtr, "has-containers")
		if hasCtr && sawStaticOutsidePods {
			c.NonTrivial(v2, fmt.Sprint(nodes), desc, exclusive)
		}
		c.Sample(map[string]any{"v2": v2, "exclusive": exclusive, "nodes": nodes, "rounds": desc, "trace": trace})
	})
}

// ---------------------------------------------------------------------------------------------------------------------------
// The "recover" rewrite (recoverCPUSetIfNeed: suppression disabled -> all levels; static policy -> root and pods, then containers)
// when some of the cpus currently held by the BE subtree have meanwhile become exclusive (an LSE pod was admitted on them), i.e.
// the recovered value does NOT cover the old one. Old and target assignments are both hierarchy-valid.
func TestVerifC12BECPUSetRecover(t *testing.T) {
	rec := vk.New(t, "C12", "beCPUSetRecover")
	universe := []int{0, 1, 2, 3, 4, 5, 6, 7}
	info := &metriccache.NodeCPUInfo{}
	for _, id := range universe {
		info.ProcessorInfos = append(info.ProcessorInfos, koordletutil.ProcessorInfo{CPUID: int32(id), CoreID: int32(id / 2), SocketID: 0, NodeID: 0})
	}
	rapid.Check(t, func(rt *rapid.T) {
		c := rec.Begin()
		defer c.End()
		helper := system.NewFileTestUtil(t)
		defer helper.Cleanup()
		v2 := rapid.Bool().Draw(rt, "cgroupV2")
		helper.SetCgroupsV2(v2)
		res, err := system.GetCgroupResource(system.CPUSetCPUSName)
		if err != nil {
			rt.Fatalf("harness: %v", err)
		}
		beRoot := koordletutil.GetPodQoSRelativePath(corev1.PodQOSBestEffort)
		kubepods := koordletutil.GetPodQoSRelativePath(corev1.PodQOSGuaranteed)

		first := rapid.IntRange(0, 3).Draw(rt, "lseCore") * 2
		exclusive := []int{first, first + 1}
		if rapid.Bool().Draw(rt, "lseTwoCores") {
			exclusive = append(exclusive, (first+2)%8, (first+3)%8)
		}
		isExcl := map[int]bool{}
		for _, id := range exclusive {
			isExcl[id] = true
		}
		var allBE []int
		for _, id := range universe {
			if !isExcl[id] {
				allBE = append(allBE, id)
			}
		}
		allBESet := cpuset.NewCPUSet(allBE...)

		type node struct {
			Dir    string
			Parent int
			Depth  int
			Set    []int
		}
		nodes := []node{{Dir: kubepods, Parent: -1, Depth: 0, Set: universe}}
		rootSet := universe // a BE subtree nobody has narrowed yet holds every cpu of the node
		if !rapid.Bool().Draw(rt, "rootStartsAtAllCPUs") {
			rootSet = c12Subset(rt, universe, "rootOld")
		}
		nodes = append(nodes, node{Dir: beRoot, Parent: 0, Depth: 1, Set: rootSet})
		for p := 0; p < rapid.IntRange(1, 3).Draw(rt, "pods"); p++ {
			ps := rootSet
			if !rapid.Bool().Draw(rt, "podSameAsRoot") {
				ps = c12Subset(rt, rootSet, "podOld")
			}
			nodes = append(nodes, node{Dir: filepath.Join(beRoot, fmt.Sprintf("pod%d", p)), Parent: 1, Depth: 2, Set: ps})
			pi := len(nodes) - 1
			for k := 0; k < rapid.IntRange(0, 2).Draw(rt, "containers"); k++ {
				cs := ps
				if !rapid.Bool().Draw(rt, "ctrSameAsPod") {
					cs = c12Subset(rt, ps, "ctrOld")
				}
				nodes = append(nodes, node{Dir: filepath.Join(nodes[pi].Dir, fmt.Sprintf("c%d", k)), Parent: pi, Depth: 3, Set: cs})
			}
		}
		oldOutside := false
		for _, n := range nodes[1:] {
			p := res.Path(n.Dir)
			_ = os.MkdirAll(filepath.Dir(p), 0o777)
			if err := os.WriteFile(p, []byte(cpuset.NewCPUSet(n.Set...).String()), 0o644); err != nil {
				rt.Fatalf("harness: %v", err)
			}
			if n.Depth >= 2 && !cpuset.NewCPUSet(n.Set...).IsSubsetOf(allBESet) {
				oldOutside = true
			}
		}
		{
			p := res.Path(kubepods)
			_ = os.MkdirAll(filepath.Dir(p), 0o777)
			_ = os.WriteFile(p, []byte(cpuset.NewCPUSet(universe...).String()), 0o644)
		}

		effDirs, effParents := make([]string, len(nodes)), make([]int, len(nodes))
		for i, n := range nodes {
			effDirs[i], effParents[i] = n.Dir, n.Parent
		}
		c12SyncEffective(v2, effDirs, effParents)
		inf := &c12Informer{topo: &topov1alpha1.NodeResourceTopology{}}
		inf.topo.Name = "node0"
		lse := &corev1.Pod{}
		lse.Name, lse.Namespace, lse.UID = "lse", "ns", "lse-uid"
		lse.Labels = map[string]string{apiext.LabelPodQoS: string(apiext.QoSLSE)}
		lse.Annotations = map[string]string{apiext.AnnotationResourceStatus: fmt.Sprintf(`{"cpuset":%q}`, cpuset.NewCPUSet(exclusive...).String())}
		inf.pods = []*statesinformer.PodMeta{{Pod: lse}}

		opt := &framework.Options{Config: framework.NewDefaultConfig(), MetricAdvisorConfig: maframework.NewDefaultConfig(),
			StatesInformer: inf, MetricCache: &c12MetricCache{info: info}}
		r := newTestCPUSuppress(opt)
		inner := &resourceexecutor.ResourceUpdateExecutorImpl{Config: resourceexecutor.NewDefaultConfig(), ResourceCache: cache.NewCacheDefault()}
		inner.Config.ResourceForceUpdateSeconds = 24 * 3600
		var trace []string
		dead := false
		read := func(i int) (cpuset.CPUSet, string) {
			b, _ := os.ReadFile(res.Path(nodes[i].Dir))
			s := strings.Trim(string(b), "\n")
			cs, err := cpuset.Parse(s)
			if err != nil {
				return cpuset.NewCPUSet(), s
			}
			return cs, s
		}
		snap := &c12SnapExecutor{inner: inner}
		snap.after = func(step string) {
			if dead {
				return
			}
			c12SyncEffective(v2, effDirs, effParents)
			cur := make([]string, len(nodes))
			sets := make([]cpuset.CPUSet, len(nodes))
			for i := range nodes {
				sets[i], cur[i] = read(i)
			}
			trace = append(trace, fmt.Sprintf("%s => %v", strings.ReplaceAll(step, helper.TempDir, ""), cur))
			for i, n := range nodes {
				if n.Parent < 0 {
					continue
				}
				if sets[i].IsEmpty() || !sets[i].IsSubsetOf(sets[n.Parent]) {
					dead = true
					sig := "becpuset-recover:child-outside-parent"
					if strings.Contains(step, res.Path(nodes[n.Parent].Dir)+",") { // the write that broke it narrowed the PARENT below its child
						sig = "becpuset-recover:parent-narrowed-below-child:recover-writes-top-down"
					}
					c.Violation(rt, sig, "after %s: %s=%q not within parent %s=%q; exclusive=%v trace=%v", step, n.Dir, cur[i], nodes[n.Parent].Dir, cur[n.Parent], exclusive, trace)
					return
				}
			}
		}
		r.executor = snap
		stop := make(chan struct{})
		defer close(stop)
		r.init(stop)

		var static bool
		var tset cpuset.CPUSet
		sawStatic, sawAll, exclusiveChanged, recoverTwice := false, false, false, false
		doRound := func(round int) {
			static = rapid.Bool().Draw(rt, "staticPolicyRound")
			if static {
				sawStatic = true
				inf.topo.Annotations = map[string]string{apiext.AnnotationKubeletCPUManagerPolicy: `{"policy":"static"}`}
				target := c12Subset(rt, allBE, "target")
				tset = cpuset.NewCPUSet(target...)
				cur, _ := read(1)
				trace = append(trace, fmt.Sprintf("-- round %d static: old(root)=%s allBE=%s target=%s exclusive=%v", round, cur.String(), allBESet.String(), tset.String(), exclusive))
				if err := r.applyBESuppressCPUSet(c12ToInt32(target), c12ToInt32(cur.ToSlice())); err != nil {
					rt.Fatalf("harness: applyBESuppressCPUSet: %v", err)
				}
			} else {
				recoverTwice = recoverTwice || sawAll
				sawAll = true
				inf.topo.Annotations = map[string]string{}
				trace = append(trace, fmt.Sprintf("-- round %d recover all levels: allBE=%s exclusive=%v", round, allBESet.String(), exclusive))
				r.recoverCPUSetIfNeed(koordletutil.ContainerCgroupPathRelativeDepth)
			}
			if dead {
				return
			}
			for i := 1; i < len(nodes); i++ {
				want := allBESet
				if static && nodes[i].Depth == 3 {
					want = tset
				}
				if s, raw := read(i); !s.Equals(want) {
					dead = true
					c.Violation(rt, "becpuset-recover:final-not-target", "round %d: %s holds %q, want %q; exclusive=%v trace=%v", round, nodes[i].Dir, raw, want.String(), exclusive, trace)
					break
				}
			}
		}
		doRound(0)
		// further rounds on the same agent; between rounds the LSE pod may move to other cores (its old cpus become usable by BE again,
		// its new ones exclusive), so the value to recover both grows and shrinks
		more := 0
		if !dead {
			more = rapid.IntRange(0, 2).Draw(rt, "moreRounds")
		}
		for round := 1; round <= more && !dead; round++ {
			if rapid.IntRange(0, 2).Draw(rt, "lseMoves") > 0 {
				nf := rapid.IntRange(0, 3).Draw(rt, "lseCoreNew") * 2
				exclusive = []int{nf, nf + 1}
				if rapid.Bool().Draw(rt, "lseTwoCoresNew") {
					exclusive = append(exclusive, (nf+2)%8, (nf+3)%8)
				}
				isExcl = map[int]bool{}
				for _, id := range exclusive {
					isExcl[id] = true
				}
				allBE = nil
				for _, id := range universe {
					if !isExcl[id] {
						allBE = append(allBE, id)
					}
				}
				allBESet = cpuset.NewCPUSet(allBE...)
				moved := lse.DeepCopy() // the informer hands out a new object
				moved.Annotations = map[string]string{apiext.AnnotationResourceStatus: fmt.Sprintf(`{"cpuset":%q}`, cpuset.NewCPUSet(exclusive...).String())}
				inf.pods = []*statesinformer.PodMeta{{Pod: moved}}
				exclusiveChanged = true
			}
			doRound(round)
		}
		c.ClassIf(v2, "cgroup-v2")
		c.ClassIf(sawStatic, "static-round")
		c.ClassIf(sawAll, "recover-all-levels")
		c.Class(fmt.Sprintf("rounds:%d", 1+more))
		c.ClassIf(exclusiveChanged, "exclusive-cpus-moved-between-rounds")
		c.ClassIf(recoverTwice, "recover-all-levels-twice")
		c.ClassIf(recoverTwice && exclusiveChanged, "recover-all-levels-twice-with-exclusive-change")
		c.ClassIf(oldOutside, "a-pod-or-container-holds-a-now-exclusive-cpu")
		c.ClassIf(!oldOutside, "old-values-within-all-BE-cpus")
		if oldOutside || exclusiveChanged {
			c.NonTrivial(v2, fmt.Sprint(nodes), trace)
		}
		c.Sample(map[string]any{"v2": v2, "exclusive": exclusive, "nodes": nodes, "trace": trace})
	})
}
