//go:build verif

// C12 — hierarchical cgroup rewrites never pass through an invalid hierarchy (LeveledUpdateBatch).
// See /verif/DESIGN.md §1 C12. In-package harness (injected with -overlay).
package resourceexecutor

import (
	"fmt"
	"math"
	"os"
	"path/filepath"
	"sort"
	"strconv"
	"strings"
	"testing"
	"time"

	"pgregory.net/rapid"

	sysutil "github.com/koordinator-sh/koordinator/pkg/koordlet/util/system"
	"github.com/koordinator-sh/koordinator/pkg/util/cache"
	"github.com/koordinator-sh/koordinator/pkg/util/cpuset"
	"github.com/koordinator-sh/koordinator/pkg/verifkit/vk"
)

type c12Node struct {
	Dir    string // cgroup parent dir relative to the subsystem root
	Level  int
	Parent int // index into nodes, -1 for the top
	Old    string
	New    string
}

type c12Kind struct {
	Name     sysutil.ResourceType
	IsCPUSet bool
}

var c12Kinds = []c12Kind{
	{sysutil.CPUSetCPUSName, true},
	{sysutil.CPUCFSQuotaName, false},
	{sysutil.MemoryMinName, false},
	{sysutil.MemoryLowName, false},
	{sysutil.MemoryHighName, false},
}

const c12Inf = int64(math.MaxInt64)

// c12ParseNum turns a file content / updater value into a number; unlimited (-1, max) = +inf.
func c12ParseNum(kind c12Kind, v2 bool, s string) (int64, error) {
	s = strings.TrimSpace(s)
	if kind.Name == sysutil.CPUCFSQuotaName && v2 {
		f := strings.Fields(s) // "max 100000", "50000 100000" or a bare value just written by the agent
		if len(f) == 0 {
			return 0, fmt.Errorf("empty")
		}
		s = f[0]
	}
	if s == "max" || s == "-1" {
		return c12Inf, nil
	}
	n, err := strconv.ParseInt(s, 10, 64)
	if err != nil {
		return 0, err
	}
	return n, nil
}

func c12Render(kind c12Kind, v2 bool, n int64, asOldFile bool) string {
	if kind.IsCPUSet {
		panic("not numeric")
	}
	var s string
	if n == c12Inf {
		switch {
		case kind.Name == sysutil.CPUCFSQuotaName && v2 && asOldFile:
			s = "max"
		case kind.Name == sysutil.CPUCFSQuotaName:
			s = "-1"
		case v2:
			s = "max"
		default:
			s = strconv.FormatInt(c12Inf, 10)
		}
	} else {
		s = strconv.FormatInt(n, 10)
	}
	if kind.Name == sysutil.CPUCFSQuotaName && v2 && asOldFile {
		s += " 100000"
	}
	return s
}

// c12GenCPUSet draws a non-empty subset of parent (sorted ids).
func c12GenSubset(t *rapid.T, parent []int, label string) []int {
	for {
		var out []int
		for _, id := range parent {
			if rapid.Bool().Draw(t, label) {
				out = append(out, id)
			}
		}
		if len(out) > 0 {
			return out
		}
		if len(parent) > 0 {
			return []int{parent[rapid.IntRange(0, len(parent)-1).Draw(t, label+"One")]}
		}
	}
}

func c12GenNumChild(t *rapid.T, parent int64, label string) int64 {
	switch rapid.IntRange(0, 5).Draw(t, label+"Kind") {
	case 0:
		return parent // equal (incl. unlimited under unlimited)
	case 1:
		if parent == c12Inf {
			return c12Inf
		}
		return parent
	case 2:
		return 0
	default:
		hi := parent
		if hi == c12Inf {
			hi = 1 << 40
		}
		return rapid.Int64Range(0, hi).Draw(t, label)
	}
}

func c12GenNumTop(t *rapid.T, label string) int64 {
	switch rapid.IntRange(0, 4).Draw(t, label+"Kind") {
	case 0:
		return c12Inf
	case 1:
		return rapid.Int64Range(0, 16).Draw(t, label)
	default:
		return rapid.Int64Range(0, 1<<40).Draw(t, label)
	}
}

var c12CaseSeq int

func TestVerifC12LeveledUpdate(t *testing.T) {
	rec := vk.New(t, "C12", "leveledUpdateBatch")
	helper := sysutil.NewFileTestUtil(t)
	defer helper.Cleanup()
	helper.SetResourcesSupported(true, sysutil.MemoryMin, sysutil.MemoryLow, sysutil.MemoryHigh)
	sentinel := time.Date(2001, 1, 1, 0, 0, 0, 0, time.UTC)

	rapid.Check(t, func(t *rapid.T) {
		c := rec.Begin()
		defer c.End()
		c12CaseSeq++
		root := fmt.Sprintf("c12case%d", c12CaseSeq)
		kind := rapid.SampledFrom(c12Kinds).Draw(t, "kind")
		v2 := rapid.Bool().Draw(t, "cgroupV2")
		helper.SetCgroupsV2(v2)
		defer helper.SetCgroupsV2(false)
		res, err := sysutil.GetCgroupResource(kind.Name)
		if err != nil {
			t.Fatalf("harness: %v", err)
		}

		// ---- tree shape
		depth := rapid.IntRange(1, 3).Draw(t, "depth")
		nodes := []c12Node{{Dir: root + "/kubepods", Level: 0, Parent: -1}}
		frontier := []int{0}
		for lvl := 1; lvl < depth; lvl++ {
			var next []int
			for _, p := range frontier {
				fan := rapid.IntRange(1, 3).Draw(t, "fanout")
				for k := 0; k < fan; k++ {
					nodes = append(nodes, c12Node{Dir: fmt.Sprintf("%s/n%d", nodes[p].Dir, k), Level: lvl, Parent: p})
					next = append(next, len(nodes)-1)
				}
			}
			frontier = next
		}

		// ---- old and new assignments, each hierarchy-valid
		oldSets, newSets := make([][]int, len(nodes)), make([][]int, len(nodes))
		oldNum, newNum := make([]int64, len(nodes)), make([]int64, len(nodes))
		universe := []int{0, 1, 2, 3, 4, 5, 6, 7}
		mode := rapid.SampledFrom([]string{"free", "free", "all-unchanged", "partially-unchanged"}).Draw(t, "mode")
		for i := range nodes {
			if kind.IsCPUSet {
				pOld, pNew := universe, universe
				if nodes[i].Parent >= 0 {
					pOld, pNew = oldSets[nodes[i].Parent], newSets[nodes[i].Parent]
				}
				oldSets[i] = c12GenSubset(t, pOld, "oldSet")
				newSets[i] = c12GenSubset(t, pNew, "newSet")
			} else {
				if nodes[i].Parent < 0 {
					oldNum[i], newNum[i] = c12GenNumTop(t, "oldTop"), c12GenNumTop(t, "newTop")
				} else {
					oldNum[i] = c12GenNumChild(t, oldNum[nodes[i].Parent], "oldNum")
					newNum[i] = c12GenNumChild(t, newNum[nodes[i].Parent], "newNum")
				}
			}
		}
		switch mode {
		case "all-unchanged":
			for i := range nodes {
				newSets[i], newNum[i] = oldSets[i], oldNum[i]
			}
		case "partially-unchanged":
			// keep a node's old value where that stays valid w.r.t. its (already fixed) new parent and children are re-clamped below
			for i := range nodes {
				if !rapid.Bool().Draw(t, "keep") {
					continue
				}
				if kind.IsCPUSet {
					ok := nodes[i].Parent < 0 || cpuset.NewCPUSet(oldSets[i]...).IsSubsetOf(cpuset.NewCPUSet(newSets[nodes[i].Parent]...))
					if ok {
						newSets[i] = oldSets[i]
					}
				} else {
					ok := nodes[i].Parent < 0 || oldNum[i] <= newNum[nodes[i].Parent]
					if ok {
						newNum[i] = oldNum[i]
					}
				}
			}
			// restore validity of new downwards
			for i := range nodes {
				p := nodes[i].Parent
				if p < 0 {
					continue
				}
				if kind.IsCPUSet {
					in := cpuset.NewCPUSet(newSets[i]...).Intersection(cpuset.NewCPUSet(newSets[p]...))
					if in.IsEmpty() {
						in = cpuset.NewCPUSet(newSets[p]...)
					}
					newSets[i] = in.ToSlice()
				} else if newNum[i] > newNum[p] {
					newNum[i] = newNum[p]
				}
			}
		}
		for i := range nodes {
			if kind.IsCPUSet {
				nodes[i].Old = cpuset.NewCPUSet(oldSets[i]...).String()
				nodes[i].New = cpuset.NewCPUSet(newSets[i]...).String()
			} else {
				nodes[i].Old = c12Render(kind, v2, oldNum[i], true)
				nodes[i].New = c12Render(kind, v2, newNum[i], false)
			}
		}

		// ---- materialise the old state
		paths := make([]string, len(nodes))
		for i, n := range nodes {
			p := res.Path(n.Dir)
			paths[i] = p
			if err := os.MkdirAll(filepath.Dir(p), 0o777); err != nil {
				t.Fatalf("harness: %v", err)
			}
			if err := os.WriteFile(p, []byte(n.Old), 0o644); err != nil {
				t.Fatalf("harness: %v", err)
			}
		}
		defer os.RemoveAll(filepath.Join(helper.TempDir, root))
		caseRootGlob, _ := filepath.Glob(filepath.Join(helper.TempDir, "*", root))
		defer func() {
			for _, d := range caseRootGlob {
				os.RemoveAll(d)
			}
		}()

		e := &ResourceUpdateExecutorImpl{ResourceCache: cache.NewCacheDefault(), Config: NewDefaultConfig()}
		e.Config.ResourceForceUpdateSeconds = 24 * 3600 // keep the wall clock out of needUpdate
		stop := make(chan struct{})
		defer close(stop) // ends the cache GC goroutine of this case
		e.Run(stop)

		mkUpdaters := func(vals func(i int) string, wrap func(i int, u *CgroupResourceUpdater)) [][]ResourceUpdater {
			lv := make([][]ResourceUpdater, depth)
			for i, n := range nodes {
				u, err := DefaultCgroupUpdaterFactory.New(kind.Name, n.Dir, vals(i), nil)
				if err != nil {
					t.Fatalf("harness: %v", err)
				}
				cu := u.(*CgroupResourceUpdater)
				if wrap != nil {
					wrap(i, cu)
				}
				lv[n.Level] = append(lv[n.Level], cu)
			}
			return lv
		}

		cached := rapid.Bool().Draw(t, "prePopulatedCache")
		if cached {
			// a previous reconcile round wrote the old assignment through the same executor
			e.LeveledUpdateBatch(mkUpdaters(func(i int) string {
				if kind.IsCPUSet {
					return nodes[i].Old
				}
				return c12Render(kind, v2, oldNum[i], false)
			}, nil))
			for i, n := range nodes { // the round must not have changed anything semantically; normalise text back
				_ = os.WriteFile(paths[i], []byte(n.Old), 0o644)
			}
		}
		for _, p := range paths {
			_ = os.Chtimes(p, sentinel, sentinel)
		}

		// ---- the rewrite under test, with a snapshot after every single updater call
		var trace []string
		failed := false
		snapshot := func(step string) {
			if failed {
				return
			}
			cur := make([]string, len(nodes))
			for i := range nodes {
				b, _ := os.ReadFile(paths[i])
				cur[i] = strings.Trim(string(b), "\n")
			}
			trace = append(trace, fmt.Sprintf("%s => %v", step, cur))
			for i, n := range nodes {
				if n.Parent < 0 {
					continue
				}
				if kind.IsCPUSet {
					ch, e1 := cpuset.Parse(cur[i])
					pa, e2 := cpuset.Parse(cur[n.Parent])
					if e1 != nil || e2 != nil || !ch.IsSubsetOf(pa) {
						failed = true
						c.Violation(t, "leveled:child-cpuset-outside-parent", "after %s: %s=%q not within parent %s=%q; tree=%+v trace=%v", step, n.Dir, cur[i], nodes[n.Parent].Dir, cur[n.Parent], nodes, trace)
						return
					}
				} else {
					ch, e1 := c12ParseNum(kind, v2, cur[i])
					pa, e2 := c12ParseNum(kind, v2, cur[n.Parent])
					if e1 != nil || e2 != nil || ch > pa {
						failed = true
						c.Violation(t, "leveled:child-above-parent", "after %s: %s %s=%q larger than parent %s=%q; tree=%+v trace=%v", step, kind.Name, n.Dir, cur[i], nodes[n.Parent].Dir, cur[n.Parent], nodes, trace)
						return
					}
				}
			}
		}
		updaters := mkUpdaters(func(i int) string { return nodes[i].New }, func(i int, u *CgroupResourceUpdater) {
			origUpdate, origMerge := u.updateFunc, u.mergeUpdateFunc
			dir := nodes[i].Dir
			u.updateFunc = func(r ResourceUpdater) error {
				err := origUpdate(r)
				snapshot(fmt.Sprintf("update(%s,%s)", dir, r.Value()))
				return err
			}
			if origMerge != nil {
				u.mergeUpdateFunc = func(r ResourceUpdater) (ResourceUpdater, error) {
					m, err := origMerge(r)
					snapshot(fmt.Sprintf("merge(%s,%s)", dir, r.Value()))
					return m, err
				}
			}
		})
		e.LeveledUpdateBatch(updaters)

		// ---- classes
		shrinks, grows, shifts, unlim := false, false, false, false
		for i := range nodes {
			if kind.IsCPUSet {
				o, n := cpuset.NewCPUSet(oldSets[i]...), cpuset.NewCPUSet(newSets[i]...)
				switch {
				case o.Equals(n):
				case n.IsSubsetOf(o):
					shrinks = true
				case o.IsSubsetOf(n):
					grows = true
				default:
					shifts = true
				}
			} else {
				if newNum[i] < oldNum[i] {
					shrinks = true
				}
				if newNum[i] > oldNum[i] {
					grows = true
				}
				if (newNum[i] == c12Inf) != (oldNum[i] == c12Inf) {
					unlim = true
				}
			}
		}
		c.Class("kind:" + string(kind.Name))
		c.ClassIf(v2, "cgroup-v2")
		c.ClassIf(cached, "pre-populated-cache")
		c.ClassIf(shifts, "shift")
		c.ClassIf(unlim, "unlimited<->limited")
		c.ClassIf(shrinks && grows, "shrink-and-grow")
		c.Class("mode:" + mode)
		c.Class(fmt.Sprintf("depth:%d", depth))
		if depth >= 2 && ((shrinks && grows) || shifts) {
			c.NonTrivial(kind.Name, v2, cached, fmt.Sprint(nodes))
		}
		c.Sample(map[string]any{"kind": kind.Name, "v2": v2, "cached": cached, "nodes": nodes, "trace": trace})
		if failed {
			return
		}

		// ---- final state = target; unchanged files not rewritten
		for i, n := range nodes {
			b, _ := os.ReadFile(paths[i])
			cur := strings.Trim(string(b), "\n")
			same := false
			if kind.IsCPUSet {
				got, err := cpuset.Parse(cur)
				same = err == nil && got.Equals(cpuset.NewCPUSet(newSets[i]...))
			} else {
				got, err := c12ParseNum(kind, v2, cur)
				same = err == nil && got == newNum[i]
			}
			if !same {
				sig := "leveled:final-not-target"
				if kind.IsCPUSet {
					o, nn := cpuset.NewCPUSet(oldSets[i]...), cpuset.NewCPUSet(newSets[i]...)
					if !nn.IsSubsetOf(o) && !o.IsSubsetOf(nn) {
						sig = "leveled:final-not-target:cpuset-shift-left-as-union"
					}
				}
				if c.Violation(t, sig, "%s %s holds %q after the batch, target %q (old %q); tree=%+v trace=%v", kind.Name, n.Dir, cur, n.New, n.Old, nodes, trace) {
					return
				}
			}
			unchanged := false
			if kind.IsCPUSet {
				unchanged = cpuset.NewCPUSet(oldSets[i]...).Equals(cpuset.NewCPUSet(newSets[i]...))
			} else {
				unchanged = oldNum[i] == newNum[i]
			}
			if unchanged {
				st, err := os.Stat(paths[i])
				if err == nil && !st.ModTime().Equal(sentinel) {
					sig := "leveled:unchanged-file-rewritten"
					if kind.Name == sysutil.CPUCFSQuotaName && v2 {
						sig = "leveled:unchanged-file-rewritten:v2-cpu-max"
					}
					if c.Violation(t, sig, "%s %s old=%q new=%q was rewritten; trace=%v", kind.Name, n.Dir, n.Old, n.New, trace) {
						return
					}
				}
			}
		}
	})
}

var _ = sort.Ints

// ---------------------------------------------------------------- successive batches on one executor (reconcile rounds)

type c12Assign struct {
	Sets [][]int
	Nums []int64
}

func c12GenAssign(t *rapid.T, kind c12Kind, nodes []c12Node, label string) c12Assign {
	a := c12Assign{Sets: make([][]int, len(nodes)), Nums: make([]int64, len(nodes))}
	universe := []int{0, 1, 2, 3, 4, 5, 6, 7}
	for i := range nodes {
		if kind.IsCPUSet {
			p := universe
			if nodes[i].Parent >= 0 {
				p = a.Sets[nodes[i].Parent]
			}
			a.Sets[i] = c12GenSubset(t, p, label+"Set")
		} else if nodes[i].Parent < 0 {
			a.Nums[i] = c12GenNumTop(t, label+"Top")
		} else {
			a.Nums[i] = c12GenNumChild(t, a.Nums[nodes[i].Parent], label+"Num")
		}
	}
	return a
}

func (a c12Assign) text(kind c12Kind, v2 bool, i int, asOldFile bool) string {
	if kind.IsCPUSet {
		return cpuset.NewCPUSet(a.Sets[i]...).String()
	}
	return c12Render(kind, v2, a.Nums[i], asOldFile)
}

func (a c12Assign) same(kind c12Kind, b c12Assign, i int) bool {
	if kind.IsCPUSet {
		return cpuset.NewCPUSet(a.Sets[i]...).Equals(cpuset.NewCPUSet(b.Sets[i]...))
	}
	return a.Nums[i] == b.Nums[i]
}

// TestVerifC12LeveledRounds runs 2-4 successive LeveledUpdateBatch calls on ONE executor (as successive reconcile rounds do,
// all inside the force-update window, so the ResourceCache decides what is skipped), including rounds that return to an
// earlier assignment; every write of every round is a crash point, and after each round every file holds that round's target.
func TestVerifC12LeveledRounds(t *testing.T) { c12RoundsCheck(t, "leveledRounds", false) }

// TestVerifC12LeveledDrift: the same rounds, but before a round the files may have been reset behind the agent's back to another
// hierarchy-valid assignment (kubelet, runtime) while the executor's cache entries have aged beyond the force-update period, so
// the round is a periodic force refresh: targets the cache believes to be in place are written again over drifted files.
func TestVerifC12LeveledDrift(t *testing.T) { c12RoundsCheck(t, "leveledDrift", true) }

func c12RoundsCheck(t *testing.T, unit string, withDrift bool) {
	rec := vk.New(t, "C12", unit)
	helper := sysutil.NewFileTestUtil(t)
	defer helper.Cleanup()
	helper.SetResourcesSupported(true, sysutil.MemoryMin, sysutil.MemoryLow, sysutil.MemoryHigh)
	sentinel := time.Date(2001, 1, 1, 0, 0, 0, 0, time.UTC)

	rapid.Check(t, func(t *rapid.T) {
		c := rec.Begin()
		defer c.End()
		c12CaseSeq++
		root := fmt.Sprintf("c12rounds%d", c12CaseSeq)
		kind := rapid.SampledFrom(c12Kinds).Draw(t, "kind")
		v2 := rapid.Bool().Draw(t, "cgroupV2")
		helper.SetCgroupsV2(v2)
		defer helper.SetCgroupsV2(false)
		res, err := sysutil.GetCgroupResource(kind.Name)
		if err != nil {
			t.Fatalf("harness: %v", err)
		}
		depth := rapid.IntRange(2, 3).Draw(t, "depth")
		nodes := []c12Node{{Dir: root + "/kubepods", Level: 0, Parent: -1}}
		frontier := []int{0}
		for lvl := 1; lvl < depth; lvl++ {
			var next []int
			for _, p := range frontier {
				fan := rapid.IntRange(1, 2).Draw(t, "fanout")
				for k := 0; k < fan; k++ {
					nodes = append(nodes, c12Node{Dir: fmt.Sprintf("%s/n%d", nodes[p].Dir, k), Level: lvl, Parent: p})
					next = append(next, len(nodes)-1)
				}
			}
			frontier = next
		}
		assigns := []c12Assign{c12GenAssign(t, kind, nodes, "a0")}
		paths := make([]string, len(nodes))
		for i, n := range nodes {
			paths[i] = res.Path(n.Dir)
			if err := os.MkdirAll(filepath.Dir(paths[i]), 0o777); err != nil {
				t.Fatalf("harness: %v", err)
			}
			if err := os.WriteFile(paths[i], []byte(assigns[0].text(kind, v2, i, true)), 0o644); err != nil {
				t.Fatalf("harness: %v", err)
			}
		}
		caseRoots, _ := filepath.Glob(filepath.Join(helper.TempDir, "*", root))
		defer func() {
			os.RemoveAll(filepath.Join(helper.TempDir, root))
			for _, d := range caseRoots {
				os.RemoveAll(d)
			}
		}()

		e := &ResourceUpdateExecutorImpl{ResourceCache: cache.NewCacheDefault(), Config: NewDefaultConfig()}
		e.Config.ResourceForceUpdateSeconds = 24 * 3600
		stop := make(chan struct{})
		defer close(stop)
		e.Run(stop)

		var trace []string
		failed := false
		snapshot := func(step string) {
			if failed {
				return
			}
			cur := make([]string, len(nodes))
			for i := range nodes {
				b, _ := os.ReadFile(paths[i])
				cur[i] = strings.Trim(string(b), "\n")
				// the kernel keeps the period of cgroup-v2 cpu.max when only the quota is written; a plain file does not
				if kind.Name == sysutil.CPUCFSQuotaName && v2 && len(strings.Fields(cur[i])) == 1 {
					if cur[i] == "-1" {
						cur[i] = "max"
					}
					cur[i] += " 100000"
					_ = os.WriteFile(paths[i], []byte(cur[i]), 0o644)
				}
			}
			trace = append(trace, fmt.Sprintf("%s => %v", step, cur))
			for i, n := range nodes {
				if n.Parent < 0 {
					continue
				}
				if kind.IsCPUSet {
					ch, e1 := cpuset.Parse(cur[i])
					pa, e2 := cpuset.Parse(cur[n.Parent])
					if e1 != nil || e2 != nil || !ch.IsSubsetOf(pa) {
						failed = true
						c.Violation(t, "rounds:child-cpuset-outside-parent", "after %s: %s=%q not within parent %s=%q; trace=%v", step, n.Dir, cur[i], nodes[n.Parent].Dir, cur[n.Parent], trace)
						return
					}
				} else {
					ch, e1 := c12ParseNum(kind, v2, cur[i])
					pa, e2 := c12ParseNum(kind, v2, cur[n.Parent])
					if e1 != nil || e2 != nil || ch > pa {
						failed = true
						c.Violation(t, "rounds:child-above-parent", "after %s: %s %s=%q larger than parent %s=%q; trace=%v", step, kind.Name, n.Dir, cur[i], nodes[n.Parent].Dir, cur[n.Parent], trace)
						return
					}
				}
			}
		}

		rounds := rapid.IntRange(2, 4).Draw(t, "rounds")
		sawRevert, sawShrinkThenGrow, sawDrift, sawRefreshOverDrift := false, false, false, false
		everShrunk := make([]bool, len(nodes))
		for r := 1; r <= rounds && !failed; r++ {
			prev := assigns[r-1]
			var next c12Assign
			switch mode := rapid.SampledFrom([]string{"free", "revert", "revert", "same"}).Draw(t, "mode"); {
			case mode == "revert" && r >= 2:
				next = assigns[r-2]
				sawRevert = true
			case mode == "same":
				next = prev
			default:
				next = c12GenAssign(t, kind, nodes, fmt.Sprintf("a%d", r))
			}
			assigns = append(assigns, next)
			if withDrift && rapid.Bool().Draw(t, "driftAndForceRefresh") {
				// the files drift to another valid assignment; every cache entry is older than the force-update period
				drift := c12GenAssign(t, kind, nodes, fmt.Sprintf("d%d", r))
				for i := range nodes {
					if err := os.WriteFile(paths[i], []byte(drift.text(kind, v2, i, true)), 0o644); err != nil {
						t.Fatalf("harness: %v", err)
					}
				}
				for i, n := range nodes {
					ku, err := DefaultCgroupUpdaterFactory.New(kind.Name, n.Dir, next.text(kind, v2, i, false), nil)
					if err != nil {
						t.Fatalf("harness: %v", err)
					}
					if o, ok := e.ResourceCache.Get(ku.Key()); ok {
						o.(ResourceUpdater).UpdateLastUpdateTimestamp(time.Now().Add(-48 * time.Hour))
					}
				}
				trace = append(trace, fmt.Sprintf("-- files drifted to %v, cache aged", drift))
				sawDrift = true
				for i := range nodes {
					if next.same(kind, prev, i) && !drift.same(kind, next, i) {
						sawRefreshOverDrift = true // the cache holds the target, the file does not
					}
				}
				prev = drift
			}
			for i := range nodes {
				if !kind.IsCPUSet {
					if next.Nums[i] < prev.Nums[i] {
						everShrunk[i] = true
					} else if next.Nums[i] > prev.Nums[i] && everShrunk[i] {
						sawShrinkThenGrow = true
					}
				} else {
					o, n := cpuset.NewCPUSet(prev.Sets[i]...), cpuset.NewCPUSet(next.Sets[i]...)
					if n.IsSubsetOf(o) && !n.Equals(o) {
						everShrunk[i] = true
					} else if !n.IsSubsetOf(o) && everShrunk[i] {
						sawShrinkThenGrow = true
					}
				}
			}
			for _, p := range paths {
				_ = os.Chtimes(p, sentinel, sentinel)
			}
			trace = append(trace, fmt.Sprintf("-- round %d", r))
			lv := make([][]ResourceUpdater, depth)
			for i, n := range nodes {
				u, err := DefaultCgroupUpdaterFactory.New(kind.Name, n.Dir, next.text(kind, v2, i, false), nil)
				if err != nil {
					t.Fatalf("harness: %v", err)
				}
				cu := u.(*CgroupResourceUpdater)
				origUpdate, origMerge := cu.updateFunc, cu.mergeUpdateFunc
				dir, round := n.Dir, r
				cu.updateFunc = func(x ResourceUpdater) error {
					err := origUpdate(x)
					snapshot(fmt.Sprintf("r%d update(%s,%s)", round, dir, x.Value()))
					return err
				}
				if origMerge != nil {
					cu.mergeUpdateFunc = func(x ResourceUpdater) (ResourceUpdater, error) {
						m, err := origMerge(x)
						snapshot(fmt.Sprintf("r%d merge(%s,%s)", round, dir, x.Value()))
						return m, err
					}
				}
				lv[n.Level] = append(lv[n.Level], cu)
			}
			e.LeveledUpdateBatch(lv)
			if failed {
				break
			}
			for i, n := range nodes {
				b, _ := os.ReadFile(paths[i])
				cur := strings.Trim(string(b), "\n")
				ok := false
				if kind.IsCPUSet {
					got, err := cpuset.Parse(cur)
					ok = err == nil && got.Equals(cpuset.NewCPUSet(next.Sets[i]...))
				} else {
					got, err := c12ParseNum(kind, v2, cur)
					ok = err == nil && got == next.Nums[i]
				}
				if !ok {
					failed = true
					c.Violation(t, "rounds:final-not-target", "round %d: %s %s holds %q, target %q; trace=%v", r, kind.Name, n.Dir, cur, next.text(kind, v2, i, false), trace)
					break
				}
				if next.same(kind, prev, i) {
					if st, err := os.Stat(paths[i]); err == nil && !st.ModTime().Equal(sentinel) {
						failed = true
						c.Violation(t, "rounds:unchanged-file-rewritten", "round %d: %s %s unchanged (%q) but rewritten; trace=%v", r, kind.Name, n.Dir, cur, trace)
						break
					}
				}
			}
		}
		c.Class("kind:" + string(kind.Name))
		c.ClassIf(v2, "cgroup-v2")
		c.ClassIf(sawRevert, "round-returns-to-earlier-assignment")
		c.ClassIf(sawShrinkThenGrow, "node-shrinks-then-grows")
		c.Class(fmt.Sprintf("rounds:%d", rounds))
		c.ClassIf(sawDrift, "files-drifted-and-cache-aged-before-a-round")
		c.ClassIf(sawRefreshOverDrift, "force-refresh-of-a-cached-target-over-a-drifted-file")
		if (!withDrift && (sawShrinkThenGrow || sawRevert)) || (withDrift && sawRefreshOverDrift) {
			c.NonTrivial(kind.Name, v2, fmt.Sprint(nodes), fmt.Sprint(assigns), fmt.Sprint(trace))
		}
		c.Sample(map[string]any{"kind": kind.Name, "v2": v2, "nodes": nodes, "trace": trace})
	})
}

// ---------------------------------------------------------------- two leveled batches racing on the same files
//
// Several koordlet plugins call LeveledUpdateBatch on overlapping files from their own goroutines; LeveledUpdateLock serialises
// whole batches. The harness owns the interleaving at ONE point: after the k-th write of batch A it asks whether another batch
// could get in right now (LeveledUpdateLock.TryLock); if so batch B runs to completion there, otherwise B runs after A. On a
// tree that holds the lock for the whole batch B always runs after A, so the verdict is a pure function of the case.
func TestVerifC12LeveledConcurrent(t *testing.T) {
	rec := vk.New(t, "C12", "leveledConcurrent")
	helper := sysutil.NewFileTestUtil(t)
	defer helper.Cleanup()
	helper.SetResourcesSupported(true, sysutil.MemoryMin, sysutil.MemoryLow, sysutil.MemoryHigh)

	rapid.Check(t, func(t *rapid.T) {
		c := rec.Begin()
		defer c.End()
		c12CaseSeq++
		root := fmt.Sprintf("c12conc%d", c12CaseSeq)
		kind := rapid.SampledFrom(c12Kinds).Draw(t, "kind")
		v2 := rapid.Bool().Draw(t, "cgroupV2")
		helper.SetCgroupsV2(v2)
		defer helper.SetCgroupsV2(false)
		res, err := sysutil.GetCgroupResource(kind.Name)
		if err != nil {
			t.Fatalf("harness: %v", err)
		}
		depth := rapid.IntRange(2, 3).Draw(t, "depth")
		nodes := []c12Node{{Dir: root + "/kubepods", Level: 0, Parent: -1}}
		frontier := []int{0}
		for lvl := 1; lvl < depth; lvl++ {
			var next []int
			for _, p := range frontier {
				fan := rapid.IntRange(1, 2).Draw(t, "fanout")
				for k := 0; k < fan; k++ {
					nodes = append(nodes, c12Node{Dir: fmt.Sprintf("%s/n%d", nodes[p].Dir, k), Level: lvl, Parent: p})
					next = append(next, len(nodes)-1)
				}
			}
			frontier = next
		}
		start := c12GenAssign(t, kind, nodes, "a0")
		targetA := c12GenAssign(t, kind, nodes, "aA")
		targetB := c12GenAssign(t, kind, nodes, "aB")
		paths := make([]string, len(nodes))
		for i, n := range nodes {
			paths[i] = res.Path(n.Dir)
			if err := os.MkdirAll(filepath.Dir(paths[i]), 0o777); err != nil {
				t.Fatalf("harness: %v", err)
			}
			if err := os.WriteFile(paths[i], []byte(start.text(kind, v2, i, true)), 0o644); err != nil {
				t.Fatalf("harness: %v", err)
			}
		}
		caseRoots, _ := filepath.Glob(filepath.Join(helper.TempDir, "*", root))
		defer func() {
			os.RemoveAll(filepath.Join(helper.TempDir, root))
			for _, d := range caseRoots {
				os.RemoveAll(d)
			}
		}()

		e := &ResourceUpdateExecutorImpl{ResourceCache: cache.NewCacheDefault(), Config: NewDefaultConfig()}
		e.Config.ResourceForceUpdateSeconds = 24 * 3600
		stop := make(chan struct{})
		defer close(stop)
		e.Run(stop)

		var trace []string
		failed := false
		snapshot := func(step string) {
			if failed {
				return
			}
			cur := make([]string, len(nodes))
			for i := range nodes {
				b, _ := os.ReadFile(paths[i])
				cur[i] = strings.Trim(string(b), "\n")
				if kind.Name == sysutil.CPUCFSQuotaName && v2 && len(strings.Fields(cur[i])) == 1 {
					if cur[i] == "-1" {
						cur[i] = "max"
					}
					cur[i] += " 100000"
					_ = os.WriteFile(paths[i], []byte(cur[i]), 0o644)
				}
			}
			trace = append(trace, fmt.Sprintf("%s => %v", step, cur))
			for i, n := range nodes {
				if n.Parent < 0 {
					continue
				}
				bad := false
				if kind.IsCPUSet {
					ch, e1 := cpuset.Parse(cur[i])
					pa, e2 := cpuset.Parse(cur[n.Parent])
					bad = e1 != nil || e2 != nil || !ch.IsSubsetOf(pa)
				} else {
					ch, e1 := c12ParseNum(kind, v2, cur[i])
					pa, e2 := c12ParseNum(kind, v2, cur[n.Parent])
					bad = e1 != nil || e2 != nil || ch > pa
				}
				if bad {
					failed = true
					c.Violation(t, "concurrent:child-outside-parent", "after %s: %s %s=%q not within parent %s=%q; trace=%v", step, kind.Name, n.Dir, cur[i], nodes[n.Parent].Dir, cur[n.Parent], trace)
					return
				}
			}
		}

		pauseAt := rapid.IntRange(1, 2*len(nodes)).Draw(t, "letTheOtherBatchInAfterWriteK")
		writesOfA, ranInside, ranB := 0, false, false
		var build func(name string, target c12Assign, hook func()) [][]ResourceUpdater
		build = func(name string, target c12Assign, hook func()) [][]ResourceUpdater {
			lv := make([][]ResourceUpdater, depth)
			for i, n := range nodes {
				u, err := DefaultCgroupUpdaterFactory.New(kind.Name, n.Dir, target.text(kind, v2, i, false), nil)
				if err != nil {
					t.Fatalf("harness: %v", err)
				}
				cu := u.(*CgroupResourceUpdater)
				origUpdate, origMerge := cu.updateFunc, cu.mergeUpdateFunc
				dir := n.Dir
				cu.updateFunc = func(x ResourceUpdater) error {
					err := origUpdate(x)
					snapshot(fmt.Sprintf("%s update(%s,%s)", name, dir, x.Value()))
					hook()
					return err
				}
				if origMerge != nil {
					cu.mergeUpdateFunc = func(x ResourceUpdater) (ResourceUpdater, error) {
						m, err := origMerge(x)
						snapshot(fmt.Sprintf("%s merge(%s,%s)", name, dir, x.Value()))
						hook()
						return m, err
					}
				}
				lv[n.Level] = append(lv[n.Level], cu)
			}
			return lv
		}
		runB := func(where string) {
			ranB = true
			trace = append(trace, "-- batch B "+where)
			e.LeveledUpdateBatch(build("B", targetB, func() {}))
		}
		hookA := func() {
			writesOfA++
			if writesOfA != pauseAt || ranB || failed {
				return
			}
			if e.LeveledUpdateLock.TryLock() { // nobody holds the batch lock: a concurrent batch would run right here
				e.LeveledUpdateLock.Unlock()
				ranInside = true
				runB(fmt.Sprintf("gets in after write %d of batch A", writesOfA))
			}
		}
		trace = append(trace, "-- batch A")
		e.LeveledUpdateBatch(build("A", targetA, hookA))
		if !ranB && !failed {
			runB("after batch A")
		}
		if !failed && !ranInside {
			for i, n := range nodes {
				b, _ := os.ReadFile(paths[i])
				cur := strings.Trim(string(b), "\n")
				ok := false
				if kind.IsCPUSet {
					got, err := cpuset.Parse(cur)
					ok = err == nil && got.Equals(cpuset.NewCPUSet(targetB.Sets[i]...))
				} else {
					got, err := c12ParseNum(kind, v2, cur)
					ok = err == nil && got == targetB.Nums[i]
				}
				if !ok {
					failed = true
					c.Violation(t, "concurrent:final-not-target-of-last-batch", "%s %s holds %q, target of the last batch %q; trace=%v", kind.Name, n.Dir, cur, targetB.text(kind, v2, i, false), trace)
					break
				}
			}
		}
		opposite := false
		for i := range nodes {
			if kind.IsCPUSet {
				a, b, s0 := cpuset.NewCPUSet(targetA.Sets[i]...), cpuset.NewCPUSet(targetB.Sets[i]...), cpuset.NewCPUSet(start.Sets[i]...)
				if !a.IsSubsetOf(s0) && !s0.IsSubsetOf(b) {
					opposite = true
				}
			} else if targetA.Nums[i] > start.Nums[i] && targetB.Nums[i] < start.Nums[i] {
				opposite = true
			}
		}
		c.Class("kind:" + string(kind.Name))
		c.ClassIf(v2, "cgroup-v2")
		c.ClassIf(writesOfA >= pauseAt, "batch-A-reached-the-interleaving-point")
		c.ClassIf(ranInside, "batch-B-ran-inside-batch-A")
		c.ClassIf(opposite, "batch-A-grows-a-node-that-batch-B-shrinks")
		if opposite && writesOfA >= pauseAt {
			c.NonTrivial(kind.Name, v2, fmt.Sprint(nodes), fmt.Sprint(start), fmt.Sprint(targetA), fmt.Sprint(targetB), pauseAt)
		}
		c.Sample(map[string]any{"kind": kind.Name, "v2": v2, "nodes": nodes, "pauseAt": pauseAt, "trace": trace})
	})
}

// ---------------------------------------------------------------- cpuset targets in another spelling
//
// The kernel shows a cpuset in its canonical list format ("0-1,3"); the updater API accepts any legal spelling of the target
// ("0,1,3", "3,0-1", "0-0,1,3"). A file whose cpus are unchanged must not be rewritten however the target is spelled.
func c12Respell(t *rapid.T, ids []int, label string) string {
	switch rapid.IntRange(0, 3).Draw(t, label) {
	case 0: // canonical
		return cpuset.NewCPUSet(ids...).String()
	case 1: // plain comma list, ascending
		s := make([]string, len(ids))
		sorted := append([]int(nil), ids...)
		sort.Ints(sorted)
		for i, v := range sorted {
			s[i] = fmt.Sprint(v)
		}
		return strings.Join(s, ",")
	case 2: // plain comma list, descending
		s := make([]string, len(ids))
		sorted := append([]int(nil), ids...)
		sort.Sort(sort.Reverse(sort.IntSlice(sorted)))
		for i, v := range sorted {
			s[i] = fmt.Sprint(v)
		}
		return strings.Join(s, ",")
	default: // single-cpu ranges
		s := make([]string, len(ids))
		sorted := append([]int(nil), ids...)
		sort.Ints(sorted)
		for i, v := range sorted {
			s[i] = fmt.Sprintf("%d-%d", v, v)
		}
		return strings.Join(s, ",")
	}
}

func TestVerifC12CPUSetSpelling(t *testing.T) {
	rec := vk.New(t, "C12", "cpusetSpelling")
	helper := sysutil.NewFileTestUtil(t)
	defer helper.Cleanup()
	sentinel := time.Date(2001, 1, 1, 0, 0, 0, 0, time.UTC)
	var kind c12Kind
	for _, k := range c12Kinds {
		if k.IsCPUSet {
			kind = k
		}
	}

	rapid.Check(t, func(t *rapid.T) {
		c := rec.Begin()
		defer c.End()
		c12CaseSeq++
		root := fmt.Sprintf("c12spell%d", c12CaseSeq)
		v2 := rapid.Bool().Draw(t, "cgroupV2")
		helper.SetCgroupsV2(v2)
		defer helper.SetCgroupsV2(false)
		res, err := sysutil.GetCgroupResource(kind.Name)
		if err != nil {
			t.Fatalf("harness: %v", err)
		}
		depth := rapid.IntRange(2, 3).Draw(t, "depth")
		nodes := []c12Node{{Dir: root + "/kubepods", Level: 0, Parent: -1}}
		frontier := []int{0}
		for lvl := 1; lvl < depth; lvl++ {
			var next []int
			for _, p := range frontier {
				fan := rapid.IntRange(1, 2).Draw(t, "fanout")
				for k := 0; k < fan; k++ {
					nodes = append(nodes, c12Node{Dir: fmt.Sprintf("%s/n%d", nodes[p].Dir, k), Level: lvl, Parent: p})
					next = append(next, len(nodes)-1)
				}
			}
			frontier = next
		}
		old := c12GenAssign(t, kind, nodes, "old")
		target := old
		if !rapid.Bool().Draw(t, "targetEqualsOld") {
			target = c12GenAssign(t, kind, nodes, "new")
			for i := range nodes { // keep a good share of nodes unchanged
				if rapid.Bool().Draw(t, "keepNode") && (nodes[i].Parent < 0 || cpuset.NewCPUSet(old.Sets[i]...).IsSubsetOf(cpuset.NewCPUSet(target.Sets[nodes[i].Parent]...))) {
					ok := true
					for j := range nodes { // its children of the target must stay inside it
						if nodes[j].Parent == i && !cpuset.NewCPUSet(target.Sets[j]...).IsSubsetOf(cpuset.NewCPUSet(old.Sets[i]...)) {
							ok = false
						}
					}
					if ok {
						target.Sets[i] = old.Sets[i]
					}
				}
			}
		}
		paths := make([]string, len(nodes))
		spelled := make([]string, len(nodes))
		respelledUnchanged := false
		for i, n := range nodes {
			paths[i] = res.Path(n.Dir)
			if err := os.MkdirAll(filepath.Dir(paths[i]), 0o777); err != nil {
				t.Fatalf("harness: %v", err)
			}
			canon := cpuset.NewCPUSet(old.Sets[i]...).String() // what the kernel shows
			if err := os.WriteFile(paths[i], []byte(canon), 0o644); err != nil {
				t.Fatalf("harness: %v", err)
			}
			_ = os.Chtimes(paths[i], sentinel, sentinel)
			spelled[i] = c12Respell(t, target.Sets[i], "spelling")
			if target.same(kind, old, i) && spelled[i] != canon {
				respelledUnchanged = true
			}
		}
		caseRoots, _ := filepath.Glob(filepath.Join(helper.TempDir, "*", root))
		defer func() {
			os.RemoveAll(filepath.Join(helper.TempDir, root))
			for _, d := range caseRoots {
				os.RemoveAll(d)
			}
		}()
		e := &ResourceUpdateExecutorImpl{ResourceCache: cache.NewCacheDefault(), Config: NewDefaultConfig()}
		e.Config.ResourceForceUpdateSeconds = 24 * 3600
		stop := make(chan struct{})
		defer close(stop)
		e.Run(stop)
		lv := make([][]ResourceUpdater, depth)
		for i, n := range nodes {
			u, err := DefaultCgroupUpdaterFactory.New(kind.Name, n.Dir, spelled[i], nil)
			if err != nil {
				t.Fatalf("harness: %v", err)
			}
			lv[n.Level] = append(lv[n.Level], u)
		}
		e.LeveledUpdateBatch(lv)
		for i, n := range nodes {
			b, _ := os.ReadFile(paths[i])
			cur := strings.Trim(string(b), "\n")
			got, err := cpuset.Parse(cur)
			if err != nil || !got.Equals(cpuset.NewCPUSet(target.Sets[i]...)) {
				c.Violation(t, "spelling:final-not-target", "%s holds %q, target %q (set %v); old=%v", n.Dir, cur, spelled[i], target.Sets[i], old.Sets)
				return
			}
			if target.same(kind, old, i) {
				if st, err := os.Stat(paths[i]); err == nil && !st.ModTime().Equal(sentinel) {
					c.Violation(t, "spelling:unchanged-cpuset-rewritten", "%s: cpus unchanged (%v, file held %q) but rewritten with the target spelled %q; nodes=%v old=%v target=%v", n.Dir, old.Sets[i], cpuset.NewCPUSet(old.Sets[i]...).String(), spelled[i], nodes, old.Sets, target.Sets)
					return
				}
			}
		}
		c.ClassIf(v2, "cgroup-v2")
		c.ClassIf(respelledUnchanged, "unchanged-cpuset-with-target-spelled-differently-from-the-file")
		if respelledUnchanged {
			c.NonTrivial(v2, fmt.Sprint(nodes), fmt.Sprint(old), fmt.Sprint(spelled))
		}
		c.Sample(map[string]any{"v2": v2, "nodes": nodes, "old": old.Sets, "spelled": spelled})
	})
}
