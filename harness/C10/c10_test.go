//go:build verif

// C10 — Best-effort CPU suppression keeps BE off protected CPUs and inside its budget.
// See /verif/DESIGN.md §1 C10. In-package harness (injected with -overlay).
//
// Four units:
//
//	budget          calculateBESuppressCPU vs an exact (big.Rat) restatement of the formula + metamorphic monotonicity
//	setPolicy       calculateBESuppressCPUSetPolicy on generated (sub-)processor lists: distinct, existing, count rule
//	adjustByCPUSet  end-to-end over a temp cgroup root (v1 / v2, kubelet policy none / static), 1-3 rounds
//	cfsQuota        adjustByCfsQuota: written quota vs restated rule
package cpusuppress

import (
	"encoding/json"
	"flag"
	"fmt"
	"io"
	"math/big"
	"os"
	"path/filepath"
	"sort"
	"strconv"
	"strings"
	"testing"
	"time"

	topov1alpha1 "github.com/k8stopologyawareschedwg/noderesourcetopology-api/pkg/apis/topology/v1alpha1"
	corev1 "k8s.io/api/core/v1"
	"k8s.io/apimachinery/pkg/api/resource"
	metav1 "k8s.io/apimachinery/pkg/apis/meta/v1"
	"k8s.io/apimachinery/pkg/types"
	"k8s.io/klog/v2"
	"pgregory.net/rapid"

	apiext "github.com/koordinator-sh/koordinator/apis/extension"
	slov1alpha1 "github.com/koordinator-sh/koordinator/apis/slo/v1alpha1"
	"github.com/koordinator-sh/koordinator/pkg/features"
	"github.com/koordinator-sh/koordinator/pkg/koordlet/metriccache"
	"github.com/koordinator-sh/koordinator/pkg/koordlet/resourceexecutor"
	"github.com/koordinator-sh/koordinator/pkg/koordlet/statesinformer"
	koordletutil "github.com/koordinator-sh/koordinator/pkg/koordlet/util"
	"github.com/koordinator-sh/koordinator/pkg/koordlet/util/system"
	"github.com/koordinator-sh/koordinator/pkg/util/cache"
	"github.com/koordinator-sh/koordinator/pkg/verifkit/vk"
)

// ---------------------------------------------------------------- shared helpers

// the constants of the statement, restated (not read from the package under test)
const (
	c10MinCPUs     = 2      // "at least two"
	c10StepPercent = 10     // "growing by at most the step limit per round": ceil(10 % of the processors)
	c10CFSPeriod   = 100000 // CFS period in us
	c10MinQuota    = 2000   // "floored by the minimum quota"
)

// c10Quiet silences klog (the code under test logs every decision; thousands of cases would flood the driver).
func c10Quiet() {
	fs := flag.NewFlagSet("c10-klog", flag.ContinueOnError)
	klog.InitFlags(fs)
	_ = fs.Set("logtostderr", "false")
	_ = fs.Set("alsologtostderr", "false")
	_ = fs.Set("stderrthreshold", "FATAL")
	klog.SetOutput(io.Discard)
}

func c10Min(a, b int) int {
	if a < b {
		return a
	}
	return b
}

// c10FmtSet renders ids as a Linux CPU list ("0-3,7"); own implementation, independent of pkg/util/cpuset.
func c10FmtSet(ids []int) string {
	if len(ids) == 0 {
		return ""
	}
	s := append([]int(nil), ids...)
	sort.Ints(s)
	var parts []string
	for i := 0; i < len(s); {
		j := i
		for j+1 < len(s) && (s[j+1] == s[j]+1 || s[j+1] == s[j]) {
			j++
		}
		if s[j] == s[i] {
			parts = append(parts, strconv.Itoa(s[i]))
		} else {
			parts = append(parts, fmt.Sprintf("%d-%d", s[i], s[j]))
		}
		i = j + 1
	}
	return strings.Join(parts, ",")
}

// c10ParseList parses a Linux CPU list keeping duplicates (so that "distinct" is checkable).
func c10ParseList(s string) ([]int, error) {
	s = strings.TrimSpace(s)
	if s == "" {
		return nil, nil
	}
	var out []int
	for _, part := range strings.Split(s, ",") {
		b := strings.Split(strings.TrimSpace(part), "-")
		switch len(b) {
		case 1:
			v, err := strconv.Atoi(b[0])
			if err != nil {
				return nil, err
			}
			out = append(out, v)
		case 2:
			lo, err := strconv.Atoi(b[0])
			if err != nil {
				return nil, err
			}
			hi, err := strconv.Atoi(b[1])
			if err != nil {
				return nil, err
			}
			if hi < lo || hi-lo > 1<<16 {
				return nil, fmt.Errorf("bad range %q", part)
			}
			for v := lo; v <= hi; v++ {
				out = append(out, v)
			}
		default:
			return nil, fmt.Errorf("bad element %q", part)
		}
	}
	return out, nil
}

func c10SetOf(ids []int) map[int]bool {
	m := make(map[int]bool, len(ids))
	for _, id := range ids {
		m[id] = true
	}
	return m
}

// ---------------------------------------------------------------- topology / processor list generator

type c10Topo struct {
	Sockets, NodesPerSocket, CoresPerNode, Threads int
	Split                                          bool // thread siblings numbered core+k*cores (Linux style) instead of adjacent
	NumaOff                                        bool // NUMA disabled: every processor reports node 0
	Offline                                        []int
	Procs                                          []koordletutil.ProcessorInfo
}

func (tp c10Topo) String() string {
	var ps []string
	for _, p := range tp.Procs {
		ps = append(ps, fmt.Sprintf("%d:n%d/s%d/c%d", p.CPUID, p.NodeID, p.SocketID, p.CoreID))
	}
	return fmt.Sprintf("topo{%dx%dx%dx%d split=%v numaOff=%v offline=%v procs=[%s]}", tp.Sockets, tp.NodesPerSocket, tp.CoresPerNode, tp.Threads,
		tp.Split, tp.NumaOff, tp.Offline, strings.Join(ps, " "))
}

func (tp c10Topo) ids() []int {
	out := make([]int, 0, len(tp.Procs))
	for _, p := range tp.Procs {
		out = append(out, int(p.CPUID))
	}
	sort.Ints(out)
	return out
}

// c10SortProcs orders a processor list the way koordletutil.getProcessorInfos does (node, socket, core, cpu).
func c10SortProcs(ps []koordletutil.ProcessorInfo) {
	sort.SliceStable(ps, func(i, j int) bool {
		a, b := ps[i], ps[j]
		if a.NodeID != b.NodeID {
			return a.NodeID < b.NodeID
		}
		if a.SocketID != b.SocketID {
			return a.SocketID < b.SocketID
		}
		if a.CoreID != b.CoreID {
			return a.CoreID < b.CoreID
		}
		return a.CPUID < b.CPUID
	})
}

func c10GenTopo(t *rapid.T) c10Topo {
	tp := c10Topo{}
	tp.Sockets = rapid.IntRange(1, 2).Draw(t, "sockets")
	tp.NodesPerSocket = rapid.IntRange(1, 2).Draw(t, "nodesPerSocket")
	tp.CoresPerNode = rapid.OneOf(rapid.IntRange(1, 3), rapid.IntRange(1, 8), rapid.IntRange(1, 16)).Draw(t, "coresPerNode")
	tp.Threads = rapid.SampledFrom([]int{1, 2, 2, 2, 2, 4}).Draw(t, "threads")
	tp.Split = rapid.Bool().Draw(t, "splitSiblings")
	tp.NumaOff = rapid.IntRange(0, 7).Draw(t, "numaOff") == 0
	totalCores := tp.Sockets * tp.NodesPerSocket * tp.CoresPerNode
	var procs []koordletutil.ProcessorInfo
	core := 0
	for si := 0; si < tp.Sockets; si++ {
		for ni := 0; ni < tp.NodesPerSocket; ni++ {
			for ci := 0; ci < tp.CoresPerNode; ci++ {
				for pi := 0; pi < tp.Threads; pi++ {
					id := core*tp.Threads + pi
					if tp.Split {
						id = core + pi*totalCores
					}
					node := si*tp.NodesPerSocket + ni
					if tp.NumaOff {
						node = 0
					}
					procs = append(procs, koordletutil.ProcessorInfo{CPUID: int32(id), CoreID: int32(core), SocketID: int32(si), NodeID: int32(node)})
				}
				core++
			}
		}
	}
	// offline CPUs are absent from the list (lscpu prints "-" for them and the parser drops the line): gaps in ids, odd cores
	switch rapid.IntRange(0, 4).Draw(t, "offlineMode") {
	case 3, 4:
		thr := 1
		if rapid.Bool().Draw(t, "manyOffline") {
			thr = 3
		}
		mask := rapid.SliceOfN(rapid.IntRange(0, 7), len(procs), len(procs)).Draw(t, "offlineMask")
		var kept []koordletutil.ProcessorInfo
		for i, p := range procs {
			if mask[i] < thr && len(procs)-len(tp.Offline) > 1 {
				tp.Offline = append(tp.Offline, int(p.CPUID))
				continue
			}
			kept = append(kept, p)
		}
		procs = kept
	}
	c10SortProcs(procs)
	tp.Procs = procs
	return tp
}

// ---------------------------------------------------------------- (1) budget formula

type c10BPod struct {
	UID       string
	Label     string // koordinator.sh/qosClass value, "" = no label
	KubeQoS   corev1.PodQOSClass
	SetStatus bool // Status.QOSClass filled in (as kubelet does) or left to be derived from the containers
	HasMeta   bool
	HasMetric bool
	Usage     float64
}

func (p c10BPod) isBE() bool { return p.Label == "BE" || p.KubeQoS == corev1.PodQOSBestEffort }

type c10HostApp struct {
	Name      string
	QoS       string
	Base      string // "" = no cgroupPath
	HasMetric bool
	Usage     float64
}

func (h c10HostApp) isBE() bool {
	return h.QoS == "BE" && h.Base == string(slov1alpha1.CgroupBaseTypeKubeBesteffort)
}

type c10BudgetCase struct {
	CapMilli, AllocMilli int64
	AnnoKind             string // "", "resources", "cpus", "both", "bad", "memory-only"
	AnnoResMilli         int64
	AnnoCPUs             int
	KubeMemResMi         int // memory the kubelet reserves (capacity - allocatable), Mi
	AnnoMemMi            int // memory the annotation reserves, Mi; 0 = the annotation does not mention memory
	Threshold            int64
	Min                  *int64
	NodeUsed             float64
	Pods                 []c10BPod
	Apps                 []c10HostApp
}

func c10GenUsage(t *rapid.T, capCores float64, label string) float64 {
	switch rapid.IntRange(0, 5).Draw(t, label+"Kind") {
	case 0:
		return 0
	case 1: // dyadic: sums are exact in float64
		return float64(rapid.IntRange(0, int(capCores*64)).Draw(t, label+"D")) / 64
	case 2: // whole milli
		return float64(rapid.IntRange(0, int(capCores*1000)).Draw(t, label+"M")) / 1000
	case 3:
		return rapid.Float64Range(0, 0.01).Draw(t, label+"T")
	default:
		return rapid.Float64Range(0, capCores).Draw(t, label+"F")
	}
}

func c10GenBudgetCase(t *rapid.T) c10BudgetCase {
	bc := c10BudgetCase{}
	capCores := rapid.OneOf(rapid.IntRange(1, 8), rapid.IntRange(1, 64), rapid.IntRange(1, 256)).Draw(t, "capCores")
	bc.CapMilli = int64(capCores) * 1000
	if rapid.IntRange(0, 4).Draw(t, "capFractional") == 0 {
		bc.CapMilli -= int64(rapid.IntRange(1, 500).Draw(t, "capFrac"))
	}
	switch rapid.IntRange(0, 3).Draw(t, "kubeletReserved") {
	case 0:
		bc.AllocMilli = bc.CapMilli
	case 1:
		bc.AllocMilli = bc.CapMilli - int64(rapid.IntRange(0, int(bc.CapMilli/8)).Draw(t, "kubeletReservedMilli"))
	default:
		bc.AllocMilli = bc.CapMilli - int64(c10Min(int(bc.CapMilli), rapid.IntRange(0, 4000).Draw(t, "kubeletReservedSmall")))
	}
	bc.AnnoKind = rapid.SampledFrom([]string{"", "", "resources", "resources", "cpus", "both", "bad", "memory-only"}).Draw(t, "annoKind")
	// reservations are multi-resource lists; the two sources need not be ordered the same way in every resource
	bc.KubeMemResMi = rapid.SampledFrom([]int{0, 512, 1024, 4096}).Draw(t, "kubeletReservedMemMi")
	if bc.AnnoKind == "memory-only" {
		bc.AnnoMemMi = rapid.SampledFrom([]int{256, 2048, 8192}).Draw(t, "annoMemMi")
	} else if bc.AnnoKind != "" && bc.AnnoKind != "bad" {
		bc.AnnoMemMi = rapid.SampledFrom([]int{0, 0, 256, 2048, 8192}).Draw(t, "annoMemMi")
	}
	if bc.AnnoKind == "resources" || bc.AnnoKind == "both" {
		bc.AnnoResMilli = int64(rapid.OneOf(rapid.IntRange(0, int(bc.CapMilli/8)), rapid.IntRange(0, int(bc.CapMilli))).Draw(t, "annoResMilli"))
	}
	if bc.AnnoKind == "cpus" || bc.AnnoKind == "both" {
		bc.AnnoCPUs = rapid.OneOf(rapid.IntRange(1, capCores/8+1), rapid.IntRange(1, capCores)).Draw(t, "annoCPUs")
	}
	bc.Threshold = int64(rapid.OneOf(rapid.IntRange(40, 100), rapid.IntRange(40, 100), rapid.IntRange(0, 100), rapid.SampledFrom([]int{0, 1, 50, 65, 99, 100})).Draw(t, "threshold"))
	if rapid.Bool().Draw(t, "hasMin") {
		m := int64(rapid.OneOf(rapid.IntRange(0, 100), rapid.SampledFrom([]int{0, 1, 5, 10, 100})).Draw(t, "minPercent"))
		bc.Min = &m
	}
	capF := float64(bc.CapMilli) / 1000
	nPods := rapid.IntRange(0, 8).Draw(t, "nPods")
	perPod := capF
	if nPods > 2 && rapid.Bool().Draw(t, "podsShareNode") {
		perPod = capF / float64(nPods)
	}
	for i := 0; i < nPods; i++ {
		p := c10BPod{UID: fmt.Sprintf("uid-%d", i)}
		p.Label = rapid.SampledFrom([]string{"", "LSE", "LSR", "LS", "LS", "BE", "BE", "SYSTEM", "weird"}).Draw(t, "label")
		p.KubeQoS = rapid.SampledFrom([]corev1.PodQOSClass{corev1.PodQOSGuaranteed, corev1.PodQOSBurstable, corev1.PodQOSBurstable, corev1.PodQOSBestEffort}).Draw(t, "kubeQoS")
		if p.Label == "BE" && rapid.IntRange(0, 3).Draw(t, "beIsKubeBE") > 0 {
			p.KubeQoS = corev1.PodQOSBestEffort
		}
		p.SetStatus = rapid.IntRange(0, 3).Draw(t, "statusQoS") > 0
		p.HasMeta = rapid.IntRange(0, 5).Draw(t, "hasMeta") > 0
		p.HasMetric = rapid.IntRange(0, 5).Draw(t, "hasMetric") > 0
		if p.HasMetric {
			p.Usage = c10GenUsage(t, perPod, "podUsage")
		}
		bc.Pods = append(bc.Pods, p)
	}
	nApps := rapid.IntRange(0, 3).Draw(t, "nHostApps")
	for i := 0; i < nApps; i++ {
		h := c10HostApp{Name: fmt.Sprintf("app-%d", i)}
		h.QoS = rapid.SampledFrom([]string{"", "LS", "BE", "BE", "LSR"}).Draw(t, "appQoS")
		h.Base = rapid.SampledFrom([]string{"", string(slov1alpha1.CgroupBaseTypeKubeBesteffort), string(slov1alpha1.CgroupBaseTypeKubeBesteffort),
			string(slov1alpha1.CgroupBaseTypeKubepods), string(slov1alpha1.CgroupBaseTypeRoot)}).Draw(t, "appBase")
		h.HasMetric = rapid.IntRange(0, 4).Draw(t, "appHasMetric") > 0
		if h.HasMetric {
			h.Usage = c10GenUsage(t, capF/4, "appUsage")
		}
		bc.Apps = append(bc.Apps, h)
	}
	var sum float64
	for _, p := range bc.Pods {
		sum += p.Usage
	}
	for _, h := range bc.Apps {
		sum += h.Usage
	}
	switch rapid.IntRange(-2, 3).Draw(t, "nodeUsedKind") {
	case -2, -1, 0: // pods + some system usage
		bc.NodeUsed = sum + c10GenUsage(t, capF/2, "sysUsage")
	case 1: // stale node metric below the pod sum: system usage clamps at zero
		bc.NodeUsed = sum * rapid.Float64Range(0, 1).Draw(t, "nodeUsedFrac")
	case 2:
		bc.NodeUsed = sum
	default:
		bc.NodeUsed = rapid.Float64Range(0, capF*1.5).Draw(t, "nodeUsedFree")
	}
	return bc
}

func (bc c10BudgetCase) build() (*corev1.Node, map[string]float64, []*statesinformer.PodMeta, []slov1alpha1.HostApplicationSpec, map[string]float64) {
	node := &corev1.Node{ObjectMeta: metav1.ObjectMeta{Name: "n"}}
	node.Status.Capacity = corev1.ResourceList{corev1.ResourceCPU: *resource.NewMilliQuantity(bc.CapMilli, resource.DecimalSI), corev1.ResourceMemory: resource.MustParse("64Gi")}
	node.Status.Allocatable = corev1.ResourceList{corev1.ResourceCPU: *resource.NewMilliQuantity(bc.AllocMilli, resource.DecimalSI),
		corev1.ResourceMemory: *resource.NewQuantity((64*1024-int64(bc.KubeMemResMi))<<20, resource.BinarySI)}
	mem, memOnly := "", ""
	if bc.AnnoMemMi > 0 {
		mem = fmt.Sprintf(`,"memory":"%dMi"`, bc.AnnoMemMi)
		memOnly = fmt.Sprintf(`"resources":{"memory":"%dMi"},`, bc.AnnoMemMi)
	}
	switch bc.AnnoKind {
	case "resources":
		node.Annotations = map[string]string{apiext.AnnotationNodeReservation: fmt.Sprintf(`{"resources":{"cpu":"%dm"%s}}`, bc.AnnoResMilli, mem)}
	case "cpus":
		node.Annotations = map[string]string{apiext.AnnotationNodeReservation: fmt.Sprintf(`{%s"reservedCPUs":"0-%d"}`, memOnly, bc.AnnoCPUs-1)}
	case "both":
		node.Annotations = map[string]string{apiext.AnnotationNodeReservation: fmt.Sprintf(`{"resources":{"cpu":"%dm"%s},"reservedCPUs":"0-%d"}`, bc.AnnoResMilli, mem, bc.AnnoCPUs-1)}
	case "memory-only":
		node.Annotations = map[string]string{apiext.AnnotationNodeReservation: fmt.Sprintf(`{"resources":{"memory":"%dMi"}}`, bc.AnnoMemMi)}
	case "bad":
		node.Annotations = map[string]string{apiext.AnnotationNodeReservation: `{"resources":`}
	}
	podMetrics := map[string]float64{}
	var metas []*statesinformer.PodMeta
	for _, p := range bc.Pods {
		if p.HasMetric {
			podMetrics[p.UID] = p.Usage
		}
		if !p.HasMeta {
			continue
		}
		pod := &corev1.Pod{ObjectMeta: metav1.ObjectMeta{Name: p.UID, Namespace: "default", UID: types.UID(p.UID)}}
		if p.Label != "" {
			pod.Labels = map[string]string{apiext.LabelPodQoS: p.Label}
		}
		ctr := corev1.Container{Name: "c"}
		switch p.KubeQoS {
		case corev1.PodQOSGuaranteed:
			rl := corev1.ResourceList{corev1.ResourceCPU: resource.MustParse("1"), corev1.ResourceMemory: resource.MustParse("1Gi")}
			ctr.Resources = corev1.ResourceRequirements{Requests: rl, Limits: rl.DeepCopy()}
		case corev1.PodQOSBurstable:
			ctr.Resources = corev1.ResourceRequirements{Requests: corev1.ResourceList{corev1.ResourceCPU: resource.MustParse("500m")}}
		default: // best effort: only extended (batch) resources, as koordinator BE pods have
			rl := corev1.ResourceList{apiext.BatchCPU: resource.MustParse("1000"), apiext.BatchMemory: resource.MustParse("1Gi")}
			ctr.Resources = corev1.ResourceRequirements{Requests: rl, Limits: rl.DeepCopy()}
		}
		pod.Spec.Containers = []corev1.Container{ctr}
		if p.SetStatus {
			pod.Status.QOSClass = p.KubeQoS
		}
		metas = append(metas, &statesinformer.PodMeta{Pod: pod})
	}
	var apps []slov1alpha1.HostApplicationSpec
	appMetrics := map[string]float64{}
	for _, h := range bc.Apps {
		spec := slov1alpha1.HostApplicationSpec{Name: h.Name, QoS: apiext.QoSClass(h.QoS)}
		if h.Base != "" {
			spec.CgroupPath = &slov1alpha1.CgroupPath{Base: slov1alpha1.CgroupBaseType(h.Base), RelativePath: h.Name}
		}
		apps = append(apps, spec)
		if h.HasMetric {
			appMetrics[h.Name] = h.Usage
		}
	}
	return node, podMetrics, metas, apps, appMetrics
}

func c10Rat(f float64) *big.Rat { return new(big.Rat).SetFloat64(f) }

// expected returns the exact value (milli-cores) of the statement's formula and a few facts about the case.
func (bc c10BudgetCase) expected() (exp *big.Rat, floored, sysAtReserved, sysClampedZero bool) {
	nonBE, all := new(big.Rat), new(big.Rat)
	for _, p := range bc.Pods {
		if !p.HasMetric {
			continue
		}
		u := c10Rat(p.Usage)
		all.Add(all, u)
		if !p.HasMeta || !p.isBE() { // usage of a pod the agent does not know counts as non-BE
			nonBE.Add(nonBE, u)
		}
	}
	appNonBE, appAll := new(big.Rat), new(big.Rat)
	for _, h := range bc.Apps {
		if !h.HasMetric {
			continue
		}
		u := c10Rat(h.Usage)
		appAll.Add(appAll, u)
		if !h.isBE() {
			appNonBE.Add(appNonBE, u)
		}
	}
	// node reservation (cores): max(capacity-allocatable, annotation); reservedCPUs override the annotated quantity
	resMilli := bc.CapMilli - bc.AllocMilli
	if resMilli < 0 {
		resMilli = 0
	}
	anno := int64(0)
	switch bc.AnnoKind {
	case "resources":
		anno = bc.AnnoResMilli
	case "cpus", "both":
		anno = int64(bc.AnnoCPUs) * 1000
	}
	if anno > resMilli {
		resMilli = anno
	}
	reserved := big.NewRat(resMilli, 1000)
	sys := new(big.Rat).Sub(c10Rat(bc.NodeUsed), all)
	sys.Sub(sys, appAll)
	if sys.Sign() < 0 {
		sys.SetInt64(0)
		sysClampedZero = true
	}
	if sys.Cmp(reserved) < 0 {
		sys.Set(reserved)
		sysAtReserved = true
	}
	used := new(big.Rat).Add(nonBE, appNonBE)
	used.Add(used, sys)
	used.Mul(used, big.NewRat(1000, 1))
	exp = big.NewRat(bc.CapMilli*bc.Threshold, 100)
	exp.Sub(exp, used)
	if bc.Min != nil {
		fl := big.NewRat(bc.CapMilli**bc.Min, 100)
		if exp.Cmp(fl) < 0 {
			exp = fl
			floored = true
		}
	}
	return
}

func (bc c10BudgetCase) String() string {
	min := "nil"
	if bc.Min != nil {
		min = fmt.Sprint(*bc.Min)
	}
	return fmt.Sprintf("cap=%dm alloc=%dm kubeletReservedMem=%dMi anno=%s(res=%dm cpus=%d mem=%dMi) thr=%d%% min=%s nodeUsed=%v pods=%+v hostApps=%+v",
		bc.CapMilli, bc.AllocMilli, bc.KubeMemResMi, bc.AnnoKind, bc.AnnoResMilli, bc.AnnoCPUs, bc.AnnoMemMi, bc.Threshold, min, bc.NodeUsed, bc.Pods, bc.Apps)
}

func c10CallBudget(r *CPUSuppress, bc c10BudgetCase) (milli int64, panicked any) {
	defer func() {
		if p := recover(); p != nil {
			panicked = p
		}
	}()
	node, pm, metas, apps, am := bc.build()
	q := r.calculateBESuppressCPU(node, bc.NodeUsed, pm, metas, apps, am, bc.Threshold, bc.Min)
	return q.MilliValue(), nil
}

func TestVerifC10Budget(t *testing.T) {
	c10Quiet()
	rec := vk.New(t, "C10", "budget")
	rec.Note("tolerance", "computed - exact in [-1.001, +3.001] milli-cores (one integer division, three int64(x*1000) truncations); monotonicity slack 3 milli-cores")
	r := &CPUSuppress{}
	rapid.Check(t, func(t *rapid.T) {
		c := rec.Begin()
		defer c.End()
		bc := c10GenBudgetCase(t)
		got, pnc := c10CallBudget(r, bc)
		if pnc != nil {
			c.Violation(t, "budget:panic", "calculateBESuppressCPU panicked: %v; case: %s", pnc, bc)
			return
		}
		exp, floored, sysAtReserved, sysZero := bc.expected()
		var nNonBE, nBE, nMissingMeta, nAppBE, nAppNonBE int
		for _, p := range bc.Pods {
			switch {
			case !p.HasMetric:
			case !p.HasMeta:
				nMissingMeta++
			case p.isBE():
				nBE++
			default:
				nNonBE++
			}
		}
		for _, h := range bc.Apps {
			if h.HasMetric && h.isBE() {
				nAppBE++
			} else if h.HasMetric {
				nAppNonBE++
			}
		}
		c.ClassIf(floored, "floored-by-min-percent")
		c.ClassIf(bc.Min == nil, "no-min-percent")
		c.ClassIf(got < 0, "negative-budget")
		c.ClassIf(got < 2000, "budget-below-2-cpus")
		c.ClassIf(sysAtReserved, "system-at-node-reservation")
		c.ClassIf(sysZero, "system-usage-clamped-at-zero")
		c.ClassIf(nMissingMeta > 0, "metric-of-unknown-pod")
		c.ClassIf(nAppBE > 0, "be-host-app")
		c.ClassIf(nAppNonBE > 0, "non-be-host-app")
		c.ClassIf(bc.CapMilli%1000 != 0, "fractional-capacity")
		c.Class("reservation-anno:" + bc.AnnoKind)
		{
			kubeCPU := bc.CapMilli - bc.AllocMilli
			annoCPU, hasAnno := int64(0), true
			switch bc.AnnoKind {
			case "resources":
				annoCPU = bc.AnnoResMilli
			case "cpus", "both":
				annoCPU = int64(bc.AnnoCPUs) * 1000
			case "memory-only":
			default:
				hasAnno = false
			}
			c.ClassIf(hasAnno && kubeCPU > 0, "reservation-expressed-both-ways")
			c.ClassIf(hasAnno && annoCPU < kubeCPU && bc.AnnoMemMi > bc.KubeMemResMi, "reservation-lists-incomparable(anno: less cpu, more memory)")
			c.ClassIf(hasAnno && annoCPU > kubeCPU && bc.AnnoMemMi < bc.KubeMemResMi, "reservation-lists-incomparable(anno: more cpu, less memory)")
			c.ClassIf(hasAnno && annoCPU < kubeCPU && bc.AnnoMemMi > bc.KubeMemResMi && sysAtReserved, "incomparable-reservation-floors-system-usage")
		}
		if nNonBE > 0 && nBE > 0 && !floored {
			c.NonTrivial(bc.String())
		}
		c.Sample(map[string]any{"case": bc.String(), "budgetMilli": got, "exactMilli": exp.FloatString(3)})

		diff := new(big.Rat).Sub(big.NewRat(got, 1), exp)
		lo, hi := big.NewRat(-1001, 1000), big.NewRat(3001, 1000)
		if diff.Cmp(lo) < 0 || diff.Cmp(hi) > 0 {
			if c.Violation(t, "budget:formula-mismatch", "budget %dm, statement's formula gives %sm (diff %sm outside [-1.001,3.001]); case: %s",
				got, exp.FloatString(4), diff.FloatString(4), bc) {
				return
			}
		}

		// metamorphic: some non-BE consumption grows -> the budget does not grow
		bc2 := bc
		bc2.Pods = append([]c10BPod(nil), bc.Pods...)
		bc2.Apps = append([]c10HostApp(nil), bc.Apps...)
		capF := float64(bc.CapMilli) / 1000
		d := rapid.OneOf(rapid.Float64Range(0.0005, 0.01), rapid.Float64Range(0.01, 1), rapid.Float64Range(0.01, capF+1)).Draw(t, "growth")
		var nonBEPodIdx, nonBEAppIdx []int
		for i, p := range bc.Pods {
			if p.HasMetric && (!p.HasMeta || !p.isBE()) {
				nonBEPodIdx = append(nonBEPodIdx, i)
			}
		}
		for i, h := range bc.Apps {
			if h.HasMetric && !h.isBE() {
				nonBEAppIdx = append(nonBEAppIdx, i)
			}
		}
		kinds := []string{"system-usage", "node-reservation"}
		if len(nonBEPodIdx) > 0 {
			kinds = append(kinds, "pod", "pod", "pod-node-metric-held")
		}
		if len(nonBEAppIdx) > 0 {
			kinds = append(kinds, "host-app", "host-app-node-metric-held")
		}
		kind := rapid.SampledFrom(kinds).Draw(t, "growthKind")
		switch kind {
		case "system-usage":
			bc2.NodeUsed += d
		case "node-reservation":
			bc2.AllocMilli -= int64(d * 1000)
			if bc2.AllocMilli < 0 {
				bc2.AllocMilli = 0
			}
		case "pod", "pod-node-metric-held":
			i := rapid.SampledFrom(nonBEPodIdx).Draw(t, "growPod")
			bc2.Pods[i].Usage += d
			if kind == "pod" {
				bc2.NodeUsed += d
			}
		case "host-app", "host-app-node-metric-held":
			i := rapid.SampledFrom(nonBEAppIdx).Draw(t, "growApp")
			bc2.Apps[i].Usage += d
			if kind == "host-app" {
				bc2.NodeUsed += d
			}
		}
		c.Class("growth:" + kind)
		got2, pnc2 := c10CallBudget(r, bc2)
		if pnc2 != nil {
			c.Violation(t, "budget:panic", "calculateBESuppressCPU panicked: %v; case: %s", pnc2, bc2)
			return
		}
		c.ClassIf(got2 < got, "growth-shrinks-budget")
		if got2 > got+3 {
			c.Violation(t, "budget:grows-with-non-be-usage", "budget rose from %dm to %dm when %s grew by %v cores; before: %s; after: %s", got, got2, kind, d, bc, bc2)
			return
		}
	})
}

// ---------------------------------------------------------------- (2) calculateBESuppressCPUSetPolicy

func c10SubProcs(t *rapid.T, ps []koordletutil.ProcessorInfo, label string) []koordletutil.ProcessorInfo {
	thr := rapid.SampledFrom([]int{8, 8, 7, 4, 1, 0}).Draw(t, label+"Density")
	if thr == 8 {
		return append([]koordletutil.ProcessorInfo(nil), ps...)
	}
	mask := rapid.SliceOfN(rapid.IntRange(0, 7), len(ps), len(ps)).Draw(t, label+"Mask")
	var out []koordletutil.ProcessorInfo
	for i, p := range ps {
		if mask[i] < thr {
			out = append(out, p)
		}
	}
	return out
}

func c10ProcShape(ps []koordletutil.ProcessorInfo) (buckets int, oddCore bool) {
	type key struct{ n, s int32 }
	b := map[key]bool{}
	perCore := map[int32]int{}
	for _, p := range ps {
		b[key{p.NodeID, p.SocketID}] = true
		perCore[p.CoreID]++
	}
	for _, n := range perCore {
		if n%2 == 1 {
			oddCore = true
		}
	}
	return len(b), oddCore
}

func TestVerifC10SetPolicy(t *testing.T) {
	c10Quiet()
	rec := vk.New(t, "C10", "setPolicy")
	rapid.Check(t, func(t *rapid.T) {
		c := rec.Begin()
		defer c.End()
		tp := c10GenTopo(t)
		sub := c10SubProcs(t, tp.Procs, "avail")
		n := len(sub)
		want := rapid.OneOf(rapid.IntRange(1, n+2), rapid.SampledFrom([]int{1, 2, 3, n - 1, n, n + 1})).Draw(t, "want")
		if want < 1 {
			want = 1
		}
		var got []int32
		var pnc any
		func() {
			defer func() { pnc = recover() }()
			got = calculateBESuppressCPUSetPolicy(int32(want), append([]koordletutil.ProcessorInfo(nil), sub...))
		}()
		subIDs := make([]int, 0, n)
		for _, p := range sub {
			subIDs = append(subIDs, int(p.CPUID))
		}
		buckets, odd := c10ProcShape(sub)
		c.ClassIf(want <= n, "enough-cpus")
		c.ClassIf(want > n, "not-enough-cpus")
		c.ClassIf(want == n, "want-all")
		c.ClassIf(n == 0, "empty-list")
		c.ClassIf(buckets > 1, "multi-numa-or-socket")
		c.ClassIf(odd, "core-with-odd-thread-count")
		c.ClassIf(len(tp.Offline) > 0, "offline-cpus")
		c.ClassIf(tp.Threads == 1, "no-smt")
		c.ClassIf(want%2 == 1, "odd-want")
		if want >= 3 && want <= n && (buckets > 1 || odd) {
			c.NonTrivial(tp.String(), subIDs, want)
		}
		c.Sample(map[string]any{"topo": tp.String(), "available": c10FmtSet(subIDs), "want": want, "result": fmt.Sprint(got)})
		if pnc != nil {
			c.Violation(t, "policy:panic", "calculateBESuppressCPUSetPolicy(%d, ...) panicked: %v; available=%v %s", want, pnc, subIDs, tp)
			return
		}
		in := c10SetOf(subIDs)
		seen := map[int]bool{}
		for _, id := range got {
			if seen[int(id)] {
				c.Violation(t, "policy:duplicate-cpu", "cpu %d twice in %v (want %d of %v) %s", id, got, want, subIDs, tp)
				return
			}
			seen[int(id)] = true
			if !in[int(id)] {
				c.Violation(t, "policy:cpu-not-in-list", "cpu %d of %v is not among the offered processors %v; %s", id, got, subIDs, tp)
				return
			}
		}
		if len(got) > want {
			c.Violation(t, "policy:more-than-asked", "asked %d, got %d: %v of %v; %s", want, len(got), got, subIDs, tp)
			return
		}
		if want <= n && len(got) != want {
			c.Violation(t, "policy:fewer-than-asked-though-enough", "asked %d of %d offered processors, got %d: %v of %v; %s", want, n, len(got), got, subIDs, tp)
			return
		}
	})
}

// ---------------------------------------------------------------- (3) adjustByCPUSet end to end

type c10Informer struct {
	statesinformer.StatesInformer // nil: any method not overridden below would panic, none is used by the code under test
	pods                          []*statesinformer.PodMeta
	topo                          *topov1alpha1.NodeResourceTopology
	node                          *corev1.Node
	slo                           *slov1alpha1.NodeSLO
}

func (f *c10Informer) GetAllPods() []*statesinformer.PodMeta             { return f.pods }
func (f *c10Informer) GetNodeTopo() *topov1alpha1.NodeResourceTopology { return f.topo }
func (f *c10Informer) GetNode() *corev1.Node                           { return f.node }
func (f *c10Informer) GetNodeSLO() *slov1alpha1.NodeSLO                { return f.slo }

type c10MetricCache struct {
	metriccache.MetricCache
	info *metriccache.NodeCPUInfo
}

func (f *c10MetricCache) Get(key interface{}) (interface{}, bool) {
	if key == metriccache.NodeCPUInfoKey {
		return f.info, true
	}
	return nil, false
}

// the time series side is served by c10ResultFactory (installed as metriccache.DefaultAggregateResultFactory): queries are no-ops
func (f *c10MetricCache) Querier(_, _ time.Time) (metriccache.Querier, error) { return c10Querier{}, nil }

type c10Querier struct{}

func (c10Querier) Query(metriccache.MetricMeta, *metriccache.QueryHints, metriccache.MetricResult) error {
	return nil
}
func (c10Querier) QueryAndClose(metriccache.MetricMeta, *metriccache.QueryHints, metriccache.MetricResult) error {
	return nil
}
func (c10Querier) Close() {}

type c10AggResult struct {
	metriccache.AggregateResult
	has bool
	v   float64
}

func (r *c10AggResult) Count() int {
	if r.has {
		return 1
	}
	return 0
}
func (r *c10AggResult) Value(metriccache.AggregationType) (float64, error) {
	if !r.has {
		return 0, fmt.Errorf("no sample")
	}
	return r.v, nil
}

func c10MetaKey(m metriccache.MetricMeta) string {
	props := m.GetProperties()
	return m.GetKind() + "|" + fmt.Sprint(vk.SortedKeys(props)) + "|" + func() string {
		var vs []string
		for _, k := range vk.SortedKeys(props) {
			vs = append(vs, props[k])
		}
		return strings.Join(vs, ",")
	}()
}

// c10ResultFactory answers every metric query with the "latest" value the harness put in values.
type c10ResultFactory struct{ values map[string]float64 }

func (f *c10ResultFactory) New(meta metriccache.MetricMeta) metriccache.AggregateResult {
	v, ok := f.values[c10MetaKey(meta)]
	return &c10AggResult{has: ok, v: v}
}

// c10Exec passes everything to the real executor and remembers which files the plugin tried to update.
type c10Exec struct {
	inner    resourceexecutor.ResourceUpdateExecutor
	attempts map[string]int
}

func (e *c10Exec) note(u resourceexecutor.ResourceUpdater) { e.attempts[u.Path()]++ }
func (e *c10Exec) Update(cacheable bool, u resourceexecutor.ResourceUpdater) (bool, error) {
	e.note(u)
	return e.inner.Update(cacheable, u)
}
func (e *c10Exec) UpdateBatch(cacheable bool, us ...resourceexecutor.ResourceUpdater) {
	for _, u := range us {
		e.note(u)
	}
	e.inner.UpdateBatch(cacheable, us...)
}
func (e *c10Exec) LeveledUpdateBatch(us [][]resourceexecutor.ResourceUpdater) {
	for _, l := range us {
		for _, u := range l {
			e.note(u)
		}
	}
	e.inner.LeveledUpdateBatch(us)
}
func (e *c10Exec) Run(stopCh <-chan struct{}) { e.inner.Run(stopCh) }

func c10NewExec() *c10Exec {
	return &c10Exec{inner: &resourceexecutor.ResourceUpdateExecutorImpl{Config: resourceexecutor.NewDefaultConfig(), ResourceCache: cache.NewCacheDefault()},
		attempts: map[string]int{}}
}

func c10WriteFile(path, content string) error {
	if err := os.MkdirAll(filepath.Dir(path), 0o777); err != nil {
		return err
	}
	return os.WriteFile(path, []byte(content), 0o644)
}

type c10CgFS struct {
	v2 bool
}

func (f c10CgFS) cpusetFile(dir string) string {
	if f.v2 {
		return system.CPUSetV2.Path(dir)
	}
	return system.CPUSet.Path(dir)
}

// the file the agent reads the current cpuset from
func (f c10CgFS) cpusetReadFile(dir string) string {
	if f.v2 {
		return system.CPUSetEffectiveV2.Path(dir)
	}
	return system.CPUSet.Path(dir)
}

func (f c10CgFS) writeCPUSet(dir, content string) error {
	if err := c10WriteFile(f.cpusetFile(dir), content); err != nil {
		return err
	}
	if f.v2 {
		return c10WriteFile(f.cpusetReadFile(dir), content)
	}
	return nil
}

func (f c10CgFS) quotaFile(dir string) string {
	if f.v2 {
		return system.CPUCFSQuotaV2.Path(dir)
	}
	return system.CPUCFSQuota.Path(dir)
}

func c10ReadTrim(path string) (string, error) {
	b, err := os.ReadFile(path)
	return strings.Trim(string(b), "\n"), err
}

type c10SPod struct {
	Name string
	QoS  string // label value, "" = none
	CPUs []int
	Anno string // "ok", "none", "badjson", "badcpuset"
}

func (p c10SPod) String() string {
	return fmt.Sprintf("%s[%s cpus=%s anno=%s]", p.Name, p.QoS, c10FmtSet(p.CPUs), p.Anno)
}

type c10Scenario struct {
	Topo         c10Topo
	V2           bool
	Policy       string // "", "none", "static"
	NoTopo       bool
	Pods         []c10SPod
	Reserved     []int
	ReservedRes  bool // reservation annotation also/only carries a cpu quantity
	HasReserved  bool
	System       []int
	HasSystem    bool
	SystemExcl   string // "default", "true", "false"
	BEDirs       []string
	BEContainers []string
	Old          []int
	Mode         string
}

func (s c10Scenario) String() string {
	var pods []string
	for _, p := range s.Pods {
		pods = append(pods, p.String())
	}
	return fmt.Sprintf("mode=%s cgroupV2=%v kubeletPolicy=%q noTopo=%v pods=%v reserved=%q(anno=%v,withQuantity=%v) systemQOS=%q(anno=%v,exclusive=%s) bePodDirs=%v beContainerDirs=%v oldBECPUSet=%q %s",
		s.Mode, s.V2, s.Policy, s.NoTopo, pods, c10FmtSet(s.Reserved), s.HasReserved, s.ReservedRes, c10FmtSet(s.System), s.HasSystem, s.SystemExcl,
		s.BEDirs, s.BEContainers, c10FmtSet(s.Old), s.Topo)
}

func c10TakeChunk(t *rapid.T, pool *[]int, max int, label string) []int {
	if max > len(*pool) {
		max = len(*pool)
	}
	k := rapid.IntRange(0, max).Draw(t, label)
	out := append([]int(nil), (*pool)[:k]...)
	*pool = (*pool)[k:]
	return out
}

func c10MaskSubset(t *rapid.T, ids []int, label string) []int {
	thr := rapid.SampledFrom([]int{1, 4, 7}).Draw(t, label+"Density")
	mask := rapid.SliceOfN(rapid.IntRange(0, 7), len(ids), len(ids)).Draw(t, label+"Mask")
	var out []int
	for i, id := range ids {
		if mask[i] < thr {
			out = append(out, id)
		}
	}
	return out
}

func c10GenScenario(t *rapid.T) c10Scenario {
	s := c10Scenario{}
	s.Topo = c10GenTopo(t)
	ids := s.Topo.ids()
	n := len(ids)
	s.V2 = rapid.Bool().Draw(t, "cgroupV2")
	s.Policy = rapid.SampledFrom([]string{"", "none", "none", "static", "static"}).Draw(t, "kubeletPolicy")
	s.NoTopo = rapid.IntRange(0, 59).Draw(t, "noTopo") == 59
	s.Mode = rapid.SampledFrom([]string{"normal", "normal", "normal", "normal", "normal", "all-protected", "nearly-all-protected", "exclusive-heavy"}).Draw(t, "mode")

	// carve exclusive owners out of the CPU ids: LSE pods, LSR pods, node-reserved, system-QoS; each CPU has at most one of them
	pool := append([]int(nil), ids...)
	if rapid.Bool().Draw(t, "scatteredOwnership") {
		pool = rapid.Permutation(ids).Draw(t, "carveOrder")
	}
	chunk := n / 4
	if chunk < 1 {
		chunk = 1
	}
	if chunk > 4 {
		chunk = 4
	}
	if s.Mode == "exclusive-heavy" {
		chunk = n
	}
	nLSE := rapid.IntRange(0, 3).Draw(t, "nLSE")
	nLSR := rapid.IntRange(0, 3).Draw(t, "nLSR")
	for i := 0; i < nLSE; i++ {
		s.Pods = append(s.Pods, c10SPod{Name: fmt.Sprintf("lse%d", i), QoS: "LSE", CPUs: c10TakeChunk(t, &pool, chunk, "lseSize"), Anno: "ok"})
	}
	for i := 0; i < nLSR; i++ {
		s.Pods = append(s.Pods, c10SPod{Name: fmt.Sprintf("lsr%d", i), QoS: "LSR", CPUs: c10TakeChunk(t, &pool, chunk, "lsrSize"), Anno: "ok"})
	}
	s.HasReserved = rapid.Bool().Draw(t, "hasReserved")
	if s.HasReserved {
		s.Reserved = c10TakeChunk(t, &pool, chunk, "reservedSize")
		s.ReservedRes = rapid.Bool().Draw(t, "reservedWithQuantity")
	}
	s.HasSystem = rapid.Bool().Draw(t, "hasSystemQOS")
	if s.HasSystem {
		s.System = c10TakeChunk(t, &pool, chunk, "systemSize")
		s.SystemExcl = rapid.SampledFrom([]string{"default", "true", "false"}).Draw(t, "systemExclusive")
	}
	if s.Mode == "all-protected" || s.Mode == "nearly-all-protected" {
		leave := 0
		if s.Mode == "nearly-all-protected" {
			leave = c10Min(rapid.IntRange(1, 3).Draw(t, "leaveEligible"), len(pool))
		}
		rest := append([]int(nil), pool[:len(pool)-leave]...)
		pool = pool[len(pool)-leave:]
		// the LSR pods' CPUs are eligible; in these modes turn the LSR pods into LSE pods so that only `leave` CPUs stay eligible
		for i := range s.Pods {
			if s.Pods[i].QoS == "LSR" {
				s.Pods[i].QoS = "LSE"
			}
		}
		if s.HasSystem && s.SystemExcl == "false" {
			s.SystemExcl = "true"
		}
		a := rapid.IntRange(0, len(rest)).Draw(t, "restCutA")
		b := rapid.IntRange(a, len(rest)).Draw(t, "restCutB")
		toReserved, toSystem, toLSE := rest[:a], rest[a:b], rest[b:]
		if !s.HasReserved {
			toLSE = append(append([]int(nil), toLSE...), toReserved...)
			toReserved = nil
		}
		if !s.HasSystem {
			toLSE = append(append([]int(nil), toLSE...), toSystem...)
			toSystem = nil
		}
		s.Reserved = append(s.Reserved, toReserved...)
		s.System = append(s.System, toSystem...)
		if len(toLSE) > 0 {
			s.Pods = append(s.Pods, c10SPod{Name: "lse-rest", QoS: "LSE", CPUs: append([]int(nil), toLSE...), Anno: "ok"})
		}
	}
	// stale ids that do not exist on the node may appear in the node-level annotations
	if rapid.IntRange(0, 7).Draw(t, "staleIDs") == 0 {
		extra := ids[n-1] + 1 + rapid.IntRange(0, 3).Draw(t, "staleOffset")
		if s.HasReserved {
			s.Reserved = append(s.Reserved, extra)
		} else if s.HasSystem {
			s.System = append(s.System, extra)
		}
	}
	// other pods; their cpuset annotation (cpu-share pool / BE cpu manager) never covers an LSE-owned CPU
	lseOwned := map[int]bool{}
	for _, p := range s.Pods {
		if p.QoS == "LSE" {
			for _, id := range p.CPUs {
				lseOwned[id] = true
			}
		}
	}
	var nonLSE []int
	for _, id := range ids {
		if !lseOwned[id] {
			nonLSE = append(nonLSE, id)
		}
	}
	nOther := rapid.IntRange(0, 3).Draw(t, "nOtherPods")
	for i := 0; i < nOther; i++ {
		p := c10SPod{Name: fmt.Sprintf("other%d", i)}
		p.QoS = rapid.SampledFrom([]string{"LS", "LS", "BE", "BE", "", "SYSTEM"}).Draw(t, "otherQoS")
		p.Anno = rapid.SampledFrom([]string{"ok", "ok", "ok", "none", "none", "badjson", "badcpuset"}).Draw(t, "otherAnno")
		if p.Anno == "ok" {
			p.CPUs = c10MaskSubset(t, nonLSE, "otherCPUs")
		}
		s.Pods = append(s.Pods, p)
	}
	if len(s.Pods) > 1 {
		s.Pods = rapid.Permutation(s.Pods).Draw(t, "podOrder")
	}
	// BE cgroup directories
	nBE := rapid.IntRange(0, 2).Draw(t, "nBEPodDirs")
	for i := 0; i < nBE; i++ {
		pd := fmt.Sprintf("pod%d", i)
		s.BEDirs = append(s.BEDirs, pd)
		nc := rapid.IntRange(0, 2).Draw(t, "nContainers")
		for j := 0; j < nc; j++ {
			s.BEContainers = append(s.BEContainers, filepath.Join(pd, fmt.Sprintf("ctr%d", j)))
		}
	}
	if s.Policy == "static" && len(s.BEContainers) == 0 && rapid.IntRange(0, 3).Draw(t, "forceContainer") > 0 {
		if len(s.BEDirs) == 0 {
			s.BEDirs = append(s.BEDirs, "pod0")
		}
		s.BEContainers = append(s.BEContainers, filepath.Join(s.BEDirs[0], "ctr0"))
	}
	// cpuset the BE cgroups hold before the round
	switch rapid.IntRange(0, 6).Draw(t, "oldKind") {
	case 0:
		s.Old = nil
	case 1:
		s.Old = append([]int(nil), ids...)
	case 2:
		s.Old = append([]int(nil), pool...) // roughly the unowned CPUs
	case 3:
		k := c10Min(n, rapid.IntRange(1, 3).Draw(t, "oldSmall"))
		s.Old = append([]int(nil), rapid.Permutation(ids).Draw(t, "oldPick")[:k]...)
	default:
		s.Old = c10MaskSubset(t, ids, "old")
	}
	return s
}

func (s c10Scenario) protected() (lse, reserved, sysExcl map[int]bool) {
	lse, reserved, sysExcl = map[int]bool{}, map[int]bool{}, map[int]bool{}
	for _, p := range s.Pods {
		if p.QoS == "LSE" && p.Anno == "ok" {
			for _, id := range p.CPUs {
				lse[id] = true
			}
		}
	}
	if s.HasReserved {
		reserved = c10SetOf(s.Reserved)
	}
	if s.HasSystem && s.SystemExcl != "false" {
		sysExcl = c10SetOf(s.System)
	}
	return
}

func (s c10Scenario) hasOwners() (hasLSE, hasLSR bool) {
	for _, p := range s.Pods {
		if p.QoS == "LSE" && len(p.CPUs) > 0 {
			hasLSE = true
		}
		if p.QoS == "LSR" && len(p.CPUs) > 0 {
			hasLSR = true
		}
	}
	return
}

func (s c10Scenario) buildInformer() *c10Informer {
	inf := &c10Informer{}
	for i, p := range s.Pods {
		pod := &corev1.Pod{ObjectMeta: metav1.ObjectMeta{Name: p.Name, Namespace: "default", UID: types.UID(fmt.Sprintf("uid-%d", i))}}
		if p.QoS != "" {
			pod.Labels = map[string]string{apiext.LabelPodQoS: p.QoS}
		}
		switch p.Anno {
		case "ok":
			b, _ := json.Marshal(apiext.ResourceStatus{CPUSet: c10FmtSet(p.CPUs)})
			pod.Annotations = map[string]string{apiext.AnnotationResourceStatus: string(b)}
		case "badjson":
			pod.Annotations = map[string]string{apiext.AnnotationResourceStatus: `{"cpuset":`}
		case "badcpuset":
			pod.Annotations = map[string]string{apiext.AnnotationResourceStatus: `{"cpuset":"1-x"}`}
		}
		inf.pods = append(inf.pods, &statesinformer.PodMeta{Pod: pod, CgroupDir: "kubepods/" + p.Name})
	}
	if s.NoTopo {
		return inf
	}
	topo := &topov1alpha1.NodeResourceTopology{ObjectMeta: metav1.ObjectMeta{Name: "n", UID: "nrt-uid", Generation: 1}}
	anno := map[string]string{}
	if s.HasReserved {
		nr := apiext.NodeReservation{ReservedCPUs: c10FmtSet(s.Reserved)}
		if s.ReservedRes {
			nr.Resources = corev1.ResourceList{corev1.ResourceCPU: *resource.NewQuantity(int64(len(s.Reserved)), resource.DecimalSI)}
		}
		b, _ := json.Marshal(nr)
		anno[apiext.AnnotationNodeReservation] = string(b)
	}
	if s.HasSystem {
		sq := apiext.SystemQOSResource{CPUSet: c10FmtSet(s.System)}
		switch s.SystemExcl {
		case "true":
			v := true
			sq.CPUSetExclusive = &v
		case "false":
			v := false
			sq.CPUSetExclusive = &v
		}
		b, _ := json.Marshal(sq)
		anno[apiext.AnnotationNodeSystemQOSResource] = string(b)
	}
	if s.Policy != "" {
		b, _ := json.Marshal(apiext.KubeletCPUManagerPolicy{Policy: s.Policy})
		anno[apiext.AnnotationKubeletCPUManagerPolicy] = string(b)
	}
	if len(anno) > 0 {
		topo.Annotations = anno
	}
	inf.topo = topo
	return inf
}

func c10GenBudgetMilli(t *rapid.T, eligible, oldN, n, step int) int64 {
	around := func(k int) int64 {
		return int64(k)*1000 + int64(rapid.SampledFrom([]int{-1000, -1, 0, 0, 1, 1000}).Draw(t, "delta"))
	}
	switch rapid.IntRange(0, 13).Draw(t, "budgetKind") {
	case 0:
		return -int64(rapid.IntRange(0, 5000).Draw(t, "negBudget"))
	case 1:
		return int64(rapid.IntRange(0, 2001).Draw(t, "tinyBudget"))
	case 10, 11:
		return int64(rapid.IntRange(c10Min(2000, n*1000), n*1000).Draw(t, "midBudget"))
	case 2:
		return around(eligible)
	case 3:
		return around(oldN + step)
	case 4:
		return around(n)
	case 5:
		return int64(rapid.IntRange(0, n+2).Draw(t, "wholeCPUs")) * 1000
	case 6:
		if rapid.Bool().Draw(t, "veryHuge") {
			return 1 << 30
		}
		return int64(rapid.IntRange(n*1000, 4*n*1000).Draw(t, "hugeBudget"))
	default:
		return int64(rapid.IntRange(0, n*1000).Draw(t, "budgetMilli"))
	}
}

// c10Target restates the size rule: max(2, ceil(budget)) but at most |old| + ceil(10% of the processors).
func c10Target(milli int64, oldN, n int) (want, unlimited, step int) {
	ceil := milli / 1000
	if milli > 0 && milli%1000 != 0 {
		ceil++
	}
	if ceil > 1<<30 {
		ceil = 1 << 30
	}
	unlimited = int(ceil)
	if unlimited < c10MinCPUs {
		unlimited = c10MinCPUs
	}
	step = (n*c10StepPercent + 99) / 100
	want = unlimited
	if want-oldN > step {
		want = oldN + step
	}
	return
}

// c10SetEnv is the cgroup tree of one case plus the oracle's view of it (which CPUs exist / are protected / eligible).
type c10SetEnv struct {
	s                             c10Scenario
	fs                            c10CgFS
	exec                          *c10Exec
	beRoot                        string
	allDirs, ctrDirs              []string // allDirs = root, pod dirs, container dirs (in this order)
	ids, eligible                 []int
	exists, lse, reserved, sysExcl map[int]bool
}

// setProtection (re)derives the oracle's protected / eligible sets from the scenario (its pods and node-level annotations).
func (env *c10SetEnv) setProtection(s c10Scenario) {
	env.s = s
	env.lse, env.reserved, env.sysExcl = s.protected()
	env.eligible = nil
	for _, id := range env.ids {
		if !env.lse[id] && !env.reserved[id] && !env.sysExcl[id] {
			env.eligible = append(env.eligible, id)
		}
	}
}

// c10MutateNodeProtection changes the reserved-CPU / system-QoS annotations of the node topology the way an operator does at
// run time (an annotation-only update: same object UID, same metadata.generation). Exclusive owners stay pairwise disjoint.
// Returns a description, "" when nothing could be changed.
func c10MutateNodeProtection(t *rapid.T, s *c10Scenario, ids []int) string {
	owned := map[int]bool{}
	for _, p := range s.Pods {
		if p.QoS == "LSE" || p.QoS == "LSR" {
			for _, id := range p.CPUs {
				owned[id] = true
			}
		}
	}
	for _, id := range s.Reserved {
		owned[id] = true
	}
	for _, id := range s.System {
		owned[id] = true
	}
	var unowned []int
	for _, id := range ids {
		if !owned[id] {
			unowned = append(unowned, id)
		}
	}
	var kinds []string
	if len(unowned) > 0 {
		kinds = append(kinds, "reserve-more", "reserve-more", "system-exclusive-more")
	}
	if len(s.Reserved) > 0 {
		kinds = append(kinds, "reserve-less")
	}
	if len(s.System) > 0 {
		kinds = append(kinds, "system-less", "system-toggle-exclusive")
	}
	if len(kinds) == 0 {
		return ""
	}
	take := func(from []int, lbl string) (picked, rest []int) {
		k := rapid.IntRange(1, c10Min(3, len(from))).Draw(t, lbl+"Count")
		off := rapid.IntRange(0, len(from)-k).Draw(t, lbl+"Offset")
		picked = append(picked, from[off:off+k]...)
		rest = append(append(rest, from[:off]...), from[off+k:]...)
		return
	}
	kind := rapid.SampledFrom(kinds).Draw(t, "annotationChange")
	switch kind {
	case "reserve-more":
		picked, _ := take(unowned, "reserve")
		s.HasReserved = true
		s.Reserved = append(append([]int(nil), s.Reserved...), picked...)
		return fmt.Sprintf("node-reservation annotation now also reserves cpus %s", c10FmtSet(picked))
	case "reserve-less":
		picked, rest := take(s.Reserved, "unreserve")
		s.Reserved = rest
		return fmt.Sprintf("node-reservation annotation no longer reserves cpus %s", c10FmtSet(picked))
	case "system-exclusive-more":
		picked, _ := take(unowned, "system")
		s.System = append(append([]int(nil), s.System...), picked...)
		if !s.HasSystem || s.SystemExcl == "false" || s.SystemExcl == "" {
			s.SystemExcl = "true"
		}
		s.HasSystem = true
		return fmt.Sprintf("system-qos annotation (exclusive) now also holds cpus %s", c10FmtSet(picked))
	case "system-less":
		picked, rest := take(s.System, "unsystem")
		s.System = rest
		return fmt.Sprintf("system-qos annotation no longer holds cpus %s", c10FmtSet(picked))
	default:
		if s.SystemExcl == "false" {
			s.SystemExcl = "true"
		} else {
			s.SystemExcl = "false"
		}
		return fmt.Sprintf("system-qos annotation cpusetExclusive=%s (cpus %s)", s.SystemExcl, c10FmtSet(s.System))
	}
}

func c10NewSetEnv(s c10Scenario, beRoot string, exec *c10Exec) *c10SetEnv {
	env := &c10SetEnv{s: s, fs: c10CgFS{v2: s.V2}, exec: exec, beRoot: beRoot}
	env.ids = s.Topo.ids()
	env.exists = c10SetOf(env.ids)
	env.setProtection(s)
	env.allDirs = append(env.allDirs, beRoot)
	for _, d := range s.BEDirs {
		env.allDirs = append(env.allDirs, filepath.Join(beRoot, d))
	}
	for _, d := range s.BEContainers {
		env.ctrDirs = append(env.ctrDirs, filepath.Join(beRoot, d))
	}
	env.allDirs = append(env.allDirs, env.ctrDirs...)
	return env
}

// prepare creates the BE cgroup directories, all holding the scenario's old cpuset.
func (env *c10SetEnv) prepare() error {
	for _, d := range env.allDirs {
		if err := env.fs.writeCPUSet(d, c10FmtSet(env.s.Old)); err != nil {
			return err
		}
	}
	return nil
}

// readOld returns the BE root cpuset as the agent will read it at the start of a round.
func (env *c10SetEnv) readOld(t *rapid.T) (string, int) {
	oldStr, err := c10ReadTrim(env.fs.cpusetReadFile(env.beRoot))
	if err != nil {
		t.Fatalf("harness: cannot read BE root cpuset: %v", err)
	}
	old, err := c10ParseList(oldStr)
	if err != nil {
		t.Fatalf("harness: cannot parse BE root cpuset %q: %v", oldStr, err)
	}
	return oldStr, len(c10SetOf(old))
}

// narrowDescendants rewrites pod / container dirs to strict, non-empty subsets of their parent's cpuset (a hierarchy-valid
// state, e.g. what an agent that crashed in the middle of a growing rewrite leaves behind). At least one dir is narrowed
// when the root holds two or more CPUs and a descendant exists. Returns the number of narrowed dirs.
func (env *c10SetEnv) narrowDescendants(t *rapid.T, rootSet []int, label string) int {
	pick := func(parent []int, lbl string) []int {
		p := append([]int(nil), parent...)
		sort.Ints(p)
		k := rapid.IntRange(1, len(p)-1).Draw(t, lbl+"Size")
		off := rapid.IntRange(0, len(p)-1).Draw(t, lbl+"Offset")
		var out []int
		for i := 0; i < k; i++ {
			out = append(out, p[(off+i)%len(p)])
		}
		return out
	}
	root := append([]int(nil), rootSet...)
	if len(c10SetOf(root)) < 2 || len(env.allDirs) < 2 {
		return 0
	}
	narrowed := 0
	sets := map[string][]int{env.beRoot: root}
	desc := env.allDirs[1:]
	for i, d := range desc {
		parent := sets[filepath.Dir(d)]
		if parent == nil {
			parent = root
		}
		set := parent
		force := narrowed == 0 && i == len(desc)-1
		if len(parent) >= 2 && (force || rapid.Bool().Draw(t, label+"Narrow")) {
			set = pick(parent, label)
			narrowed++
		}
		sets[d] = set
		if err := env.fs.writeCPUSet(d, c10FmtSet(set)); err != nil {
			t.Fatalf("harness: %v", err)
		}
	}
	return narrowed
}

func (env *c10SetEnv) treeString() string {
	var parts []string
	for _, d := range env.allDirs {
		raw, _ := c10ReadTrim(env.fs.cpusetFile(d))
		name := strings.TrimPrefix(strings.TrimPrefix(d, env.beRoot), "/")
		if name == "" {
			name = "<root>"
		}
		parts = append(parts, fmt.Sprintf("%s=%q", name, raw))
	}
	return strings.Join(parts, " ")
}

// refreshEffective does what the kernel would do on cgroup v2 after a write to cpuset.cpus.
func (env *c10SetEnv) refreshEffective() {
	if !env.s.V2 {
		return
	}
	for _, d := range env.allDirs {
		raw, _ := c10ReadTrim(env.fs.cpusetFile(d))
		_ = c10WriteFile(env.fs.cpusetReadFile(d), raw)
	}
}

func (env *c10SetEnv) read(t *rapid.T, c *vk.Case, dir, where string) (list []int, raw string, attempted bool) {
	attempted = env.exec.attempts[env.fs.cpusetFile(dir)] > 0
	raw, err := c10ReadTrim(env.fs.cpusetFile(dir))
	if err != nil {
		t.Fatalf("harness: cannot read %s: %v", dir, err)
	}
	list, err = c10ParseList(raw)
	if err != nil {
		c.Violation(t, "cpuset:unparsable-cpuset-written", "%s holds %q: %v; %s; scenario: %s", dir, raw, err, where, env.s)
	}
	return
}

// exclusion: distinct existing CPUs, none protected. Returns true when the case must be abandoned (known finding).
func (env *c10SetEnv) exclusion(t *rapid.T, c *vk.Case, dir string, list []int, where string, hist []string) bool {
	s := env.s
	seen := map[int]bool{}
	for _, id := range list {
		if seen[id] {
			return c.Violation(t, "cpuset:duplicate-cpu", "%s: cpu %d twice in %v; %s; scenario: %s; history=%v", dir, id, list, where, s, hist)
		}
		seen[id] = true
		switch {
		case !env.exists[id]:
			return c.Violation(t, "cpuset:nonexistent-cpu", "%s: cpu %d written but not in the processor list; written=%q; %s; scenario: %s; history=%v", dir, id, c10FmtSet(list), where, s, hist)
		case env.lse[id]:
			return c.Violation(t, "cpuset:lse-cpu-in-be-set", "%s: cpu %d is owned by an LSE pod; written=%q; %s; scenario: %s; history=%v", dir, id, c10FmtSet(list), where, s, hist)
		case env.reserved[id]:
			return c.Violation(t, "cpuset:reserved-cpu-in-be-set", "%s: cpu %d is node-reserved; written=%q; %s; scenario: %s; history=%v", dir, id, c10FmtSet(list), where, s, hist)
		case env.sysExcl[id]:
			return c.Violation(t, "cpuset:system-exclusive-cpu-in-be-set", "%s: cpu %d is exclusive to system QoS; written=%q; %s; scenario: %s; history=%v", dir, id, c10FmtSet(list), where, s, hist)
		}
	}
	return false
}

// observeSuppressed checks what a cpuset-mode round left under the cgroup root. stop = abandon the case.
func (env *c10SetEnv) observeSuppressed(t *rapid.T, c *vk.Case, where string, hist []string, want, unlimited, step, oldN int) (result string, stop bool) {
	s := env.s
	e := len(env.eligible)
	// A dir is judged when this round handed a write for it to the executor, or when enough CPUs are eligible: then the dir must
	// hold the target whether or not the round had to write it (an agent may skip a write of an unchanged value).
	judged := func(attempted bool) bool { return attempted || e >= want }
	sameSet := func(a, b []int) bool {
		x, y := c10SetOf(a), c10SetOf(b)
		if len(x) != len(y) {
			return false
		}
		for id := range x {
			if !y[id] {
				return false
			}
		}
		return true
	}
	count := func(dir string, list []int, attempted bool) bool {
		size := 0
		if judged(attempted) {
			size = len(list)
		}
		if size > unlimited {
			return c.Violation(t, "cpuset:over-budget", "%s: %d cpus written (%q) > max(2, ceil(budget))=%d; %s; scenario: %s; history=%v", dir, size, c10FmtSet(list), unlimited, where, s, hist)
		}
		if size > want {
			return c.Violation(t, "cpuset:over-step-limit", "%s: %d cpus written (%q) > old %d + step %d; %s; scenario: %s; history=%v", dir, size, c10FmtSet(list), oldN, step, where, s, hist)
		}
		if e >= want && size != want {
			return c.Violation(t, "cpuset:fewer-than-target-though-eligible", "%s: %d cpus (%q, written=%v) but target is %d and %d CPUs are eligible; %s; scenario: %s; history=%v",
				dir, size, c10FmtSet(list), attempted, want, e, where, s, hist)
		}
		return false
	}
	if s.Policy != "static" {
		// every BE cgroup (root, pod, container) gets the derived set
		var rootList []int
		rootJudged := false
		for i, d := range env.allDirs {
			list, raw, attempted := env.read(t, c, d, where)
			if !judged(attempted) {
				list = nil
			}
			if env.exclusion(t, c, d, list, where, hist) {
				return result, true
			}
			if i == 0 {
				result = fmt.Sprintf("%q(written=%v)", raw, attempted)
				if count(d, list, attempted) {
					return result, true
				}
				rootList, rootJudged = list, judged(attempted)
				continue
			}
			// when the round completes every BE cgroup below the root holds the same set as the root, i.e. the target
			if rootJudged && !sameSet(list, rootList) {
				return result, c.Violation(t, "cpuset:descendant-not-at-target-after-round", "%s holds %q but the BE root holds %q after the round; %s; scenario: %s; history=%v",
					d, raw, c10FmtSet(rootList), where, s, hist)
			}
		}
		return result, false
	}
	// static kubelet policy: root and pod level are reset to "everything not protected", containers get the derived set
	for _, d := range env.allDirs[:1+len(s.BEDirs)] {
		list, raw, attempted := env.read(t, c, d, where)
		if !attempted {
			continue
		}
		if env.exclusion(t, c, d, list, where, hist) {
			return result, true
		}
		if !sameSet(list, env.eligible) {
			return result, c.Violation(t, "cpuset:descendant-not-at-target-after-round", "static kubelet policy: %s holds %q after the round, expected every unprotected CPU %q; %s; scenario: %s; history=%v",
				d, raw, c10FmtSet(env.eligible), where, s, hist)
		}
	}
	var firstList []int
	for i, d := range env.ctrDirs {
		list, raw, attempted := env.read(t, c, d, where)
		if !judged(attempted) {
			list = nil
		}
		if env.exclusion(t, c, d, list, where, hist) {
			return result, true
		}
		if count(d, list, attempted) {
			return result, true
		}
		if i == 0 {
			result = fmt.Sprintf("%q(written=%v)", raw, attempted)
			firstList = list
		} else if e >= want && !sameSet(list, firstList) {
			return result, c.Violation(t, "cpuset:descendant-not-at-target-after-round", "static kubelet policy: container %s holds %q but %s holds %q after the round; %s; scenario: %s; history=%v",
				d, raw, env.ctrDirs[0], c10FmtSet(firstList), where, s, hist)
		}
	}
	return result, false
}

func TestVerifC10AdjustCPUSet(t *testing.T) {
	c10Quiet()
	rec := vk.New(t, "C10", "adjustByCPUSet")
	helper := system.NewFileTestUtil(t)
	defer helper.Cleanup()
	base := helper.TempDir
	defer func() { system.Conf.CgroupRootDir = base }()
	caseNo := 0
	beRoot := koordletutil.GetPodQoSRelativePath(corev1.PodQOSBestEffort)
	rapid.Check(t, func(t *rapid.T) {
		c := rec.Begin()
		defer c.End()
		caseNo++
		root := filepath.Join(base, fmt.Sprintf("case%d", caseNo))
		system.Conf.CgroupRootDir = root
		defer os.RemoveAll(root)

		s := c10GenScenario(t)
		helper.SetCgroupsV2(s.V2)
		exec := c10NewExec()
		env := c10NewSetEnv(s, beRoot, exec)
		n := len(env.ids)
		eligible := env.eligible
		e := len(eligible)
		if err := env.prepare(); err != nil {
			t.Fatalf("harness: cannot prepare cgroup dir: %v", err)
		}

		// the BE tree need not be uniform before the first round: descendants may hold narrower sets than the root
		if rapid.IntRange(0, 3).Draw(t, "initialDescendantsNarrower") == 0 && env.narrowDescendants(t, s.Old, "initial") > 0 {
			c.Class("initial-descendants-narrower")
		}

		inf := s.buildInformer()
		info := &metriccache.NodeCPUInfo{ProcessorInfos: append([]koordletutil.ProcessorInfo(nil), s.Topo.Procs...)}
		var r *CPUSuppress
		var stops []chan struct{}
		defer func() {
			for _, ch := range stops {
				close(ch)
			}
		}()
		// start (or, after a simulated crash, restart) the agent: new plugin instance, new executor with an empty cache
		startAgent := func() {
			exec = c10NewExec()
			env.exec = exec
			r = &CPUSuppress{
				statesInformer:         inf,
				metricCache:            &c10MetricCache{info: info},
				executor:               exec,
				cgroupReader:           resourceexecutor.NewCgroupReader(),
				suppressPolicyStatuses: map[string]suppressPolicyStatus{},
			}
			stop := make(chan struct{})
			stops = append(stops, stop)
			r.init(stop)
		}
		startAgent()

		hasLSE, hasLSR := s.hasOwners()
		static := s.Policy == "static"
		c.Class("mode:" + s.Mode)
		c.Class("kubelet-policy:" + s.Policy)
		c.ClassIf(s.V2, "cgroup-v2")
		c.ClassIf(!s.V2, "cgroup-v1")
		c.ClassIf(e == 0, "no-eligible-cpu")
		c.ClassIf(e == 1, "one-eligible-cpu")
		c.ClassIf(hasLSE, "lse-pod-with-cpuset")
		c.ClassIf(hasLSR, "lsr-pod-with-cpuset")
		c.ClassIf(len(env.reserved) > 0, "node-reserved-cpus")
		c.ClassIf(len(env.sysExcl) > 0, "system-qos-exclusive-cpus")
		c.ClassIf(s.HasSystem && s.SystemExcl == "false" && len(s.System) > 0, "system-qos-shared-cpus")
		c.ClassIf(len(s.Old) == 0, "old-cpuset-empty")
		c.ClassIf(len(s.Topo.Offline) > 0, "offline-cpus")
		c.ClassIf(s.NoTopo, "no-node-topology-object")
		c.ClassIf(static && len(env.ctrDirs) == 0, "static-without-be-container(unobservable)")

		nRounds := rapid.IntRange(1, 3).Draw(t, "rounds")
		var hist []string
		nontrivial := false
		crashed := false     // a crash-recovery state was injected before this round
		everCrashed := false // at most one injection per case
		var lastMilli int64
		for round := 0; round < nRounds; round++ {
			oldStr, oldN := env.readOld(t)
			_, _, step := c10Target(0, oldN, n)
			var milli int64
			if crashed {
				milli = lastMilli // the restarted agent sees the same inputs as the interrupted round
			} else {
				milli = c10GenBudgetMilli(t, e, oldN, n, step)
			}
			lastMilli = milli
			want, unlimited, step := c10Target(milli, oldN, n)
			where := fmt.Sprintf("round %d: budget=%dm old=%q(%d cpus) processors=%d step=%d target=%d eligible=%d(%s)", round, milli, oldStr, oldN, n, step, want, e, c10FmtSet(eligible))

			c.ClassIf(milli < 2000, "budget-below-2-cpus")
			c.ClassIf(unlimited > e, "budget-above-eligible")
			c.ClassIf(want > e && e > 0, "target-above-eligible")
			c.ClassIf(want < unlimited, "step-limited")
			c.ClassIf(want < e, "target-below-eligible")
			c.ClassIf(want == e, "target-equals-eligible")
			c.ClassIf(want < oldN, "shrink")
			c.ClassIf(round > 0, "later-round")
			if hasLSE && hasLSR && want < e && !s.NoTopo {
				nontrivial = true
			}

			exec.attempts = map[string]int{}
			var pnc any
			func() {
				defer func() { pnc = recover() }()
				r.adjustByCPUSet(resource.NewMilliQuantity(milli, resource.DecimalSI), info)
			}()
			if pnc != nil {
				hist = append(hist, where+" -> PANIC")
				sig := "cpuset:panic"
				if e == 0 {
					sig = "cpuset:panic-no-eligible-cpu"
				}
				c.Sample(map[string]any{"scenario": s.String(), "rounds": hist})
				c.Violation(t, sig, "adjustByCPUSet panicked: %v; %s; scenario: %s; history=%v", pnc, where, s, hist)
				return
			}
			if s.NoTopo {
				// without the topology object the agent cannot know the protected CPUs: it must not touch anything
				for _, d := range env.allDirs {
					if _, raw, attempted := env.read(t, c, d, where); attempted {
						c.Violation(t, "cpuset:written-without-topology", "%s written (%q) though the node topology object is missing; %s; scenario: %s", d, raw, where, s)
						return
					}
				}
				hist = append(hist, where+" -> untouched")
				continue
			}
			result, abandon := env.observeSuppressed(t, c, where, hist, want, unlimited, step, oldN)
			if abandon {
				return
			}
			if crashed {
				rootNow, _ := c10ReadTrim(env.fs.cpusetFile(beRoot))
				c.ClassIf(rootNow == oldStr, "crash-recovery-root-already-at-target")
				result += " (after crash recovery)"
			}
			crashed = false
			hist = append(hist, where+" -> "+result)
			env.refreshEffective()
			// crash-recovery state: the agent died in the middle of the rewrite it is about to repeat; the root already holds the
			// set, some pod / container dirs still hold a strict subset. Only under kubelet policy none, where the agent owns the tree.
			if !static && !everCrashed && len(env.allDirs) > 1 && rapid.IntRange(0, 2).Draw(t, "crashAfterRound") == 0 {
				rootRaw, _ := c10ReadTrim(env.fs.cpusetFile(beRoot))
				rootSet, _ := c10ParseList(rootRaw)
				if env.narrowDescendants(t, rootSet, "crash") > 0 {
					c.Class("crash-recovery-state")
					hist = append(hist, "agent crashed and restarted; BE tree left at "+env.treeString())
					crashed, everCrashed = true, true
					startAgent()
					if round == nRounds-1 {
						nRounds++ // the restarted agent gets its round
					}
				}
			}
		}
		if nontrivial {
			c.NonTrivial(s.String(), hist)
		}
		c.Sample(map[string]any{"scenario": s.String(), "rounds": hist})
	})
}

// ---------------------------------------------------------------- (4) adjustByCfsQuota

func TestVerifC10CfsQuota(t *testing.T) {
	c10Quiet()
	rec := vk.New(t, "C10", "cfsQuota")
	helper := system.NewFileTestUtil(t)
	defer helper.Cleanup()
	base := helper.TempDir
	defer func() { system.Conf.CgroupRootDir = base }()
	caseNo := 0
	beRoot := koordletutil.GetPodQoSRelativePath(corev1.PodQOSBestEffort)
	rapid.Check(t, func(t *rapid.T) {
		c := rec.Begin()
		defer c.End()
		caseNo++
		root := filepath.Join(base, fmt.Sprintf("case%d", caseNo))
		system.Conf.CgroupRootDir = root
		defer os.RemoveAll(root)
		v2 := rapid.Bool().Draw(t, "cgroupV2")
		helper.SetCgroupsV2(v2)
		fs := c10CgFS{v2: v2}

		capCores := rapid.OneOf(rapid.IntRange(1, 8), rapid.IntRange(1, 128), rapid.IntRange(1, 1024)).Draw(t, "capCores")
		capMilli := int64(capCores) * 1000
		if rapid.IntRange(0, 5).Draw(t, "capFractional") == 0 {
			capMilli -= int64(rapid.IntRange(1, 999).Draw(t, "capFrac")) // Value() rounds up: still capCores
		}
		minDelta := int64(capCores) * c10CFSPeriod / 100 // bypass when the change is below 1% of the node
		step := int64(capCores) * c10CFSPeriod / 10      // grow by at most 10% of the node per round
		var milli int64
		switch rapid.IntRange(0, 9).Draw(t, "budgetKind") {
		case 0:
			milli = -int64(rapid.IntRange(0, 5000).Draw(t, "negBudget"))
		case 1:
			milli = int64(rapid.IntRange(0, 40).Draw(t, "tinyBudget"))
		case 2:
			milli = int64(rapid.IntRange(0, capCores*10).Draw(t, "below1Percent"))
		case 3:
			milli = int64(rapid.IntRange(0, capCores).Draw(t, "wholeCores")) * 1000
		default:
			milli = int64(rapid.IntRange(c10Min(20, capCores*10), capCores*1200).Draw(t, "budgetMilli"))
		}
		target := milli * c10CFSPeriod / 1000
		if target < c10MinQuota {
			target = c10MinQuota
		}
		var cur int64
		switch rapid.IntRange(0, 9).Draw(t, "curKind") {
		case 0, 1:
			cur = -1
		case 2:
			cur = target + int64(rapid.SampledFrom([]int{-1, 0, 1}).Draw(t, "d"))
		case 3:
			cur = target + int64(rapid.SampledFrom([]int{-1, 1}).Draw(t, "sign"))*(minDelta+int64(rapid.SampledFrom([]int{-1, 0, 1}).Draw(t, "d")))
		case 4:
			cur = target - step + int64(rapid.SampledFrom([]int{-1, 0, 1}).Draw(t, "d"))
		case 5:
			cur = target - int64(rapid.IntRange(0, int(2*step)).Draw(t, "below"))
		case 8, 9:
			cur = target - step - int64(rapid.IntRange(1, int(3*step)).Draw(t, "farBelow"))
		default:
			cur = int64(rapid.IntRange(1000, capCores*c10CFSPeriod*12/10).Draw(t, "curFree"))
		}
		if cur != -1 && cur < 1000 { // the kernel does not accept quotas below 1ms
			cur = 1000
		}
		curStr := strconv.FormatInt(cur, 10)
		if v2 {
			if cur == -1 {
				curStr = "max"
			}
			curStr += " " + strconv.Itoa(c10CFSPeriod)
		}
		if err := c10WriteFile(fs.quotaFile(beRoot), curStr); err != nil {
			t.Fatalf("harness: %v", err)
		}
		node := &corev1.Node{ObjectMeta: metav1.ObjectMeta{Name: "n"}}
		node.Status.Capacity = corev1.ResourceList{corev1.ResourceCPU: *resource.NewMilliQuantity(capMilli, resource.DecimalSI)}
		exec := c10NewExec()
		r := &CPUSuppress{executor: exec, cgroupReader: resourceexecutor.NewCgroupReader(), suppressPolicyStatuses: map[string]suppressPolicyStatus{}}
		stop := make(chan struct{})
		defer close(stop)
		r.init(stop)

		var pnc any
		func() {
			defer func() { pnc = recover() }()
			r.adjustByCfsQuota(resource.NewMilliQuantity(milli, resource.DecimalSI), node)
		}()
		desc := fmt.Sprintf("capacity=%dm budget=%dm current=%q cgroupV2=%v -> target quota %d (1%%-of-node=%d, 10%%-of-node=%d)", capMilli, milli, curStr, v2, target, minDelta, step)
		if pnc != nil {
			c.Violation(t, "quota:panic", "adjustByCfsQuota panicked: %v; %s", pnc, desc)
			return
		}
		raw, err := c10ReadTrim(fs.quotaFile(beRoot))
		if err != nil {
			t.Fatalf("harness: %v", err)
		}
		var got int64
		f := strings.Fields(raw)
		switch {
		case len(f) == 0:
			c.Violation(t, "quota:unparsable", "quota file empty; %s", desc)
			return
		case f[0] == "max":
			got = -1
		default:
			got, err = strconv.ParseInt(f[0], 10, 64)
			if err != nil {
				c.Violation(t, "quota:unparsable", "quota file holds %q; %s", raw, desc)
				return
			}
		}
		delta := target - cur
		abs := delta
		if abs < 0 {
			abs = -abs
		}
		bypass := abs < minDelta && target != c10MinQuota
		stepLimited := !bypass && cur != -1 && delta > step
		expected := target
		switch {
		case bypass:
			expected = cur
		case stepLimited:
			expected = cur + step
		}
		c.ClassIf(cur == -1, "quota-unset-before")
		c.ClassIf(bypass, "small-delta-bypass")
		c.ClassIf(stepLimited, "step-limited")
		c.ClassIf(target == c10MinQuota, "floored-by-min-quota")
		c.ClassIf(!bypass && !stepLimited && target != c10MinQuota, "exact-target")
		c.ClassIf(delta < 0, "shrink")
		c.ClassIf(v2, "cgroup-v2")
		if !bypass && cur != -1 && got != cur {
			c.NonTrivial(capMilli, milli, cur, v2)
		}
		c.Sample(map[string]any{"case": desc, "written": raw})
		if bypass && cur == -1 {
			// the budget is a real, small number but the "small change" rule compares it with the sentinel -1:
			// BE stays unlimited although the statement asks for quota = budget x period
			if got == -1 {
				if c.Violation(t, "quota:bypass-leaves-quota-unset", "BE quota left unlimited (%q) although the budget asks for %d us; %s", raw, target, desc) {
					return
				}
				return
			}
			expected = target
		}
		if got != expected {
			sig := "quota:wrong-value"
			switch {
			case target == c10MinQuota && !stepLimited:
				sig = "quota:min-quota-floor"
			case stepLimited:
				sig = "quota:step-limit"
			case bypass:
				sig = "quota:bypass"
			}
			c.Violation(t, sig, "cfs quota is %d (%q), expected %d; %s", got, raw, expected, desc)
			return
		}
	})
}

// ---------------------------------------------------------------- (5) suppressBECPU histories: policy switches on one plugin / one executor

type c10Load struct {
	Thr    int64  // cpuSuppressThresholdPercent
	Min    *int64 // cpuSuppressMinPercent
	KU, KS int    // usage of the LS pod / of the system, in 1/8 cores (exact in float64)
}

// budgetMilli restates the budget for the simple load this unit generates: whole-core capacity, no node reservation, one LS
// pod using KU/8 cores, system using KS/8 cores, nothing else measured. Every term is an exact integer number of milli-cores.
func (l c10Load) budgetMilli(n int) int64 {
	b := int64(n)*10*l.Thr - 125*int64(l.KU) - 125*int64(l.KS)
	if l.Min != nil && b < int64(n)*10**l.Min {
		b = int64(n) * 10 * *l.Min
	}
	return b
}

func (l c10Load) String() string {
	min := "nil"
	if l.Min != nil {
		min = fmt.Sprint(*l.Min)
	}
	return fmt.Sprintf("thr=%d%% min=%s lsPodUsage=%d/8 systemUsage=%d/8", l.Thr, min, l.KU, l.KS)
}

func c10GenLoad(t *rapid.T, n int) c10Load {
	l := c10Load{}
	l.Thr = int64(rapid.OneOf(rapid.IntRange(40, 100), rapid.IntRange(0, 100)).Draw(t, "threshold"))
	if rapid.IntRange(0, 2).Draw(t, "hasMin") == 0 {
		m := int64(rapid.IntRange(0, 30).Draw(t, "minPercent"))
		l.Min = &m
	}
	l.KU = rapid.IntRange(0, 6*n).Draw(t, "lsUsageEighths")
	l.KS = rapid.IntRange(0, 2*n).Draw(t, "systemUsageEighths")
	return l
}

func c10ParseQuota(raw string) (int64, error) {
	f := strings.Fields(raw)
	if len(f) == 0 {
		return 0, fmt.Errorf("empty")
	}
	if f[0] == "max" {
		return -1, nil
	}
	return strconv.ParseInt(f[0], 10, 64)
}

func TestVerifC10SuppressHistory(t *testing.T) {
	c10Quiet()
	rec := vk.New(t, "C10", "suppressHistory")
	rec.Note("rounds", "2-5 calls of suppressBECPU on one plugin instance with one started executor cache; the harness never sleeps, so all rounds fall inside the executor's force-update window")
	helper := system.NewFileTestUtil(t)
	defer helper.Cleanup()
	base := helper.TempDir
	defer func() { system.Conf.CgroupRootDir = base }()
	factory := &c10ResultFactory{}
	oldFactory := metriccache.DefaultAggregateResultFactory
	metriccache.DefaultAggregateResultFactory = factory
	defer func() { metriccache.DefaultAggregateResultFactory = oldFactory }()
	gateSuppress := features.DefaultKoordletFeatureGate.Enabled(features.BECPUSuppress)
	gateManager := features.DefaultKoordletFeatureGate.Enabled(features.BECPUManager)
	setGates := func(suppress, manager bool) {
		if err := features.DefaultMutableKoordletFeatureGate.SetFromMap(map[string]bool{string(features.BECPUSuppress): suppress, string(features.BECPUManager): manager}); err != nil {
			t.Fatalf("harness: cannot set feature gates: %v", err)
		}
	}
	defer setGates(gateSuppress, gateManager)
	nodeMeta, err := metriccache.NodeCPUUsageMetric.BuildQueryMeta(nil)
	if err != nil {
		t.Fatalf("harness: %v", err)
	}
	const loadUID = "uid-load"
	podMeta, err := metriccache.PodCPUUsageMetric.BuildQueryMeta(metriccache.MetricPropertiesFunc.Pod(loadUID))
	if err != nil {
		t.Fatalf("harness: %v", err)
	}
	caseNo := 0
	beRoot := koordletutil.GetPodQoSRelativePath(corev1.PodQOSBestEffort)
	rapid.Check(t, func(t *rapid.T) {
		c := rec.Begin()
		defer c.End()
		caseNo++
		root := filepath.Join(base, fmt.Sprintf("case%d", caseNo))
		system.Conf.CgroupRootDir = root
		defer os.RemoveAll(root)
		defer setGates(true, false)
		setGates(true, false)

		s := c10GenScenario(t)
		s.NoTopo = false // suppressBECPU cannot even recover without the topology object; unit (3) covers that input
		helper.SetCgroupsV2(s.V2)
		exec := c10NewExec()
		env := c10NewSetEnv(s, beRoot, exec)
		n := len(env.ids)
		e := len(env.eligible)
		if err := env.prepare(); err != nil {
			t.Fatalf("harness: cannot prepare cgroup dir: %v", err)
		}
		// quota the BE cgroup holds before the first round
		minDelta := int64(n) * c10CFSPeriod / 100
		step := int64(n) * c10CFSPeriod / 10
		initQuota := int64(-1)
		if rapid.Bool().Draw(t, "quotaSetBefore") {
			initQuota = int64(rapid.IntRange(1000, n*c10CFSPeriod).Draw(t, "initQuota"))
		}
		writeQuota := func(q int64) {
			str := strconv.FormatInt(q, 10)
			if s.V2 {
				if q == -1 {
					str = "max"
				}
				str += " " + strconv.Itoa(c10CFSPeriod)
			}
			if err := c10WriteFile(env.fs.quotaFile(beRoot), str); err != nil {
				t.Fatalf("harness: %v", err)
			}
		}
		readQuota := func() (int64, string) {
			raw, err := c10ReadTrim(env.fs.quotaFile(beRoot))
			if err != nil {
				t.Fatalf("harness: %v", err)
			}
			q, err := c10ParseQuota(raw)
			if err != nil {
				t.Fatalf("harness: quota file holds %q: %v", raw, err)
			}
			return q, raw
		}
		writeQuota(initQuota)

		inf := s.buildInformer()
		load := &corev1.Pod{ObjectMeta: metav1.ObjectMeta{Name: "load", Namespace: "default", UID: loadUID, Labels: map[string]string{apiext.LabelPodQoS: "LS"}}}
		load.Status.QOSClass = corev1.PodQOSBurstable
		inf.pods = append(inf.pods, &statesinformer.PodMeta{Pod: load, CgroupDir: "kubepods/load"})
		capQ := *resource.NewQuantity(int64(n), resource.DecimalSI)
		inf.node = &corev1.Node{ObjectMeta: metav1.ObjectMeta{Name: "n"}, Status: corev1.NodeStatus{
			Capacity: corev1.ResourceList{corev1.ResourceCPU: capQ}, Allocatable: corev1.ResourceList{corev1.ResourceCPU: capQ}}}
		info := &metriccache.NodeCPUInfo{ProcessorInfos: append([]koordletutil.ProcessorInfo(nil), s.Topo.Procs...)}
		var r *CPUSuppress
		var stops []chan struct{}
		defer func() {
			for _, ch := range stops {
				close(ch)
			}
		}()
		// start (or, after a simulated crash, restart) the agent: new plugin instance, new executor with an empty cache
		startAgent := func() {
			exec = c10NewExec()
			env.exec = exec
			r = &CPUSuppress{
				interval:               time.Second,
				metricCollectInterval:  time.Second,
				statesInformer:         inf,
				metricCache:            &c10MetricCache{info: info},
				executor:               exec,
				cgroupReader:           resourceexecutor.NewCgroupReader(),
				suppressPolicyStatuses: map[string]suppressPolicyStatus{},
			}
			stop := make(chan struct{})
			stops = append(stops, stop)
			r.init(stop)
		}
		startAgent()

		c.Class("kubelet-policy:" + s.Policy)
		c.ClassIf(s.V2, "cgroup-v2")
		c.ClassIf(e == 0, "no-eligible-cpu")
		c.ClassIf(initQuota == -1, "quota-unset-before")

		nRounds := rapid.IntRange(2, 5).Draw(t, "rounds")
		var hist []string
		var policies []string
		var prevLoad c10Load
		lastQuotaWritten := int64(-2) // value the last quota-mode round left in the file
		nonQuotaSinceQuota := false
		switchBack := false
		crashed, everCrashed := false, false
		cpusetRoundOnThisAgent := false // the running agent instance has already done a cpuset-mode round
		for round := 0; round < nRounds; round++ {
			// an operator edits the reserved-CPU / system-QoS annotations of the node topology between two rounds
			annotationsChanged := false
			if round > 0 && !crashed && rapid.IntRange(0, 2).Draw(t, "changeTopologyAnnotations") == 0 {
				if what := c10MutateNodeProtection(t, &s, env.ids); what != "" {
					inf.topo = s.buildInformer().topo // a new object from the informer: same UID, same generation, new annotations
					env.setProtection(s)
					e = len(env.eligible)
					annotationsChanged = true
					c.Class("topology-annotations-changed-between-rounds")
					hist = append(hist, "topology annotations updated: "+what)
				}
			}
			var policy string
			l := prevLoad
			switch {
			case crashed: // the restarted agent repeats the interrupted cpuset round with the same inputs
				policy = "cpuset"
			case annotationsChanged && rapid.Bool().Draw(t, "cpusetRoundAfterChange"):
				policy = "cpuset"
				if rapid.Bool().Draw(t, "newLoadAfterChange") {
					l = c10GenLoad(t, n)
				}
			default:
				policy = rapid.SampledFrom([]string{"cfsQuota", "cfsQuota", "cfsQuota", "cpuset", "cpuset", "disabled", "disabled", "be-cpu-manager"}).Draw(t, "policy")
				if round == 0 || rapid.IntRange(0, 2).Draw(t, "sameLoadAsPreviousRound") == 0 {
					l = c10GenLoad(t, n)
				} else {
					c.Class("same-budget-as-previous-round")
				}
			}
			prevLoad = l
			milli := l.budgetMilli(n)
			// what the agent sees this round
			enable := policy != "disabled"
			thr := l.Thr
			strategy := &slov1alpha1.ResourceThresholdStrategy{Enable: &enable, CPUSuppressThresholdPercent: &thr, CPUSuppressMinPercent: l.Min}
			switch policy {
			case "cfsQuota":
				strategy.CPUSuppressPolicy = slov1alpha1.CPUCfsQuotaPolicy
			case "cpuset":
				if rapid.Bool().Draw(t, "policyFieldEmpty") {
					strategy.CPUSuppressPolicy = ""
				} else {
					strategy.CPUSuppressPolicy = slov1alpha1.CPUSetPolicy
				}
			default: // the policy field is whatever the operator left there
				strategy.CPUSuppressPolicy = rapid.SampledFrom([]slov1alpha1.CPUSuppressPolicy{slov1alpha1.CPUCfsQuotaPolicy, slov1alpha1.CPUSetPolicy}).Draw(t, "idlePolicyField")
			}
			inf.slo = &slov1alpha1.NodeSLO{Spec: slov1alpha1.NodeSLOSpec{ResourceUsedThresholdWithBE: strategy}}
			setGates(true, policy == "be-cpu-manager")
			factory.values = map[string]float64{
				c10MetaKey(nodeMeta): float64(l.KU+l.KS) / 8,
				c10MetaKey(podMeta):  float64(l.KU) / 8,
			}

			curQuota, curRaw := readQuota()
			oldStr, oldN := env.readOld(t)
			want, unlimited, stepCPUs := c10Target(milli, oldN, n)
			where := fmt.Sprintf("round %d: policy=%s %s budget=%dm quotaBefore=%q beCPUSetBefore=%q(%d cpus) processors=%d eligible=%d(%s)",
				round, policy, l, milli, curRaw, oldStr, oldN, n, e, c10FmtSet(env.eligible))

			// classes of the history shape
			for _, p := range policies {
				if p == policy && policies[len(policies)-1] != policy {
					switchBack = true
					c.Class("switch-back-to:" + policy)
				}
			}
			if len(policies) > 0 {
				c.Class("transition:" + policies[len(policies)-1] + "->" + policy)
			}
			policies = append(policies, policy)

			if policy == "cpuset" {
				c.ClassIf(annotationsChanged, "cpuset-round-right-after-annotation-change")
				c.ClassIf(annotationsChanged && cpusetRoundOnThisAgent, "cpuset-rounds-before-and-after-annotation-change")
				cpusetRoundOnThisAgent = true
			}
			exec.attempts = map[string]int{}
			var pnc any
			func() {
				defer func() { pnc = recover() }()
				r.suppressBECPU()
			}()
			if pnc != nil {
				hist = append(hist, where+" -> PANIC")
				c.Violation(t, "history:panic", "suppressBECPU panicked: %v; %s; scenario: %s; history=%v", pnc, where, s, hist)
				return
			}
			gotQuota, gotRaw := readQuota()

			if policy == "cfsQuota" {
				target := milli * c10CFSPeriod / 1000
				if target < c10MinQuota {
					target = c10MinQuota
				}
				delta := target - curQuota
				abs := delta
				if abs < 0 {
					abs = -abs
				}
				expected := target
				switch {
				case curQuota != -1 && abs < minDelta && target != c10MinQuota:
					expected = curQuota // documented bypass of changes below 1% of the node
					c.Class("quota-small-delta-bypass")
				case curQuota != -1 && delta > step:
					expected = curQuota + step // documented step limit
					c.Class("quota-step-limited")
				}
				c.ClassIf(target == c10MinQuota, "quota-floored-by-min")
				if nonQuotaSinceQuota && expected == lastQuotaWritten {
					c.Class("policy-switch-back-same-quota")
				}
				if gotQuota != expected {
					hist = append(hist, fmt.Sprintf("%s -> quota %q", where, gotRaw))
					sig := "history:quota-wrong-value"
					if gotQuota == -1 {
						sig = "history:quota-left-unset-in-quota-mode"
					}
					if c.Violation(t, sig, "cfs quota is %q after a quota-mode round, expected %d (target %d, 1%%-of-node=%d, 10%%-of-node=%d); %s; scenario: %s; history=%v",
						gotRaw, expected, target, minDelta, step, where, s, hist) {
						return
					}
					return
				}
				lastQuotaWritten = gotQuota
				nonQuotaSinceQuota = false
			} else {
				nonQuotaSinceQuota = true
				// not in quota mode: the BE quota must be back to unlimited
				if gotQuota != -1 {
					hist = append(hist, fmt.Sprintf("%s -> quota %q", where, gotRaw))
					if c.Violation(t, "history:quota-not-recovered", "cfs quota is %q after a round with policy %s, expected unlimited; %s; scenario: %s; history=%v", gotRaw, policy, where, s, hist) {
						return
					}
					return
				}
			}

			var result string
			if policy == "cpuset" {
				c.ClassIf(want < e, "cpuset-target-below-eligible")
				c.ClassIf(want < unlimited, "cpuset-step-limited")
				res, abandon := env.observeSuppressed(t, c, where, hist, want, unlimited, stepCPUs, oldN)
				if abandon {
					return
				}
				result = "cpuset " + res
			} else {
				// not in cpuset mode: every BE cgroup is reset to all CPUs that are not protected
				wantSet := c10SetOf(env.eligible)
				for _, d := range env.allDirs {
					list, raw, _ := env.read(t, c, d, where)
					if env.exclusion(t, c, d, list, where, hist) {
						return
					}
					got := c10SetOf(list)
					same := len(got) == len(wantSet)
					for id := range wantSet {
						if !got[id] {
							same = false
						}
					}
					if !same {
						hist = append(hist, fmt.Sprintf("%s -> %s cpuset %q", where, d, raw))
						if c.Violation(t, "history:cpuset-not-recovered", "%s holds cpuset %q after a round with policy %s, expected every unprotected CPU %q; %s; scenario: %s; history=%v",
							d, raw, policy, c10FmtSet(env.eligible), where, s, hist) {
							return
						}
						return
					}
				}
				result = fmt.Sprintf("cpuset recovered to %q", c10FmtSet(env.eligible))
			}
			if crashed {
				rootNow, _ := c10ReadTrim(env.fs.cpusetFile(beRoot))
				c.ClassIf(rootNow == oldStr, "crash-recovery-root-already-at-target")
				result += " (after crash recovery)"
			}
			crashed = false
			hist = append(hist, fmt.Sprintf("%s -> quota %q, %s", where, gotRaw, result))
			// what the kernel would do on cgroup v2: refresh cpuset.cpus.effective, keep the period field of cpu.max
			env.refreshEffective()
			if s.V2 {
				writeQuota(gotQuota)
			}
			// crash-recovery state after a cpuset-mode round (kubelet policy none): root at the set, some descendants at a strict subset
			if policy == "cpuset" && s.Policy != "static" && !everCrashed && len(env.allDirs) > 1 && rapid.IntRange(0, 1).Draw(t, "crashAfterRound") == 0 {
				rootRaw, _ := c10ReadTrim(env.fs.cpusetFile(beRoot))
				rootSet, _ := c10ParseList(rootRaw)
				if env.narrowDescendants(t, rootSet, "crash") > 0 {
					c.Class("crash-recovery-state")
					hist = append(hist, "agent crashed and restarted; BE tree left at "+env.treeString())
					crashed, everCrashed = true, true
					cpusetRoundOnThisAgent = false
					startAgent()
					if round == nRounds-1 {
						nRounds++
					}
				}
			}
		}
		kinds := map[string]bool{}
		for _, p := range policies {
			kinds[p] = true
		}
		c.ClassIf(len(kinds) >= 3, "three-or-more-policies-in-one-history")
		c.ClassIf(len(kinds) == 1, "single-policy-history")
		if switchBack {
			c.NonTrivial(s.String(), hist)
		}
		c.Sample(map[string]any{"scenario": s.String(), "rounds": hist})
	})
}

// ---------------------------------------------------------------- (6) large nodes: the budget meets the number of eligible CPUs

// c10GenLargeScenario aims at the boundary "target == number of eligible CPUs" on large nodes (up to 256 CPUs) where the eligible
// CPUs are split between an LSR pool (CPUs in LSR pods' cpusets, any size from 1 to eligible-1) and the shared pool.
func c10GenLargeScenario(t *rapid.T) c10Scenario {
	s := c10Scenario{Mode: "large-split"}
	tp := c10Topo{}
	tp.Sockets = rapid.IntRange(1, 2).Draw(t, "sockets")
	tp.NodesPerSocket = rapid.IntRange(1, 2).Draw(t, "nodesPerSocket")
	tp.CoresPerNode = rapid.IntRange(2, 32).Draw(t, "coresPerNode")
	tp.Threads = rapid.SampledFrom([]int{1, 2, 2}).Draw(t, "threads")
	tp.Split = rapid.Bool().Draw(t, "splitSiblings")
	totalCores := tp.Sockets * tp.NodesPerSocket * tp.CoresPerNode
	nOffline := rapid.IntRange(0, 3).Draw(t, "offlineCPUs")
	core := 0
	for si := 0; si < tp.Sockets; si++ {
		for ni := 0; ni < tp.NodesPerSocket; ni++ {
			for ci := 0; ci < tp.CoresPerNode; ci++ {
				for pi := 0; pi < tp.Threads; pi++ {
					id := core*tp.Threads + pi
					if tp.Split {
						id = core + pi*totalCores
					}
					tp.Procs = append(tp.Procs, koordletutil.ProcessorInfo{CPUID: int32(id), CoreID: int32(core), SocketID: int32(si), NodeID: int32(si*tp.NodesPerSocket + ni)})
				}
				core++
			}
		}
	}
	for i := 0; i < nOffline && len(tp.Procs) > 4; i++ { // the highest-numbered positions of the list go offline
		last := tp.Procs[len(tp.Procs)-1]
		tp.Offline = append(tp.Offline, int(last.CPUID))
		tp.Procs = tp.Procs[:len(tp.Procs)-1]
	}
	c10SortProcs(tp.Procs)
	s.Topo = tp
	ids := tp.ids()
	n := len(ids)
	s.V2 = rapid.Bool().Draw(t, "cgroupV2")
	s.Policy = rapid.SampledFrom([]string{"", "none", "static"}).Draw(t, "kubeletPolicy")

	// owners are carved as contiguous blocks of the id list, starting at a random rotation
	rot := rapid.IntRange(0, n-1).Draw(t, "ownerRotation")
	pool := append(append([]int(nil), ids[rot:]...), ids[:rot]...)
	take := func(k int) []int {
		out := append([]int(nil), pool[:k]...)
		pool = pool[k:]
		return out
	}
	if r := rapid.IntRange(0, c10Min(4, n/4)).Draw(t, "reservedCPUs"); r > 0 {
		s.HasReserved = true
		s.Reserved = take(r)
	}
	if l := rapid.IntRange(0, c10Min(8, n/4)).Draw(t, "lseCPUs"); l > 0 {
		s.Pods = append(s.Pods, c10SPod{Name: "lse0", QoS: "LSE", CPUs: take(l), Anno: "ok"})
	}
	e := len(pool) // eligible
	lsr := rapid.IntRange(1, e-1).Draw(t, "lsrPoolSize")
	nPods := rapid.IntRange(1, c10Min(3, lsr)).Draw(t, "lsrPods")
	for i := 0; i < nPods; i++ {
		k := lsr / nPods
		if i == nPods-1 {
			k = lsr - (lsr/nPods)*(nPods-1)
		}
		s.Pods = append(s.Pods, c10SPod{Name: fmt.Sprintf("lsr%d", i), QoS: "LSR", CPUs: take(k), Anno: "ok"})
	}
	s.BEDirs = []string{"pod0"}
	s.BEContainers = []string{filepath.Join("pod0", "ctr0")}
	if rapid.Bool().Draw(t, "oldIsEverything") {
		s.Old = append([]int(nil), ids...)
	} else { // the BE cgroups currently hold exactly the eligible CPUs
		lse, reserved, _ := s.protected()
		for _, id := range ids {
			if !lse[id] && !reserved[id] {
				s.Old = append(s.Old, id)
			}
		}
	}
	return s
}

func TestVerifC10LargeSplit(t *testing.T) {
	c10Quiet()
	rec := vk.New(t, "C10", "largeSplit")
	helper := system.NewFileTestUtil(t)
	defer helper.Cleanup()
	base := helper.TempDir
	defer func() { system.Conf.CgroupRootDir = base }()
	caseNo := 0
	beRoot := koordletutil.GetPodQoSRelativePath(corev1.PodQOSBestEffort)
	rapid.Check(t, func(t *rapid.T) {
		c := rec.Begin()
		defer c.End()
		caseNo++
		root := filepath.Join(base, fmt.Sprintf("case%d", caseNo))
		system.Conf.CgroupRootDir = root
		defer os.RemoveAll(root)

		s := c10GenLargeScenario(t)
		helper.SetCgroupsV2(s.V2)
		exec := c10NewExec()
		env := c10NewSetEnv(s, beRoot, exec)
		n := len(env.ids)
		e := len(env.eligible)
		if err := env.prepare(); err != nil {
			t.Fatalf("harness: cannot prepare cgroup dir: %v", err)
		}
		lsrOwned := map[int]bool{}
		for _, p := range s.Pods {
			if p.QoS == "LSR" {
				for _, id := range p.CPUs {
					lsrOwned[id] = true
				}
			}
		}
		lsr := len(lsrOwned)
		inf := s.buildInformer()
		info := &metriccache.NodeCPUInfo{ProcessorInfos: append([]koordletutil.ProcessorInfo(nil), s.Topo.Procs...)}
		r := &CPUSuppress{
			statesInformer:         inf,
			metricCache:            &c10MetricCache{info: info},
			executor:               exec,
			cgroupReader:           resourceexecutor.NewCgroupReader(),
			suppressPolicyStatuses: map[string]suppressPolicyStatus{},
		}
		stop := make(chan struct{})
		defer close(stop)
		r.init(stop)

		oldStr, oldN := env.readOld(t)
		milli := int64(e)*1000 + int64(rapid.SampledFrom([]int{0, 0, 0, 0, -1, -999, -1000, -2000, 1}).Draw(t, "budgetDelta"))
		want, unlimited, step := c10Target(milli, oldN, n)
		where := fmt.Sprintf("budget=%dm old=%q(%d cpus) processors=%d step=%d target=%d eligible=%d(%s) of which in LSR pods' cpusets=%d",
			milli, oldStr, oldN, n, step, want, e, c10FmtSet(env.eligible), lsr)
		c.Class("kubelet-policy:" + s.Policy)
		c.ClassIf(s.V2, "cgroup-v2")
		c.ClassIf(want == e, "target-equals-eligible")
		c.ClassIf(want == e-1, "target-one-below-eligible")
		c.ClassIf(want > e, "target-above-eligible")
		c.ClassIf(n >= 64, "64-or-more-processors")
		c.ClassIf(n >= 128, "128-or-more-processors")
		c.ClassIf(e%2 == 1, "odd-eligible-count")
		c.ClassIf(len(s.Pods) > 2, "several-lsr-pods")
		// shape counter only (not used by the oracle): target x (lsr/eligible) is not exactly representable going through a float ratio
		c.ClassIf(want == e && float64(e)*(float64(lsr)/float64(e)) != float64(lsr), "lsr-share-inexact-as-float-ratio")
		if want == e && n >= 32 {
			c.NonTrivial(s.String(), milli)
		}
		var pnc any
		func() {
			defer func() { pnc = recover() }()
			r.adjustByCPUSet(resource.NewMilliQuantity(milli, resource.DecimalSI), info)
		}()
		if pnc != nil {
			c.Violation(t, "cpuset:panic", "adjustByCPUSet panicked: %v; %s; scenario: %s", pnc, where, s)
			return
		}
		result, abandon := env.observeSuppressed(t, c, where, nil, want, unlimited, step, oldN)
		if abandon {
			return
		}
		c.Sample(map[string]any{"scenario": fmt.Sprintf("processors=%d eligible=%d lsrPool=%d policy=%q v2=%v", n, e, lsr, s.Policy, s.V2), "round": where + " -> " + result})
	})
}
