//go:build verif

// C09 — Reclaimed (batch/mid) capacity is never over-promised (mid part).
// See /verif/DESIGN.md §1 C09. In-package harness (injected with -overlay).
package midresource

import (
	"encoding/json"
	"fmt"
	"io"
	"math/big"
	"testing"
	"time"

	corev1 "k8s.io/api/core/v1"
	"k8s.io/apimachinery/pkg/api/resource"
	metav1 "k8s.io/apimachinery/pkg/apis/meta/v1"
	"k8s.io/klog/v2"
	fakeclock "k8s.io/utils/clock/testing"
	"pgregory.net/rapid"

	"github.com/koordinator-sh/koordinator/apis/configuration"
	"github.com/koordinator-sh/koordinator/apis/extension"
	slov1alpha1 "github.com/koordinator-sh/koordinator/apis/slo/v1alpha1"
	"github.com/koordinator-sh/koordinator/pkg/slo-controller/noderesource/framework"
	"github.com/koordinator-sh/koordinator/pkg/util/sloconfig"
	"github.com/koordinator-sh/koordinator/pkg/verifkit/vk"
)

var c09mRes = [2]string{"cpu", "mem"}
var c09mKey = [2]corev1.ResourceName{corev1.ResourceCPU, corev1.ResourceMemory}

type c09mPod struct {
	Name  string
	Prio  string // koord-prod / koord-mid / koord-batch / koord-free / "" (label)
	QoS   string // label, "" = none
	Phase corev1.PodPhase
	Req   [2]int64
}

type c09mCase struct {
	Cap        [2]int64
	KubeRes    [2]int64
	AnnoRes    [2]int64 // -1 absent
	Static     bool
	ModeSet    bool     // midReclaimMode explicitly set (to "static" or to another value)
	Thr        [2]int64 // mid cpu/memory threshold percent, -1 = nil (default 100)
	Unalloc    int64    // mid unallocated percent, -1 = nil (default 0)
	StaticPct  [2]int64 // -1 = nil (default 0)
	// ViaConfig: strategy resolved with sloconfig.GetNodeColocationStrategy(cluster config, node), as the controller does,
	// so that node.koordinator.sh/mid-static-{cpu,memory}-reserved-ratio apply.
	ViaConfig   bool
	StaticLabel [2]c09mLabel
	DegradeMin int64
	Sys        [2]int64
	NodeUse    [2]int64 // -1 = key missing in the node usage
	HasReclaim bool
	Reclaim    [2]int64 // -1 = key missing
	Pods       []c09mPod
	HostApps   []struct {
		Prio string
		Use  [2]int64
	}
}

// c09mLabel: per-node ratio label. Documented rule: a parsable float >= 0 takes precedence over the configured percentage
// (percent = ratio*100); an illegal value (unparsable, negative) is ignored.
type c09mLabel struct {
	Set      bool
	Str      string
	Valid    bool
	Num, Den int64
}

var c09mLabelPool = []c09mLabel{
	{true, "1", true, 1, 1}, {true, "0.5", true, 1, 2}, {true, "0.05", true, 5, 100}, {true, "0.999", true, 999, 1000},
	{true, "1.5", true, 3, 2}, {true, "-0.1", false, 0, 1}, {true, "-1", false, 0, 1}, {true, "abc", false, 0, 1}, {true, "", false, 0, 1}, {true, "30%", false, 0, 1},
}

func c09mGenLabel(t *rapid.T, label string) c09mLabel {
	switch rapid.IntRange(0, 9).Draw(t, label+"Kind") {
	case 0, 1:
		return c09mLabel{}
	case 2, 3, 4:
		return rapid.SampledFrom([]c09mLabel{{true, "0", true, 0, 1}, {true, "0.0", true, 0, 1}}).Draw(t, label)
	case 5, 6:
		n := rapid.Int64Range(1, 99).Draw(t, label)
		return c09mLabel{true, fmt.Sprintf("0.%02d", n), true, n, 100}
	default:
		return rapid.SampledFrom(c09mLabelPool).Draw(t, label)
	}
}

// staticShare is the effective static reserved share of resource r (fraction of capacity)
func (cs *c09mCase) staticShare(r int) *big.Rat {
	if l := cs.StaticLabel[r]; cs.ViaConfig && l.Set && l.Valid {
		return big.NewRat(l.Num, l.Den)
	}
	return c09mPctOr(cs.StaticPct[r], 0)
}

func (cs *c09mCase) String() string { b, _ := json.Marshal(cs); return string(b) }
func (cs *c09mCase) clone() *c09mCase {
	b, _ := json.Marshal(cs)
	o := &c09mCase{}
	_ = json.Unmarshal(b, o)
	return o
}

// prod = explicit koord-prod, or no priority class and a QoS that is not best-effort
func (p *c09mPod) prod() bool {
	if p.Prio != "" {
		return p.Prio == "koord-prod"
	}
	qos := p.QoS
	if qos == "" {
		qos = "BE"
		if p.Req[0] > 0 || p.Req[1] > 0 {
			qos = "LS"
		}
	}
	return qos != "BE"
}

func c09mAmount(t *rapid.T, label string, max int64) int64 {
	if max < 1 {
		max = 1
	}
	switch rapid.IntRange(0, 7).Draw(t, label+"Kind") {
	case 0:
		return 0
	case 1, 2, 3:
		return rapid.Int64Range(0, max/4+1).Draw(t, label)
	case 4, 5:
		return rapid.Int64Range(0, max/2+1).Draw(t, label)
	case 6:
		return rapid.Int64Range(0, max).Draw(t, label)
	default:
		return rapid.Int64Range(0, 2*max).Draw(t, label)
	}
}

func c09mPct(t *rapid.T, label string, nilOK bool) int64 {
	switch rapid.IntRange(0, 5).Draw(t, label+"Kind") {
	case 0:
		if nilOK {
			return -1
		}
		return 100
	case 1:
		return rapid.SampledFrom([]int64{0, 1, 50, 99, 100}).Draw(t, label)
	default:
		return rapid.Int64Range(0, 100).Draw(t, label)
	}
}

func c09mGen(t *rapid.T) *c09mCase {
	cs := &c09mCase{}
	cs.Cap[0] = rapid.OneOf(rapid.Int64Range(1000, 256000), rapid.SampledFrom([]int64{1000, 4000, 16000, 64000, 104000, 256000})).Draw(t, "capCPU")
	cs.Cap[1] = rapid.OneOf(rapid.Int64Range(1<<30, 4<<40), rapid.SampledFrom([]int64{1 << 30, 64 << 30, 1 << 40})).Draw(t, "capMem")
	for r := 0; r < 2; r++ {
		cs.AnnoRes[r] = -1
		if rapid.Bool().Draw(t, "kubeRes") {
			cs.KubeRes[r] = rapid.Int64Range(0, cs.Cap[r]/4).Draw(t, "kubeResV")
		}
		if rapid.IntRange(0, 3).Draw(t, "annoRes") == 0 {
			cs.AnnoRes[r] = c09mAmount(t, "annoResV", cs.Cap[r]/4)
		}
		cs.Thr[r] = c09mPct(t, "thr"+c09mRes[r], true)
		cs.StaticPct[r] = c09mPct(t, "static"+c09mRes[r], true)
		cs.Sys[r] = c09mAmount(t, "sys"+c09mRes[r], cs.Cap[r]/4)
		cs.NodeUse[r] = c09mAmount(t, "nodeUse"+c09mRes[r], cs.Cap[r])
		if rapid.Bool().Draw(t, "nodeBusy") { // little left: node-unused becomes the binding term
			cs.NodeUse[r] = cs.Cap[r] - c09mAmount(t, "nodeFree"+c09mRes[r], cs.Cap[r]/4)
			if cs.NodeUse[r] < 0 {
				cs.NodeUse[r] = 0
			}
		}
		cs.Reclaim[r] = c09mAmount(t, "reclaim"+c09mRes[r], cs.Cap[r]/2)
	}
	switch rapid.IntRange(0, 9).Draw(t, "nodeUseShape") {
	case 0:
		cs.NodeUse[rapid.IntRange(0, 1).Draw(t, "nodeUseMissing")] = -1
	case 1:
		cs.NodeUse = [2]int64{-1, -1}
	}
	cs.HasReclaim = rapid.IntRange(0, 5).Draw(t, "hasReclaim") > 0
	if cs.HasReclaim && rapid.IntRange(0, 9).Draw(t, "reclaimShape") == 0 {
		cs.Reclaim[rapid.IntRange(0, 1).Draw(t, "reclaimMissing")] = -1
	}
	cs.Unalloc = c09mPct(t, "unallocPct", rapid.IntRange(0, 3).Draw(t, "unallocNil") == 0)
	switch rapid.IntRange(0, 3).Draw(t, "mode") {
	case 0:
		cs.Static, cs.ModeSet = true, true
	case 1:
		cs.ModeSet = true
	}
	cs.DegradeMin = rapid.Int64Range(1, 120).Draw(t, "degradeMin")
	cs.ViaConfig = rapid.Bool().Draw(t, "viaConfig")
	if cs.ViaConfig {
		cs.StaticLabel[0] = c09mGenLabel(t, "labelStaticCPU")
		cs.StaticLabel[1] = c09mGenLabel(t, "labelStaticMem")
	}
	np := rapid.IntRange(0, 6).Draw(t, "pods")
	for i := 0; i < np; i++ {
		p := c09mPod{Name: fmt.Sprintf("p%d", i)}
		p.Prio = rapid.SampledFrom([]string{"koord-prod", "koord-prod", "", "", "koord-mid", "koord-batch", "koord-free"}).Draw(t, "prio")
		switch p.Prio {
		case "koord-prod":
			p.QoS = rapid.SampledFrom([]string{"LS", "LSR", "LSE", ""}).Draw(t, "qos")
		case "":
			p.QoS = rapid.SampledFrom([]string{"LS", "LSR", "", "", "BE"}).Draw(t, "qos")
		case "koord-mid":
			p.QoS = rapid.SampledFrom([]string{"LS", "BE"}).Draw(t, "qos")
		default:
			p.QoS = "BE"
		}
		p.Phase = rapid.SampledFrom([]corev1.PodPhase{corev1.PodRunning, corev1.PodRunning, corev1.PodRunning, corev1.PodPending, corev1.PodSucceeded, corev1.PodFailed}).Draw(t, "phase")
		for r := 0; r < 2; r++ {
			p.Req[r] = c09mAmount(t, "req"+c09mRes[r], cs.Cap[r]/4)
		}
		cs.Pods = append(cs.Pods, p)
	}
	nh := rapid.SampledFrom([]int{0, 0, 1, 2}).Draw(t, "hostApps")
	for i := 0; i < nh; i++ {
		h := struct {
			Prio string
			Use  [2]int64
		}{Prio: rapid.SampledFrom([]string{"koord-prod", "koord-prod", "koord-mid", "koord-batch", ""}).Draw(t, "hostPrio")}
		for r := 0; r < 2; r++ {
			h.Use[r] = c09mAmount(t, "hostUse", cs.Cap[r]/8)
		}
		cs.HostApps = append(cs.HostApps, h)
	}
	return cs
}

func c09mQ(r int, v int64) resource.Quantity {
	if r == 0 {
		return *resource.NewMilliQuantity(v, resource.DecimalSI)
	}
	return *resource.NewQuantity(v, resource.BinarySI)
}

func c09mRL(v [2]int64) corev1.ResourceList { // -1 = key absent
	rl := corev1.ResourceList{}
	for r := 0; r < 2; r++ {
		if v[r] >= 0 {
			rl[c09mKey[r]] = c09mQ(r, v[r])
		}
	}
	return rl
}

func (cs *c09mCase) build(ut *metav1.Time) (*configuration.ColocationStrategy, *corev1.Node, *corev1.PodList, *framework.ResourceMetrics) {
	st := &configuration.ColocationStrategy{}
	deg := cs.DegradeMin
	st.DegradeTimeMinutes = &deg
	ptr := func(v int64) *int64 {
		if v < 0 {
			return nil
		}
		return &v
	}
	st.MidCPUThresholdPercent, st.MidMemoryThresholdPercent = ptr(cs.Thr[0]), ptr(cs.Thr[1])
	st.MidUnallocatedPercent = ptr(cs.Unalloc)
	st.MidStaticCPUReservedPercent, st.MidStaticMemoryReservedPercent = ptr(cs.StaticPct[0]), ptr(cs.StaticPct[1])
	if cs.ModeSet {
		m := configuration.MidReclaimMode("dynamic")
		if cs.Static {
			m = configuration.MidReclaimModeStatic
		}
		st.MidReclaimMode = &m
	}
	node := &corev1.Node{}
	node.Name = "c09-node"
	node.Annotations = map[string]string{}
	node.Status.Capacity = c09mRL(cs.Cap)
	node.Status.Allocatable = c09mRL([2]int64{cs.Cap[0] - cs.KubeRes[0], cs.Cap[1] - cs.KubeRes[1]})
	if cs.AnnoRes[0] >= 0 || cs.AnnoRes[1] >= 0 {
		b, _ := json.Marshal(&extension.NodeReservation{Resources: c09mRL(cs.AnnoRes)})
		node.Annotations[extension.AnnotationNodeReservation] = string(b)
	}
	if cs.ViaConfig {
		keys := [2]string{extension.LabelMidStaticCPUReservedRatio, extension.LabelMidStaticMemoryReservedRatio}
		for r := 0; r < 2; r++ {
			if cs.StaticLabel[r].Set {
				if node.Labels == nil {
					node.Labels = map[string]string{}
				}
				node.Labels[keys[r]] = cs.StaticLabel[r].Str
			}
		}
		st = sloconfig.GetNodeColocationStrategy(&configuration.ColocationCfg{ColocationStrategy: *st}, node)
	}
	pl := &corev1.PodList{}
	for _, p := range cs.Pods {
		pod := corev1.Pod{}
		pod.Name, pod.Namespace = p.Name, "ns"
		pod.Labels = map[string]string{}
		if p.Prio != "" {
			pod.Labels[extension.LabelPodPriorityClass] = p.Prio
		}
		if p.QoS != "" {
			pod.Labels[extension.LabelPodQoS] = p.QoS
		}
		pod.Status.Phase = p.Phase
		ct := corev1.Container{Name: "c"}
		req := [2]int64{-1, -1}
		for r := 0; r < 2; r++ {
			if p.Req[r] > 0 {
				req[r] = p.Req[r]
			}
		}
		if rl := c09mRL(req); len(rl) > 0 {
			ct.Resources.Requests = rl
		}
		pod.Spec.Containers = []corev1.Container{ct}
		pl.Items = append(pl.Items, pod)
	}
	nm := &slov1alpha1.NodeMetric{}
	nm.Name = node.Name
	nm.Status.UpdateTime = ut
	nm.Status.NodeMetric = &slov1alpha1.NodeMetricInfo{
		NodeUsage:   slov1alpha1.ResourceMap{ResourceList: c09mRL(cs.NodeUse)},
		SystemUsage: slov1alpha1.ResourceMap{ResourceList: c09mRL(cs.Sys)},
	}
	if cs.HasReclaim {
		nm.Status.ProdReclaimableMetric = &slov1alpha1.ReclaimableMetric{Resource: slov1alpha1.ResourceMap{ResourceList: c09mRL(cs.Reclaim)}}
	}
	for i, h := range cs.HostApps {
		nm.Status.HostApplicationMetric = append(nm.Status.HostApplicationMetric, &slov1alpha1.HostApplicationMetricInfo{
			Name: fmt.Sprintf("app%d", i), Priority: extension.PriorityClass(h.Prio), Usage: slov1alpha1.ResourceMap{ResourceList: c09mRL(h.Use)}})
	}
	return st, node, pl, &framework.ResourceMetrics{NodeMetric: nm}
}

var c09mNow = time.Date(2024, 5, 17, 12, 0, 0, 0, time.UTC)

func c09mEnv() func() {
	old := clk
	clk = fakeclock.NewFakeClock(c09mNow)
	return func() { clk = old }
}

func c09mPctOr(v, def int64) *big.Rat {
	if v < 0 {
		v = def
	}
	return big.NewRat(v, 100)
}

func c09mMin(a, b *big.Rat) *big.Rat {
	if a.Cmp(b) <= 0 {
		return a
	}
	return b
}

// independent upper bounds: thr = capacity * midThreshold; recl = the documented reclaimable amount
func (cs *c09mCase) bounds(r int) (thr, recl *big.Rat) {
	c := new(big.Rat).SetInt64(cs.Cap[r])
	thr = new(big.Rat).Mul(c, c09mPctOr(cs.Thr[r], 100))
	if cs.Static {
		return thr, new(big.Rat).Mul(c, cs.staticShare(r))
	}
	var a int64 // min(prod reclaimable, node unused), at least 0
	if cs.HasReclaim && cs.Reclaim[r] > 0 {
		a = cs.Reclaim[r]
	}
	unused := int64(0)
	if cs.NodeUse[0] >= 0 && cs.NodeUse[1] >= 0 {
		unused = cs.Cap[r] - cs.NodeUse[r]
	}
	if unused < a {
		a = unused
	}
	if a < 0 {
		a = 0
	}
	sys := cs.Sys[r]
	for _, h := range cs.HostApps {
		if h.Prio == "koord-prod" {
			sys += h.Use[r]
		}
	}
	res := cs.KubeRes[r]
	if cs.AnnoRes[r] > res {
		res = cs.AnnoRes[r]
	}
	if sys > res {
		res = sys
	}
	un := cs.Cap[r] - res
	for i := range cs.Pods {
		p := &cs.Pods[i]
		if p.prod() && (p.Phase == corev1.PodRunning || p.Phase == corev1.PodPending) {
			un -= p.Req[r]
		}
	}
	if un < 0 {
		un = 0
	}
	recl = new(big.Rat).Mul(new(big.Rat).SetInt64(un), c09mPctOr(cs.Unalloc, 0))
	recl.Add(recl, new(big.Rat).SetInt64(a))
	return thr, recl
}

var c09mTol = big.NewRat(2, 1) // two float multiplications with truncation (unallocated ratio, threshold)

func c09mRun(cs *c09mCase, ut *metav1.Time) (reset bool, v [2]*big.Rat, raw string, err error) {
	st, node, pl, rm := cs.build(ut)
	items, e := (&Plugin{}).Calculate(st, node, pl, rm)
	if e != nil {
		return false, v, "", e
	}
	raw = fmt.Sprintf("%+v", items)
	if len(items) != 2 || items[0].Name != extension.MidCPU || items[1].Name != extension.MidMemory {
		return false, v, raw, fmt.Errorf("unexpected items %s", raw)
	}
	if items[0].Reset || items[1].Reset {
		if !items[0].Reset || !items[1].Reset || items[0].Quantity != nil || items[1].Quantity != nil {
			return true, v, raw, fmt.Errorf("half-reset items %s", raw)
		}
		return true, v, raw, nil
	}
	for r := 0; r < 2; r++ {
		if items[r].Quantity == nil {
			return false, v, raw, fmt.Errorf("no quantity and no reset: %s", raw)
		}
		// mid-cpu is a plain count of milli-cores, mid-memory is bytes
		v[r] = new(big.Rat).SetFrac(big.NewInt(items[r].Quantity.MilliValue()), big.NewInt(1000))
	}
	return false, v, raw, nil
}

func c09mF(r *big.Rat) string { return r.FloatString(3) }

func TestVerifC09MidBound(t *testing.T) {
	klog.LogToStderr(false)
	klog.SetOutput(io.Discard)
	rec := vk.New(t, "C09", "midBound")
	rapid.Check(t, func(t *rapid.T) {
		c := rec.Begin()
		defer c.End()
		cs := c09mGen(t)
		window := cs.DegradeMin * 60
		mode := rapid.SampledFrom([]string{"fresh", "fresh", "fresh", "fresh", "fresh", "boundary", "no-update-time", "just-stale", "stale"}).Draw(t, "staleness")
		var ut *metav1.Time
		var age int64
		switch mode {
		case "fresh":
			age = rapid.Int64Range(0, window).Draw(t, "age")
		case "boundary":
			age = window
		case "just-stale":
			age = window + 1
		case "stale":
			age = window + rapid.Int64Range(1, 7*24*3600).Draw(t, "beyond")
		}
		if mode != "no-update-time" {
			ut = &metav1.Time{Time: c09mNow.Add(-time.Duration(age) * time.Second)}
		}
		restore := c09mEnv()
		defer restore()
		reset, v, raw, err := c09mRun(cs, ut)
		if err != nil {
			c.Violation(t, "mid:error-or-malformed", "%v\ncase=%s", err, cs)
			return
		}
		c.Class("staleness:" + mode)
		if ut == nil || age > window {
			if !reset {
				c.Violation(t, "mid-stale:quantity-published-on-degraded-metrics", "metrics %s (age %ds, window %ds) but items=%s\ncase=%s", mode, age, window, raw, cs)
				return
			}
			c.NonTrivial("stale", mode, age, cs.String())
			return
		}
		if reset {
			c.Class("reset-on-fresh-metrics(not asserted)")
			return
		}
		c.ClassIf(cs.Static, "mode:static")
		c.ClassIf(!cs.Static, "mode:dynamic")
		c.ClassIf(!cs.HasReclaim, "no-prod-reclaimable")
		c.ClassIf(cs.ViaConfig, "strategy-resolved-via-config")
		for r := 0; r < 2; r++ {
			if l := cs.StaticLabel[r]; cs.ViaConfig && l.Set {
				c.ClassIf(l.Valid && l.Num == 0, "label-ratio-zero")
				c.ClassIf(l.Valid && l.Num == 0 && cs.Static && cs.StaticPct[r] > 0, "label-ratio-zero-overrides-positive-static-share")
				c.ClassIf(l.Valid && l.Num > 0, "label-ratio-positive")
				c.ClassIf(!l.Valid, "label-ratio-illegal(ignored)")
			}
		}
		c.ClassIf(cs.NodeUse[0] < 0 || cs.NodeUse[1] < 0, "invalid-node-usage")
		interior := false
		for r := 0; r < 2; r++ {
			thr, recl := cs.bounds(r)
			detail := func() string {
				return fmt.Sprintf("mid %s published=%s capacity*threshold=%s reclaimable(documented formula)=%s tol=%s\nitems=%s\ncase=%s", c09mRes[r], c09mF(v[r]), c09mF(thr), c09mF(recl), c09mF(c09mTol), raw, cs)
			}
			if v[r].Sign() < 0 {
				c.Violation(t, "mid-"+c09mRes[r]+":negative", "%s", detail())
				return
			}
			if v[r].Cmp(new(big.Rat).Add(thr, c09mTol)) > 0 {
				c.Violation(t, "mid-"+c09mRes[r]+":over-threshold-cap", "%s", detail())
				return
			}
			if v[r].Cmp(new(big.Rat).Add(recl, c09mTol)) > 0 {
				sig := "mid-" + c09mRes[r] + ":over-reclaimable"
				if cs.Static {
					sig = "mid-" + c09mRes[r] + ":over-static-reserved"
				}
				c.Violation(t, sig, "%s", detail())
				return
			}
			c.ClassIf(thr.Cmp(recl) < 0, "threshold-binding:"+c09mRes[r])
			c.ClassIf(v[r].Sign() == 0, "zero:"+c09mRes[r])
			if v[r].Sign() > 0 && thr.Cmp(recl) >= 0 {
				interior = true
			}
		}
		if !cs.Static && interior {
			c.NonTrivial(cs.String())
		}
		if c.WantSample() {
			c.Sample(map[string]any{"case": cs, "items": raw})
		}
	})
}

func TestVerifC09MidMonotone(t *testing.T) {
	klog.LogToStderr(false)
	klog.SetOutput(io.Discard)
	rec := vk.New(t, "C09", "midMonotone")
	rapid.Check(t, func(t *rapid.T) {
		c := rec.Begin()
		defer c.End()
		_ = rapid.IntRange(0, 1<<20).Draw(t, "salt") // decorrelate from midBound, which shares the generator and the seed
		base := c09mGen(t)
		if rapid.IntRange(0, 3).Draw(t, "forceDynamic") > 0 {
			base.Static = false
		}
		mut := base.clone()
		var prodPods []int
		for i := range base.Pods {
			if base.Pods[i].prod() {
				prodPods = append(prodPods, i)
			}
		}
		kinds := []string{"node-usage", "node-usage", "prod-reclaimable-shrinks", "prod-reclaimable-shrinks", "system-usage", "reservation"}
		if len(prodPods) > 0 {
			kinds = append(kinds, "prod-pod-request")
		}
		if len(base.HostApps) > 0 {
			kinds = append(kinds, "hostapp-usage")
		}
		kind := rapid.SampledFrom(kinds).Draw(t, "raiseWhat")
		r := rapid.IntRange(0, 1).Draw(t, "raiseRes")
		d := rapid.OneOf(rapid.Just(int64(1)), rapid.Int64Range(1, 1000), rapid.Int64Range(1, base.Cap[r]/2), rapid.Int64Range(1, base.Cap[r])).Draw(t, "delta")
		desc := ""
		switch kind {
		case "node-usage":
			if base.NodeUse[r] < 0 { // usage becomes known: from "nothing left" to a value is not a raise; make it known in both
				base.NodeUse[r], mut.NodeUse[r] = 0, 0
			}
			mut.NodeUse[r] += d
			desc = fmt.Sprintf("node %s usage %d -> %d", c09mRes[r], base.NodeUse[r], mut.NodeUse[r])
		case "prod-reclaimable-shrinks":
			base.HasReclaim, mut.HasReclaim = true, true
			if base.Reclaim[r] < 0 {
				base.Reclaim[r], mut.Reclaim[r] = 0, 0
			}
			base.Reclaim[r] += d
			desc = fmt.Sprintf("prod reclaimable %s %d -> %d", c09mRes[r], base.Reclaim[r], mut.Reclaim[r])
		case "system-usage":
			mut.Sys[r] += d
			desc = fmt.Sprintf("system %s usage +%d", c09mRes[r], d)
		case "reservation":
			if rapid.Bool().Draw(t, "kubelet") && base.KubeRes[r] < base.Cap[r] {
				if d > base.Cap[r]-base.KubeRes[r] {
					d = base.Cap[r] - base.KubeRes[r]
				}
				mut.KubeRes[r] += d
				desc = fmt.Sprintf("kubelet reservation %s +%d", c09mRes[r], d)
			} else {
				if mut.AnnoRes[r] < 0 {
					mut.AnnoRes[r] = 0
				}
				mut.AnnoRes[r] += d
				desc = fmt.Sprintf("annotation reservation %s %d -> %d", c09mRes[r], base.AnnoRes[r], mut.AnnoRes[r])
			}
		case "prod-pod-request":
			i := rapid.SampledFrom(prodPods).Draw(t, "pod")
			mut.Pods[i].Req[r] += d
			desc = fmt.Sprintf("prod pod %s %s request +%d", base.Pods[i].Name, c09mRes[r], d)
		case "hostapp-usage":
			i := rapid.IntRange(0, len(base.HostApps)-1).Draw(t, "hostApp")
			mut.HostApps[i].Use[r] += d
			desc = fmt.Sprintf("host application %d(%s) %s usage +%d", i, base.HostApps[i].Prio, c09mRes[r], d)
		}
		ut := &metav1.Time{Time: c09mNow.Add(-30 * time.Second)}
		restore := c09mEnv()
		defer restore()
		rb, vb, rawb, err := c09mRun(base, ut)
		if err != nil {
			c.Violation(t, "mid:error-or-malformed", "%v\ncase=%s", err, base)
			return
		}
		rm, vm, rawm, err := c09mRun(mut, ut)
		if err != nil {
			c.Violation(t, "mid:error-or-malformed", "%v\ncase=%s", err, mut)
			return
		}
		if rb || rm {
			c.Class("reset-on-fresh-metrics(not asserted)")
			return
		}
		c.Class("raise:" + kind)
		c.ClassIf(base.Static, "mode:static")
		lowered := false
		for k := 0; k < 2; k++ {
			if vm[k].Cmp(new(big.Rat).Add(vb[k], c09mTol)) > 0 {
				c.Violation(t, "mid-monotone:"+kind+":"+c09mRes[k]+"-raised", "%s: mid %s went UP from %s to %s\nbefore=%s\nafter=%s\nbase case=%s\nraised case=%s",
					desc, c09mRes[k], c09mF(vb[k]), c09mF(vm[k]), rawb, rawm, base, mut)
				return
			}
			if vm[k].Cmp(vb[k]) < 0 {
				lowered = true
			}
		}
		c.ClassIf(lowered, "raise-lowered-a-published-amount")
		if lowered {
			c.NonTrivial(base.String(), desc)
		}
		if c.WantSample() {
			c.Sample(map[string]any{"raise": desc, "before": rawb, "after": rawm, "case": base})
		}
	})
}
