//go:build verif

// C09 — Reclaimed (batch/mid) capacity is never over-promised (batch part).
// See /verif/DESIGN.md §1 C09. In-package harness (injected with -overlay).
//
// Generated node / strategy / pod set / NodeMetric / NodeResourceTopology are fed to Plugin.Calculate
// (node path calculateOnNode and NUMA-zone path calculateOnNUMALevel through a controller-runtime fake
// client, faked Clock). The oracle re-states the bound with exact rationals (math/big) from the plain
// case description; it never calls koordinator helpers to classify pods or to sum amounts.
package batchresource

import (
	"encoding/json"
	"fmt"
	"io"
	"math/big"
	"testing"
	"time"

	topov1alpha1 "github.com/k8stopologyawareschedwg/noderesourcetopology-api/pkg/apis/topology/v1alpha1"
	corev1 "k8s.io/api/core/v1"
	"k8s.io/apimachinery/pkg/api/resource"
	metav1 "k8s.io/apimachinery/pkg/apis/meta/v1"
	"k8s.io/apimachinery/pkg/runtime"
	"k8s.io/klog/v2"
	fakeclock "k8s.io/utils/clock/testing"
	"pgregory.net/rapid"
	"sigs.k8s.io/controller-runtime/pkg/client/fake"

	"github.com/koordinator-sh/koordinator/apis/configuration"
	"github.com/koordinator-sh/koordinator/apis/extension"
	slov1alpha1 "github.com/koordinator-sh/koordinator/apis/slo/v1alpha1"
	"github.com/koordinator-sh/koordinator/pkg/slo-controller/noderesource/framework"
	"github.com/koordinator-sh/koordinator/pkg/util/sloconfig"
	"github.com/koordinator-sh/koordinator/pkg/verifkit/vk"
)

// ---------------------------------------------------------------- plain case description

const (
	c09CPU = 0
	c09Mem = 1
)

var c09ResName = [2]string{"cpu", "mem"}

type c09Container struct {
	Req [2]int64 // milli-cpu, bytes; 0 = key absent
	Lim [2]int64 // 0 = key absent; otherwise >= Req
}

type c09Pod struct {
	Name       string
	PrioLabel  string // "" or koord-prod/koord-mid/koord-batch/koord-free (label koordinator.sh/priority-class)
	PrioValue  *int32 // spec.priority
	QoS        string // "" or LSE/LSR/LS/BE/SYSTEM (label koordinator.sh/qosClass)
	Phase      corev1.PodPhase
	Containers []c09Container
	HasMetric  bool
	Use        [2]int64 // reported usage (milli-cpu, bytes)
	NUMA       []int    // NUMA ids of the pod's allocation annotation (unique; may name ids that do not exist on the node), nil = none
}

type c09Usage struct {
	Name string
	Prio string // koord-prod / koord-mid / koord-batch / koord-free / ""
	Use  [2]int64
}

type c09Case struct {
	Cap        [2]int64 // node capacity: milli-cpu, bytes
	KubeRes    [2]int64 // capacity - allocatable (kubelet reservation), 0..Cap
	AnnoRes    [2]int64 // node.koordinator.sh/reservation resources; -1 = key absent
	AnnoCPUs   int      // reservedCPUs "0-(n-1)"; 0 = not set (overrides AnnoRes cpu when set)
	Thr        [2]int64 // cpu/memory reclaim threshold percent
	Policy     [2]string
	PctCap     [2]int64 // batch cpu/memory threshold percent; -1 = nil
	DegradeMin int64
	Sys        [2]int64 // system usage
	Pods       []c09Pod
	Dangling   []c09Usage // pod metrics without a pod in the list
	HostApps   []c09Usage
	HasNRT     bool
	Zones      [][2]int64 // zone allocatable: milli-cpu, bytes
	// ViaConfig: the strategy handed to the plugin is resolved the way the controller does it,
	// sloconfig.GetNodeColocationStrategy(cluster config, node), so that the per-node ratio labels apply.
	ViaConfig bool
	Label     [2]c09Label // node.koordinator.sh/cpu-reclaim-ratio, node.koordinator.sh/memory-reclaim-ratio
	// strategy layers between the cluster strategy and the ratio labels (only used by TestVerifC09BatchStrategyLayers,
	// see c09_strategy_test.go): node-pool configs of the cluster configuration and the node's strategy annotation
	PoolLabels map[string]string
	NodeCfgs   []c09Layer
	Anno       *c09Layer
}

// c09Label is a per-node ratio label. Documented rule (apis/extension/node_colocation.go, sloconfig.getNodeReclaimPercent):
// the value is a float; a parsable value >= 0 takes precedence over the configured percentage (percent = ratio*100, no upper
// limit); an illegal value (unparsable or negative) is ignored and the configured percentage stays.
type c09Label struct {
	Set      bool
	Str      string
	Valid    bool
	Num, Den int64 // exact value of a valid label
}

// validIDs returns the pod's NUMA ids that exist on a node with nz zones (documented in GetPodNUMARequestAndUsage:
// "the invalid allocated NUMA ids will be ignored"; with no valid id the pod is spread over all zones).
func (p *c09Pod) validIDs(nz int) []int {
	var out []int
	for _, z := range p.NUMA {
		if z >= 0 && z < nz {
			out = append(out, z)
		}
	}
	return out
}

// thr is the effective reclaim threshold percent of resource r as an exact rational.
func (cs *c09Case) thr(r int) *big.Rat {
	if cs.ViaConfig && cs.Label[r].Set && cs.Label[r].Valid {
		return big.NewRat(cs.Label[r].Num*100, cs.Label[r].Den)
	}
	return big.NewRat(cs.Thr[r], 1)
}

var c09LabelPool = []c09Label{
	{true, "1", true, 1, 1}, {true, "1.0", true, 1, 1}, {true, "0.65", true, 65, 100}, {true, "0.6", true, 6, 10},
	{true, "0.05", true, 5, 100}, {true, "0.001", true, 1, 1000}, {true, "0.999", true, 999, 1000}, {true, "0.355", true, 355, 1000},
	{true, "1.5", true, 3, 2}, {true, "2", true, 2, 1}, {true, "1.01", true, 101, 100},
	{true, "-0.1", false, 0, 1}, {true, "-1", false, 0, 1}, {true, "-0.0001", false, 0, 1},
	{true, "abc", false, 0, 1}, {true, "", false, 0, 1}, {true, "50%", false, 0, 1}, {true, "0,5", false, 0, 1},
}

func c09GenLabel(t *rapid.T, label string) c09Label {
	switch rapid.IntRange(0, 9).Draw(t, label+"Kind") {
	case 0, 1, 2:
		return c09Label{}
	case 3:
		return rapid.SampledFrom([]c09Label{{true, "0", true, 0, 1}, {true, "0.0", true, 0, 1}, {true, "0.00", true, 0, 1}}).Draw(t, label)
	case 4, 5, 6:
		n := rapid.Int64Range(1, 99).Draw(t, label)
		return c09Label{true, fmt.Sprintf("0.%02d", n), true, n, 100}
	default:
		return rapid.SampledFrom(c09LabelPool).Draw(t, label)
	}
}

func (cs *c09Case) clone() *c09Case {
	b, _ := json.Marshal(cs)
	out := &c09Case{}
	_ = json.Unmarshal(b, out)
	return out
}

func (cs *c09Case) String() string {
	b, _ := json.Marshal(cs)
	return string(b)
}

func (p *c09Pod) req(r int) int64 {
	var s int64
	for _, c := range p.Containers {
		s += c.Req[r]
	}
	return s
}

func (p *c09Pod) active() bool { return p.Phase == corev1.PodRunning || p.Phase == corev1.PodPending }

// c09Class re-states the koordinator priority protocol: explicit class label, else spec.priority range,
// else derived from the QoS class (koordinator label, else kubernetes QoS).
func (p *c09Pod) class() string {
	cl := ""
	if p.PrioLabel != "" {
		cl = p.PrioLabel
	} else if p.PrioValue != nil {
		v := *p.PrioValue
		switch {
		case v >= 9000 && v <= 9999:
			cl = "koord-prod"
		case v >= 7000 && v <= 7999:
			cl = "koord-mid"
		case v >= 5000 && v <= 5999:
			cl = "koord-batch"
		case v >= 3000 && v <= 3999:
			cl = "koord-free"
		}
	}
	if cl != "" {
		return cl
	}
	qos := p.QoS
	if qos == "" {
		qos = "BE" // kubernetes BestEffort
		for _, c := range p.Containers {
			if c.Req[0] > 0 || c.Req[1] > 0 || c.Lim[0] > 0 || c.Lim[1] > 0 {
				qos = "LS" // Burstable or Guaranteed: latency sensitive
			}
		}
	}
	if qos == "BE" {
		return "koord-batch"
	}
	return "koord-prod"
}

func c09IsHPClass(cl string) bool { return cl == "koord-prod" || cl == "koord-mid" }

func (p *c09Pod) hp() bool { return c09IsHPClass(p.class()) }

// ---------------------------------------------------------------- generators

var c09Policies = [2][]string{
	{"", "usage", "maxUsageRequest", "maxUsageRequest", "request" /* unsupported for cpu: documented fallback to usage */},
	{"", "usage", "request", "maxUsageRequest", "maxUsageRequest"},
}

// legal (priority, QoS) combinations of the koordinator QoS/priority protocol
var c09Combos = []struct {
	prio string
	qos  []string
}{
	{"koord-prod", []string{"LSE", "LSR", "LS", "LS", ""}},
	{"koord-prod", []string{"LSE", "LSR", "LS", "LS", ""}},
	{"koord-mid", []string{"LS", "BE", ""}},
	{"koord-batch", []string{"BE"}},
	{"koord-free", []string{"BE"}},
	{"", []string{"LSE", "LSR", "LS", "LS", "BE", "SYSTEM", "", ""}},
	{"", []string{"LSE", "LSR", "LS", "LS", "BE", "SYSTEM", "", ""}},
}

var c09PrioValues = map[string][]int32{
	"koord-prod":  {9000, 9500, 9999},
	"koord-mid":   {7000, 7500, 7999},
	"koord-batch": {5000, 5500, 5999},
	"koord-free":  {3000, 3500, 3999},
	"":            {0, 0, 1, 2999, 4000, 6500, 8999, 10000, 2000000000},
}

func c09Amount(t *rapid.T, label string, max int64) int64 {
	if max < 1 {
		max = 1
	}
	switch rapid.IntRange(0, 9).Draw(t, label+"Kind") {
	case 0:
		return 0
	case 1:
		return rapid.Int64Range(0, max/16+1).Draw(t, label)
	case 2, 3, 4:
		return rapid.Int64Range(0, max/8+1).Draw(t, label)
	case 5, 6:
		return rapid.Int64Range(0, max/4+1).Draw(t, label)
	case 7:
		return rapid.Int64Range(0, max/2+1).Draw(t, label)
	case 8:
		return rapid.Int64Range(0, max).Draw(t, label)
	default:
		return rapid.Int64Range(0, 2*max).Draw(t, label)
	}
}

// usage relative to a request (below / equal / above / unrelated)
func c09UsageOf(t *rapid.T, label string, req, cap int64) int64 {
	switch rapid.IntRange(0, 7).Draw(t, label+"Kind") {
	case 0:
		return 0
	case 1, 2:
		return rapid.Int64Range(0, req).Draw(t, label)
	case 3:
		return req
	case 4, 5:
		return req + rapid.Int64Range(1, req+1000).Draw(t, label)
	case 6:
		return req + 1
	default:
		return c09Amount(t, label, cap)
	}
}

// reclaim threshold percent: realistic values dominate, boundaries and >100 (admitted by the validator: min=0, no max; used by the
// package's own unit tests) are kept as minorities. rapid favours small draws, so the common shapes come first.
func c09GenThr(t *rapid.T, label string) int64 {
	switch rapid.IntRange(0, 9).Draw(t, label+"Kind") {
	case 0, 1:
		return rapid.SampledFrom([]int64{60, 65, 70, 80, 90}).Draw(t, label)
	case 2, 3, 4, 5:
		return rapid.Int64Range(40, 100).Draw(t, label)
	case 6, 7:
		return rapid.Int64Range(0, 100).Draw(t, label)
	case 8:
		return rapid.SampledFrom([]int64{100, 0, 1, 99}).Draw(t, label)
	default:
		return rapid.Int64Range(101, 200).Draw(t, label)
	}
}

// percentage cap of node capacity
func c09GenPct(t *rapid.T, label string) int64 {
	switch rapid.IntRange(0, 9).Draw(t, label+"Kind") {
	case 0, 1, 2, 3:
		return rapid.Int64Range(0, 100).Draw(t, label)
	case 4, 5:
		return rapid.SampledFrom([]int64{50, 20, 10, 0, 100}).Draw(t, label)
	case 6, 7:
		return rapid.Int64Range(0, 40).Draw(t, label)
	case 8:
		return rapid.SampledFrom([]int64{1, 99}).Draw(t, label)
	default:
		return rapid.Int64Range(101, 200).Draw(t, label)
	}
}

func c09GenCase(t *rapid.T) *c09Case {
	cs := &c09Case{}
	if rapid.Bool().Draw(t, "capCPURound") {
		cs.Cap[0] = 1000 * rapid.SampledFrom([]int64{8, 16, 32, 4, 64, 96, 104, 128, 48, 192, 256, 2, 1}).Draw(t, "capCores")
	} else {
		cs.Cap[0] = rapid.OneOf(rapid.Int64Range(8000, 128000), rapid.Int64Range(8000, 128000), rapid.Int64Range(1000, 256000)).Draw(t, "capMilli")
	}
	if rapid.Bool().Draw(t, "capMemRound") {
		cs.Cap[1] = (1 << 30) * rapid.Int64Range(1, 4096).Draw(t, "capGiB")
	} else {
		cs.Cap[1] = rapid.Int64Range(1<<30, 4<<40).Draw(t, "capBytes")
	}
	for r := 0; r < 2; r++ {
		switch rapid.IntRange(0, 5).Draw(t, "kubeResKind") {
		case 0, 1:
		case 2, 3, 4:
			cs.KubeRes[r] = rapid.Int64Range(0, cs.Cap[r]/10).Draw(t, "kubeRes")
		default:
			cs.KubeRes[r] = rapid.Int64Range(0, cs.Cap[r]).Draw(t, "kubeRes")
		}
		cs.AnnoRes[r] = -1
	}
	switch rapid.IntRange(0, 5).Draw(t, "annoMode") {
	case 0, 1, 2:
	case 3:
		cs.AnnoRes[0] = c09Amount(t, "annoCPU", cs.Cap[0]/4)
		cs.AnnoRes[1] = c09Amount(t, "annoMem", cs.Cap[1]/4)
	case 4:
		cs.AnnoCPUs = rapid.OneOf(rapid.IntRange(1, int(cs.Cap[0]/8000)+1), rapid.IntRange(1, int(cs.Cap[0]/1000))).Draw(t, "annoCPUs")
		if rapid.Bool().Draw(t, "annoMemToo") {
			cs.AnnoRes[1] = c09Amount(t, "annoMem", cs.Cap[1]/2)
		}
	default:
		r := rapid.IntRange(0, 1).Draw(t, "annoOnly")
		cs.AnnoRes[r] = c09Amount(t, "annoOne", cs.Cap[r]/2)
	}
	for r := 0; r < 2; r++ {
		cs.Thr[r] = c09GenThr(t, "thr"+c09ResName[r])
		cs.Policy[r] = rapid.SampledFrom(c09Policies[r]).Draw(t, "policy"+c09ResName[r])
		cs.PctCap[r] = -1
		if rapid.IntRange(0, 2).Draw(t, "hasPctCap") > 0 {
			cs.PctCap[r] = c09GenPct(t, "pctCap"+c09ResName[r])
		}
		cs.Sys[r] = c09Amount(t, "sys"+c09ResName[r], cs.Cap[r]/4)
	}
	cs.DegradeMin = rapid.Int64Range(1, 120).Draw(t, "degradeMin")
	cs.ViaConfig = rapid.Bool().Draw(t, "viaConfig")
	if cs.ViaConfig {
		cs.Label[0] = c09GenLabel(t, "labelCPURatio")
		cs.Label[1] = c09GenLabel(t, "labelMemRatio")
	}

	// zones
	nz := rapid.SampledFrom([]int{-1, 0, 1, 2, 2, 3, 4}).Draw(t, "zones")
	if nz >= 0 {
		cs.HasNRT = true
		for i := 0; i < nz; i++ {
			var z [2]int64
			for r := 0; r < 2; r++ {
				even := cs.Cap[r] / int64(nz)
				switch rapid.IntRange(0, 2).Draw(t, "zoneKind") {
				case 0:
					z[r] = even
				case 1:
					z[r] = rapid.Int64Range(even/2, even+even/2).Draw(t, "zoneAlloc")
				default:
					z[r] = rapid.Int64Range(0, cs.Cap[r]).Draw(t, "zoneAlloc")
				}
			}
			cs.Zones = append(cs.Zones, z)
		}
	}

	// pods
	podCounts := []int{3, 4, 2, 5, 1, 6, 0, 7, 8, 3, 4, 5}
	if vk.Thorough() {
		podCounts = append(podCounts, 10, 12, 14)
	}
	np := rapid.SampledFrom(podCounts).Draw(t, "pods")
	// a per-case scale keeps the sum of requests around the node size instead of far above it
	perPod := [2]int64{cs.Cap[0], cs.Cap[1]}
	if np > 2 {
		perPod = [2]int64{cs.Cap[0] * 2 / int64(np), cs.Cap[1] * 2 / int64(np)}
	}
	for i := 0; i < np; i++ {
		p := c09Pod{Name: fmt.Sprintf("p%d", i)}
		combo := rapid.SampledFrom(c09Combos).Draw(t, "combo")
		p.QoS = rapid.SampledFrom(combo.qos).Draw(t, "qos")
		switch rapid.IntRange(0, 3).Draw(t, "prioMode") {
		case 0, 1:
			p.PrioLabel = combo.prio
			if combo.prio == "" && rapid.Bool().Draw(t, "prioZero") {
				v := int32(0) // admission sets priority 0 on pods without a priority class
				p.PrioValue = &v
			}
		case 2:
			v := rapid.SampledFrom(c09PrioValues[combo.prio]).Draw(t, "prioValue")
			p.PrioValue = &v
		default:
			p.PrioLabel = combo.prio
			if combo.prio != "" {
				v := rapid.SampledFrom(c09PrioValues[combo.prio]).Draw(t, "prioValue")
				p.PrioValue = &v
			}
		}
		p.Phase = rapid.SampledFrom([]corev1.PodPhase{corev1.PodRunning, corev1.PodRunning, corev1.PodRunning, corev1.PodRunning,
			corev1.PodPending, corev1.PodPending, corev1.PodSucceeded, corev1.PodFailed, corev1.PodUnknown}).Draw(t, "phase")
		nc := rapid.SampledFrom([]int{1, 1, 1, 2, 3}).Draw(t, "containers")
		for j := 0; j < nc; j++ {
			var c c09Container
			for r := 0; r < 2; r++ {
				if p.QoS == "LSE" || p.QoS == "LSR" {
					if r == 0 { // cpuset pods request whole cores
						c.Req[0] = 1000 * (c09Amount(t, "reqCores", perPod[0]/int64(nc))/1000)
						if c.Req[0] == 0 {
							c.Req[0] = 1000
						}
					} else {
						c.Req[1] = c09Amount(t, "req"+c09ResName[r], perPod[r]/int64(nc)) + 1
					}
					c.Lim[r] = c.Req[r]
					continue
				}
				c.Req[r] = c09Amount(t, "req"+c09ResName[r], perPod[r]/int64(nc))
				switch rapid.IntRange(0, 2).Draw(t, "limKind") {
				case 0:
				case 1:
					c.Lim[r] = c.Req[r]
				default:
					if c.Req[r] > 0 {
						c.Lim[r] = c.Req[r] + c09Amount(t, "limExtra", perPod[r])
					}
				}
			}
			p.Containers = append(p.Containers, c)
		}
		p.HasMetric = rapid.IntRange(0, 9).Draw(t, "hasMetric") < 6
		if p.HasMetric {
			for r := 0; r < 2; r++ {
				p.Use[r] = c09UsageOf(t, "use"+c09ResName[r], p.req(r), cs.Cap[r])
			}
			if p.QoS == "LSE" && rapid.IntRange(0, 3).Draw(t, "lseWithin") > 0 && p.Use[0] > p.req(0) {
				p.Use[0] = p.req(0) // exclusive cpuset: usage cannot exceed the bound cpus (kept as a rare case anyway)
			}
		}
		if len(cs.Zones) > 0 && rapid.IntRange(0, 2).Draw(t, "numaBound") == 0 {
			mask := rapid.SliceOfN(rapid.Bool(), len(cs.Zones), len(cs.Zones)).Draw(t, "numaMask")
			for zi, b := range mask {
				if b {
					p.NUMA = append(p.NUMA, zi)
				}
			}
			if len(p.NUMA) == 0 {
				p.NUMA = []int{rapid.IntRange(0, len(cs.Zones)-1).Draw(t, "numaOne")}
			}
			// ids that do not exist on this node (stale annotation, topology changed): mixed with valid ones, or all invalid
			bad := func() {
				ids := []int{len(cs.Zones), len(cs.Zones) + 1, len(cs.Zones) + 2, 7, -1}
				k := rapid.IntRange(1, 2).Draw(t, "numaBadCount")
				off := rapid.IntRange(0, len(ids)-1).Draw(t, "numaBadFirst")
				for j := 0; j < k; j++ {
					id := ids[(off+j)%len(ids)]
					dup := false
					for _, z := range p.NUMA {
						dup = dup || z == id
					}
					if !dup {
						p.NUMA = append(p.NUMA, id)
					}
				}
			}
			switch rapid.IntRange(0, 5).Draw(t, "numaInvalid") {
			case 4:
				bad()
			case 5:
				p.NUMA = nil
				bad()
			}
		}
		cs.Pods = append(cs.Pods, p)
	}
	prios := []string{"koord-prod", "koord-prod", "koord-mid", "koord-batch", "koord-free", ""}
	nd := rapid.SampledFrom([]int{0, 0, 0, 1, 1, 2, 3}).Draw(t, "dangling")
	for i := 0; i < nd; i++ {
		u := c09Usage{Name: fmt.Sprintf("gone%d", i), Prio: rapid.SampledFrom(prios).Draw(t, "danglingPrio")}
		for r := 0; r < 2; r++ {
			u.Use[r] = c09Amount(t, "danglingUse", cs.Cap[r]/4)
		}
		cs.Dangling = append(cs.Dangling, u)
	}
	nh := rapid.SampledFrom([]int{0, 0, 0, 1, 1, 2}).Draw(t, "hostApps")
	for i := 0; i < nh; i++ {
		u := c09Usage{Name: fmt.Sprintf("app%d", i), Prio: rapid.SampledFrom(prios).Draw(t, "hostAppPrio")}
		for r := 0; r < 2; r++ {
			u.Use[r] = c09Amount(t, "hostAppUse", cs.Cap[r]/4)
		}
		cs.HostApps = append(cs.HostApps, u)
	}
	return cs
}

// ---------------------------------------------------------------- building the koordinator objects

const c09NodeName = "c09-node"

func c09Q(r int, v int64) resource.Quantity {
	if r == c09CPU {
		return *resource.NewMilliQuantity(v, resource.DecimalSI)
	}
	return *resource.NewQuantity(v, resource.BinarySI)
}

func c09RL(v [2]int64) corev1.ResourceList {
	return corev1.ResourceList{corev1.ResourceCPU: c09Q(0, v[0]), corev1.ResourceMemory: c09Q(1, v[1])}
}

var c09ResKey = [2]corev1.ResourceName{corev1.ResourceCPU, corev1.ResourceMemory}

type c09Objects struct {
	strategy *configuration.ColocationStrategy
	node     *corev1.Node
	pods     *corev1.PodList
	metrics  *framework.ResourceMetrics
	nrt      *topov1alpha1.NodeResourceTopology
}

func (cs *c09Case) build(updateTime *metav1.Time) *c09Objects {
	o := &c09Objects{}
	st := &configuration.ColocationStrategy{}
	enable := true
	st.Enable = &enable
	thrCPU, thrMem, deg, upd, diff := cs.Thr[0], cs.Thr[1], cs.DegradeMin, int64(300), 0.1
	st.CPUReclaimThresholdPercent, st.MemoryReclaimThresholdPercent = &thrCPU, &thrMem
	st.DegradeTimeMinutes, st.UpdateTimeThresholdSeconds, st.ResourceDiffThreshold = &deg, &upd, &diff
	if cs.Policy[0] != "" {
		p := configuration.CalculatePolicy(cs.Policy[0])
		st.CPUCalculatePolicy = &p
	}
	if cs.Policy[1] != "" {
		p := configuration.CalculatePolicy(cs.Policy[1])
		st.MemoryCalculatePolicy = &p
	}
	if cs.PctCap[0] >= 0 {
		v := cs.PctCap[0]
		st.BatchCPUThresholdPercent = &v
	}
	if cs.PctCap[1] >= 0 {
		v := cs.PctCap[1]
		st.BatchMemoryThresholdPercent = &v
	}
	node := &corev1.Node{}
	node.Name = c09NodeName
	node.Status.Capacity = c09RL(cs.Cap)
	node.Status.Allocatable = c09RL([2]int64{cs.Cap[0] - cs.KubeRes[0], cs.Cap[1] - cs.KubeRes[1]})
	if cs.AnnoRes[0] >= 0 || cs.AnnoRes[1] >= 0 || cs.AnnoCPUs > 0 {
		res := extension.NodeReservation{}
		for r := 0; r < 2; r++ {
			if cs.AnnoRes[r] >= 0 {
				if res.Resources == nil {
					res.Resources = corev1.ResourceList{}
				}
				res.Resources[c09ResKey[r]] = c09Q(r, cs.AnnoRes[r])
			}
		}
		if cs.AnnoCPUs > 0 {
			if cs.AnnoCPUs == 1 {
				res.ReservedCPUs = "0"
			} else {
				res.ReservedCPUs = fmt.Sprintf("0-%d", cs.AnnoCPUs-1)
			}
		}
		b, _ := json.Marshal(&res)
		node.Annotations = map[string]string{extension.AnnotationNodeReservation: string(b)}
	}
	o.node = node
	o.strategy = st
	if cs.ViaConfig {
		keys := [2]string{extension.LabelCPUReclaimRatio, extension.LabelMemoryReclaimRatio}
		for r := 0; r < 2; r++ {
			if cs.Label[r].Set {
				if node.Labels == nil {
					node.Labels = map[string]string{}
				}
				node.Labels[keys[r]] = cs.Label[r].Str
			}
		}
		cfg := &configuration.ColocationCfg{ColocationStrategy: *st}
		cs.addLayers(cfg, node)
		// what NodeResourceReconciler.calculateNodeResource does with the cluster configuration
		o.strategy = sloconfig.GetNodeColocationStrategy(cfg, node)
	}

	pl := &corev1.PodList{}
	nm := &slov1alpha1.NodeMetric{}
	nm.Name = c09NodeName
	nm.Status.UpdateTime = updateTime
	nm.Status.NodeMetric = &slov1alpha1.NodeMetricInfo{
		SystemUsage: slov1alpha1.ResourceMap{ResourceList: c09RL(cs.Sys)},
	}
	for i := range cs.Pods {
		p := &cs.Pods[i]
		pod := corev1.Pod{}
		pod.Name, pod.Namespace = p.Name, "ns"
		pod.Spec.NodeName = c09NodeName
		pod.Status.Phase = p.Phase
		if p.PrioLabel != "" || p.QoS != "" {
			pod.Labels = map[string]string{}
			if p.PrioLabel != "" {
				pod.Labels[extension.LabelPodPriorityClass] = p.PrioLabel
			}
			if p.QoS != "" {
				pod.Labels[extension.LabelPodQoS] = p.QoS
			}
		}
		if p.PrioValue != nil {
			v := *p.PrioValue
			pod.Spec.Priority = &v
		}
		for j, c := range p.Containers {
			ct := corev1.Container{Name: fmt.Sprintf("c%d", j)}
			for r := 0; r < 2; r++ {
				if c.Req[r] > 0 {
					if ct.Resources.Requests == nil {
						ct.Resources.Requests = corev1.ResourceList{}
					}
					ct.Resources.Requests[c09ResKey[r]] = c09Q(r, c.Req[r])
				}
				if c.Lim[r] > 0 {
					if ct.Resources.Limits == nil {
						ct.Resources.Limits = corev1.ResourceList{}
					}
					ct.Resources.Limits[c09ResKey[r]] = c09Q(r, c.Lim[r])
				}
			}
			pod.Spec.Containers = append(pod.Spec.Containers, ct)
		}
		if len(p.NUMA) > 0 {
			rs := extension.ResourceStatus{}
			for _, zi := range p.NUMA {
				rs.NUMANodeResources = append(rs.NUMANodeResources, extension.NUMANodeResource{Node: int32(zi)})
			}
			b, _ := json.Marshal(&rs)
			pod.Annotations = map[string]string{extension.AnnotationResourceStatus: string(b)}
		}
		pl.Items = append(pl.Items, pod)
		if p.HasMetric {
			nm.Status.PodsMetric = append(nm.Status.PodsMetric, &slov1alpha1.PodMetricInfo{
				Name: p.Name, Namespace: "ns", PodUsage: slov1alpha1.ResourceMap{ResourceList: c09RL(p.Use)},
				Priority: extension.PriorityClass(p.class()), // koordlet reports the effective class
			})
		}
	}
	for _, d := range cs.Dangling {
		nm.Status.PodsMetric = append(nm.Status.PodsMetric, &slov1alpha1.PodMetricInfo{
			Name: d.Name, Namespace: "ns", PodUsage: slov1alpha1.ResourceMap{ResourceList: c09RL(d.Use)},
			Priority: extension.PriorityClass(d.Prio),
		})
	}
	for _, h := range cs.HostApps {
		nm.Status.HostApplicationMetric = append(nm.Status.HostApplicationMetric, &slov1alpha1.HostApplicationMetricInfo{
			Name: h.Name, Usage: slov1alpha1.ResourceMap{ResourceList: c09RL(h.Use)}, Priority: extension.PriorityClass(h.Prio),
		})
	}
	o.pods = pl
	o.metrics = &framework.ResourceMetrics{NodeMetric: nm}

	if cs.HasNRT {
		nrt := &topov1alpha1.NodeResourceTopology{}
		nrt.Name = c09NodeName
		nrt.TopologyPolicies = []string{string(topov1alpha1.None)}
		for i, z := range cs.Zones {
			zone := topov1alpha1.Zone{Name: fmt.Sprintf("node-%d", i), Type: "Node"}
			for r := 0; r < 2; r++ {
				q := c09Q(r, z[r])
				zone.Resources = append(zone.Resources, topov1alpha1.ResourceInfo{Name: string(c09ResKey[r]), Capacity: q, Allocatable: q, Available: q})
			}
			nrt.Zones = append(nrt.Zones, zone)
		}
		o.nrt = nrt
	}
	return o
}

var c09Scheme = func() *runtime.Scheme {
	s := runtime.NewScheme()
	_ = corev1.AddToScheme(s)
	_ = slov1alpha1.AddToScheme(s)
	_ = topov1alpha1.AddToScheme(s)
	return s
}()

var c09Now = time.Date(2024, 5, 17, 12, 0, 0, 0, time.UTC)

// c09Env installs the package-level client and Clock for one case and returns the restore function.
func c09Env(nrt *topov1alpha1.NodeResourceTopology) func() {
	oldClient, oldClock := client, Clock
	b := fake.NewClientBuilder().WithScheme(c09Scheme)
	if nrt != nil {
		b = b.WithObjects(nrt)
	}
	client = b.Build()
	Clock = fakeclock.NewFakeClock(c09Now)
	return func() { client, Clock = oldClient, oldClock }
}

// published amounts, as exact rationals in milli-cpu / bytes
type c09Published struct {
	reset bool
	node  [2]*big.Rat
	zones [][2]*big.Rat // nil when no zone amounts were published
	raw   string
}

func c09MilliRat(q resource.Quantity) *big.Rat {
	return new(big.Rat).SetFrac(big.NewInt(q.MilliValue()), big.NewInt(1000))
}

// c09Run calls Plugin.Calculate and decodes the items. ok=false when the result has an unexpected shape (reported by the caller).
func c09Run(cs *c09Case, o *c09Objects) (*c09Published, error) {
	p := &Plugin{}
	items, err := p.Calculate(o.strategy, o.node, o.pods, o.metrics)
	if err != nil {
		return nil, err
	}
	if len(items) != 2 || items[0].Name != extension.BatchCPU || items[1].Name != extension.BatchMemory {
		return nil, fmt.Errorf("unexpected items %+v", items)
	}
	out := &c09Published{raw: fmt.Sprintf("%+v", items)}
	if items[0].Reset || items[1].Reset {
		out.reset = true
		return out, nil
	}
	if items[0].Quantity == nil || items[1].Quantity == nil {
		return nil, fmt.Errorf("item without quantity and without reset: %+v", items)
	}
	// batch-cpu is published as a plain count of milli-cores (Quantity value N = N milli-cores), batch-memory in bytes
	out.node[0] = c09MilliRat(*items[0].Quantity)
	out.node[1] = c09MilliRat(*items[1].Quantity)
	if items[0].ZoneQuantity != nil || items[1].ZoneQuantity != nil {
		for i := range cs.Zones {
			name := fmt.Sprintf("node-%d", i)
			zc, ok0 := items[0].ZoneQuantity[name]
			zm, ok1 := items[1].ZoneQuantity[name]
			if !ok0 || !ok1 {
				return nil, fmt.Errorf("zone %s missing in %+v", name, items)
			}
			out.zones = append(out.zones, [2]*big.Rat{c09MilliRat(zc), c09MilliRat(zm)})
		}
		if len(items[0].ZoneQuantity) != len(cs.Zones) || len(items[1].ZoneQuantity) != len(cs.Zones) {
			return nil, fmt.Errorf("zone amounts for unknown zones: %+v", items)
		}
	}
	return out, nil
}

// ---------------------------------------------------------------- the independent bound (exact rationals)

func c09R(v int64) *big.Rat { return new(big.Rat).SetInt64(v) }

func c09MaxRat(a, b *big.Rat) *big.Rat {
	if a.Cmp(b) >= 0 {
		return a
	}
	return b
}

type c09Bound struct {
	weak   *big.Rat // metric-less pods not charged, LSE cpu charged min(request, usage)
	lse    *big.Rat // + LSE pods charged their cpu request under the usage policy
	strict *big.Rat // + metric-less high-priority pods charged at their request
	// full: + dangling pod metrics that carry NO priority class. koordinator's documented definition of high priority in this
	// calculation is "not Batch or Free" (plugin.go: "HP means High-Priority (i.e. not Batch or Free) pods"; "count them
	// according to the metric priority"): a metric without a class is not known to be low priority and is charged.  (= the statement)
	full *big.Rat
	pct    *big.Rat // percentage cap, nil when not configured
	policy string
}

func (cs *c09Case) effPolicy(r int) string {
	switch cs.Policy[r] {
	case "maxUsageRequest":
		return "maxUsageRequest"
	case "request":
		if r == c09Mem {
			return "request"
		}
	}
	return "usage"
}

// bound for resource r on the node (zi < 0) or on zone zi.
func (cs *c09Case) bound(r, zi int) c09Bound {
	pol := cs.effPolicy(r)
	capacity := cs.Cap[r]
	div := int64(1)
	if zi >= 0 {
		capacity = cs.Zones[zi][r]
		div = int64(len(cs.Zones))
	}
	share := big.NewRat(1, div)
	c := c09R(capacity)
	margin := new(big.Rat).Mul(c, new(big.Rat).Quo(new(big.Rat).Sub(big.NewRat(100, 1), cs.thr(r)), big.NewRat(100, 1)))
	avail := new(big.Rat).Sub(c, margin)

	reserved := cs.KubeRes[r]
	anno := cs.AnnoRes[r]
	if r == c09CPU && cs.AnnoCPUs > 0 {
		anno = int64(cs.AnnoCPUs) * 1000
	}
	if anno > reserved {
		reserved = anno
	}
	sys := cs.Sys[r]
	for _, h := range cs.HostApps {
		if c09IsHPClass(h.Prio) {
			sys += h.Use[r]
		}
	}
	base := c09R(reserved)
	if pol != "request" {
		base = c09MaxRat(base, c09R(sys))
	}
	avail.Sub(avail, new(big.Rat).Mul(base, share))

	weak, lse, strict, unclassified := new(big.Rat), new(big.Rat), new(big.Rat), new(big.Rat)
	for i := range cs.Pods {
		p := &cs.Pods[i]
		if !p.active() || !p.hp() {
			continue
		}
		f := share
		if valid := p.validIDs(len(cs.Zones)); zi >= 0 && len(valid) > 0 {
			f = new(big.Rat)
			for _, z := range valid {
				if z == zi {
					f = big.NewRat(1, int64(len(valid)))
				}
			}
		}
		req, use := p.req(r), p.Use[r]
		var w, l, s int64
		switch {
		case pol == "request":
			w, l, s = req, req, req
		case !p.HasMetric:
			w, l, s = 0, 0, req
		case pol == "maxUsageRequest":
			m := req
			if use > m {
				m = use
			}
			w, l, s = m, m, m
		case r == c09CPU && p.QoS == "LSE":
			w = req
			if use < w {
				w = use
			}
			l, s = req, req
		default:
			w, l, s = use, use, use
		}
		weak.Add(weak, new(big.Rat).Mul(c09R(w), f))
		lse.Add(lse, new(big.Rat).Mul(c09R(l), f))
		strict.Add(strict, new(big.Rat).Mul(c09R(s), f))
	}
	if pol != "request" {
		inList := map[string]bool{}
		for i := range cs.Pods {
			inList[cs.Pods[i].Name] = true
		}
		for _, d := range cs.Dangling {
			if c09IsHPClass(d.Prio) && !inList[d.Name] {
				u := new(big.Rat).Mul(c09R(d.Use[r]), share)
				weak.Add(weak, u)
				lse.Add(lse, u)
				strict.Add(strict, u)
			}
			if d.Prio == "" && !inList[d.Name] {
				unclassified.Add(unclassified, new(big.Rat).Mul(c09R(d.Use[r]), share))
			}
		}
	}
	b := c09Bound{policy: pol}
	b.full = new(big.Rat).Sub(new(big.Rat).Sub(avail, strict), unclassified)
	b.weak = new(big.Rat).Sub(avail, weak)
	b.lse = new(big.Rat).Sub(avail, lse)
	b.strict = new(big.Rat).Sub(avail, strict)
	if cs.PctCap[r] >= 0 {
		b.pct = new(big.Rat).Mul(c, big.NewRat(cs.PctCap[r], 100))
	}
	return b
}

// tolerance: the code path multiplies by a float ratio and truncates at most twice (safety margin, percentage cap);
// each costs at most one unit (milli-cpu / byte) plus the float error of a 4 TiB product (< 0.01).
var c09Tol = big.NewRat(2, 1)

func c09Exceeds(v, bound *big.Rat) bool { // v > max(bound,0) + tol
	b := bound
	if b.Sign() < 0 {
		b = new(big.Rat)
	}
	return v.Cmp(new(big.Rat).Add(b, c09Tol)) > 0
}

func c09F(r *big.Rat) string {
	if r == nil {
		return "-"
	}
	return r.FloatString(3)
}

// c09CheckAmount asserts non-negativity, the percentage cap and the staged upper bound for one published amount.
func c09CheckAmount(t *rapid.T, c *vk.Case, cs *c09Case, where string, r int, v *big.Rat, b c09Bound, raw string) bool {
	pre := where + "-" + c09ResName[r] + ":"
	detail := func() string {
		return fmt.Sprintf("%s %s published=%s bound(statement)=%s bound(lse-at-usage)=%s bound(no-metric-uncharged)=%s pctCap=%s policy=%s tol=%s\nitems=%s\ncase=%s",
			where, c09ResName[r], c09F(v), c09F(b.strict), c09F(b.lse), c09F(b.weak), c09F(b.pct), b.policy, c09F(c09Tol), raw, cs)
	}
	if v.Sign() < 0 {
		return c.Violation(t, pre+"negative", "%s", detail())
	}
	if b.pct != nil && v.Cmp(new(big.Rat).Add(b.pct, c09Tol)) > 0 {
		return c.Violation(t, pre+"over-percent-cap", "%s", detail())
	}
	if c09Exceeds(v, b.weak) {
		return c.Violation(t, pre+"over-bound", "%s", detail())
	}
	if c09Exceeds(v, b.lse) {
		return c.Violation(t, pre+"lse-cpu-not-charged-at-request", "%s", detail())
	}
	if c09Exceeds(v, b.strict) {
		// one defect class per (level, policy): the resource is in the message, not in the signature
		return c.Violation(t, where+":no-metric-pod-not-charged-at-request:"+b.policy, "%s", detail())
	}
	if c09Exceeds(v, b.full) {
		return c.Violation(t, where+":dangling-metric-without-priority-class-not-charged", "bound incl. unclassified dangling metrics=%s; %s", c09F(b.full), detail())
	}
	return false
}

func c09Quiet() {
	klog.LogToStderr(false)
	klog.SetOutput(io.Discard)
}

// ---------------------------------------------------------------- (1) bound, non-negativity, cap, charge-at-request (node and zones)

func TestVerifC09BatchBound(t *testing.T) {
	c09Quiet()
	rec := vk.New(t, "C09", "batchBound")
	rapid.Check(t, func(t *rapid.T) {
		c := rec.Begin()
		defer c.End()
		cs := c09GenCase(t)
		age := time.Duration(rapid.Int64Range(0, cs.DegradeMin*60).Draw(t, "ageSeconds")) * time.Second // fresh, up to exactly the window
		o := cs.build(&metav1.Time{Time: c09Now.Add(-age)})
		restore := c09Env(o.nrt)
		defer restore()
		pub, err := c09Run(cs, o)
		if err != nil {
			c.Violation(t, "calculate:error-or-malformed", "%v\ncase=%s", err, cs)
			return
		}
		if pub.reset {
			// withdrawing is always safe; the statement does not forbid it, but nothing can be checked then
			c.Class("reset-on-fresh-metrics(not asserted)")
			return
		}

		// classes
		var hpNoMetric, hpOver, lse, numaBound bool
		for i := range cs.Pods {
			p := &cs.Pods[i]
			if !p.active() || !p.hp() {
				continue
			}
			if !p.HasMetric {
				hpNoMetric = true
			} else {
				if p.Use[0] > p.req(0) || p.Use[1] > p.req(1) {
					hpOver = true
				}
				if p.QoS == "LSE" {
					lse = true
					c.ClassIf(p.Use[0] > p.req(0), "lse-usage-over-request")
				}
			}
			if v := p.validIDs(len(cs.Zones)); len(v) > 0 && len(cs.Zones) > 1 && len(v) < len(cs.Zones) {
				numaBound = true
			}
			if len(p.NUMA) > 0 && len(cs.Zones) > 0 {
				v := p.validIDs(len(cs.Zones))
				c.ClassIf(len(v) > 0 && len(v) < len(p.NUMA), "numa-ids-mixed-valid-invalid")
				c.ClassIf(len(v) == 0, "numa-ids-all-invalid")
			}
		}
		danglingHP, hostHP := false, false
		for _, d := range cs.Dangling {
			danglingHP = danglingHP || c09IsHPClass(d.Prio)
			if d.Prio == "" && (d.Use[0] > 0 || d.Use[1] > 0) {
				c.Class("dangling-metric-without-priority-class")
				c.ClassIf(len(pub.zones) > 0, "dangling-metric-without-priority-class+zones-published")
			}
		}
		for _, h := range cs.HostApps {
			hostHP = hostHP || c09IsHPClass(h.Prio)
		}
		c.Class("policy:cpu=" + cs.effPolicy(0) + ",mem=" + cs.effPolicy(1))
		c.ClassIf(cs.Policy[0] == "request", "cpu-policy-request(unsupported->usage)")
		c.ClassIf(hpNoMetric, "hp-pod-without-metric")
		c.ClassIf(hpOver, "hp-pod-usage-over-request")
		c.ClassIf(lse, "lse-with-metric")
		c.ClassIf(danglingHP, "dangling-hp-metric")
		c.ClassIf(hostHP, "hostapp-hp")
		c.ClassIf(numaBound, "numa-bound-hp-pod")
		hundred := big.NewRat(100, 1)
		c.ClassIf(cs.thr(0).Cmp(hundred) > 0 || cs.thr(1).Cmp(hundred) > 0, "threshold>100")
		c.ClassIf(cs.ViaConfig, "strategy-resolved-via-config")
		for r := 0; r < 2; r++ {
			if l := cs.Label[r]; cs.ViaConfig && l.Set {
				c.ClassIf(l.Valid && l.Num == 0, "label-ratio-zero")
				c.ClassIf(l.Valid && l.Num == 0 && cs.Thr[r] > 0, "label-ratio-zero-overrides-positive-cluster-threshold")
				c.ClassIf(l.Valid && l.Num > 0 && l.Num < l.Den, "label-ratio-in-(0,1)")
				c.ClassIf(l.Valid && l.Num == l.Den, "label-ratio-one")
				c.ClassIf(l.Valid && l.Num > l.Den, "label-ratio->1")
				c.ClassIf(!l.Valid, "label-ratio-illegal(ignored)")
			}
		}
		c.ClassIf(cs.AnnoRes[0] >= 0 || cs.AnnoRes[1] >= 0 || cs.AnnoCPUs > 0, "annotation-reservation")
		c.Class(fmt.Sprintf("zones-published=%d", len(pub.zones)))
		c.ClassIf(cs.HasNRT && len(cs.Zones) == 0, "nrt-without-zones")

		interior := false
		for r := 0; r < 2; r++ {
			b := cs.bound(r, -1)
			if c09CheckAmount(t, c, cs, "node", r, pub.node[r], b, pub.raw) {
				return
			}
			capBinding := b.pct != nil && b.pct.Cmp(b.strict) < 0
			c.ClassIf(capBinding, "cap-binding:"+c09ResName[r])
			c.ClassIf(b.strict.Sign() <= 0, "clamped-to-zero:"+c09ResName[r])
			c.ClassIf(cs.KubeRes[r] > cs.Sys[r] || cs.AnnoRes[r] > cs.Sys[r], "reservation-dominates-system-usage:"+c09ResName[r])
			if pub.node[r].Sign() > 0 && !capBinding {
				interior = true
			}
		}
		if len(cs.Zones) > 0 && pub.zones == nil {
			c.Class("zones-not-published(not asserted)")
		}
		for zi := range pub.zones {
			for r := 0; r < 2; r++ {
				b := cs.bound(r, zi)
				if c09CheckAmount(t, c, cs, "zone", r, pub.zones[zi][r], b, pub.raw) {
					return
				}
				c.ClassIf(pub.zones[zi][r].Sign() > 0, "zone-amount-positive")
			}
		}
		c.ClassIf(interior, "interior-result")
		if hpNoMetric && hpOver && interior {
			c.NonTrivial(cs.String())
		}
		if c.WantSample() {
			c.Sample(map[string]any{"case": cs, "published": pub.raw,
				"bound_cpu": c09F(cs.bound(0, -1).strict), "bound_mem": c09F(cs.bound(1, -1).strict)})
		}
	})
}

// ---------------------------------------------------------------- (2) monotonicity and (3) charge-at-request as metamorphic relations

type c09Mutation struct {
	kind string
	desc string
}

// c09Raise raises exactly one consumption input of mut (a clone of base); for "drop-metric" it first sets the pod's usage
// to its request in BOTH cases and then deletes the metric in mut.
func c09Raise(t *rapid.T, base, mut *c09Case) c09Mutation {
	type cand struct {
		kind string
		idx  []int
	}
	var cands []cand
	var withMetric, all, hpMetric []int
	for i := range base.Pods {
		all = append(all, i)
		if base.Pods[i].HasMetric {
			withMetric = append(withMetric, i)
			if base.Pods[i].active() && base.Pods[i].hp() {
				hpMetric = append(hpMetric, i)
			}
		}
	}
	cands = append(cands, cand{"system-usage", nil}, cand{"annotation-reservation", nil})
	if base.KubeRes[0] < base.Cap[0] || base.KubeRes[1] < base.Cap[1] {
		cands = append(cands, cand{"kubelet-reservation", nil})
	}
	if base.thr(0).Sign() > 0 || base.thr(1).Sign() > 0 {
		cands = append(cands, cand{"safety-margin", nil})
	}
	if len(withMetric) > 0 {
		cands = append(cands, cand{"pod-usage", withMetric}, cand{"pod-usage", withMetric})
	}
	if len(all) > 0 {
		cands = append(cands, cand{"pod-request", all}, cand{"pod-request", all})
	}
	if len(hpMetric) > 0 {
		cands = append(cands, cand{"drop-metric", hpMetric}, cand{"drop-metric", hpMetric})
	}
	if len(base.Dangling) > 0 {
		cands = append(cands, cand{"dangling-usage", nil})
	}
	if len(base.HostApps) > 0 {
		cands = append(cands, cand{"hostapp-usage", nil})
	}
	ci := rapid.IntRange(0, len(cands)-1).Draw(t, "raiseWhat")
	cd := cands[ci]
	r := rapid.IntRange(0, 1).Draw(t, "raiseRes")
	delta := func(max int64) int64 {
		if max < 1 {
			max = 1
		}
		switch rapid.IntRange(0, 3).Draw(t, "deltaKind") {
		case 0:
			return 1
		case 1:
			return rapid.Int64Range(1, 1000).Draw(t, "delta")
		default:
			return rapid.Int64Range(1, max).Draw(t, "delta")
		}
	}
	m := c09Mutation{kind: cd.kind}
	switch cd.kind {
	case "system-usage":
		d := delta(base.Cap[r] / 2)
		mut.Sys[r] += d
		m.desc = fmt.Sprintf("system %s usage +%d", c09ResName[r], d)
	case "annotation-reservation":
		if r == c09CPU && base.AnnoCPUs > 0 {
			d := rapid.IntRange(1, 8).Draw(t, "deltaCPUs")
			mut.AnnoCPUs += d
			m.desc = fmt.Sprintf("reservedCPUs +%d", d)
		} else {
			d := delta(base.Cap[r] / 2)
			if mut.AnnoRes[r] < 0 {
				mut.AnnoRes[r] = 0
			}
			mut.AnnoRes[r] += d
			m.desc = fmt.Sprintf("annotation reservation %s %d -> %d", c09ResName[r], base.AnnoRes[r], mut.AnnoRes[r])
		}
	case "kubelet-reservation":
		if base.KubeRes[r] >= base.Cap[r] {
			r = 1 - r
		}
		d := delta(base.Cap[r] - base.KubeRes[r])
		if d > base.Cap[r]-base.KubeRes[r] {
			d = base.Cap[r] - base.KubeRes[r]
		}
		mut.KubeRes[r] += d
		m.desc = fmt.Sprintf("kubelet reservation %s +%d", c09ResName[r], d)
	case "safety-margin":
		if base.thr(r).Sign() <= 0 {
			r = 1 - r
		}
		if l := base.Label[r]; base.ViaConfig && l.Set && l.Valid { // the label is the effective threshold: lower the label
			n := int64(0) // e.g. 0.001 -> 0
			if pct := l.Num * 100 / l.Den; pct > 0 {
				n = rapid.Int64Range(0, pct-1).Draw(t, "labelPercent")
			}
			mut.Label[r] = c09Label{true, fmt.Sprintf("0.%02d", n), true, n, 100}
			if n >= 100 {
				mut.Label[r].Str = fmt.Sprintf("%d.%02d", n/100, n%100)
			}
			if n == 0 && rapid.Bool().Draw(t, "plainZero") {
				mut.Label[r].Str = "0"
			}
			m.desc = fmt.Sprintf("%s reclaim ratio label %q -> %q (margin grows)", c09ResName[r], l.Str, mut.Label[r].Str)
		} else {
			d := rapid.Int64Range(1, base.Thr[r]).Draw(t, "deltaThr")
			mut.Thr[r] -= d
			m.desc = fmt.Sprintf("%s reclaim threshold %d -> %d (margin grows)", c09ResName[r], base.Thr[r], mut.Thr[r])
		}
	case "pod-usage":
		i := rapid.SampledFrom(cd.idx).Draw(t, "pod")
		d := delta(base.Cap[r] / 4)
		mut.Pods[i].Use[r] += d
		m.desc = fmt.Sprintf("pod %s %s usage +%d", base.Pods[i].Name, c09ResName[r], d)
	case "pod-request":
		i := rapid.SampledFrom(cd.idx).Draw(t, "pod")
		d := delta(base.Cap[r] / 4)
		if (base.Pods[i].QoS == "LSE" || base.Pods[i].QoS == "LSR") && r == c09CPU {
			d = 1000 * (d/1000 + 1)
		}
		ct := &mut.Pods[i].Containers[0]
		ct.Req[r] += d
		if ct.Lim[r] > 0 {
			ct.Lim[r] += d
		}
		m.desc = fmt.Sprintf("pod %s %s request +%d", base.Pods[i].Name, c09ResName[r], d)
	case "drop-metric":
		i := rapid.SampledFrom(cd.idx).Draw(t, "pod")
		for k := 0; k < 2; k++ {
			base.Pods[i].Use[k] = base.Pods[i].req(k)
			mut.Pods[i].Use[k] = 0
		}
		mut.Pods[i].HasMetric = false
		m.desc = fmt.Sprintf("pod %s: metric with usage == request (cpu %d, mem %d) deleted", base.Pods[i].Name, base.Pods[i].req(0), base.Pods[i].req(1))
	case "dangling-usage":
		i := rapid.IntRange(0, len(base.Dangling)-1).Draw(t, "dangling")
		d := delta(base.Cap[r] / 4)
		mut.Dangling[i].Use[r] += d
		m.desc = fmt.Sprintf("dangling metric %s(%s) %s usage +%d", base.Dangling[i].Name, base.Dangling[i].Prio, c09ResName[r], d)
	case "hostapp-usage":
		i := rapid.IntRange(0, len(base.HostApps)-1).Draw(t, "hostApp")
		d := delta(base.Cap[r] / 4)
		mut.HostApps[i].Use[r] += d
		m.desc = fmt.Sprintf("host application %s(%s) %s usage +%d", base.HostApps[i].Name, base.HostApps[i].Prio, c09ResName[r], d)
	}
	return m
}

func TestVerifC09BatchMonotone(t *testing.T) {
	c09Quiet()
	rec := vk.New(t, "C09", "batchMonotone")
	rapid.Check(t, func(t *rapid.T) {
		c := rec.Begin()
		defer c.End()
		_ = rapid.IntRange(0, 1<<20).Draw(t, "salt") // decorrelate from batchBound, which shares the generator and the seed
		base := c09GenCase(t)
		// the mutation is drawn on a clone; drop-metric also normalises the base case
		mut := base.clone()
		m := c09Raise(t, base, mut)
		ut := &metav1.Time{Time: c09Now.Add(-30 * time.Second)}
		ob, om := base.build(ut), mut.build(ut)
		restore := c09Env(ob.nrt)
		defer restore()
		pb, err := c09Run(base, ob)
		if err != nil {
			c.Violation(t, "calculate:error-or-malformed", "%v\ncase=%s", err, base)
			return
		}
		pm, err := c09Run(mut, om)
		if err != nil {
			c.Violation(t, "calculate:error-or-malformed", "%v\ncase=%s", err, mut)
			return
		}
		if pb.reset || pm.reset {
			c.Class("reset-on-fresh-metrics(not asserted)")
			return
		}
		c.Class("raise:" + m.kind)
		c.Class("policy:cpu=" + base.effPolicy(0) + ",mem=" + base.effPolicy(1))
		sig := "monotone:" + m.kind
		decreased := false
		cmp := func(where string, zi, r int, before, after *big.Rat) bool {
			if after.Cmp(new(big.Rat).Add(before, c09Tol)) > 0 {
				full := sig + ":" + where + "-" + c09ResName[r] + "-raised"
				if m.kind == "drop-metric" { // same defect class as in batchBound
					full = where + ":no-metric-pod-not-charged-at-request:" + base.effPolicy(r)
				}
				return c.Violation(t, full,
					"%s: %s(%d) %s went UP from %s to %s (policy %s)\nbefore items=%s\nafter  items=%s\nbase case=%s\nraised case=%s",
					m.desc, where, zi, c09ResName[r], c09F(before), c09F(after), base.effPolicy(r), pb.raw, pm.raw, base, mut)
			}
			if after.Cmp(before) < 0 {
				decreased = true
			}
			return false
		}
		for r := 0; r < 2; r++ {
			if cmp("node", -1, r, pb.node[r], pm.node[r]) {
				return
			}
		}
		if len(pb.zones) != len(pm.zones) {
			c.Violation(t, "monotone:zone-set-changed", "%s: zones before %d after %d\ncase=%s", m.desc, len(pb.zones), len(pm.zones), base)
			return
		}
		for zi := range pb.zones {
			for r := 0; r < 2; r++ {
				if cmp("zone", zi, r, pb.zones[zi][r], pm.zones[zi][r]) {
					return
				}
			}
		}
		c.ClassIf(decreased, "raise-lowered-a-published-amount")
		c.ClassIf(len(pb.zones) > 0, "with-zones")
		if decreased || (m.kind == "drop-metric" && (pb.node[0].Sign() > 0 || pb.node[1].Sign() > 0)) {
			c.NonTrivial(base.String(), m.desc)
		}
		if c.WantSample() {
			c.Sample(map[string]any{"raise": m.desc, "before": pb.raw, "after": pm.raw, "case": base})
		}
	})
}

// ---------------------------------------------------------------- (4) staleness: degraded metrics withdraw the resources

func TestVerifC09BatchStale(t *testing.T) {
	c09Quiet()
	rec := vk.New(t, "C09", "batchStale")
	rapid.Check(t, func(t *rapid.T) {
		c := rec.Begin()
		defer c.End()
		_ = rapid.IntRange(0, 1<<10).Draw(t, "salt")
		cs := c09GenCase(t)
		window := cs.DegradeMin * 60
		var ut *metav1.Time
		var age int64
		mode := rapid.SampledFrom([]string{"no-update-time", "no-update-time-no-node-metric", "just-stale", "stale", "very-stale", "boundary", "fresh", "future"}).Draw(t, "staleness")
		switch mode {
		case "no-update-time", "no-update-time-no-node-metric":
		case "just-stale":
			age = window + 1
		case "stale":
			age = window + rapid.Int64Range(1, 3600).Draw(t, "beyond")
		case "very-stale":
			age = window + rapid.Int64Range(3600, 30*24*3600).Draw(t, "beyond")
		case "boundary":
			age = window
		case "fresh":
			age = rapid.Int64Range(0, window).Draw(t, "age")
		case "future": // clock skew between koordlet and manager
			age = -rapid.Int64Range(1, 3600).Draw(t, "skew")
		}
		if mode != "no-update-time" && mode != "no-update-time-no-node-metric" {
			ut = &metav1.Time{Time: c09Now.Add(-time.Duration(age) * time.Second)}
		}
		o := cs.build(ut)
		if mode == "no-update-time-no-node-metric" { // NodeMetric object not found / never reported: empty status
			o.metrics.NodeMetric.Status = slov1alpha1.NodeMetricStatus{}
		}
		// the node still carries the amounts of an earlier reconcile
		old := [2]int64{rapid.Int64Range(1, cs.Cap[0]).Draw(t, "oldBatchCPU"), rapid.Int64Range(1, cs.Cap[1]).Draw(t, "oldBatchMem")}
		for _, rl := range []corev1.ResourceList{o.node.Status.Allocatable, o.node.Status.Capacity} {
			rl[extension.BatchCPU] = *resource.NewQuantity(old[0], resource.DecimalSI)
			rl[extension.BatchMemory] = *resource.NewQuantity(old[1], resource.BinarySI)
		}
		if o.node.Annotations == nil {
			o.node.Annotations = map[string]string{}
		}
		restore := c09Env(o.nrt)
		defer restore()
		p := &Plugin{}
		items, err := p.Calculate(o.strategy, o.node, o.pods, o.metrics)
		if err != nil {
			c.Violation(t, "calculate:error-or-malformed", "%v\ncase=%s", err, cs)
			return
		}
		stale := ut == nil || age > window
		c.Class("staleness:" + mode)
		c.ClassIf(stale, "degraded-expected")
		if !stale {
			for _, it := range items {
				c.ClassIf(it.Reset, "reset-on-fresh-metrics(not asserted)")
			}
			return
		}
		names := map[corev1.ResourceName]bool{}
		for _, it := range items {
			names[it.Name] = true
			if !it.Reset || it.Quantity != nil || len(it.ZoneQuantity) > 0 {
				c.Violation(t, "stale:quantity-published-on-degraded-metrics",
					"metrics %s (age %ds, degrade window %ds) but item %s reset=%v quantity=%v zones=%v\ncase=%s", mode, age, window, it.Name, it.Reset, it.Quantity, it.ZoneQuantity, cs)
				return
			}
		}
		if !names[extension.BatchCPU] || !names[extension.BatchMemory] {
			c.Violation(t, "stale:resource-not-withdrawn", "degraded result does not cover both batch resources: %+v\ncase=%s", items, cs)
			return
		}
		// end to end: applying the result to the node removes the old amounts
		nr := framework.NewNodeResource(items...)
		if err := p.Prepare(o.strategy, o.node, nr); err != nil {
			c.Violation(t, "stale:prepare-error", "%v", err)
			return
		}
		for _, rn := range []corev1.ResourceName{extension.BatchCPU, extension.BatchMemory} {
			if q, ok := o.node.Status.Allocatable[rn]; ok {
				c.Violation(t, "stale:old-amount-kept-on-node", "metrics %s: node still advertises %s=%s after degraded reconcile\ncase=%s", mode, rn, q.String(), cs)
				return
			}
			if q, ok := o.node.Status.Capacity[rn]; ok {
				c.Violation(t, "stale:old-amount-kept-on-node", "metrics %s: node capacity still has %s=%s after degraded reconcile\ncase=%s", mode, rn, q.String(), cs)
				return
			}
		}
		c.NonTrivial(mode, age, cs.String())
		if c.WantSample() {
			c.Sample(map[string]any{"staleness": mode, "ageSeconds": age, "windowSeconds": window, "items": fmt.Sprintf("%+v", items)})
		}
	})
}
