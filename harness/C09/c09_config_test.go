//go:build verif

// C09 — configuration gate. "All colocation strategy settings" reach the calculation only through the slo-controller
// config cache: a ConfigMap event is parsed, merged with the defaults and validated (sloconfig.IsColocationStrategyValid,
// an anchor file of the property); a rejected configuration is not used (the previous one stays in force), a rejected
// node-pool strategy falls back to the cluster strategy. This test offers generated configurations — including
// out-of-range percentages (negative, > 100) and other illegal values — through the real event handler, reconciles the
// node with the real NodeResourceReconciler and judges what the Node then advertises against the configuration that is
// actually in force (read back from the cache): never negative, within the percentage cap, within
// capacity - margin - system usage - high-priority requests. The harness does not predict accept/reject.
package noderesource

import (
	"context"
	"fmt"
	"io"
	"math/big"
	"reflect"
	"strings"
	"testing"
	"time"

	corev1 "k8s.io/api/core/v1"
	"k8s.io/apimachinery/pkg/api/resource"
	metav1 "k8s.io/apimachinery/pkg/apis/meta/v1"
	"k8s.io/apimachinery/pkg/types"
	"k8s.io/client-go/tools/record"
	"k8s.io/client-go/util/workqueue"
	"k8s.io/klog/v2"
	fakeclock "k8s.io/utils/clock/testing"
	"pgregory.net/rapid"
	ctrl "sigs.k8s.io/controller-runtime"
	"sigs.k8s.io/controller-runtime/pkg/builder"
	ctrlclient "sigs.k8s.io/controller-runtime/pkg/client"
	"sigs.k8s.io/controller-runtime/pkg/client/fake"
	"sigs.k8s.io/controller-runtime/pkg/event"
	"sigs.k8s.io/controller-runtime/pkg/reconcile"

	"github.com/koordinator-sh/koordinator/apis/configuration"
	"github.com/koordinator-sh/koordinator/apis/extension"
	slov1alpha1 "github.com/koordinator-sh/koordinator/apis/slo/v1alpha1"
	"github.com/koordinator-sh/koordinator/pkg/slo-controller/config"
	"github.com/koordinator-sh/koordinator/pkg/slo-controller/noderesource/framework"
	"github.com/koordinator-sh/koordinator/pkg/util/sloconfig"
	"github.com/koordinator-sh/koordinator/pkg/util/testutil"
	"github.com/koordinator-sh/koordinator/pkg/verifkit/vk"
)

// percentage fields of the colocation strategy; legalMax < 0 means "no documented upper limit"
var c09gPctFields = []struct {
	name     string
	legalMax int64
}{
	{"batchMemoryThresholdPercent", -1}, {"batchCPUThresholdPercent", -1},
	{"cpuReclaimThresholdPercent", -1}, {"memoryReclaimThresholdPercent", -1},
	{"midCPUThresholdPercent", 100}, {"midMemoryThresholdPercent", 100}, {"midUnallocatedPercent", 100},
}

type c09gOffer struct {
	json      string
	illegal   []string // what was offered out of range, for classes
	negBatch  bool
	nodeCfgs  int
	nodeIll   bool
	hasEnable bool
}

// c09gFields renders a partial strategy; nIllegal fields get an out-of-range value.
func c09gFields(t *rapid.T, label string, nIllegal int, cluster bool, off *c09gOffer, nodeLevel bool) []string {
	var f []string
	present := make([]bool, len(c09gPctFields))
	var idx []int
	for i := range c09gPctFields {
		p := 2
		if !cluster && i >= 4 { // node-pool configs mostly tune the batch side
			p = 4
		}
		present[i] = rapid.IntRange(0, p).Draw(t, label+"Has"+c09gPctFields[i].name) == 0 || (i < 2 && rapid.Bool().Draw(t, label+"HasCap"))
		if present[i] {
			idx = append(idx, i)
		}
	}
	bad := map[int]bool{}
	for k := 0; k < nIllegal && len(idx) > 0; k++ {
		bad[idx[rapid.IntRange(0, len(idx)-1).Draw(t, label+"IllegalField")]] = true
	}
	for i, fld := range c09gPctFields {
		if !present[i] {
			continue
		}
		var v int64
		switch {
		case bad[i]:
			if fld.legalMax >= 0 && rapid.Bool().Draw(t, label+"Above") {
				v = rapid.SampledFrom([]int64{101, 150, 200, 1000}).Draw(t, label+"Over"+fld.name)
				off.illegal = append(off.illegal, fld.name+":>100")
			} else {
				v = rapid.SampledFrom([]int64{-20, -1, -100, -5}).Draw(t, label+"Neg"+fld.name)
				off.illegal = append(off.illegal, fld.name+":negative")
				if i < 2 {
					off.negBatch = true
				}
			}
			if nodeLevel {
				off.nodeIll = true
			}
		case i < 2: // batch caps
			v = rapid.OneOf(rapid.Int64Range(0, 100), rapid.SampledFrom([]int64{0, 100, 50, 120})).Draw(t, label+fld.name)
		case i < 4: // reclaim thresholds
			v = rapid.OneOf(rapid.Int64Range(40, 100), rapid.SampledFrom([]int64{0, 100, 65, 130})).Draw(t, label+fld.name)
		default:
			v = rapid.Int64Range(0, 100).Draw(t, label+fld.name)
		}
		f = append(f, fmt.Sprintf("%q:%d", fld.name, v))
	}
	if rapid.IntRange(0, 3).Draw(t, label+"HasPolicy") == 0 {
		f = append(f, fmt.Sprintf("%q:%q", "cpuCalculatePolicy", rapid.SampledFrom([]string{"usage", "maxUsageRequest"}).Draw(t, label+"CPUPolicy")))
	}
	if rapid.IntRange(0, 3).Draw(t, label+"HasMemPolicy") == 0 {
		f = append(f, fmt.Sprintf("%q:%q", "memoryCalculatePolicy", rapid.SampledFrom([]string{"usage", "request", "maxUsageRequest"}).Draw(t, label+"MemPolicy")))
	}
	if cluster {
		dg := rapid.IntRange(0, 9).Draw(t, label+"Degrade")
		if nIllegal == 0 && dg == 9 {
			dg = 0
		}
		switch dg {
		case 9:
			f = append(f, fmt.Sprintf("%q:%d", "degradeTimeMinutes", rapid.SampledFrom([]int64{0, -5}).Draw(t, label+"DegradeBad")))
			off.illegal = append(off.illegal, "degradeTimeMinutes:<1")
		case 0, 1, 2:
			f = append(f, fmt.Sprintf("%q:%d", "degradeTimeMinutes", rapid.Int64Range(5, 60).Draw(t, label+"DegradeMin")))
		}
		df := rapid.IntRange(0, 9).Draw(t, label+"Diff")
		if nIllegal == 0 && df == 9 {
			df = 0
		}
		switch df {
		case 9:
			f = append(f, fmt.Sprintf("%q:%s", "resourceDiffThreshold", rapid.SampledFrom([]string{"0", "-0.1"}).Draw(t, label+"DiffBad")))
			off.illegal = append(off.illegal, "resourceDiffThreshold:<=0")
		case 0, 1:
			f = append(f, fmt.Sprintf("%q:%s", "resourceDiffThreshold", rapid.SampledFrom([]string{"0.1", "0.01", "0.5"}).Draw(t, label+"DiffOK")))
		}
		if rapid.IntRange(0, 3).Draw(t, label+"HasUpd") == 0 {
			f = append(f, fmt.Sprintf("%q:%d", "updateTimeThresholdSeconds", rapid.Int64Range(1, 300).Draw(t, label+"Upd")))
		}
	}
	return f
}

func c09gOfferGen(t *rapid.T, legalCluster bool) c09gOffer {
	off := c09gOffer{}
	nIll := 0
	if !legalCluster {
		nIll = rapid.SampledFrom([]int{1, 0, 1, 2}).Draw(t, "illegalClusterFields")
	}
	f := c09gFields(t, "cluster", nIll, true, &off, false)
	if !rapid.SampledFrom([]bool{false, false, false, false, false, false, false, false, false, false, false, true}).Draw(t, "enableOmitted") {
		f = append([]string{`"enable":true`}, f...)
		off.hasEnable = true
	}
	off.nodeCfgs = rapid.SampledFrom([]int{0, 1, 1, 2}).Draw(t, "nodeConfigs")
	var ncs []string
	for i := 0; i < off.nodeCfgs; i++ {
		nf := c09gFields(t, "nodeCfg", rapid.SampledFrom([]int{0, 0, 1}).Draw(t, "illegalNodeFields"), false, &off, true)
		if len(nf) == 0 {
			nf = []string{fmt.Sprintf("%q:%d", "cpuReclaimThresholdPercent", rapid.Int64Range(40, 100).Draw(t, "nodeCfgThr"))}
		}
		sel := fmt.Sprintf(`"name":"pool-%d","nodeSelector":{"matchLabels":{"pool":%q}}`, i, rapid.SampledFrom([]string{"a", "b"}).Draw(t, "selPool"))
		ncs = append(ncs, "{"+sel+","+strings.Join(nf, ",")+"}")
	}
	if len(ncs) > 0 {
		f = append(f, `"nodeConfigs":[`+strings.Join(ncs, ",")+"]")
	}
	off.json = "{" + strings.Join(f, ",") + "}"
	return off
}

func c09gPct(p *int64) *big.Rat {
	if p == nil {
		return nil
	}
	return big.NewRat(*p, 100)
}

func TestVerifC09ConfigGate(t *testing.T) {
	klog.LogToStderr(false)
	klog.SetOutput(io.Discard)
	rec := vk.New(t, "C09", "configGate")
	queue := workqueue.NewTypedRateLimitingQueue[reconcile.Request](workqueue.DefaultTypedControllerRateLimiter[reconcile.Request]())
	defer queue.ShutDown()
	drain := func() {
		for queue.Len() > 0 {
			it, _ := queue.Get()
			queue.Forget(it)
			queue.Done(it)
		}
	}
	tol := big.NewRat(2, 1)
	rapid.Check(t, func(t *rapid.T) {
		c := rec.Begin()
		defer c.End()
		ctx := context.Background()
		drain()
		capCPU := 1000 * rapid.SampledFrom([]int64{16, 8, 32, 64, 100}).Draw(t, "capCores")
		capMem := (int64(1) << 30) * rapid.Int64Range(8, 512).Draw(t, "capGiB")
		capacity := [2]int64{capCPU, capMem}
		pool := rapid.SampledFrom([]string{"a", "b"}).Draw(t, "pool")
		sys := [2]int64{rapid.Int64Range(0, capCPU/8).Draw(t, "sysCPU"), rapid.Int64Range(0, capMem/8).Draw(t, "sysMem")}

		cl := fake.NewClientBuilder().WithScheme(c09rScheme).
			WithIndex(&corev1.Pod{}, "spec.nodeName", func(obj ctrlclient.Object) []string {
				return []string{obj.(*corev1.Pod).Spec.NodeName}
			}).Build()
		handler := config.NewColocationHandlerForConfigMapEvent(cl, *sloconfig.NewDefaultColocationCfg(), &record.FakeRecorder{})
		ctlClock := fakeclock.NewFakeClock(time.Date(2024, 5, 17, 12, 0, 0, 0, time.UTC))
		r := &NodeResourceReconciler{Client: cl, cfgCache: handler, Recorder: &record.FakeRecorder{}, NodeSyncContext: framework.NewSyncContext(), Clock: ctlClock}
		opt := framework.NewOption().WithClient(cl).WithScheme(c09rScheme).WithControllerBuilder(builder.ControllerManagedBy(&testutil.FakeManager{}))
		framework.RunSetupExtenders(opt)

		node := &corev1.Node{ObjectMeta: metav1.ObjectMeta{Name: c09rNode, Labels: map[string]string{"pool": pool}}}
		node.Status.Capacity = c09rRL(capCPU, capMem)
		node.Status.Allocatable = c09rRL(capCPU, capMem)
		if err := cl.Create(ctx, node); err != nil {
			t.Fatalf("harness: create node: %v", err)
		}
		// fresh metrics (see c09_reconcile_test.go about the wall clock); no pod metrics: pods are charged at their request
		nm := &slov1alpha1.NodeMetric{ObjectMeta: metav1.ObjectMeta{Name: c09rNode}}
		nm.Status.UpdateTime = &metav1.Time{Time: time.Now().Add(-10 * time.Second).Truncate(time.Second)}
		nm.Status.NodeMetric = &slov1alpha1.NodeMetricInfo{
			SystemUsage: slov1alpha1.ResourceMap{ResourceList: c09rRL(sys[0], sys[1])},
			NodeUsage:   slov1alpha1.ResourceMap{ResourceList: c09rRL(sys[0], sys[1])},
		}
		if rapid.Bool().Draw(t, "prodReclaimable") {
			nm.Status.ProdReclaimableMetric = &slov1alpha1.ReclaimableMetric{Resource: slov1alpha1.ResourceMap{
				ResourceList: c09rRL(rapid.Int64Range(0, capCPU/4).Draw(t, "reclaimCPU"), rapid.Int64Range(0, capMem/4).Draw(t, "reclaimMem"))}}
		}
		if err := cl.Create(ctx, nm); err != nil {
			t.Fatalf("harness: create NodeMetric: %v", err)
		}
		var podReq [2]int64
		for i, n := 0, rapid.IntRange(0, 2).Draw(t, "pods"); i < n; i++ {
			pod := &corev1.Pod{ObjectMeta: metav1.ObjectMeta{Name: fmt.Sprintf("p%d", i), Namespace: "ns",
				Labels: map[string]string{extension.LabelPodQoS: string(extension.QoSLS), extension.LabelPodPriorityClass: string(extension.PriorityProd)}}}
			pod.Spec.NodeName = c09rNode
			q := [2]int64{rapid.Int64Range(1, capCPU/8).Draw(t, "podCPU"), rapid.Int64Range(1, capMem/8).Draw(t, "podMem")}
			pod.Spec.Containers = []corev1.Container{{Name: "c", Resources: corev1.ResourceRequirements{Requests: c09rRL(q[0], q[1])}}}
			pod.Status.Phase = corev1.PodRunning
			if err := cl.Create(ctx, pod); err != nil {
				t.Fatalf("harness: create pod: %v", err)
			}
			podReq[0] += q[0]
			podReq[1] += q[1]
		}

		var hist []string
		var oldCM *corev1.ConfigMap
		sawIllegalThenPublished, sawRejected, sawAccepted := false, false, false
		versions := rapid.IntRange(1, 3).Draw(t, "configVersions")
		for v := 0; v < versions; v++ {
			// the first offer is usually legal so that a configuration is in force when illegal ones arrive
			off := c09gOfferGen(t, v == 0 && rapid.SampledFrom([]bool{true, true, false}).Draw(t, "firstOfferLegal"))
			cm := &corev1.ConfigMap{ObjectMeta: metav1.ObjectMeta{Namespace: sloconfig.ConfigNameSpace, Name: sloconfig.SLOCtrlConfigMap},
				Data: map[string]string{configuration.ColocationConfigKey: off.json}}
			before := handler.GetCfgCopy()
			wasAvailable := handler.IsCfgAvailable()
			if oldCM == nil {
				handler.Create(ctx, event.CreateEvent{Object: cm}, queue)
			} else {
				handler.Update(ctx, event.UpdateEvent{ObjectOld: oldCM, ObjectNew: cm}, queue)
			}
			oldCM = cm
			drain()
			changed := !reflect.DeepEqual(before, handler.GetCfgCopy()) || wasAvailable != handler.IsCfgAvailable()
			hist = append(hist, fmt.Sprintf("config v%d offered %s (out of range: %v) -> cache changed=%v available=%v", v, off.json, off.illegal, changed, handler.IsCfgAvailable()))
			for _, ill := range off.illegal {
				c.Class("offered-out-of-range:" + ill)
			}
			c.ClassIf(len(off.illegal) == 0, "offered-all-legal")
			c.ClassIf(off.negBatch, "offered-negative-batch-cap")
			c.ClassIf(off.negBatch && len(off.illegal) == 1, "offered-negative-batch-cap-as-only-illegal-field")
			c.ClassIf(off.nodeIll, "offered-illegal-node-pool-strategy")
			if len(off.illegal) > 0 && !changed {
				sawRejected = true
			}
			if changed {
				sawAccepted = true
			}

			ctlClock.Step(10 * 365 * 24 * time.Hour) // the sync interval has always expired: the node shows the current calculation
			res, err := r.Reconcile(ctx, ctrl.Request{NamespacedName: types.NamespacedName{Name: c09rNode}})
			got := &corev1.Node{}
			if e := cl.Get(ctx, types.NamespacedName{Name: c09rNode}, got); e != nil {
				t.Fatalf("harness: get node: %v", e)
			}
			hist = append(hist, fmt.Sprintf("reconcile -> err=%v requeue=%v node advertises %v", err, res.Requeue, c09rPublished(got)))
			if err != nil || res.Requeue {
				c.Class("reconcile-error-or-requeue(not asserted)")
				continue
			}
			if !handler.IsCfgAvailable() {
				c.Class("config-cache-unavailable(first offer rejected)")
				continue
			}
			// the strategy in force for this node: cluster strategy of the cache, overridden by the first node-pool entry that selects the node
			cfg := handler.GetCfgCopy()
			st := cfg.ColocationStrategy
			for i := range cfg.NodeConfigs {
				nc := cfg.NodeConfigs[i]
				if nc.NodeSelector == nil {
					continue
				}
				match := true
				for k, val := range nc.NodeSelector.MatchLabels {
					if got.Labels[k] != val {
						match = false
					}
				}
				if match && len(nc.NodeSelector.MatchExpressions) == 0 {
					st = nc.ColocationStrategy
					c.Class("node-pool-strategy-in-force")
					break
				}
			}
			inForce := fmt.Sprintf("cpuThr=%v memThr=%v batchCPUCap=%v batchMemCap=%v midCPUThr=%v midMemThr=%v cpuPolicy=%v memPolicy=%v",
				c09gP(st.CPUReclaimThresholdPercent), c09gP(st.MemoryReclaimThresholdPercent), c09gP(st.BatchCPUThresholdPercent), c09gP(st.BatchMemoryThresholdPercent),
				c09gP(st.MidCPUThresholdPercent), c09gP(st.MidMemoryThresholdPercent), c09gS(st.CPUCalculatePolicy), c09gS(st.MemoryCalculatePolicy))
			fail := func(sig, what string) bool {
				return c.Violation(t, sig, "%s\nstrategy in force for the node: %s\ncapacity cpu=%dm mem=%d, system usage cpu=%dm mem=%d, prod requests (no metrics) cpu=%dm mem=%d\nhistory:\n  %s",
					what, inForce, capCPU, capMem, sys[0], sys[1], podReq[0], podReq[1], c09rJoin(hist))
			}
			published := false
			for _, rl := range []corev1.ResourceList{got.Status.Allocatable, got.Status.Capacity} {
				for ai, rn := range c09rAmounts {
					q, ok := rl[rn]
					if !ok {
						continue
					}
					published = true
					r2 := ai % 2 // cpu, memory
					val := new(big.Rat).SetFrac(big.NewInt(q.MilliValue()), big.NewInt(1000))
					if val.Sign() < 0 {
						if fail("config-gate:negative-amount-published:"+string(rn), fmt.Sprintf("%s=%s is negative", rn, q.String())) {
							return
						}
						continue
					}
					capR := new(big.Rat).SetInt64(capacity[r2])
					if ai >= 2 { // mid: within capacity * mid threshold
						thr := c09gPct([]*int64{st.MidCPUThresholdPercent, st.MidMemoryThresholdPercent}[r2])
						if thr != nil && val.Cmp(new(big.Rat).Add(new(big.Rat).Mul(capR, thr), tol)) > 0 {
							if fail("config-gate:mid-over-threshold-cap:"+string(rn), fmt.Sprintf("%s=%s exceeds capacity*threshold", rn, q.String())) {
								return
							}
						}
						continue
					}
					thr := c09gPct([]*int64{st.CPUReclaimThresholdPercent, st.MemoryReclaimThresholdPercent}[r2])
					pct := c09gPct([]*int64{st.BatchCPUThresholdPercent, st.BatchMemoryThresholdPercent}[r2])
					if pct != nil && val.Cmp(new(big.Rat).Add(new(big.Rat).Mul(capR, pct), tol)) > 0 {
						if fail("config-gate:over-percent-cap:"+string(rn), fmt.Sprintf("%s=%s exceeds capacity*cap", rn, q.String())) {
							return
						}
						continue
					}
					if thr != nil {
						bound := new(big.Rat).Mul(capR, thr) // capacity - margin
						if !(r2 == 1 && st.MemoryCalculatePolicy != nil && *st.MemoryCalculatePolicy == configuration.CalculateByPodRequest) {
							bound.Sub(bound, new(big.Rat).SetInt64(sys[r2]))
						}
						bound.Sub(bound, new(big.Rat).SetInt64(podReq[r2]))
						if bound.Sign() < 0 {
							bound.SetInt64(0)
						}
						if val.Cmp(bound.Add(bound, tol)) > 0 {
							if fail("config-gate:over-bound:"+string(rn), fmt.Sprintf("%s=%s exceeds capacity - margin - system usage - prod requests = %s", rn, q.String(), bound.FloatString(1))) {
								return
							}
						}
					}
				}
			}
			c.ClassIf(published, "amounts-published")
			if published && len(off.illegal) > 0 {
				sawIllegalThenPublished = true
			}
		}
		c.ClassIf(sawRejected, "illegal-offer-left-cache-unchanged")
		c.ClassIf(sawAccepted, "offer-changed-cache")
		if sawIllegalThenPublished {
			c.NonTrivial(hist)
		}
		if c.WantSample() {
			c.Sample(map[string]any{"history": hist})
		}
	})
}

func c09gP(p *int64) string {
	if p == nil {
		return "nil"
	}
	return fmt.Sprint(*p)
}

func c09gS(p *configuration.CalculatePolicy) string {
	if p == nil {
		return "nil"
	}
	return string(*p)
}

var _ = resource.DecimalSI
